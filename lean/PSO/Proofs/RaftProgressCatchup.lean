import PSO.Proofs.RaftProgressBasic

/-!
# Progress (C05), part 2: catch-up of one follower / observer, commit advance

One round `sendAppend; recvAppend` from ANY state satisfying the invariant: accepted ⇒ agreement
with the leader extended by the batch, rejected ⇒ nothing lost; the snapshot round; a full
re-synchronisation from position 0; enabledness of `advanceCommit` under a majority of
acknowledgements.
-/
namespace PSO.Raft

theorem leader_tl {N : Nat} {s : State} (h : Inv N s) {l : Nat} (hr : (s.nodes l).role = .leader) :
    s.g.termLog (s.nodes l).term = (s.nodes l).log := (h.l.ldr_log l hr).symm

theorem log_pos {N : Nat} {s : State} (h : Inv N s) (n : Nat) : 0 < (s.nodes n).log.length := by
  have := h.l.log_sent n
  cases hl : (s.nodes n).log with
  | nil => rw [hl] at this; simp at this
  | cons x xs => simp

theorem termAt_eq_getElem {L : List Entry} {p : Nat} (hp : p < L.length) : termAt L p = (L[p]).term := by
  unfold termAt; rw [List.getElem?_eq_getElem hp]; rfl

/-- One accepted replication round (leader `l`, any other node `f` — voter or observer — whose term is
not newer): the follower's log agrees with the leader's up to the end of the batch, the position is
acknowledged. Holds for EVERY `prev` whose consistency check passes, every batch size `k`. -/
theorem append_round {N : Nat} {s : State} (h : Inv N s) {l f prev k c : Nat}
    (hl : l < N) (hf : f ≠ l) (hr : (s.nodes l).role = .leader)
    (hterm : (s.nodes f).term ≤ (s.nodes l).term)
    (hprev : prev < (s.nodes l).log.length) (hc : c ≤ (s.nodes l).commit)
    (hp : prev < (s.nodes f).log.length)
    (hpt : termAt (s.nodes f).log prev = termAt (s.nodes l).log prev) :
    ∃ s', run N s [.sendAppend l f prev k c,
        .recvAppend f (.append (s.nodes l).term l f prev (termAt (s.nodes l).log prev)
          (((s.nodes l).log.drop (prev + 1)).take k) c)] = some s' ∧
      Agree (s'.nodes f).log (s.nodes l).log (prev + (((s.nodes l).log.drop (prev + 1)).take k).length) ∧
      (s'.nodes f).log = mergeEntries (s.nodes f).log prev (((s.nodes l).log.drop (prev + 1)).take k) ∧
      ((s'.nodes f).log = (s.nodes f).log ∨
        (s'.nodes f).log.length = prev + (((s.nodes l).log.drop (prev + 1)).take k).length + 1) ∧
      (s'.nodes f).term = (s.nodes l).term ∧ (s'.nodes f).role = .follower ∧
      (s'.nodes f).applied = (s.nodes f).applied ∧
      (s'.nodes f).commit = (if (s.nodes f).commit < c then
          max (s.nodes f).commit (min c (prev + (((s.nodes l).log.drop (prev + 1)).take k).length))
        else (s.nodes f).commit) ∧
      (∀ x, x ≠ f → s'.nodes x = s.nodes x) ∧
      Msg.ack (s.nodes l).term f l (prev + (((s.nodes l).log.drop (prev + 1)).take k).length) ∈ s'.msgs ∧
      (∀ x ∈ s.msgs, x ∈ s'.msgs) ∧
      prev + (((s.nodes l).log.drop (prev + 1)).take k).length ≤ s'.g.acked (s.nodes l).term f := by
  generalize hes : ((s.nodes l).log.drop (prev + 1)).take k = es
  have h1 := step_sendAppend (N := N) (s := s) (k := k) hl hf hr hprev hc
  rw [hes] at h1
  obtain ⟨s2, h2, hfr, hlog, hT, hrole, happ, hcm, hmsgs, hack⟩ :=
    step_recvAppend_accept (N := N)
      (s := { s with msgs := s.msgs ++ [Msg.append (s.nodes l).term l f prev (termAt (s.nodes l).log prev) es c] })
      (n := f) (t := (s.nodes l).term) (ldr := l) (prev := prev) (pt := termAt (s.nodes l).log prev) (es := es) (c := c)
      (List.mem_append_right _ (List.mem_singleton.mpr rfl)) (by simpa using hterm) hp hpt
  have htl := leader_tl h hr
  have hag0 : Agree (s.nodes f).log (s.nodes l).log prev := by
    have := invL_H h.l f (s.nodes l).term prev hp (by rw [htl]; exact hprev) (by rw [htl]; exact hpt)
    rwa [htl] at this
  have hH : ∀ p, p < (s.nodes f).log.length → p < (s.nodes l).log.length →
      termAt (s.nodes f).log p = termAt (s.nodes l).log p → Agree (s.nodes f).log (s.nodes l).log p := by
    intro p hp1 hp2 heq
    have := invL_H h.l f (s.nodes l).term p hp1 (by rw [htl]; exact hp2) (by rw [htl]; exact heq)
    rwa [htl] at this
  have hpre : es <+: (s.nodes l).log.drop (prev + 1) := by rw [← hes]; exact List.take_prefix _ _
  obtain ⟨hm1, hm2⟩ := merge_agree (s.nodes l).log es (s.nodes f).log prev hag0 hp hpre hH
  refine ⟨s2, run_cons_some h1 (run_one h2), ?_, hlog, ?_, hT, hrole, happ, hcm, hfr, ?_, ?_, ?_⟩
  · rw [hlog]; exact hm1
  · rw [hlog]; exact hm2
  · rw [hmsgs]; exact List.mem_append_right _ (List.mem_singleton.mpr rfl)
  · intro x hx; rw [hmsgs]; exact List.mem_append_left _ (mem_erase_snoc hx)
  · rw [hack]; exact Nat.le_max_right _ _

/-- A rejected round (the follower does not hold `prev`, or holds another term there) loses nothing:
the follower only adopts the leader's term; its log, commit and applied positions are untouched, so
the leader can retry with a smaller `prev` — ultimately `prev = 0`, which always matches. -/
theorem append_round_rejected {N : Nat} {s : State} {l f prev k c : Nat}
    (hl : l < N) (hf : f ≠ l) (hr : (s.nodes l).role = .leader)
    (hterm : (s.nodes f).term ≤ (s.nodes l).term)
    (hprev : prev < (s.nodes l).log.length) (hc : c ≤ (s.nodes l).commit)
    (hrej : ¬ (prev < (s.nodes f).log.length ∧ termAt (s.nodes f).log prev = termAt (s.nodes l).log prev)) :
    ∃ s', run N s [.sendAppend l f prev k c,
        .recvAppend f (.append (s.nodes l).term l f prev (termAt (s.nodes l).log prev)
          (((s.nodes l).log.drop (prev + 1)).take k) c)] = some s' ∧
      (s'.nodes f).log = (s.nodes f).log ∧ (s'.nodes f).commit = (s.nodes f).commit ∧
      (s'.nodes f).applied = (s.nodes f).applied ∧ (s'.nodes f).term = (s.nodes l).term ∧
      (s'.nodes f).role = .follower ∧ (∀ x, x ≠ f → s'.nodes x = s.nodes x) ∧ s'.g = s.g := by
  have h1 := step_sendAppend (N := N) (s := s) (k := k) hl hf hr hprev hc
  obtain ⟨s2, h2, hfr, hnode, _, hg⟩ :=
    step_recvAppend_reject (N := N)
      (s := { s with msgs := s.msgs ++ [Msg.append (s.nodes l).term l f prev (termAt (s.nodes l).log prev)
        (((s.nodes l).log.drop (prev + 1)).take k) c] })
      (n := f) (t := (s.nodes l).term) (ldr := l) (prev := prev) (pt := termAt (s.nodes l).log prev)
      (es := ((s.nodes l).log.drop (prev + 1)).take k) (c := c)
      (List.mem_append_right _ (List.mem_singleton.mpr rfl)) (by simpa using hterm) hrej
  refine ⟨s2, run_cons_some h1 (run_one h2), ?_, ?_, ?_, ?_, ?_, hfr, hg⟩
  · rw [hnode]; simp
  · rw [hnode]; simp
  · rw [hnode]; simp
  · rw [hnode]; exact adoptTerm_term (by simpa using hterm)
  · rw [hnode]; simp

/-- A node whose log agrees with the whole log of a leader that ends with an entry of the leader's
own term cannot hold anything beyond the leader's end. -/
theorem not_longer {N : Nat} {s : State} (h : Inv N s) {l f : Nat} (hr : (s.nodes l).role = .leader)
    (hterm : (s.nodes f).term ≤ (s.nodes l).term)
    (hlast : termAt (s.nodes l).log ((s.nodes l).log.length - 1) = (s.nodes l).term)
    (hag : Agree (s.nodes f).log (s.nodes l).log ((s.nodes l).log.length - 1)) :
    (s.nodes f).log.length ≤ (s.nodes l).log.length := by
  by_contra hlt
  have hlt : (s.nodes l).log.length < (s.nodes f).log.length := by omega
  have hLpos := log_pos h l
  have htl := leader_tl h hr
  -- the follower's entry right behind the leader's end
  have hl2 := h.l.log_l2 f _ hlt
  have hu : termAt (s.nodes f).log (s.nodes l).log.length ≤ (s.nodes f).term := by
    rw [termAt_eq_getElem hlt]; exact h.l.log_terms f _ (List.getElem_mem _)
  have hsorted := log_sorted h.l f ((s.nodes l).log.length - 1) (s.nodes l).log.length (by omega) hlt
  rw [hag.termAt (Nat.le_refl _), hlast] at hsorted
  have heq : termAt (s.nodes f).log (s.nodes l).log.length = (s.nodes l).term := by omega
  rw [heq, htl] at hl2
  have := hl2.length_lt hlt
  omega

/-- Full re-synchronisation from position 0 (always accepted: every log starts with the same initial
entry): afterwards the follower's log IS the leader's log. -/
theorem full_sync {N : Nat} {s : State} (h : Inv N s) {l f k c : Nat}
    (hl : l < N) (hf : f ≠ l) (hr : (s.nodes l).role = .leader)
    (hterm : (s.nodes f).term ≤ (s.nodes l).term) (hc : c ≤ (s.nodes l).commit)
    (hk : (s.nodes l).log.length - 1 ≤ k)
    (hlast : termAt (s.nodes l).log ((s.nodes l).log.length - 1) = (s.nodes l).term) :
    ∃ s', run N s [.sendAppend l f 0 k c,
        .recvAppend f (.append (s.nodes l).term l f 0 0 ((s.nodes l).log.drop 1) c)] = some s' ∧
      (s'.nodes f).log = (s.nodes l).log ∧
      (s'.nodes f).term = (s.nodes l).term ∧ (s'.nodes f).role = .follower ∧
      (s'.nodes f).applied = (s.nodes f).applied ∧
      (s'.nodes f).commit = (if (s.nodes f).commit < c then
          max (s.nodes f).commit (min c ((s.nodes l).log.length - 1)) else (s.nodes f).commit) ∧
      (∀ x, x ≠ f → s'.nodes x = s.nodes x) ∧
      Msg.ack (s.nodes l).term f l ((s.nodes l).log.length - 1) ∈ s'.msgs ∧
      (∀ x ∈ s.msgs, x ∈ s'.msgs) := by
  have hLpos := log_pos h l
  have hFpos := log_pos h f
  have h0l := termAt_zero_of_sent (h.l.log_sent l)
  have h0f := termAt_zero_of_sent (h.l.log_sent f)
  have htake : ((s.nodes l).log.drop (0 + 1)).take k = (s.nodes l).log.drop 1 := by
    apply List.take_of_length_le; simp; omega
  obtain ⟨s2, hrun, hag, _, hcase, hT, hrole, happ, hcm, hfr, hack, hsub, _⟩ :=
    append_round (k := k) h hl hf hr hterm hLpos hc hFpos (by rw [h0l, h0f])
  rw [htake, h0l] at hrun
  rw [htake] at hag hcase hcm hack
  have hlen : 0 + ((s.nodes l).log.drop 1).length = (s.nodes l).log.length - 1 := by simp
  rw [hlen] at hag hcm hack
  refine ⟨s2, hrun, ?_, hT, hrole, happ, hcm, hfr, hack, hsub⟩
  have hagL : (s2.nodes f).log.take (s.nodes l).log.length = (s.nodes l).log := by
    have := hag
    unfold Agree at this
    rw [show (s.nodes l).log.length - 1 + 1 = (s.nodes l).log.length by omega] at this
    rw [this]; exact List.take_of_length_le (Nat.le_refl _)
  rcases hcase with hsame | hlen2
  · -- nothing was cut: the old log agrees with the leader's whole log, hence is not longer
    rw [hsame] at hag hagL ⊢
    have := not_longer h hr hterm hlast hag
    rw [← hagL]; exact (List.take_of_length_le this).symm
  · rw [← hagL]; symm; apply List.take_of_length_le; rw [hlen2]; simp; omega

/-- The snapshot round (leader sends its applied prefix up to `k`): afterwards the follower holds
the leader's log up to `k` — by keeping its own log when it already contains that prefix, by
installing the prefix otherwise — and never moves its applied position backwards. -/
theorem snapshot_round {N : Nat} {s : State} (h : Inv N s) {l f k c : Nat}
    (hl : l < N) (hf : f ≠ l) (hr : (s.nodes l).role = .leader)
    (hterm : (s.nodes f).term ≤ (s.nodes l).term)
    (hk : k ≤ (s.nodes l).applied) (hc : c ≤ (s.nodes l).commit) :
    ∃ s', run N s [.sendSnapshot l f k c,
        .recvSnapshot f (.snapshot (s.nodes l).term l f k (termAt (s.nodes l).log k) c
          ((s.nodes l).log.take (k + 1)))] = some s' ∧
      Agree (s'.nodes f).log (s.nodes l).log k ∧
      (s'.nodes f).term = (s.nodes l).term ∧
      (s.nodes f).applied ≤ (s'.nodes f).applied ∧
      (k ≤ c → k ≤ (s'.nodes f).commit) ∧
      (k ≤ (s'.nodes f).applied ∨ (s'.nodes f).log = (s.nodes f).log) ∧
      (∀ x, x ≠ f → s'.nodes x = s.nodes x) ∧
      Msg.ack (s.nodes l).term f l k ∈ s'.msgs ∧ k ≤ s'.g.acked (s.nodes l).term f := by
  have hkL : k < (s.nodes l).log.length := by
    have := h.a l; have := h.s.cm_lt l; omega
  have h1 := step_sendSnapshot (N := N) (s := s) hl hf hr hk hkL hc
  obtain ⟨s2, h2, hfr, hT, _, hkeep, hinst, hack, hacked⟩ :=
    step_recvSnapshot (N := N)
      (s := { s with msgs := s.msgs ++ [Msg.snapshot (s.nodes l).term l f k (termAt (s.nodes l).log k) c
        ((s.nodes l).log.take (k + 1))] })
      (n := f) (t := (s.nodes l).term) (ldr := l) (k := k) (kt := termAt (s.nodes l).log k) (c := c)
      (pfx := (s.nodes l).log.take (k + 1))
      (List.mem_append_right _ (List.mem_singleton.mpr rfl)) (by simpa using hterm)
  have htl := leader_tl h hr
  have hne : s.g.termLog (s.nodes l).term ≠ [] := by
    rw [htl]; intro hnil; have := log_pos h l; rw [hnil] at this; simp at this
  refine ⟨s2, run_cons_some h1 (run_one h2), ?_, hT, ?_, ?_, ?_, hfr, hack, hacked⟩
  · by_cases hcase : k ≤ (s.nodes f).applied ∨ (k < (s.nodes f).log.length ∧ termAt (s.nodes f).log k = termAt (s.nodes l).log k)
    · obtain ⟨hlog, _, _⟩ := hkeep hcase
      try simp only [] at hlog
      rw [hlog]
      rcases hcase with hka | ⟨hk1, hk2⟩
      · have := commit_agree_tl h.l h.s f (s.nodes l).term hterm hne
        rw [htl] at this
        exact this.mono (Nat.le_trans hka (h.a f))
      · have := invL_H h.l f (s.nodes l).term k hk1 (by rw [htl]; exact hkL) (by rw [htl]; exact hk2)
        rwa [htl] at this
    · obtain ⟨hlog, _, _⟩ := hinst hcase
      rw [hlog]; exact agree_take_self _ (Nat.le_refl k)
  · by_cases hcase : k ≤ (s.nodes f).applied ∨ (k < (s.nodes f).log.length ∧ termAt (s.nodes f).log k = termAt (s.nodes l).log k)
    · obtain ⟨_, happ, _⟩ := hkeep hcase
      try simp only [] at happ
      omega
    · obtain ⟨_, happ, _⟩ := hinst hcase
      try simp only [] at happ hcase
      omega
  · intro hkc
    by_cases hcase : k ≤ (s.nodes f).applied ∨ (k < (s.nodes f).log.length ∧ termAt (s.nodes f).log k = termAt (s.nodes l).log k)
    · obtain ⟨_, _, hcm⟩ := hkeep hcase
      try simp only [] at hcm
      rw [hcm]; split <;> omega
    · obtain ⟨_, _, hcm⟩ := hinst hcase
      rw [hcm]; exact Nat.le_max_right _ _
  · by_cases hcase : k ≤ (s.nodes f).applied ∨ (k < (s.nodes f).log.length ∧ termAt (s.nodes f).log k = termAt (s.nodes l).log k)
    · obtain ⟨hlog, _, _⟩ := hkeep hcase
      right; exact hlog
    · obtain ⟨_, happ, _⟩ := hinst hcase
      left; rw [happ]

/-- Acknowledgements of a majority (the leader counts itself) on an entry of the leader's own term
enable the commit advance: a connected majority suffices. -/
theorem commit_enabled {N : Nat} {s : State} {l i : Nat} (hl : l < N) (hr : (s.nodes l).role = .leader)
    (hci : (s.nodes l).commit < i) (hi : i < (s.nodes l).log.length)
    (hti : termAt (s.nodes l).log i = (s.nodes l).term)
    {Q : List Nat} (hQ : IsQuorum N Q) (hq : ∀ q ∈ Q, q = l ∨ i ≤ (s.nodes l).matchIdx q) :
    step N s (.advanceCommit l i) = some (setNode s l { s.nodes l with commit := i }) := by
  apply step_advanceCommit hl hr hci hi hti
  rw [isMajority_iff]
  obtain ⟨hnd, hlt, hmaj⟩ := hQ
  have hsub : Q.erase l ⊆ (others N l).filter (fun m => decide (i ≤ (s.nodes l).matchIdx m)) := by
    intro q hqe
    have hqQ : q ∈ Q := List.mem_of_mem_erase hqe
    have hql : q ≠ l := by
      intro heq; subst heq
      exact (List.Nodup.mem_erase_iff hnd).mp hqe |>.1 rfl
    rw [List.mem_filter]
    refine ⟨mem_others.mpr ⟨hlt q hqQ, hql⟩, ?_⟩
    rcases hq q hqQ with h | h
    · exact absurd h hql
    · simpa using h
  have hlen := ((hnd.erase l).subperm hsub).length_le
  have hel : Q.length - 1 ≤ (Q.erase l).length := by
    rw [List.length_erase]; split <;> omega
  unfold matchCount
  omega

end PSO.Raft
