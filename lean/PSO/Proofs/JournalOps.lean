import PSO.Proofs.JournalCrash
/-! Every `FileJournal` operation preserves the representation invariant, refines the list
operation, replays as its primitive writes, and is characterised at every crash point. -/
namespace PSO.Journal

/-- Object-level invariant. -/
def Inv (j : FJ) : Prop := DInv j.disk.file j.entries ∧ j.cur = 40 + encLen j.entries

/-- Crash predicate for operations on the journal file: `.meta`/`.tmp` as in `d0`, and the file
satisfies the disk invariant for an entry list allowed by `R`. -/
def QF (d0 : Disk) (R : List Entry → Prop) (d : Disk) : Prop :=
  d.metaFile = d0.metaFile ∧ d.tmp = d0.tmp ∧ ∃ es, DInv d.file es ∧ R es

theorem QF.mono {d0 R R' d} (h : QF d0 R d) (hr : ∀ r, R r → R' r) : QF d0 R' d :=
  ⟨h.1, h.2.1, let ⟨es, h1, h2⟩ := h.2.2; ⟨es, h1, hr _ h2⟩⟩

theorem encLen_mem {es : List Entry} {e : Entry} (h : e ∈ es) : recLen e ≤ encLen es := by
  induction es with
  | nil => simp at h
  | cons x xs ih =>
    simp only [encLen]
    rcases List.mem_cons.mp h with rfl | h'
    · omega
    · have := ih h'; omega

/-- `ResizableFile.write` never stores outside the mapping (defect D8 repaired). -/
theorem rfWrite_fits (f : Bytes) (off : Nat) (vs : Bytes) :
    ∀ p ∈ (rfWrite f off vs).2, ∀ o bs, p = Prim.store o bs →
      o + bs.length ≤ (rfWrite f off vs).1.length := by
  intro p hp o bs hpe
  unfold rfWrite at hp ⊢
  split at hp
  · rename_i hlt
    have hle : f.length ≤ max (2 * f.length) (off + vs.length) := by omega
    simp at hp
    rcases hp with rfl | rfl
    · cases hpe
    · cases hpe
      simp only [hlt, if_true]
      rw [storeAt_length (by rw [resizeFile_length hle]; omega), resizeFile_length hle]; omega
  · rename_i hge
    simp at hp; subst hp; cases hpe
    simp only [hge, if_false]
    rw [storeAt_length (by omega)]; omega

/-- A header-word store through `ResizableFile.write` on a file of at least 40 bytes. -/
theorem rfWrite_hdr {f : Bytes} (hf : 40 ≤ f.length) (x : Nat) :
    rfWrite f LAST_RECORD_OFFSET_OFFSET (leEnc 4 x) = (storeAt f 36 (leEnc 4 x), [.store 36 (leEnc 4 x)]) := by
  have : ¬ f.length < 36 + 4 := by omega
  simp [rfWrite, LAST_RECORD_OFFSET_OFFSET, this]

theorem setLast_ok {f : Bytes} (hf : 40 ≤ f.length) {x : Nat} (hx : x < U32) :
    setLast f x = .ok (storeAt f 36 (leEnc 4 x), [.store 36 (leEnc 4 x)]) := by
  simp [setLast, hx, rfWrite_hdr hf]

/-- Header store: the layout's entry list becomes the published one. -/
theorem DInv_storeHdr {f L es} (h : Lay f L es) (hL : L.length = 4) (hv : Valid es) (hs : 1024 ≤ f.length) :
    DInv (storeAt f 36 (leEnc 4 (40 + encLen es))) es := by
  refine ⟨h.storeHdr hL _ (by simp), hv, ?_⟩
  rw [storeAt_length (by simp; omega)]; exact hs

theorem crashAll_hdr {Q : Disk → Prop} {d : Disk} (x : Nat) (h0 : Q d)
    (h1 : Q { d with file := storeAt d.file 36 (leEnc 4 x) }) :
    CrashAll Q d [.store 36 (leEnc 4 x)] := by
  apply CrashAll.cons
  · intro t; rw [tornPrim_hdr _ _ (by simp)]; exact h0
  · exact CrashAll.nil h1

/-- The record store of `add`, with its possible growth, at every crash point. -/
theorem tailWrite {d d0 : Disk} {es : List Entry} (e : Entry) (h : DInv d.file es)
    (hm : d.metaFile = d0.metaFile) (ht : d.tmp = d0.tmp) :
    let w := rfWrite d.file (40 + encLen es) (encRecord e)
    applyPrims d w.2 = { d with file := w.1 } ∧
    Lay w.1 (leEnc 4 (40 + encLen es)) (es ++ [e]) ∧ 1024 ≤ w.1.length ∧
    CrashAll (QF d0 (fun r => r = es)) d w.2 := by
  obtain ⟨hl, hv, hs⟩ := h
  have hL : (leEnc 4 (40 + encLen es)).length = 4 := by simp
  have hrec : 4 < (encRecord e).length := by simp [recLen]; omega
  -- the store on a file `f'` that is large enough
  have key : ∀ f' : Bytes, Lay f' (leEnc 4 (40 + encLen es)) es → 1024 ≤ f'.length →
      40 + encLen es + recLen e ≤ f'.length → ∀ d' : Disk, d'.file = f' → d'.metaFile = d0.metaFile →
      d'.tmp = d0.tmp →
      Lay (storeAt f' (40 + encLen es) (encRecord e)) (leEnc 4 (40 + encLen es)) (es ++ [e]) ∧
      1024 ≤ (storeAt f' (40 + encLen es) (encRecord e)).length ∧
      CrashAll (QF d0 (fun r => r = es)) d' [.store (40 + encLen es) (encRecord e)] := by
    intro f' hl' hs' hfit d' hd' hm' ht'
    have hlen : (storeAt f' (40 + encLen es) (encRecord e)).length = f'.length :=
      storeAt_length (by simp; omega)
    refine ⟨hl'.storeRecord hL e hfit, by omega, ?_⟩
    apply CrashAll.cons
    · intro t
      rw [tornPrim_record _ _ _ hrec]
      have htl : ((encRecord e).take t).length ≤ recLen e := by simp; omega
      refine ⟨hm', ht', es, ⟨?_, hv, ?_⟩, rfl⟩
      · simp only [hd']; exact hl'.storeTail hL _ (by omega)
      · simp only [hd']; rw [storeAt_length (by omega)]; exact hs'
    · apply CrashAll.nil
      refine ⟨hm', ht', es, ⟨?_, hv, ?_⟩, rfl⟩
      · simp only [applyPrim, hd']; exact (hl'.storeRecord hL e hfit).prefix
      · simp only [applyPrim, hd']; omega
  intro w
  by_cases hlt : d.file.length < 40 + encLen es + recLen e
  · have hw : w = (storeAt (resizeFile d.file (max (2 * d.file.length) (40 + encLen es + recLen e)))
        (40 + encLen es) (encRecord e),
        [.resize (max (2 * d.file.length) (40 + encLen es + recLen e)),
         .store (40 + encLen es) (encRecord e)]) := by
      simp [w, rfWrite, hlt]
    have hle : d.file.length ≤ max (2 * d.file.length) (40 + encLen es + recLen e) := by omega
    have hl' := hl.resize hle
    have hsz := resizeFile_length hle
    obtain ⟨k1, k2, k3⟩ := key _ hl' (by omega) (by omega)
      (applyPrim d (.resize (max (2 * d.file.length) (40 + encLen es + recLen e)))) rfl hm ht
    rw [hw]
    refine ⟨by simp [applyPrim], k1, k2, ?_⟩
    apply CrashAll.cons
    · intro t; exact ⟨hm, ht, es, ⟨hl, hv, hs⟩, rfl⟩
    · exact k3
  · have hw : w = (storeAt d.file (40 + encLen es) (encRecord e), [.store (40 + encLen es) (encRecord e)]) := by
      simp [w, rfWrite, hlt]
    obtain ⟨k1, k2, k3⟩ := key _ hl hs (by omega) d rfl hm ht
    rw [hw]
    exact ⟨by simp [applyPrim], k1, k2, k3⟩

theorem Valid.snoc {es : List Entry} {e : Entry} (hv : Valid es) (he : ValidEntry e)
    (hfit : 40 + encLen (es ++ [e]) < U32) : Valid (es ++ [e]) := by
  refine ⟨hfit, ?_⟩
  intro x hx
  rcases List.mem_append.mp hx with h | h
  · exact hv.2 x h
  · simp at h; subst h; exact he

theorem add_ok {j : FJ} {d0 : Disk} (hi : Inv j) (e : Entry) (hve : ValidEntry e)
    (hfit : 40 + encLen (j.entries ++ [e]) < U32)
    (hm : j.disk.metaFile = d0.metaFile) (ht : j.disk.tmp = d0.tmp) :
    ∃ j' ps, j.add e = .ok (j', ps) ∧ Inv j' ∧ j'.entries = j.entries ++ [e] ∧
      j'.disk = applyPrims j.disk ps ∧ j'.mci = j.mci ∧ j'.metaSaved = j.metaSaved ∧
      CrashAll (QF d0 (fun r => r = j.entries ∨ r = j.entries ++ [e])) j.disk ps ∧
      (∀ t, QF d0 (fun r => r = j.entries) (crashDisk j.disk ps 0 t)) := by
  obtain ⟨hd, hc⟩ := hi
  have hlen : encLen (j.entries ++ [e]) = encLen j.entries + recLen e := by
    simp [encLen_append, encLen]
  obtain ⟨t1, t2, t3, t4⟩ := tailWrite e hd hm ht
  have hfin := t4.final
  rw [t1] at hfin
  obtain ⟨fm, ft, es', hes', rfl⟩ := hfin
  have hv' : Valid (j.entries ++ [e]) := hd.2.1.snoc hve hfit
  have hc1 : ¬ ¬ (e.idx < U64 ∧ e.term < U64) := by simp; exact hve
  have hc2 : ¬ ¬ (encBody e).length < U32 := by
    simp only [recLen] at hlen; simp; omega
  have hcur : 40 + encLen j.entries + (encRecord e).length = 40 + encLen (j.entries ++ [e]) := by
    simp [hlen]; omega
  have hsl := setLast_ok (f := (rfWrite j.disk.file (40 + encLen j.entries) (encRecord e)).1)
    (by omega) hfit
  have hadd : j.add e = .ok
      ({ j.withFile (storeAt (rfWrite j.disk.file (40 + encLen j.entries) (encRecord e)).1 36
            (leEnc 4 (40 + encLen (j.entries ++ [e])))) with
          entries := j.entries ++ [e], cur := 40 + encLen (j.entries ++ [e]) },
        (rfWrite j.disk.file (40 + encLen j.entries) (encRecord e)).2 ++
          [.store 36 (leEnc 4 (40 + encLen (j.entries ++ [e])))]) := by
    simp only [FJ.add, hc1, hc2, if_false, hc, hcur, hsl]
  have hne : (rfWrite j.disk.file (40 + encLen j.entries) (encRecord e)).2 ≠ [] := by
    unfold rfWrite; split <;> simp
  refine ⟨_, _, hadd, ?_, ?_, ?_, ?_, ?_, ?_, ?_⟩
  · refine ⟨?_, rfl⟩
    simp only [FJ.withFile]
    exact DInv_storeHdr t2 (by simp) hv' t3
  · rfl
  · simp only [FJ.withFile]
    rw [applyPrims_append, t1]; rfl
  · rfl
  · rfl
  · apply CrashAll.append
    · exact t4.mono (fun d h => h.mono (fun r hr => Or.inl hr))
    · rw [t1]
      apply crashAll_hdr
      · exact ⟨fm, ft, j.entries, hes', Or.inl rfl⟩
      · exact ⟨fm, ft, j.entries ++ [e], DInv_storeHdr t2 (by simp) hv' t3, Or.inr rfl⟩
  · intro t
    rw [crashDisk_append_zero _ _ _ _ hne]
    exact t4 0 t

theorem clear_ok {j : FJ} {d0 : Disk} (hi : Inv j)
    (hm : j.disk.metaFile = d0.metaFile) (ht : j.disk.tmp = d0.tmp) :
    ∃ j' ps, j.clear = .ok (j', ps) ∧ Inv j' ∧ j'.entries = [] ∧
      j'.disk = applyPrims j.disk ps ∧ j'.mci = j.mci ∧ j'.metaSaved = j.metaSaved ∧
      j'.disk.metaFile = j.disk.metaFile ∧ j'.disk.tmp = j.disk.tmp ∧
      CrashAll (QF d0 (fun r => r = j.entries ∨ r = [])) j.disk ps ∧ (∃ p, ps = [p]) := by
  obtain ⟨hd, hc⟩ := hi
  have hl0 : Lay j.disk.file (leEnc 4 (40 + encLen j.entries)) [] := by
    have := hd.1.take 0; simpa using this
  have hd' : DInv (storeAt j.disk.file 36 (leEnc 4 (40 + encLen ([] : List Entry)))) [] :=
    DInv_storeHdr hl0 (by simp) Valid.nil hd.2.2
  have hsl := setLast_ok (f := j.disk.file) (x := FIRST_RECORD_OFFSET) (by have := hd.2.2; omega)
    (by simp [FIRST_RECORD_OFFSET, U32])
  have hclear : j.clear = .ok ({ j.withFile (storeAt j.disk.file 36 (leEnc 4 FIRST_RECORD_OFFSET)) with
      entries := [], cur := FIRST_RECORD_OFFSET }, [.store 36 (leEnc 4 FIRST_RECORD_OFFSET)]) := by
    simp only [FJ.clear, hsl]
  refine ⟨_, _, hclear, ?_, ?_, ?_, ?_, ?_, ?_, ?_, ?_, ⟨_, rfl⟩⟩
  · exact ⟨by simpa [FJ.withFile, encLen, FIRST_RECORD_OFFSET] using hd', by simp [encLen, FIRST_RECORD_OFFSET]⟩
  · rfl
  · simp [FJ.withFile, applyPrim]
  · rfl
  · rfl
  · rfl
  · rfl
  · apply crashAll_hdr
    · exact ⟨hm, ht, j.entries, hd, Or.inl rfl⟩
    · exact ⟨hm, ht, [], by simpa [encLen, FIRST_RECORD_OFFSET] using hd', Or.inr rfl⟩

theorem take_succ_getElem {es : List Entry} {n : Nat} (h : n < es.length) :
    es.take (n + 1) = es.take n ++ [es[n]] := by
  rw [List.take_add_one]; simp [h]

/-- The backward walk of `deleteEntriesFrom`. `m` = number of entries still considered present,
`m0` = the number the header word currently publishes. -/
theorem delWalk_ok (es : List Entry) (hv : Valid es) (d0 : Disk) :
    ∀ (k removed m m0 : Nat) (d : Disk), k ≤ m → m ≤ m0 → m0 ≤ es.length →
      Lay d.file (leEnc 4 (40 + encLen (es.take m0))) es → 1024 ≤ d.file.length →
      d.metaFile = d0.metaFile → d.tmp = d0.tmp →
      ∃ f' ps m0', delWalk k removed d.file (40 + encLen (es.take m)) =
          .ok (f', 40 + encLen (es.take (m - k)), ps) ∧
        applyPrims d ps = { d with file := f' } ∧ m - k ≤ m0' ∧ m0' ≤ es.length ∧
        Lay f' (leEnc 4 (40 + encLen (es.take m0'))) es ∧ 1024 ≤ f'.length ∧
        CrashAll (QF d0 (fun r => ∃ m', m - k ≤ m' ∧ r = es.take m')) d ps := by
  intro k
  induction k with
  | zero =>
    intro removed m m0 d _ hm0 hm0l hl hs hm ht
    refine ⟨d.file, [], m0, by simp [delWalk], by simp, by omega, hm0l, hl, hs, ?_⟩
    apply CrashAll.nil
    exact ⟨hm, ht, es.take m0, ⟨hl.take m0, hv.take m0, hs⟩, m0, by omega, rfl⟩
  | succ k ih =>
    intro removed m m0 d hk hm0 hm0l hl hs hm ht
    obtain ⟨n, rfl⟩ : ∃ n, m = n + 1 := ⟨m - 1, by omega⟩
    have hn : n < es.length := by omega
    have htk := take_succ_getElem hn
    have hmem : es[n] ∈ es := List.getElem_mem hn
    have hrl := encLen_mem hmem
    have hb : (encBody es[n]).length < U32 := by
      have := hv.1; simp [recLen] at hrl ⊢; omega
    have hlt : Lay d.file (leEnc 4 (40 + encLen (es.take m0))) (es.take n ++ [es[n]]) := by
      rw [← htk]; exact hl.take _
    have hrd := hlt.rdTrailer (by simp) hb
    rw [← htk] at hrd
    have hcl : encLen (es.take (n + 1)) = encLen (es.take n) + recLen es[n] := by
      rw [htk, encLen_append]; simp [encLen]
    have hnot : ¬ 40 + encLen (es.take (n + 1)) < (encBody es[n]).length + 8 := by
      simp [recLen] at hcl ⊢; omega
    have hcur' : 40 + encLen (es.take (n + 1)) - ((encBody es[n]).length + 8) = 40 + encLen (es.take n) := by
      simp [recLen] at hcl ⊢; omega
    have hsub : n + 1 - (k + 1) = n - k := by omega
    have hQ0 : QF d0 (fun r => ∃ m', n + 1 - (k + 1) ≤ m' ∧ r = es.take m') d :=
      ⟨hm, ht, es.take m0, ⟨hl.take m0, hv.take m0, hs⟩, m0, by omega, rfl⟩
    by_cases h10 : (removed + 1) % 10 = 0
    · -- header rewritten at this step
      have hx : 40 + encLen (es.take n) < U32 := (hv.take n).1
      have hsl := setLast_ok (f := d.file) (by omega) hx
      have hl' : Lay (storeAt d.file 36 (leEnc 4 (40 + encLen (es.take n))))
          (leEnc 4 (40 + encLen (es.take n))) es := hl.storeHdr (by simp) _ (by simp)
      have hs' : 1024 ≤ (storeAt d.file 36 (leEnc 4 (40 + encLen (es.take n)))).length := by
        rw [storeAt_length (by simp; omega)]; exact hs
      obtain ⟨f', ps, m0', e1, e2, e3, e4, e5, e6, e7⟩ :=
        ih (removed + 1) n n { d with file := storeAt d.file 36 (leEnc 4 (40 + encLen (es.take n))) }
          (by omega) (Nat.le_refl _) (by omega) hl' hs' hm ht
      refine ⟨f', .store 36 (leEnc 4 (40 + encLen (es.take n))) :: ps, m0', ?_, ?_, by omega, e4, e5, e6, ?_⟩
      · simp only [delWalk, hrd, hnot, if_false, h10, if_true, hcur', hsl, e1, hsub, List.singleton_append]
      · simp only [applyPrims_cons, applyPrim, e2]
      · apply CrashAll.cons
        · intro t; rw [tornPrim_hdr _ _ (by simp)]; exact hQ0
        · simp only [applyPrim, hsub]; exact e7
    · obtain ⟨f', ps, m0', e1, e2, e3, e4, e5, e6, e7⟩ :=
        ih (removed + 1) n m0 d (by omega) (by omega) hm0l hl hs hm ht
      refine ⟨f', ps, m0', ?_, e2, by omega, e4, e5, e6, ?_⟩
      · simp only [delWalk, hrd, hnot, if_false, h10, hcur', e1, hsub]
      · simp only [hsub]; exact e7

theorem delFrom_ok {j : FJ} {d0 : Disk} (hi : Inv j) (n : Nat)
    (hm : j.disk.metaFile = d0.metaFile) (ht : j.disk.tmp = d0.tmp) :
    ∃ j' ps, j.delFrom n = .ok (j', ps) ∧ Inv j' ∧ j'.entries = j.entries.take n ∧
      j'.disk = applyPrims j.disk ps ∧ j'.mci = j.mci ∧ j'.metaSaved = j.metaSaved ∧
      CrashAll (QF d0 (fun r => ∃ m, n ≤ m ∧ r = j.entries.take m)) j.disk ps := by
  obtain ⟨hd, hc⟩ := hi
  obtain ⟨hl, hv, hs⟩ := hd
  have hfull : j.entries.take j.entries.length = j.entries := List.take_length
  obtain ⟨f', ps, m0', e1, e2, e3, e4, e5, e6, e7⟩ :=
    delWalk_ok j.entries hv d0 (j.entries.length - n) 0 j.entries.length j.entries.length j.disk
      (by omega) (Nat.le_refl _) (Nat.le_refl _) (by rw [hfull]; exact hl) hs hm ht
  rw [hfull] at e1
  have hsub : j.entries.take (j.entries.length - (j.entries.length - n)) = j.entries.take n := by
    by_cases h : n ≤ j.entries.length
    · congr 1; omega
    · have h1 : j.entries.length - (j.entries.length - n) = j.entries.length := by omega
      rw [h1, List.take_length, List.take_of_length_le (by omega)]
  rw [hsub] at e1
  have hvn := hv.take n
  have hsl := setLast_ok (f := f') (by omega) hvn.1
  have hdel : j.delFrom n = .ok ({ j.withFile (storeAt f' 36 (leEnc 4 (40 + encLen (j.entries.take n)))) with
      entries := j.entries.take n, cur := 40 + encLen (j.entries.take n) },
      ps ++ [.store 36 (leEnc 4 (40 + encLen (j.entries.take n)))]) := by
    simp only [FJ.delFrom, hc, e1, hsl]
  have hdn : DInv (storeAt f' 36 (leEnc 4 (40 + encLen (j.entries.take n)))) (j.entries.take n) :=
    DInv_storeHdr (e5.take n) (by simp) hvn e6
  have hfin := e7.final
  rw [e2] at hfin
  refine ⟨_, _, hdel, ⟨hdn, rfl⟩, rfl, ?_, rfl, rfl, ?_⟩
  · simp only [FJ.withFile]; rw [applyPrims_append, e2]; rfl
  · apply CrashAll.append
    · refine CrashAll.mono e7 (fun d h => QF.mono h ?_)
      rintro r ⟨m', h1, rfl⟩
      refine ⟨max m' n, by omega, ?_⟩
      by_cases hmn : n ≤ m'
      · rw [Nat.max_eq_left hmn]
      · -- m' < n is only possible when both exceed the length
        have hlen : j.entries.length ≤ m' := by omega
        rw [Nat.max_eq_right (by omega), List.take_of_length_le hlen, List.take_of_length_le (by omega)]
    · rw [e2]
      apply crashAll_hdr
      · obtain ⟨a, b, r, c1, m', c2, rfl⟩ := hfin
        refine ⟨a, b, _, c1, max m' n, by omega, ?_⟩
        by_cases hmn : n ≤ m'
        · rw [Nat.max_eq_left hmn]
        · have hlen : j.entries.length ≤ m' := by omega
          rw [Nat.max_eq_right (by omega), List.take_of_length_le hlen, List.take_of_length_le (by omega)]
      · exact ⟨hfin.1, hfin.2.1, _, hdn, n, Nat.le_refl _, rfl⟩

theorem addAll_ok (d0 : Disk) : ∀ (kept : List Entry) (j : FJ), Inv j → (∀ e ∈ kept, ValidEntry e) →
    40 + encLen (j.entries ++ kept) < U32 → j.disk.metaFile = d0.metaFile → j.disk.tmp = d0.tmp →
    ∃ j' ps, addAll j kept = .ok (j', ps) ∧ Inv j' ∧ j'.entries = j.entries ++ kept ∧
      j'.disk = applyPrims j.disk ps ∧ j'.mci = j.mci ∧ j'.metaSaved = j.metaSaved ∧
      CrashAll (QF d0 (fun r => ∃ m, r = j.entries ++ kept.take m)) j.disk ps ∧
      (∀ t, QF d0 (fun r => r = j.entries) (crashDisk j.disk ps 0 t)) := by
  intro kept
  induction kept with
  | nil =>
    intro j hi _ _ hm ht
    refine ⟨j, [], rfl, hi, by simp, rfl, rfl, rfl, ?_, ?_⟩
    · exact CrashAll.nil ⟨hm, ht, j.entries, hi.1, 0, by simp⟩
    · intro t; simpa using ⟨hm, ht, j.entries, hi.1, rfl⟩
  | cons e kept ih =>
    intro j hi hve hfit hm ht
    have hfit1 : 40 + encLen (j.entries ++ [e]) < U32 := by
      have : encLen (j.entries ++ e :: kept) = encLen (j.entries ++ [e]) + encLen kept := by
        rw [← encLen_append]; simp
      omega
    obtain ⟨j1, p1, a1, a2, a3, a4, a5, a6, a7, a8⟩ := add_ok hi e (hve e List.mem_cons_self) hfit1 hm ht
    have hp1 : p1 ≠ [] := by
      intro h; subst h
      have := a2.1; rw [a4, a3] at this
      have h1 := hi.1.1.rdHdr hi.1.2.1.1
      have h2 := this.1.rdHdr this.2.1.1
      simp only [applyPrims_nil] at h2
      rw [h1] at h2
      simp [encLen_append, encLen, recLen] at h2
    have hfin := a7.final
    rw [← a4] at hfin
    obtain ⟨j2, p2, b1, b2, b3, b4, b5, b6, b7, _⟩ := ih j1 a2 (fun x hx => hve x (List.mem_cons_of_mem _ hx))
      (by rw [a3]; simpa using hfit) hfin.1 hfin.2.1
    refine ⟨j2, p1 ++ p2, by simp only [addAll, a1, b1], b2, by rw [b3, a3]; simp, ?_, by rw [b5, a5],
      by rw [b6, a6], ?_, ?_⟩
    rotate_left 2
    · intro t; rw [crashDisk_append_zero _ _ _ _ hp1]; exact a8 t
    · rw [applyPrims_append, ← a4, b4]
    · apply CrashAll.append
      · refine CrashAll.mono a7 (fun d h => QF.mono h ?_)
        rintro r (rfl | rfl)
        · exact ⟨0, by simp⟩
        · exact ⟨1, by simp⟩
      · rw [← a4]
        refine CrashAll.mono b7 (fun d h => QF.mono h ?_)
        rintro r ⟨m, rfl⟩
        exact ⟨m + 1, by rw [a3]; simp⟩

theorem delToOld_ok {j : FJ} {d0 : Disk} (hi : Inv j) (n : Nat)
    (hm : j.disk.metaFile = d0.metaFile) (ht : j.disk.tmp = d0.tmp) :
    ∃ j' ps, j.delToOld n = .ok (j', ps) ∧ Inv j' ∧ j'.entries = j.entries.drop n ∧
      j'.disk = applyPrims j.disk ps ∧ j'.mci = j.mci ∧ j'.metaSaved = j.metaSaved ∧
      CrashAll (QF d0 (fun r => r = j.entries ∨ ∃ m, r = (j.entries.drop n).take m)) j.disk ps ∧
      (∀ t, QF d0 (fun r => r = []) (crashDisk j.disk ps 1 t)) := by
  obtain ⟨j1, p1, a1, a2, a3, a4, a5, a6, a7, a8, a9, a10⟩ := clear_ok hi hm ht
  have hvd := hi.1.2.1.drop n
  obtain ⟨j2, p2, b1, b2, b3, b4, b5, b6, b7, b8⟩ := addAll_ok d0 (j.entries.drop n) j1 a2 hvd.2
    (by rw [a3]; simpa using hvd.1) (by rw [a7]; exact hm) (by rw [a8]; exact ht)
  refine ⟨j2, p1 ++ p2, by simp only [FJ.delToOld, a1, b1], b2, by rw [b3, a3]; simp, ?_, by rw [b5, a5],
    by rw [b6, a6], ?_, ?_⟩
  rotate_left 2
  · intro t
    obtain ⟨p, rfl⟩ := a10
    have := b8 t
    rw [a3, a4] at this
    simpa using this
  · rw [applyPrims_append, ← a4, b4]
  · apply CrashAll.append
    · refine CrashAll.mono a9 (fun d h => QF.mono h ?_)
      rintro r (rfl | rfl)
      · exact Or.inl rfl
      · exact Or.inr ⟨0, by simp⟩
    · rw [← a4]
      refine CrashAll.mono b7 (fun d h => QF.mono h ?_)
      rintro r ⟨m, rfl⟩
      exact Or.inr ⟨m, by rw [a3]; simp⟩

/-! ### the repaired head drop: second file + atomic rename -/

def isFilePrim : Prim → Bool
  | .resize _ => true
  | .store _ _ => true
  | _ => false

/-- Primitives on `<journal>.tmp` other than the rename. -/
def isJtPrim : Prim → Bool
  | .jtRemove => true
  | .jtCreate => true
  | .jtWrite _ => true
  | .jtResize _ => true
  | .jtStore _ _ => true
  | _ => false

/-- The journal file after file-only primitives. -/
def fileAfter (f : Bytes) : List Prim → Bytes
  | [] => f
  | .resize n :: ps => fileAfter (resizeFile f n) ps
  | .store off bs :: ps => fileAfter (storeAt f off bs) ps
  | _ :: ps => fileAfter f ps

def FileOnly (ps : List Prim) : Prop := ∀ p ∈ ps, isFilePrim p = true
def JtOnly (ps : List Prim) : Prop := ∀ p ∈ ps, isJtPrim p = true

theorem FileOnly.tail {p ps} (h : FileOnly (p :: ps)) : FileOnly ps := fun q hq => h q (List.mem_cons_of_mem _ hq)
theorem JtOnly.tail {p ps} (h : JtOnly (p :: ps)) : JtOnly ps := fun q hq => h q (List.mem_cons_of_mem _ hq)
theorem FileOnly.append {a b} (ha : FileOnly a) (hb : FileOnly b) : FileOnly (a ++ b) := by
  intro p hp; rcases List.mem_append.mp hp with h | h
  · exact ha p h
  · exact hb p h
theorem JtOnly.append {a b} (ha : JtOnly a) (hb : JtOnly b) : JtOnly (a ++ b) := by
  intro p hp; rcases List.mem_append.mp hp with h | h
  · exact ha p h
  · exact hb p h

theorem applyPrims_fileOnly (ps : List Prim) (h : FileOnly ps) (d : Disk) :
    applyPrims d ps = { d with file := fileAfter d.file ps } := by
  induction ps generalizing d with
  | nil => rfl
  | cons p ps ih =>
    have hp := h p List.mem_cons_self
    cases p <;> simp [isFilePrim] at hp <;> simp [applyPrim, fileAfter, ih h.tail]

theorem applyPrims_toTmp (ps : List Prim) (h : FileOnly ps) (d : Disk) (f : Bytes)
    (hd : d.jtmp = some f) :
    applyPrims d (ps.map toTmp) = { d with jtmp := some (fileAfter f ps) } := by
  induction ps generalizing d f with
  | nil => cases d; simp_all [fileAfter]
  | cons p ps ih =>
    have hp := h p List.mem_cons_self
    cases p <;> simp [isFilePrim] at hp
    · simp only [List.map_cons, toTmp, applyPrims_cons, applyPrim, hd, Option.map_some, fileAfter]
      rw [ih h.tail _ _ rfl]
    · simp only [List.map_cons, toTmp, applyPrims_cons, applyPrim, hd, Option.map_some, fileAfter]
      rw [ih h.tail _ _ rfl]

theorem toTmp_isJt (ps : List Prim) (h : FileOnly ps) : JtOnly (ps.map toTmp) := by
  intro q hq
  obtain ⟨p, hp, rfl⟩ := List.mem_map.mp hq
  have := h p hp
  cases p <;> simp [isFilePrim] at this <;> simp [toTmp, isJtPrim]

/-- Whatever happens to `<journal>.tmp` before the rename, completely or torn, the journal file and
the meta files are untouched. -/
theorem crashAll_jtOnly (Q : Disk → Prop) (ps : List Prim) (h : JtOnly ps) :
    ∀ d : Disk, (∀ jt, Q { d with jtmp := jt }) → CrashAll Q d ps := by
  induction ps with
  | nil => intro d hq; apply CrashAll.nil; simpa using hq d.jtmp
  | cons p ps ih =>
    intro d hq
    have hp := h p List.mem_cons_self
    have hd : Q d := by simpa using hq d.jtmp
    apply CrashAll.cons
    · intro t
      cases p <;> simp [isJtPrim] at hp <;> simp only [tornPrim] <;> first | exact hd | exact hq _ | skip
      split
      · exact hd
      · exact hq _
    · cases p <;> simp [isJtPrim] at hp <;> simp only [applyPrim] <;>
        exact ih h.tail _ (fun jt => by simpa using hq jt)

theorem rfWrite_fileOnly (f : Bytes) (off : Nat) (vs : Bytes) : FileOnly (rfWrite f off vs).2 := by
  intro p hp
  unfold rfWrite at hp; split at hp <;> simp at hp
  · rcases hp with rfl | rfl <;> rfl
  · subst hp; rfl

theorem setLast_shape {f : Bytes} {off : Nat} {f' : Bytes} {ps : List Prim}
    (h : setLast f off = .ok (f', ps)) : FileOnly ps := by
  unfold setLast at h
  split at h
  · simp only [Except.ok.injEq] at h
    have : (rfWrite f LAST_RECORD_OFFSET_OFFSET (leEnc 4 off)).2 = ps := by rw [h]
    rw [← this]; exact rfWrite_fileOnly _ _ _
  · cases h

theorem add_shape {j : FJ} {e : Entry} {j' : FJ} {ps : List Prim} (h : j.add e = .ok (j', ps)) :
    j'.ver = j.ver ∧ FileOnly ps := by
  unfold FJ.add at h
  split at h
  · cases h
  · split at h
    · cases h
    · simp only at h
      split at h
      · cases h
      · rename_i f2 p2 heq
        simp only [Except.ok.injEq, Prod.mk.injEq] at h
        obtain ⟨rfl, rfl⟩ := h
        exact ⟨rfl, (rfWrite_fileOnly _ _ _).append (setLast_shape heq)⟩

theorem addAll_shape : ∀ (es : List Entry) {j j' : FJ} {ps : List Prim}, addAll j es = .ok (j', ps) →
    j'.ver = j.ver ∧ FileOnly ps := by
  intro es
  induction es with
  | nil =>
    intro j j' ps h; simp [addAll] at h; obtain ⟨rfl, rfl⟩ := h
    exact ⟨rfl, fun p hp => by simp at hp⟩
  | cons e es ih =>
    intro j j' ps h
    simp only [addAll] at h
    split at h
    · cases h
    · rename_i j1 p1 h1
      split at h
      · cases h
      · rename_i j2 p2 h2
        cases h
        have a := add_shape h1
        have b := ih h2
        exact ⟨b.1.trans a.1, a.2.append b.2⟩

theorem defaultHeader_length (ver : Bytes) (hver : ver.length ≤ 8) : (defaultHeader ver).length = 40 := by
  have hn : (padTo APP_NAME NAME_SIZE).length = 24 := by decide
  have hvl : (padTo ver VERSION_SIZE).length = 8 := by simp [padTo, zeros, VERSION_SIZE]; omega
  simp [defaultHeader, hn, hvl]

/-- A freshly created journal file (header + zero fill to 1024 bytes) holds no entries. -/
theorem DInv_fresh (ver : Bytes) (hver : ver.length ≤ 8) :
    DInv (resizeFile (defaultHeader ver) INITIAL_SIZE) [] := by
  have hn : (padTo APP_NAME NAME_SIZE).length = 24 := by decide
  have hvl : (padTo ver VERSION_SIZE).length = 8 := by simp [padTo, zeros, VERSION_SIZE]; omega
  have hlen := defaultHeader_length ver hver
  have hle : (defaultHeader ver).length ≤ INITIAL_SIZE := by rw [hlen]; decide
  refine ⟨⟨padTo APP_NAME NAME_SIZE ++ padTo ver VERSION_SIZE ++ leEnc 4 1, zeros (1024 - 40), ?_, ?_⟩,
    Valid.nil, ?_⟩
  · simp [hn, hvl]
  · simp only [resizeFile_ge hle, hlen]
    simp [defaultHeader, encEntries, encLen, FIRST_RECORD_OFFSET, INITIAL_SIZE, List.append_assoc]
  · rw [resizeFile_length hle]; decide

theorem delTo_ok {j : FJ} {d0 : Disk} (hi : Inv j) (hver : j.ver.length ≤ 8) (n : Nat)
    (hm : j.disk.metaFile = d0.metaFile) (ht : j.disk.tmp = d0.tmp) :
    ∃ j' ps, j.delTo n = .ok (j', ps) ∧ Inv j' ∧ j'.entries = j.entries.drop n ∧
      j'.disk = applyPrims j.disk ps ∧ j'.mci = j.mci ∧ j'.metaSaved = j.metaSaved ∧ j'.ver = j.ver ∧
      CrashAll (QF d0 (fun r => r = j.entries ∨ r = j.entries.drop n)) j.disk ps := by
  have hlen := defaultHeader_length j.ver hver
  have hlt : (defaultHeader j.ver).length < INITIAL_SIZE := by rw [hlen]; decide
  have hvd := hi.1.2.1.drop n
  -- the object while it writes into the tmp file
  obtain ⟨j1, hj1⟩ : ∃ j1 : FJ, j1 = { j with
      disk := { j.disk with file := resizeFile (defaultHeader j.ver) INITIAL_SIZE },
      entries := [], cur := FIRST_RECORD_OFFSET } := ⟨_, rfl⟩
  have hi1 : Inv j1 := by
    subst hj1; exact ⟨DInv_fresh j.ver hver, by simp [encLen, FIRST_RECORD_OFFSET]⟩
  obtain ⟨j2, ps, b1, b2, b3, b4, b5, b6, _, _⟩ := addAll_ok j1.disk (j.entries.drop n) j1 hi1 hvd.2
    (by subst hj1; simpa using hvd.1) rfl rfl
  obtain ⟨hv2, hfo⟩ := addAll_shape _ b1
  subst hj1
  simp only [List.nil_append] at b3
  have hfile : j2.disk.file = fileAfter (resizeFile (defaultHeader j.ver) INITIAL_SIZE) ps := by
    rw [b4, applyPrims_fileOnly ps hfo]
  have hdel : j.delTo n = .ok ({ j2 with disk := { j.disk with file := j2.disk.file, jtmp := none } },
      ((if j.disk.jtmp.isSome then [Prim.jtRemove] else []) ++ [Prim.jtCreate, Prim.jtWrite (defaultHeader j.ver)] ++
        [Prim.jtResize INITIAL_SIZE]) ++ ps.map toTmp ++ [Prim.jtRename]) := by
    simp only [FJ.delTo, hlt, if_true, b1]
  -- the primitives before the rename only touch `<journal>.tmp`
  have hjt : JtOnly (((if j.disk.jtmp.isSome then [Prim.jtRemove] else []) ++
      [Prim.jtCreate, Prim.jtWrite (defaultHeader j.ver)] ++ [Prim.jtResize INITIAL_SIZE]) ++ ps.map toTmp)
      := by
    refine JtOnly.append ?_ (toTmp_isJt ps hfo)
    intro p hp
    split at hp <;> simp at hp <;> rcases hp with rfl | rfl | rfl | rfl <;> rfl
  -- the disk right before the rename
  have hpre : applyPrims j.disk (((if j.disk.jtmp.isSome then [Prim.jtRemove] else []) ++
      [Prim.jtCreate, Prim.jtWrite (defaultHeader j.ver)] ++ [Prim.jtResize INITIAL_SIZE]) ++ ps.map toTmp)
      = { j.disk with jtmp := some j2.disk.file } := by
    rw [applyPrims_append]
    have h0 : applyPrims j.disk ((if j.disk.jtmp.isSome then [Prim.jtRemove] else []) ++
        [Prim.jtCreate, Prim.jtWrite (defaultHeader j.ver)] ++ [Prim.jtResize INITIAL_SIZE])
        = { j.disk with jtmp := some (resizeFile (defaultHeader j.ver) INITIAL_SIZE) } := by
      split <;> simp [applyPrim]
    rw [h0, applyPrims_toTmp ps hfo _ _ rfl, hfile]
  have hQold : ∀ jt, QF d0 (fun r => r = j.entries ∨ r = j.entries.drop n) { j.disk with jtmp := jt } :=
    fun jt => ⟨hm, ht, j.entries, hi.1, Or.inl rfl⟩
  have hd2 : DInv j2.disk.file (j.entries.drop n) := by
    have := b2.1; rwa [b3] at this
  refine ⟨_, _, hdel, ⟨b2.1, b2.2⟩, b3, ?_, b5, b6, hv2, ?_⟩
  · rw [applyPrims_append, hpre]; simp [applyPrim]
  · apply CrashAll.append
    · exact crashAll_jtOnly _ _ hjt _ hQold
    · rw [hpre]
      apply CrashAll.cons
      · intro t; simp only [tornPrim]; exact hQold _
      · apply CrashAll.nil
        simp only [applyPrim]
        exact ⟨hm, ht, j.entries.drop n, hd2, Or.inr rfl⟩

end PSO.Journal
