import PSO.Proofs.JournalCrash
/-! Every `FileJournal` operation preserves the representation invariant, refines the list
operation, replays as its primitive writes, and is characterised at every crash point. -/
namespace PSO.Journal

/-- Object-level invariant. -/
def Inv (j : FJ) : Prop := DInv j.disk.file j.entries ∧ j.cur = 40 + encLen j.entries

/-- Crash predicate for operations on the journal file: `.meta`/`.tmp` as in `d0`, and the file
satisfies the disk invariant for an entry list allowed by `R`. -/
def QF (d0 : Disk) (R : List Entry → Prop) (d : Disk) : Prop :=
  d.metaFile = d0.metaFile ∧ d.tmp = d0.tmp ∧ ∃ es, DInv d.file es ∧ R es

theorem QF.mono {d0 R R' d} (h : QF d0 R d) (hr : ∀ r, R r → R' r) : QF d0 R' d :=
  ⟨h.1, h.2.1, let ⟨es, h1, h2⟩ := h.2.2; ⟨es, h1, hr _ h2⟩⟩

theorem encLen_mem {es : List Entry} {e : Entry} (h : e ∈ es) : recLen e ≤ encLen es := by
  induction es with
  | nil => simp at h
  | cons x xs ih =>
    simp only [encLen]
    rcases List.mem_cons.mp h with rfl | h'
    · omega
    · have := ih h'; omega

/-- `ResizableFile.write` never stores outside the mapping (defect D8 repaired). -/
theorem rfWrite_fits (f : Bytes) (off : Nat) (vs : Bytes) :
    ∀ p ∈ (rfWrite f off vs).2, ∀ o bs, p = Prim.store o bs →
      o + bs.length ≤ (rfWrite f off vs).1.length := by
  intro p hp o bs hpe
  unfold rfWrite at hp ⊢
  split at hp
  · rename_i hlt
    have hle : f.length ≤ max (2 * f.length) (off + vs.length) := by omega
    simp at hp
    rcases hp with rfl | rfl
    · cases hpe
    · cases hpe
      simp only [hlt, if_true]
      rw [storeAt_length (by rw [resizeFile_length hle]; omega), resizeFile_length hle]; omega
  · rename_i hge
    simp at hp; subst hp; cases hpe
    simp only [hge, if_false]
    rw [storeAt_length (by omega)]; omega

/-- A header-word store through `ResizableFile.write` on a file of at least 40 bytes. -/
theorem rfWrite_hdr {f : Bytes} (hf : 40 ≤ f.length) (x : Nat) :
    rfWrite f LAST_RECORD_OFFSET_OFFSET (leEnc 4 x) = (storeAt f 36 (leEnc 4 x), [.store 36 (leEnc 4 x)]) := by
  have : ¬ f.length < 36 + 4 := by omega
  simp [rfWrite, LAST_RECORD_OFFSET_OFFSET, this]

theorem setLast_ok {f : Bytes} (hf : 40 ≤ f.length) {x : Nat} (hx : x < U32) :
    setLast f x = .ok (storeAt f 36 (leEnc 4 x), [.store 36 (leEnc 4 x)]) := by
  simp [setLast, hx, rfWrite_hdr hf]

/-- Header store: the layout's entry list becomes the published one. -/
theorem DInv_storeHdr {f L es} (h : Lay f L es) (hL : L.length = 4) (hv : Valid es) (hs : 1024 ≤ f.length) :
    DInv (storeAt f 36 (leEnc 4 (40 + encLen es))) es := by
  refine ⟨h.storeHdr hL _ (by simp), hv, ?_⟩
  rw [storeAt_length (by simp; omega)]; exact hs

theorem crashAll_hdr {Q : Disk → Prop} {d : Disk} (x : Nat) (h0 : Q d)
    (h1 : Q { d with file := storeAt d.file 36 (leEnc 4 x) }) :
    CrashAll Q d [.store 36 (leEnc 4 x)] := by
  apply CrashAll.cons
  · intro t; rw [tornPrim_hdr _ _ (by simp)]; exact h0
  · exact CrashAll.nil h1

/-- The record store of `add`, with its possible growth, at every crash point. -/
theorem tailWrite {d d0 : Disk} {es : List Entry} (e : Entry) (h : DInv d.file es)
    (hm : d.metaFile = d0.metaFile) (ht : d.tmp = d0.tmp) :
    let w := rfWrite d.file (40 + encLen es) (encRecord e)
    applyPrims d w.2 = { d with file := w.1 } ∧
    Lay w.1 (leEnc 4 (40 + encLen es)) (es ++ [e]) ∧ 1024 ≤ w.1.length ∧
    CrashAll (QF d0 (fun r => r = es)) d w.2 := by
  obtain ⟨hl, hv, hs⟩ := h
  have hL : (leEnc 4 (40 + encLen es)).length = 4 := by simp
  have hrec : 4 < (encRecord e).length := by simp [recLen]; omega
  -- the store on a file `f'` that is large enough
  have key : ∀ f' : Bytes, Lay f' (leEnc 4 (40 + encLen es)) es → 1024 ≤ f'.length →
      40 + encLen es + recLen e ≤ f'.length → ∀ d' : Disk, d'.file = f' → d'.metaFile = d0.metaFile →
      d'.tmp = d0.tmp →
      Lay (storeAt f' (40 + encLen es) (encRecord e)) (leEnc 4 (40 + encLen es)) (es ++ [e]) ∧
      1024 ≤ (storeAt f' (40 + encLen es) (encRecord e)).length ∧
      CrashAll (QF d0 (fun r => r = es)) d' [.store (40 + encLen es) (encRecord e)] := by
    intro f' hl' hs' hfit d' hd' hm' ht'
    have hlen : (storeAt f' (40 + encLen es) (encRecord e)).length = f'.length :=
      storeAt_length (by simp; omega)
    refine ⟨hl'.storeRecord hL e hfit, by omega, ?_⟩
    apply CrashAll.cons
    · intro t
      rw [tornPrim_record _ _ _ hrec]
      have htl : ((encRecord e).take t).length ≤ recLen e := by simp; omega
      refine ⟨hm', ht', es, ⟨?_, hv, ?_⟩, rfl⟩
      · simp only [hd']; exact hl'.storeTail hL _ (by omega)
      · simp only [hd']; rw [storeAt_length (by omega)]; exact hs'
    · apply CrashAll.nil
      refine ⟨hm', ht', es, ⟨?_, hv, ?_⟩, rfl⟩
      · simp only [applyPrim, hd']; exact (hl'.storeRecord hL e hfit).prefix
      · simp only [applyPrim, hd']; omega
  intro w
  by_cases hlt : d.file.length < 40 + encLen es + recLen e
  · have hw : w = (storeAt (resizeFile d.file (max (2 * d.file.length) (40 + encLen es + recLen e)))
        (40 + encLen es) (encRecord e),
        [.resize (max (2 * d.file.length) (40 + encLen es + recLen e)),
         .store (40 + encLen es) (encRecord e)]) := by
      simp [w, rfWrite, hlt]
    have hle : d.file.length ≤ max (2 * d.file.length) (40 + encLen es + recLen e) := by omega
    have hl' := hl.resize hle
    have hsz := resizeFile_length hle
    obtain ⟨k1, k2, k3⟩ := key _ hl' (by omega) (by omega)
      (applyPrim d (.resize (max (2 * d.file.length) (40 + encLen es + recLen e)))) rfl hm ht
    rw [hw]
    refine ⟨by simp [applyPrim], k1, k2, ?_⟩
    apply CrashAll.cons
    · intro t; exact ⟨hm, ht, es, ⟨hl, hv, hs⟩, rfl⟩
    · exact k3
  · have hw : w = (storeAt d.file (40 + encLen es) (encRecord e), [.store (40 + encLen es) (encRecord e)]) := by
      simp [w, rfWrite, hlt]
    obtain ⟨k1, k2, k3⟩ := key _ hl hs (by omega) d rfl hm ht
    rw [hw]
    exact ⟨by simp [applyPrim], k1, k2, k3⟩

theorem Valid.snoc {es : List Entry} {e : Entry} (hv : Valid es) (he : ValidEntry e)
    (hfit : 40 + encLen (es ++ [e]) < U32) : Valid (es ++ [e]) := by
  refine ⟨hfit, ?_⟩
  intro x hx
  rcases List.mem_append.mp hx with h | h
  · exact hv.2 x h
  · simp at h; subst h; exact he

theorem add_ok {j : FJ} {d0 : Disk} (hi : Inv j) (e : Entry) (hve : ValidEntry e)
    (hfit : 40 + encLen (j.entries ++ [e]) < U32)
    (hm : j.disk.metaFile = d0.metaFile) (ht : j.disk.tmp = d0.tmp) :
    ∃ j' ps, j.add e = .ok (j', ps) ∧ Inv j' ∧ j'.entries = j.entries ++ [e] ∧
      j'.disk = applyPrims j.disk ps ∧ j'.mci = j.mci ∧ j'.metaSaved = j.metaSaved ∧
      CrashAll (QF d0 (fun r => r = j.entries ∨ r = j.entries ++ [e])) j.disk ps := by
  obtain ⟨hd, hc⟩ := hi
  have hlen : encLen (j.entries ++ [e]) = encLen j.entries + recLen e := by
    simp [encLen_append, encLen]
  obtain ⟨t1, t2, t3, t4⟩ := tailWrite e hd hm ht
  have hfin := t4.final
  rw [t1] at hfin
  obtain ⟨fm, ft, es', hes', rfl⟩ := hfin
  have hv' : Valid (j.entries ++ [e]) := hd.2.1.snoc hve hfit
  have hc1 : ¬ ¬ (e.idx < U64 ∧ e.term < U64) := by simp; exact hve
  have hc2 : ¬ ¬ (encBody e).length < U32 := by
    simp only [recLen] at hlen; simp; omega
  have hcur : j.cur + (encRecord e).length = 40 + encLen (j.entries ++ [e]) := by
    simp [hc, hlen]; omega
  have hsl := setLast_ok (f := (rfWrite j.disk.file (40 + encLen j.entries) (encRecord e)).1)
    (by omega) hfit
  have hadd : j.add e = .ok
      ({ j.withFile (storeAt (rfWrite j.disk.file (40 + encLen j.entries) (encRecord e)).1 36
            (leEnc 4 (40 + encLen (j.entries ++ [e])))) with
          entries := j.entries ++ [e], cur := 40 + encLen (j.entries ++ [e]) },
        (rfWrite j.disk.file (40 + encLen j.entries) (encRecord e)).2 ++
          [.store 36 (leEnc 4 (40 + encLen (j.entries ++ [e])))]) := by
    simp only [FJ.add, hc1, hc2, if_false, hcur, hc, hsl]
  refine ⟨_, _, hadd, ?_, ?_, ?_, ?_, ?_, ?_⟩
  · refine ⟨?_, rfl⟩
    simp only [FJ.withFile]
    exact DInv_storeHdr t2 (by simp) hv' t3
  · rfl
  · simp only [FJ.withFile]
    rw [applyPrims_append, t1]; rfl
  · rfl
  · rfl
  · apply CrashAll.append
    · exact t4.mono (fun d h => h.mono (fun r hr => Or.inl hr))
    · rw [t1]
      apply crashAll_hdr
      · exact ⟨fm, ft, j.entries, hes', Or.inl rfl⟩
      · exact ⟨fm, ft, j.entries ++ [e], DInv_storeHdr t2 (by simp) hv' t3, Or.inr rfl⟩

theorem clear_ok {j : FJ} {d0 : Disk} (hi : Inv j)
    (hm : j.disk.metaFile = d0.metaFile) (ht : j.disk.tmp = d0.tmp) :
    ∃ j' ps, j.clear = .ok (j', ps) ∧ Inv j' ∧ j'.entries = [] ∧
      j'.disk = applyPrims j.disk ps ∧ j'.mci = j.mci ∧ j'.metaSaved = j.metaSaved ∧
      j'.disk.metaFile = j.disk.metaFile ∧ j'.disk.tmp = j.disk.tmp ∧
      CrashAll (QF d0 (fun r => r = j.entries ∨ r = [])) j.disk ps := by
  obtain ⟨hd, hc⟩ := hi
  have hl0 : Lay j.disk.file (leEnc 4 (40 + encLen j.entries)) [] := by
    have := hd.1.take 0; simpa using this
  have hd' : DInv (storeAt j.disk.file 36 (leEnc 4 (40 + encLen ([] : List Entry)))) [] :=
    DInv_storeHdr hl0 (by simp) Valid.nil hd.2.2
  have hsl := setLast_ok (f := j.disk.file) (x := FIRST_RECORD_OFFSET) (by have := hd.2.2; omega)
    (by simp [FIRST_RECORD_OFFSET, U32])
  have hclear : j.clear = .ok ({ j.withFile (storeAt j.disk.file 36 (leEnc 4 FIRST_RECORD_OFFSET)) with
      entries := [], cur := FIRST_RECORD_OFFSET }, [.store 36 (leEnc 4 FIRST_RECORD_OFFSET)]) := by
    simp only [FJ.clear, hsl]
  refine ⟨_, _, hclear, ?_, ?_, ?_, ?_, ?_, ?_, ?_, ?_⟩
  · exact ⟨by simpa [FJ.withFile, encLen, FIRST_RECORD_OFFSET] using hd', by simp [encLen, FIRST_RECORD_OFFSET]⟩
  · rfl
  · simp [FJ.withFile, applyPrim]
  · rfl
  · rfl
  · rfl
  · rfl
  · apply crashAll_hdr
    · exact ⟨hm, ht, j.entries, hd, Or.inl rfl⟩
    · exact ⟨hm, ht, [], by simpa [encLen, FIRST_RECORD_OFFSET] using hd', Or.inr rfl⟩

end PSO.Journal
