import PSO.Proofs.Serializer

/-! The invariant behind `interrupted_safe`: whatever is in flight continues, chunk by chunk, what the receiver
holds in its open incoming buffer, and the sender's stored offset continues what is in flight. -/
namespace PSO.Serializer

/-- ghost description of the receiver's open buffer: `some (D, o)` = it is open and holds exactly `D.take o` -/
abbrev RG := Option (Bytes × Nat)

def RGood (held : List Bytes) (r : Ser) : RG → Prop
  | none => True
  | some (D, o) => D ∈ held ∧ r.incOpen = true ∧ r.fs.tmp1 = some (D.take o)

/-- receiver ghost after chunk `chunkAt c D o` -/
def nextG (c : Nat) (D : Bytes) (o : Nat) : RG :=
  if (chunkAt c D o).isLast then none else some (D, o + (chunkAt c D o).data.length)

def Linked (held : List Bytes) (c : Nat) : RG → List (Option Chunk) → Option Trans → Prop
  | g, [], tail => match tail with
    | some t => t.data ∈ held ∧ (0 < t.off → g = some (t.data, t.off))
    | none => True
  | g, none :: rest, tail => Linked held c g rest tail
  | g, some ch :: rest, tail =>
    ∃ D o, D ∈ held ∧ ch = chunkAt c D o ∧ (0 < o → g = some (D, o)) ∧ Linked held c (nextG c D o) rest tail

theorem RGood_mono {held : List Bytes} {r : Ser} {g : RG} (d : Bytes) (h : RGood held r g) : RGood (d :: held) r g := by
  cases g with
  | none => trivial
  | some p => obtain ⟨D, o⟩ := p; exact ⟨List.mem_cons_of_mem _ h.1, h.2⟩

theorem Linked_mono {held : List Bytes} {c : Nat} (d : Bytes) :
    ∀ {g : RG} {chan : List (Option Chunk)} {tail : Option Trans},
      Linked held c g chan tail → Linked (d :: held) c g chan tail := by
  intro g chan
  induction chan generalizing g with
  | nil =>
    intro tail h
    cases tail with
    | none => trivial
    | some t => exact ⟨List.mem_cons_of_mem _ h.1, h.2⟩
  | cons x rest ih =>
    intro tail h
    cases x with
    | none => exact ih h
    | some ch =>
      obtain ⟨D, o, hD, hch, hg, hrest⟩ := h
      exact ⟨D, o, List.mem_cons_of_mem _ hD, hch, hg, ih hrest⟩

theorem Linked_tail_none {held : List Bytes} {c : Nat} :
    ∀ {g : RG} {chan : List (Option Chunk)} {tail : Option Trans},
      Linked held c g chan tail → Linked held c g chan none := by
  intro g chan
  induction chan generalizing g with
  | nil => intro tail _; trivial
  | cons x rest ih =>
    intro tail h
    cases x with
    | none => exact ih h
    | some ch =>
      obtain ⟨D, o, hD, hch, hg, hrest⟩ := h
      exact ⟨D, o, hD, hch, hg, ih hrest⟩

theorem Linked_snoc_none {held : List Bytes} {c : Nat} :
    ∀ {g : RG} {chan : List (Option Chunk)} {tail : Option Trans},
      Linked held c g chan tail → Linked held c g (chan ++ [none]) tail := by
  intro g chan
  induction chan generalizing g with
  | nil => intro tail h; exact h
  | cons x rest ih =>
    intro tail h
    cases x with
    | none => exact ih h
    | some ch =>
      obtain ⟨D, o, hD, hch, hg, hrest⟩ := h
      exact ⟨D, o, hD, hch, hg, ih hrest⟩

/-- the chunk read at the sender's current position extends what is in flight -/
theorem Linked_snoc_chunk {held : List Bytes} {c : Nat} (D : Bytes) (o : Nat) (hD : D ∈ held) :
    ∀ {g : RG} {chan : List (Option Chunk)} {tail : Option Trans},
      (0 < o → tail = some ⟨D, o⟩) →
      Linked held c g chan tail →
      Linked held c g (chan ++ [some (chunkAt c D o)])
        (if (chunkAt c D o).isLast then none else some ⟨D, o + (chunkAt c D o).data.length⟩) := by
  intro g chan
  induction chan generalizing g with
  | nil =>
    intro tail ht h
    refine ⟨D, o, hD, rfl, ?_, ?_⟩
    · intro ho
      rw [ht ho] at h
      exact h.2 ho
    · unfold nextG
      by_cases hl : (chunkAt c D o).isLast = true
      · simp only [hl, if_true]; trivial
      · simp only [hl]; exact ⟨hD, fun _ => rfl⟩
  | cons x rest ih =>
    intro tail ht h
    cases x with
    | none => exact ih ht h
    | some ch =>
      obtain ⟨D', o', hD', hch, hg, hrest⟩ := h
      exact ⟨D', o', hD', hch, hg, ih ht hrest⟩


-- ------------------------------------------------------------------------------------------------
-- frame lemmas: what each operation of a Serializer leaves alone
-- ------------------------------------------------------------------------------------------------

/-- an operation that does not touch the incoming-transfer file -/
def FsOp.keepsTmp1 : FsOp → Bool
  | .openW f => f ≠ .tmp1
  | .write f _ => f ≠ .tmp1
  | .close _ => true
  | .rename s d => d ≠ .tmp1 ∧ s ≠ .tmp1

theorem FS.apply_keepsTmp1 (fs : FS) (op : FsOp) (h : op.keepsTmp1 = true) : (fs.apply op).tmp1 = fs.tmp1 := by
  cases op with
  | openW f => cases f <;> simp_all [FsOp.keepsTmp1, FS.apply, FS.set]
  | write f b =>
    cases f <;> simp_all [FsOp.keepsTmp1, FS.apply, FS.set, FS.get] <;> split <;> simp_all
  | close f => rfl
  | rename s d =>
    cases s <;> cases d <;> simp_all [FsOp.keepsTmp1, FS.apply, FS.set, FS.get] <;> split <;> simp_all

theorem serializeOps_keepsTmp1 (pieces : List Bytes) (fail : Bool) : ∀ op ∈ serializeOps pieces fail, op.keepsTmp1 = true := by
  intro op h
  simp only [serializeOps, List.mem_append, List.mem_singleton, List.mem_map] at h
  rcases h with ((h | ⟨p, _, h⟩) | h) | h
  · subst h; simp [FsOp.keepsTmp1]
  · subst h; simp [FsOp.keepsTmp1]
  · subst h; simp [FsOp.keepsTmp1]
  · cases fail <;> simp at h
    subst h; simp [FsOp.keepsTmp1]

def Ser.childOk (s : Ser) : Prop := ∀ c, s.child = some c → ∀ op ∈ c.ops, op.keepsTmp1 = true

theorem serialize_frame (s : Ser) (id : Nat) (pieces : List Bytes) (fail : Bool) :
    (s.serialize id pieces fail).1.batch = s.batch ∧ (s.serialize id pieces fail).1.trans = s.trans ∧
    (s.serialize id pieces fail).1.incOpen = s.incOpen ∧ (s.serialize id pieces fail).1.fs.tmp1 = s.fs.tmp1 ∧
    (s.childOk → (s.serialize id pieces fail).1.childOk) := by
  unfold Ser.serialize
  by_cases hp : s.pid ≠ .idle
  · simp [hp]
  · simp only [hp, if_false]
    cases hm : s.mode with
    | memory =>
      cases fail <;> simp [FS.set, Ser.childOk]
    | file =>
      by_cases hf : s.fork = true
      · simp only [hf, if_true]
        refine ⟨by simp, by simp, by simp, by simp, ?_⟩
        intro _ c hc op hop
        simp at hc
        subst hc
        exact serializeOps_keepsTmp1 pieces fail op hop
      · simp only [hf]
        refine ⟨by simp, by simp, by simp, ?_, fun h => by simpa [Ser.childOk] using h⟩
        cases fail
        · exact (FS.run_serializeOps_ok s.fs pieces).2.2
        · exact (FS.run_serializeOps_fail s.fs pieces).2

theorem check_frame (s : Ser) (ck : Option Status) :
    (s.checkSerializing ck).1.batch = s.batch ∧ (s.checkSerializing ck).1.fs = s.fs ∧
    (s.checkSerializing ck).1.incOpen = s.incOpen ∧
    ((s.checkSerializing ck).1.trans = s.trans ∨ (s.checkSerializing ck).1.trans = []) ∧
    (s.childOk → (s.checkSerializing ck).1.childOk) := by
  unfold Ser.checkSerializing
  cases ck with
  | some st =>
    by_cases h : st = .success ∨ st = .failed
    · simp [h, Ser.childOk]
    · simp [h]
  | none =>
    simp only
    by_cases hm : s.memBranch = true
    · simp only [hm, if_true]
      cases s.pid <;> simp [Ser.childOk]
    · simp only [hm]
      cases s.pid
      · simp
      all_goals
        cases hc : s.child with
        | none => simp [Ser.childOk]
        | some c =>
          obtain ⟨ops, ok⟩ := c
          cases ops with
          | nil => cases ok <;> simp [Ser.childOk]
          | cons op rest => simp [Ser.childOk, hc]

theorem childStep_frame (s : Ser) (h : s.childOk) :
    s.childStep.batch = s.batch ∧ s.childStep.trans = s.trans ∧ s.childStep.incOpen = s.incOpen ∧
    s.childStep.fs.tmp1 = s.fs.tmp1 ∧ s.childStep.childOk := by
  unfold Ser.childStep
  cases hc : s.child with
  | none => simp [h]
  | some c =>
    obtain ⟨ops, ok⟩ := c
    cases ops with
    | nil => simp [h]
    | cons op rest =>
      refine ⟨rfl, rfl, rfl, ?_, ?_⟩
      · exact FS.apply_keepsTmp1 _ _ (h _ hc op (List.mem_cons_self ..))
      · intro c' hc' op' hop'
        simp at hc'
        subst hc'
        exact h _ hc op' (List.mem_cons_of_mem _ hop')

theorem childStep_frame_snd (s : Ser) :
    s.childStep.batch = s.batch ∧ s.childStep.trans = s.trans := by
  unfold Ser.childStep
  cases hc : s.child with
  | none => simp
  | some c =>
    obtain ⟨ops, ok⟩ := c
    cases ops <;> simp

theorem get_frame (s : Ser) (n : Nat) :
    (s.getTransmissionData n).1.batch = s.batch ∧ (s.getTransmissionData n).1.fs = s.fs := by
  unfold Ser.getTransmissionData
  by_cases hp : s.pid ≠ .idle
  · simp [hp]
  · simp only [hp, if_false]
    cases s.cur n <;> simp

theorem get_other (s : Ser) (n m : Nat) (h : m ≠ n) :
    tlookup m (s.getTransmissionData n).1.trans = tlookup m s.trans := by
  unfold Ser.getTransmissionData
  by_cases hp : s.pid ≠ .idle
  · simp [hp]
  · simp only [hp, if_false]
    cases s.cur n with
    | none => simp
    | some t =>
      simp only
      split
      · exact tlookup_terase_ne m n _ h
      · exact tlookup_tinsert_ne m n _ _ h

theorem set_frame (s : Ser) (c : Option Chunk) :
    (s.setTransmissionData c).1.batch = s.batch ∧ (s.setTransmissionData c).1.trans = s.trans := by
  unfold Ser.setTransmissionData
  cases c with
  | none => simp
  | some c => simp only; split <;> simp

theorem feed_frame (s : Ser) (cs : List (Option Chunk)) :
    (s.feed cs).1.batch = s.batch ∧ (s.feed cs).1.trans = s.trans := by
  induction cs generalizing s with
  | nil => simp [feed_nil]
  | cons c cs ih =>
    rw [feed_cons]
    have := ih (s.setTransmissionData c).1
    have h2 := set_frame s c
    exact ⟨this.1.trans h2.1, this.2.trans h2.2⟩

end PSO.Serializer
