import PSO.Proofs.Serializer

/-! The invariant behind `interrupted_safe`: whatever is in flight continues, chunk by chunk, what the receiver
holds in its open incoming buffer, and the sender's stored offset continues what is in flight. -/
namespace PSO.Serializer

/-- ghost description of the receiver's open buffer: `some (D, o)` = it is open and holds exactly `D.take o` -/
abbrev RG := Option (Bytes × Nat)

def RGood (held : List Bytes) (r : Ser) : RG → Prop
  | none => True
  | some (D, o) => D ∈ held ∧ r.incOpen = true ∧ r.fs.tmp1 = some (D.take o)

/-- receiver ghost after chunk `chunkAt c D o` -/
def nextG (c : Nat) (D : Bytes) (o : Nat) : RG :=
  if (chunkAt c D o).isLast then none else some (D, o + (chunkAt c D o).data.length)

def Linked (held : List Bytes) (c : Nat) : RG → List (Option Chunk) → Option Trans → Prop
  | g, [], tail => match tail with
    | some t => t.data ∈ held ∧ (0 < t.off → g = some (t.data, t.off))
    | none => True
  | g, none :: rest, tail => Linked held c g rest tail
  | g, some ch :: rest, tail =>
    ∃ D o, D ∈ held ∧ ch = chunkAt c D o ∧ (0 < o → g = some (D, o)) ∧ Linked held c (nextG c D o) rest tail

theorem RGood_mono {held : List Bytes} {r : Ser} {g : RG} (d : Bytes) (h : RGood held r g) : RGood (d :: held) r g := by
  cases g with
  | none => trivial
  | some p => obtain ⟨D, o⟩ := p; exact ⟨List.mem_cons_of_mem _ h.1, h.2⟩

theorem Linked_mono {held : List Bytes} {c : Nat} (d : Bytes) :
    ∀ {g : RG} {chan : List (Option Chunk)} {tail : Option Trans},
      Linked held c g chan tail → Linked (d :: held) c g chan tail := by
  intro g chan
  induction chan generalizing g with
  | nil =>
    intro tail h
    cases tail with
    | none => trivial
    | some t => exact ⟨List.mem_cons_of_mem _ h.1, h.2⟩
  | cons x rest ih =>
    intro tail h
    cases x with
    | none => exact ih h
    | some ch =>
      obtain ⟨D, o, hD, hch, hg, hrest⟩ := h
      exact ⟨D, o, List.mem_cons_of_mem _ hD, hch, hg, ih hrest⟩

theorem Linked_tail_none {held : List Bytes} {c : Nat} :
    ∀ {g : RG} {chan : List (Option Chunk)} {tail : Option Trans},
      Linked held c g chan tail → Linked held c g chan none := by
  intro g chan
  induction chan generalizing g with
  | nil => intro tail _; trivial
  | cons x rest ih =>
    intro tail h
    cases x with
    | none => exact ih h
    | some ch =>
      obtain ⟨D, o, hD, hch, hg, hrest⟩ := h
      exact ⟨D, o, hD, hch, hg, ih hrest⟩

theorem Linked_snoc_none {held : List Bytes} {c : Nat} :
    ∀ {g : RG} {chan : List (Option Chunk)} {tail : Option Trans},
      Linked held c g chan tail → Linked held c g (chan ++ [none]) tail := by
  intro g chan
  induction chan generalizing g with
  | nil => intro tail h; exact h
  | cons x rest ih =>
    intro tail h
    cases x with
    | none => exact ih h
    | some ch =>
      obtain ⟨D, o, hD, hch, hg, hrest⟩ := h
      exact ⟨D, o, hD, hch, hg, ih hrest⟩

/-- the chunk read at the sender's current position extends what is in flight -/
theorem Linked_snoc_chunk {held : List Bytes} {c : Nat} (D : Bytes) (o : Nat) (hD : D ∈ held) :
    ∀ {g : RG} {chan : List (Option Chunk)} {tail : Option Trans},
      (0 < o → tail = some ⟨D, o⟩) →
      Linked held c g chan tail →
      Linked held c g (chan ++ [some (chunkAt c D o)])
        (if (chunkAt c D o).isLast then none else some ⟨D, o + (chunkAt c D o).data.length⟩) := by
  intro g chan
  induction chan generalizing g with
  | nil =>
    intro tail ht h
    refine ⟨D, o, hD, rfl, ?_, ?_⟩
    · intro ho
      rw [ht ho] at h
      exact h.2 ho
    · unfold nextG
      by_cases hl : (chunkAt c D o).isLast = true
      · simp only [hl, if_true]; trivial
      · simp only [hl]; exact ⟨hD, fun _ => rfl⟩
  | cons x rest ih =>
    intro tail ht h
    cases x with
    | none => exact ih ht h
    | some ch =>
      obtain ⟨D', o', hD', hch, hg, hrest⟩ := h
      exact ⟨D', o', hD', hch, hg, ih ht hrest⟩


-- ------------------------------------------------------------------------------------------------
-- frame lemmas: what each operation of a Serializer leaves alone
-- ------------------------------------------------------------------------------------------------

/-- an operation that does not touch the incoming-transfer file -/
def FsOp.keepsTmp1 : FsOp → Bool
  | .openW f => f ≠ .tmp1
  | .write f _ => f ≠ .tmp1
  | .close _ => true
  | .rename s d => d ≠ .tmp1 ∧ s ≠ .tmp1
  | .remove f => f ≠ .tmp1

theorem FS.apply_keepsTmp1 (fs : FS) (op : FsOp) (h : op.keepsTmp1 = true) : (fs.apply op).tmp1 = fs.tmp1 := by
  cases op with
  | openW f => cases f <;> simp_all [FsOp.keepsTmp1, FS.apply, FS.set]
  | write f b =>
    cases f <;> simp_all [FsOp.keepsTmp1, FS.apply, FS.set, FS.get] <;> split <;> simp_all
  | close f => rfl
  | rename s d =>
    cases s <;> cases d <;> simp_all [FsOp.keepsTmp1, FS.apply, FS.set, FS.get] <;> split <;> simp_all
  | remove f => cases f <;> simp_all [FsOp.keepsTmp1, FS.apply, FS.set]

theorem dumpWriteOps_keepsTmp1 (pieces : List Bytes) (fail : Bool) : ∀ op ∈ dumpWriteOps pieces fail, op.keepsTmp1 = true := by
  intro op h
  simp only [dumpWriteOps, List.mem_append, List.mem_singleton, List.mem_map] at h
  rcases h with ((h | ⟨p, _, h⟩) | h) | h
  · subst h; simp [FsOp.keepsTmp1]
  · subst h; simp [FsOp.keepsTmp1]
  · subst h; simp [FsOp.keepsTmp1]
  · cases fail <;> simp at h
    subst h; simp [FsOp.keepsTmp1]

theorem serializeOps_keepsTmp1 (pieces : List Bytes) (fail : Bool) : ∀ op ∈ serializeOps pieces fail, op.keepsTmp1 = true := by
  intro op h
  rcases List.mem_cons.mp h with h | h
  · subst h; simp [FsOp.keepsTmp1]
  · exact dumpWriteOps_keepsTmp1 pieces fail op h

def Ser.childOk (s : Ser) : Prop := ∀ c, s.child = some c → ∀ op ∈ c.ops, op.keepsTmp1 = true

theorem serialize_frame (s : Ser) (id : Nat) (pieces : List Bytes) (fail : Bool) :
    (s.serialize id pieces fail).1.batch = s.batch ∧ (s.serialize id pieces fail).1.trans = s.trans ∧
    (s.serialize id pieces fail).1.incOpen = s.incOpen ∧ (s.serialize id pieces fail).1.fs.tmp1 = s.fs.tmp1 ∧
    (s.childOk → (s.serialize id pieces fail).1.childOk) := by
  unfold Ser.serialize
  by_cases hp : s.pid ≠ .idle
  · simp [hp]
  · simp only [hp, if_false]
    cases hm : s.mode with
    | memory =>
      cases fail <;> simp [FS.set, Ser.childOk]
    | file =>
      have hrm : (s.fs.apply (.remove .tmp)).tmp1 = s.fs.tmp1 := by simp [FS.apply, FS.set]
      by_cases hf : s.fork = true
      · simp only [hf, if_true]
        refine ⟨by simp, by simp, by simp, by simpa using hrm, ?_⟩
        intro _ c hc op hop
        simp at hc
        subst hc
        exact dumpWriteOps_keepsTmp1 pieces fail op hop
      · simp only [hf]
        refine ⟨by simp, by simp, by simp, ?_, fun h => by simpa [Ser.childOk] using h⟩
        cases fail
        · exact (FS.run_dumpWriteOps_ok _ pieces).2.2.trans hrm
        · exact (FS.run_dumpWriteOps_fail _ pieces).2.trans hrm

theorem check_frame (s : Ser) (ck : Option Status) :
    (s.checkSerializing ck).1.batch = s.batch ∧ (s.checkSerializing ck).1.fs = s.fs ∧
    (s.checkSerializing ck).1.incOpen = s.incOpen ∧
    ((s.checkSerializing ck).1.trans = s.trans ∨ (s.checkSerializing ck).1.trans = []) ∧
    (s.childOk → (s.checkSerializing ck).1.childOk) := by
  unfold Ser.checkSerializing
  cases ck with
  | some st =>
    by_cases h : st = .success ∨ st = .failed
    · simp [h, Ser.childOk]
    · simp [h]
  | none =>
    simp only
    by_cases hm : s.memBranch = true
    · simp only [hm, if_true]
      cases s.pid <;> simp [Ser.childOk]
    · simp only [hm]
      cases s.pid
      · simp
      all_goals
        cases hc : s.child with
        | none => simp [Ser.childOk]
        | some c =>
          obtain ⟨ops, ok⟩ := c
          cases ops with
          | nil => cases ok <;> simp [Ser.childOk]
          | cons op rest => simp [Ser.childOk, hc]

theorem childStep_frame (s : Ser) (h : s.childOk) :
    s.childStep.batch = s.batch ∧ s.childStep.trans = s.trans ∧ s.childStep.incOpen = s.incOpen ∧
    s.childStep.fs.tmp1 = s.fs.tmp1 ∧ s.childStep.childOk := by
  unfold Ser.childStep
  cases hc : s.child with
  | none => simp [h]
  | some c =>
    obtain ⟨ops, ok⟩ := c
    cases ops with
    | nil => simp [h]
    | cons op rest =>
      refine ⟨rfl, rfl, rfl, ?_, ?_⟩
      · exact FS.apply_keepsTmp1 _ _ (h _ hc op (List.mem_cons_self ..))
      · intro c' hc' op' hop'
        simp at hc'
        subst hc'
        exact h _ hc op' (List.mem_cons_of_mem _ hop')

theorem childStep_frame_snd (s : Ser) :
    s.childStep.batch = s.batch ∧ s.childStep.trans = s.trans := by
  unfold Ser.childStep
  cases hc : s.child with
  | none => simp
  | some c =>
    obtain ⟨ops, ok⟩ := c
    cases ops <;> simp

theorem get_frame (s : Ser) (n : Nat) :
    (s.getTransmissionData n).1.batch = s.batch ∧ (s.getTransmissionData n).1.fs = s.fs := by
  unfold Ser.getTransmissionData
  by_cases hp : s.pid ≠ .idle
  · simp [hp]
  · simp only [hp, if_false]
    cases s.cur n <;> simp

theorem get_other (s : Ser) (n m : Nat) (h : m ≠ n) :
    tlookup m (s.getTransmissionData n).1.trans = tlookup m s.trans := by
  unfold Ser.getTransmissionData
  by_cases hp : s.pid ≠ .idle
  · simp [hp]
  · simp only [hp, if_false]
    cases s.cur n with
    | none => simp
    | some t =>
      simp only
      split
      · exact tlookup_terase_ne m n _ h
      · exact tlookup_tinsert_ne m n _ _ h

theorem set_frame (s : Ser) (c : Option Chunk) :
    (s.setTransmissionData c).1.batch = s.batch ∧ (s.setTransmissionData c).1.trans = s.trans := by
  unfold Ser.setTransmissionData
  cases c with
  | none => simp
  | some c => simp only; split <;> simp

theorem feed_frame (s : Ser) (cs : List (Option Chunk)) :
    (s.feed cs).1.batch = s.batch ∧ (s.feed cs).1.trans = s.trans := by
  induction cs generalizing s with
  | nil => simp [feed_nil]
  | cons c cs ih =>
    rw [feed_cons]
    have := ih (s.setTransmissionData c).1
    have h2 := set_frame s c
    exact ⟨this.1.trans h2.1, this.2.trans h2.2⟩


-- ------------------------------------------------------------------------------------------------
-- sender + channel part of the invariant
-- ------------------------------------------------------------------------------------------------

theorem Linked_tail_held {held : List Bytes} {c : Nat} {t : Trans} :
    ∀ {g : RG} {chan : List (Option Chunk)}, Linked held c g chan (some t) → t.data ∈ held := by
  intro g chan
  induction chan generalizing g with
  | nil => intro h; exact h.1
  | cons x rest ih =>
    intro h
    cases x with
    | none => exact ih h
    | some ch =>
      obtain ⟨D, o, _, _, _, hrest⟩ := h
      exact ih hrest

structure SC (held : List Bytes) (s : Ser) (g : RG) (chan : List (Option Chunk)) : Prop where
  batch : 1 ≤ s.batch
  dumpHeld : ∀ d, s.fs.dump = some d → d ∈ held
  linked : Linked held s.batch g chan (tlookup peer s.trans)

theorem SC_send {held : List Bytes} {s : Ser} {g : RG} {chan : List (Option Chunk)} (h : SC held s g chan) :
    SC held (s.getTransmissionData peer).1 g (chan ++ [(s.getTransmissionData peer).2]) := by
  by_cases hp : s.pid = .idle
  · cases hcur : s.cur peer with
    | none =>
      rw [get_nocur s peer hcur]
      exact ⟨h.batch, h.dumpHeld, Linked_snoc_none h.linked⟩
    | some t =>
      obtain ⟨D, o⟩ := t
      rw [get_of_cur s peer D o hp hcur]
      refine ⟨h.batch, h.dumpHeld, ?_⟩
      have hDo : D ∈ held ∧ (0 < o → tlookup peer s.trans = some ⟨D, o⟩) := by
        unfold Ser.cur at hcur
        cases hl : tlookup peer s.trans with
        | some t =>
          rw [hl] at hcur
          simp at hcur
          subst hcur
          have := h.linked
          rw [hl] at this
          exact ⟨Linked_tail_held this, fun _ => rfl⟩
        | none =>
          rw [hl] at hcur
          cases hd : s.fs.dump with
          | none => simp [hd] at hcur
          | some d =>
            simp [hd] at hcur
            obtain ⟨h1, h2⟩ := hcur
            subst h1; subst h2
            exact ⟨h.dumpHeld _ hd, fun ho => absurd ho (by omega)⟩
      have := Linked_snoc_chunk (c := s.batch) D o hDo.1 hDo.2 h.linked
      by_cases hlast : (chunkAt s.batch D o).isLast = true
      · simp only [hlast, if_true] at this ⊢
        rw [tlookup_terase_self]
        exact this
      · simp only [hlast] at this ⊢
        simp only [Bool.false_eq_true, if_false] at this ⊢
        rw [tlookup_tinsert_self]
        exact this
  · rw [get_busy s peer hp]
    exact ⟨h.batch, h.dumpHeld, Linked_snoc_none h.linked⟩

theorem SC_burst {held : List Bytes} {g : RG} (b : Nat) : ∀ {s : Ser} {chan : List (Option Chunk)},
    SC held s g chan → SC held (s.burst peer b).1 g (chan ++ (s.burst peer b).2) := by
  induction b with
  | zero => intro s chan h; simpa [burst_zero] using h
  | succ b ih =>
    intro s chan h
    have hs := SC_send h
    rw [burst_succ]
    cases hget : s.getTransmissionData peer with
    | mk s' c =>
      rw [hget] at hs
      cases c with
      | none => exact hs
      | some ch =>
        dsimp only
        by_cases hl : ch.isLast = true
        · rw [if_pos hl]; exact hs
        · rw [if_neg hl]
          have := ih hs
          simpa [List.append_assoc] using this


-- ------------------------------------------------------------------------------------------------
-- the invariant of a link and its preservation
-- ------------------------------------------------------------------------------------------------

structure Inv (l : Link) : Prop where
  main : ∃ g, RGood l.held l.rcv g ∧ SC l.held l.snd g l.chan
  rcvChild : l.rcv.childOk
  compl : ∀ d ∈ l.completed, d ∈ l.held

theorem set_child (s : Ser) (c : Option Chunk) :
    (s.setTransmissionData c).1.child = s.child ∨ (s.setTransmissionData c).1.child = none := by
  left
  unfold Ser.setTransmissionData
  cases c with
  | none => simp
  | some c => simp only; split <;> simp

theorem finish_child (s : Ser) (a : Bool) :
    (s.finishIncoming a).1.child = s.child ∨ (s.finishIncoming a).1.child = none := by
  unfold Ser.finishIncoming
  by_cases h : s.incSnap = true
  · simp only [h, Bool.not_true, Bool.false_eq_true, if_false]
    by_cases hs : (a && s.mode == .file && s.fork && s.pid == .child) = true
    · right; simp [hs]
    · left; simp [hs]
  · left; simp [h]

theorem finish_frame (s : Ser) (a : Bool) :
    (s.finishIncoming a).1.batch = s.batch ∧ (s.finishIncoming a).1.trans = s.trans := by
  unfold Ser.finishIncoming
  by_cases h : s.incSnap = true <;> simp [h]

theorem Inv_init (sm rm : Mode) (sf rf : Bool) (sb rb : Nat) (h : 1 ≤ sb) : Inv (Link.init sm rm sf rf sb rb) := by
  refine ⟨⟨none, trivial, ⟨h, ?_, ?_⟩⟩, ?_, ?_⟩
  · intro d hd; simp [Link.init] at hd
  · simp [Link.init, tlookup, Linked]
  · intro c hc; simp [Link.init] at hc
  · intro d hd; simp [Link.init] at hd

theorem noteHeld_inv (l : Link) (g : RG) (hr : RGood l.held l.rcv g) (hb : 1 ≤ l.snd.batch)
    (hl : Linked l.held l.snd.batch g l.chan (tlookup peer l.snd.trans)) (hc : l.rcv.childOk)
    (hcomp : ∀ d ∈ l.completed, d ∈ l.held) : Inv l.noteHeld := by
  unfold Link.noteHeld
  cases hd : l.snd.fs.dump with
  | none =>
    exact ⟨⟨g, hr, ⟨hb, fun d h => by simp [hd] at h, hl⟩⟩, hc, hcomp⟩
  | some d =>
    refine ⟨⟨g, RGood_mono d hr, ⟨hb, ?_, Linked_mono d hl⟩⟩, hc, fun x hx => List.mem_cons_of_mem _ (hcomp x hx)⟩
    intro d' h'
    simp only [hd, Option.some.injEq] at h'
    subst h'
    exact List.mem_cons_self ..

theorem deliver_inv (l : Link) (fin : Option Bool) (h : Inv l) : Inv (l.step (.deliver fin)) := by
  obtain ⟨⟨g, hr, hsc⟩, hchild, hcomp⟩ := h
  unfold Link.step
  cases hchan : l.chan with
  | nil => exact ⟨⟨g, hr, by simpa [hchan] using hsc⟩, hchild, hcomp⟩
  | cons x rest =>
    have hlink := hsc.linked
    rw [hchan] at hlink
    cases x with
    | none =>
      simp only [Ser.setTransmissionData]
      exact ⟨⟨g, hr, ⟨hsc.batch, hsc.dumpHeld, hlink⟩⟩, hchild, hcomp⟩
    | some ch =>
      obtain ⟨D, o, hD, hch, hg, hrest⟩ := hlink
      have hpre : l.rcv.holdsPrefix D o := by
        by_cases ho : o = 0
        · exact Or.inl ho
        · have := hg (by omega)
          subst this
          exact Or.inr hr.2
      have hset := set_chunkAt l.rcv l.snd.batch hsc.batch D o hpre
      simp only at hset
      rw [← hch] at hset
      obtain ⟨hret, _, _, hcase⟩ := hset
      have hchild' : (l.rcv.setTransmissionData (some ch)).1.childOk := by
        intro c hc
        rcases set_child l.rcv (some ch) with h | h
        · rw [h] at hc; exact hchild c hc
        · rw [h] at hc; cases hc
      by_cases hl : ch.isLast = true
      · simp only [hl, if_true] at hcase
        have hng : nextG l.snd.batch D o = none := by simp [nextG, ← hch, hl]
        rw [hng] at hrest
        simp only [hret, hl, if_true, hcase.1]
        refine ⟨⟨none, trivial, ⟨hsc.batch, hsc.dumpHeld, hrest⟩⟩, ?_, ?_⟩
        · cases fin with
          | none => exact hchild'
          | some a =>
            intro c hc
            rcases finish_child (l.rcv.setTransmissionData (some ch)).1 a with h | h
            · rw [h] at hc; exact hchild' c hc
            · rw [h] at hc; cases hc
        · intro d hd
          rcases List.mem_cons.mp hd with hd | hd
          · subst hd; exact hD
          · exact hcomp d hd
      · simp only [hl] at hcase
        simp only [Bool.false_eq_true, if_false] at hcase
        have hng : nextG l.snd.batch D o = some (D, o + ch.data.length) := by simp [nextG, ← hch, hl]
        rw [hng] at hrest
        have hr' : RGood l.held (l.rcv.setTransmissionData (some ch)).1 (some (D, o + ch.data.length)) := by
          rcases hcase.1 with h0 | h1
          · omega
          · exact ⟨hD, h1⟩
        simp only [hret, hl]
        exact ⟨⟨_, hr', ⟨hsc.batch, hsc.dumpHeld, hrest⟩⟩, hchild', hcomp⟩

theorem restart_childOk (s : Ser) : s.restart.childOk := by
  intro c hc; simp [Ser.restart] at hc

theorem step_inv (l : Link) (e : Ev) (he : e.repaired = true) (h : Inv l) : Inv (l.step e) := by
  cases e with
  | deliver fin => exact deliver_inv l fin h
  | send =>
    obtain ⟨⟨g, hr, hsc⟩, hchild, hcomp⟩ := h
    exact ⟨⟨g, hr, SC_send hsc⟩, hchild, hcomp⟩
  | burst b =>
    obtain ⟨⟨g, hr, hsc⟩, hchild, hcomp⟩ := h
    exact ⟨⟨g, hr, SC_burst b hsc⟩, hchild, hcomp⟩
  | sendOther n =>
    obtain ⟨⟨g, hr, hsc⟩, hchild, hcomp⟩ := h
    have hf := get_frame l.snd (n + 1)
    have ho := get_other l.snd (n + 1) peer (by simp [peer])
    refine ⟨⟨g, hr, ⟨?_, ?_, ?_⟩⟩, hchild, hcomp⟩
    · simp only [Link.step, hf.1]; exact hsc.batch
    · simp only [Link.step, hf.2]; exact hsc.dumpHeld
    · simp only [Link.step, hf.1, ho]; exact hsc.linked
  | reconnect c =>
    obtain ⟨⟨g, hr, hsc⟩, hchild, hcomp⟩ := h
    have hc : c = true := he
    subst hc
    refine ⟨⟨g, hr, ⟨hsc.batch, hsc.dumpHeld, ?_⟩⟩, hchild, hcomp⟩
    simp [Link.step, Ser.cancel, tlookup_terase_self, Linked]
  | cancel =>
    obtain ⟨⟨g, hr, hsc⟩, hchild, hcomp⟩ := h
    refine ⟨⟨g, hr, ⟨hsc.batch, hsc.dumpHeld, ?_⟩⟩, hchild, hcomp⟩
    simp only [Link.step, Ser.cancel, tlookup_terase_self]
    exact Linked_tail_none hsc.linked
  | serialize id pieces fail =>
    obtain ⟨⟨g, hr, hsc⟩, hchild, hcomp⟩ := h
    have hf := serialize_frame l.snd id pieces fail
    apply noteHeld_inv { l with snd := (l.snd.serialize id pieces fail).1 } g hr
    · simp only [hf.1]; exact hsc.batch
    · simp only [hf.1, hf.2.1]; exact hsc.linked
    · exact hchild
    · exact hcomp
  | check ck =>
    obtain ⟨⟨g, hr, hsc⟩, hchild, hcomp⟩ := h
    have hf := check_frame l.snd ck
    refine ⟨⟨g, hr, ⟨?_, ?_, ?_⟩⟩, hchild, hcomp⟩
    · simp only [Link.step, hf.1]; exact hsc.batch
    · simp only [Link.step, hf.2.1]; exact hsc.dumpHeld
    · simp only [Link.step, hf.1]
      rcases hf.2.2.2.1 with ht | ht
      · rw [ht]; exact hsc.linked
      · rw [ht]; exact Linked_tail_none hsc.linked
  | childStep =>
    obtain ⟨⟨g, hr, hsc⟩, hchild, hcomp⟩ := h
    have hf := childStep_frame_snd l.snd
    apply noteHeld_inv { l with snd := l.snd.childStep } g hr
    · simp only [hf.1]; exact hsc.batch
    · simp only [hf.1, hf.2]; exact hsc.linked
    · exact hchild
    · exact hcomp
  | sndInstall d =>
    obtain ⟨⟨g, hr, hsc⟩, hchild, hcomp⟩ := h
    have hf := feed_frame l.snd [some ⟨d, true, false⟩, some ⟨[], false, true⟩]
    have hf2 := finish_frame (l.snd.feed [some ⟨d, true, false⟩, some ⟨[], false, true⟩]).1 true
    apply noteHeld_inv { l with snd := ((l.snd.feed [some ⟨d, true, false⟩, some ⟨[], false, true⟩]).1.finishIncoming true).1 } g hr
    · simp only [hf2.1, hf.1]; exact hsc.batch
    · simp only [hf2.1, hf2.2, hf.1, hf.2]; exact hsc.linked
    · exact hchild
    · exact hcomp
  | rcvSerialize id pieces fail =>
    obtain ⟨⟨g, hr, hsc⟩, hchild, hcomp⟩ := h
    have hf := serialize_frame l.rcv id pieces fail
    refine ⟨⟨g, ?_, hsc⟩, hf.2.2.2.2 hchild, hcomp⟩
    cases g with
    | none => trivial
    | some p => obtain ⟨D, o⟩ := p; exact ⟨hr.1, by simp only [Link.step, hf.2.2.1]; exact hr.2.1, by simp only [Link.step, hf.2.2.2.1]; exact hr.2.2⟩
  | rcvCheck ck =>
    obtain ⟨⟨g, hr, hsc⟩, hchild, hcomp⟩ := h
    have hf := check_frame l.rcv ck
    refine ⟨⟨g, ?_, hsc⟩, hf.2.2.2.2 hchild, hcomp⟩
    cases g with
    | none => trivial
    | some p => obtain ⟨D, o⟩ := p; exact ⟨hr.1, by simp only [Link.step, hf.2.2.1]; exact hr.2.1, by simp only [Link.step, hf.2.1]; exact hr.2.2⟩
  | rcvChildStep =>
    obtain ⟨⟨g, hr, hsc⟩, hchild, hcomp⟩ := h
    have hf := childStep_frame l.rcv hchild
    refine ⟨⟨g, ?_, hsc⟩, hf.2.2.2.2, hcomp⟩
    cases g with
    | none => trivial
    | some p => obtain ⟨D, o⟩ := p; exact ⟨hr.1, by simp only [Link.step, hf.2.2.1]; exact hr.2.1, by simp only [Link.step, hf.2.2.2.1]; exact hr.2.2⟩
  | rcvRestart c =>
    obtain ⟨⟨g, hr, hsc⟩, hchild, hcomp⟩ := h
    have hc : c = true := he
    subst hc
    refine ⟨⟨none, trivial, ⟨hsc.batch, hsc.dumpHeld, ?_⟩⟩, restart_childOk _, hcomp⟩
    simp [Link.step, Ser.cancel, tlookup_terase_self, Linked]

theorem run_inv (evs : List Ev) : ∀ (l : Link), (∀ e ∈ evs, e.repaired = true) → Inv l → Inv (l.run evs) := by
  induction evs with
  | nil => intro l _ h; exact h
  | cons e evs ih =>
    intro l he h
    exact ih (l.step e) (fun e' h' => he e' (List.mem_cons_of_mem _ h')) (step_inv l e (he e (List.mem_cons_self ..)) h)

end PSO.Serializer

namespace PSO.Serializer

-- ------------------------------------------------------------------------------------------------
-- `held` is exactly the history of the sender's store
-- ------------------------------------------------------------------------------------------------

theorem noteHeld_held (l : Link) :
    l.noteHeld.held = l.held ∨ ∃ d, l.noteHeld.snd.fs.dump = some d ∧ l.noteHeld.held = d :: l.held := by
  unfold Link.noteHeld
  cases hd : l.snd.fs.dump with
  | none => left; rfl
  | some d => right; exact ⟨d, by simp [hd], rfl⟩

theorem step_held (l : Link) (e : Ev) :
    (l.step e).held = l.held ∨ ∃ d, (l.step e).snd.fs.dump = some d ∧ (l.step e).held = d :: l.held := by
  cases e with
  | serialize id p f => exact noteHeld_held _
  | childStep => exact noteHeld_held _
  | sndInstall d => exact noteHeld_held _
  | deliver =>
    left
    unfold Link.step
    cases l.chan <;> rfl
  | reconnect c => left; rfl
  | rcvRestart c => left; rfl
  | _ => left; rfl

theorem run_cons (l : Link) (e : Ev) (evs : List Ev) : l.run (e :: evs) = (l.step e).run evs := rfl

/-- every element of `held` was the sender's store after some prefix of the events -/
theorem held_sound (evs : List Ev) : ∀ (l : Link) (d : Bytes), d ∈ (l.run evs).held →
    d ∈ l.held ∨ ∃ k, k ≤ evs.length ∧ (l.run (evs.take k)).snd.fs.dump = some d := by
  induction evs with
  | nil => intro l d h; left; exact h
  | cons e evs ih =>
    intro l d h
    rw [run_cons] at h
    rcases ih (l.step e) d h with h1 | ⟨k, hk, h2⟩
    · rcases step_held l e with hs | ⟨d', hd', hs⟩
      · left; rw [hs] at h1; exact h1
      · rw [hs] at h1
        rcases List.mem_cons.mp h1 with h1 | h1
        · right
          refine ⟨1, by simp, ?_⟩
          subst h1
          simpa [Link.run] using hd'
        · left; exact h1
    · right
      exact ⟨k + 1, by simp; omega, by simpa [run_cons] using h2⟩

end PSO.Serializer

namespace PSO.Serializer

-- ------------------------------------------------------------------------------------------------
-- fork mode: the child's write is not disturbed by what the parent keeps doing
-- ------------------------------------------------------------------------------------------------

/-- events during which the sender neither starts another dump nor installs a received snapshot -/
def Ev.noNewDump : Ev → Bool
  | .serialize .. => false
  | .sndInstall .. => false
  | _ => true

/-- the fork child of the sender has performed `j` of the operations `ops` on the file system `fs0` -/
def ForkInv (ops : List FsOp) (fs0 : FS) (l : Link) : Prop :=
  ∃ j, j ≤ ops.length ∧ l.snd.fs = fs0.crashAt ops j ∧
    (l.snd.child = some ⟨ops.drop j, true⟩ ∨ (j = ops.length ∧ l.snd.child = none))

theorem crashAt_succ (fs : FS) (ops : List FsOp) (j : Nat) (op : FsOp) (rest : List FsOp)
    (h : ops.drop j = op :: rest) : fs.crashAt ops (j + 1) = (fs.crashAt ops j).apply op ∧ ops.drop (j + 1) = rest ∧ j < ops.length := by
  have hj : j < ops.length := by
    by_cases hj : j < ops.length
    · exact hj
    · rw [List.drop_eq_nil_of_le (by omega)] at h; cases h
  have hop : ops[j] = op := by
    have := List.drop_eq_getElem_cons hj
    rw [this] at h
    exact (List.cons.inj h).1
  refine ⟨?_, ?_, hj⟩
  · simp only [FS.crashAt, List.take_succ_eq_append_getElem hj, FS.run_append, hop]
    rfl
  · have := List.drop_eq_getElem_cons hj
    rw [this] at h
    exact (List.cons.inj h).2

theorem check_child (s : Ser) (ck : Option Status) (ops : List FsOp) (h : s.child = some ⟨ops, true⟩) :
    (s.checkSerializing ck).1.child = s.child ∨ (ops = [] ∧ (s.checkSerializing ck).1.child = none) := by
  unfold Ser.checkSerializing
  cases ck with
  | some st => by_cases h' : st = .success ∨ st = .failed <;> simp [h']
  | none =>
    simp only
    by_cases hm : s.memBranch = true
    · simp only [hm, if_true]; cases s.pid <;> simp
    · simp only [hm]
      cases s.pid
      · simp
      all_goals
        rw [h]
        cases ops with
        | nil => simp
        | cons op rest => simp [h]

theorem check_child_none (s : Ser) (ck : Option Status) (h : s.child = none) :
    (s.checkSerializing ck).1.child = none := by
  unfold Ser.checkSerializing
  cases ck with
  | some st => by_cases h' : st = .success ∨ st = .failed <;> simp [h', h]
  | none =>
    simp only
    by_cases hm : s.memBranch = true
    · simp only [hm, if_true]; cases s.pid <;> simp [h]
    · simp only [hm]
      cases s.pid <;> simp [h]

theorem get_child (s : Ser) (n : Nat) : (s.getTransmissionData n).1.child = s.child := by
  unfold Ser.getTransmissionData
  by_cases hp : s.pid ≠ .idle
  · simp [hp]
  · simp only [hp, if_false]
    cases s.cur n <;> simp

theorem burst_frame (b : Nat) : ∀ (s : Ser) (n : Nat), (s.burst n b).1.child = s.child ∧ (s.burst n b).1.fs = s.fs := by
  induction b with
  | zero => intro s n; exact ⟨rfl, rfl⟩
  | succ b ih =>
    intro s n
    rw [burst_succ]
    have hc := get_child s n
    have hf := (get_frame s n).2
    cases hget : s.getTransmissionData n with
    | mk s' c =>
      rw [hget] at hc hf
      cases c with
      | none => exact ⟨hc, hf⟩
      | some ch =>
        dsimp only
        by_cases hl : ch.isLast = true
        · rw [if_pos hl]; exact ⟨hc, hf⟩
        · rw [if_neg hl]
          have := ih s' n
          exact ⟨this.1.trans hc, this.2.trans hf⟩

theorem noteHeld_snd (l : Link) : l.noteHeld.snd = l.snd := by
  unfold Link.noteHeld; split <;> rfl

theorem fork_step (ops : List FsOp) (fs0 : FS) (l : Link) (e : Ev) (he : e.noNewDump = true)
    (h : ForkInv ops fs0 l) : ForkInv ops fs0 (l.step e) := by
  obtain ⟨j, hj, hfs, hchild⟩ := h
  cases e with
  | serialize id p f => simp [Ev.noNewDump] at he
  | sndInstall d => simp [Ev.noNewDump] at he
  | send =>
    exact ⟨j, hj, by simp only [Link.step, (get_frame _ _).2]; exact hfs, by simp only [Link.step, get_child]; exact hchild⟩
  | burst b =>
    exact ⟨j, hj, by simp only [Link.step, (burst_frame b _ _).2]; exact hfs,
      by simp only [Link.step, (burst_frame b _ _).1]; exact hchild⟩
  | sendOther n =>
    exact ⟨j, hj, by simp only [Link.step, (get_frame _ _).2]; exact hfs, by simp only [Link.step, get_child]; exact hchild⟩
  | deliver =>
    refine ⟨j, hj, ?_, ?_⟩ <;> (unfold Link.step; cases l.chan <;> simp_all)
  | reconnect c => exact ⟨j, hj, by cases c <;> exact hfs, by cases c <;> exact hchild⟩
  | cancel => exact ⟨j, hj, hfs, hchild⟩
  | rcvSerialize id p f => exact ⟨j, hj, hfs, hchild⟩
  | rcvCheck ck => exact ⟨j, hj, hfs, hchild⟩
  | rcvChildStep => exact ⟨j, hj, hfs, hchild⟩
  | rcvRestart c => exact ⟨j, hj, by cases c <;> exact hfs, by cases c <;> exact hchild⟩
  | check ck =>
    have hf := (check_frame l.snd ck).2.1
    rcases hchild with hc | ⟨hjl, hc⟩
    · rcases check_child l.snd ck _ hc with h1 | ⟨h1, h2⟩
      · exact ⟨j, hj, by simp only [Link.step, hf]; exact hfs, Or.inl (by simp only [Link.step, h1]; exact hc)⟩
      · have : j = ops.length := by
          have := congrArg List.length h1
          simp at this; omega
        exact ⟨j, hj, by simp only [Link.step, hf]; exact hfs, Or.inr ⟨this, by simp only [Link.step]; exact h2⟩⟩
    · exact ⟨j, hj, by simp only [Link.step, hf]; exact hfs,
        Or.inr ⟨hjl, by simp only [Link.step]; exact check_child_none _ _ hc⟩⟩
  | childStep =>
    have hsnd : (l.step .childStep).snd = l.snd.childStep := noteHeld_snd _
    unfold ForkInv
    rw [hsnd]
    rcases hchild with hc | ⟨hjl, hc⟩
    · cases hd : ops.drop j with
      | nil =>
        refine ⟨j, hj, ?_, Or.inl ?_⟩
        · simp only [Ser.childStep, hc, hd]; exact hfs
        · simp only [Ser.childStep, hc, hd]
      | cons op rest =>
        obtain ⟨h1, h2, h3⟩ := crashAt_succ fs0 ops j op rest hd
        refine ⟨j + 1, h3, ?_, Or.inl ?_⟩
        · simp only [Ser.childStep, hc, hd, h1, hfs]
        · simp only [Ser.childStep, hc, hd, h2]
    · exact ⟨j, hj, by simp only [Ser.childStep, hc]; exact hfs, Or.inr ⟨hjl, by simp only [Ser.childStep, hc]⟩⟩

theorem fork_run (ops : List FsOp) (fs0 : FS) (evs : List Ev) : ∀ (l : Link),
    (∀ e ∈ evs, e.noNewDump = true) → ForkInv ops fs0 l → ForkInv ops fs0 (l.run evs) := by
  induction evs with
  | nil => intro l _ h; exact h
  | cons e evs ih =>
    intro l he h
    exact ih (l.step e) (fun e' h' => he e' (List.mem_cons_of_mem _ h')) (fork_step ops fs0 l e (he e (List.mem_cons_self ..)) h)

end PSO.Serializer

namespace PSO.Serializer

-- ------------------------------------------------------------------------------------------------
-- D66: whenever the own dump child was started, a completed install leaves none behind
-- ------------------------------------------------------------------------------------------------

/-- what a follower does between the start of its own dump and the install of an incoming snapshot: it receives
messages (`some m`) and its fork child performs primitive operations (`none`), in any order -/
def Ser.mix (s : Ser) : List (Option (Option Chunk)) → Ser
  | [] => s
  | none :: rest => Ser.mix s.childStep rest
  | some m :: rest => Ser.mix (s.setTransmissionData m).1 rest

/-- file + fork mode, and a child record exists only while `pid` says so -/
def Ser.forkWF (s : Ser) : Prop :=
  s.mode = .file ∧ s.fork = true ∧ ((s.pid = .idle ∧ s.child = none) ∨ s.pid = .child)

theorem forkWF_set (s : Ser) (m : Option Chunk) (h : s.forkWF) : (s.setTransmissionData m).1.forkWF := by
  obtain ⟨hm, hf, hp⟩ := h
  unfold Ser.setTransmissionData
  cases m with
  | none => exact ⟨hm, hf, hp⟩
  | some c =>
    simp only
    split
    · exact ⟨hm, hf, hp⟩
    · exact ⟨hm, hf, hp⟩

theorem forkWF_childStep (s : Ser) (h : s.forkWF) : s.childStep.forkWF := by
  obtain ⟨hm, hf, hp⟩ := h
  unfold Ser.childStep
  cases hc : s.child with
  | none => exact ⟨hm, hf, hp⟩
  | some c =>
    obtain ⟨ops, ok⟩ := c
    cases ops with
    | nil => exact ⟨hm, hf, hp⟩
    | cons op rest =>
      refine ⟨hm, hf, ?_⟩
      rcases hp with ⟨_, h2⟩ | h1
      · rw [hc] at h2; cases h2
      · right; exact h1

theorem forkWF_mix (evs : List (Option (Option Chunk))) : ∀ (s : Ser), s.forkWF → (s.mix evs).forkWF := by
  induction evs with
  | nil => intro s h; exact h
  | cons e rest ih =>
    intro s h
    cases e with
    | none => exact ih _ (forkWF_childStep s h)
    | some m => exact ih _ (forkWF_set s m h)

theorem forkWF_feed (ms : List (Option Chunk)) : ∀ (s : Ser), s.forkWF → (s.feed ms).1.forkWF := by
  induction ms with
  | nil => intro s h; exact h
  | cons m ms ih =>
    intro s h
    rw [feed_cons]
    exact ih _ (forkWF_set s m h)

theorem forkWF_serialize (s : Ser) (id : Nat) (pieces : List Bytes) (fail : Bool) (h : s.forkWF) :
    (s.serialize id pieces fail).1.forkWF := by
  obtain ⟨hm, hf, hp⟩ := h
  by_cases hidle : s.pid = .idle
  · have : (s.serialize id pieces fail).1 =
        { s with curId := id, fs := s.fs.apply (.remove .tmp), orphLinked := false, pid := .child,
                 child := some ⟨dumpWriteOps pieces fail, !fail⟩ } := by
      simp [Ser.serialize, hidle, hm, hf]
    rw [this]; exact ⟨hm, hf, Or.inr rfl⟩
  · have : (s.serialize id pieces fail).1 = s := by simp [Ser.serialize, hidle]
    rw [this]; exact ⟨hm, hf, hp⟩

/-- `finishIncoming(True)` with a received snapshot at hand on a well-formed fork-mode serializer leaves no child and
pid idle; mode and fork flag are unchanged -/
theorem forkWF_finish (s : Ser) (h : s.forkWF) (hs : s.incSnap = true) :
    (s.finishIncoming true).1.child = none ∧ (s.finishIncoming true).1.pid = .idle ∧
    (s.finishIncoming true).1.mode = .file ∧ (s.finishIncoming true).1.fork = true := by
  obtain ⟨hm, hf, hp⟩ := h
  rcases hp with ⟨h1, h2⟩ | h1
  · simp [Ser.finishIncoming, hs, h1, h2, hm, hf]
  · simp [Ser.finishIncoming, hs, hm, hf, h1]

end PSO.Serializer

namespace PSO.Serializer

-- ------------------------------------------------------------------------------------------------
-- D70: the follower's stored snapshot changes only through its own dump or an accepted install
-- ------------------------------------------------------------------------------------------------

/-- the only events that may change the follower's stored snapshot: its own dump (`serialize` in memory / inline
mode, the rename by its fork child), a process restart (memory mode keeps nothing), and a delivery whose
`__loadDumpFile` decides to install (`finishIncoming(True)`) -/
def Ev.mayStore : Ev → Bool
  | .rcvSerialize .. => true
  | .rcvChildStep => true
  | .rcvRestart _ => true
  | .deliver (some true) => true
  | _ => false

theorem noteHeld_rcv (l : Link) : l.noteHeld.rcv = l.rcv := by
  unfold Link.noteHeld; split <;> rfl

theorem rcv_store_frame (l : Link) (e : Ev) (h : e.mayStore = false) : (l.step e).rcv.fs.dump = l.rcv.fs.dump := by
  cases e with
  | rcvSerialize id p f => simp [Ev.mayStore] at h
  | rcvChildStep => simp [Ev.mayStore] at h
  | rcvRestart c => simp [Ev.mayStore] at h
  | serialize id p f => show (Link.noteHeld _).rcv.fs.dump = _; rw [noteHeld_rcv]
  | childStep => show (Link.noteHeld _).rcv.fs.dump = _; rw [noteHeld_rcv]
  | sndInstall d => show (Link.noteHeld _).rcv.fs.dump = _; rw [noteHeld_rcv]
  | rcvCheck ck => simp only [Link.step, (check_frame l.rcv ck).2.1]
  | deliver fin =>
    unfold Link.step
    cases l.chan with
    | nil => rfl
    | cons c rest =>
      simp only
      by_cases hd : (l.rcv.setTransmissionData c).2 = true
      · simp only [hd, if_true]
        cases fin with
        | none => exact set_keeps_dump _ _
        | some a =>
          cases a
          · simp only; rw [finish_reject_dump, set_keeps_dump]
          · simp [Ev.mayStore] at h
      · simp only [hd]; exact set_keeps_dump _ _
  | send => rfl
  | burst b => rfl
  | sendOther n => rfl
  | reconnect c => rfl
  | cancel => rfl
  | check ck => rfl

/-- a delivery on a link that satisfies the invariant: the stored snapshot stays, or the delivery completed a
transfer, `finishIncoming(True)` was called, and the stored snapshot is now exactly the completed bytes — a snapshot
the sender held -/
theorem deliver_store (l : Link) (fin : Option Bool) (h : Inv l) :
    (l.step (.deliver fin)).rcv.fs.dump = l.rcv.fs.dump ∨
    (fin = some true ∧ ∃ d, d ∈ l.held ∧ (l.step (.deliver fin)).rcv.fs.dump = some d ∧
      (l.step (.deliver fin)).completed = d :: l.completed) := by
  by_cases hf : fin = some true
  · subst hf
    obtain ⟨⟨g, hr, hsc⟩, _, _⟩ := h
    unfold Link.step
    cases hchan : l.chan with
    | nil => left; rfl
    | cons x rest =>
      have hlink := hsc.linked
      rw [hchan] at hlink
      cases x with
      | none => left; simp [Ser.setTransmissionData]
      | some ch =>
        obtain ⟨D, o, hD, hch, hg, _⟩ := hlink
        have hpre : l.rcv.holdsPrefix D o := by
          by_cases ho : o = 0
          · exact Or.inl ho
          · have := hg (by omega)
            subst this
            exact Or.inr hr.2
        have hset := set_chunkAt l.rcv l.snd.batch hsc.batch D o hpre
        simp only at hset
        rw [← hch] at hset
        obtain ⟨hret, _, hdump, hcase⟩ := hset
        by_cases hl : ch.isLast = true
        · right
          simp only [hl, if_true] at hcase
          have hfin := finish_accept_dump _ D hcase.2.2 hcase.1
          refine ⟨rfl, D, hD, ?_, ?_⟩
          · simp only [hret, hl, if_true]; exact hfin.1
          · simp only [hret, hl, if_true, hcase.1]
        · left
          simp only [hret, hl]
          exact hdump
  · left
    apply rcv_store_frame
    cases fin with
    | none => rfl
    | some a => cases a <;> simp_all [Ev.mayStore]

end PSO.Serializer

namespace PSO.Serializer

-- ------------------------------------------------------------------------------------------------
-- D84: the orphaned dump writer of an earlier incarnation
-- ------------------------------------------------------------------------------------------------

/-- all an orphan still does: write to / close the file it holds open -/
def FsOp.orphanish : FsOp → Bool
  | .write .tmp _ => true
  | .close .tmp => true
  | _ => false

def Ser.orphanOk (s : Ser) : Prop := ∀ ops, s.orphan = some ops → ∀ op ∈ ops, op.orphanish = true

theorem orphanish_safe (op : FsOp) (h : op.orphanish = true) : op.safe = true ∧ op.keepsTmp1 = true := by
  cases op with
  | write f b => cases f <;> simp_all [FsOp.orphanish, FsOp.safe, FsOp.keepsTmp1]
  | close f => cases f <;> simp_all [FsOp.orphanish, FsOp.safe, FsOp.keepsTmp1]
  | openW f => simp [FsOp.orphanish] at h
  | rename a b => simp [FsOp.orphanish] at h
  | remove f => simp [FsOp.orphanish] at h

/-- a restart (= the node was killed) leaves at most an orphan that only writes and closes -/
theorem restart_orphanOk (s : Ser) (h : s.orphanOk) : s.restart.orphanOk := by
  intro ops hops op hop
  unfold Ser.restart at hops
  simp only at hops
  cases hm : s.mode with
  | memory => rw [hm] at hops; exact h ops (by simpa using hops) op hop
  | file =>
    rw [hm] at hops
    cases hc : s.child with
    | none => rw [hc] at hops; exact h ops (by simpa using hops) op hop
    | some c =>
      obtain ⟨cops, ok⟩ := c
      rw [hc] at hops
      simp only at hops
      split at hops
      · cases hops
      · simp only [Option.some.injEq] at hops
        subst hops
        have := (List.mem_filter.mp hop).2
        cases op with
        | write f b => cases f <;> simp_all [FsOp.orphanish]
        | close f => cases f <;> simp_all [FsOp.orphanish]
        | openW f => simp at this
        | rename a b => simp at this
        | remove f => simp at this

theorem orphanStep_frame (s : Ser) (h : s.orphanOk) :
    s.orphanStep.fs.dump = s.fs.dump ∧ s.orphanStep.fs.tmp1 = s.fs.tmp1 ∧ s.orphanStep.orphanOk ∧
    s.orphanStep.orphLinked = s.orphLinked ∧ (s.orphLinked = false → s.orphanStep.fs = s.fs) := by
  unfold Ser.orphanStep
  cases ho : s.orphan with
  | none => exact ⟨rfl, rfl, h, rfl, fun _ => rfl⟩
  | some ops =>
    cases ops with
    | nil => exact ⟨rfl, rfl, h, rfl, fun _ => rfl⟩
    | cons op rest =>
      have hop := orphanish_safe op (h _ ho op (List.mem_cons_self ..))
      refine ⟨?_, ?_, ?_, rfl, ?_⟩
      · simp only; split
        · exact FS.apply_safe_dump _ _ hop.1
        · rfl
      · simp only; split
        · exact FS.apply_keepsTmp1 _ _ hop.2
        · rfl
      · intro ops' h' op' hop'
        simp at h'
        subst h'
        exact h _ ho op' (List.mem_cons_of_mem _ hop')
      · intro hl; simp [hl]

theorem orphanRun_frame (n : Nat) : ∀ (s : Ser), s.orphanOk →
    (s.orphanRun n).fs.dump = s.fs.dump ∧ (s.orphLinked = false → (s.orphanRun n).fs = s.fs) := by
  induction n with
  | zero => intro s _; exact ⟨rfl, fun _ => rfl⟩
  | succ n ih =>
    intro s h
    obtain ⟨h1, _, h3, h4, h5⟩ := orphanStep_frame s h
    have := ih s.orphanStep h3
    refine ⟨this.1.trans h1, fun hl => ?_⟩
    exact (this.2 (h4.trans hl)).trans (h5 hl)

/-- a new dump (`serialize` in file mode on an idle serializer) unlinks the file the orphan holds -/
theorem serialize_unlinks_orphan (s : Ser) (id : Nat) (pieces : List Bytes) (fail : Bool)
    (hm : s.mode = .file) (hp : s.pid = .idle) :
    (s.serialize id pieces fail).1.orphLinked = false ∧ (s.serialize id pieces fail).1.orphan = s.orphan := by
  cases hf : s.fork <;> simp [Ser.serialize, hm, hp, hf]

end PSO.Serializer
