import PSO.Model.PyContainers
/-!
`ReplSet.pop` after repair D85: the member removed is a function of the SET of values — it depends neither on
the iteration order of the set's hash table (any enumeration of the same members gives the same choice) nor on the
iteration order of a set-valued member's own hash table (the key of a frozenset sorts the member keys).
-/
namespace PSO.Py.PySet

/-- a strict total order given as a Boolean function (what Python's `<` is on the keys `_valueKey` produces) -/
structure StrictTotal {κ : Type} (lt : κ → κ → Bool) : Prop where
  irrefl : ∀ a, lt a a = false
  trans : ∀ a b c, lt a b = true → lt b c = true → lt a c = true
  tri : ∀ a b, lt a b = false → lt b a = false → a = b

namespace StrictTotal
variable {κ : Type} {lt : κ → κ → Bool}

theorem asymm (h : StrictTotal lt) {a b : κ} (hab : lt a b = true) : lt b a = false := by
  cases hba : lt b a with
  | false => rfl
  | true => have := h.trans a b a hab hba; rw [h.irrefl] at this; cases this

/-- `≤` (= not `>`) is transitive -/
theorem le_trans (h : StrictTotal lt) {a b c : κ} (h1 : lt b a = false) (h2 : lt c b = false) : lt c a = false := by
  cases hca : lt c a with
  | false => rfl
  | true =>
    cases hba : lt a b with
    | true => have := h.trans c a b hca hba; rw [h2] at this; cases this
    | false => have := h.tri a b hba h1; subst this; rw [h2] at hca; cases hca
end StrictTotal

/-! ### any enumeration of the same members gives the same choice -/
theorem foldl_pick_mem' {α : Type} (p : α → α → Bool) (x : α) (xs : List α) :
    xs.foldl (fun m y => if p y m then y else m) x ∈ x :: xs := by
  induction xs generalizing x with
  | nil => simp
  | cons y ys ih =>
    simp only [List.foldl_cons]
    cases hp : p y x with
    | true => simp only [if_true]; exact List.mem_cons_of_mem _ (ih y)
    | false =>
      simp only [Bool.false_eq_true, if_false]
      rcases List.mem_cons.mp (ih x) with h | h
      · rw [h]; exact List.mem_cons_self
      · exact List.mem_cons_of_mem _ (List.mem_cons_of_mem _ h)

theorem foldl_pick_min' {α κ : Type} (lt : κ → κ → Bool) (h : StrictTotal lt) (k : α → κ) (x : α) (xs : List α) :
    ∀ y ∈ x :: xs, lt (k y) (k (xs.foldl (fun m y => if lt (k y) (k m) then y else m) x)) = false := by
  induction xs generalizing x with
  | nil => intro y hy; simp at hy; subst hy; exact h.irrefl _
  | cons z zs ih =>
    intro y hy
    simp only [List.foldl_cons]
    cases hz : lt (k z) (k x) with
    | true =>
      simp only [if_true]
      rcases List.mem_cons.mp hy with rfl | hy
      · exact h.le_trans (ih z z List.mem_cons_self) (h.asymm hz)
      · exact ih z y hy
    | false =>
      simp only [Bool.false_eq_true, if_false]
      rcases List.mem_cons.mp hy with rfl | hy
      · exact ih y y List.mem_cons_self
      · rcases List.mem_cons.mp hy with rfl | hy
        · exact h.le_trans (ih x x List.mem_cons_self) hz
        · exact ih x y (List.mem_cons_of_mem _ hy)

theorem pickMinBy_spec {α κ : Type} (lt : κ → κ → Bool) (h : StrictTotal lt) (k : α → κ) (l : List α) (hne : l ≠ []) :
    ∃ m, pickMinBy lt k l = some m ∧ m ∈ l ∧ ∀ y ∈ l, lt (k y) (k m) = false := by
  cases l with
  | nil => exact absurd rfl hne
  | cons x xs => exact ⟨_, rfl, foldl_pick_mem' _ x xs, foldl_pick_min' lt h k x xs⟩

/-- The choice depends on the set of members only: two enumerations (iteration orders of two hash tables) of the same
members, whose keys distinguish the members, yield the same member. -/
theorem pickMinBy_enum_invariant {α κ : Type} (lt : κ → κ → Bool) (h : StrictTotal lt) (k : α → κ) (l l' : List α)
    (hinj : ∀ x ∈ l, ∀ y ∈ l, k x = k y → x = y) (hsame : ∀ x, x ∈ l ↔ x ∈ l') :
    pickMinBy lt k l = pickMinBy lt k l' := by
  cases l with
  | nil =>
    cases l' with
    | nil => rfl
    | cons y ys => exact absurd ((hsame y).mpr List.mem_cons_self) (by simp)
  | cons x xs =>
    have hne' : l' ≠ [] := by
      intro e; subst e; exact absurd ((hsame x).mp List.mem_cons_self) (by simp)
    obtain ⟨m, hm, hml, hmin⟩ := pickMinBy_spec lt h k (x :: xs) (by simp)
    obtain ⟨m', hm', hml', hmin'⟩ := pickMinBy_spec lt h k l' hne'
    rw [hm, hm']
    have h1 : lt (k m') (k m) = false := hmin m' ((hsame m').mpr hml')
    have h2 : lt (k m) (k m') = false := hmin' m ((hsame m).mp hml)
    have := hinj m hml m' ((hsame m').mpr hml') (h.tri _ _ h2 h1)
    rw [this]

/-! ### `sorted(...)` does not depend on the enumeration -/
theorem insertBy_perm {α : Type} (lt : α → α → Bool) (x : α) (l : List α) : (insertBy lt x l).Perm (x :: l) := by
  induction l with
  | nil => exact List.Perm.refl _
  | cons y ys ih =>
    simp only [insertBy]
    split
    · exact List.Perm.refl _
    · exact (List.Perm.cons y ih).trans (List.Perm.swap x y ys)

theorem isortBy_perm {α : Type} (lt : α → α → Bool) (l : List α) : (isortBy lt l).Perm l := by
  induction l with
  | nil => exact List.Perm.refl _
  | cons x xs ih => exact (insertBy_perm lt x _).trans (List.Perm.cons x ih)

theorem insertBy_sorted {α : Type} (lt : α → α → Bool) (h : StrictTotal lt) (x : α) (l : List α)
    (hs : l.Pairwise (fun a b => lt b a = false)) : (insertBy lt x l).Pairwise (fun a b => lt b a = false) := by
  induction l with
  | nil => simp [insertBy]
  | cons y ys ih =>
    simp only [insertBy]
    rw [List.pairwise_cons] at hs
    split
    · rename_i hxy
      rw [List.pairwise_cons]
      refine ⟨?_, List.pairwise_cons.mpr hs⟩
      intro z hz
      rcases List.mem_cons.mp hz with rfl | hz
      · exact h.asymm hxy
      · exact h.le_trans (h.asymm hxy) (hs.1 z hz)
    · rename_i hxy
      rw [List.pairwise_cons]
      refine ⟨?_, ih hs.2⟩
      intro z hz
      rcases List.mem_cons.mp ((insertBy_perm lt x ys).mem_iff.mp hz) with rfl | hz
      · simpa using hxy
      · exact hs.1 z hz

theorem isortBy_sorted {α : Type} (lt : α → α → Bool) (h : StrictTotal lt) (l : List α) :
    (isortBy lt l).Pairwise (fun a b => lt b a = false) := by
  induction l with
  | nil => exact List.Pairwise.nil
  | cons x xs ih => exact insertBy_sorted lt h x _ ih

/-- `sorted` of two enumerations of the same multiset is the same list -/
theorem isortBy_perm_invariant {α : Type} (lt : α → α → Bool) (h : StrictTotal lt) (l l' : List α) (hp : l.Perm l') :
    isortBy lt l = isortBy lt l' := by
  apply List.Perm.eq_of_pairwise (le := fun a b => lt b a = false)
  · intro a b _ _ h1 h2; exact h.tri a b h2 h1
  · exact isortBy_sorted lt h l
  · exact isortBy_sorted lt h l'
  · exact (isortBy_perm lt l).trans (hp.trans (isortBy_perm lt l').symm)

theorem valueKeys_eq_map (l : List Member) : valueKeys l = l.map valueKey := by
  induction l with
  | nil => simp [valueKeys]
  | cons m ms ih => simp [valueKeys, ih]

/-- the key of a frozenset member does not depend on the iteration order of its own hash table -/
theorem valueKey_fset_perm (h : StrictTotal Key.lt) (l l' : List Member) (hp : l.Perm l') :
    valueKey (.fset l) = valueKey (.fset l') := by
  simp only [valueKey, valueKeys_eq_map]
  rw [isortBy_perm_invariant Key.lt h _ _ (hp.map valueKey)]

/-! ### Python's `<` on the keys is a strict total order (nested structural induction) -/
theorem then_eq_eq {o p : Ordering} : o.then p = .eq ↔ o = .eq ∧ p = .eq := by
  cases o <;> cases p <;> simp [Ordering.then]

theorem then_eq_lt {o p : Ordering} : o.then p = .lt ↔ o = .lt ∨ (o = .eq ∧ p = .lt) := by
  cases o <;> cases p <;> simp [Ordering.then]

theorem cmpNats_refl : ∀ a, cmpNats a a = .eq
  | [] => rfl
  | x :: xs => by simp [cmpNats, cmpNats_refl xs]

theorem cmpNats_eq : ∀ a b, cmpNats a b = .eq → a = b
  | [], [] => fun _ => rfl
  | [], _ :: _ => by simp [cmpNats]
  | _ :: _, [] => by simp [cmpNats]
  | x :: xs, y :: ys => by
    simp only [cmpNats]
    split
    · simp
    · split
      · simp
      · intro h
        have := cmpNats_eq xs ys h
        have : x = y := by omega
        simp [*]

theorem cmpNats_swap : ∀ a b, cmpNats b a = (cmpNats a b).swap
  | [], [] => rfl
  | [], _ :: _ => rfl
  | _ :: _, [] => rfl
  | x :: xs, y :: ys => by
    simp only [cmpNats]
    by_cases h1 : x < y
    · have : ¬ y < x := by omega
      simp [h1, this]
    · by_cases h2 : y < x
      · simp [h1, h2]
      · simp [h1, h2, cmpNats_swap xs ys]

theorem cmpNats_trans : ∀ a b c, cmpNats a b = .lt → cmpNats b c = .lt → cmpNats a c = .lt
  | [], [], _ => by simp [cmpNats]
  | [], _ :: _, [] => by simp [cmpNats]
  | [], _ :: _, _ :: _ => by simp [cmpNats]
  | _ :: _, [], _ => by simp [cmpNats]
  | _ :: _, _ :: _, [] => by simp [cmpNats]
  | x :: xs, y :: ys, z :: zs => by
    simp only [cmpNats]
    intro h1 h2
    by_cases a1 : x < y
    · by_cases b1 : y < z
      · have : x < z := by omega
        simp [this]
      · by_cases b2 : z < y
        · simp [b1, b2] at h2
        · have : x < z := by omega
          simp [this]
    · by_cases a2 : y < x
      · simp [a1, a2] at h1
      · simp only [a1, a2, if_false] at h1
        by_cases b1 : y < z
        · have : x < z := by omega
          simp [this]
        · by_cases b2 : z < y
          · simp [b1, b2] at h2
          · simp only [b1, b2, if_false] at h2
            have e1 : ¬ x < z := by omega
            have e2 : ¬ z < x := by omega
            simp only [e1, e2, if_false]
            exact cmpNats_trans xs ys zs h1 h2



mutual
theorem Key.cmp_refl : ∀ a : Key, Key.cmp a a = .eq
  | .leaf t r => by simp [Key.cmp, cmpNats_refl, Ordering.then]
  | .node t ks => by simp [Key.cmp, cmpNats_refl, Ordering.then, Key.cmpList_refl ks]
theorem Key.cmpList_refl : ∀ l : List Key, Key.cmpList l l = .eq
  | [] => by simp [Key.cmpList]
  | a :: as => by simp [Key.cmpList, Key.cmp_refl a, Key.cmpList_refl as, Ordering.then]
end

mutual
theorem Key.cmp_eq : ∀ a b : Key, Key.cmp a b = .eq → a = b
  | .leaf t r, .leaf t' r' => by
    simp only [Key.cmp, then_eq_eq]
    rintro ⟨h1, h2⟩
    rw [cmpNats_eq _ _ h1, cmpNats_eq _ _ h2]
  | .leaf t _, .node t' _ => by simp [Key.cmp]
  | .node t _, .leaf t' _ => by simp [Key.cmp]
  | .node t ks, .node t' ks' => by
    simp only [Key.cmp, then_eq_eq]
    rintro ⟨h1, h2⟩
    rw [cmpNats_eq _ _ h1, Key.cmpList_eq ks ks' h2]
theorem Key.cmpList_eq : ∀ l l' : List Key, Key.cmpList l l' = .eq → l = l'
  | [], [] => fun _ => rfl
  | [], _ :: _ => by simp [Key.cmpList]
  | _ :: _, [] => by simp [Key.cmpList]
  | a :: as, b :: bs => by
    simp only [Key.cmpList, then_eq_eq]
    rintro ⟨h1, h2⟩
    rw [Key.cmp_eq a b h1, Key.cmpList_eq as bs h2]
end

theorem swap_then (o p : Ordering) : (o.then p).swap = o.swap.then p.swap := by
  cases o <;> cases p <;> rfl

mutual
theorem Key.cmp_swap : ∀ a b : Key, Key.cmp b a = (Key.cmp a b).swap
  | .leaf t r, .leaf t' r' => by simp only [Key.cmp, swap_then, cmpNats_swap t t', cmpNats_swap r r']
  | .leaf t _, .node t' _ => by simp only [Key.cmp, swap_then, cmpNats_swap t t']; rfl
  | .node t _, .leaf t' _ => by simp only [Key.cmp, swap_then, cmpNats_swap t t']; rfl
  | .node t ks, .node t' ks' => by simp only [Key.cmp, swap_then, cmpNats_swap t t', Key.cmpList_swap ks ks']
theorem Key.cmpList_swap : ∀ l l' : List Key, Key.cmpList l' l = (Key.cmpList l l').swap
  | [], [] => rfl
  | [], _ :: _ => rfl
  | _ :: _, [] => rfl
  | a :: as, b :: bs => by simp only [Key.cmpList, swap_then, Key.cmp_swap a b, Key.cmpList_swap as bs]
end

/-- lexicographic transitivity step: first components transitive and `eq` meaning equality -/
theorem lex_trans {o12 o23 o13 p12 p23 p13 : Ordering}
    (ht : o12 = .lt → o23 = .lt → o13 = .lt) (he1 : o12 = .eq → o13 = o23) (he2 : o23 = .eq → o13 = o12)
    (hp : p12 = .lt → p23 = .lt → p13 = .lt)
    (h1 : o12.then p12 = .lt) (h2 : o23.then p23 = .lt) : o13.then p13 = .lt := by
  rw [then_eq_lt] at *
  rcases h1 with a | ⟨a, a'⟩ <;> rcases h2 with b | ⟨b, b'⟩
  · exact Or.inl (ht a b)
  · left; rw [he2 b]; exact a
  · left; rw [he1 a]; exact b
  · right; exact ⟨by rw [he1 a]; exact b, hp a' b'⟩

theorem cmpNats_eq_left {a b c : List Nat} (h : cmpNats a b = .eq) : cmpNats a c = cmpNats b c := by
  rw [cmpNats_eq a b h]
theorem cmpNats_eq_right {a b c : List Nat} (h : cmpNats b c = .eq) : cmpNats a c = cmpNats a b := by
  rw [cmpNats_eq b c h]

mutual
theorem Key.cmp_trans : ∀ a b c : Key, Key.cmp a b = .lt → Key.cmp b c = .lt → Key.cmp a c = .lt
  | .leaf t r, .leaf t' r', .leaf t'' r'' => by
    simp only [Key.cmp]
    exact lex_trans (cmpNats_trans t t' t'') cmpNats_eq_left cmpNats_eq_right (cmpNats_trans r r' r'')
  | .leaf t r, .leaf t' r', .node t'' ks'' => by
    simp only [Key.cmp]
    exact lex_trans (cmpNats_trans t t' t'') cmpNats_eq_left cmpNats_eq_right (fun _ _ => rfl)
  | .leaf t r, .node t' ks', .leaf t'' r'' => by
    simp only [Key.cmp]
    intro h1 h2
    rw [then_eq_lt] at h1 h2 ⊢
    rcases h2 with b | ⟨_, b'⟩
    · rcases h1 with a | ⟨a, _⟩
      · exact Or.inl (cmpNats_trans t t' t'' a b)
      · left; rw [cmpNats_eq_left a]; exact b
    · cases b'
  | .leaf t r, .node t' ks', .node t'' ks'' => by
    simp only [Key.cmp]
    intro h1 h2
    rw [then_eq_lt] at h1 h2 ⊢
    rcases h1 with a | ⟨a, _⟩ <;> rcases h2 with b | ⟨b, _⟩
    · exact Or.inl (cmpNats_trans t t' t'' a b)
    · left; rw [cmpNats_eq_right b]; exact a
    · left; rw [cmpNats_eq_left a]; exact b
    · right; exact ⟨by rw [cmpNats_eq_left a]; exact b, rfl⟩
  | .node t ks, .leaf t' r', .leaf t'' r'' => by
    simp only [Key.cmp]
    intro h1 h2
    rw [then_eq_lt] at h1 h2 ⊢
    rcases h1 with a | ⟨_, a'⟩
    · rcases h2 with b | ⟨b, _⟩
      · exact Or.inl (cmpNats_trans t t' t'' a b)
      · left; rw [cmpNats_eq_right b]; exact a
    · cases a'
  | .node t ks, .leaf t' r', .node t'' ks'' => by
    simp only [Key.cmp]
    intro h1 h2
    rw [then_eq_lt] at h1 h2 ⊢
    rcases h1 with a | ⟨_, a'⟩
    · rcases h2 with b | ⟨b, _⟩
      · exact Or.inl (cmpNats_trans t t' t'' a b)
      · left; rw [cmpNats_eq_right b]; exact a
    · cases a'
  | .node t ks, .node t' ks', .leaf t'' r'' => by
    simp only [Key.cmp]
    intro h1 h2
    rw [then_eq_lt] at h1 h2 ⊢
    rcases h2 with b | ⟨_, b'⟩
    · rcases h1 with a | ⟨a, _⟩
      · exact Or.inl (cmpNats_trans t t' t'' a b)
      · left; rw [cmpNats_eq_left a]; exact b
    · cases b'
  | .node t ks, .node t' ks', .node t'' ks'' => by
    simp only [Key.cmp]
    exact lex_trans (cmpNats_trans t t' t'') cmpNats_eq_left cmpNats_eq_right (Key.cmpList_trans ks ks' ks'')
theorem Key.cmpList_trans : ∀ l l' l'' : List Key, Key.cmpList l l' = .lt → Key.cmpList l' l'' = .lt → Key.cmpList l l'' = .lt
  | [], [], _ => by simp [Key.cmpList]
  | [], _ :: _, [] => by simp [Key.cmpList]
  | [], _ :: _, _ :: _ => by simp [Key.cmpList]
  | _ :: _, [], _ => by simp [Key.cmpList]
  | _ :: _, _ :: _, [] => by simp [Key.cmpList]
  | a :: as, b :: bs, c :: cs => by
    simp only [Key.cmpList]
    exact lex_trans (Key.cmp_trans a b c) (fun h => by rw [Key.cmp_eq a b h]) (fun h => by rw [Key.cmp_eq b c h])
      (Key.cmpList_trans as bs cs)
end

/-- Python's `<` on the keys `_valueKey` produces is a strict total order -/
theorem Key.lt_strictTotal : StrictTotal Key.lt where
  irrefl a := by simp [Key.lt, Key.cmp_refl]
  trans a b c h1 h2 := by
    simp only [Key.lt, beq_iff_eq] at *
    exact Key.cmp_trans a b c h1 h2
  tri a b h1 h2 := by
    apply Key.cmp_eq
    simp only [Key.lt, beq_eq_false_iff_ne, ne_eq] at h1 h2
    rw [Key.cmp_swap a b] at h2
    cases h : Key.cmp a b with
    | eq => rfl
    | lt => exact absurd h h1
    | gt => rw [h] at h2; exact absurd rfl h2


/-! ### consequences for `ReplSet.pop` -/

/-- the key of a frozenset member depends only on the multiset of its members' keys: not on the iteration order of
its own hash table, and not on the layouts of nested set-valued members -/
theorem valueKey_fset_congr (l l' : List Member) (hp : (l.map valueKey).Perm (l'.map valueKey)) :
    valueKey (.fset l) = valueKey (.fset l') := by
  simp only [valueKey, valueKeys_eq_map]
  rw [isortBy_perm_invariant Key.lt Key.lt_strictTotal _ _ hp]

theorem valueKey_tup_congr (l l' : List Member) (hp : l.map valueKey = l'.map valueKey) :
    valueKey (.tup l) = valueKey (.tup l') := by
  simp only [valueKey, valueKeys_eq_map, hp]

/-- two replicas whose sets hold the same VALUES (same keys), enumerated in any order and with any layouts of the
members themselves, choose members with the same key -/
theorem chooseMember_key_invariant (l l' : List Member)
    (hsame : ∀ k, k ∈ l.map valueKey ↔ k ∈ l'.map valueKey) :
    (chooseMember l).map valueKey = (chooseMember l').map valueKey := by
  have h := Key.lt_strictTotal
  cases l with
  | nil =>
    cases l' with
    | nil => rfl
    | cons y ys => exact absurd ((hsame (valueKey y)).mpr (by simp)) (by simp)
  | cons x xs =>
    have hne' : l' ≠ [] := by
      intro e; subst e; exact absurd ((hsame (valueKey x)).mp (by simp)) (by simp)
    obtain ⟨m, hm, hml, hmin⟩ := pickMinBy_spec Key.lt h valueKey (x :: xs) (by simp)
    obtain ⟨m', hm', hml', hmin'⟩ := pickMinBy_spec Key.lt h valueKey l' hne'
    simp only [chooseMember, hm, hm', Option.map_some, Option.some.injEq]
    obtain ⟨y, hy, hyk⟩ := List.mem_map.mp ((hsame (valueKey m')).mpr (List.mem_map.mpr ⟨m', hml', rfl⟩))
    obtain ⟨z, hz, hzk⟩ := List.mem_map.mp ((hsame (valueKey m)).mp (List.mem_map.mpr ⟨m, hml, rfl⟩))
    have h1 : Key.lt (valueKey m') (valueKey m) = false := by rw [← hyk]; exact hmin y hy
    have h2 : Key.lt (valueKey m) (valueKey m') = false := by rw [← hzk]; exact hmin' z hz
    exact h.tri _ _ h2 h1

end PSO.Py.PySet
