import PSO.Proofs.RaftSafety

/-! # Facts relating a state to its successors (history monotonicity) -/
namespace PSO.Raft

/-- What any step (restarts included) may do to the ghost history and the terms. -/
structure GhostMono (s s' : State) : Prop where
  voted : ∀ t v c, s.g.voted t v = some c → s'.g.voted t v = some c
  tl    : ∀ t, ∃ ys, s'.g.termLog t = s.g.termLog t ++ ys
  ack   : ∀ t q, s.g.acked t q ≤ s'.g.acked t q
  ldr   : ∀ t l, s.g.leaderOf t = some l → s'.g.leaderOf t = some l
  term  : ∀ n, (s.nodes n).term ≤ (s'.nodes n).term

theorem GhostMono.refl (s : State) : GhostMono s s :=
  ⟨fun _ _ _ h => h, fun _ => ⟨[], by simp⟩, fun _ _ => Nat.le_refl _, fun _ _ h => h, fun _ => Nat.le_refl _⟩

theorem GhostMono.trans {a b c : State} (h1 : GhostMono a b) (h2 : GhostMono b c) : GhostMono a c := by
  refine ⟨?_, ?_, ?_, ?_, ?_⟩
  · intro t v c h; exact h2.voted t v c (h1.voted t v c h)
  · intro t
    obtain ⟨y1, hy1⟩ := h1.tl t; obtain ⟨y2, hy2⟩ := h2.tl t
    exact ⟨y1 ++ y2, by rw [hy2, hy1, List.append_assoc]⟩
  · intro t q; exact Nat.le_trans (h1.ack t q) (h2.ack t q)
  · intro t l h; exact h2.ldr t l (h1.ldr t l h)
  · intro n; exact Nat.le_trans (h1.term n) (h2.term n)

/-- What a single step other than a restart may do to the ghost history and to the indices of every node. -/
structure StepMono (s s' : State) : Prop where
  voted : ∀ t v c, s.g.voted t v = some c → s'.g.voted t v = some c
  tl    : ∀ t, ∃ ys, s'.g.termLog t = s.g.termLog t ++ ys
  ack   : ∀ t q, s.g.acked t q ≤ s'.g.acked t q
  ldr   : ∀ t l, s.g.leaderOf t = some l → s'.g.leaderOf t = some l
  term  : ∀ n, (s.nodes n).term ≤ (s'.nodes n).term
  commit : ∀ n, (s.nodes n).commit ≤ (s'.nodes n).commit
  applied : ∀ n, (s.nodes n).applied ≤ (s'.nodes n).applied

theorem StepMono.refl (s : State) : StepMono s s :=
  ⟨fun _ _ _ h => h, fun _ => ⟨[], by simp⟩, fun _ _ => Nat.le_refl _, fun _ _ h => h, fun _ => Nat.le_refl _,
   fun _ => Nat.le_refl _, fun _ => Nat.le_refl _⟩

theorem StepMono.trans {a b c : State} (h1 : StepMono a b) (h2 : StepMono b c) : StepMono a c := by
  refine ⟨?_, ?_, ?_, ?_, ?_, ?_, ?_⟩
  · intro t v c h; exact h2.voted t v c (h1.voted t v c h)
  · intro t
    obtain ⟨y1, hy1⟩ := h1.tl t; obtain ⟨y2, hy2⟩ := h2.tl t
    exact ⟨y1 ++ y2, by rw [hy2, hy1, List.append_assoc]⟩
  · intro t q; exact Nat.le_trans (h1.ack t q) (h2.ack t q)
  · intro t l h; exact h2.ldr t l (h1.ldr t l h)
  · intro n; exact Nat.le_trans (h1.term n) (h2.term n)
  · intro n; exact Nat.le_trans (h1.commit n) (h2.commit n)
  · intro n; exact Nat.le_trans (h1.applied n) (h2.applied n)

/-- Same ghost, one node replaced by a node with larger-or-equal term/commit/applied. -/
theorem stepMono_setNode {s : State} {n : Nat} {ns : NodeSt} (msgs : List Msg)
    (ht : (s.nodes n).term ≤ ns.term) (hc : (s.nodes n).commit ≤ ns.commit)
    (ha : (s.nodes n).applied ≤ ns.applied) :
    StepMono s { (setNode s n ns) with msgs := msgs } := by
  refine ⟨fun _ _ _ h => h, fun _ => ⟨[], by simp⟩, fun _ _ => Nat.le_refl _, fun _ _ h => h, ?_, ?_, ?_⟩ <;>
  · intro k; by_cases hk : k = n
    · subst hk; simpa using (by assumption)
    · simp [setNode, hk]

end PSO.Raft

namespace PSO.Raft

/-- A candidate that reaches a majority is the first leader of its term. -/
theorem cand_tl_nil {N : Nat} {s : State} {n : Nat} {ns : NodeSt} (he : InvE N s) (hl : InvL N s)
    (hn : s.nodes n = ns) (hr : ns.role = .candidate) (hmaj : isMajority N ns.votes = true) :
    s.g.termLog ns.term = [] ∧ s.g.leaderOf ns.term = none := by
  have hpos := (he.self_vote n (by rw [hn, hr]; decide)).2.2
  rw [hn] at hpos
  have hnone : s.g.leaderOf ns.term = none := by
    cases hlo : s.g.leaderOf ns.term with
    | none => rfl
    | some l =>
      exfalso
      have he' := invE_becomeLeader he hn hr hmaj
      obtain ⟨hq, hqv, _, _⟩ := he.el_quorum _ _ hlo
      obtain ⟨hq2, hqv2, _, _⟩ := he'.el_quorum ns.term n (by simp [becomeLeader, upd1])
      obtain ⟨x, hx1, hx2⟩ := quorum_inter hq hq2
      have h1 := hqv x hx1
      have h2 := hqv2 x hx2
      simp only [becomeLeader, setNode_g] at h2
      rw [h1] at h2; injection h2 with h2; subst h2
      exact hl.cand_not_ldr l (by rw [hn]; exact hr) (by rw [hn]; exact hlo)
  exact ⟨(hl.tl_ldr _ hpos).mpr hnone, hnone⟩

theorem stepMono_becomeLeader {N : Nat} {s : State} {n : Nat} {ns : NodeSt} (h : Inv N s)
    (hn : s.nodes n = ns) (hr : ns.role = .candidate) (hmaj : isMajority N ns.votes = true) :
    StepMono s (becomeLeader s n ns) := by
  obtain ⟨htl, hld⟩ := cand_tl_nil h.e h.l hn hr hmaj
  refine ⟨fun _ _ _ h => h, ?_, ?_, ?_, ?_, ?_, ?_⟩
  · intro t; simp only [becomeLeader, setNode_g, upd1]
    split
    · rename_i ht; subst ht; rw [htl]; exact ⟨ns.log ++ [⟨ns.term, 0⟩], by simp⟩
    · exact ⟨[], by simp⟩
  · intro t q; simp only [becomeLeader, setNode_g, upd2]
    split
    · rename_i hh; obtain ⟨rfl, rfl⟩ := hh; rw [h.s.noldr_acked _ _ htl]; exact Nat.zero_le _
    · exact Nat.le_refl _
  · intro t l hl; simp only [becomeLeader, setNode_g, upd1]
    split
    · rename_i ht; subst ht; rw [hld] at hl; cases hl
    · exact hl
  all_goals
    intro k; simp only [becomeLeader, setNode]; by_cases hk : k = n
    · subst hk; simp [hn]
    · simp [hk]

theorem step_mono {N : Nat} {s s' : State} {a : Action} (h : Inv N s) (hs : step N s a = some s')
    (hnr : ∀ n c a', a ≠ .restart n c a') : StepMono s s' := by
  cases a with
  | restart n c a' => exact absurd rfl (hnr n c a')
  | timeout n dsts =>
    simp only [step] at hs
    split at hs
    · rename_i hg
      have hcore : StepMono s { (setNode s n { (s.nodes n) with term := (s.nodes n).term + 1, votedFor := some n, votes := 1, role := .candidate }) with
          msgs := s.msgs ++ dsts.map (fun d => Msg.reqVote ((s.nodes n).term + 1) n d ((s.nodes n).log.length - 1) (lastTerm (s.nodes n).log)),
          g := { s.g with voted := upd2 s.g.voted ((s.nodes n).term + 1) n (some n) } } := by
        refine ⟨?_, fun _ => ⟨[], by simp⟩, fun _ _ => Nat.le_refl _, fun _ _ h => h, ?_, ?_, ?_⟩
        · intro t v c hv
          show upd2 s.g.voted ((s.nodes n).term + 1) n (some n) t v = some c
          simp only [upd2]; split
          · rename_i heq; obtain ⟨rfl, rfl⟩ := heq
            have := h.e.voted_le _ _ _ hv; omega
          · exact hv
        all_goals
          intro k; by_cases hk : k = n
          · subst hk; simp
          · simp [setNode, hk]
      split at hs
      · rename_i hmaj
        injection hs with hs; subst hs
        have hinv : Inv N { (setNode s n { (s.nodes n) with term := (s.nodes n).term + 1, votedFor := some n, votes := 1, role := .candidate }) with
            msgs := s.msgs ++ dsts.map (fun d => Msg.reqVote ((s.nodes n).term + 1) n d ((s.nodes n).log.length - 1) (lastTerm (s.nodes n).log)),
            g := { s.g with voted := upd2 s.g.voted ((s.nodes n).term + 1) n (some n) } } :=
          ⟨invE_timeout_core h.e hg.1 hg.2.1, invL_timeout_core h.l h.e hg.1 hg.2.1,
           fun k => by
             by_cases hk : k = n
             · subst hk; simpa using h.a k
             · simpa [setNode, hk] using h.a k,
           invS_timeout_core h.s h.e hg.2.1⟩
        exact hcore.trans (stepMono_becomeLeader hinv (by simp [setNode]) rfl hmaj)
      · injection hs with hs; subst hs; exact hcore
    · cases hs
  | recvReqVote n m =>
    simp only [step] at hs
    split at hs
    · split at hs
      · have hb : ∀ t, (s.nodes n).term ≤ (bumpTerm (s.nodes n) t).term := by
          intro t; unfold bumpTerm; split
          · simp; omega
          · exact Nat.le_refl _
        split at hs
        · rename_i t cand dst li lt hg hc
          injection hs with hs; subst hs
          refine ⟨?_, fun _ => ⟨[], by simp⟩, fun _ _ => Nat.le_refl _, fun _ _ h => h, ?_, ?_, ?_⟩
          · intro t' v c hv
            show upd2 s.g.voted t n (some cand) t' v = some c
            simp only [upd2]; split
            · rename_i heq; obtain ⟨rfl, rfl⟩ := heq
              exfalso
              have hle := h.e.voted_le _ _ _ hv
              have hcur := h.e.voted_cur v
              obtain ⟨_, hle2, _, hvf⟩ := hc
              by_cases hlt : (s.nodes v).term < t'
              · omega
              · have hb' : bumpTerm (s.nodes v) t' = s.nodes v := by unfold bumpTerm; rw [if_neg hlt]
                rw [hb'] at hle2 hvf
                have : t' = (s.nodes v).term := by omega
                rw [this, hcur, hvf] at hv; cases hv
            · exact hv
          all_goals
            intro k; by_cases hk : k = n
            · subst hk; simp; try exact hb _
            · simp [setNode, hk]
        · injection hs with hs; subst hs
          refine ⟨fun _ _ _ h => h, fun _ => ⟨[], by simp⟩, fun _ _ => Nat.le_refl _, fun _ _ h => h, ?_, ?_, ?_⟩ <;>
          · intro k; by_cases hk : k = n
            · subst hk; simp; try exact hb _
            · simp [setNode, hk]
      · cases hs
    · cases hs
  | recvVote n m =>
    simp only [step] at hs
    split at hs
    · rename_i t voter cand
      split at hs
      · rename_i hg
        obtain ⟨hnN, rfl, hmem⟩ := hg
        split at hs
        · rename_i hc
          obtain ⟨hrole, rfl⟩ := hc
          have hcore : StepMono s { (setNode s cand { (s.nodes cand) with votes := (s.nodes cand).votes + 1 }) with
              msgs := s.msgs.erase (Msg.vote (s.nodes cand).term voter cand),
              g := { s.g with counted := upd2 s.g.counted (s.nodes cand).term cand (voter :: s.g.counted (s.nodes cand).term cand) } } := by
            refine ⟨fun _ _ _ h => h, fun _ => ⟨[], by simp⟩, fun _ _ => Nat.le_refl _, fun _ _ h => h, ?_, ?_, ?_⟩ <;>
            · intro k; by_cases hk : k = cand
              · subst hk; simp
              · simp [setNode, hk]
          split at hs
          · rename_i hmaj
            injection hs with hs; subst hs
            have hinv : Inv N { (setNode s cand { (s.nodes cand) with votes := (s.nodes cand).votes + 1 }) with
                msgs := s.msgs.erase (Msg.vote (s.nodes cand).term voter cand),
                g := { s.g with counted := upd2 s.g.counted (s.nodes cand).term cand (voter :: s.g.counted (s.nodes cand).term cand) } } := by
              refine ⟨invE_recvVote_core (voter := voter) h.e hnN hmem hrole, ?_, ?_, ?_⟩
              · refine invL_frame h.l rfl rfl ?_ ?_
                · intro m hm _; exact List.mem_of_mem_erase hm
                · exact nodeL_setNode ⟨rfl, Nat.le_refl _, Or.inl ⟨rfl, rfl⟩⟩
              · intro k; by_cases hk : k = cand
                · subst hk; simpa using h.a k
                · simpa [setNode, hk] using h.a k
              · refine invS_frame' h.s rfl rfl rfl (fun m hm _ => List.mem_of_mem_erase hm)
                  (nodeS_setNode ⟨rfl, Nat.le_refl _, Or.inl ⟨rfl, rfl⟩⟩) ?_ ?_
                · intro k; by_cases hk : k = cand
                  · subst hk; simp
                  · simp [setNode, hk]
                · intro k; by_cases hk : k = cand
                  · subst hk; simp
                  · simp [setNode, hk]
            exact hcore.trans (stepMono_becomeLeader hinv (by simp [setNode]) hrole hmaj)
          · injection hs with hs; subst hs; exact hcore
        · injection hs with hs; subst hs
          exact ⟨fun _ _ _ h => h, fun _ => ⟨[], by simp⟩, fun _ _ => Nat.le_refl _, fun _ _ h => h, fun _ => Nat.le_refl _,
            fun _ => Nat.le_refl _, fun _ => Nat.le_refl _⟩
      · cases hs
    · cases hs
  | clientAppend n cmd =>
    simp only [step] at hs
    split at hs
    · rename_i hg
      injection hs with hs; subst hs
      have hll := h.l.ldr_log n hg.2
      refine ⟨fun _ _ _ h => h, ?_, ?_, fun _ _ h => h, ?_, ?_, ?_⟩
      · intro t; simp only [setNode_g, upd1]; split
        · rename_i ht; subst ht; rw [← hll]; exact ⟨_, rfl⟩
        · exact ⟨[], by simp⟩
      · intro t q; simp only [setNode_g, upd2]; split
        · rename_i hh; obtain ⟨rfl, rfl⟩ := hh; rw [h.s.ldr_acked _ hg.2]; simp
        · exact Nat.le_refl _
      all_goals
        intro k; by_cases hk : k = n
        · subst hk; simp
        · simp [setNode, hk]
    · cases hs
  | sendAppend n dst prev k c =>
    simp only [step] at hs
    split at hs
    · injection hs with hs; subst hs
      exact ⟨fun _ _ _ h => h, fun _ => ⟨[], by simp⟩, fun _ _ => Nat.le_refl _, fun _ _ h => h, fun _ => Nat.le_refl _,
        fun _ => Nat.le_refl _, fun _ => Nat.le_refl _⟩
    · cases hs
  | recvAppend n m =>
    simp only [step] at hs
    split at hs
    · rename_i t ldr dst prev prevTerm es c
      split at hs
      · split at hs
        · injection hs with hs; subst hs
          exact ⟨fun _ _ _ h => h, fun _ => ⟨[], by simp⟩, fun _ _ => Nat.le_refl _, fun _ _ h => h, fun _ => Nat.le_refl _,
            fun _ => Nat.le_refl _, fun _ => Nat.le_refl _⟩
        · rename_i hnlt
          have hat : (s.nodes n).term ≤ (adoptTerm (s.nodes n) t).term := by rw [adoptTerm_term hnlt]; omega
          split at hs
          · injection hs with hs; subst hs
            refine ⟨fun _ _ _ h => h, fun _ => ⟨[], by simp⟩, ?_, fun _ _ h => h, ?_, ?_, ?_⟩
            · intro t' q; simp only [upd2]; split
              · rename_i hh; obtain ⟨rfl, rfl⟩ := hh; exact Nat.le_max_left _ _
              · exact Nat.le_refl _
            · intro k; by_cases hk : k = n
              · subst hk; simpa using hat
              · simp [setNode, hk]
            · intro k; by_cases hk : k = n
              · subst hk; simp; split <;> omega
              · simp [setNode, hk]
            · intro k; by_cases hk : k = n
              · subst hk; simp
              · simp [setNode, hk]
          · injection hs with hs; subst hs
            refine ⟨fun _ _ _ h => h, fun _ => ⟨[], by simp⟩, fun _ _ => Nat.le_refl _, fun _ _ h => h, ?_, ?_, ?_⟩
            · intro k; by_cases hk : k = n
              · subst hk; simpa using hat
              · simp [setNode, hk]
            · intro k; by_cases hk : k = n
              · subst hk; simp
              · simp [setNode, hk]
            · intro k; by_cases hk : k = n
              · subst hk; simp
              · simp [setNode, hk]
      · cases hs
    · cases hs
  | recvAck n m =>
    simp only [step] at hs
    split at hs
    · split at hs
      · split at hs
        · injection hs with hs; subst hs
          exact stepMono_setNode _ (Nat.le_refl _) (Nat.le_refl _) (Nat.le_refl _)
        · injection hs with hs; subst hs
          exact ⟨fun _ _ _ h => h, fun _ => ⟨[], by simp⟩, fun _ _ => Nat.le_refl _, fun _ _ h => h, fun _ => Nat.le_refl _,
            fun _ => Nat.le_refl _, fun _ => Nat.le_refl _⟩
      · cases hs
    · cases hs
  | advanceCommit n i =>
    simp only [step] at hs
    split at hs
    · rename_i hg
      injection hs with hs; subst hs
      exact stepMono_setNode s.msgs (Nat.le_refl _) (by simp; omega) (Nat.le_refl _)
    · cases hs
  | stepDown n =>
    simp only [step] at hs
    split at hs
    · injection hs with hs; subst hs
      exact stepMono_setNode s.msgs (Nat.le_refl _) (Nat.le_refl _) (Nat.le_refl _)
    · cases hs
  | apply n =>
    simp only [step] at hs
    split at hs
    · injection hs with hs; subst hs
      exact stepMono_setNode s.msgs (Nat.le_refl _) (Nat.le_refl _) (by simp)
    · cases hs
  | observeTerm n t =>
    simp only [step] at hs
    split at hs
    · rename_i hg
      injection hs with hs; subst hs
      refine stepMono_setNode s.msgs ?_ (by simp) (by simp)
      unfold adoptTerm; split
      · simp; omega
      · exact Nat.le_refl _
    · cases hs
  | sendSnapshot n dst k c =>
    simp only [step] at hs
    split at hs
    · injection hs with hs; subst hs
      exact ⟨fun _ _ _ h => h, fun _ => ⟨[], by simp⟩, fun _ _ => Nat.le_refl _, fun _ _ h => h, fun _ => Nat.le_refl _,
        fun _ => Nat.le_refl _, fun _ => Nat.le_refl _⟩
    · cases hs
  | recvSnapshot n m =>
    simp only [step] at hs
    split at hs
    · rename_i t ldr dst k kTerm c pfx
      split at hs
      · split at hs
        · injection hs with hs; subst hs
          exact ⟨fun _ _ _ h => h, fun _ => ⟨[], by simp⟩, fun _ _ => Nat.le_refl _, fun _ _ h => h, fun _ => Nat.le_refl _,
            fun _ => Nat.le_refl _, fun _ => Nat.le_refl _⟩
        · rename_i hnlt
          have hat : (s.nodes n).term ≤ (adoptTerm (s.nodes n) t).term := by rw [adoptTerm_term hnlt]; omega
          injection hs with hs; subst hs
          refine ⟨fun _ _ _ h => h, fun _ => ⟨[], by simp⟩, ?_, fun _ _ h => h, ?_, ?_, ?_⟩
          · intro t' q; simp only [upd2]; split
            · rename_i hh; obtain ⟨rfl, rfl⟩ := hh; exact Nat.le_max_left _ _
            · exact Nat.le_refl _
          · intro k'; by_cases hk : k' = n
            · subst hk; simp only [setNode_nodes_self]; split <;> simpa using hat
            · simp [setNode, hk]
          · intro k'; by_cases hk : k' = n
            · subst hk; simp only [setNode_nodes_self]
              split <;> (simp only [adoptTerm_commit]; split <;> omega)
            · simp [setNode, hk]
          · intro k'; by_cases hk : k' = n
            · subst hk; simp only [setNode_nodes_self]
              split
              · simp
              · rename_i hkeep
                simp only [adoptTerm_applied, Bool.or_eq_true, decide_eq_true_eq, not_or] at hkeep
                simp; omega
            · simp [setNode, hk]
      · cases hs
    · cases hs
  | lose m =>
    simp only [step] at hs
    split at hs
    · injection hs with hs; subst hs
      exact ⟨fun _ _ _ h => h, fun _ => ⟨[], by simp⟩, fun _ _ => Nat.le_refl _, fun _ _ h => h, fun _ => Nat.le_refl _,
        fun _ => Nat.le_refl _, fun _ => Nat.le_refl _⟩
    · cases hs

end PSO.Raft

namespace PSO.Raft

theorem StepMono.ghost {s s' : State} (h : StepMono s s') : GhostMono s s' :=
  ⟨h.voted, h.tl, h.ack, h.ldr, h.term⟩

theorem step_ghost_mono {N : Nat} {s s' : State} {a : Action} (h : Inv N s) (hs : step N s a = some s') :
    GhostMono s s' := by
  by_cases hr : ∃ n c a', a = .restart n c a'
  · obtain ⟨n, c, a', rfl⟩ := hr
    simp only [step] at hs
    split at hs
    · injection hs with hs; subst hs
      refine ⟨fun _ _ _ h => h, fun _ => ⟨[], by simp⟩, fun _ _ => Nat.le_refl _, fun _ _ h => h, ?_⟩
      intro k; by_cases hk : k = n
      · subst hk; simp
      · simp [setNode, hk]
    · cases hs
  · exact (step_mono h hs (fun n c a' heq => hr ⟨n, c, a', heq⟩)).ghost

/-- No action of the list is a restart ("nodes keep their memory"). -/
def NoRestart (as : List Action) : Prop := ∀ a ∈ as, ∀ n c a', a ≠ Action.restart n c a'

theorem run_ghost_mono {N : Nat} {s s' : State} {as : List Action} (h : Inv N s) (hr : run N s as = some s') :
    GhostMono s s' := by
  induction as generalizing s with
  | nil => simp [run] at hr; subst hr; exact GhostMono.refl _
  | cons a as ih =>
    simp only [run] at hr
    split at hr
    · rename_i s1 hs1
      exact (step_ghost_mono h hs1).trans (ih (inv_step h hs1) hr)
    · cases hr

theorem run_mono {N : Nat} {s s' : State} {as : List Action} (h : Inv N s) (hr : run N s as = some s')
    (hnr : NoRestart as) : StepMono s s' := by
  induction as generalizing s with
  | nil => simp [run] at hr; subst hr; exact StepMono.refl _
  | cons a as ih =>
    simp only [run] at hr
    split at hr
    · rename_i s1 hs1
      exact (step_mono h hs1 (hnr a List.mem_cons_self)).trans
        (ih (inv_step h hs1) hr (fun b hb => hnr b (List.mem_cons_of_mem _ hb)))
    · cases hr

theorem reachable_of_run {N : Nat} {s s' : State} {as : List Action} (h : Reachable N s)
    (hr : run N s as = some s') : Reachable N s' := by
  induction as generalizing s with
  | nil => simp [run] at hr; subst hr; exact h
  | cons a as ih =>
    simp only [run] at hr
    split at hr
    · rename_i s1 hs1; exact ih (Reachable.step h hs1) hr
    · cases hr

theorem run_snoc {N : Nat} {a : Action} {s1 s2 : State} (hs : step N s1 a = some s2) :
    ∀ (as : List Action) (s0 : State), run N s0 as = some s1 → run N s0 (as ++ [a]) = some s2 := by
  intro as
  induction as with
  | nil => intro s0 h0; simp [run] at h0; subst h0; simp [run, hs]
  | cons b bs ihb =>
    intro s0 h0
    simp only [run, List.cons_append] at h0 ⊢
    cases hb : step N s0 b with
    | none => rw [hb] at h0; cases h0
    | some sx => rw [hb] at h0; exact ihb sx h0

theorem reachable_iff_run {N : Nat} {s : State} : Reachable N s ↔ ∃ as, run N init as = some s := by
  constructor
  · intro h
    induction h with
    | init => exact ⟨[], rfl⟩
    | step _ hs ih =>
      obtain ⟨as, has⟩ := ih
      exact ⟨as ++ [_], run_snoc hs as _ has⟩
  · rintro ⟨as, has⟩; exact reachable_of_run Reachable.init has

/-- A committed prefix stays a committed prefix in every later state. -/
theorem cmt_later {N : Nat} {s s' : State} (hm : GhostMono s s') {b : Nat} {P : List Entry}
    (h : Cmt N s b P) : Cmt N s' b P :=
  cmt_mono hm.tl hm.ack (Nat.le_refl _) h

theorem comparable_of_common {X P1 P2 : List Entry} (h1 : P1 <+: X) (h2 : P2 <+: X) :
    P1 <+: P2 ∨ P2 <+: P1 := by
  rcases Nat.le_total P1.length P2.length with hlen | hlen
  · exact Or.inl (List.prefix_of_prefix_length_le h1 h2 hlen)
  · exact Or.inr (List.prefix_of_prefix_length_le h2 h1 hlen)

/-- Any two committed prefixes of one state are comparable. -/
theorem cmt_comparable {N : Nat} {s : State} (hl : InvL N s) (hs : InvS N s) {b b' : Nat}
    {P P' : List Entry} (h : Cmt N s b P) (h' : Cmt N s b' P') : P <+: P' ∨ P' <+: P := by
  have hne : ∀ {t i}, Chosen N s t i → s.g.termLog t ≠ [] := by
    intro t i hc hnil; have := hc.1.2.1; rw [hnil] at this; simp at this
  rcases h with h | ⟨t1, i1, _, hc1, hp1, hl1⟩
  · rcases h' with h' | ⟨t2, i2, _, hc2, hp2, _⟩
    · left; rw [h, h']; exact List.prefix_refl _
    · subst h
      exact comparable_of_common (cmt_prefix_tl hl hs (Or.inl rfl) (Nat.zero_le _) (hne hc2)) hp2
  · rcases h' with h' | ⟨t2, i2, _, hc2, hp2, hl2⟩
    · subst h'
      exact comparable_of_common hp1 (cmt_prefix_tl hl hs (Or.inl rfl) (Nat.zero_le _) (hne hc1))
    · rcases Nat.le_total t1 t2 with hle | hle
      · exact comparable_of_common
          (cmt_prefix_tl hl hs (Or.inr ⟨t1, i1, Nat.le_refl _, hc1, hp1, hl1⟩) hle (hne hc2)) hp2
      · exact comparable_of_common hp1
          (cmt_prefix_tl hl hs (Or.inr ⟨t2, i2, Nat.le_refl _, hc2, hp2, hl2⟩) hle (hne hc1))

end PSO.Raft
