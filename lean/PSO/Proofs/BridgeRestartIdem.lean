import PSO.Proofs.BridgeRestart

/-!
# Restart is idempotent (kill during or right after the start-up)

`restartNode` models `SyncObj.__init__` on the journal + the first tick's `__loadDumpFile(clearJournal=False)`.
A node killed again before anything else happened is started on the files the first start left behind: the journal
`(restartNode s sc dump).log`, the same meta (term, vote, stored commit index) and the same dump file.  The second start
yields the same node — with NO hypothesis on the journal (the `DumpHeld` branch and the replacing branch alike).
-/

namespace PSO.Bridge
open PSO.NodeSend

/-- the journal after `__deleteEntriesTo` (first stage of `restartNode`) -/
def restartLog1 (log : List NodeSend.Entry) (p l : NodeSend.Entry) : List NodeSend.Entry :=
  match getEntries log (some p.idx) (some 2) none, firstIdx? log with
  | some [a, b], some f => if a = p ∧ b = l then log.drop (p.idx - f) else log
  | _, _ => log

/-- the journal after the replace-or-keep decision (second stage) -/
def restartLog2 (log1 : List NodeSend.Entry) (p l : NodeSend.Entry) : List NodeSend.Entry :=
  match log1 with
  | a :: b :: _ => if a = p ∧ b = l then log1 else [p, l]
  | _ => [p, l]

theorem restartNode_log_eq (s : Node) (sc : Nat) (p l : NodeSend.Entry) :
    (restartNode s sc (some (p, l))).log = restartLog2 (restartLog1 s.log p l) p l := rfl

theorem restartLog2_begins (L : List NodeSend.Entry) (p l : NodeSend.Entry) : ∃ r, restartLog2 L p l = p :: l :: r := by
  unfold restartLog2
  split
  · next a b r =>
    by_cases hab : a = p ∧ b = l
    · rw [if_pos hab, hab.1, hab.2]; exact ⟨r, rfl⟩
    · rw [if_neg hab]; exact ⟨[], rfl⟩
  · exact ⟨[], rfl⟩

theorem restartLog1_fixed (p l : NodeSend.Entry) (r : List NodeSend.Entry) : restartLog1 (p :: l :: r) p l = p :: l :: r := by
  unfold restartLog1
  have hf : firstIdx? (p :: l :: r) = some p.idx := rfl
  rw [hf]
  split
  · next a b f h1 h2 =>
    injection h2 with h2
    subst h2
    split
    · simp
    · rfl
  · rfl

theorem restartLog2_fixed (p l : NodeSend.Entry) (r : List NodeSend.Entry) : restartLog2 (p :: l :: r) p l = p :: l :: r := by
  unfold restartLog2
  simp

/-- after a start with a dump the journal begins with the dump's two entries -/
theorem restartNode_log_begins (s : Node) (sc : Nat) (p l : NodeSend.Entry) :
    ∃ r, (restartNode s sc (some (p, l))).log = p :: l :: r := by
  rw [restartNode_log_eq]; exact restartLog2_begins _ p l

/-- a journal that begins with the dump's two entries is left as it is -/
theorem restartNode_log_fixed (s : Node) (sc : Nat) (p l : NodeSend.Entry) (r : List NodeSend.Entry)
    (h : s.log = p :: l :: r) : (restartNode s sc (some (p, l))).log = s.log := by
  rw [restartNode_log_eq, h, restartLog1_fixed, restartLog2_fixed]

/-- **`restart_idempotent`.**  Starting again on what a start left behind (same meta, same dump file) gives the same
node: a kill at any moment of the start-up, or right after it, loses nothing more. -/
theorem restart_idempotent (s : Node) (sc : Nat) (dump : Option (NodeSend.Entry × NodeSend.Entry)) :
    restartNode (restartNode s sc dump) sc dump = restartNode s sc dump := by
  cases dump with
  | none => rfl
  | some d =>
    obtain ⟨p, l⟩ := d
    obtain ⟨r, hr⟩ := restartNode_log_begins s sc p l
    have h2 := restartNode_log_fixed (restartNode s sc (some (p, l))) sc p l r hr
    have e1 : ∀ t : Node, restartNode t sc (some (p, l)) =
        { self := t.self, members := t.members, term := t.term, commit := sc,
          log := (restartNode t sc (some (p, l))).log, lastApplied := l.idx } := fun _ => rfl
    rw [e1 (restartNode s sc (some (p, l))), h2]
    rfl

end PSO.Bridge
