import PSO.Proofs.BridgeRestart

/-!
# Restart is idempotent (kill during or right after the start-up)

`restartNode` models `SyncObj.__init__` on the journal + the first tick's `__loadDumpFile(clearJournal=False)`.
A node killed again before anything else happened is started on the files the first start left behind: the journal
`(restartNode s sc dump).log`, the same meta (term, vote, stored commit index) and the same dump file.  The second start
yields the same node — with NO hypothesis on the journal (the `DumpHeld` branch and the replacing branch alike).
-/

namespace PSO.Bridge
open PSO.NodeSend

/-- the journal after `__deleteEntriesTo` (first stage of `restartNode`) -/
def restartLog1 (log : List NodeSend.Entry) (p l : NodeSend.Entry) : List NodeSend.Entry :=
  match getEntries log (some p.idx) (some 2) none, firstIdx? log with
  | some [a, b], some f => if a = p ∧ b = l then log.drop (p.idx - f) else log
  | _, _ => log

/-- the journal after the replace-or-keep decision (second stage) -/
def restartLog2 (log1 : List NodeSend.Entry) (p l : NodeSend.Entry) : List NodeSend.Entry :=
  match log1 with
  | a :: b :: _ => if a = p ∧ b = l then log1 else [p, l]
  | _ => [p, l]

theorem restartNode_log_eq (s : Node) (sc : Nat) (p l : NodeSend.Entry) :
    (restartNode s sc (some (p, l))).log = restartLog2 (restartLog1 s.log p l) p l := rfl

theorem restartLog2_begins (L : List NodeSend.Entry) (p l : NodeSend.Entry) : ∃ r, restartLog2 L p l = p :: l :: r := by
  unfold restartLog2
  split
  · next a b r =>
    by_cases hab : a = p ∧ b = l
    · rw [if_pos hab, hab.1, hab.2]; exact ⟨r, rfl⟩
    · rw [if_neg hab]; exact ⟨[], rfl⟩
  · exact ⟨[], rfl⟩

theorem restartLog1_fixed (p l : NodeSend.Entry) (r : List NodeSend.Entry) : restartLog1 (p :: l :: r) p l = p :: l :: r := by
  unfold restartLog1
  have hf : firstIdx? (p :: l :: r) = some p.idx := rfl
  rw [hf]
  split
  · next a b f h1 h2 =>
    injection h2 with h2
    subst h2
    split
    · simp
    · rfl
  · rfl

theorem restartLog2_fixed (p l : NodeSend.Entry) (r : List NodeSend.Entry) : restartLog2 (p :: l :: r) p l = p :: l :: r := by
  unfold restartLog2
  simp

/-- after a start with a dump the journal begins with the dump's two entries -/
theorem restartNode_log_begins (s : Node) (sc : Nat) (p l : NodeSend.Entry) :
    ∃ r, (restartNode s sc (some (p, l))).log = p :: l :: r := by
  rw [restartNode_log_eq]; exact restartLog2_begins _ p l

/-- a journal that begins with the dump's two entries is left as it is -/
theorem restartNode_log_fixed (s : Node) (sc : Nat) (p l : NodeSend.Entry) (r : List NodeSend.Entry)
    (h : s.log = p :: l :: r) : (restartNode s sc (some (p, l))).log = s.log := by
  rw [restartNode_log_eq, h, restartLog1_fixed, restartLog2_fixed]

/-- **`restart_idempotent`.**  Starting again on what a start left behind (same meta, same dump file) gives the same
node: a kill at any moment of the start-up, or right after it, loses nothing more. -/
theorem restart_idempotent (s : Node) (sc : Nat) (dump : Option (NodeSend.Entry × NodeSend.Entry)) :
    restartNode (restartNode s sc dump) sc dump = restartNode s sc dump := by
  cases dump with
  | none => rfl
  | some d =>
    obtain ⟨p, l⟩ := d
    obtain ⟨r, hr⟩ := restartNode_log_begins s sc p l
    have h2 := restartNode_log_fixed (restartNode s sc (some (p, l))) sc p l r hr
    have e1 : ∀ t : Node, restartNode t sc (some (p, l)) =
        { self := t.self, members := t.members, term := t.term, commit := sc,
          log := (restartNode t sc (some (p, l))).log, lastApplied := l.idx } := fun _ => rfl
    rw [e1 (restartNode s sc (some (p, l))), h2]
    rfl

end PSO.Bridge

namespace PSO.Bridge
open PSO.NodeSend

/-! ## `DumpHeld` is kept by what a running node does to its journal behind the dump

`restart_refines` needs `DumpHeld` at the moment of the kill.  It holds when the node's own compaction writes the dump
(the dump's entries ARE `__getEntries(lastApplied - 1, 2)` of that journal) and the following lemmas carry it along:
appending entries and cutting a conflicting suffix that starts behind the dump's second entry do not disturb it. -/

theorem dumpHeld_of_getEntries (log : List NodeSend.Entry) (k : Nat) (p l : NodeSend.Entry)
    (h : getEntries log (some k) (some 2) none = some [p, l]) (hk : p.idx = k) : DumpHeld log p l := by
  unfold DumpHeld; rw [hk]; exact h

theorem dumpHeld_append (log es : List NodeSend.Entry) (p l : NodeSend.Entry) (h : DumpHeld log p l) :
    DumpHeld (log ++ es) p l := by
  unfold DumpHeld at *
  cases hl : log with
  | nil => rw [hl] at h; simp [getEntries] at h
  | cons e0 t =>
    rw [hl] at h
    simp only [getEntries, List.cons_append] at h ⊢
    by_cases hlt : p.idx < e0.idx
    · simp [hlt] at h
    · simp only [if_neg hlt, Option.some.injEq] at h ⊢
      obtain ⟨rest, hrest⟩ := take2_eq h
      have hlen : p.idx - e0.idx ≤ (e0 :: t).length := by
        by_contra hc
        have : List.drop (p.idx - e0.idx) (e0 :: t) = [] := List.drop_eq_nil_of_le (by omega)
        rw [this] at hrest; cases hrest
      have : List.drop (p.idx - e0.idx) (e0 :: (t ++ es)) = List.drop (p.idx - e0.idx) (e0 :: t) ++ es := by
        rw [← List.cons_append, List.drop_append_of_le_length hlen]
      rw [this, hrest]
      rfl

theorem dumpHeld_take (log : List NodeSend.Entry) (m : Nat) (p l : NodeSend.Entry) (h : DumpHeld log p l)
    (e0 : NodeSend.Entry) (he0 : log.head? = some e0) (hm : p.idx - e0.idx + 2 ≤ m) :
    DumpHeld (log.take m) p l := by
  unfold DumpHeld at *
  cases hl : log with
  | nil => rw [hl] at he0; cases he0
  | cons a t =>
    rw [hl] at h he0
    simp only [List.head?_cons, Option.some.injEq] at he0
    subst he0
    have hm1 : m = (m - 1) + 1 := by omega
    rw [hm1, List.take_succ_cons]
    simp only [getEntries] at h ⊢
    by_cases hlt : p.idx < a.idx
    · simp [hlt] at h
    · simp only [if_neg hlt, Option.some.injEq] at h ⊢
      rw [← List.take_succ_cons, ← hm1, List.drop_take]
      rw [List.take_take]
      have : min 2 (m - (p.idx - a.idx)) = 2 := by omega
      rw [this]; exact h

end PSO.Bridge
