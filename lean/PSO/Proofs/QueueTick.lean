import PSO.Proofs.QueueSteps

/-! Tick-thread actions (`tick`, `answer`, `remotePut`) preserve `Inv`; `Inv` holds along every schedule. -/
namespace PSO.Queue

theorem regReply_fresh {pend : List Pend} {n : Nat} (e : Entry)
    (hk : ∀ p ∈ pend, ∀ m, p.key = .reply m → m ≤ n) :
    regReply pend (n + 1) e = pend ++ [⟨.reply (n + 1), e⟩] := by
  unfold regReply
  congr 1
  rw [List.filter_eq_self]
  intro p hp
  simp only [bne_iff_ne, ne_eq]
  intro hkey
  have := hk p hp (n + 1) hkey
  omega

/-- what `dispatch` does to the thread-free part of the state -/
theorem dispatch_spec (s : Sys) (env : Env) (e : Entry)
    (hkeys : ∀ p ∈ s.pend, ∀ m, p.key = .reply m → m ≤ s.counter) :
    (s.dispatch env e).q = s.q ∧ (s.dispatch env e).thr = s.thr ∧ (s.dispatch env e).resultOf = s.resultOf ∧
    enqSeq (s.dispatch env e).hist = enqSeq s.hist ∧ deqSeq (s.dispatch env e).hist = deqSeq s.hist ∧
    (∀ c, (s.dispatch env e).tokSum c = s.tokSum c + tok e.cb c) ∧
    (∀ c, (s.dispatch env e).enqSum c = s.enqSum c) ∧
    (∀ m, (s.dispatch env e).hist.countP (Ev.isDeq m) = s.hist.countP (Ev.isDeq m)) ∧
    (∀ m, (s.dispatch env e).hist.countP (Ev.isApp m) + (s.dispatch env e).hist.countP (Ev.isFwd m)
        + (s.dispatch env e).hist.countP (Ev.isDrop m)
        = s.hist.countP (Ev.isApp m) + s.hist.countP (Ev.isFwd m) + s.hist.countP (Ev.isDrop m)
          + if e.cmd = m then 1 else 0) := by
  obtain ⟨cmd, cb⟩ := e
  have hreg := regReply_fresh ⟨cmd, cb⟩ hkeys
  unfold Sys.dispatch
  by_cases h1 : env.isLeader = true <;> by_cases h2 : env.denied = true <;> by_cases h3 : env.hasLeader = true <;>
    cases cb <;>
    simp [h1, h2, h3, hreg, invoke_hist, enqSeq, deqSeq, Sys.tokSum, Sys.enqSum, List.countP_append, List.countP_cons,
      Ev.isDeq, Ev.isApp, Ev.isFwd, Ev.isDrop, Ev.isFired, Ev.isEnq, Ev.isFull, tok, CbRef.isFor] <;>
    (try omega) <;> (try (intros; omega)) <;> (try (refine ⟨?_, ?_⟩ <;> intros <;> omega))

theorem dispatch_keys (s : Sys) (env : Env) (e : Entry)
    (hkeys : ∀ p ∈ s.pend, ∀ m, p.key = .reply m → m ≤ s.counter) :
    ∀ p ∈ (s.dispatch env e).pend, ∀ m, p.key = .reply m → m ≤ (s.dispatch env e).counter := by
  obtain ⟨cmd, cb⟩ := e
  have hreg := regReply_fresh ⟨cmd, cb⟩ hkeys
  unfold Sys.dispatch
  by_cases h1 : env.isLeader = true <;> by_cases h2 : env.denied = true <;> by_cases h3 : env.hasLeader = true <;>
    cases cb <;> simp only [h1, h2, h3, hreg, Bool.not_true, Bool.not_false, Bool.false_eq_true, ↓reduceIte,
      invoke_pend, invoke_counter] <;>
    intro p hp m hm <;>
    first
    | exact hkeys p hp m hm
    | (simp only [List.mem_append, List.mem_cons, List.not_mem_nil, or_false] at hp
       rcases hp with hp | rfl
       · have := hkeys p hp m hm; omega
       · (simp at hm <;> omega))

theorem dispatch_pairP (s : Sys) (env : Env) (e : Entry)
    (hkeys : ∀ p ∈ s.pend, ∀ m, p.key = .reply m → m ≤ s.counter)
    (hpairP : ∀ p ∈ s.pend, ∀ c, p.e.cb.isFor c = true → p.e.cmd = .call c)
    (hpe : ∀ c, e.cb.isFor c = true → e.cmd = .call c) :
    ∀ p ∈ (s.dispatch env e).pend, ∀ c, p.e.cb.isFor c = true → p.e.cmd = .call c := by
  obtain ⟨cmd, cb⟩ := e
  have hreg := regReply_fresh ⟨cmd, cb⟩ hkeys
  unfold Sys.dispatch
  by_cases h1 : env.isLeader = true <;> by_cases h2 : env.denied = true <;> by_cases h3 : env.hasLeader = true <;>
    cases cb <;> simp only [h1, h2, h3, hreg, Bool.not_true, Bool.not_false, Bool.false_eq_true, ↓reduceIte,
      invoke_pend] <;>
    intro p hp c hc <;>
    first
    | exact hpairP p hp c hc
    | (simp only [List.mem_append, List.mem_cons, List.not_mem_nil, or_false] at hp
       rcases hp with hp | rfl
       · exact hpairP p hp c hc
       · exact hpe c hc)

theorem dispatch_ares (s : Sys) (env : Env) (e : Entry) (ha : AresOk s.ars s.hist) :
    AresOk (s.dispatch env e).ars (s.dispatch env e).hist := by
  obtain ⟨cmd, cb⟩ := e
  unfold Sys.dispatch
  by_cases h1 : env.isLeader = true <;> by_cases h2 : env.denied = true <;> by_cases h3 : env.hasLeader = true <;>
    cases cb <;> simp only [h1, h2, h3, Bool.not_true, Bool.not_false, Bool.false_eq_true, ↓reduceIte] <;>
    first
    | exact AresOk_invoke _ _ _ (AresOk_mono (by intro x hx; simp [hx]) ha)
    | exact AresOk_mono (by intro x hx; simp [hx]) ha

theorem dispatch_firedGood (s : Sys) (env : Env) (e : Entry) (hf : FiredGood s.resultOf s.hist) :
    FiredGood s.resultOf (s.dispatch env e).hist := by
  obtain ⟨cmd, cb⟩ := e
  unfold Sys.dispatch
  by_cases h1 : env.isLeader = true <;> by_cases h2 : env.denied = true <;> by_cases h3 : env.hasLeader = true <;>
    cases cb <;> simp only [h1, h2, h3, Bool.not_true, Bool.not_false, Bool.false_eq_true, ↓reduceIte, invoke_hist] <;>
    first
    | exact FiredGood_invokeEvs _ _ _ (by intro c _; simp) (FiredGood_cons_other (by intro c r e; simp) hf)
    | exact FiredGood_cons_other (by intro c r e; simp) (FiredGood_cons_other (by intro c r e; simp) hf)
    | exact FiredGood_cons_other (by intro c r e; simp) hf

theorem dispatch_RetJ (s : Sys) (env : Env) (e : Entry) {P : CallId → Option Plan} (hj : RetJ P s.hist) :
    RetJ P (s.dispatch env e).hist := by
  obtain ⟨cmd, cb⟩ := e
  unfold Sys.dispatch
  by_cases h1 : env.isLeader = true <;> by_cases h2 : env.denied = true <;> by_cases h3 : env.hasLeader = true <;>
    cases cb <;> simp only [h1, h2, h3, Bool.not_true, Bool.not_false, Bool.false_eq_true, ↓reduceIte, invoke_hist] <;>
    first
    | exact RetJ_invokeEvs _ _ _ (RetJ_cons_other (by intro c o; simp) hj)
    | exact RetJ_cons_other (by intro c o; simp) (RetJ_cons_other (by intro c o; simp) hj)
    | exact RetJ_cons_other (by intro c o; simp) hj


theorem dispatch_mono (s : Sys) (env : Env) (e : Entry) : ∀ x ∈ s.hist, x ∈ (s.dispatch env e).hist := by
  obtain ⟨cmd, cb⟩ := e
  unfold Sys.dispatch
  intro x hx
  by_cases h1 : env.isLeader = true <;> by_cases h2 : env.denied = true <;> by_cases h3 : env.hasLeader = true <;>
    cases cb <;> simp [h1, h2, h3, invoke_hist, hx]

theorem dispatch_nofull (s : Sys) (env : Env) (e : Entry) (c : CallId) :
    Ev.full c ∈ (s.dispatch env e).hist → Ev.full c ∈ s.hist := by
  obtain ⟨cmd, cb⟩ := e
  unfold Sys.dispatch
  by_cases h1 : env.isLeader = true <;> by_cases h2 : env.denied = true <;> by_cases h3 : env.hasLeader = true <;>
    cases cb <;> simp [h1, h2, h3, invoke_hist, invokeEvs]

/-- a step that leaves the threads alone -/
theorem inv_of_thr_eq {s s' : Sys} (hi : Inv s) (hthr : s'.thr = s.thr) (hTF : InvTF s')
    (htok : ∀ c, s'.tokSum c = s.tokSum c) (henq : ∀ c, s'.enqSum c = s.enqSum c)
    (hret : RetJ s.planAt s'.hist) (hmono : ∀ x ∈ s.hist, x ∈ s'.hist)
    (hnofull : ∀ c, Ev.full c ∈ s'.hist → Ev.full c ∈ s.hist) : Inv s' := by
  obtain ⟨g1, g2, g3, g4, g5, g6⟩ := static_of_thr hthr
  refine { toInvTF := hTF, token := ?_, enq1 := ?_, retJust := ?_, fullFired := ?_, builtOk := ?_, waitOk := ?_ }
  · intro c; rw [htok c, hi.token c, g4]; simp only [g5]
  · intro c; rw [henq c, hi.enq1 c, g3]; simp only [g5]
  · rw [g1]; exact hret
  · intro c hf hcb
    rw [g4] at hcb
    exact hmono _ (hi.fullFired c (hnofull c hf) hcb)
  · intro t; rw [hthr, g6]; exact hi.builtOk t
  · intro t; rw [hthr, g6]; exact hi.waitOk t

theorem getNowait_eq {α : Type} {q q' : FastQueue α} {x : α} (h : q.getNowait = some (x, q')) :
    ∃ rest, q.items = x :: rest ∧ q' = { q with items := rest } := by
  unfold FastQueue.getNowait at h
  split at h
  · simp at h
  · rename_i y rest hy
    simp only [Option.some.injEq, Prod.mk.injEq] at h
    exact ⟨rest, by rw [hy, h.1], h.2.symm⟩

theorem inv_tick {s s' : Sys} {env : Env} (hi : Inv s) (h : s.tick env = some s') : Inv s' := by
  unfold Sys.tick at h
  split at h
  · simp at h
  · split at h
    · simp at h
    · rename_i x q' hget
      obtain ⟨rest, hitems, rfl⟩ := getNowait_eq hget
      simp only [Option.some.injEq] at h
      subst h
      have hx : x ∈ s.q.items := by rw [hitems]; simp
      -- the state between dequeue and dispatch
      generalize hs0 : ({ s with q := { s.q with items := rest }, hist := Ev.deq x.cmd :: s.hist } : Sys) = s0
      have e1 : s0.pend = s.pend := by subst hs0; rfl
      have e2 : s0.counter = s.counter := by subst hs0; rfl
      have e3 : s0.ars = s.ars := by subst hs0; rfl
      have e4 : s0.resultOf = s.resultOf := by subst hs0; rfl
      have e5 : s0.thr = s.thr := by subst hs0; rfl
      have e6 : s0.hist = Ev.deq x.cmd :: s.hist := by subst hs0; rfl
      have e7 : s0.q.items = rest := by subst hs0; rfl
      have hkeys0 : ∀ p ∈ s0.pend, ∀ m, p.key = .reply m → m ≤ s0.counter := by rw [e1, e2]; exact hi.keys
      obtain ⟨d1, d2, d3, d4, d5, d6, d7, d8, d9⟩ := dispatch_spec s0 env x hkeys0
      have hpe : ∀ c, x.cb.isFor c = true → x.cmd = .call c := hi.pairQ x hx
      apply inv_of_thr_eq hi (by rw [d2, e5])
      · constructor
        · rw [d4, d5, d1, e6, e7]
          have := hi.fifo
          rw [hitems] at this
          simp [enqSeq, deqSeq, this]
        · rw [d1, e7]
          intro e he
          exact hi.pairQ e (by rw [hitems]; simp [he])
        · exact dispatch_pairP s0 env x hkeys0 (by rw [e1]; exact hi.pairP) hpe
        · intro m
          have h8 := d8 m
          have h9 := d9 m
          have := hi.disp m
          rw [e6] at h8 h9
          simp only [List.countP_cons, Ev.isDeq, Ev.isApp, Ev.isFwd, Ev.isDrop, beq_iff_eq] at h8 h9
          simp only [Bool.false_eq_true, ↓reduceIte, Nat.add_zero] at h9
          omega
        · apply dispatch_ares
          rw [e3, e6]
          exact AresOk_mono (by intro y hy; simp [hy]) hi.ares
        · rw [d3, e4]
          have := dispatch_firedGood s0 env x (by rw [e4, e6]; exact FiredGood_cons_other (by intro c r e; simp) hi.firedGood)
          rw [e4] at this
          exact this
        · exact dispatch_keys s0 env x hkeys0
      · intro c
        rw [d6 c]
        unfold Sys.tokSum
        rw [e1, e6, e7, hitems]
        simp [List.countP_cons, Ev.isFired, tok]
        omega
      · intro c
        rw [d7 c]
        unfold Sys.enqSum
        rw [e6]
        simp [Ev.isEnq, Ev.isFull]
      · apply dispatch_RetJ
        rw [e6]
        exact RetJ_cons_other (by intro c o; simp) hi.retJust
      · intro y hy
        apply dispatch_mono
        rw [e6]; simp [hy]
      · intro c hf
        have := dispatch_nofull s0 env x c hf
        rw [e6] at this
        simpa using this

theorem countP_eraseIdx {α : Type} (f : α → Bool) (l : List α) (j : Nat) (p : α) (h : l[j]? = some p) :
    (l.eraseIdx j).countP f + (if f p then 1 else 0) = l.countP f := by
  induction l generalizing j with
  | nil => simp at h
  | cons a rest ih =>
    cases j with
    | zero =>
      simp only [List.getElem?_cons_zero, Option.some.injEq] at h
      subst h
      simp [List.countP_cons]
    | succ j =>
      simp only [List.getElem?_cons_succ] at h
      have := ih j h
      simp only [List.eraseIdx_cons_succ, List.countP_cons]
      omega

theorem inv_answer {s s' : Sys} {j : Nat} {err : Fail} (hi : Inv s) (h : s.answer j err = some s') : Inv s' := by
  unfold Sys.answer at h
  split at h
  · simp at h
  · rename_i p hp
    simp only [Option.some.injEq] at h
    subst h
    have hmem : p ∈ s.pend := List.mem_of_getElem? hp
    have hsub : ∀ x ∈ s.pend.eraseIdx j, x ∈ s.pend := fun x hx => List.mem_of_mem_eraseIdx hx
    apply inv_of_thr_eq hi (by simp)
    · constructor
      · simpa [invoke_hist] using hi.fifo
      · simpa using hi.pairQ
      · simp only [invoke_pend]
        intro x hx
        exact hi.pairP x (hsub x hx)
      · intro m
        have := hi.disp m
        simpa [invoke_hist, List.countP_append] using this
      · exact AresOk_invoke _ _ _ hi.ares
      · rw [invoke_hist, invoke_resultOf]
        apply FiredGood_invokeEvs _ _ _ _ hi.firedGood
        intro c hc
        rw [hi.pairP p hmem c hc]
      · simp only [invoke_pend, invoke_counter]
        intro x hx
        exact hi.keys x (hsub x hx)
    · intro c
      unfold Sys.tokSum
      have := countP_eraseIdx (fun p => p.e.cb.isFor c) s.pend j p hp
      simp only [invoke_q, invoke_pend, invoke_hist, List.countP_append, countP_isFired_invokeEvs, tok]
      omega
    · intro c
      unfold Sys.enqSum
      simp [invoke_hist, List.countP_append]
    · rw [invoke_hist]
      exact RetJ_invokeEvs _ _ _ hi.retJust
    · intro y hy; rw [invoke_hist]; simp [hy]
    · intro c hf
      rw [invoke_hist] at hf
      simp only [List.mem_append] at hf
      rcases hf with hf | hf
      · exact absurd hf (invokeEvs_no_full _ _ _ _)
      · exact hf

theorem inv_remotePut {s : Sys} (hi : Inv s) (k : Nat) (cb : Option (Nat × Nat)) : Inv (s.remotePut k cb) := by
  unfold Sys.remotePut
  have hk : PutKind ⟨.foreign k, cbOfOpt cb⟩ (.renq k) (.rfull k) := Or.inr ⟨k, rfl, rfl, rfl⟩
  have hfor : ∀ c, (cbOfOpt cb).isFor c = false := by
    intro c; rcases cb with _ | ⟨n, r⟩ <;> simp [cbOfOpt, CbRef.isFor]
  obtain ⟨f1, _, _, _⟩ := applyCommand_frame s ⟨.foreign k, cbOfOpt cb⟩ (.renq k) (.rfull k)
  apply inv_of_thr_eq hi f1
  · exact applyCommand_TF hi.toInvTF hk (by intro c hc; simp [hfor c] at hc)
  · intro c
    rw [applyCommand_tokSum s _ hk c]
    simp [tok, hfor c]
  · intro c
    rw [applyCommand_enqSum s _ hk c]
    simp
  · exact applyCommand_RetJ _ hk hi.retJust
  · exact applyCommand_mono s _ _ _
  · intro c hf
    rcases applyCommand_full hk c hf with h0 | ⟨h1, _⟩
    · exact h0
    · simp at h1

/-- every atomic action preserves the invariant -/
theorem inv_step {s s' : Sys} {l : Label} (hi : Inv s) (h : s.step l = some s') : Inv s' := by
  cases l with
  | call t => exact inv_callStep hi h
  | timeout t => exact inv_timeoutStep hi h
  | tick env => exact inv_tick hi h
  | answer j err => exact inv_answer hi h
  | remotePut k cb =>
    simp only [Sys.step, Option.some.injEq] at h
    subst h
    exact inv_remotePut hi k cb

theorem inv_init (maxSize : Nat) (progs : List (List CallSpec)) (ro : CmdRef → Nat) (c0 : Nat) :
    Inv (Sys.init maxSize progs ro c0) := by
  refine { fifo := rfl, pairQ := ?_, pairP := ?_, disp := ?_, ares := ?_, firedGood := ?_, keys := ?_,
           token := ?_, enq1 := ?_, retJust := ?_, fullFired := ?_, builtOk := ?_, waitOk := ?_ }
  · intro e he; simp [Sys.init] at he
  · intro p hp; simp [Sys.init] at hp
  · intro m; simp [Sys.init]
  · intro c hc; simp [Sys.init, ARes.blank] at hc
  · intro c r e hm; simp [Sys.init] at hm
  · intro p hp; simp [Sys.init] at hp
  · intro c
    simp [Sys.tokSum, Sys.init, Sys.putDone]
  · intro c
    simp [Sys.enqSum, Sys.init, Sys.putDone]
  · intro pre post c o h
    simp [Sys.init] at h
  · intro c hf; simp [Sys.init] at hf
  · intro t hne; simp [Sys.init] at hne
  · intro t hw; simp [Sys.init] at hw

/-- the invariant holds after every schedule -/
theorem inv_exec {s s' : Sys} (hi : Inv s) (ls : List Label) (h : s.exec ls = some s') : Inv s' := by
  induction ls generalizing s with
  | nil => simp only [Sys.exec, Option.some.injEq] at h; subst h; exact hi
  | cons l ls ih =>
    simp only [Sys.exec] at h
    split at h
    · simp at h
    · rename_i s1 hs1
      exact ih (inv_step hi hs1) h

end PSO.Queue
