import PSO.Proofs.NodeTickMonotone

/-!
# C20: the fallback check of the leader branch, as single-step facts and as an invariant over runs
-/
namespace PSO.NodeTick
open PSO.Raft (Role isMajority)

/-! ## no membership entries ⇒ the apply loop does not touch the voter set or the response table -/

def isMembership : Cmd → Bool
  | .membership _ _ => true
  | _ => false

/-- No MEMBERSHIP entry in the log (then `__applyLogEntries` never changes the voter set). -/
def NoMembership (log : List Entry) : Prop := ∀ e ∈ log, isMembership e.cmd = false

/-- Fields the apply loop keeps when it meets no membership entry. -/
structure VoterFrame (s s' : NodeState) : Prop where
  others : s'.others = s.others
  lastResponse : s'.lastResponse = s.lastResponse
  matchIndex : s'.matchIndex = s.matchIndex
  nextIndex : s'.nextIndex = s.nextIndex

theorem VoterFrame.refl (s : NodeState) : VoterFrame s s := ⟨rfl, rfl, rfl, rfl⟩
theorem VoterFrame.trans {a b c : NodeState} (h1 : VoterFrame a b) (h2 : VoterFrame b c) : VoterFrame a c :=
  ⟨h2.others.trans h1.others, h2.lastResponse.trans h1.lastResponse, h2.matchIndex.trans h1.matchIndex,
   h2.nextIndex.trans h1.nextIndex⟩

theorem applyCmd_voterFrame {c : Config} {s : NodeState} {now : Nat} {e : Entry} {s' : NodeState} {r : Res}
    {o : List Output} (hm : isMembership e.cmd = false) (h : applyCmd c s now e = some (s', r, o)) :
    VoterFrame s s' := by
  unfold applyCmd at h
  split at h
  · cases h; exact VoterFrame.refl s
  · split at h
    · cases h
    · split at h
      · cases h; exact VoterFrame.refl s
      · cases h; exact ⟨rfl, rfl, rfl, rfl⟩
  · next add n hc => rw [hc] at hm; cases hm
  · cases h; exact ⟨rfl, rfl, rfl, rfl⟩

theorem applyLoop_voterFrame (c : Config) (now : Nat) (es : List Entry) (s : NodeState)
    (hm : ∀ e ∈ es, isMembership e.cmd = false) : VoterFrame s (applyLoop c now es s).1 := by
  induction es generalizing s with
  | nil => exact VoterFrame.refl s
  | cons e es ih =>
    simp only [applyLoop]
    split
    · exact ⟨rfl, rfl, rfl, rfl⟩
    · next s1 res o1 h =>
      have h1 := applyCmd_voterFrame (hm e (List.mem_cons_self ..)) h
      have f0 : VoterFrame s { s with waiting := wdel s.waiting e.idx } := ⟨rfl, rfl, rfl, rfl⟩
      have f2 : VoterFrame s1 { s1 with lastApplied := s1.lastApplied + 1 } := ⟨rfl, rfl, rfl, rfl⟩
      exact (f0.trans h1).trans (f2.trans (ih _ (fun e he => hm e (List.mem_cons_of_mem _ he))))

theorem getEntries_subset (log : List Entry) (frm count : Nat) : ∀ e ∈ getEntries log frm count, e ∈ log := by
  intro e he
  unfold getEntries at he
  split at he
  · cases he
  · exact List.mem_of_mem_drop (List.mem_of_mem_take he)

theorem applyEntries_voterFrame (c : Config) (s : NodeState) (now : Nat) (hm : NoMembership s.log) :
    VoterFrame s (applyEntries c s now).1 := by
  unfold applyEntries
  split
  · exact VoterFrame.refl s
  · split
    · exact applyLoop_voterFrame c now _ s (fun e he => hm e (getEntries_subset _ _ _ e he))
    · exact VoterFrame.refl s

/-! ## the fallback decision of one tick -/

theorem electionPhase_leader (c : Config) (s : NodeState) (now rand : Nat) (h : s.role = .leader) :
    electionPhase c s now rand = (s, []) := by
  unfold electionPhase
  split
  · rfl
  · rw [if_pos h]

theorem tick_role (c : Config) (s : NodeState) (now rand : Nat) :
    (tick c s now rand).1.role = (leaderPhase c (electionPhase c s now rand).1 now).1.role := by
  rw [tick_fst, readyPhase_role, (applyEntries_frame c _ now).role]

theorem tick_leader (c : Config) (s : NodeState) (now rand : Nat) :
    (tick c s now rand).1.leader = (leaderPhase c (electionPhase c s now rand).1 now).1.leader := by
  rw [tick_fst, readyPhase_leader, (applyEntries_frame c _ now).leader]

/-- The code's test `count <= (len(otherNodes) + 1) / 2` (true division) on the response table. -/
def CutOff (c : Config) (s : NodeState) (now : Nat) : Prop :=
  2 * freshCount s.others s.lastResponse now c.fallbackT ≤ s.others.length + 1

theorem isMajority_iff (N count : Nat) : isMajority N count = true ↔ N < 2 * count := by
  simp [isMajority]

theorem not_cutOff_iff (c : Config) (s : NodeState) (now : Nat) :
    ¬ CutOff c s now ↔ isMajority (s.others.length + 1) (freshCount s.others s.lastResponse now c.fallbackT) = true := by
  rw [isMajority_iff]; unfold CutOff; omega

/-- **step_down.** A leader whose fresh-response count is not a majority at a tick is no leader afterwards. -/
theorem tick_step_down (c : Config) (s : NodeState) (now rand : Nat) (hl : s.role = .leader)
    (hcut : CutOff c s now) : (tick c s now rand).1.role ≠ .leader ∧ (tick c s now rand).1.leader = none := by
  rw [tick_role, tick_leader, electionPhase_leader c s now rand hl, leaderPhase_eq]
  have hnm : ¬ isMajority (s.others.length + 1) (freshCount s.others s.lastResponse now c.fallbackT) = true :=
    fun h => (not_cutOff_iff c s now).mpr h hcut
  simp only [hl, if_true]
  rw [if_neg hnm]
  exact ⟨fun h => (by cases h), rfl⟩

/-- A leader that is not cut off at a tick stays leader through that tick. -/
theorem tick_stays_leader (c : Config) (s : NodeState) (now rand : Nat) (hl : s.role = .leader)
    (h : ¬ CutOff c s now) : (tick c s now rand).1.role = .leader := by
  rw [tick_role, electionPhase_leader c s now rand hl, leaderPhase_eq]
  simp only [hl, if_true, (not_cutOff_iff c s now).mp h]

/-- Converse reading: whoever is leader right after a tick passed the fallback check of that tick
(on the state the election-timeout branch left, which is `s` itself for a node that was leader before). -/
theorem tick_leader_heard (c : Config) (s : NodeState) (now rand : Nat)
    (h : (tick c s now rand).1.role = .leader) : ¬ CutOff c (electionPhase c s now rand).1 now := by
  rw [tick_role, leaderPhase_eq] at h
  rw [not_cutOff_iff]
  split at h
  · split at h
    · assumption
    · cases h
  · next hn => exact absurd h hn

/-! ## `hasQuorum` -/

/-- `hasQuorum` ⇔ connected to a majority of the voters the node knows (itself included when it votes). -/
theorem hasQuorum_iff (s : NodeState) :
    hasQuorum s = true ↔
      2 * ((s.others.filter (· ∈ s.connected)).length + (if s.self.isSome then 1 else 0)) >
        s.others.length + (if s.self.isSome then 1 else 0) := by
  unfold hasQuorum
  cases h : s.self.isSome <;> simp [isMajority_iff]

/-! ## monotonicity of the fresh count -/

theorem length_filter_le_of_imp {l : List Nat} {p q : Nat → Bool} (h : ∀ x ∈ l, p x = true → q x = true) :
    (l.filter p).length ≤ (l.filter q).length := by
  induction l with
  | nil => exact Nat.le_refl _
  | cons a rest ih =>
    have ih' := ih (fun x hx => h x (List.mem_cons_of_mem _ hx))
    by_cases hp : p a = true
    · have hq := h a (List.mem_cons_self ..) hp
      simp only [List.filter_cons, hp, hq, if_true, List.length_cons]
      omega
    · by_cases hq : q a = true
      · simp only [List.filter_cons, hp, hq, if_true, List.length_cons]
        exact Nat.le_succ_of_le ih'
      · simp only [List.filter_cons, hp, hq]
        exact ih'

theorem freshCount_mono {others : List Nat} {m m' : AMap} {t T : Nat}
    (h : ∀ n ∈ others, t < mgetD m n + T → t < mgetD m' n + T) :
    freshCount others m t T ≤ freshCount others m' t T := by
  unfold freshCount
  have := length_filter_le_of_imp (l := others) (p := fun n => decide (t < mgetD m n + T))
    (q := fun n => decide (t < mgetD m' n + T)) (by
      intro x hx hp
      simp only [decide_eq_true_eq] at hp ⊢
      exact h x hx hp)
  omega

theorem freshCount_all {others : List Nat} {m : AMap} {t T : Nat} (h : ∀ n ∈ others, t < mgetD m n + T) :
    freshCount others m t T = others.length + 1 := by
  unfold freshCount
  rw [List.filter_eq_self.mpr]
  · omega
  · intro n hn
    simp only [decide_eq_true_eq]
    exact h n hn

/-! ## the invariant over runs: a leader has heard from a majority within T of its last tick -/

/-- "If the node reports itself leader, a majority of the voters (itself included) have a response time
later than `t − T`", `t` = the clock value of the node's last tick. -/
def Heard (c : Config) (s : NodeState) (t : Nat) : Prop := s.role = .leader → ¬ CutOff c s t

def evTime : Event → Option Nat
  | .tick now _ => some now
  | .deliver _ _ now _ => some now
  | _ => none

/-- The node's clock never runs backwards along the event list (starting at `tc`). -/
def Timed : Nat → List Event → Prop
  | _, [] => True
  | tc, e :: es =>
    match evTime e with
    | none => Timed tc es
    | some t => tc ≤ t ∧ Timed t es

/-- Clock value of the last tick (initially `tl`). -/
def lastTick : Nat → List Event → Nat
  | tl, [] => tl
  | _, .tick now _ :: es => lastTick now es
  | tl, _ :: es => lastTick tl es

theorem becomeLeader_log (c : Config) (s : NodeState) (now : Nat) :
    (becomeLeader c s now).1.log = s.log ++ [⟨.noop, lastIdx s.log + 1, s.term⟩] := rfl

theorem noMembership_append_noop {log : List Entry} (h : NoMembership log) (i t : Nat) :
    NoMembership (log ++ [⟨.noop, i, t⟩]) := by
  intro e he
  rcases List.mem_append.mp he with h1 | h1
  · exact h e h1
  · simp only [List.mem_singleton] at h1
    subst h1; rfl

theorem electionPhase_log (c : Config) (s : NodeState) (now rand : Nat) :
    (electionPhase c s now rand).1.log = s.log ∨
    ∃ i t, (electionPhase c s now rand).1.log = s.log ++ [⟨.noop, i, t⟩] := by
  unfold electionPhase
  split
  · exact Or.inl rfl
  · split
    · exact Or.inl rfl
    · split
      · simp only [setRole, leaderChanged]
        split
        · exact Or.inr ⟨_, _, rfl⟩
        · exact Or.inl rfl
      · exact Or.inl rfl

theorem leaderPhase_log (c : Config) (s : NodeState) (now : Nat) : (leaderPhase c s now).1.log = s.log := by
  rw [leaderPhase_eq]
  split
  · split <;> rfl
  · rfl

theorem tick_log (c : Config) (s : NodeState) (now rand : Nat) :
    (tick c s now rand).1.log = (electionPhase c s now rand).1.log := by
  rw [tick_fst, readyPhase_log, (applyEntries_frame c _ now).log, leaderPhase_log]

theorem onRequestVote_leader (c : Config) (s : NodeState) (frm term li lt now rand : Nat)
    (h : (onRequestVote c s frm term li lt now rand).1.role = .leader) :
    (onRequestVote c s frm term li lt now rand).1 = s := by
  revert h
  simp only [onRequestVote, setRole]
  repeat' split
  all_goals first
    | (intro h; rfl)
    | (intro h; simp_all)

theorem onRequestVote_log (c : Config) (s : NodeState) (frm term li lt now rand : Nat) :
    (onRequestVote c s frm term li lt now rand).1.log = s.log := by
  simp only [onRequestVote, setRole]
  repeat' split
  all_goals rfl

theorem onResponseVote_cases (c : Config) (s : NodeState) (term now : Nat) :
    (onResponseVote c s term now).1 = s ∨
    (s.role = .candidate ∧ (onResponseVote c s term now).1 = { s with votes := s.votes + 1 }) ∨
    (s.role = .candidate ∧ (onResponseVote c s term now).1 = (becomeLeader c { s with votes := s.votes + 1 } now).1) := by
  simp only [onResponseVote]
  split
  · next h =>
    split
    · exact Or.inr (Or.inr ⟨h.1, rfl⟩)
    · exact Or.inr (Or.inl ⟨h.1, rfl⟩)
  · exact Or.inl rfl

/-- What `next_node_idx` can do to the fields the fallback check reads. -/
theorem onNextNodeIdx_cases (s : NodeState) (frm : Nat) (term : Option Nat) (reset : Bool) (next : Nat)
    (success : Bool) (now : Nat) :
    let s' := (onNextNodeIdx s frm term reset next success now).1
    s'.role = s.role ∧ s'.others = s.others ∧ s'.log = s.log ∧ s'.term = s.term ∧
      (s'.lastResponse = s.lastResponse ∨ s'.lastResponse = mset s.lastResponse frm now) := by
  simp only [onNextNodeIdx]
  split
  · cases reset <;> cases success <;> simp only [if_true, if_false, Bool.false_eq_true]
    all_goals (repeat' split)
    all_goals first
      | exact ⟨rfl, rfl, rfl, rfl, Or.inl rfl⟩
      | exact ⟨rfl, rfl, rfl, rfl, Or.inr rfl⟩
      | simp
  · exact ⟨rfl, rfl, rfl, rfl, Or.inl rfl⟩

theorem step_noMembership (c : Config) (s : NodeState) (e : Event) (h : NoMembership s.log) :
    NoMembership (step c s e).1.log := by
  cases e with
  | tick now rand =>
    show NoMembership (tick c s now rand).1.log
    rw [tick_log]
    rcases electionPhase_log c s now rand with h1 | ⟨i, t, h1⟩
    · rw [h1]; exact h
    · rw [h1]; exact noMembership_append_noop h i t
  | deliver frm m now rand =>
    cases m with
    | requestVote t li lt =>
      show NoMembership (onRequestVote c s frm t li lt now rand).1.log
      rw [onRequestVote_log]; exact h
    | responseVote t =>
      show NoMembership (onResponseVote c s t now).1.log
      rcases onResponseVote_cases c s t now with h1 | ⟨_, h1⟩ | ⟨_, h1⟩
      · rw [h1]; exact h
      · rw [h1]; exact h
      · rw [h1, becomeLeader_log]; exact noMembership_append_noop h _ _
    | nextNodeIdx t reset next success =>
      show NoMembership (onNextNodeIdx s frm t reset next success now).1.log
      rw [(onNextNodeIdx_cases s frm t reset next success now).2.2.1]; exact h
  | connected n => exact h
  | disconnected n => exact h
  | roConnected n => exact h
  | roDisconnected n => exact h

theorem heard_of_all_fresh (c : Config) (s : NodeState) (t : Nat)
    (h : ∀ n ∈ s.others, t < mgetD s.lastResponse n + c.fallbackT) : ¬ CutOff c s t := by
  unfold CutOff
  rw [freshCount_all h]
  omega

theorem tick_heard (c : Config) (s : NodeState) (now rand : Nat) (hm : NoMembership s.log) :
    Heard c (tick c s now rand).1 now := by
  intro hl
  have h1 := tick_leader_heard c s now rand hl
  -- the state after the tick has the voter set / response table the check saw
  have hlog : NoMembership (leaderPhase c (electionPhase c s now rand).1 now).1.log := by
    rw [leaderPhase_log]
    rcases electionPhase_log c s now rand with h2 | ⟨i, t, h2⟩
    · rw [h2]; exact hm
    · rw [h2]; exact noMembership_append_noop hm i t
  have vf := applyEntries_voterFrame c _ now hlog
  have ho : (tick c s now rand).1.others = (electionPhase c s now rand).1.others := by
    rw [tick_fst, readyPhase_others, vf.others, leaderPhase_eq]
    split
    · split <;> rfl
    · rfl
  have hr : (tick c s now rand).1.lastResponse = (electionPhase c s now rand).1.lastResponse := by
    rw [tick_fst, readyPhase_lastResponse, vf.lastResponse, leaderPhase_eq]
    split
    · split <;> rfl
    · rfl
  unfold CutOff at h1 ⊢
  rw [ho, hr]
  exact h1

/-- **The invariant.** Along any run whose clock does not go backwards, with a positive fallback
timeout and no membership entries in the log: whenever the node reports itself leader, more than half of
the voters (itself included) have a recorded response later than (clock of its last tick) − T. -/
theorem run_heard (c : Config) (hT : 0 < c.fallbackT) (evs : List Event) :
    ∀ (s : NodeState) (tl tc : Nat), tl ≤ tc → Timed tc evs → NoMembership s.log → Heard c s tl →
      Heard c (run c s evs).1 (lastTick tl evs) := by
  induction evs with
  | nil => intro s tl tc _ _ _ h; exact h
  | cons e es ih =>
    intro s tl tc hle ht hm hh
    have hm' := step_noMembership c s e hm
    cases e with
    | tick now rand =>
      have ht' : tc ≤ now ∧ Timed now es := ht
      exact ih _ now now (Nat.le_refl _) ht'.2 hm' (tick_heard c s now rand hm)
    | connected n => exact ih _ tl tc hle ht hm' hh
    | disconnected n => exact ih _ tl tc hle ht hm' hh
    | roConnected n => exact ih _ tl tc hle ht hm' hh
    | roDisconnected n => exact ih _ tl tc hle ht hm' hh
    | deliver frm m now rand =>
      have ht' : tc ≤ now ∧ Timed now es := ht
      refine ih _ tl now (Nat.le_trans hle ht'.1) ht'.2 hm' ?_
      have hnow : tl < now + c.fallbackT := by omega
      cases m with
      | requestVote t li lt =>
        intro hl
        have : (step c s (.deliver frm (.requestVote t li lt) now rand)).1 = s :=
          onRequestVote_leader c s frm t li lt now rand hl
        rw [this] at hl ⊢
        exact hh hl
      | responseVote t =>
        intro hl
        change (onResponseVote c s t now).1.role = .leader at hl
        change ¬ CutOff c (onResponseVote c s t now).1 tl
        rcases onResponseVote_cases c s t now with h1 | ⟨hc, h1⟩ | ⟨hc, h1⟩
        · rw [h1] at hl ⊢; exact hh hl
        · rw [h1] at hl; rw [hc] at hl; cases hl
        · rw [h1]
          apply heard_of_all_fresh
          intro n hn
          have hn' : n ∈ ({ s with votes := s.votes + 1 } : NodeState).others := hn
          rw [becomeLeader_fresh c { s with votes := s.votes + 1 } now n hn']
          exact hnow
      | nextNodeIdx t reset next success =>
        intro hl
        change (onNextNodeIdx s frm t reset next success now).1.role = .leader at hl
        change ¬ CutOff c (onNextNodeIdx s frm t reset next success now).1 tl
        obtain ⟨hr, ho, _, _, hlr⟩ := onNextNodeIdx_cases s frm t reset next success now
        rw [hr] at hl
        have h0 := hh hl
        unfold CutOff at h0 ⊢
        rw [ho]
        rcases hlr with hlr | hlr
        · rw [hlr]; exact h0
        · rw [hlr]
          have := freshCount_mono (others := s.others) (m := s.lastResponse) (m' := mset s.lastResponse frm now)
            (t := tl) (T := c.fallbackT) (by
              intro n _ hf
              by_cases hn : n = frm
              · subst hn; rw [mgetD_mset_self]; exact hnow
              · rw [mgetD_mset_ne _ _ _ _ hn]; exact hf)
          omega

end PSO.NodeTick
