import PSO.Model.NodeSend

/-! # Chunking of one over-sized entry: the chunk list reassembles (C11) -/
namespace PSO.NodeSend

/-! ## arithmetic of `nChunks` -/

theorem nChunks_spec {B E : Nat} (hB : 1 ≤ B) :
    E ≤ nChunks B E * B ∧ (nChunks B E - 1) * B < E + (if E = 0 then 1 else 0) := by
  unfold nChunks
  have h1 := Nat.div_add_mod (E + B - 1) B
  have h2 := Nat.mod_lt (E + B - 1) (show 0 < B by omega)
  generalize (E + B - 1) / B = q at *
  generalize (E + B - 1) % B = r at *
  have hc : q * B = B * q := Nat.mul_comm _ _
  constructor
  · omega
  · cases q with
    | zero => simp; split <;> omega
    | succ q =>
      have : (q + 1 - 1) * B = q * B := by simp
      rw [this]
      have h3 : (q + 1) * B = q * B + B := Nat.succ_mul q B
      split <;> omega

theorem nChunks_pos {B E : Nat} (hB : 1 ≤ B) (hE : 1 ≤ E) : 1 ≤ nChunks B E := by
  have h := (nChunks_spec (E := E) hB).1
  rcases Nat.eq_zero_or_pos (nChunks B E) with h0 | h0
  · rw [h0] at h; omega
  · exact h0

/-- every chunk index below `nChunks` starts inside the string -/
theorem chunk_pos_lt {B E k : Nat} (hB : 1 ≤ B) (hE : 1 ≤ E) (hk : k < nChunks B E) : k * B < E := by
  have h := (nChunks_spec (E := E) hB).2
  have hne : ¬ E = 0 := by omega
  simp only [hne, if_false, Nat.add_zero] at h
  have : k * B ≤ (nChunks B E - 1) * B := Nat.mul_le_mul_right B (by omega)
  omega

/-- the last chunk index is the only one whose end reaches the end of the string -/
theorem chunk_end_ge_iff {B E k : Nat} (hB : 1 ≤ B) (hE : 1 ≤ E) (hk : k < nChunks B E) :
    E ≤ k * B + B ↔ k + 1 = nChunks B E := by
  have h1 := (nChunks_spec (E := E) hB).1
  have h2 := (nChunks_spec (E := E) hB).2
  have hne : ¬ E = 0 := by omega
  simp only [hne, if_false, Nat.add_zero] at h2
  constructor
  · intro h
    rcases Nat.lt_or_ge (k + 1) (nChunks B E) with hlt | hge
    · have : (k + 1) * B ≤ (nChunks B E - 1) * B := Nat.mul_le_mul_right B (by omega)
      have h3 : (k + 1) * B = k * B + B := Nat.succ_mul k B
      omega
    · omega
  · intro h
    have h3 : (k + 1) * B = k * B + B := Nat.succ_mul k B
    rw [← h] at h1
    omega

theorem nChunks_ge_two {B E : Nat} (hB : 1 ≤ B) (hE : B < E) : 2 ≤ nChunks B E := by
  have h1 := (nChunks_spec (E := E) hB).1
  rcases Nat.lt_or_ge (nChunks B E) 2 with h | h
  · have : nChunks B E * B ≤ 1 * B := Nat.mul_le_mul_right B (by omega)
    omega
  · exact h

/-! ## labels -/

theorem labelAt_start_iff {R B k : Nat} (hB : 1 ≤ B) : labelAt R B (k * B) = .start ↔ k = 0 := by
  unfold labelAt
  constructor
  · intro h
    by_cases hk : k = 0
    · exact hk
    · have : 1 * B ≤ k * B := Nat.mul_le_mul_right B (by omega)
      have hne : ¬ k * B = 0 := by omega
      simp only [hne, if_false] at h
      split at h <;> cases h
  · intro h; subst h; simp

/-- repaired rule: `finish` exactly on the last chunk (which is not the first when the string is longer than a batch) -/
theorem labelAt_finish_iff {B E k : Nat} (hB : 1 ≤ B) (hE : B < E) (hk : k < nChunks B E) :
    labelAt E B (k * B) = .finish ↔ k + 1 = nChunks B E := by
  have h2 := nChunks_ge_two hB hE
  unfold labelAt
  by_cases hk0 : k = 0
  · subst hk0
    simp
    omega
  · have : 1 * B ≤ k * B := Nat.mul_le_mul_right B (by omega)
    have hne : ¬ k * B = 0 := by omega
    simp only [hne, if_false]
    rw [← chunk_end_ge_iff hB (by omega) hk]
    split <;> simp_all

theorem labelAt_process {B E k : Nat} (hB : 1 ≤ B) (hE : B < E) (hk : k + 1 < nChunks B E) (hk0 : k ≠ 0) :
    labelAt E B (k * B) = .process := by
  have hf := labelAt_finish_iff hB hE (show k < nChunks B E by omega)
  have hs := labelAt_start_iff (R := E) (k := k) hB
  cases h : labelAt E B (k * B) with
  | process => rfl
  | start => exact absurd (hs.mp h) hk0
  | finish => have := hf.mp h; omega

/-- the k-th element of the chunk list -/
theorem chunkSpans_getElem? {B E k : Nat} (hk : k < nChunks B E) :
    (chunkSpans B E)[k]? = some (labelAt E B (k * B), k * B, min B (E - k * B)) := by
  unfold chunkSpans chunkSpansWith
  simp [List.getElem?_map, List.getElem?_range hk]

theorem chunkSpans_length (B E : Nat) : (chunkSpans B E).length = nChunks B E := by
  unfold chunkSpans chunkSpansWith; simp

/-! ## reassembly -/

/-- chunks with indices `k, k+1, …, k+m-1` -/
def chunksFrom {α : Type} (B : Nat) (data : List α) (k m : Nat) : List (Label × List α) :=
  (List.range' k m).map fun j => (labelAt data.length B (j * B), slice data (j * B) (min B (data.length - j * B)))

theorem chunksOf_eq_chunksFrom {α : Type} (B : Nat) (data : List α) :
    chunksOf B data = chunksFrom B data 0 (nChunks B data.length) := by
  unfold chunksOf chunksFrom chunkSpans chunkSpansWith
  rw [List.map_map, List.range_eq_range']
  rfl

theorem chunksFrom_succ {α : Type} (B : Nat) (data : List α) (k m : Nat) :
    chunksFrom B data k (m + 1) =
      (labelAt data.length B (k * B), slice data (k * B) (min B (data.length - k * B))) :: chunksFrom B data (k + 1) m := by
  unfold chunksFrom
  simp [List.range'_succ]

theorem slice_last {α : Type} (data : List α) (p B : Nat) (h : data.length ≤ p + B) :
    slice data p (min B (data.length - p)) = data.drop p := by
  unfold slice
  apply List.take_of_length_le
  simp
  omega

theorem slice_mid {α : Type} (data : List α) (p B : Nat) (h : p + B < data.length) :
    slice data p (min B (data.length - p)) ++ data.drop (p + B) = data.drop p := by
  unfold slice
  have : min B (data.length - p) = B := by omega
  rw [this]
  have := List.take_append_drop B (data.drop p)
  rw [List.drop_drop] at this
  exact this

/-- feeding the chunks `k … n-1` (k ≥ 1) to a receiver holding `b` completes exactly `b ++ data[kB:]` -/
theorem recvAll_chunksFrom {α : Type} (B : Nat) (data : List α) (hB : 1 ≤ B) (hE : B < data.length) :
    ∀ (m k : Nat) (b : List α), 1 ≤ k → 1 ≤ m → k + m = nChunks B data.length →
      recvAll (some b) (chunksFrom B data k m) = .ok (none, [b ++ data.drop (k * B)]) := by
  intro m
  induction m with
  | zero => intro k b _ hm; omega
  | succ m ih =>
    intro k b hk _ hn
    rw [chunksFrom_succ]
    by_cases hm : m = 0
    · subst hm
      have hlast : k + 1 = nChunks B data.length := by omega
      have hfin := (labelAt_finish_iff hB hE (show k < nChunks B data.length by omega)).mpr hlast
      have hend := (chunk_end_ge_iff hB (show 1 ≤ data.length by omega) (show k < nChunks B data.length by omega)).mpr hlast
      rw [hfin, slice_last data (k * B) B hend]
      simp [recvAll, recvChunk, chunksFrom]
    · have hlt : k + 1 < nChunks B data.length := by omega
      have hpr := labelAt_process hB hE hlt (by omega)
      have hnend : ¬ data.length ≤ k * B + B := by
        intro h
        have := (chunk_end_ge_iff hB (show 1 ≤ data.length by omega) (show k < nChunks B data.length by omega)).mp h
        omega
      rw [hpr]
      simp only [recvAll, recvChunk]
      rw [ih (k + 1) _ (by omega) (by omega) (by omega)]
      have h3 : (k + 1) * B = k * B + B := Nat.succ_mul k B
      rw [h3, List.append_assoc, slice_mid data (k * B) B (by omega)]
      rfl

/-- **Reassembly.** For every byte string longer than one batch (which the pickled form of an entry whose
command is at least a batch long always is, the pickle overhead being positive) the receiver fed with the
chunk list in order, starting from any buffer content, completes exactly that string, once, and ends with
an empty buffer. -/
theorem recvAll_chunksOf {α : Type} (B : Nat) (data : List α) (hB : 1 ≤ B) (hE : B < data.length)
    (buf : Option (List α)) :
    recvAll buf (chunksOf B data) = .ok (none, [data]) := by
  have h2 := nChunks_ge_two hB hE
  rw [chunksOf_eq_chunksFrom]
  obtain ⟨n, hn⟩ : ∃ n, nChunks B data.length = n + 1 := ⟨nChunks B data.length - 1, by omega⟩
  rw [hn, chunksFrom_succ]
  have hs : labelAt data.length B (0 * B) = .start := (labelAt_start_iff hB).mpr rfl
  rw [hs]
  simp only [recvAll, recvChunk]
  rw [recvAll_chunksFrom B data hB hE n 1 _ (by omega) (by omega) (by omega)]
  have : slice data (0 * B) (min B (data.length - 0 * B)) = data.take B := by
    unfold slice; simp
  rw [this]
  simp

end PSO.NodeSend
