import PSO.Proofs.JournalBytes
/-! The representation invariant of the journal file and what each kind of store does to it. -/
namespace PSO.Journal

/-- `f` = 36 header bytes ‖ header word `L` ‖ records of `es` ‖ anything. -/
def Lay (f L : Bytes) (es : List Entry) : Prop :=
  ∃ pre g, pre.length = 36 ∧ f = pre ++ L ++ (encEntries es ++ g)

def Valid (es : List Entry) : Prop := 40 + encLen es < U32 ∧ ∀ e ∈ es, ValidEntry e

/-- Disk-level invariant: header word = end of the records of `es`. -/
def DInv (f : Bytes) (es : List Entry) : Prop :=
  Lay f (leEnc 4 (40 + encLen es)) es ∧ Valid es ∧ 1024 ≤ f.length

theorem Lay.length_le {f L es} (h : Lay f L es) (hL : L.length = 4) : 40 + encLen es ≤ f.length := by
  obtain ⟨pre, g, hp, rfl⟩ := h
  simp [hp, hL]; omega

theorem Lay.prefix {f L a b} (h : Lay f L (a ++ b)) : Lay f L a := by
  obtain ⟨pre, g, hp, rfl⟩ := h
  exact ⟨pre, encEntries b ++ g, hp, by simp [encEntries_append]⟩

theorem Lay.take {f L es} (h : Lay f L es) (n : Nat) : Lay f L (es.take n) := by
  rw [← List.take_append_drop n es] at h; exact h.prefix

theorem Lay.storeHdr {f L es} (h : Lay f L es) (hL : L.length = 4) (L' : Bytes) (hL' : L'.length = 4) :
    Lay (storeAt f 36 L') L' es := by
  obtain ⟨pre, g, hp, rfl⟩ := h
  refine ⟨pre, g, hp, ?_⟩
  exact storeAt_at rfl hp (by rw [hL, hL'])

theorem Lay.resize {f L es} (h : Lay f L es) {n : Nat} (hn : f.length ≤ n) : Lay (resizeFile f n) L es := by
  obtain ⟨pre, g, hp, rfl⟩ := h
  rw [resizeFile_ge hn]
  exact ⟨pre, g ++ zeros (n - (pre ++ L ++ (encEntries es ++ g)).length), hp, by simp⟩

/-- A store into the area behind the records leaves the layout intact. -/
theorem Lay.storeTail {f L es} (h : Lay f L es) (hL : L.length = 4) (bs : Bytes)
    (hfit : 40 + encLen es + bs.length ≤ f.length) :
    Lay (storeAt f (40 + encLen es) bs) L es := by
  obtain ⟨pre, g, hp, rfl⟩ := h
  have hg : bs.length ≤ g.length := by
    simp [hp, hL] at hfit; omega
  have hsplit : pre ++ L ++ (encEntries es ++ g) = (pre ++ L ++ encEntries es) ++ g.take bs.length ++ g.drop bs.length := by
    simp [List.append_assoc]
  have hlen : (pre ++ L ++ encEntries es).length = 40 + encLen es := by simp [hp, hL]; omega
  have hst := storeAt_at (bs := bs) hsplit hlen (by simp; omega)
  refine ⟨pre, bs ++ g.drop bs.length, hp, ?_⟩
  rw [hst]; simp [List.append_assoc]

/-- Storing a whole record behind the records extends the laid-out list. -/
theorem Lay.storeRecord {f L es} (h : Lay f L es) (hL : L.length = 4) (e : Entry)
    (hfit : 40 + encLen es + recLen e ≤ f.length) :
    Lay (storeAt f (40 + encLen es) (encRecord e)) L (es ++ [e]) := by
  obtain ⟨pre, g, hp, rfl⟩ := h
  have hg : recLen e ≤ g.length := by
    simp [hp, hL] at hfit; omega
  have hsplit : pre ++ L ++ (encEntries es ++ g) =
      (pre ++ L ++ encEntries es) ++ g.take (encRecord e).length ++ g.drop (encRecord e).length := by
    simp [List.append_assoc]
  have hlen : (pre ++ L ++ encEntries es).length = 40 + encLen es := by simp [hp, hL]; omega
  have hst := storeAt_at (bs := encRecord e) hsplit hlen (by simp; omega)
  refine ⟨pre, g.drop (encRecord e).length, hp, ?_⟩
  rw [hst]; simp [List.append_assoc, encEntries_append, encEntries]

theorem storeAt_length_tail {f : Bytes} {off : Nat} {bs : Bytes} (h : off + bs.length ≤ f.length) :
    (storeAt f off bs).length = f.length := storeAt_length h

/-- The trailing length field of the last laid-out record. -/
theorem Lay.rdTrailer {f L es e} (h : Lay f L (es ++ [e])) (hL : L.length = 4)
    (hb : (encBody e).length < U32) :
    rdU32 f (40 + encLen (es ++ [e]) - 4) = some (encBody e).length := by
  obtain ⟨pre, g, hp, rfl⟩ := h
  have hsplit : pre ++ L ++ (encEntries (es ++ [e]) ++ g) =
      (pre ++ L ++ encEntries es ++ leEnc 4 (encBody e).length ++ encBody e) ++ leEnc 4 (encBody e).length ++ g := by
    simp [List.append_assoc, encEntries_append, encEntries, encRecord]
  have hlen : (pre ++ L ++ encEntries es ++ leEnc 4 (encBody e).length ++ encBody e).length
      = 40 + encLen (es ++ [e]) - 4 := by
    simp [hp, hL, encLen_append, encLen, recLen]; omega
  have := rd_at (n := 4) hsplit hlen (by simp)
  simp only [rdU32, this, leEnc_length, if_true, leDec_leEnc4 hb]

/-- The header word. -/
theorem Lay.rdHdr {f : Bytes} {x : Nat} {es} (h : Lay f (leEnc 4 x) es) (hx : x < U32) :
    rdU32 f 36 = some x := by
  obtain ⟨pre, g, hp, rfl⟩ := h
  have := rd_at (n := 4) (A := pre) (B := leEnc 4 x) (C := encEntries es ++ g) rfl hp (by simp)
  simp only [rdU32, this, leEnc_length, if_true, leDec_leEnc4 hx]

theorem Valid.take {es} (h : Valid es) (n : Nat) : Valid (es.take n) :=
  ⟨by have := encLen_take_le es n; have := h.1; omega, fun e he => h.2 e (List.mem_of_mem_take he)⟩

theorem Valid.drop {es} (h : Valid es) (n : Nat) : Valid (es.drop n) :=
  ⟨by have := encLen_drop_le es n; have := h.1; omega, fun e he => h.2 e (List.mem_of_mem_drop he)⟩

theorem Valid.nil : Valid [] := ⟨by simp [encLen, U32], by simp⟩

/-- Scanning a laid-out region yields exactly the entries. -/
theorem scan_layout (es : List Entry) : ∀ (A g : Bytes) (f : Bytes) (cur last : Nat),
    f = A ++ (encEntries es ++ g) → A.length = cur → last = cur + encLen es →
    last < U32 → (∀ e ∈ es, ValidEntry e) →
    scan f last cur = .ok (es, last) := by
  induction es with
  | nil =>
    intro A g f cur last _ _ hl _ _
    rw [scan]; simp [encLen] at hl; simp [hl]
  | cons e es ih =>
    intro A g f cur last hf hA hl hlt hv
    have hrec : recLen e = 24 + e.cmd.length := rfl
    simp only [encLen] at hl
    have hbl : (encBody e).length < U32 := by simp; omega
    rw [scan]
    have hcur : cur < last := by omega
    simp only [hcur, if_true]
    -- length field
    have h1 : f = A ++ leEnc 4 (encBody e).length ++ (encBody e ++ leEnc 4 (encBody e).length ++ (encEntries es ++ g)) := by
      rw [hf]; simp [encEntries, encRecord, List.append_assoc]
    have r1 := rd_at (n := 4) h1 hA (by simp)
    have hu : rdU32 f cur = some (encBody e).length := by
      simp only [rdU32, r1, leEnc_length, if_true, leDec_leEnc4 hbl]
    -- body
    have h2 : f = (A ++ leEnc 4 (encBody e).length) ++ encBody e ++ (leEnc 4 (encBody e).length ++ (encEntries es ++ g)) := by
      rw [h1]; simp [List.append_assoc]
    have r2 := rd_at (off := cur + 4) (n := (encBody e).length) h2 (by simp [hA]) rfl
    simp only [hu, r2]
    have hnot : ¬ (encBody e).length < 16 := by simp
    simp only [hnot, if_false]
    -- rest
    have h3 : f = (A ++ encRecord e) ++ (encEntries es ++ g) := by
      rw [hf]; simp [encEntries, List.append_assoc]
    have hnext : cur + (encBody e).length + 8 = cur + recLen e := by simp; omega
    have := ih (A ++ encRecord e) g f (cur + recLen e) last h3 (by simp [hA]) (by omega) hlt
      (fun x hx => hv x (List.mem_cons_of_mem _ hx))
    rw [hnext, this]
    have hve := hv e List.mem_cons_self
    have d1 : (encBody e).take 8 = leEnc 8 e.idx := by
      simp only [encBody, List.append_assoc]; exact List.take_left' (by simp)
    have d2 : ((encBody e).drop 8).take 8 = leEnc 8 e.term := by
      simp only [encBody, List.append_assoc]
      rw [List.drop_left' (by simp)]; exact List.take_left' (by simp)
    have d3 : (encBody e).drop 16 = e.cmd := by
      simp only [encBody]
      exact List.drop_left' (by simp)
    simp only [d1, d2, d3, leDec_leEnc8 hve.1, leDec_leEnc8 hve.2]

/-- `openCore` on a disk that satisfies the invariant yields its entries and writes nothing. -/
theorem openCore_of_DInv {d : Disk} {es} (ver : Bytes) (p0 : List Prim) (h : DInv d.file es) :
    openCore ver d p0 = .ok ({ disk := d, entries := es, cur := 40 + encLen es,
                                  mci := d.metaFile, metaSaved := true, ver := ver }, p0) := by
  obtain ⟨hl, hv, hsz⟩ := h
  have hne : ¬ d.file.length = 0 := by omega
  have hns : ¬ d.file.length < INITIAL_SIZE := by simp [INITIAL_SIZE]; omega
  have hh := hl.rdHdr hv.1
  obtain ⟨pre, g, hp, hf⟩ := hl
  have hs := scan_layout es (pre ++ leEnc 4 (40 + encLen es)) g d.file 40 (40 + encLen es)
    (by rw [hf]) (by simp [hp]) rfl hv.1 hv.2
  simp only [openCore, hne, if_false, hns, applyPrims, List.foldl_nil,
    LAST_RECORD_OFFSET_OFFSET, hh, FIRST_RECORD_OFFSET, hs, List.append_nil]

/-- Reopening a disk that satisfies the invariant yields its entries and changes nothing. -/
theorem openDisk_of_DInv {d : Disk} {es} (ver : Bytes) (h : DInv d.file es) :
    openDisk ver d = .ok ({ disk := d, entries := es, cur := 40 + encLen es,
                            mci := d.metaFile, metaSaved := true, ver := ver }, []) := by
  have hne : ¬ d.file.length = 0 := by have := h.2.2; omega
  simp only [openDisk, hne, if_false]
  exact openCore_of_DInv ver [] h

end PSO.Journal
