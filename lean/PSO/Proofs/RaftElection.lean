import PSO.Proofs.RaftBasic

/-! # `InvE` (terms, votes, election) is an inductive invariant -/
namespace PSO.Raft

/-- How the election-relevant part of a node may change in a step that is not a vote step. -/
def NodeE (a b : NodeSt) : Prop :=
  a.term ≤ b.term ∧ (b.term = a.term → b.votedFor = a.votedFor) ∧ (a.term < b.term → b.votedFor = none) ∧
  ((b.role = a.role ∧ b.votes = a.votes ∧ b.term = a.term) ∨ b.role = .follower)

theorem NodeE.refl (a : NodeSt) : NodeE a a := ⟨Nat.le_refl _, fun _ => rfl, fun h => absurd h (Nat.lt_irrefl _), Or.inl ⟨rfl, rfl, rfl⟩⟩

theorem nodeE_adopt (ns : NodeSt) (t : Nat) : NodeE ns (adoptTerm ns t) := by
  unfold adoptTerm NodeE
  split <;> simp <;> omega

theorem inflight_sublist {m1 m2 : List Msg} (h : m1.Sublist m2) (t c : Nat) :
    (inflight m1 t c).Sublist (inflight m2 t c) := h.filterMap _

theorem mem_inflight {msgs : List Msg} {t c v : Nat} :
    v ∈ inflight msgs t c ↔ Msg.vote t v c ∈ msgs := by
  unfold inflight
  simp only [List.mem_filterMap]
  constructor
  · rintro ⟨m, hm, h⟩
    cases m <;> simp at h
    rename_i t' v' c'
    obtain ⟨⟨rfl, rfl⟩, rfl⟩ := h
    exact hm
  · intro h
    exact ⟨_, h, by simp⟩

/-- Frame lemma: steps that leave the election ghost state alone, do not create vote messages and
change nodes only by `NodeE`. -/
theorem invE_frame {N : Nat} {s s' : State} (h : InvE N s)
    (hv : s'.g.voted = s.g.voted) (hc : s'.g.counted = s.g.counted)
    (hl : s'.g.leaderOf = s.g.leaderOf) (he : s'.g.electors = s.g.electors)
    (hm : ∀ t c, (inflight s'.msgs t c).Sublist (inflight s.msgs t c))
    (hn : ∀ n, NodeE (s.nodes n) (s'.nodes n)) : InvE N s' := by
  have hvm : ∀ t v c, Msg.vote t v c ∈ s'.msgs → Msg.vote t v c ∈ s.msgs := by
    intro t v c hmem
    exact mem_inflight.mp ((hm t c).subset (mem_inflight.mpr hmem))
  constructor
  · intro t n c hvt
    rw [hv] at hvt
    exact Nat.le_trans (h.voted_le t n c hvt) (hn n).1
  · intro n
    rw [hv]
    obtain ⟨h1, h2, h3, _⟩ := hn n
    rcases Nat.lt_or_ge (s.nodes n).term (s'.nodes n).term with hlt | hge
    · rw [h3 hlt]
      cases hvt : s.g.voted (s'.nodes n).term n with
      | none => rfl
      | some c => have := h.voted_le _ _ _ hvt; omega
    · have heq : (s'.nodes n).term = (s.nodes n).term := Nat.le_antisymm hge h1
      rw [h2 heq, heq]; exact h.voted_cur n
  · intro t v c hmem
    rw [hv]; exact h.vote_msg t v c (hvm t v c hmem)
  · intro t c
    rw [hc]
    exact (h.vc_nodup t c).sublist (List.Sublist.append (List.Sublist.refl _) (hm t c))
  · intro t c v hmem
    rw [hc] at hmem; rw [hv]; exact h.vc_voted t c v hmem
  · intro n hr
    obtain ⟨_, _, _, h4⟩ := hn n
    rcases h4 with ⟨hr', hvts, hte⟩ | hf
    · rw [hvts, hte, hc]; exact h.vc_votes n (hr' ▸ hr)
    · rw [hf] at hr; cases hr
  · intro n hr
    obtain ⟨_, _, _, h4⟩ := hn n
    rcases h4 with ⟨hr', _, hte⟩ | hf
    · rw [hte, hv]; exact h.self_vote n (hr' ▸ hr)
    · exact absurd hf hr
  · intro t c v hmem
    rw [hc] at hmem; rw [hv]; exact h.counted_self t c v hmem
  · intro n hr
    obtain ⟨_, _, _, h4⟩ := hn n
    rcases h4 with ⟨hr', _, hte⟩ | hf
    · rw [hte, hl]; exact h.ldr_of n (hr' ▸ hr)
    · rw [hf] at hr; cases hr
  · intro t l hlt
    rw [hl] at hlt; rw [he, hv]; exact h.el_quorum t l hlt
  · intro t l hlt
    rw [hl] at hlt
    exact Nat.le_trans (h.ldr_le t l hlt) (hn l).1

end PSO.Raft

namespace PSO.Raft

theorem nodeE_setNode {s : State} {n : Nat} {ns' : NodeSt} (h : NodeE (s.nodes n) ns') :
    ∀ k, NodeE (s.nodes k) ((setNode s n ns').nodes k) := by
  intro k
  unfold setNode
  by_cases hk : k = n
  · subst hk; simpa using h
  · simp [hk, NodeE.refl]

def Msg.isVote : Msg → Bool
  | .vote .. => true
  | _ => false

theorem inflight_append_nonvote (msgs : List Msg) (m : Msg) (hm : m.isVote = false) (t c : Nat) :
    inflight (msgs ++ [m]) t c = inflight msgs t c := by
  unfold inflight
  cases m <;> simp_all [Msg.isVote, List.filterMap_append]

theorem inflight_erase_sublist (msgs : List Msg) (m : Msg) (t c : Nat) :
    (inflight (msgs.erase m) t c).Sublist (inflight msgs t c) :=
  inflight_sublist (List.erase_sublist) t c

/-- Role/votes/term-preserving change of one node (log, commit, applied, matchIdx only). -/
theorem nodeE_same {a b : NodeSt} (h1 : b.term = a.term) (h2 : b.votedFor = a.votedFor)
    (h3 : b.role = a.role) (h4 : b.votes = a.votes) : NodeE a b :=
  ⟨by omega, fun _ => h2, fun h => by omega, Or.inl ⟨h3, h4, h1⟩⟩

end PSO.Raft

namespace PSO.Raft

theorem nodeE_of_eq {a b c : NodeSt} (h : NodeE a b) (h1 : c.term = b.term) (h2 : c.votedFor = b.votedFor)
    (h3 : c.role = b.role) (h4 : c.votes = b.votes) : NodeE a c := by
  unfold NodeE at *; rw [h1, h2, h3, h4]; exact h

theorem invE_clientAppend {N s s' n cmd} (h : InvE N s) (hs : step N s (.clientAppend n cmd) = some s') : InvE N s' := by
  simp only [step] at hs
  split at hs
  · injection hs with hs; subst hs
    refine invE_frame h rfl rfl rfl rfl ?_ ?_
    · intro t c; exact List.Sublist.refl _
    · exact nodeE_setNode (nodeE_same rfl rfl rfl rfl)
  · cases hs

theorem invE_sendAppend {N s s' n dst prev k c} (h : InvE N s) (hs : step N s (.sendAppend n dst prev k c) = some s') : InvE N s' := by
  simp only [step] at hs
  split at hs
  · injection hs with hs; subst hs
    refine invE_frame h rfl rfl rfl rfl ?_ ?_
    · intro t c; rw [inflight_append_nonvote _ _ rfl]
    · intro k; exact NodeE.refl _
  · cases hs

theorem invE_sendSnapshot {N s s' n dst k c} (h : InvE N s) (hs : step N s (.sendSnapshot n dst k c) = some s') : InvE N s' := by
  simp only [step] at hs
  split at hs
  · injection hs with hs; subst hs
    refine invE_frame h rfl rfl rfl rfl ?_ ?_
    · intro t c; rw [inflight_append_nonvote _ _ rfl]
    · intro k; exact NodeE.refl _
  · cases hs

theorem invE_recvAppend {N s s' n m} (h : InvE N s) (hs : step N s (.recvAppend n m) = some s') : InvE N s' := by
  simp only [step] at hs
  split at hs
  · split at hs
    · split at hs
      · injection hs with hs; subst hs
        refine invE_frame h rfl rfl rfl rfl ?_ ?_
        · intro t c; exact inflight_erase_sublist _ _ _ _
        · intro k; exact NodeE.refl _
      · split at hs
        · injection hs with hs; subst hs
          refine invE_frame h rfl rfl rfl rfl ?_ ?_
          · intro t c; rw [inflight_append_nonvote _ _ rfl]; exact inflight_erase_sublist _ _ _ _
          · exact nodeE_setNode (nodeE_of_eq (nodeE_adopt _ _) rfl rfl rfl rfl)
        · injection hs with hs; subst hs
          refine invE_frame h rfl rfl rfl rfl ?_ ?_
          · intro t c; exact inflight_erase_sublist _ _ _ _
          · exact nodeE_setNode (nodeE_adopt _ _)
    · cases hs
  · cases hs

theorem invE_recvSnapshot {N s s' n m} (h : InvE N s) (hs : step N s (.recvSnapshot n m) = some s') : InvE N s' := by
  simp only [step] at hs
  split at hs
  · split at hs
    · split at hs
      · injection hs with hs; subst hs
        refine invE_frame h rfl rfl rfl rfl ?_ ?_
        · intro t c; exact inflight_erase_sublist _ _ _ _
        · intro k; exact NodeE.refl _
      · injection hs with hs; subst hs
        refine invE_frame h rfl rfl rfl rfl ?_ ?_
        · intro t c; rw [inflight_append_nonvote _ _ rfl]; exact inflight_erase_sublist _ _ _ _
        · apply nodeE_setNode
          split
          · exact nodeE_of_eq (nodeE_adopt _ _) rfl rfl rfl rfl
          · exact nodeE_of_eq (nodeE_adopt _ _) rfl rfl rfl rfl
    · cases hs
  · cases hs

theorem invE_recvAck {N s s' n m} (h : InvE N s) (hs : step N s (.recvAck n m) = some s') : InvE N s' := by
  simp only [step] at hs
  split at hs
  · split at hs
    · split at hs
      · injection hs with hs; subst hs
        refine invE_frame h rfl rfl rfl rfl ?_ ?_
        · intro t c; exact inflight_erase_sublist _ _ _ _
        · exact nodeE_setNode (nodeE_same rfl rfl rfl rfl)
      · injection hs with hs; subst hs
        refine invE_frame h rfl rfl rfl rfl ?_ ?_
        · intro t c; exact inflight_erase_sublist _ _ _ _
        · intro k; exact NodeE.refl _
    · cases hs
  · cases hs

theorem invE_advanceCommit {N s s' n i} (h : InvE N s) (hs : step N s (.advanceCommit n i) = some s') : InvE N s' := by
  simp only [step] at hs
  split at hs
  · injection hs with hs; subst hs
    refine invE_frame h rfl rfl rfl rfl ?_ ?_
    · intro t c; exact List.Sublist.refl _
    · exact nodeE_setNode (nodeE_same rfl rfl rfl rfl)
  · cases hs

theorem invE_apply {N s s' n} (h : InvE N s) (hs : step N s (.apply n) = some s') : InvE N s' := by
  simp only [step] at hs
  split at hs
  · injection hs with hs; subst hs
    refine invE_frame h rfl rfl rfl rfl ?_ ?_
    · intro t c; exact List.Sublist.refl _
    · exact nodeE_setNode (nodeE_same rfl rfl rfl rfl)
  · cases hs

theorem invE_stepDown {N s s' n} (h : InvE N s) (hs : step N s (.stepDown n) = some s') : InvE N s' := by
  simp only [step] at hs
  split at hs
  · injection hs with hs; subst hs
    refine invE_frame h rfl rfl rfl rfl ?_ ?_
    · intro t c; exact List.Sublist.refl _
    · exact nodeE_setNode ⟨Nat.le_refl _, fun _ => rfl, fun h => absurd h (Nat.lt_irrefl _), Or.inr rfl⟩
  · cases hs

theorem invE_observeTerm {N s s' n t} (h : InvE N s) (hs : step N s (.observeTerm n t) = some s') : InvE N s' := by
  simp only [step] at hs
  split at hs
  · injection hs with hs; subst hs
    refine invE_frame h rfl rfl rfl rfl ?_ ?_
    · intro t c; exact List.Sublist.refl _
    · exact nodeE_setNode (nodeE_adopt _ _)
  · cases hs

theorem invE_lose {N s s' m} (h : InvE N s) (hs : step N s (.lose m) = some s') : InvE N s' := by
  simp only [step] at hs
  split at hs
  · injection hs with hs; subst hs
    refine invE_frame h rfl rfl rfl rfl ?_ ?_
    · intro t c; exact inflight_erase_sublist _ _ _ _
    · intro k; exact NodeE.refl _
  · cases hs

end PSO.Raft

namespace PSO.Raft

theorem isMajority_iff {N c : Nat} : isMajority N c = true ↔ N < 2 * c := by
  simp [isMajority]

theorem invE_becomeLeader {N : Nat} {s : State} {n : Nat} {ns : NodeSt} (h : InvE N s)
    (hn : s.nodes n = ns) (hr : ns.role = .candidate) (hmaj : isMajority N ns.votes = true) :
    InvE N (becomeLeader s n ns) := by
  have hsv := h.self_vote n (by rw [hn, hr]; decide)
  rw [hn] at hsv
  obtain ⟨hvn, hnN, htpos⟩ := hsv
  have hvotes := h.vc_votes n (by rw [hn]; exact hr)
  rw [hn] at hvotes
  have hmaj' := isMajority_iff.mp hmaj
  -- the new quorum
  have hQ : IsQuorum N (n :: s.g.counted ns.term n) := by
    refine ⟨?_, ?_, ?_⟩
    · refine List.nodup_cons.mpr ⟨?_, ?_⟩
      · intro hmem; exact (h.vc_voted _ _ _ hmem).2.2 rfl
      · exact (List.nodup_append.mp (h.vc_nodup ns.term n)).1
    · intro q hq
      rcases List.mem_cons.mp hq with rfl | hq
      · exact hnN
      · exact (h.vc_voted _ _ _ hq).2.1
    · simp only [List.length_cons]; omega
  have hQv : ∀ v ∈ n :: s.g.counted ns.term n, s.g.voted ns.term v = some n := by
    intro v hv
    rcases List.mem_cons.mp hv with rfl | hv
    · exact hvn
    · exact (h.vc_voted _ _ _ hv).1
  have hnodes : ∀ k, ((becomeLeader s n ns).nodes k).term = (s.nodes k).term := by
    intro k; simp only [becomeLeader, setNode]; by_cases hk : k = n
    · subst hk; simp [hn]
    · simp [hk]
  constructor
  · intro t k c hv; rw [hnodes]; exact h.voted_le t k c hv
  · intro k
    rw [hnodes]
    simp only [becomeLeader, setNode]
    by_cases hk : k = n
    · subst hk; simp; rw [← hn]; exact h.voted_cur k
    · simp [hk]; exact h.voted_cur k
  · exact h.vote_msg
  · exact h.vc_nodup
  · exact h.vc_voted
  · intro k hrk
    simp only [becomeLeader, setNode] at hrk ⊢
    by_cases hk : k = n
    · subst hk; simp at hrk
    · simp [hk] at hrk ⊢; exact h.vc_votes k hrk
  · intro k hrk
    rw [hnodes]
    by_cases hk : k = n
    · subst hk; rw [hn]; exact ⟨hvn, hnN, htpos⟩
    · simp only [becomeLeader, setNode] at hrk; simp [hk] at hrk; exact h.self_vote k hrk
  · exact h.counted_self
  · intro k hrk
    rw [hnodes]
    simp only [becomeLeader, setNode, upd1] at hrk ⊢
    by_cases hk : k = n
    · subst hk; simp [hn]
    · simp [hk] at hrk
      have hold := h.ldr_of k hrk
      by_cases ht : (s.nodes k).term = ns.term
      · exfalso
        rw [ht] at hold
        obtain ⟨hq, hqv, _, _⟩ := h.el_quorum _ _ hold
        obtain ⟨x, hx1, hx2⟩ := quorum_inter hq hQ
        have h1 := hqv x hx1
        have h2 := hQv x hx2
        rw [h1] at h2; injection h2 with h2; exact hk h2
      · simp [ht]; exact hold
  · intro t l hl
    simp only [becomeLeader, setNode, upd1] at hl ⊢
    by_cases ht : t = ns.term
    · subst ht; simp at hl; subst hl; simp
      exact ⟨hQ, ⟨hQv n (List.mem_cons_self), fun a ha => hQv a (List.mem_cons_of_mem _ ha)⟩, hnN, htpos⟩
    · simp [ht] at hl ⊢; exact h.el_quorum t l hl
  · intro t l hl
    rw [hnodes]
    simp only [becomeLeader, setNode, upd1] at hl
    by_cases ht : t = ns.term
    · subst ht; simp at hl; subst hl; rw [hn]
    · simp [ht] at hl; exact h.ldr_le t l hl

end PSO.Raft

namespace PSO.Raft

theorem inflight_append_nonvotes (msgs l : List Msg) (hl : ∀ m ∈ l, m.isVote = false) (t c : Nat) :
    inflight (msgs ++ l) t c = inflight msgs t c := by
  induction l generalizing msgs with
  | nil => simp
  | cons a l ih =>
    have : msgs ++ a :: l = (msgs ++ [a]) ++ l := by simp
    rw [this, ih _ (fun m hm => hl m (List.mem_cons_of_mem _ hm)),
      inflight_append_nonvote _ _ (hl a List.mem_cons_self)]

theorem invE_timeout_core {N : Nat} {s : State} {n : Nat} {dsts : List Nat} (h : InvE N s)
    (hnN : n < N) (hrole : (s.nodes n).role ≠ .leader) :
    InvE N { (setNode s n { (s.nodes n) with term := (s.nodes n).term + 1, votedFor := some n, votes := 1, role := .candidate }) with
      msgs := s.msgs ++ dsts.map (fun d => Msg.reqVote ((s.nodes n).term + 1) n d ((s.nodes n).log.length - 1) (lastTerm (s.nodes n).log)),
      g := { s.g with voted := upd2 s.g.voted ((s.nodes n).term + 1) n (some n) } } := by
  have hK : ∀ c, s.g.voted ((s.nodes n).term + 1) n ≠ some c := by
    intro c hc; have := h.voted_le _ _ _ hc; omega
  have hvoted : ∀ t v c, s.g.voted t v = some c → upd2 s.g.voted ((s.nodes n).term + 1) n (some n) t v = some c := by
    intro t v c hv
    simp only [upd2]
    split
    · rename_i heq; obtain ⟨rfl, rfl⟩ := heq; exact absurd hv (hK c)
    · exact hv
  have hinf : ∀ t c, inflight (s.msgs ++ dsts.map (fun d => Msg.reqVote ((s.nodes n).term + 1) n d ((s.nodes n).log.length - 1) (lastTerm (s.nodes n).log))) t c = inflight s.msgs t c := by
    intro t c
    apply inflight_append_nonvotes
    intro m hm
    obtain ⟨d, _, rfl⟩ := List.mem_map.mp hm
    rfl
  constructor
  · intro t k c hv
    simp only [upd2] at hv
    simp only [setNode]
    by_cases hk : k = n
    · subst hk
      simp only [if_true]
      split at hv
      · rename_i heq; omega
      · have := h.voted_le _ _ _ hv; omega
    · simp only [hk, if_false]
      split at hv
      · rename_i heq; exact absurd heq.2 hk
      · exact h.voted_le _ _ _ hv
  · intro k
    simp only [setNode, upd2]
    by_cases hk : k = n
    · subst hk; simp
    · simp [hk]; exact h.voted_cur k
  · intro t v c hm
    have hm' : Msg.vote t v c ∈ s.msgs := mem_inflight.mp (by rw [← hinf t c]; exact mem_inflight.mpr hm)
    obtain ⟨h1, h2, h3⟩ := h.vote_msg t v c hm'
    exact ⟨hvoted _ _ _ h1, h2, h3⟩
  · intro t c
    show (s.g.counted t c ++ inflight _ t c).Nodup
    rw [hinf]; exact h.vc_nodup t c
  · intro t c v hm
    obtain ⟨h1, h2, h3⟩ := h.vc_voted t c v hm
    exact ⟨hvoted _ _ _ h1, h2, h3⟩
  · intro k hr
    simp only [setNode] at hr ⊢
    by_cases hk : k = n
    · subst hk
      simp
      cases hc : s.g.counted ((s.nodes k).term + 1) k with
      | nil => rfl
      | cons v l =>
        have := h.counted_self ((s.nodes k).term + 1) k v (by rw [hc]; exact List.mem_cons_self)
        exact absurd this (hK k)
    · simp [hk] at hr ⊢; exact h.vc_votes k hr
  · intro k hr
    simp only [setNode, upd2] at hr ⊢
    by_cases hk : k = n
    · subst hk; simp; exact hnN
    · simp [hk] at hr ⊢
      obtain ⟨h1, h2, h3⟩ := h.self_vote k hr
      exact ⟨h1, h2, h3⟩
  · intro t c v hm
    exact hvoted _ _ _ (h.counted_self t c v hm)
  · intro k hr
    simp only [setNode] at hr ⊢
    by_cases hk : k = n
    · subst hk; simp at hr
    · simp [hk] at hr ⊢; exact h.ldr_of k hr
  · intro t l hl
    obtain ⟨h1, h2, h3, h4⟩ := h.el_quorum t l hl
    exact ⟨h1, fun v hv => hvoted _ _ _ (h2 v hv), h3, h4⟩
  · intro t l hl
    have := h.ldr_le t l hl
    simp only [setNode]
    by_cases hk : l = n
    · subst hk; simp; omega
    · simp [hk]; exact this

end PSO.Raft

namespace PSO.Raft

theorem inflight_perm_erase {msgs : List Msg} {t v c : Nat} (hmem : Msg.vote t v c ∈ msgs) :
    (inflight msgs t c).Perm (v :: inflight (msgs.erase (Msg.vote t v c)) t c) := by
  unfold inflight
  refine (List.Perm.filterMap _ (List.perm_cons_erase hmem)).trans ?_
  simp

theorem invE_timeout {N s s' n dsts} (h : InvE N s) (hs : step N s (.timeout n dsts) = some s') : InvE N s' := by
  simp only [step] at hs
  split at hs
  · rename_i hg
    have hcore := invE_timeout_core (dsts := dsts) h hg.1 hg.2.1
    split at hs
    · rename_i hmaj
      injection hs with hs; subst hs
      exact invE_becomeLeader hcore (by simp [setNode]) rfl hmaj
    · injection hs with hs; subst hs; exact hcore
  · cases hs

theorem invE_recvVote_core {N : Nat} {s : State} {cand voter : Nat} (h : InvE N s) (hnN : cand < N)
    (hmem : Msg.vote (s.nodes cand).term voter cand ∈ s.msgs) (hrole : (s.nodes cand).role = .candidate) :
    InvE N { (setNode s cand { (s.nodes cand) with votes := (s.nodes cand).votes + 1 }) with msgs := s.msgs.erase (Msg.vote (s.nodes cand).term voter cand), g := { s.g with counted := upd2 s.g.counted (s.nodes cand).term cand (voter :: s.g.counted (s.nodes cand).term cand) } } := by
  have hvm := h.vote_msg _ _ _ hmem
  have hsv := h.self_vote cand (by rw [hrole]; decide)
  have hperm : ∀ t c, ((upd2 s.g.counted (s.nodes cand).term cand (voter :: s.g.counted (s.nodes cand).term cand)) t c
      ++ inflight (s.msgs.erase (Msg.vote (s.nodes cand).term voter cand)) t c).Nodup := by
    intro t c
    simp only [upd2]
    split
    · rename_i heq; obtain ⟨rfl, rfl⟩ := heq
      have hnd := h.vc_nodup (s.nodes c).term c
      have := inflight_perm_erase hmem
      have hp2 : (s.g.counted (s.nodes c).term c ++ inflight s.msgs (s.nodes c).term c).Perm
          ((voter :: s.g.counted (s.nodes c).term c) ++ inflight (s.msgs.erase (Msg.vote (s.nodes c).term voter c)) (s.nodes c).term c) := by
        refine (List.Perm.append_left _ this).trans ?_
        simp only [List.cons_append]
        exact List.perm_middle
      exact hp2.nodup_iff.mp hnd
    · exact (h.vc_nodup t c).sublist (List.Sublist.append (List.Sublist.refl _) (inflight_erase_sublist _ _ _ _))
  constructor
  · intro t k c hv
    simp only [setNode]; by_cases hk : k = cand
    · subst hk; simp; exact h.voted_le _ _ _ hv
    · simp [hk]; exact h.voted_le _ _ _ hv
  · intro k
    simp only [setNode]; by_cases hk : k = cand
    · subst hk; simp; exact h.voted_cur k
    · simp [hk]; exact h.voted_cur k
  · intro t v c hm; exact h.vote_msg t v c (List.mem_of_mem_erase hm)
  · exact hperm
  · intro t c v hm
    simp only [upd2] at hm
    split at hm
    · rename_i heq; obtain ⟨rfl, rfl⟩ := heq
      rcases List.mem_cons.mp hm with rfl | hm
      · exact hvm
      · exact h.vc_voted _ _ _ hm
    · exact h.vc_voted _ _ _ hm
  · intro k hr
    simp only [setNode, upd2] at hr ⊢
    by_cases hk : k = cand
    · subst hk; simp; have := h.vc_votes k hrole; omega -- L78
    · simp [hk] at hr ⊢
      exact h.vc_votes k hr
  · intro k hr
    simp only [setNode] at hr ⊢; by_cases hk : k = cand
    · subst hk; simp; exact hsv
    · simp [hk] at hr ⊢; exact h.self_vote k hr
  · intro t c v hm
    simp only [upd2] at hm
    split at hm
    · rename_i heq; obtain ⟨rfl, rfl⟩ := heq; exact hsv.1
    · exact h.counted_self _ _ _ hm
  · intro k hr
    simp only [setNode] at hr ⊢; by_cases hk : k = cand
    · subst hk; simp at hr; simp; exact h.ldr_of k hr
    · simp [hk] at hr ⊢; exact h.ldr_of k hr
  · exact h.el_quorum
  · intro t l hl
    simp only [setNode]; by_cases hk : l = cand
    · subst hk; simp; exact h.ldr_le _ _ hl
    · simp [hk]; exact h.ldr_le _ _ hl

theorem invE_recvVote {N s s' n m} (h : InvE N s) (hs : step N s (.recvVote n m) = some s') : InvE N s' := by
  simp only [step] at hs
  split at hs
  · rename_i t voter cand
    split at hs
    · rename_i hg
      obtain ⟨hnN, rfl, hmem⟩ := hg
      split at hs
      · rename_i hc
        obtain ⟨hrole, rfl⟩ := hc
        -- core state
        have hvm := h.vote_msg _ _ _ hmem
        have hsv := h.self_vote cand (by rw [hrole]; decide)
        have hcore := invE_recvVote_core (voter := voter) h hnN hmem hrole
        split at hs
        · rename_i hmaj
          injection hs with hs; subst hs
          exact invE_becomeLeader hcore (by simp [setNode]) hrole hmaj
        · injection hs with hs; subst hs; exact hcore
      · injection hs with hs; subst hs
        refine invE_frame h rfl rfl rfl rfl ?_ ?_
        · intro t c; exact inflight_erase_sublist _ _ _ _
        · intro k; exact NodeE.refl _
    · cases hs
  · cases hs

end PSO.Raft

namespace PSO.Raft

@[simp] theorem setNode_g (s : State) (n : Nat) (ns : NodeSt) : (setNode s n ns).g = s.g := rfl
@[simp] theorem setNode_msgs (s : State) (n : Nat) (ns : NodeSt) : (setNode s n ns).msgs = s.msgs := rfl
@[simp] theorem setNode_nodes_self (s : State) (n : Nat) (ns : NodeSt) : (setNode s n ns).nodes n = ns := by
  simp [setNode]
theorem setNode_nodes_ne (s : State) {n k : Nat} (ns : NodeSt) (h : k ≠ n) : (setNode s n ns).nodes k = s.nodes k := by
  simp [setNode, h]

theorem inflight_append_vote (msgs : List Msg) (t v c t' c' : Nat) :
    inflight (msgs ++ [Msg.vote t v c]) t' c' = inflight msgs t' c' ++ (if t = t' ∧ c = c' then [v] else []) := by
  unfold inflight
  simp only [List.filterMap_append, List.filterMap_cons, List.filterMap_nil]
  split <;> simp_all

end PSO.Raft

namespace PSO.Raft

theorem invE_recvReqVote {N s s' n m} (h : InvE N s) (hs : step N s (.recvReqVote n m) = some s') : InvE N s' := by
  simp only [step] at hs
  split at hs
  · rename_i t cand dst li lt
    split at hs
    · rename_i hg
      obtain ⟨hnN, rfl, hcN, hcn, hmem⟩ := hg
      -- ns1: the node after adopting a higher term
      have hE1 : NodeE (s.nodes dst) (bumpTerm (s.nodes dst) t) := by
        unfold bumpTerm; split
        · exact ⟨by simp; omega, by simp; omega, by simp, Or.inr rfl⟩
        · exact NodeE.refl _
      split at hs
      · rename_i hc
        obtain ⟨hrole, hle, _, hvf⟩ := hc
        injection hs with hs; subst hs
        -- after the frame step (adopt term, erase the request) the invariant holds
        have h1 : InvE N ⟨(setNode s dst (bumpTerm (s.nodes dst) t)).nodes, s.msgs.erase (Msg.reqVote t cand dst li lt), s.g⟩ := by
          refine invE_frame h rfl rfl rfl rfl ?_ ?_
          · intro t c; exact inflight_erase_sublist _ _ _ _
          · exact nodeE_setNode hE1
        generalize hns1 : (bumpTerm (s.nodes dst) t) = ns1 at *
        have hterm : ns1.term = t := by
          have : t ≤ ns1.term := by
            rw [← hns1]; unfold bumpTerm; split
            · simp
            · omega
          omega
        -- the voter has not voted in term t
        have hnone : s.g.voted t dst = none := by
          have := h1.voted_cur dst
          simp only [setNode_nodes_self] at this
          rw [hterm, hvf] at this; exact this
        have hvoted : ∀ t' v c, s.g.voted t' v = some c → upd2 s.g.voted t dst (some cand) t' v = some c := by
          intro t' v c hv
          simp only [upd2]; split
          · rename_i heq; obtain ⟨rfl, rfl⟩ := heq; rw [hnone] at hv; cases hv
          · exact hv
        have hnotin : ∀ c, dst ∉ s.g.counted t c ++ inflight (s.msgs.erase (Msg.reqVote t cand dst li lt)) t c := by
          intro c hin
          rcases List.mem_append.mp hin with hin | hin
          · have := (h.vc_voted _ _ _ hin).1; rw [hnone] at this; cases this
          · have := (h1.vote_msg _ _ _ (mem_inflight.mp hin)).1
            simp only at this; rw [hnone] at this; cases this
        constructor
        · intro t' k c hv
          simp only [upd2] at hv
          simp only [setNode]
          by_cases hk : k = dst
          · subst hk; simp
            split at hv
            · rename_i heq; omega
            · have := h1.voted_le _ _ _ hv; simpa [setNode] using this
          · simp [hk]
            split at hv
            · rename_i heq; exact absurd heq.2 hk
            · have := h1.voted_le _ _ _ hv; simpa [setNode, hk] using this
        · intro k
          simp only [setNode, upd2]
          by_cases hk : k = dst
          · subst hk; simp [hterm]
          · simp [hk]; exact h.voted_cur k
        · intro t' v c hm
          rcases List.mem_append.mp hm with hm | hm
          · obtain ⟨a, b, c'⟩ := h1.vote_msg _ _ _ hm
            exact ⟨hvoted _ _ _ a, b, c'⟩
          · simp at hm; obtain ⟨rfl, rfl, rfl⟩ := hm
            exact ⟨by simp [upd2], hnN, fun h => hcn h.symm⟩
        · intro t' c
          show (s.g.counted t' c ++ inflight (s.msgs.erase (Msg.reqVote t cand dst li lt) ++ [Msg.vote t dst cand]) t' c).Nodup
          have hold := h1.vc_nodup t' c
          simp only at hold
          rw [inflight_append_vote, ← List.append_assoc]
          split
          · rename_i heq; obtain ⟨rfl, rfl⟩ := heq
            refine List.nodup_append.mpr ⟨hold, by simp, ?_⟩
            intro a ha b hb hab
            simp at hb; subst hb; subst hab
            exact hnotin _ ha
          · simpa using hold
        · intro t' c v hm
          obtain ⟨a, b, c'⟩ := h.vc_voted _ _ _ hm
          exact ⟨hvoted _ _ _ a, b, c'⟩
        · intro k hr
          have := h1.vc_votes k
          simp only [setNode] at hr this ⊢
          by_cases hk : k = dst
          · subst hk; simp at hr this ⊢; exact this hr
          · simp [hk] at hr this ⊢; exact this hr
        · intro k hr
          have := h1.self_vote k
          simp only [setNode, upd2] at hr this ⊢
          by_cases hk : k = dst
          · subst hk; simp at hr this ⊢
            have := (this hr).1
            rw [hterm, hnone] at this; cases this
          · simp [hk] at hr this ⊢; exact this hr
        · intro t' c v hm
          exact hvoted _ _ _ (h.counted_self _ _ _ hm)
        · intro k hr
          have := h1.ldr_of k
          simp only [setNode] at hr this ⊢
          by_cases hk : k = dst
          · subst hk; simp at hr this ⊢; exact this hr
          · simp [hk] at hr this ⊢; exact this hr
        · intro t' l hl
          obtain ⟨a, b, c, d⟩ := h.el_quorum t' l hl
          exact ⟨a, fun v hv => hvoted _ _ _ (b v hv), c, d⟩
        · intro t' l hl
          have := h1.ldr_le t' l hl
          simp only [setNode] at this ⊢
          by_cases hk : l = dst
          · subst hk; simp at this ⊢; exact this
          · simp [hk] at this ⊢; exact this
      · injection hs with hs; subst hs
        refine invE_frame h rfl rfl rfl rfl ?_ ?_
        · intro t c; exact inflight_erase_sublist _ _ _ _
        · exact nodeE_setNode hE1
    · cases hs
  · cases hs

end PSO.Raft

namespace PSO.Raft

theorem invE_restart {N s s' n c a} (h : InvE N s) (hs : step N s (.restart n c a) = some s') : InvE N s' := by
  simp only [step] at hs
  split at hs
  · injection hs with hs; subst hs
    refine invE_frame h rfl rfl rfl rfl ?_ ?_
    · intro t c; exact List.Sublist.refl _
    · exact nodeE_setNode ⟨Nat.le_refl _, fun _ => rfl, fun h => absurd h (Nat.lt_irrefl _), Or.inr rfl⟩
  · cases hs

theorem invE_init (N : Nat) : InvE N init := by
  constructor <;> simp [init, inflight]

theorem invE_step {N : Nat} {s s' : State} {a : Action} (h : InvE N s) (hs : step N s a = some s') :
    InvE N s' := by
  cases a with
  | timeout n dsts => exact invE_timeout h hs
  | recvReqVote n m => exact invE_recvReqVote h hs
  | recvVote n m => exact invE_recvVote h hs
  | clientAppend n cmd => exact invE_clientAppend h hs
  | sendAppend n dst prev k c => exact invE_sendAppend h hs
  | recvAppend n m => exact invE_recvAppend h hs
  | recvAck n m => exact invE_recvAck h hs
  | advanceCommit n i => exact invE_advanceCommit h hs
  | stepDown n => exact invE_stepDown h hs
  | apply n => exact invE_apply h hs
  | observeTerm n t => exact invE_observeTerm h hs
  | sendSnapshot n dst k c => exact invE_sendSnapshot h hs
  | recvSnapshot n m => exact invE_recvSnapshot h hs
  | lose m => exact invE_lose h hs
  | restart n c a => exact invE_restart h hs

theorem invE_reachable {N : Nat} {s : State} (h : Reachable N s) : InvE N s := by
  induction h with
  | init => exact invE_init N
  | step _ hs ih => exact invE_step ih hs

/-- Election safety on states: two leaders of the same term are the same node. -/
theorem leaders_unique {N : Nat} {s : State} (h : InvE N s) {a b : Nat}
    (ha : (s.nodes a).role = .leader) (hb : (s.nodes b).role = .leader)
    (ht : (s.nodes a).term = (s.nodes b).term) : a = b := by
  have h1 := h.ldr_of a ha
  have h2 := h.ldr_of b hb
  rw [ht, h2] at h1
  injection h1 with h1; exact h1.symm

end PSO.Raft
