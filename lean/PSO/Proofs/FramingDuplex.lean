import PSO.Proofs.FramingE2E

/-! Full-duplex use: `send` calls and WRITE events whose socket answers are benign (short writes, zero writes,
EAGAIN — no hard error) interleaved with the READ events do not change what the reader does. -/
namespace PSO.Framing

variable {Msg : Type}

/-- a `socket.send` answer that does not kill the connection -/
def BenignSend : SendRes → Prop
  | .ret k => 0 ≤ k
  | .again => True
  | .err => False

/-- same reader-side view (the read buffer only matters while the connection is not DISCONNECTED) -/
structure Sim (c c' : Conn Msg) : Prop where
  state : c.state = c'.state
  delivered : c.delivered = c'.delivered
  nDisc : c.nDisc = c'.nDisc
  lastRead : c.lastRead = c'.lastRead
  rbuf : c.state ≠ .disconnected → c.rbuf = c'.rbuf

theorem Sim.refl (c : Conn Msg) : Sim c c := ⟨rfl, rfl, rfl, rfl, fun _ => rfl⟩

theorem Sim.trans {a b c : Conn Msg} (h1 : Sim a b) (h2 : Sim b c) : Sim a c :=
  ⟨h1.state.trans h2.state, h1.delivered.trans h2.delivered, h1.nDisc.trans h2.nDisc,
   h1.lastRead.trans h2.lastRead, fun h => (h1.rbuf h).trans (h2.rbuf (by rw [← h1.state]; exact h))⟩

theorem Sim.disconnect {c c' : Conn Msg} (h : Sim c c') : Sim (disconnect c) (disconnect c') :=
  ⟨rfl, h.delivered, by simp [Framing.disconnect, h.state, h.nDisc], h.lastRead, fun _ => rfl⟩

theorem Sim_parseLoop (cfg : Cfg Msg) (c : Conn Msg) :
    ∀ c', Sim c c' → c.state = .connected → Sim (parseLoop cfg c) (parseLoop cfg c') := by
  refine parseLoop_induct cfg
    (fun c r => ∀ c', Sim c c' → c.state = .connected → Sim r (parseLoop cfg c')) ?_ ?_ ?_ ?_ c
  · intro c hp c' h hc
    have hr := h.rbuf (by rw [hc]; decide)
    rw [parseLoop_wait cfg c' (by rw [← hr]; exact hp)]; exact h
  · intro c hp c' h hc
    have hr := h.rbuf (by rw [hc]; decide)
    rw [parseLoop_bad cfg c' (by rw [← hr]; exact hp)]; exact h.disconnect
  · intro c m rest hp hcb c' h hc
    have hr := h.rbuf (by rw [hc]; decide)
    rw [parseLoop_msg cfg c' m rest (by rw [← hr]; exact hp)]
    simp only [hcb, if_true]
    apply Sim.disconnect
    exact ⟨h.state, by simp [h.delivered], h.nDisc, h.lastRead, fun _ => rfl⟩
  · intro c m rest hp hcb ih c' h hc
    have hr := h.rbuf (by rw [hc]; decide)
    rw [parseLoop_msg cfg c' m rest (by rw [← hr]; exact hp)]
    simp only [hcb, Bool.false_eq_true, if_false]
    exact ih _ ⟨h.state, by simp [h.delivered], h.nDisc, h.lastRead, fun _ => rfl⟩ hc

theorem Sim_recvLoop (r : List RecvRes) : ∀ (c c' : Conn Msg), Sim c c' → c.state = .connected →
    Sim (recvLoop c r) (recvLoop c' r) ∧
      ((recvLoop c r).state = .connected ∨ (recvLoop c r).state = .disconnected) := by
  induction r with
  | nil => intro c c' h hc; exact ⟨h, Or.inl hc⟩
  | cons x rest ih =>
    intro c c' h hc
    cases x with
    | again => exact ⟨h, Or.inl hc⟩
    | err => exact ⟨h.disconnect, Or.inr rfl⟩
    | data bs so =>
      unfold recvLoop
      by_cases hso : so = true
      · simp only [hso, if_true]; exact ⟨h.disconnect, Or.inr rfl⟩
      · by_cases hb : bs = []
        · simp only [hso, hb, if_true]; exact ⟨h.disconnect, Or.inr rfl⟩
        · simp only [hso, hb, if_false]
          have hr := h.rbuf (by rw [hc]; decide)
          exact ih _ _ ⟨h.state, h.delivered, h.nDisc, h.lastRead, fun _ => by simp [hr]⟩ hc

theorem Sim_readPart (cfg : Cfg Msg) (now : Nat) (r : List RecvRes) (c c' : Conn Msg) (h : Sim c c')
    (hc : c.state = .connected) : Sim (readPart cfg c now r) (readPart cfg c' now r) := by
  obtain ⟨h1, hs⟩ := Sim_recvLoop r c c' h hc
  have h2 : Sim ({ recvLoop c r with lastRead := now } : Conn Msg) { recvLoop c' r with lastRead := now } :=
    ⟨h1.state, h1.delivered, h1.nDisc, rfl, h1.rbuf⟩
  have e1 : ({ recvLoop c r with lastRead := now } : Conn Msg).state = (recvLoop c r).state := rfl
  have e2 : ({ recvLoop c' r with lastRead := now } : Conn Msg).state = (recvLoop c' r).state := rfl
  unfold readPart
  simp only
  rcases hs with hs | hs
  · rw [if_neg (by rw [e1, hs]; decide), if_neg (by rw [e2, ← h1.state, hs]; decide)]
    exact Sim_parseLoop cfg _ _ h2 hs
  · rw [if_pos (e1.trans hs), if_pos (e2.trans (h1.state ▸ hs))]
    exact h2

/-! ### benign writes leave the reader alone -/

theorem sendLoop_benign (s : List SendRes) : ∀ (c : Conn Msg), (∀ r ∈ s, BenignSend r) →
    Sim (sendLoop c s) c := by
  induction s with
  | nil => intro c _; exact Sim.refl c
  | cons r rest ih =>
    intro c hb
    unfold sendLoop
    split
    · exact Sim.refl c
    · have hr := hb r (by simp)
      cases r with
      | again => exact Sim.refl c
      | err => exact absurd hr (by simp [BenignSend])
      | ret k =>
        simp only [BenignSend] at hr
        have : ¬ k < 0 := by omega
        simp only [this, if_false]
        split
        · exact Sim.refl c
        · exact (ih _ (fun r' hr' => hb r' (by simp [hr']))).trans ⟨rfl, rfl, rfl, rfl, fun _ => rfl⟩

theorem trySend_benign (cfg : Cfg Msg) (c : Conn Msg) (now : Nat) (s : List SendRes)
    (ht : now ≤ c.lastRead + cfg.timeout) (hb : ∀ r ∈ s, BenignSend r) : Sim (trySend cfg c now s) c := by
  have ht' : ¬ now > c.lastRead + cfg.timeout := by omega
  unfold trySend timeoutCheck
  simp only [ht', if_false]
  split
  · exact Sim.refl c
  · have h1 := sendLoop_benign s c hb
    split
    · exact ⟨h1.state, h1.delivered, h1.nDisc, h1.lastRead, h1.rbuf⟩
    · exact h1

theorem writePart_benign (cfg : Cfg Msg) (c : Conn Msg) (now : Nat) (s : List SendRes)
    (ht : now ≤ c.lastRead + cfg.timeout) (hb : ∀ r ∈ s, BenignSend r) : Sim (writePart cfg c now s) c := by
  have h := trySend_benign cfg c now s ht hb
  unfold writePart
  simp only
  split
  · exact h
  · exact ⟨h.state, h.delivered, h.nDisc, h.lastRead, h.rbuf⟩

theorem send_benign (cfg : Cfg Msg) (c : Conn Msg) (m : Msg) (now : Nat) (s : List SendRes)
    (ht : now ≤ c.lastRead + cfg.timeout) (hb : ∀ r ∈ s, BenignSend r) : Sim (send cfg c m now s) c := by
  unfold send
  split
  · exact (trySend_benign cfg { c with wbuf := c.wbuf ++ frame (cfg.enc m) } now s ht hb).trans
      ⟨rfl, rfl, rfl, rfl, fun _ => rfl⟩
  · exact Sim.refl c

/-! ### interleaved event lists -/

/-- what happens on a full-duplex connection without faults: the application sends, the poller reports READ
and/or WRITE; every `socket.send` answer is benign, every `recv` returns data until EAGAIN -/
inductive IoEv (Msg : Type) where
  | send (m : Msg) (now : Nat) (s : List SendRes)
  | io (now : Nat) (rd wr : Bool) (s : List SendRes) (cs : List Bytes)

def IoEv.toEv : IoEv Msg → Ev Msg
  | .send m now s => .send m now s
  | .io now rd wr s cs =>
    .poll { descrOk := true, rd := rd, wr := wr, er := false, now := now, soErr := false, onConnDisc := false,
            sends := s, recvs := cs.map (fun b => RecvRes.data b false) }

def IoEv.Ok : IoEv Msg → Prop
  | .send _ _ s => ∀ r ∈ s, BenignSend r
  | .io _ _ _ s cs => (∀ r ∈ s, BenignSend r) ∧ ∀ b ∈ cs, b ≠ []

/-- the READ events among them -/
def ioReads : List (IoEv Msg) → List (Nat × List Bytes)
  | [] => []
  | .send _ _ _ :: evs => ioReads evs
  | .io now rd _ _ cs :: evs => if rd then (now, cs) :: ioReads evs else ioReads evs

def IoEv.now : IoEv Msg → Nat
  | .send _ now _ => now
  | .io now _ _ _ _ => now

/-- `lastReadTime` after the event (only READ events refresh it) -/
def IoEv.nextRead : IoEv Msg → Nat → Nat
  | .send _ _ _, t0 => t0
  | .io now rd _ _ _, t0 => if rd then now else t0

/-- no read time-out fires (a time-out is checked by every `send` and every poller event) -/
def gapsOkIo (timeout : Nat) : Nat → List (IoEv Msg) → Prop
  | _, [] => True
  | t0, e :: evs => e.now ≤ t0 + timeout ∧ gapsOkIo timeout (e.nextRead t0) evs

theorem gapsOkIo_reads (timeout : Nat) (evs : List (IoEv Msg)) : ∀ t0, gapsOkIo timeout t0 evs →
    gapsOk timeout t0 ((ioReads evs).map (·.1)) := by
  induction evs with
  | nil => intro _ _; trivial
  | cons e evs ih =>
    intro t0 h
    cases e with
    | send m now s => exact ih t0 h.2
    | io now rd wr s cs =>
      cases rd with
      | true => exact ⟨h.1, ih now h.2⟩
      | false => exact ih t0 h.2

theorem trySend_disconnected (cfg : Cfg Msg) (c : Conn Msg) (now : Nat) (s : List SendRes)
    (hc : c.state = .disconnected) : Sim (trySend cfg c now s) c := by
  unfold trySend timeoutCheck
  simp only
  split
  · rw [if_pos (show (disconnect c).state = .disconnected from rfl)]
    exact ⟨hc.symm, rfl, by simp [disconnect, hc], rfl, fun h => absurd rfl h⟩
  · exact Sim.refl c

theorem step_io_disconnected (cfg : Cfg Msg) (c : Conn Msg) (e : IoEv Msg) (hc : c.state = .disconnected) :
    Sim (step cfg c e.toEv) c := by
  cases e with
  | send m now s =>
    simp only [IoEv.toEv, step, send]
    split
    · exact (trySend_disconnected cfg { c with wbuf := c.wbuf ++ frame (cfg.enc m) } now s hc).trans
        ⟨rfl, rfl, rfl, rfl, fun _ => rfl⟩
    · exact Sim.refl c
  | io now rd wr s cs =>
    have : step cfg c (IoEv.io now rd wr s cs).toEv = c := by simp [IoEv.toEv, step, poll, hc]
    rw [this]
    exact Sim.refl c


theorem run_io_disconnected (cfg : Cfg Msg) (evs : List (IoEv Msg)) : ∀ (c : Conn Msg), c.state = .disconnected →
    Sim (run cfg c (evs.map IoEv.toEv)) c := by
  induction evs with
  | nil => intro c _; exact Sim.refl c
  | cons e evs ih =>
    intro c hc
    simp only [run, List.map_cons, List.foldl_cons]
    have h1 := step_io_disconnected cfg c e hc
    exact (ih _ (h1.state.trans hc)).trans h1

theorem step_readEv_readPart (cfg : Cfg Msg) (c : Conn Msg) (now : Nat) (cs : List Bytes)
    (hc : c.state = .connected) (ht : now ≤ c.lastRead + cfg.timeout) :
    step cfg c (readEv now cs) = readPart cfg c now (cs.map fun b => RecvRes.data b false) := by
  have ht' : ¬ now > c.lastRead + cfg.timeout := by omega
  simp [step, readEv, poll, timeoutCheck, ht', hc]

theorem step_io_poll (cfg : Cfg Msg) (c : Conn Msg) (now : Nat) (rd wr : Bool) (s : List SendRes) (cs : List Bytes)
    (hc : c.state = .connected) (ht : now ≤ c.lastRead + cfg.timeout) :
    step cfg c (IoEv.io now rd wr s cs : IoEv Msg).toEv =
      if (if wr then writePart cfg c now s else c).state = .disconnected then
        (if wr then writePart cfg c now s else c)
      else if rd then readPart cfg (if wr then writePart cfg c now s else c) now
                        (cs.map fun b => RecvRes.data b false)
      else (if wr then writePart cfg c now s else c) := by
  have ht' : ¬ now > c.lastRead + cfg.timeout := by omega
  simp [IoEv.toEv, step, poll, timeoutCheck, ht', hc]

/-- one interleaved event against the corresponding READ-only event (or none) -/
theorem step_io_sim (cfg : Cfg Msg) (c c' : Conn Msg) (e : IoEv Msg) (h : Sim c c') (hc : c.state = .connected)
    (hok : e.Ok) (ht : e.now ≤ c.lastRead + cfg.timeout) :
    Sim (step cfg c e.toEv) (run cfg c' ((ioReads [e]).map fun x => readEv x.1 x.2)) ∧
    ((step cfg c e.toEv).state = .connected ∨ (step cfg c e.toEv).state = .disconnected) ∧
    (step cfg c e.toEv).lastRead = e.nextRead c.lastRead := by
  have hc' : c'.state = .connected := h.state ▸ hc
  cases e with
  | send m now s =>
    have h1 := send_benign cfg c m now s ht hok
    refine ⟨?_, Or.inl (h1.state.trans hc), h1.lastRead⟩
    simpa [ioReads, run, IoEv.toEv, step] using h1.trans h
  | io now rd wr s cs =>
    have hw : Sim (if wr then writePart cfg c now s else c) c := by
      cases wr with
      | true => exact writePart_benign cfg c now s ht hok.1
      | false => exact Sim.refl c
    have hws : (if wr then writePart cfg c now s else c).state = .connected := hw.state.trans hc
    rw [step_io_poll cfg c now rd wr s cs hc ht]
    rw [if_neg (by rw [hws]; decide)]
    cases rd with
    | false =>
      simp only [Bool.false_eq_true, if_false]
      refine ⟨?_, Or.inl hws, hw.lastRead⟩
      simpa [ioReads, run] using hw.trans h
    | true =>
      simp only [if_true]
      have hr : run cfg c' ((ioReads [(IoEv.io now true wr s cs : IoEv Msg)]).map fun x => readEv x.1 x.2) =
          readPart cfg c' now (cs.map fun b => RecvRes.data b false) := by
        simp only [ioReads, if_true, List.map_cons, List.map_nil, run, List.foldl_cons, List.foldl_nil]
        exact step_readEv_readPart cfg c' now cs hc' (by rw [← h.lastRead]; exact ht)
      rw [hr]
      have hsim := Sim_readPart cfg now (cs.map fun b => RecvRes.data b false) _ c' (hw.trans h) hws
      refine ⟨hsim, ?_, ?_⟩
      · -- the READ-only side is `parseLoop` of a connected connection
        have hp := step_readEv_readPart cfg c' now cs hc' (by rw [← h.lastRead]; exact ht)
        rw [poll_readEv cfg c' now cs hc' (by rw [← h.lastRead]; exact ht) hok.2] at hp
        rw [hsim.state, ← hp]
        exact parseLoop_state cfg _ (by simpa using hc')
      · have hp := step_readEv_readPart cfg c' now cs hc' (by rw [← h.lastRead]; exact ht)
        rw [poll_readEv cfg c' now cs hc' (by rw [← h.lastRead]; exact ht) hok.2] at hp
        rw [hsim.lastRead, ← hp, parseLoop_lastRead_eq]
        rfl

theorem ioReads_cons (e : IoEv Msg) (evs : List (IoEv Msg)) : ioReads (e :: evs) = ioReads [e] ++ ioReads evs := by
  cases e with
  | send m now s => rfl
  | io now rd wr s cs => cases rd <;> rfl

/-- **Interleaving benign writes does not change the reader.**  The reader-side view (state, delivered sequence,
`onDisconnected` count, clock, read buffer while up) after any interleaved fault-free event list equals the
view after its READ events alone. -/
theorem run_io_sim (cfg : Cfg Msg) (evs : List (IoEv Msg)) : ∀ (c c' : Conn Msg), Sim c c' →
    (c.state = .connected ∨ c.state = .disconnected) → (∀ e ∈ evs, e.Ok) →
    gapsOkIo cfg.timeout c.lastRead evs →
    Sim (run cfg c (evs.map IoEv.toEv)) (run cfg c' ((ioReads evs).map fun x => readEv x.1 x.2)) := by
  induction evs with
  | nil => intro c c' h _ _ _; exact h
  | cons e evs ih =>
    intro c c' h hs hok hg
    rcases hs with hc | hc
    · have hg' := hg
      obtain ⟨h1, h2, h3⟩ := step_io_sim cfg c c' e h hc (hok e (by simp)) hg'.1
      rw [ioReads_cons, List.map_append]
      simp only [run, List.map_cons, List.foldl_cons, List.foldl_append] at h1 ⊢
      exact ih _ _ h1 h2 (fun e' he' => hok e' (by simp [he'])) (by rw [h3]; exact hg'.2)
    · have hc' : c'.state = .disconnected := h.state ▸ hc
      rw [run_readEv_disconnected cfg c' _ hc']
      exact (run_io_disconnected cfg (e :: evs) c hc).trans h


theorem ioReads_ne (evs : List (IoEv Msg)) (hok : ∀ e ∈ evs, e.Ok) :
    ∀ x ∈ ioReads evs, ∀ b ∈ x.2, b ≠ [] := by
  induction evs with
  | nil => intro x hx; simp [ioReads] at hx
  | cons e evs ih =>
    intro x hx
    have ih' := ih (fun e' he' => hok e' (by simp [he']))
    cases e with
    | send m now s => exact ih' x hx
    | io now rd wr s cs =>
      cases rd with
      | false => exact ih' x hx
      | true =>
        simp only [ioReads, if_true, List.mem_cons] at hx
        rcases hx with rfl | hx
        · exact (hok (IoEv.io now true wr s cs) (by simp)).2
        · exact ih' x hx

end PSO.Framing
