import PSO.Model.Serializer

/-! Helper lemmas for the serializer model (C09 byte / transfer / dump-file layer). -/
namespace PSO.Serializer

-- ------------------------------------------------------------------------------------------------
-- file-system level
-- ------------------------------------------------------------------------------------------------

/-- an operation that cannot change the dump file -/
def FsOp.safe : FsOp → Bool
  | .openW f => f ≠ .dump
  | .write f _ => f ≠ .dump
  | .close _ => true
  | .rename s d => d ≠ .dump ∧ s ≠ .dump
  | .remove f => f ≠ .dump

theorem FS.run_nil (fs : FS) : fs.run [] = fs := rfl
theorem FS.run_cons (fs : FS) (op : FsOp) (ops : List FsOp) : fs.run (op :: ops) = (fs.apply op).run ops := rfl
theorem FS.run_append (fs : FS) (a b : List FsOp) : fs.run (a ++ b) = (fs.run a).run b := by
  simp [FS.run, List.foldl_append]

theorem FS.apply_safe_dump (fs : FS) (op : FsOp) (h : op.safe = true) : (fs.apply op).dump = fs.dump := by
  cases op with
  | openW f => cases f <;> simp_all [FsOp.safe, FS.apply, FS.set]
  | write f b =>
    cases f <;> simp_all [FsOp.safe, FS.apply, FS.set, FS.get] <;> split <;> simp_all
  | close f => rfl
  | rename s d =>
    cases s <;> cases d <;> simp_all [FsOp.safe, FS.apply, FS.set, FS.get] <;> split <;> simp_all
  | remove f => cases f <;> simp_all [FsOp.safe, FS.apply, FS.set]

theorem FS.run_safe_dump (fs : FS) (ops : List FsOp) (h : ∀ op ∈ ops, op.safe = true) : (fs.run ops).dump = fs.dump := by
  induction ops generalizing fs with
  | nil => rfl
  | cons op ops ih =>
    rw [FS.run_cons, ih _ (fun o ho => h o (List.mem_cons_of_mem _ ho)), FS.apply_safe_dump _ _ (h op (List.mem_cons_self ..))]

theorem FS.crashAt_append_le (fs : FS) (a b : List FsOp) (k : Nat) (h : k ≤ a.length) :
    fs.crashAt (a ++ b) k = fs.crashAt a k := by
  simp [FS.crashAt, List.take_append_of_le_length h]

theorem FS.crashAt_append_ge (fs : FS) (a b : List FsOp) (k : Nat) (h : a.length ≤ k) :
    fs.crashAt (a ++ b) k = (fs.run a).crashAt b (k - a.length) := by
  simp only [FS.crashAt, List.take_append, FS.run_append, List.take_of_length_le h]

theorem FS.crashAt_safe_dump (fs : FS) (ops : List FsOp) (k : Nat) (h : ∀ op ∈ ops, op.safe = true) :
    (fs.crashAt ops k).dump = fs.dump :=
  FS.run_safe_dump _ _ (fun o ho => h o (List.mem_of_mem_take ho))

/-- writing pieces through an open handle appends their concatenation -/
theorem FS.run_writes_tmp (fs : FS) (c : Bytes) (pieces : List Bytes) (h : fs.tmp = some c) :
    (fs.run (pieces.map (FsOp.write .tmp))).tmp = some (c ++ pieces.flatten) ∧
    (fs.run (pieces.map (FsOp.write .tmp))).dump = fs.dump ∧
    (fs.run (pieces.map (FsOp.write .tmp))).tmp1 = fs.tmp1 := by
  induction pieces generalizing fs c with
  | nil => simp [FS.run, h]
  | cons p ps ih =>
    simp only [List.map_cons, FS.run_cons, List.flatten_cons]
    have h1 : (fs.apply (.write .tmp p)).tmp = some (c ++ p) := by simp [FS.apply, FS.get, FS.set, h]
    have h2 : (fs.apply (.write .tmp p)).dump = fs.dump := by simp [FS.apply, FS.get, FS.set, h]
    have h3 : (fs.apply (.write .tmp p)).tmp1 = fs.tmp1 := by simp [FS.apply, FS.get, FS.set, h]
    have := ih _ _ h1
    simp [this, h2, h3, List.append_assoc]


/-- everything the dump writer does before the rename -/
def dumpPre (pieces : List Bytes) : List FsOp :=
  [.openW .tmp] ++ pieces.map (.write .tmp) ++ [.close .tmp]

/-- everything `serialize` does before the rename -/
def serializePre (pieces : List Bytes) : List FsOp := .remove .tmp :: dumpPre pieces

theorem dumpWriteOps_eq (pieces : List Bytes) (fail : Bool) :
    dumpWriteOps pieces fail = dumpPre pieces ++ (if fail then [] else [.rename .tmp .dump]) := rfl

theorem serializeOps_eq (pieces : List Bytes) (fail : Bool) :
    serializeOps pieces fail = serializePre pieces ++ (if fail then [] else [.rename .tmp .dump]) := rfl

theorem dumpPre_safe (pieces : List Bytes) : ∀ op ∈ dumpPre pieces, op.safe = true := by
  intro op h
  simp only [dumpPre, List.mem_append, List.mem_singleton, List.mem_map] at h
  rcases h with (h | ⟨p, _, h⟩) | h <;> subst h <;> simp [FsOp.safe]

theorem serializePre_safe (pieces : List Bytes) : ∀ op ∈ serializePre pieces, op.safe = true := by
  intro op h
  rcases List.mem_cons.mp h with h | h
  · subst h; simp [FsOp.safe]
  · exact dumpPre_safe pieces op h

theorem FS.run_dumpPre (fs : FS) (pieces : List Bytes) :
    (fs.run (dumpPre pieces)).tmp = some pieces.flatten ∧ (fs.run (dumpPre pieces)).dump = fs.dump
    ∧ (fs.run (dumpPre pieces)).tmp1 = fs.tmp1 := by
  have h0 : (fs.apply (.openW .tmp)).tmp = some [] := by simp [FS.apply, FS.set]
  have := FS.run_writes_tmp (fs.apply (.openW .tmp)) [] pieces h0
  simp only [dumpPre, FS.run_append, List.singleton_append, FS.run_cons, FS.run_nil]
  simpa [FS.apply, FS.set] using this

theorem FS.run_serializePre (fs : FS) (pieces : List Bytes) :
    (fs.run (serializePre pieces)).tmp = some pieces.flatten ∧ (fs.run (serializePre pieces)).dump = fs.dump
    ∧ (fs.run (serializePre pieces)).tmp1 = fs.tmp1 := by
  have := FS.run_dumpPre (fs.apply (.remove .tmp)) pieces
  simpa [serializePre, FS.run_cons, FS.apply, FS.set] using this

theorem FS.run_dumpWriteOps_ok (fs : FS) (pieces : List Bytes) :
    (fs.run (dumpWriteOps pieces false)).dump = some pieces.flatten ∧ (fs.run (dumpWriteOps pieces false)).tmp = none
    ∧ (fs.run (dumpWriteOps pieces false)).tmp1 = fs.tmp1 := by
  obtain ⟨h1, h2, h3⟩ := FS.run_dumpPre fs pieces
  simp [dumpWriteOps_eq, FS.run_append, FS.run_cons, FS.run_nil, FS.apply, FS.get, FS.set, h1, h3]

theorem FS.run_dumpWriteOps_fail (fs : FS) (pieces : List Bytes) :
    (fs.run (dumpWriteOps pieces true)).dump = fs.dump ∧ (fs.run (dumpWriteOps pieces true)).tmp1 = fs.tmp1 := by
  obtain ⟨h1, h2, h3⟩ := FS.run_dumpPre fs pieces
  simp [dumpWriteOps_eq, h2, h3]

theorem FS.run_serializeOps_ok (fs : FS) (pieces : List Bytes) :
    (fs.run (serializeOps pieces false)).dump = some pieces.flatten ∧ (fs.run (serializeOps pieces false)).tmp = none
    ∧ (fs.run (serializeOps pieces false)).tmp1 = fs.tmp1 := by
  obtain ⟨h1, h2, h3⟩ := FS.run_serializePre fs pieces
  simp [serializeOps_eq, FS.run_append, FS.run_cons, FS.run_nil, FS.apply, FS.get, FS.set, h1, h3]

theorem FS.run_serializeOps_fail (fs : FS) (pieces : List Bytes) :
    (fs.run (serializeOps pieces true)).dump = fs.dump ∧ (fs.run (serializeOps pieces true)).tmp1 = fs.tmp1 := by
  obtain ⟨h1, h2, h3⟩ := FS.run_serializePre fs pieces
  simp [serializeOps_eq, h2, h3]

theorem serialize_inline_fs (s : Ser) (id : Nat) (pieces : List Bytes) (fail : Bool)
    (hm : s.mode = .file) (hf : s.fork = false) (hp : s.pid = .idle) :
    (s.serialize id pieces fail).1.fs = s.fs.run (serializeOps pieces fail) := by
  simp [Ser.serialize, hm, hf, hp, serializeOps, FS.run_cons]

/-- crash analysis of the dump write -/
theorem serializeOps_crash (fs : FS) (pieces : List Bytes) (fail : Bool) (k : Nat) :
    (fs.crashAt (serializeOps pieces fail) k).dump = fs.dump ∨
    (fail = false ∧ (serializeOps pieces fail).length ≤ k ∧
      (fs.crashAt (serializeOps pieces fail) k).dump = some pieces.flatten) := by
  rw [serializeOps_eq]
  by_cases hk : k ≤ (serializePre pieces).length
  · left
    rw [FS.crashAt_append_le _ _ _ _ hk]
    exact FS.crashAt_safe_dump _ _ _ (serializePre_safe pieces)
  · have hk' : (serializePre pieces).length ≤ k := by omega
    rw [FS.crashAt_append_ge _ _ _ _ hk']
    obtain ⟨h1, h2, h3⟩ := FS.run_serializePre fs pieces
    generalize fs.run (serializePre pieces) = g at h1 h2 h3
    cases fail with
    | true => left; simpa [FS.crashAt, FS.run] using h2
    | false =>
      right
      refine ⟨rfl, by simp; omega, ?_⟩
      have : k - (serializePre pieces).length = (k - (serializePre pieces).length - 1) + 1 := by omega
      rw [this]
      simp [FS.crashAt, FS.run, FS.apply, FS.get, FS.set, h1]


-- ------------------------------------------------------------------------------------------------
-- transmissions table
-- ------------------------------------------------------------------------------------------------

theorem tlookup_terase_self (n : Nat) (l : List (Nat × Trans)) : tlookup n (terase n l) = none := by
  induction l with
  | nil => rfl
  | cons p r ih =>
    obtain ⟨k, t⟩ := p
    by_cases h : k = n
    · simpa [terase, List.filter_cons, h] using ih
    · simpa [terase, List.filter_cons, h, tlookup] using ih

theorem tlookup_terase_ne (n m : Nat) (l : List (Nat × Trans)) (h : n ≠ m) :
    tlookup n (terase m l) = tlookup n l := by
  induction l with
  | nil => rfl
  | cons p r ih =>
    obtain ⟨k, t⟩ := p
    by_cases hk : k = m
    · subst hk
      have hn : ¬ k = n := by omega
      simp only [terase, List.filter_cons, tlookup, hn]
      simpa [terase] using ih
    · by_cases hn : k = n
      · subst hn; simp [terase, List.filter_cons, hk, tlookup]
      · simp only [terase, List.filter_cons, tlookup, hn]
        simpa [terase, hk, tlookup, hn] using ih

theorem tlookup_tinsert_self (n : Nat) (t : Trans) (l : List (Nat × Trans)) : tlookup n (tinsert n t l) = some t := by
  simp [tinsert, tlookup]

theorem tlookup_tinsert_ne (n m : Nat) (t : Trans) (l : List (Nat × Trans)) (h : n ≠ m) :
    tlookup n (tinsert m t l) = tlookup n l := by
  have : m ≠ n := by omega
  simp [tinsert, tlookup, this, tlookup_terase_ne n m l h]

theorem tlookup_mem {n : Nat} {t : Trans} {l : List (Nat × Trans)} (h : tlookup n l = some t) : (n, t) ∈ l := by
  induction l with
  | nil => simp [tlookup] at h
  | cons p r ih =>
    obtain ⟨k, u⟩ := p
    by_cases hk : k = n
    · simp [tlookup, hk] at h; simp [hk, h]
    · simp [tlookup, hk] at h; exact List.mem_cons_of_mem _ (ih h)

-- ------------------------------------------------------------------------------------------------
-- chunk arithmetic
-- ------------------------------------------------------------------------------------------------

theorem take_add_chunk (D : Bytes) (o c : Nat) :
    D.take o ++ (D.drop o).take c = D.take (o + ((D.drop o).take c).length) := by
  have h1 : ((D.drop o).take c).length = min c (D.length - o) := by simp
  rw [List.take_add]
  congr 1
  rw [h1]
  by_cases h : c ≤ D.length - o
  · rw [Nat.min_eq_left h]
  · have h' : D.length - o ≤ c := by omega
    rw [Nat.min_eq_right h']
    rw [List.take_of_length_le (by simp; omega), List.take_of_length_le (by simp)]

theorem take_eq_self_of_chunk_empty (D : Bytes) (o c : Nat) (hc : 1 ≤ c) (h : (D.drop o).take c = []) :
    D.take o = D := by
  have hl : ((D.drop o).take c).length = 0 := by rw [h]; rfl
  simp at hl
  exact List.take_of_length_le (by omega)

theorem chunkAt_isFirst (c : Nat) (D : Bytes) (o : Nat) : (chunkAt c D o).isFirst = (o == 0) := rfl
theorem chunkAt_isLast (c : Nat) (D : Bytes) (o : Nat) : (chunkAt c D o).isLast = ((D.drop o).take c).isEmpty := rfl
theorem chunkAt_data (c : Nat) (D : Bytes) (o : Nat) : (chunkAt c D o).data = (D.drop o).take c := rfl

-- ------------------------------------------------------------------------------------------------
-- receiver
-- ------------------------------------------------------------------------------------------------

theorem FS.run_receiveOps (fs : FS) (m : Mode) (w : Bool) (c : Chunk) (B : Bytes)
    (hB : if c.isFirst then B = [] else fs.tmp1 = some B) :
    (fs.run (receiveOps m w c)).tmp = fs.tmp ∧ (fs.run (receiveOps m w c)).dump = fs.dump ∧
    (if c.isLast then (match m with
                       | .memory => (fs.run (receiveOps m w c)).snap
                       | .file => (fs.run (receiveOps m w c)).tmp1) = some (B ++ c.data)
     else (fs.run (receiveOps m w c)).tmp1 = some (B ++ c.data)) := by
  obtain ⟨d, f, l⟩ := c
  cases f <;> cases l <;> cases w <;> cases m <;>
    simp_all [receiveOps, FS.run, List.foldl, FS.apply, FS.get, FS.set]

-- ------------------------------------------------------------------------------------------------
-- sender
-- ------------------------------------------------------------------------------------------------

theorem get_busy (s : Ser) (n : Nat) (h : s.pid ≠ .idle) : s.getTransmissionData n = (s, none) := by
  simp [Ser.getTransmissionData, h]

theorem get_nocur (s : Ser) (n : Nat) (h : s.cur n = none) : s.getTransmissionData n = (s, none) := by
  unfold Ser.getTransmissionData; split <;> simp [h]

theorem get_of_cur (s : Ser) (n : Nat) (D : Bytes) (o : Nat) (hp : s.pid = .idle) (hc : s.cur n = some ⟨D, o⟩) :
    s.getTransmissionData n =
      ({ s with trans := if (chunkAt s.batch D o).isLast then terase n s.trans
                         else tinsert n ⟨D, o + (chunkAt s.batch D o).data.length⟩ s.trans },
       some (chunkAt s.batch D o)) := by
  simp [Ser.getTransmissionData, hp, hc]

theorem cur_after_insert (s : Ser) (n : Nat) (t : Trans) :
    ({ s with trans := tinsert n t s.trans } : Ser).cur n = some t := by
  simp [Ser.cur, tlookup_tinsert_self]

/-- the receiver holds exactly the first `o` bytes of `D` in its open incoming buffer (nothing needed at `o = 0`:
the next chunk is a first chunk) -/
def Ser.holdsPrefix (r : Ser) (D : Bytes) (o : Nat) : Prop :=
  o = 0 ∨ (r.incOpen = true ∧ r.fs.tmp1 = some (D.take o))

theorem set_chunkAt (r : Ser) (c : Nat) (hc : 1 ≤ c) (D : Bytes) (o : Nat) (h : r.holdsPrefix D o) :
    let ch := chunkAt c D o
    let r' := (r.setTransmissionData (some ch)).1
    (r.setTransmissionData (some ch)).2 = ch.isLast ∧ r'.fs.tmp = r.fs.tmp ∧ r'.fs.dump = r.fs.dump ∧
    (if ch.isLast then r'.incoming = some D ∧ r'.incOpen = false ∧ r'.incSnap = true
     else r'.holdsPrefix D (o + ch.data.length) ∧ 0 < ch.data.length) := by
  intro ch r'
  have hacc : ¬ ((!ch.isFirst && !r.incOpen) = true) := by
    rcases h with h | ⟨h, _⟩
    · simp [ch, chunkAt_isFirst, h]
    · simp [h]
  have hB : if ch.isFirst then (D.take o) = [] else r.fs.tmp1 = some (D.take o) := by
    by_cases ho : o = 0
    · simp [ch, chunkAt_isFirst, ho]
    · rcases h with h | ⟨_, h⟩
      · exact absurd h ho
      · simp [ch, chunkAt_isFirst, ho, h]
  have hrun := FS.run_receiveOps r.fs r.mode r.incOpen ch (D.take o) hB
  have hset2 : (r.setTransmissionData (some ch)).2 = ch.isLast := by
    simp [Ser.setTransmissionData, hacc]
  have hsetfs : r'.fs = r.fs.run (receiveOps r.mode r.incOpen ch) := by
    simp [r', Ser.setTransmissionData, hacc]
  have hsetinc : r'.incOpen = !ch.isLast := by
    simp [r', Ser.setTransmissionData, hacc]
  have hsetsnap : r'.incSnap = (ch.isLast || r.incSnap) := by
    simp [r', Ser.setTransmissionData, hacc]
  have hsetmode : r'.mode = r.mode := by
    simp [r', Ser.setTransmissionData, hacc]
  refine ⟨hset2, by rw [hsetfs]; exact hrun.1, by rw [hsetfs]; exact hrun.2.1, ?_⟩
  by_cases hl : ch.isLast = true
  · have hemp : (D.drop o).take c = [] := by simpa [ch, chunkAt_isLast] using hl
    have hD := take_eq_self_of_chunk_empty D o c hc hemp
    have h3 := hrun.2.2
    simp only [hl, if_true] at h3 ⊢
    have hdata : ch.data = [] := by simpa [ch, chunkAt_data] using hemp
    rw [hdata, List.append_nil, hD] at h3
    refine ⟨?_, by rw [hsetinc]; simp [hl], by rw [hsetsnap]; simp [hl]⟩
    have hs : r'.incSnap = true := by rw [hsetsnap]; simp [hl]
    simp only [Ser.incoming, hs, if_true, Ser.snapSlot, hsetmode, hsetfs]
    cases hm : r.mode <;> simp only [hm] at h3 ⊢ <;> simpa [FS.get] using h3
  · have hne : (D.drop o).take c ≠ [] := by simpa [ch, chunkAt_isLast] using hl
    have h3 := hrun.2.2
    simp only [hl] at h3 ⊢
    simp only [Bool.false_eq_true, if_false] at h3 ⊢
    refine ⟨Or.inr ⟨by rw [hsetinc]; simp [hl], ?_⟩, ?_⟩
    · rw [hsetfs, h3]
      simp only [ch, chunkAt_data, take_add_chunk]
    · exact List.length_pos_iff.mpr (by simpa [ch, chunkAt_data] using hne)


theorem feed_nil (r : Ser) : r.feed [] = (r, []) := rfl
theorem feed_cons (r : Ser) (c : Option Chunk) (cs : List (Option Chunk)) :
    r.feed (c :: cs) = (((r.setTransmissionData c).1.feed cs).1, (r.setTransmissionData c).2 :: ((r.setTransmissionData c).1.feed cs).2) := rfl

theorem burst_zero (s : Ser) (n : Nat) : s.burst n 0 = (s, []) := rfl
theorem burst_succ (s : Ser) (n b : Nat) :
    s.burst n (b + 1) =
      match s.getTransmissionData n with
      | (s', none) => (s', [none])
      | (s', some ch) => if ch.isLast then (s', [some ch]) else ((Ser.burst s' n b).1, some ch :: (Ser.burst s' n b).2) := rfl

/-- a burst with enough budget, fed to a receiver that holds the matching prefix, installs exactly `D` -/
theorem burst_feed (b : Nat) : ∀ (s r : Ser) (n : Nat) (D : Bytes) (o : Nat),
    s.pid = .idle → 1 ≤ s.batch → s.cur n = some ⟨D, o⟩ → r.holdsPrefix D o → D.length - o + 1 ≤ b →
    ((r.feed (s.burst n b).2).1.incoming = some D ∧ (r.feed (s.burst n b).2).1.incOpen = false ∧
     (r.feed (s.burst n b).2).1.incSnap = true ∧ (r.feed (s.burst n b).2).1.fs.dump = r.fs.dump ∧
     (r.feed (s.burst n b).2).1.fs.tmp = r.fs.tmp ∧
     (∃ k, (r.feed (s.burst n b).2).2 = List.replicate k false ++ [true] ∧ (s.burst n b).2.length = k + 1) ∧
     tlookup n (s.burst n b).1.trans = none ∧ (s.burst n b).1.pid = .idle ∧
     (s.burst n b).1.fs = s.fs ∧ (∀ x ∈ (s.burst n b).2, x ≠ none)) := by
  induction b with
  | zero => intro s r n D o _ _ _ _ hb; omega
  | succ b ih =>
    intro s r n D o hp hc hcur hr hb
    have hget := get_of_cur s n D o hp hcur
    have hset := set_chunkAt r s.batch hc D o hr
    simp only at hset
    by_cases hl : (chunkAt s.batch D o).isLast = true
    · have hget' : s.getTransmissionData n =
          ({ s with trans := terase n s.trans }, some (chunkAt s.batch D o)) := by
        rw [hget]; simp [hl]
      rw [burst_succ, hget']
      dsimp only
      rw [if_pos hl]
      simp only [hl, if_true] at hset
      simp only [feed_cons, feed_nil]
      refine ⟨hset.2.2.2.1, hset.2.2.2.2.1, hset.2.2.2.2.2, hset.2.2.1, hset.2.1, ⟨0, by simp [hset.1, hl]⟩,
        tlookup_terase_self _ _, hp, ?_, by simp⟩
      simp
    · have hget' : s.getTransmissionData n =
          ({ s with trans := tinsert n ⟨D, o + (chunkAt s.batch D o).data.length⟩ s.trans }, some (chunkAt s.batch D o)) := by
        rw [hget]; simp [hl]
      rw [burst_succ, hget']
      dsimp only
      rw [if_neg hl]
      simp only [hl] at hset
      simp only [Bool.false_eq_true, if_false] at hset
      simp only [feed_cons]
      obtain ⟨hret, htmp, hdump, hpre, hpos⟩ := hset
      have hlen : (chunkAt s.batch D o).data.length ≤ D.length - o := by
        simp only [chunkAt_data, List.length_take, List.length_drop]; omega
      have := ih ({ s with trans := tinsert n ⟨D, o + (chunkAt s.batch D o).data.length⟩ s.trans })
        (r.setTransmissionData (some (chunkAt s.batch D o))).1 n D (o + (chunkAt s.batch D o).data.length)
        hp hc (cur_after_insert _ _ _) hpre (by omega)
      obtain ⟨h1, h2, h2a, h2b, h3, ⟨k, hk1, hk2⟩, h5, h6, h7, h8⟩ := this
      refine ⟨h1, h2, h2a, by rw [h2b, hdump], by rw [h3, htmp], ⟨k + 1, ?_, by simp [hk2]⟩, h5, h6, h7, ?_⟩
      · simp [hk1, hret, hl, List.replicate_succ]
      · intro x hx
        rcases List.mem_cons.mp hx with hx | hx
        · simp [hx]
        · exact h8 x hx


-- ------------------------------------------------------------------------------------------------
-- crash points of an incoming transfer
-- ------------------------------------------------------------------------------------------------

theorem set_fs (r : Ser) (c : Option Chunk) : (r.setTransmissionData c).1.fs = r.fs.run (r.acceptOps c) := by
  unfold Ser.setTransmissionData Ser.acceptOps
  cases c with
  | none => rfl
  | some c => simp only; split <;> simp [FS.run_nil]

theorem receiveOps_safe (m : Mode) (w : Bool) (c : Chunk) : ∀ op ∈ receiveOps m w c, op.safe = true := by
  obtain ⟨d, f, l⟩ := c
  cases f <;> cases l <;> cases w <;> cases m <;> simp [receiveOps, FsOp.safe]

theorem acceptOps_safe (r : Ser) (c : Option Chunk) : ∀ op ∈ r.acceptOps c, op.safe = true := by
  unfold Ser.acceptOps
  cases c with
  | none => simp
  | some c =>
    simp only
    split
    · simp
    · exact receiveOps_safe _ _ _

theorem feedOps_nil (r : Ser) : r.feedOps [] = [] := rfl
theorem feedOps_cons (r : Ser) (c : Option Chunk) (cs : List (Option Chunk)) :
    r.feedOps (c :: cs) = r.acceptOps c ++ (r.setTransmissionData c).1.feedOps cs := rfl

theorem feedOps_safe (cs : List (Option Chunk)) : ∀ (r : Ser), ∀ op ∈ r.feedOps cs, op.safe = true := by
  induction cs with
  | nil => intro r op h; simp [feedOps_nil] at h
  | cons c cs ih =>
    intro r op h
    rw [feedOps_cons, List.mem_append] at h
    rcases h with h | h
    · exact acceptOps_safe r c op h
    · exact ih _ op h

/-- no call of `setTransmissionData` ever changes the stored snapshot -/
theorem set_keeps_dump (r : Ser) (c : Option Chunk) : (r.setTransmissionData c).1.fs.dump = r.fs.dump := by
  rw [set_fs]; exact FS.run_safe_dump _ _ (acceptOps_safe r c)

theorem feed_keeps_dump (cs : List (Option Chunk)) : ∀ (r : Ser), (r.feed cs).1.fs.dump = r.fs.dump := by
  induction cs with
  | nil => intro r; rfl
  | cons c cs ih => intro r; rw [feed_cons]; simp only; rw [ih, set_keeps_dump]

/-- a kill anywhere inside an incoming transfer leaves the dump exactly as it was -/
theorem feedOps_crash (cs : List (Option Chunk)) (r : Ser) (k : Nat) :
    (r.fs.crashAt (r.feedOps cs) k).dump = r.fs.dump :=
  FS.crashAt_safe_dump _ _ _ (feedOps_safe cs r)

-- ------------------------------------------------------------------------------------------------
-- finishIncoming
-- ------------------------------------------------------------------------------------------------

theorem finish_none (s : Ser) (accept : Bool) (h : s.incSnap = false) : s.finishIncoming accept = (s, true) := by
  simp [Ser.finishIncoming, h]

theorem finish_reject_dump (s : Ser) : (s.finishIncoming false).1.fs.dump = s.fs.dump := by
  unfold Ser.finishIncoming Ser.finishOps
  by_cases h : s.incSnap = true
  · cases hm : s.mode <;> simp [h, Ser.snapSlot, hm, FS.run, FS.apply, FS.set]
  · simp [h]

theorem finish_accept_dump (s : Ser) (b : Bytes) (hs : s.incSnap = true) (hb : s.incoming = some b) :
    (s.finishIncoming true).1.fs.dump = some b ∧ (s.finishIncoming true).2 = true ∧
    (s.finishIncoming true).1.incSnap = false := by
  have hb' : s.fs.get s.snapSlot = some b := by simpa [Ser.incoming, hs] using hb
  unfold Ser.finishIncoming Ser.finishOps
  simp only [hs, Bool.not_true, Bool.false_eq_true, if_false, if_true, hb']
  cases hm : s.mode <;> simp [Ser.snapSlot, hm, FS.get] at hb' ⊢ <;>
    simp [FS.run, FS.apply, FS.get, FS.set, hb']

/-- crash analysis of the install: one primitive operation -/
theorem finishOps_crash (s : Ser) (accept : Bool) (k : Nat) :
    (s.fs.crashAt (s.finishOps accept) k).dump = s.fs.dump ∨
    (accept = true ∧ s.incSnap = true ∧ (s.fs.crashAt (s.finishOps accept) k).dump = s.incoming ∧ s.incoming ≠ none) := by
  unfold Ser.finishOps
  by_cases hs : s.incSnap = true
  · cases accept
    · left
      cases hm : s.mode <;> cases k <;> simp [hs, Ser.snapSlot, hm, FS.crashAt, FS.run, FS.apply, FS.set]
    · cases k with
      | zero => left; simp [FS.crashAt, FS.run]
      | succ k =>
        cases hg : s.fs.get s.snapSlot with
        | none =>
          left
          simp [hs, FS.crashAt, FS.run, FS.apply, hg]
        | some b =>
          right
          refine ⟨rfl, hs, ?_, by simp [Ser.incoming, hs, hg]⟩
          cases hm : s.mode <;> simp [Ser.snapSlot, hm, FS.get] at hg <;>
            simp [hs, Ser.incoming, Ser.snapSlot, hm, FS.crashAt, FS.run, FS.apply, FS.get, FS.set, hg]
  · left; simp [hs, FS.crashAt, FS.run]

end PSO.Serializer
