import PSO.Model.Queue

/-! Invariant of the wake-up pipe model `PSO.Queue.Wake` (property C19, repair D67). -/
namespace PSO.Queue

structure WInv (w : Wake) : Prop where
  capPos : 0 < w.cap
  /-- (b) the pipe never holds more than its capacity -/
  pipeLe : w.pipe ≤ w.cap
  /-- every put since the pipe was last read has either written its byte or still owes its `notify` -/
  fresh : w.pipe = 0 → w.freshPuts ≤ w.owing
  /-- the pipe is read (in `poll`) before the queue is processed: puts since the processing are fresh -/
  procFresh : w.phase = .poll → w.sinceProc ≤ w.freshPuts
  /-- before `poll` the queue holds only what `_checkCommandsToApply` left itself and what was put since -/
  queueLe : w.phase = .poll → w.queue.items.length ≤ w.leftover + w.sinceProc

theorem winv_init (m cap : Nat) (ro : Nat) (h : 0 < cap) : WInv (Wake.init m cap ro) := by
  refine ⟨h, ?_, ?_, ?_, ?_⟩ <;> simp [Wake.init]

theorem step_cap (w : Wake) (l : WLabel) : (w.step l).1.cap = w.cap ∧ (w.step l).1.chunk = w.chunk := by
  cases l with
  | put v => simp only [Wake.step]; split <;> simp
  | notify acc => simp [Wake.step]
  | process k => simp [Wake.step]
  | poll => simp only [Wake.step]; split <;> simp

theorem winv_step {w : Wake} (hi : WInv w) (l : WLabel) : WInv (w.step l).1 := by
  obtain ⟨h0, h1, h2, h3, h4⟩ := hi
  cases l with
  | put v =>
    simp only [Wake.step]
    cases hq : w.queue.putNowait v with
    | none => exact ⟨h0, h1, h2, h3, h4⟩
    | some q' =>
      have hl : q'.items.length = w.queue.items.length + 1 := by
        unfold FastQueue.putNowait at hq
        split at hq
        · simp at hq
        · simp only [Option.some.injEq] at hq; subst hq; simp
      refine ⟨h0, h1, ?_, ?_, ?_⟩
      · intro hp; have := h2 hp; simp only; omega
      · intro hp; have := h3 hp; simp only; omega
      · intro hp; have := h4 hp; simp only [hl]; omega
  | notify acc =>
    simp only [Wake.step, pipeNotify]
    by_cases hlt : w.pipe = 0 ∨ (acc = true ∧ w.pipe < w.cap)
    · simp only [hlt, ↓reduceIte]
      refine ⟨h0, by dsimp only; omega, by intro hp; dsimp only at hp; omega, h3, h4⟩
    · simp only [hlt, ↓reduceIte]
      have : w.pipe ≠ 0 := fun e => hlt (Or.inl e)
      refine ⟨h0, h1, by intro hp; dsimp only at hp; omega, h3, h4⟩
  | process k =>
    simp only [Wake.step]
    refine ⟨h0, h1, h2, by intro _; simp, by intro _; simp⟩
  | poll =>
    simp only [Wake.step]
    by_cases hp : w.pipe > 0
    · simp only [hp, ↓reduceIte]
      refine ⟨h0, ?_, by intro _; simp, by intro hc; simp at hc, by intro hc; simp at hc⟩
      unfold pipeDrain
      split <;> simp only <;> omega
    · simp only [hp, ↓reduceIte]
      refine ⟨h0, h1, h2, by intro hc; simp at hc, by intro hc; simp at hc⟩

theorem winv_run {w : Wake} (hi : WInv w) (ls : List WLabel) : WInv (w.run ls).1 := by
  induction ls generalizing w with
  | nil => exact hi
  | cons l ls ih => exact ih (winv_step hi l)

/-- (a) no step of the repaired code fails: the outcome of a step is `ok` or (a put on a full queue) `queueFull` -/
theorem step_no_error (w : Wake) (l : WLabel) : (w.step l).2 ≠ .error := by
  cases l with
  | put v => simp only [Wake.step]; split <;> simp
  | notify acc => simp only [Wake.step, pipeNotify]; split <;> simp
  | process k => simp [Wake.step]
  | poll => simp only [Wake.step]; split <;> simp

theorem run_no_error (w : Wake) (ls : List WLabel) : ∀ o ∈ (w.run ls).2, o ≠ .error := by
  induction ls generalizing w with
  | nil => intro o ho; simp [Wake.run] at ho
  | cons l ls ih =>
    intro o ho
    simp only [Wake.run, List.mem_cons] at ho
    rcases ho with rfl | ho
    · exact step_no_error w l
    · exact ih _ o ho

end PSO.Queue
