import PSO.Proofs.BridgeAbs
import PSO.Props.C11
import PSO.Proofs.NodeSendChunks

/-!
# Bridge, part 4: the send loop (`PSO.NodeSend`) produces messages of the shape of `PSO.Raft.Action.sendAppend`

The sender's journal `log` (indices contiguous from `first`; `first > 1` after compaction) is the tail of the
protocol model's ghost-complete log: `modelLog = ghost ++ absLogS log` with `ghost.length + 1 = first`, so the entry
with real index `i` sits at model position `i − 1`.
-/
namespace PSO.Bridge
open PSO
open PSO.NodeSend

def absEntryS (e : NodeSend.Entry) : Raft.Entry := ⟨e.term, e.cmd.id⟩

def absLogS (log : List NodeSend.Entry) : List Raft.Entry := log.map absEntryS

/-- the model message a batch of node `n` for destination `d` stands for (a chunk burst stands for ONE message,
created when its `finish` chunk is sent) -/
def absBatch (term commit n d : Nat) : Batch → Option Raft.Msg
  | .regular (some (pi, pt)) es => some (.append term n d (pi - 1) pt (absLogS es) (commit - 1))
  | .chunked (some (pi, pt)) e => some (.append term n d (pi - 1) pt [absEntryS e] (commit - 1))
  | _ => none

/-- the model message of a wire message (as in `harness/corr/core_trace.py`, `_send_effect`) -/
def absMsgS (n d : Nat) : NodeSend.Msg → Option Raft.Msg
  | .append term commit (some (pi, pt)) es => some (.append term n d (pi - 1) pt (absLogS es) (commit - 1))
  | .chunk .finish _ _ e term commit (some (pi, pt)) => some (.append term n d (pi - 1) pt [absEntryS e] (commit - 1))
  | _ => none

/-! ## every batch is a segment of the log with the right `prev` -/

theorem batch_segments {first : Nat} {log : List NodeSend.Entry} :
    ∀ (bs : List Batch) (p : Nat), PrevOK log first p bs → (∃ rest, log.drop p = bs.flatMap Batch.entries ++ rest) →
      ∀ b ∈ bs, ∃ q pe, p ≤ q ∧ q + b.entries.length ≤ log.length ∧ log[q - 1]? = some pe ∧
        b.prev = some (first + q - 1, pe.term) ∧ b.entries = (log.drop q).take b.entries.length := by
  intro bs
  induction bs with
  | nil => intro p _ _ b hb; cases hb
  | cons b0 bs ih =>
    intro p hprev hrest b hb
    obtain ⟨⟨pe, hpe, hpv⟩, hprev'⟩ := hprev
    obtain ⟨rest, hrest⟩ := hrest
    rw [flatMap_cons', List.append_assoc] at hrest
    have hp : p - 1 < log.length := by
      rcases Nat.lt_or_ge (p - 1) log.length with h1 | h1
      · exact h1
      · rw [List.getElem?_eq_none h1] at hpe; cases hpe
    have hlen : b0.entries.length ≤ log.length - p := by
      have := congrArg List.length hrest
      simp only [List.length_drop, List.length_append] at this
      omega
    rcases List.mem_cons.mp hb with e | e
    · subst e
      refine ⟨p, pe, Nat.le_refl _, ?_, hpe, hpv, ?_⟩
      · by_cases h0 : b.entries.length = 0
        · omega
        · omega
      · rw [hrest, List.take_left]
    · have hrest' : log.drop (p + b0.entries.length) = bs.flatMap Batch.entries ++ rest := by
        rw [← List.drop_drop, hrest, List.drop_left]
      obtain ⟨q, pe', h1, h2, h3, h4, h5⟩ := ih (p + b0.entries.length) hprev' ⟨rest, hrest'⟩ b e
      exact ⟨q, pe', by omega, h2, h3, h4, h5⟩

/-! ## one batch = one enabled `sendAppend` -/

theorem step_sendAppend (N : Nat) (S : Raft.State) (n dst prev k c : Nat)
    (hg : n < N ∧ dst ≠ n ∧ (S.nodes n).role = .leader ∧ prev < (S.nodes n).log.length ∧ c ≤ (S.nodes n).commit) :
    Raft.step N S (.sendAppend n dst prev k c) =
      some { S with msgs := S.msgs ++ [Raft.Msg.append (S.nodes n).term n dst prev (Raft.termAt (S.nodes n).log prev)
        (((S.nodes n).log.drop (prev + 1)).take k) c] } := by
  simp only [Raft.step, if_pos hg]

/-- A batch that is the log segment starting at list position `q ≥ 1` with `prev` = (index, term) of the entry
before it: the protocol model's `sendAppend n d (first + q − 2) |entries| (commit − 1)` is enabled for a leader
whose abstract log is `ghost ++ absLogS log`, and the message it creates is `absBatch` of the batch. -/
theorem batch_sendAppend {first : Nat} {log : List NodeSend.Entry} (ghost : List Raft.Entry)
    (hgh : ghost.length + 1 = first) (N n d term commit : Nat) (S : Raft.State)
    (hn : n < N) (hd : d ≠ n) (hrole : (S.nodes n).role = .leader) (hterm : (S.nodes n).term = term)
    (hlog : (S.nodes n).log = ghost ++ absLogS log) (hcommit : commit - 1 ≤ (S.nodes n).commit)
    (b : Batch) (q : Nat) (pe : NodeSend.Entry) (hq1 : 1 ≤ q) (hq2 : q + b.entries.length ≤ log.length)
    (hpe : log[q - 1]? = some pe) (hpv : b.prev = some (first + q - 1, pe.term))
    (hes : b.entries = (log.drop q).take b.entries.length) :
    ∃ m, absBatch term commit n d b = some m ∧
      Raft.step N S (.sendAppend n d (first + q - 2) b.entries.length (commit - 1)) =
        some { S with msgs := S.msgs ++ [m] } := by
  have hprevlt : first + q - 2 < (S.nodes n).log.length := by
    rw [hlog]; simp only [List.length_append, absLogS, List.length_map]; omega
  have hstep := step_sendAppend N S n d (first + q - 2) b.entries.length (commit - 1) ⟨hn, hd, hrole, hprevlt, hcommit⟩
  have hpos : first + q - 2 = ghost.length + (q - 1) := by omega
  have hget : (ghost ++ absLogS log)[ghost.length + (q - 1)]? = some (absEntryS pe) := by
    rw [List.getElem?_append_right (Nat.le_add_right _ _), Nat.add_sub_cancel_left]
    unfold absLogS
    rw [List.getElem?_map, hpe]
    rfl
  have hterm' : Raft.termAt (S.nodes n).log (first + q - 2) = pe.term := by
    unfold Raft.termAt
    rw [hlog, hpos, hget]
    rfl
  have hseg : ((S.nodes n).log.drop (first + q - 2 + 1)).take b.entries.length = absLogS b.entries := by
    have hq : first + q - 2 + 1 = ghost.length + q := by omega
    rw [hlog, hq, ← List.drop_drop, List.drop_left]
    unfold absLogS
    rw [← List.map_drop, ← List.map_take, ← hes]
  rw [hterm', hseg, hterm] at hstep
  cases b with
  | regular prev es =>
    simp only [Batch.prev] at hpv
    subst hpv
    refine ⟨_, rfl, ?_⟩
    have : first + q - 1 - 1 = first + q - 2 := by omega
    rw [this]
    exact hstep
  | chunked prev e =>
    simp only [Batch.prev] at hpv
    subst hpv
    refine ⟨_, rfl, ?_⟩
    have : first + q - 1 - 1 = first + q - 2 := by omega
    rw [this]
    exact hstep
  | snapshot a => simp [Batch.prev] at hpv

/-! ## wire messages: a regular batch is one message, a chunk burst counts once (at its `finish` chunk) -/

theorem absMsgS_chunk (n d : Nat) (l : Label) (pos len : Nat) (e : NodeSend.Entry) (term commit pi pt : Nat) :
    absMsgS n d (.chunk l pos len e term commit (some (pi, pt))) =
      if l = .finish then some (.append term n d (pi - 1) pt [absEntryS e] (commit - 1)) else none := by
  cases l <;> rfl

theorem absMsgS_chunk_none (n d : Nat) (l : Label) (pos len : Nat) (e : NodeSend.Entry) (term commit : Nat) :
    absMsgS n d (.chunk l pos len e term commit none) = none := by
  cases l <;> rfl

theorem filterMap_range_last {α : Type} (K : Nat) (hK : 1 ≤ K) (φ : Nat → Option α) (m : α)
    (h : ∀ k, k < K → φ k = if k + 1 = K then some m else none) : (List.range K).filterMap φ = [m] := by
  obtain ⟨K', rfl⟩ : ∃ K', K = K' + 1 := ⟨K - 1, by omega⟩
  rw [List.range_succ, List.filterMap_append]
  have h1 : (List.range K').filterMap φ = [] := by
    rw [List.filterMap_eq_nil_iff]
    intro k hk
    rw [List.mem_range] at hk
    rw [h k (by omega), if_neg (by omega)]
  have h2 : [K'].filterMap φ = [m] := by
    simp only [List.filterMap_cons, List.filterMap_nil, h K' (by omega), if_true]
  rw [h1, h2]
  rfl

/-- the wire messages of one batch, read as model messages, are the one message of the batch -/
theorem render_abs (B term commit n d : Nat) (b : Batch) (hB : 1 ≤ B)
    (hck : ∀ p e, b = .chunked p e → B ≤ e.cmd.size ∧ 1 ≤ e.cmd.ovh) :
    (render B term commit b).filterMap (absMsgS n d) = (absBatch term commit n d b).toList := by
  cases b with
  | regular prev es =>
    cases prev with
    | none => rfl
    | some pr => obtain ⟨pi, pt⟩ := pr; rfl
  | snapshot a => rfl
  | chunked prev e =>
    obtain ⟨hsz, hovh⟩ := hck prev e rfl
    have hE : B < e.plen := by unfold Entry.plen; omega
    unfold render chunkSpans chunkSpansWith
    simp only [List.map_map, List.filterMap_map]
    cases prev with
    | none =>
      have : (List.range (nChunks B e.plen)).filterMap
          (absMsgS n d ∘ (fun c : Label × Nat × Nat => Msg.chunk c.1 c.2.1 c.2.2 e term commit none) ∘
            fun k => (labelAt e.plen B (k * B), k * B, min B (e.plen - k * B))) = [] := by
        rw [List.filterMap_eq_nil_iff]
        intro k _
        exact absMsgS_chunk_none n d _ _ _ e term commit
      rw [this]
      rfl
    | some pr =>
      obtain ⟨pi, pt⟩ := pr
      have h2 := nChunks_ge_two hB hE
      rw [filterMap_range_last (nChunks B e.plen) (by omega) _
        (Raft.Msg.append term n d (pi - 1) pt [absEntryS e] (commit - 1))]
      · rfl
      · intro k hk
        simp only [Function.comp]
        rw [absMsgS_chunk]
        by_cases hf : labelAt e.plen B (k * B) = .finish
        · rw [if_pos hf, if_pos ((labelAt_finish_iff hB hE hk).mp hf)]
        · rw [if_neg hf, if_neg (fun e' => hf ((labelAt_finish_iff hB hE hk).mpr e'))]

/-! ## the full send run -/

/-- `render_abs` over a list of batches -/
theorem renders_abs (B term commit n d : Nat) (hB : 1 ≤ B) : ∀ bs : List Batch,
    (∀ b ∈ bs, ∀ p e, b = Batch.chunked p e → B ≤ e.cmd.size ∧ 1 ≤ e.cmd.ovh) →
    (bs.flatMap (render B term commit)).filterMap (absMsgS n d) = bs.filterMap (absBatch term commit n d) := by
  intro bs
  induction bs with
  | nil => intro _; rfl
  | cons b bs ih =>
    intro h
    rw [flatMap_cons', List.filterMap_append, render_abs B term commit n d b hB (h b (List.mem_cons_self ..)),
      ih (fun b' hb' => h b' (List.mem_cons_of_mem _ hb'))]
    cases hb : absBatch term commit n d b <;> simp [hb]

/-- the chunk side condition of `render_abs` from `ChunkOK` and the positive pickle overheads of the log -/
theorem chunk_cond_of {log : List NodeSend.Entry} {B : Nat} (hovh : ∀ e ∈ log, 1 ≤ e.cmd.ovh) {bs : List Batch}
    (hck : ChunkOK B bs) (hsub : ∀ e ∈ bs.flatMap Batch.entries, e ∈ log) :
    ∀ b ∈ bs, ∀ p e, b = Batch.chunked p e → B ≤ e.cmd.size ∧ 1 ≤ e.cmd.ovh := by
  intro b hb pv e he
  subst he
  have h1 := hck _ hb
  simp only at h1
  refine ⟨h1, ?_⟩
  apply hovh
  apply hsub
  rw [List.mem_flatMap]
  exact ⟨_, hb, by simp [Batch.entries]⟩

/-- one batch that `batch_segments` locates in the log is an enabled `sendAppend` -/
theorem located_batch_sendAppend {first : Nat} {log : List NodeSend.Entry} {p : Nat} (hp1 : 1 ≤ p)
    (ghost : List Raft.Entry) (hgh : ghost.length + 1 = first) (N n d term commit : Nat) (hn : n < N) (hd : d ≠ n)
    (bs : List Batch) (hprev : PrevOK log first p bs) (hrest : ∃ rest, log.drop p = bs.flatMap Batch.entries ++ rest) :
    ∀ b ∈ bs, ∀ S : Raft.State, (S.nodes n).role = .leader → (S.nodes n).term = term →
      (S.nodes n).log = ghost ++ absLogS log → commit - 1 ≤ (S.nodes n).commit →
      ∃ prev m, prev < (S.nodes n).log.length ∧ absBatch term commit n d b = some m ∧
        Raft.step N S (.sendAppend n d prev b.entries.length (commit - 1)) = some { S with msgs := S.msgs ++ [m] } := by
  intro b hb S hrole hterm hlog hcommit
  obtain ⟨q, pe, h1, h2, h3, h4, h5⟩ := batch_segments bs p hprev hrest b hb
  have hq1 : 1 ≤ q := by omega
  obtain ⟨m, hm, hstep⟩ := batch_sendAppend ghost hgh N n d term commit S hn hd hrole hterm hlog hcommit b q pe hq1 h2 h3 h4 h5
  refine ⟨first + q - 2, m, ?_, hm, hstep⟩
  rw [hlog]
  simp only [List.length_append, absLogS, List.length_map]
  omega

/-- **Every batch of a pipelined send run is an enabled `sendAppend` of the protocol model.**  Full run (no
wall-clock cut, no disconnect) from `nextIndex = first + p` in the regular region (`C11.WF`) to a destination that
has confirmed the entry before it (`matchIndex = m ≥ first + p − 1`, repair D62), by the leader `n < N` for the
destination `d ≠ n`, whose model state has the same term, the log `ghost ++ absLogS log` and a commit position
`≥ commit − 1`:  for every batch `b` there is a position `prev < |modelLog|` such that
`sendAppend n d prev |b.entries| (commit − 1)` is enabled and adds exactly the message `absBatch b`; the wire
messages of the run, read through `absMsgS`, are these messages in order (a chunk burst = ONE message with one
entry). -/
theorem sendRun_batches_refine {first : Nat} {log : List NodeSend.Entry} {p B : Nat} (wf : C11.WF first log p B)
    (term commit : Nat) (snap : List (Option Bool)) (m : Nat) (hm : first + p - 1 ≤ m)
    (ghost : List Raft.Entry) (hgh : ghost.length + 1 = first)
    (N n d : Nat) (hn : n < N) (hd : d ≠ n) :
    ∃ r, sendOne ⟨B, term, commit, none, some m⟩ log (first + p) snap none = .ok r ∧
      r.msgs.filterMap (absMsgS n d) = r.batches.filterMap (absBatch term commit n d) ∧
      ∀ b ∈ r.batches, ∀ S : Raft.State, (S.nodes n).role = .leader → (S.nodes n).term = term →
        (S.nodes n).log = ghost ++ absLogS log → commit - 1 ≤ (S.nodes n).commit →
        ∃ prev m, prev < (S.nodes n).log.length ∧ absBatch term commit n d b = some m ∧
          Raft.step N S (.sendAppend n d prev b.entries.length (commit - 1)) = some { S with msgs := S.msgs ++ [m] } := by
  obtain ⟨r, hr, _, _, hents, hmsgs, hprev, hck, _⟩ := C11.batches_partition_log wf term commit snap m hm
  refine ⟨r, hr, ?_, ?_⟩
  · rw [hmsgs]
    apply renders_abs B term commit n d wf.batch
    exact chunk_cond_of wf.ovh hck (by rw [hents]; exact fun e he => List.mem_of_mem_drop he)
  · exact located_batch_sendAppend wf.p1 ghost hgh N n d term commit hn hd r.batches hprev ⟨[], by rw [hents]; simp⟩

/-- **A probing run is exactly ONE enabled `sendAppend`** (repair D62).  To a destination that has NOT confirmed the
entry before `nextIndex` (`matchIndex = m < first + p − 1`) a full run goes through exactly one batch `b` — the
first byte-budget batch `takeBytes B (log[p..])`, the empty heartbeat when the destination is up to date — and
`sendAppend n d prev |b.entries| (commit − 1)` is enabled and creates exactly `absBatch b`, which is what the wire
messages of the run read as. -/
theorem sendRun_probe_refine {first : Nat} {log : List NodeSend.Entry} {p B : Nat} (wf : C11.WF first log p B)
    (term commit : Nat) (snap : List (Option Bool)) (m : Nat) (hm : m < first + p - 1)
    (ghost : List Raft.Entry) (hgh : ghost.length + 1 = first)
    (N n d : Nat) (hn : n < N) (hd : d ≠ n) :
    ∃ r b, sendOne ⟨B, term, commit, none, some m⟩ log (first + p) snap none = .ok r ∧
      r.batches = [b] ∧ b.entries = takeBytes B 0 (log.drop p) ∧ r.next = first + p + b.entries.length ∧
      r.msgs.filterMap (absMsgS n d) = (absBatch term commit n d b).toList ∧
      ∀ S : Raft.State, (S.nodes n).role = .leader → (S.nodes n).term = term →
        (S.nodes n).log = ghost ++ absLogS log → commit - 1 ≤ (S.nodes n).commit →
        ∃ prev m', prev < (S.nodes n).log.length ∧ absBatch term commit n d b = some m' ∧
          Raft.step N S (.sendAppend n d prev b.entries.length (commit - 1)) = some { S with msgs := S.msgs ++ [m'] } := by
  obtain ⟨r, b, hr, _, hbs, hents, ⟨rest, hrest⟩, hnext, hmsgs, hprev, hck⟩ :=
    C11.probing_run_first_batch wf term commit snap m hm
  refine ⟨r, b, hr, hbs, hents, hnext, ?_, ?_⟩
  · rw [hmsgs]
    apply render_abs B term commit n d b wf.batch
    have hsub : ∀ e ∈ [b].flatMap Batch.entries, e ∈ log := by
      intro e he
      simp only [List.flatMap_cons, List.flatMap_nil, List.append_nil] at he
      apply List.mem_of_mem_drop (i := p)
      rw [hrest]
      exact List.mem_append_left _ he
    exact chunk_cond_of wf.ovh hck hsub b (List.mem_singleton.mpr rfl)
  · exact located_batch_sendAppend wf.p1 ghost hgh N n d term commit hn hd [b] hprev ⟨rest, by simp [hrest]⟩ b
      (List.mem_singleton.mpr rfl)

end PSO.Bridge
