import PSO.Proofs.RaftProgressElect

/-!
# Progress (C05), part 5: catch-up by entries as a ranking argument

Ranking function: the distance `|log_l| - 1 - prev` between the position the leader tries and its own
end.  An accepted round with batch size `k ≥ 1` leaves the follower passing the consistency check at
`prev + min k distance` (`append_round_next`), so `n` rounds cover a distance of `n * k`
(`catchup_rounds`).
-/
namespace PSO.Raft

theorem batch_length (L : List Entry) (prev k : Nat) :
    ((L.drop (prev + 1)).take k).length = min k (L.length - (prev + 1)) := by
  simp [List.length_take, List.length_drop]

/-- After an accepted round the consistency check passes at the end of the batch: rounds chain. -/
theorem append_round_next {s s' : State} {l f p : Nat} (hfr : s'.nodes l = s.nodes l)
    (hp : p < (s.nodes l).log.length) (hag : Agree (s'.nodes f).log (s.nodes l).log p) :
    p < (s'.nodes f).log.length ∧ termAt (s'.nodes f).log p = termAt (s'.nodes l).log p := by
  refine ⟨hag.symm.length_lt hp, ?_⟩
  rw [hfr]; exact hag.termAt (Nat.le_refl _)

/-- Bounded catch-up: if the consistency check passes at `prev` and the remaining distance to the
leader's end is at most `n * k`, then `n` rounds of batch size `k` (2 actions each, no fault action)
make the follower's log agree with the leader's whole log; the follower's term is the leader's. -/
theorem catchup_rounds {N : Nat} (k : Nat) : ∀ (n : Nat) {s : State} (_ : Reachable N s)
    {l f prev : Nat} (_ : l < N) (_ : f ≠ l) (_ : (s.nodes l).role = .leader)
    (_ : (s.nodes f).term ≤ (s.nodes l).term) (_ : prev < (s.nodes l).log.length)
    (_ : prev < (s.nodes f).log.length)
    (_ : termAt (s.nodes f).log prev = termAt (s.nodes l).log prev)
    (_ : (s.nodes l).log.length - 1 - prev ≤ n * k),
    ∃ as s', NoFault as ∧ as.length = 2 * n ∧ run N s as = some s' ∧
      Agree (s'.nodes f).log (s.nodes l).log ((s.nodes l).log.length - 1) ∧
      s'.nodes l = s.nodes l ∧ (0 < n → (s'.nodes f).term = (s.nodes l).term) := by
  intro n
  induction n with
  | zero =>
    intro s hR l f prev hl hf hr hterm hprev hp hpt hn
    have h := inv_reachable hR
    have hpe : prev = (s.nodes l).log.length - 1 := by omega
    refine ⟨[], s, NoFault.nil, rfl, rfl, ?_, rfl, fun h0 => absurd h0 (Nat.lt_irrefl _)⟩
    have htl := leader_tl h hr
    have := invL_H h.l f (s.nodes l).term prev hp (by rw [htl]; exact hprev) (by rw [htl]; exact hpt)
    rw [htl, hpe] at this; exact this
  | succ n ih =>
    intro s hR l f prev hl hf hr hterm hprev hp hpt hn
    have h := inv_reachable hR
    obtain ⟨s1, hrun1, hag1, _, _, hT1, _, _, _, hfr1, _, _, _⟩ :=
      append_round (k := k) (c := 0) h hl hf hr hterm hprev (Nat.zero_le _) hp hpt
    rw [batch_length] at hag1
    have hl1 : s1.nodes l = s.nodes l := hfr1 l (fun e => hf e.symm)
    have hR1 : Reachable N s1 := reachable_of_run hR hrun1
    have hp' : prev + min k ((s.nodes l).log.length - (prev + 1)) < (s.nodes l).log.length := by omega
    obtain ⟨hq1, hq2⟩ := append_round_next hl1 hp' hag1
    have hdist : (s1.nodes l).log.length - 1 - (prev + min k ((s.nodes l).log.length - (prev + 1))) ≤ n * k := by
      rw [hl1]
      have : (n + 1) * k = n * k + k := by rw [Nat.add_mul]; simp
      omega
    obtain ⟨as2, s2, hnf2, hlen2, hrun2, hag2, hl2, hterm2⟩ :=
      ih hR1 hl hf (by rw [hl1]; exact hr) (by rw [hT1, hl1]) (by rw [hl1]; exact hp') hq1 hq2 hdist
    rw [hl1] at hag2
    refine ⟨_, s2, (noFault_of_forall (by simp [Action.isFault])).append hnf2, ?_, run_append_some hrun1 hrun2,
      hag2, by rw [hl2, hl1], fun _ => ?_⟩
    · simp [hlen2]; omega
    · -- the term was adopted in the first round and the follower's term never decreases below it
      by_cases hn0 : 0 < n
      · rw [hterm2 hn0, hl1]
      · have hn0' : n = 0 := by omega
        subst hn0'
        have : as2 = [] := List.length_eq_zero_iff.mp (by simpa using hlen2)
        subst this
        simp [run] at hrun2
        rw [← hrun2]; exact hT1

end PSO.Raft
