import PSO.Proofs.BridgeVote

/-!
# Bridge, part 3: `next_node_idx` (acknowledgements)

A `next_node_idx` reply with `success = True` and `next_node_idx = x` says "my log matches yours up to index
`x − 1`"; the harness maps it to the model message `ack t flw ldr (x − 2)` (`harness/corr/core_trace.py`,
`_send_effect`: `"idx": msg["next_node_idx"] - 2`): real match index `x − 1` = position `x − 2`.
-/
namespace PSO.Bridge
open PSO
open PSO.NodeTick
open PSO.Raft (Role isMajority)

/-- the effect of the handler's `if mi + 1 < next` update on positions is the model's `if pos < idx` update -/
theorem ack_update_abs (m : AMap) (frm mi next : Nat) (hmi : mget m frm = some mi) :
    absMatch (if mi + 1 < next then mset m frm (next - 1) else m) =
      (if absMatch m frm < next - 2 then Raft.upd1 (absMatch m) frm (next - 2) else absMatch m) := by
  have hD : mgetD m frm = mi := by simp [mgetD, hmi]
  have hA : absMatch m frm = mi - 1 := by simp [absMatch, hD]
  funext j
  by_cases h1 : mi + 1 < next
  · rw [if_pos h1]
    by_cases h2 : absMatch m frm < next - 2
    · rw [if_pos h2]
      unfold Raft.upd1
      by_cases hj : j = frm
      · subst hj
        rw [absMatch_mset_self, if_pos rfl]
        omega
      · rw [absMatch_mset_ne _ _ _ _ hj, if_neg hj]
    · rw [if_neg h2]
      by_cases hj : j = frm
      · subst hj
        rw [absMatch_mset_self, hA]
        rw [hA] at h2
        omega
      · rw [absMatch_mset_ne _ _ _ _ hj]
  · rw [if_neg h1]
    have h2 : ¬ absMatch m frm < next - 2 := by rw [hA]; omega
    rw [if_neg h2]

/-- **`next_node_idx` with `success` refines `recvAck`** (node level, `idx = next − 2`).  Needs the key of `frm`
in the match-index table when the node is leader (`KeysOK`; without it the real handler raises `KeyError`, modelled
as `Output.keyError`, and changes nothing whereas the model would count the acknowledgement). -/
theorem onNextNodeIdx_success_abs (s : NodeState) (n frm t next now : Nat) (reset : Bool)
    (hkey : s.role = .leader → (mget s.matchIndex frm).isSome = true) :
    absNode (onNextNodeIdx s frm (some t) reset next true now).1 = ackNode (absNode s) t frm (next - 2) ∧
    absOuts n (onNextNodeIdx s frm (some t) reset next true now).2 = [] := by
  unfold onNextNodeIdx ackNode
  have e1 : (absNode s).role = s.role := rfl
  have e2 : (absNode s).term = s.term := rfl
  have e3 : (absNode s).matchIdx = absMatch s.matchIndex := rfl
  rw [e1, e2, e3]
  simp only [Option.getD_some, if_true]
  by_cases hg : s.role = .leader ∧ t = s.term
  · rw [if_pos hg]
    have hk := hkey hg.1
    cases hmi : mget s.matchIndex frm with
    | none => rw [hmi] at hk; cases hk
    | some mi =>
      have hup := ack_update_abs s.matchIndex frm mi next hmi
      cases reset
      · simp only [Bool.false_eq_true, if_false, hmi]
        refine ⟨?_, rfl⟩
        by_cases h1 : mi + 1 < next
        · rw [if_pos h1] at hup
          simp only [if_pos h1]
          by_cases h2 : absMatch s.matchIndex frm < next - 2
          · rw [if_pos h2] at hup
            rw [if_pos ⟨hg.1, hg.2, h2⟩]
            apply nodeSt_ext <;> first | rfl | exact hup
          · rw [if_neg h2] at hup
            rw [if_neg (fun g => h2 g.2.2)]
            apply nodeSt_ext <;> first | rfl | exact hup
        · rw [if_neg h1] at hup
          simp only [if_neg h1]
          by_cases h2 : absMatch s.matchIndex frm < next - 2
          · rw [if_pos h2] at hup
            rw [if_pos ⟨hg.1, hg.2, h2⟩]
            apply nodeSt_ext <;> first | rfl | exact hup
          · rw [if_neg (fun g => h2 g.2.2)]
            rfl
      · simp only [if_true, hmi]
        refine ⟨?_, rfl⟩
        by_cases h1 : mi + 1 < next
        · rw [if_pos h1] at hup
          simp only [if_pos h1]
          by_cases h2 : absMatch s.matchIndex frm < next - 2
          · rw [if_pos h2] at hup
            rw [if_pos ⟨hg.1, hg.2, h2⟩]
            apply nodeSt_ext <;> first | rfl | exact hup
          · rw [if_neg h2] at hup
            rw [if_neg (fun g => h2 g.2.2)]
            apply nodeSt_ext <;> first | rfl | exact hup
        · rw [if_neg h1] at hup
          simp only [if_neg h1]
          by_cases h2 : absMatch s.matchIndex frm < next - 2
          · rw [if_pos h2] at hup
            rw [if_pos ⟨hg.1, hg.2, h2⟩]
            apply nodeSt_ext <;> first | rfl | exact hup
          · rw [if_neg (fun g => h2 g.2.2)]
            rfl
  · rw [if_neg hg, if_neg (fun g => hg ⟨g.1, g.2.1⟩)]
    exact ⟨rfl, rfl⟩

/-- A reply of another term is ignored (the model's `recvAck` ignores `t ≠ term` as well: `ackNode` is the identity). -/
theorem onNextNodeIdx_other_term (s : NodeState) (frm t next now : Nat) (reset success : Bool) (ht : t ≠ s.term) :
    onNextNodeIdx s frm (some t) reset next success now = (s, []) ∧ ackNode (absNode s) t frm (next - 2) = absNode s := by
  unfold onNextNodeIdx ackNode
  simp only [Option.getD_some]
  rw [if_neg (fun g => ht g.2), if_neg (fun g => ht g.2.1)]
  exact ⟨rfl, rfl⟩

/-- A reply with `success = False` changes nothing the protocol model sees (`nextIndex`, `lastResponse` only);
the harness maps it to no action. -/
theorem onNextNodeIdx_fail_abs (s : NodeState) (n frm next now : Nat) (term : Option Nat) (reset : Bool) :
    absNode (onNextNodeIdx s frm term reset next false now).1 = absNode s ∧
    absOuts n (onNextNodeIdx s frm term reset next false now).2 = [] := by
  unfold onNextNodeIdx
  split
  · cases reset <;> exact ⟨rfl, rfl⟩
  · exact ⟨rfl, rfl⟩

end PSO.Bridge
