import PSO.Proofs.NodeSendMembership

/-! # Node-local callback bookkeeping (C02): at most once, failure paths append nothing,
`commandsWaitingCommit` registered iff appended.  Referenced from `PSO/Props/C02.lean`. -/
namespace PSO.NodeSend

/-! ## vocabulary -/

def Out.cbId : Out → Option Nat
  | .callback id _ => some id
  | _ => none

/-- callback ids fired by a list of outputs -/
def cbIds (o : List Out) : List Nat := o.filterMap Out.cbId

def locId : Cb → List Nat
  | .loc id => [id]
  | _ => []

def queueIds (q : List (Cmd × Cb)) : List Nat := q.flatMap fun p => locId p.2
def replyIds (s : Node) : List Nat := s.waitReply.map (·.2)
def commitIds (s : Node) : List Nat := s.waitCommit.map (·.2.2)

/-- a definite failure reported to a local callback or to the requesting node -/
def Out.isFailure : Out → Bool
  | .callback _ r => r = .queueFull || r = .missingLeader || r = .notLeader || r = .requestDenied
  | .send _ (.response _ (.error r)) => r = .queueFull || r = .missingLeader || r = .notLeader || r = .requestDenied
  | _ => false

/-- the command is forwarded to the leader -/
def Out.isForward : Out → Bool
  | .send _ (.applyCommand _ _) => true
  | _ => false

theorem cbIds_append (a b : List Out) : cbIds (a ++ b) = cbIds a ++ cbIds b := by simp [cbIds]

theorem cbIds_of_sends {o : List Out} (h : ∀ x ∈ o, x.isSend = true) : cbIds o = [] := by
  induction o with
  | nil => rfl
  | cons x t ih =>
    have hx := h x (by simp)
    have := ih (fun y hy => h y (by simp [hy]))
    cases x <;> simp [Out.isSend] at hx
    simp [cbIds, Out.cbId] at this ⊢
    exact this

/-! ## frames -/

theorem doChange_out {s s' : Node} {k : Kind} {r ch : Bool} {o : List Out} (h : doChange s k r = .ok (s', ch, o)) :
    cbIds o = [] ∧ (∀ x ∈ o, x.isFailure = false ∧ x.isForward = false) := by
  unfold doChange at h
  split at h
  · cases h; simp [cbIds]
  · simp only [] at h
    split at h
    · cases h; simp [cbIds]
    · split at h
      · split at h
        · simp at h
        · cases h; simp [cbIds, Out.cbId, Out.isFailure, Out.isForward]
      · cases h; simp [cbIds, Out.cbId, Out.isFailure, Out.isForward]

theorem changeCluster_frame {s s' : Node} {k : Kind} {acc : Bool} {o : List Out}
    (h : changeCluster s k = .ok (s', acc, o)) :
    s'.waitCommit = s.waitCommit ∧ s'.waitReply = s.waitReply ∧ s'.localCounter = s.localCounter ∧ cbIds o = [] ∧
    (∀ x ∈ o, x.isFailure = false ∧ x.isForward = false) := by
  unfold changeCluster at h
  split at h
  · simp at h
  · split at h
    · cases h; simp [cbIds]
    · simp only [] at h
      split at h
      · cases h; simp [cbIds]
      · have hs := doChange_spec h
        have ho := doChange_out h
        exact ⟨hs.2.2.2.2.2.2.2.2.2.2.1, hs.2.2.2.2.2.2.2.2.2.2.2.1, hs.2.2.2.2.2.2.2.2.2.2.2.2.1, ho.1, ho.2⟩

theorem gateOf_frame {cfg : Conf} {s s' : Node} {cmd : Cmd} {acc : Bool} {o : List Out}
    (h : gateOf cfg s cmd = .ok (s', acc, o)) :
    s'.waitCommit = s.waitCommit ∧ s'.waitReply = s.waitReply ∧ s'.localCounter = s.localCounter ∧ s'.log = s.log ∧
    cbIds o = [] ∧ (∀ x ∈ o, x.isFailure = false ∧ x.isForward = false) := by
  unfold gateOf at h
  split at h
  · cases h; simp [cbIds]
  · have hf := changeCluster_frame h
    have hs := changeCluster_spec h
    exact ⟨hf.1, hf.2.1, hf.2.2.1, hs.1, hf.2.2.2⟩

/-! ## the leader branch -/

/-- the `commandsWaitingCommit` registration of an accepted command -/
def wcNew (cb : Cb) (idx term : Nat) : List (Nat × Nat × Nat) :=
  match cb with
  | .loc id => [(idx, term, id)]
  | _ => []

/-- everything the C02-local theorems need to know about one dispatched queue item on a leader -/
theorem leaderDispatch_spec {cfg : Conf} {s s' : Node} {cmd : Cmd} {cb : Cb} {o : List Out} {br : Branch}
    (h : leaderDispatch cfg s cmd cb = .ok (s', o, br)) :
    s'.waitReply = s.waitReply ∧ s'.localCounter = s.localCounter ∧
    ((br = .denied ∧ s'.log = s.log ∧ s'.waitCommit = s.waitCommit ∧ cbIds o = locId cb ∧
        (∀ x ∈ o, x.isForward = false)) ∨
     (br ≠ .denied ∧ ∃ last, lastIdx? s.log = some last ∧ s'.log = s.log ++ [⟨cmd, last + 1, s.term⟩] ∧
        s'.waitCommit = s.waitCommit ++ wcNew cb (last + 1) s.term ∧
        cbIds o = [] ∧ (∀ x ∈ o, x.isFailure = false ∧ x.isForward = false))) := by
  unfold leaderDispatch at h
  split at h
  · simp at h
  · rename_i last hl
    split at h
    · simp at h
    · -- accepted
      rename_i s1 o1 hg
      have hf := gateOf_frame hg
      have hla := leaderAccept_spec s1 cmd cb (last + 1) s.term (isRequest cfg cmd)
      simp only [] at hla
      generalize hres : leaderAccept s1 cmd cb (last + 1) s.term (isRequest cfg cmd) = res at h hla
      obtain ⟨s3, o3, br3⟩ := res
      simp only [] at h hla
      obtain ⟨hlog, _, _, _, _, _, hwr, hwc0, hbr, hsend⟩ := hla
      have hwc : s3.waitCommit = s1.waitCommit ++ wcNew cb (last + 1) s.term := by
        rw [hwc0]; cases cb <;> rfl
      clear hwc0
      have ho3 : cbIds o3 = [] := cbIds_of_sends hsend
      have ho3f : ∀ x ∈ o3, x.isFailure = false ∧ x.isForward = false := by
        unfold leaderAccept at hres
        cases cb <;> simp at hres <;> obtain ⟨_, h2, _⟩ := hres <;> subst h2 <;> simp [Out.isFailure, Out.isForward]
      have hlc3 : s3.localCounter = s1.localCounter := by
        unfold leaderAccept at hres
        cases cb <;> simp at hres <;> obtain ⟨h1, _, _⟩ := hres <;> subst h1 <;> rfl
      split at h
      · simp at h
        obtain ⟨h1, h2, h3⟩ := h
        subst h1; subst h2; subst h3
        refine ⟨by rw [hwr, hf.2.1], by rw [hlc3, hf.2.2.1], Or.inr ⟨hbr, last, hl, by rw [hlog, hf.2.2.2.1], by rw [hwc, hf.1], ?_, ?_⟩⟩
        · simp [cbIds_append, hf.2.2.2.2.1, ho3]
        · intro x hx
          rcases List.mem_append.mp hx with hx | hx
          · exact hf.2.2.2.2.2 x hx
          · exact ho3f x hx
      · split at h
        · simp at h
        · rename_i s4 o4 hsa
          simp at h
          obtain ⟨h1, h2, h3⟩ := h
          subst h1; subst h2; subst h3
          have hfr := sendAll_frame hsa
          have hc := hfr.1
          simp only [SameCore] at hc
          refine ⟨by rw [hc.2.2.2.2.2.2.2.2.2.2.1, hwr, hf.2.1], by rw [hc.2.2.2.2.2.2.2.2.2.2.2.1, hlc3, hf.2.2.1],
                  Or.inr ⟨hbr, last, hl, by rw [hc.1, hlog, hf.2.2.2.1], by rw [hc.2.2.2.2.2.2.2.2.2.1, hwc, hf.1], ?_, ?_⟩⟩
          · simp [cbIds_append, hf.2.2.2.2.1, ho3, cbIds_of_sends hfr.2]
          · intro x hx
            simp only [List.mem_append] at hx
            rcases hx with hx | hx | hx
            · exact hf.2.2.2.2.2 x hx
            · exact ho3f x hx
            · unfold sendAll at hsa
              split at hsa
              · simp at hsa
              · rename_i s5 o5 b5 hloop
                simp at hsa
                obtain ⟨_, ho⟩ := hsa
                subst ho
                have hk := sendAllLoop_kind _ _ _ hloop x hx
                cases x with
                | send d m => cases m <;> simp [Out.isAppendSend, Msg.isAppendKind] at hk <;> simp [Out.isFailure, Out.isForward]
                | callback _ _ => simp [Out.isAppendSend] at hk
                | addNode _ => simp [Out.isAppendSend] at hk
                | dropNode _ => simp [Out.isAppendSend] at hk
    · -- denied
      rename_i s1 o1 hg
      have hf := gateOf_frame hg
      simp at h
      obtain ⟨h1, h2, h3⟩ := h
      subst h1; subst h2; subst h3
      refine ⟨hf.2.1, hf.2.2.1, Or.inl ⟨rfl, hf.2.2.2.1, hf.1, ?_, ?_⟩⟩
      · rw [cbIds_append, hf.2.2.2.2.1]
        cases cb <;> simp [deniedOut, cbIds, Out.cbId, locId]
      · intro x hx
        rcases List.mem_append.mp hx with hx | hx
        · exact (hf.2.2.2.2.2 x hx).2
        · cases cb <;> simp [deniedOut] at hx <;> subst hx <;> simp [Out.isForward]

/-! ## counting helpers -/

theorem count_del_le (m : Map) (k id : Nat) : List.count id ((m.del k).map (·.2)) ≤ List.count id (m.map (·.2)) := by
  unfold Map.del
  exact (List.Sublist.map _ List.filter_sublist).count_le id

theorem count_get_del {m : Map} {k v : Nat} (h : m.get? k = some v) (id : Nat) :
    List.count id [v] + List.count id ((m.del k).map (·.2)) ≤ List.count id (m.map (·.2)) := by
  induction m with
  | nil => simp [Map.get?] at h
  | cons p t ih =>
    unfold Map.get? at h
    simp only [List.find?_cons] at h
    by_cases hk : (p.1 == k) = true
    · simp only [hk] at h
      simp at h
      subst h
      have hk' : p.1 = k := by simpa using hk
      have hd : Map.del (p :: t) k = Map.del t k := by
        unfold Map.del
        simp [List.filter_cons, hk']
      rw [hd]
      have := count_del_le t k id
      simp only [List.map_cons, List.count_cons, List.count_nil] at this ⊢
      omega
    · simp only [hk] at h
      have hk' : ¬ p.1 = k := by simpa using hk
      have hd : Map.del (p :: t) k = p :: Map.del t k := by
        unfold Map.del
        simp [List.filter_cons, hk']
      rw [hd]
      have := ih (by unfold Map.get?; exact h)
      simp only [List.map_cons, List.count_cons, List.count_nil] at this ⊢
      omega

theorem count_insertSorted (p : Nat × Nat) (m : Map) (id : Nat) :
    List.count id ((insertSorted p m).map (·.2)) = List.count id (p.2 :: m.map (·.2)) := by
  induction m with
  | nil => simp [insertSorted]
  | cons q t ih =>
    unfold insertSorted
    split
    · simp
    · simp only [List.map_cons, List.count_cons] at ih ⊢
      omega

theorem count_sortByKey (m : Map) (id : Nat) :
    List.count id ((sortByKey m).map (·.2)) = List.count id (m.map (·.2)) := by
  induction m with
  | nil => simp [sortByKey]
  | cons q t ih =>
    have : sortByKey (q :: t) = insertSorted q (sortByKey t) := by simp [sortByKey]
    rw [this, count_insertSorted]
    simp only [List.map_cons, List.count_cons] at ih ⊢
    omega

/-! ## the follower branches -/

theorem followerDispatch_spec (s : Node) (cmd : Cmd) (cb : Cb) :
    let r := followerDispatch s cmd cb
    r.1.log = s.log ∧ r.1.waitCommit = s.waitCommit ∧
    (r.2.2 = .forward ∨ r.2.2 = .notLeader ∨ r.2.2 = .missingLeader) ∧
    (r.2.2 = .forward → (∀ x ∈ r.2.1, x.isFailure = false)) ∧
    (r.2.2 ≠ .forward → (∀ x ∈ r.2.1, x.isForward = false) ∧ r.1.waitReply = s.waitReply) ∧
    (∀ id, List.count id (cbIds r.2.1) + List.count id (replyIds r.1) ≤ List.count id (locId cb) + List.count id (replyIds s)) := by
  unfold followerDispatch
  cases hl : s.leader with
  | none =>
    cases cb <;> simp [errCallback, Out.isForward, cbIds, List.filterMap_cons, Out.cbId, locId, replyIds]
  | some l =>
    cases cb with
    | none => simp [Out.isFailure, cbIds, List.filterMap_cons, Out.cbId, locId, replyIds]
    | remote n r => simp [Out.isForward, cbIds, List.filterMap_cons, Out.cbId, locId, replyIds]
    | loc id =>
      refine ⟨rfl, rfl, Or.inl rfl, by simp [Out.isFailure], by simp, ?_⟩
      intro i
      have := count_del_le s.waitReply (s.localCounter + 1) i
      simp only [cbIds, locId, replyIds, Map.put, List.map_cons, List.count_cons, List.filterMap_cons, List.filterMap_nil,
        List.count_nil, Out.cbId] at this ⊢
      omega

/-! ## C02-local theorems -/

/-- **Definite failures are produced only on paths where nothing was appended.**  If one dispatched queue item
produces QUEUE_FULL / MISSING_LEADER / NOT_LEADER / REQUEST_DENIED (to a local callback or to the requesting
node), the log and both waiting tables are unchanged and nothing is forwarded to the leader. -/
theorem failure_paths_append_nothing {cfg : Conf} {s s' : Node} {cmd : Cmd} {cb : Cb} {o : List Out} {br : Branch}
    (h : dispatchOne cfg s cmd cb = .ok (s', o, br)) (hf : ∃ x ∈ o, x.isFailure = true) :
    s'.log = s.log ∧ s'.waitCommit = s.waitCommit ∧ s'.waitReply = s.waitReply ∧ ∀ x ∈ o, x.isForward = false := by
  unfold dispatchOne at h
  split at h
  · have hs := leaderDispatch_spec h
    rcases hs.2.2 with ⟨_, hlog, hwc, _, hfw⟩ | ⟨_, _, _, _, _, _, hnf⟩
    · exact ⟨hlog, hwc, hs.1, hfw⟩
    · obtain ⟨x, hx, hxf⟩ := hf
      rw [(hnf x hx).1] at hxf; cases hxf
  · simp at h
    have hs := followerDispatch_spec s cmd cb
    simp only [h] at hs
    obtain ⟨hlog, hwc, hbr, hfwd, hnfwd, _⟩ := hs
    by_cases hb : br = .forward
    · obtain ⟨x, hx, hxf⟩ := hf
      rw [hfwd hb x hx] at hxf; cases hxf
    · exact ⟨hlog, hwc, (hnfwd hb).2, (hnfwd hb).1⟩

/-- the same for `_applyCommand` (QUEUE_FULL): nothing is queued, the node state is unchanged -/
theorem queue_full_changes_nothing (cfg : Conf) (s : Node) (cmd : Cmd) (cb : Cb)
    (hf : ∃ x ∈ (submit cfg s cmd cb).2, x.isFailure = true) : (submit cfg s cmd cb).1 = s := by
  unfold submit at hf ⊢
  split
  · rfl
  · rename_i hq
    simp [hq] at hf

/-- **`commandsWaitingCommit` is extended iff the command was appended** (and then with exactly the index and
term of the new entry, for a local callback). -/
theorem waiting_commit_registered_iff_appended {cfg : Conf} {s s' : Node} {cmd : Cmd} {cb : Cb} {o : List Out}
    {br : Branch} (h : dispatchOne cfg s cmd cb = .ok (s', o, br)) :
    (s'.log = s.log ∧ s'.waitCommit = s.waitCommit) ∨
    (∃ last, lastIdx? s.log = some last ∧ s'.log = s.log ++ [⟨cmd, last + 1, s.term⟩] ∧
      s'.waitCommit = s.waitCommit ++ wcNew cb (last + 1) s.term) := by
  unfold dispatchOne at h
  split at h
  · have hs := leaderDispatch_spec h
    rcases hs.2.2 with ⟨_, hlog, hwc, _, _⟩ | ⟨_, last, hl, hlog, hwc, _, _⟩
    · exact Or.inl ⟨hlog, hwc⟩
    · exact Or.inr ⟨last, hl, hlog, hwc⟩
  · simp at h
    have hs := followerDispatch_spec s cmd cb
    simp only [h] at hs
    exact Or.inl ⟨hs.1, hs.2.1⟩

/-- callback ids held by the two waiting tables -/
def heldIds (s : Node) : List Nat := replyIds s ++ commitIds s

/-- **One dispatched item: every callback id is conserved or consumed, never duplicated.** -/
theorem dispatchOne_count {cfg : Conf} {s s' : Node} {cmd : Cmd} {cb : Cb} {o : List Out} {br : Branch}
    (h : dispatchOne cfg s cmd cb = .ok (s', o, br)) (id : Nat) :
    List.count id (cbIds o) + List.count id (heldIds s') ≤ List.count id (locId cb) + List.count id (heldIds s) := by
  unfold dispatchOne at h
  split at h
  · have hs := leaderDispatch_spec h
    rcases hs.2.2 with ⟨_, _, hwc, hcb, _⟩ | ⟨_, last, _, _, hwc, hcb, _⟩
    · simp only [heldIds, replyIds, commitIds, hs.1, hwc, hcb, List.count_append]
      omega
    · simp only [heldIds, replyIds, commitIds, hs.1, hwc, hcb, List.count_append, List.map_append]
      cases cb <;> simp [wcNew, locId, List.count_cons] <;> omega
  · simp at h
    have hs := followerDispatch_spec s cmd cb
    simp only [h] at hs
    have := hs.2.2.2.2.2 id
    simp only [heldIds, commitIds, hs.2.1, List.count_append]
    omega

theorem checkLoop_count (cfg : Conf) (q : List (Cmd × Cb)) :
    ∀ {budget : Option Nat} {s s' : Node} {o : List Out} {brs : List Branch},
      checkLoop cfg budget s q = .ok (s', o, brs) → ∀ id,
        List.count id (cbIds o) + List.count id (queueIds s'.queue) + List.count id (heldIds s') ≤
          List.count id (queueIds q) + List.count id (heldIds s) := by
  induction q with
  | nil =>
    intro budget s s' o brs h id
    simp [checkLoop] at h
    obtain ⟨h1, h2, _⟩ := h
    subst h1; subst h2
    simp [cbIds, queueIds, heldIds, replyIds, commitIds]
  | cons p rest ih =>
    intro budget s s' o brs h id
    obtain ⟨c, cb⟩ := p
    unfold checkLoop at h
    split at h
    · cases h <;> simp [cbIds, heldIds, replyIds, commitIds]
    · split at h
      · cases h <;> simp [cbIds, heldIds, replyIds, commitIds]
      · split at h
        · simp at h
        · rename_i s1 o1 br hd
          split at h
          · simp at h
          · rename_i s2 o2 brs2 hrec
            simp at h
            obtain ⟨h1, h2, _⟩ := h
            subst h1; subst h2
            have h1 := dispatchOne_count hd id
            have h2 := ih hrec id
            simp only [cbIds_append, List.count_append, queueIds, List.flatMap_cons] at h1 h2 ⊢
            omega

/-- `__onLeaderChanged`: every id waiting for a reply is fired exactly once and leaves the table -/
theorem onLeaderChanged_count (s : Node) (id : Nat) :
    List.count id (cbIds (onLeaderChanged s).2) + List.count id (heldIds (onLeaderChanged s).1) =
      List.count id (heldIds s) := by
  have hc : cbIds (onLeaderChanged s).2 = (sortByKey s.waitReply).map (·.2) := by
    simp [onLeaderChanged, cbIds, List.filterMap_map, Function.comp_def, Out.cbId]
  rw [hc, count_sortByKey]
  simp [onLeaderChanged, heldIds, replyIds, commitIds, List.count_append]

theorem recvResponse_count {s s' : Node} {req : Nat} {res : Except FailReason (Nat × Nat)} {o : List Out}
    (h : recvResponse s req res = .ok (s', o)) (id : Nat) :
    List.count id (cbIds o) + List.count id (heldIds s') ≤ List.count id (heldIds s) := by
  unfold recvResponse at h
  cases hg : s.waitReply.get? req with
  | none => simp [hg] at h; obtain ⟨h1, h2⟩ := h; subst h1; subst h2; simp [cbIds]
  | some cb =>
    simp only [hg] at h
    have hcnt := count_get_del hg id
    cases res with
    | error r =>
      simp at h
      obtain ⟨h1, h2⟩ := h
      subst h1; subst h2
      simp only [cbIds, List.filterMap_cons, List.filterMap_nil, Out.cbId, heldIds, replyIds, commitIds, List.count_append] at hcnt ⊢
      omega
    | ok p =>
      obtain ⟨idx, term⟩ := p
      simp only [] at h
      split at h
      · simp at h
        obtain ⟨h1, h2⟩ := h
        subst h1; subst h2
        simp only [cbIds, List.filterMap_nil, heldIds, replyIds, commitIds, List.count_append, List.map_append,
          List.map_cons, List.map_nil, List.count_nil] at hcnt ⊢
        omega
      · simp at h

theorem submit_count (cfg : Conf) (s : Node) (cmd : Cmd) (cb : Cb) (id : Nat) :
    List.count id (cbIds (submit cfg s cmd cb).2) + List.count id (queueIds (submit cfg s cmd cb).1.queue) +
        List.count id (heldIds (submit cfg s cmd cb).1) ≤
      List.count id (locId cb) + List.count id (queueIds s.queue) + List.count id (heldIds s) := by
  unfold submit
  split
  · cases cb <;> simp [errCallback, cbIds, List.filterMap_cons, Out.cbId, locId]
  · simp [cbIds, queueIds, heldIds, replyIds, commitIds, List.count_append, List.flatMap_append]
    omega

/-! ### at most once over a run of the node-local handlers -/

inductive Ev
  | submit (cmd : Cmd) (cb : Cb)                       -- `_applyCommand` / an `apply_command` message
  | check (budget : Option Nat)                        -- `_checkCommandsToApply`
  | leaderChanged                                      -- `__onLeaderChanged`
  | response (req : Nat) (res : Except FailReason (Nat × Nat))

def evStep (cfg : Conf) (s : Node) : Ev → Except Err (Node × List Out)
  | .submit cmd cb => .ok (submit cfg s cmd cb)
  | .check b => match checkCommands cfg b s with
    | .error e => .error e
    | .ok (s', o, _) => .ok (s', o)
  | .leaderChanged => .ok (onLeaderChanged s)
  | .response req res => recvResponse s req res

def evRun (cfg : Conf) : Node → List Ev → Except Err (Node × List Out)
  | s, [] => .ok (s, [])
  | s, e :: es => match evStep cfg s e with
    | .error err => .error err
    | .ok (s1, o1) => match evRun cfg s1 es with
      | .error err => .error err
      | .ok (s2, o2) => .ok (s2, o1 ++ o2)

/-- ids introduced by the submissions of a run -/
def submitted : List Ev → List Nat
  | [] => []
  | .submit _ cb :: es => locId cb ++ submitted es
  | _ :: es => submitted es

def pendingIds (s : Node) : List Nat := queueIds s.queue ++ heldIds s

theorem evStep_count {cfg : Conf} {s s' : Node} {e : Ev} {o : List Out} (h : evStep cfg s e = .ok (s', o)) (id : Nat) :
    List.count id (cbIds o) + List.count id (pendingIds s') ≤ List.count id (submitted [e]) + List.count id (pendingIds s) := by
  cases e with
  | submit cmd cb =>
    simp [evStep] at h
    have := submit_count cfg s cmd cb id
    rw [h] at this
    simp only [pendingIds, submitted, List.count_append, List.append_nil] at this ⊢
    omega
  | check b =>
    simp only [evStep] at h
    split at h
    · simp at h
    · rename_i s1 o1 brs hc
      simp at h
      obtain ⟨h1, h2⟩ := h
      subst h1; subst h2
      have := checkLoop_count cfg s.queue hc id
      simp only [pendingIds, submitted, List.count_append, List.count_nil] at this ⊢
      omega
  | leaderChanged =>
    simp [evStep] at h
    have := onLeaderChanged_count s id
    rw [h] at this
    have hq : s'.queue = s.queue := by rw [← (Prod.mk.inj h).1]
    simp only [pendingIds, submitted, List.count_append, List.count_nil, hq] at this ⊢
    omega
  | response req res =>
    simp only [evStep] at h
    have := recvResponse_count h id
    have hq : s'.queue = s.queue := by
      unfold recvResponse at h
      split at h
      · cases h; rfl
      · split at h
        · cases h; rfl
        · split at h
          · cases h; rfl
          · simp at h
    simp only [pendingIds, submitted, List.count_append, List.count_nil, hq] at this ⊢
    omega

theorem evRun_count (cfg : Conf) (es : List Ev) :
    ∀ {s s' : Node} {o : List Out}, evRun cfg s es = .ok (s', o) → ∀ id,
      List.count id (cbIds o) + List.count id (pendingIds s') ≤ List.count id (submitted es) + List.count id (pendingIds s) := by
  induction es with
  | nil => intro s s' o h id; simp [evRun] at h; obtain ⟨h1, h2⟩ := h; subst h1; subst h2; simp [cbIds, submitted]
  | cons e es ih =>
    intro s s' o h id
    unfold evRun at h
    split at h
    · simp at h
    · rename_i s1 o1 hs
      split at h
      · simp at h
      · rename_i s2 o2 hr
        simp at h
        obtain ⟨h1, h2⟩ := h
        subst h1; subst h2
        have h1 := evStep_count hs id
        have h2 := ih hr id
        have hsub : List.count id (submitted (e :: es)) = List.count id (submitted [e]) + List.count id (submitted es) := by
          cases e <;> simp [submitted, List.count_append]
        simp only [cbIds_append, List.count_append] at h1 h2 ⊢
        omega

theorem count_le_one_of_nodup {l : List Nat} (h : l.Nodup) (a : Nat) : List.count a l ≤ 1 := by
  induction l with
  | nil => simp
  | cons x t ih =>
    have hn := List.nodup_cons.mp h
    rw [List.count_cons]
    by_cases hx : x = a
    · subst hx
      have : List.count x t = 0 := List.count_eq_zero_of_not_mem hn.1
      simp [this]
    · have := ih hn.2
      simp [hx]; omega

theorem nodup_of_count_le_one {l : List Nat} (h : ∀ a, List.count a l ≤ 1) : l.Nodup := by
  induction l with
  | nil => simp
  | cons x t ih =>
    rw [List.nodup_cons]
    constructor
    · intro hx
      have h1 : 1 ≤ List.count x t := List.count_pos_iff.mpr hx
      have := h x
      simp [List.count_cons] at this
      omega
    · apply ih
      intro a
      have := h a
      rw [List.count_cons] at this
      omega

/-- **Callback at most once (node-local).**  Over any run of submissions, queue drains, leader changes and
forwarded-command replies on one node: if the callback ids that were pending at the start or are submitted during
the run are pairwise distinct, every callback id is fired at most once by these handlers — and an id that was
fired is no longer held by the queue or either waiting table. -/
theorem callback_at_most_once_local {cfg : Conf} {s s' : Node} {es : List Ev} {o : List Out}
    (h : evRun cfg s es = .ok (s', o)) (huniq : (submitted es ++ pendingIds s).Nodup) :
    (cbIds o).Nodup ∧ ∀ id ∈ cbIds o, id ∉ pendingIds s' := by
  have hc := evRun_count cfg es h
  have hle : ∀ id, List.count id (submitted es ++ pendingIds s) ≤ 1 := fun id => count_le_one_of_nodup huniq id
  constructor
  · apply nodup_of_count_le_one
    intro id
    have := hc id
    have := hle id
    simp only [List.count_append] at *
    omega
  · intro id hid hp
    have h1 : 1 ≤ List.count id (cbIds o) := List.count_pos_iff.mpr hid
    have h2 : 1 ≤ List.count id (pendingIds s') := List.count_pos_iff.mpr hp
    have := hc id
    have := hle id
    simp only [List.count_append] at *
    omega

end PSO.NodeSend
