import PSO.Model.NodeSend

/-! # Frame lemmas shared by the NodeSend proofs: what `sendAll` leaves untouched -/
namespace PSO.NodeSend

/-- all fields except the `nextIndex` / `matchIndex` dicts agree -/
def SameCore (s s' : Node) : Prop :=
  s'.log = s.log ∧ s'.members = s.members ∧ s'.self = s.self ∧ s'.lastApplied = s.lastApplied ∧
  s'.noopIdx = s.noopIdx ∧ s'.changeIdx = s.changeIdx ∧ s'.role = s.role ∧ s'.term = s.term ∧
  s'.queue = s.queue ∧ s'.waitCommit = s.waitCommit ∧ s'.waitReply = s.waitReply ∧
  s'.localCounter = s.localCounter ∧ s'.leader = s.leader ∧ s'.readonly = s.readonly ∧
  s'.connected = s.connected ∧ s'.commit = s.commit ∧ s'.recvBuf = s.recvBuf

theorem SameCore.refl (s : Node) : SameCore s s := by simp [SameCore]

theorem SameCore.trans {a b c : Node} (h1 : SameCore a b) (h2 : SameCore b c) : SameCore a c := by
  simp only [SameCore] at *
  simp [h1, h2]

def Out.isSend : Out → Bool
  | .send _ _ => true
  | _ => false

theorem sendAllLoop_frame (B : Nat) (snapOf : Nat → List (Option Bool)) (ds : List Nat) :
    ∀ {s s' : Node} {budget b' : Option Nat} {o : List Out},
      sendAllLoop B snapOf ds s budget = .ok (s', o, b') → SameCore s s' ∧ ∀ x ∈ o, x.isSend = true := by
  induction ds with
  | nil =>
    intro s s' budget b' o h
    simp [sendAllLoop] at h
    obtain ⟨h1, h2, _⟩ := h
    subst h1; subst h2
    exact ⟨SameCore.refl _, by simp⟩
  | cons d ds ih =>
    intro s s' budget b' o h
    unfold sendAllLoop at h
    split at h
    · exact ih h
    · split at h
      · simp at h
      · rename_i next hnext
        split at h
        · simp at h
        · rename_i r hr
          simp only [] at h
          split at h
          · simp at h
          · rename_i s2 o2 b2 hrec
            simp at h
            obtain ⟨h1, h2, _⟩ := h
            subst h1; subst h2
            have := ih hrec
            refine ⟨SameCore.trans ?_ this.1, ?_⟩
            · simp [SameCore]
            · intro x hx
              rcases List.mem_append.mp hx with hx | hx
              · simp at hx
                obtain ⟨m, _, hm⟩ := hx
                subst hm; rfl
              · exact this.2 x hx

theorem sendAll_frame {cfg : Conf} {snapOf : Nat → List (Option Bool)} {s s' : Node} {budget : Option Nat} {o : List Out}
    (h : sendAll cfg snapOf s budget = .ok (s', o)) : SameCore s s' ∧ ∀ x ∈ o, x.isSend = true := by
  unfold sendAll at h
  split at h
  · simp at h
  · rename_i s2 o2 b2 hrec
    simp at h
    obtain ⟨h1, h2⟩ := h
    subst h1; subst h2
    exact sendAllLoop_frame _ _ _ hrec

/-! ## the send loop only produces `append_entries` messages -/

def Msg.isAppendKind : Msg → Bool
  | .append _ _ _ _ => true
  | .chunk _ _ _ _ _ _ _ => true
  | .snap _ _ _ => true
  | _ => false

theorem render_kind (B t c : Nat) (b : Batch) : ∀ m ∈ render B t c b, m.isAppendKind = true := by
  intro m hm
  cases b with
  | regular p es => simp [render] at hm; subst hm; rfl
  | snapshot a => simp [render] at hm; subst hm; rfl
  | chunked p e =>
    simp [render] at hm
    obtain ⟨l, a, b, _, rfl⟩ := hm
    rfl

theorem sendBurst_sub (d : Option Nat) : ∀ (ms : List Msg) (n : Nat), ∀ m ∈ (sendBurst d n ms).1, m ∈ ms := by
  intro ms
  induction ms with
  | nil => intro n m hm; simp [sendBurst] at hm
  | cons a t ih =>
    intro n m hm
    unfold sendBurst at hm
    split at hm
    · simp only [List.mem_cons] at hm ⊢
      rcases hm with h | h
      · exact Or.inl h
      · exact Or.inr (ih _ m h)
    · simp at hm; simp [hm]

theorem sendLoop_kind_aux (c : SendCfg) (log : List Entry) (fuel : Nat) (b : Batch) (all : List Msg)
    (nxt : Option Nat) (ser' : Bool) (snap' : List (Option Bool)) (budget : Option Nat) (sent' : Nat) (dec : Bool) (r : SendRes)
    (ih : ∀ (next : Nat) (ss ser : Bool) (snap : List (Option Bool)) (budget : Option Nat) (sent : Nat) (dec : Bool) (r : SendRes),
      sendLoop c log fuel next ss ser snap budget sent dec = .ok r → ∀ m ∈ r.msgs, m.isAppendKind = true)
    (hall : ∀ m ∈ all, m.isAppendKind = true)
    (h : (match nxt with
      | none => (Except.error Err.indexError : Except Err SendRes)
      | some next'' =>
        if budgetDone budget then .ok ⟨[b], all, next'', budgetNext budget, sent', snap', false⟩
        else
          match sendLoop c log fuel next'' false ser' snap' (budgetNext budget) sent' dec with
          | .error e => .error e
          | .ok r => .ok { r with batches := b :: r.batches, msgs := all ++ r.msgs }) = .ok r) :
    ∀ m ∈ r.msgs, m.isAppendKind = true := by
  cases nxt with
  | none => simp at h
  | some next'' =>
    simp only [] at h
    by_cases hb : budgetDone budget = true
    · simp only [hb, if_true] at h; cases h; exact hall
    · simp only [hb] at h
      cases hr' : sendLoop c log fuel next'' false ser' snap' (budgetNext budget) sent' dec with
      | error e => simp [hr'] at h
      | ok r' =>
        simp [hr'] at h
        subst h
        intro m hm
        simp only [List.mem_append] at hm
        rcases hm with hm | hm
        · exact hall m hm
        · exact ih _ _ _ _ _ _ _ _ hr' m hm

theorem sendLoop_kind (c : SendCfg) (log : List Entry) :
    ∀ (fuel next : Nat) (ss ser : Bool) (snap : List (Option Bool)) (budget : Option Nat) (sent : Nat) (dec : Bool) (r : SendRes),
      sendLoop c log fuel next ss ser snap budget sent dec = .ok r → ∀ m ∈ r.msgs, m.isAppendKind = true := by
  intro fuel
  induction fuel with
  | zero => intro next ss ser snap budget sent dec r h; simp [sendLoop] at h; subst h; simp
  | succ fuel ih =>
    intro next ss ser snap budget sent dec r h
    unfold sendLoop at h
    cases hl : lastIdx? log with
    | none => simp [hl] at h
    | some last =>
      simp only [hl] at h
      by_cases hc : (decide (next ≤ last) || ss || ser) = true
      · simp only [hc, if_true] at h
        cases hit : iterBatch c.B log next snap.head?.join with
        | error e => simp [hit] at h
        | ok p =>
          obtain ⟨b, next'⟩ := p
          simp only [hit] at h
          have hall := render_kind c.B c.term c.commit b
          cases b with
          | chunked prev e =>
            simp only [] at h
            cases hpd : probeDecision c dec prev with
            | error e => simp [hpd] at h
            | ok probing =>
              simp only [hpd] at h
              by_cases hcn : (!stillConnected c.dropAfter
                  (sendBurst c.dropAfter sent (render c.B c.term c.commit (Batch.chunked prev e))).2) = true
              · simp only [hcn, if_true] at h
                cases h
                intro m hm
                exact hall m (sendBurst_sub _ _ _ m hm)
              · simp only [hcn] at h
                by_cases hp : probing = true
                · simp only [hp, if_true] at h
                  cases h
                  intro m hm
                  exact hall m (sendBurst_sub _ _ _ m hm)
                · simp only [hp] at h
                  by_cases hb : budgetDone budget = true
                  · simp only [hb, if_true] at h
                    cases h
                    intro m hm
                    exact hall m (sendBurst_sub _ _ _ m hm)
                  · simp only [hb] at h
                    cases hr' : sendLoop c log fuel next' false false snap (budgetNext budget)
                        (sendBurst c.dropAfter sent (render c.B c.term c.commit (Batch.chunked prev e))).2 true with
                    | error e => simp [hr'] at h
                    | ok r' =>
                      simp [hr'] at h
                      subst h
                      intro m hm
                      simp only [List.mem_append] at hm
                      rcases hm with hm | hm
                      · exact hall m (sendBurst_sub _ _ _ m hm)
                      · exact ih _ _ _ _ _ _ _ _ hr' m hm
          | regular prev es =>
            simp only [] at h
            cases hpd : probeDecision c dec prev with
            | error e => simp [hpd] at h
            | ok probing =>
              simp only [hpd] at h
              by_cases hcn : (!stillConnected c.dropAfter (sent + 1)) = true
              · simp only [hcn, if_true] at h; cases h; exact hall
              · simp only [hcn] at h
                by_cases hp : probing = true
                · simp only [hp, if_true] at h; cases h; exact hall
                · simp only [hp] at h
                  by_cases hb : budgetDone budget = true
                  · simp only [hb, if_true] at h; cases h; exact hall
                  · simp only [hb] at h
                    cases hr' : sendLoop c log fuel next' false false snap (budgetNext budget) (sent + 1) true with
                    | error e => simp [hr'] at h
                    | ok r' =>
                      simp [hr'] at h
                      subst h
                      intro m hm
                      simp only [List.mem_append] at hm
                      rcases hm with hm | hm
                      · exact hall m hm
                      · exact ih _ _ _ _ _ _ _ _ hr' m hm
          | snapshot a =>
            simp only [] at h
            by_cases hcn : (!stillConnected c.dropAfter (sent + 1)) = true
            · simp only [hcn, if_true] at h; cases h; exact hall
            · simp only [hcn] at h
              exact sendLoop_kind_aux c log fuel _ _ _ _ _ _ _ _ r ih hall h
      · simp only [hc] at h
        cases h
        intro m hm
        cases hm

def Out.isAppendSend : Out → Bool
  | .send _ m => m.isAppendKind
  | _ => false

theorem sendAllLoop_kind (B : Nat) (snapOf : Nat → List (Option Bool)) (ds : List Nat) :
    ∀ {s s' : Node} {budget b' : Option Nat} {o : List Out},
      sendAllLoop B snapOf ds s budget = .ok (s', o, b') → ∀ x ∈ o, x.isAppendSend = true := by
  induction ds with
  | nil => intro s s' budget b' o h; simp [sendAllLoop] at h; intro x hx; rw [h.2.1] at hx; cases hx
  | cons d ds ih =>
    intro s s' budget b' o h
    unfold sendAllLoop at h
    split at h
    · exact ih h
    · split at h
      · simp at h
      · split at h
        · simp at h
        · rename_i r hr
          simp only [] at h
          split at h
          · simp at h
          · rename_i s2 o2 b2 hrec
            simp at h
            obtain ⟨_, h2, _⟩ := h
            subst h2
            intro x hx
            rcases List.mem_append.mp hx with hx | hx
            · simp at hx
              obtain ⟨m, hm, hxm⟩ := hx
              subst hxm
              unfold sendOne at hr
              exact sendLoop_kind _ _ _ _ _ _ _ _ _ _ _ hr m hm
            · exact ih hrec x hx

end PSO.NodeSend

namespace PSO.NodeSend

/-- for a message that carries `prevLogIdx` the full handler `appendMsgEnv` is `appendEntriesEnv` (state, extra
fields, outputs); the fourth component only adds the side observations -/
theorem appendMsgEnv_regular (cfg : Conf) (x : Extra) (s : Node) (src term lc : Nat) (m : AppendMsg) :
    ((appendMsgEnv cfg x s src term lc (.regular m)).1, (appendMsgEnv cfg x s src term lc (.regular m)).2.1,
      (appendMsgEnv cfg x s src term lc (.regular m)).2.2.1) = appendEntriesEnv cfg x s src term lc m := by
  unfold appendMsgEnv
  by_cases h : term < s.term
  · simp [h, appendEntriesEnv]
  · simp only [h, if_false]

/-- a stale message (`term < currentTerm`) is ignored entirely: no state change, no reply, nothing stored -/
theorem appendMsgEnv_stale (cfg : Conf) (x : Extra) (s : Node) (src term lc : Nat) (k : EnvMsg) (h : term < s.term) :
    appendMsgEnv cfg x s src term lc k = (x, s, .ok [], {}) := by
  unfold appendMsgEnv
  simp [h]

end PSO.NodeSend
