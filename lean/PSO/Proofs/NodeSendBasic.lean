import PSO.Model.NodeSend

/-! # Frame lemmas shared by the NodeSend proofs: what `sendAll` leaves untouched -/
namespace PSO.NodeSend

/-- all fields except the `nextIndex` / `matchIndex` dicts agree -/
def SameCore (s s' : Node) : Prop :=
  s'.log = s.log ∧ s'.members = s.members ∧ s'.self = s.self ∧ s'.lastApplied = s.lastApplied ∧
  s'.noopIdx = s.noopIdx ∧ s'.changeIdx = s.changeIdx ∧ s'.role = s.role ∧ s'.term = s.term ∧
  s'.queue = s.queue ∧ s'.waitCommit = s.waitCommit ∧ s'.waitReply = s.waitReply ∧
  s'.localCounter = s.localCounter ∧ s'.leader = s.leader ∧ s'.readonly = s.readonly ∧
  s'.connected = s.connected ∧ s'.commit = s.commit ∧ s'.recvBuf = s.recvBuf

theorem SameCore.refl (s : Node) : SameCore s s := by simp [SameCore]

theorem SameCore.trans {a b c : Node} (h1 : SameCore a b) (h2 : SameCore b c) : SameCore a c := by
  simp only [SameCore] at *
  simp [h1, h2]

def Out.isSend : Out → Bool
  | .send _ _ => true
  | _ => false

theorem sendAllLoop_frame (B : Nat) (snapOf : Nat → List (Option Bool)) (ds : List Nat) :
    ∀ {s s' : Node} {budget b' : Option Nat} {o : List Out},
      sendAllLoop B snapOf ds s budget = .ok (s', o, b') → SameCore s s' ∧ ∀ x ∈ o, x.isSend = true := by
  induction ds with
  | nil =>
    intro s s' budget b' o h
    simp [sendAllLoop] at h
    obtain ⟨h1, h2, _⟩ := h
    subst h1; subst h2
    exact ⟨SameCore.refl _, by simp⟩
  | cons d ds ih =>
    intro s s' budget b' o h
    unfold sendAllLoop at h
    split at h
    · exact ih h
    · split at h
      · simp at h
      · rename_i next hnext
        split at h
        · simp at h
        · rename_i r hr
          simp only [] at h
          split at h
          · simp at h
          · rename_i s2 o2 b2 hrec
            simp at h
            obtain ⟨h1, h2, _⟩ := h
            subst h1; subst h2
            have := ih hrec
            refine ⟨SameCore.trans ?_ this.1, ?_⟩
            · simp [SameCore]
            · intro x hx
              rcases List.mem_append.mp hx with hx | hx
              · simp at hx
                obtain ⟨m, _, hm⟩ := hx
                subst hm; rfl
              · exact this.2 x hx

theorem sendAll_frame {cfg : Conf} {snapOf : Nat → List (Option Bool)} {s s' : Node} {budget : Option Nat} {o : List Out}
    (h : sendAll cfg snapOf s budget = .ok (s', o)) : SameCore s s' ∧ ∀ x ∈ o, x.isSend = true := by
  unfold sendAll at h
  split at h
  · simp at h
  · rename_i s2 o2 b2 hrec
    simp at h
    obtain ⟨h1, h2⟩ := h
    subst h1; subst h2
    exact sendAllLoop_frame _ _ _ hrec

end PSO.NodeSend
