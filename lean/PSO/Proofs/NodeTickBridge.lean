import PSO.Proofs.NodeTickMonotone

/-!
# Bridge to the protocol model (`PSO.Raft`): what a commit advance of the handler-level tick guarantees

`nextCommit_spec` is the guard of `PSO.Raft.Action.advanceCommit` (majority of match indices at the new index,
entry of the current term, strictly above the old commit index, inside the log), for use in the refinement
`Impl ⊑ Proto` (Props/C04).
-/
namespace PSO.NodeTick
open PSO.Raft (Role isMajority)

/-- With the voter list of the protocol model the tick's count is `PSO.Raft.matchCount`. -/
theorem commitCount_eq_matchCount (N n : Nat) (m : AMap) (i : Nat) :
    commitCount (PSO.Raft.others N n) m i = PSO.Raft.matchCount N n (mgetD m) i := rfl

theorem commitLoop_spec (others : List Nat) (m : AMap) (log : List Entry) (term : Nat) :
    ∀ fuel ci next, commitLoop others m log term fuel ci next ≠ next →
      isMajority (others.length + 1) (commitCount others m (commitLoop others m log term fuel ci next)) = true ∧
      termAt log (commitLoop others m log term fuel ci next) = some term ∧
      ci < commitLoop others m log term fuel ci next ∧ commitLoop others m log term fuel ci next ≤ ci + fuel := by
  intro fuel
  induction fuel with
  | zero => intro ci next h; exact absurd rfl h
  | succ f ih =>
    intro ci next h
    simp only [commitLoop] at h ⊢
    split
    · next hmaj =>
      rw [if_pos hmaj] at h
      split
      · next ht =>
        rw [if_pos ht] at h
        by_cases hr : commitLoop others m log term f (ci + 1) (ci + 1) = ci + 1
        · rw [hr]; exact ⟨hmaj, ht, by omega, by omega⟩
        · obtain ⟨a, b, c, d⟩ := ih (ci + 1) (ci + 1) hr
          exact ⟨a, b, by omega, by omega⟩
      · next ht =>
        rw [if_neg ht] at h
        obtain ⟨a, b, c, d⟩ := ih (ci + 1) next h
        exact ⟨a, b, by omega, by omega⟩
    · next hmaj => rw [if_neg hmaj] at h; exact absurd rfl h

/-- **What a commit advance means.** If the leader branch of a tick raises the commit index to `r`, then
`r` lies above the old commit index and inside the log, the entry at `r` carries the current term, and the
voters whose match index reaches `r` — together with the leader itself — are a majority of the voters. -/
theorem nextCommit_spec (s : NodeState) (h : nextCommit s ≠ s.commit) :
    isMajority (s.others.length + 1) (commitCount s.others s.matchIndex (nextCommit s)) = true ∧
    termAt s.log (nextCommit s) = some s.term ∧ s.commit < nextCommit s ∧
    nextCommit s ≤ max s.commit (lastIdx s.log) := by
  obtain ⟨a, b, c, _⟩ := commitLoop_spec s.others s.matchIndex s.log s.term _ s.commit s.commit h
  exact ⟨a, b, c, nextCommit_le s⟩

end PSO.NodeTick
