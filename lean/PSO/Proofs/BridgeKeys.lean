import PSO.Proofs.BridgeVote

/-!
# Bridge, part 5: `KeysTracked` and `WFLog` are invariants of the handler model

`KeysTracked` (no stale match-index keys) holds for a fresh node (`matchIndex = []`) and is preserved by every
event of `PSO.NodeTick.step` (for the tick: when the log holds no membership entry, the standing assumption of the
bridge).  `WFLog` is preserved by every event (`step_wfLog`, from `step_logWF`).
-/
namespace PSO.Bridge
open PSO
open PSO.NodeTick
open PSO.Raft (Role isMajority)

theorem mem_tracked (s : NodeState) (j : Nat) : j ∈ tracked s ↔ j ∈ s.others ∨ j ∈ s.readonly := by
  unfold tracked
  rw [List.mem_append, List.mem_filter]
  constructor
  · rintro (h | h)
    · exact Or.inl h
    · exact Or.inr h.1
  · rintro (h | h)
    · exact Or.inl h
    · by_cases ho : j ∈ s.others
      · exact Or.inl ho
      · exact Or.inr ⟨h, by simpa using ho⟩

/-- `KeysTracked` depends only on `matchIndex`, `others`, `readonly` -/
theorem keysTracked_congr {s s' : NodeState} (h1 : s'.matchIndex = s.matchIndex) (h2 : s'.others = s.others)
    (h3 : s'.readonly = s.readonly) (h : KeysTracked s) : KeysTracked s' := by
  intro j hj
  rw [h1]
  apply h
  intro hm
  apply hj
  rw [mem_tracked] at hm ⊢
  rw [h2, h3]
  exact hm

theorem keysTracked_init (s : NodeState) (h : s.matchIndex = []) : KeysTracked s := by
  intro j _; rw [h]; rfl

theorem mem_sadd (l : List Nat) (n x : Nat) : x ∈ sadd l n ↔ x ∈ l ∨ x = n := by
  unfold sadd
  split
  · next h =>
    constructor
    · exact Or.inl
    · rintro (e | e)
      · exact e
      · rw [e]; exact h
  · simp

theorem mem_sdel (l : List Nat) (n x : Nat) : x ∈ sdel l n ↔ x ∈ l ∧ x ≠ n := by
  unfold sdel
  simp

theorem electionPhase_keysTracked (c : Config) (s : NodeState) (now rand : Nat) (h : KeysTracked s) :
    KeysTracked (electionPhase c s now rand).1 := by
  unfold electionPhase
  split
  · exact h
  · split
    · exact h
    · split
      · simp only [setRole, leaderChanged]
        split
        · refine becomeLeader_keysTracked c _ now ?_
          exact keysTracked_congr (s := s) rfl rfl rfl h
        · exact keysTracked_congr (s := s) rfl rfl rfl h
      · exact h

theorem leaderPhase_keysTracked (c : Config) (s : NodeState) (now : Nat) (h : KeysTracked s) :
    KeysTracked (leaderPhase c s now).1 := by
  rw [leaderPhase_eq]
  split
  · split <;> exact keysTracked_congr rfl rfl rfl h
  · exact h

theorem tick_keysTracked (c : Config) (s : NodeState) (now rand : Nat) (hm : NoMembership s.log) (h : KeysTracked s) :
    KeysTracked (tick c s now rand).1 := by
  rw [tick_fst]
  have h2 := leaderPhase_keysTracked c _ now (electionPhase_keysTracked c s now rand h)
  have hm2 := leaderPhase_noMembership c s now rand hm
  have hv := applyEntries_voterFrame c _ now hm2
  have hf := applyEntries_frame c (leaderPhase c (electionPhase c s now rand).1 now).1 now
  have h3 : KeysTracked (applyEntries c (leaderPhase c (electionPhase c s now rand).1 now).1 now).1 :=
    keysTracked_congr hv.matchIndex hv.others hf.readonly h2
  rcases readyPhase_fst (applyEntries c (leaderPhase c (electionPhase c s now rand).1 now).1 now).1 with e | e
  · rw [e]; exact h3
  · rw [e]; exact keysTracked_congr rfl rfl rfl h3

theorem onRequestVote_keysTracked (c : Config) (s : NodeState) (frm term li lt now rand : Nat) (h : KeysTracked s) :
    KeysTracked (onRequestVote c s frm term li lt now rand).1 := by
  unfold onRequestVote
  split
  · exact h
  · simp only [setRole]
    split <;> (repeat' split) <;> first | exact h | exact keysTracked_congr rfl rfl rfl h

theorem onResponseVote_keysTracked (c : Config) (s : NodeState) (term now : Nat) (h : KeysTracked s) :
    KeysTracked (onResponseVote c s term now).1 := by
  unfold onResponseVote
  split
  · simp only
    split
    · refine becomeLeader_keysTracked c _ now ?_
      exact keysTracked_congr (s := s) rfl rfl rfl h
    · exact keysTracked_congr (s := s) rfl rfl rfl h
  · exact h

theorem keysTracked_mset_of_key {s s' : NodeState} (frm v : Nat) (h : KeysTracked s)
    (hk : (mget s.matchIndex frm).isSome = true) (h1 : s'.matchIndex = mset s.matchIndex frm v)
    (h2 : s'.others = s.others) (h3 : s'.readonly = s.readonly) : KeysTracked s' := by
  intro j hj
  have hj' : j ∉ tracked s := by
    intro hm; apply hj
    rw [mem_tracked] at hm ⊢
    rw [h2, h3]; exact hm
  rw [h1]
  by_cases e : j = frm
  · subst e
    rw [h j hj'] at hk
    cases hk
  · rw [mget_mset_ne _ _ _ _ e]
    exact h j hj'

theorem onNextNodeIdx_keysTracked (s : NodeState) (frm : Nat) (term : Option Nat) (reset : Bool) (next : Nat)
    (success : Bool) (now : Nat) (h : KeysTracked s) :
    KeysTracked (onNextNodeIdx s frm term reset next success now).1 := by
  unfold onNextNodeIdx
  split
  · cases success
    · cases reset <;> exact keysTracked_congr rfl rfl rfl h
    · simp only [if_true]
      cases reset
      · simp only [Bool.false_eq_true, if_false]
        cases hmi : mget s.matchIndex frm with
        | none => exact h
        | some mi =>
          simp only
          split
          · exact keysTracked_mset_of_key frm (next - 1) h (by rw [hmi]; rfl) rfl rfl rfl
          · exact keysTracked_congr rfl rfl rfl h
      · simp only [if_true]
        cases hmi : mget s.matchIndex frm with
        | none => exact keysTracked_congr rfl rfl rfl h
        | some mi =>
          simp only
          split
          · exact keysTracked_mset_of_key frm (next - 1) h (by rw [hmi]; rfl) rfl rfl rfl
          · exact keysTracked_congr rfl rfl rfl h
  · exact h

theorem onReadonlyConnected_keysTracked (s : NodeState) (n : Nat) (h : KeysTracked s) :
    KeysTracked (onReadonlyConnected s n) := by
  intro j hj
  have hj1 : j ≠ n := by
    intro e; apply hj
    rw [mem_tracked]; right
    show j ∈ sadd s.readonly n
    rw [mem_sadd]; exact Or.inr e
  have hj2 : j ∉ tracked s := by
    intro hm; apply hj
    rw [mem_tracked] at hm ⊢
    rcases hm with e | e
    · exact Or.inl e
    · right; show j ∈ sadd s.readonly n; rw [mem_sadd]; exact Or.inl e
  show mget (mset s.matchIndex n 0) j = none
  rw [mget_mset_ne _ _ _ _ hj1]
  exact h j hj2

theorem onReadonlyDisconnected_keysTracked (s : NodeState) (n : Nat) (h : KeysTracked s) :
    KeysTracked (onReadonlyDisconnected s n) := by
  intro j hj
  show mget (mdel s.matchIndex n) j = none
  by_cases e : j = n
  · rw [e]; exact mget_mdel_self _ _
  · rw [mget_mdel_ne _ _ _ e]
    apply h
    intro hm; apply hj
    rw [mem_tracked] at hm ⊢
    rcases hm with e' | e'
    · exact Or.inl e'
    · right; show j ∈ sdel s.readonly n; rw [mem_sdel]; exact ⟨e', e⟩

/-- **`KeysTracked` is an invariant** of every event (ticks: for logs without membership entries). -/
theorem step_keysTracked (c : Config) (s : NodeState) (e : Event) (hm : NoMembership s.log) (h : KeysTracked s) :
    KeysTracked (step c s e).1 := by
  cases e with
  | tick now rand => exact tick_keysTracked c s now rand hm h
  | deliver frm m now rand =>
    cases m with
    | requestVote t li lt => exact onRequestVote_keysTracked c s frm t li lt now rand h
    | responseVote t => exact onResponseVote_keysTracked c s t now h
    | nextNodeIdx t reset next success => exact onNextNodeIdx_keysTracked s frm t reset next success now h
  | connected n => exact keysTracked_congr rfl rfl rfl h
  | disconnected n => exact keysTracked_congr rfl rfl rfl h
  | roConnected n => exact onReadonlyConnected_keysTracked s n h
  | roDisconnected n => exact onReadonlyDisconnected_keysTracked s n h

/-- **`WFLog` is an invariant** of every event. -/
theorem step_wfLog (c : Config) (s : NodeState) (e : Event) (h : WFLog s.log) : WFLog (step c s e).1.log := by
  cases e with
  | tick now rand =>
    show WFLog (tick c s now rand).1.log
    rw [tick_log]
    exact electionPhase_wfLog c s now rand h
  | deliver frm m now rand =>
    cases m with
    | requestVote t li lt =>
      show WFLog (onRequestVote c s frm t li lt now rand).1.log
      rw [onRequestVote_log]; exact h
    | responseVote t => exact onResponseVote_wfLog c s t now h
    | nextNodeIdx t reset next success =>
      show WFLog (onNextNodeIdx s frm t reset next success now).1.log
      rw [(onNextNodeIdx_cases s frm t reset next success now).2.2.1]; exact h
  | connected n => exact h
  | disconnected n => exact h
  | roConnected n => exact h
  | roDisconnected n => exact h

end PSO.Bridge
