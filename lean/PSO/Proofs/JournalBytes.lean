import PSO.Model.Journal
/-! Byte-level lemmas for the journal model: little-endian round trips, slices, stores, layout. -/
namespace PSO.Journal

/-! ### little endian -/

@[simp] theorem leEnc_length (w n : Nat) : (leEnc w n).length = w := by
  induction w generalizing n with
  | zero => rfl
  | succ w ih => simp [leEnc, ih]

theorem leDec_leEnc (w n : Nat) : leDec (leEnc w n) = n % 256 ^ w := by
  induction w generalizing n with
  | zero => simp [leEnc, leDec, Nat.mod_one]
  | succ w ih =>
    simp only [leEnc, leDec, ih, UInt8.toNat_ofNat']
    have h1 : (2 : Nat) ^ 8 = 256 := by decide
    rw [h1, Nat.pow_succ, Nat.mul_comm (256 ^ w) 256, Nat.mod_mul]

theorem leDec_leEnc4 {n : Nat} (h : n < U32) : leDec (leEnc 4 n) = n := by
  rw [leDec_leEnc]; exact Nat.mod_eq_of_lt h

theorem leDec_leEnc8 {n : Nat} (h : n < U64) : leDec (leEnc 8 n) = n := by
  rw [leDec_leEnc]; exact Nat.mod_eq_of_lt h

/-! ### record encoding -/

@[simp] theorem encBody_length (e : Entry) : (encBody e).length = 16 + e.cmd.length := by
  simp [encBody]; omega

@[simp] theorem encRecord_length (e : Entry) : (encRecord e).length = recLen e := by
  simp [encRecord, recLen]; omega

@[simp] theorem encEntries_length (es : List Entry) : (encEntries es).length = encLen es := by
  induction es with
  | nil => rfl
  | cons e es ih => simp [encEntries, encLen, ih]

theorem encEntries_append (a b : List Entry) : encEntries (a ++ b) = encEntries a ++ encEntries b := by
  induction a with
  | nil => rfl
  | cons e a ih => simp [encEntries, ih]

theorem encLen_append (a b : List Entry) : encLen (a ++ b) = encLen a + encLen b := by
  induction a with
  | nil => simp [encLen]
  | cons e a ih => simp [encLen, ih]; omega

theorem encLen_take_le (es : List Entry) (n : Nat) : encLen (es.take n) ≤ encLen es := by
  have := encLen_append (es.take n) (es.drop n)
  rw [List.take_append_drop] at this; omega

theorem encLen_drop_le (es : List Entry) (n : Nat) : encLen (es.drop n) ≤ encLen es := by
  have := encLen_append (es.take n) (es.drop n)
  rw [List.take_append_drop] at this; omega

/-! ### slices and stores -/

theorem rd_at {f A B C : Bytes} {off n : Nat} (h : f = A ++ B ++ C) (hA : A.length = off)
    (hB : B.length = n) : rd f off n = B := by
  subst h; subst hA; subst hB
  simp [rd, List.append_assoc]

theorem storeAt_at {f A B C bs : Bytes} {off : Nat} (h : f = A ++ B ++ C) (hA : A.length = off)
    (hB : B.length = bs.length) : storeAt f off bs = A ++ bs ++ C := by
  subst h; subst hA
  have h1 : (A ++ B ++ C).take A.length = A := by
    rw [List.append_assoc]; exact List.take_left' rfl
  have h2 : (A ++ B ++ C).drop (A.length + bs.length) = C := by
    apply List.drop_left'; simp [hB]
  simp only [storeAt, h1, h2]

theorem storeAt_length {f bs : Bytes} {off : Nat} (h : off + bs.length ≤ f.length) :
    (storeAt f off bs).length = f.length := by
  simp [storeAt]; omega

theorem resizeFile_ge {f : Bytes} {n : Nat} (h : f.length ≤ n) : resizeFile f n = f ++ zeros (n - f.length) := by
  simp [resizeFile, h]

theorem resizeFile_length {f : Bytes} {n : Nat} (h : f.length ≤ n) : (resizeFile f n).length = n := by
  rw [resizeFile_ge h]; simp [zeros]; omega

/-- Split a list at a position inside it. -/
theorem split3 (f : Bytes) (off n : Nat) (h : off + n ≤ f.length) :
    ∃ A B C, f = A ++ B ++ C ∧ A.length = off ∧ B.length = n :=
  ⟨f.take off, (f.drop off).take n, (f.drop off).drop n,
    by rw [List.append_assoc, List.take_append_drop, List.take_append_drop],
    by simp; omega, by simp; omega⟩

end PSO.Journal
