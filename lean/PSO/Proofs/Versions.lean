import PSO.Model.Versions

/-! Helper lemmas for C17 (code versions): order facts, sorting, name table, apply loop. -/
namespace PSO.Versions

/-! ## `nameLt` is a strict linear order -/

theorem nameLt_irrefl : ∀ a : Name, nameLt a a = false
  | [] => rfl
  | x :: xs => by simp [nameLt, nameLt_irrefl xs]

theorem nameLt_asymm : ∀ {a b : Name}, nameLt a b = true → nameLt b a = false
  | [], [], h => by simp [nameLt] at h
  | [], _ :: _, _ => by simp [nameLt]
  | _ :: _, [], h => by simp [nameLt] at h
  | x :: xs, y :: ys, h => by
    simp only [nameLt, Bool.or_eq_true, decide_eq_true_eq, Bool.and_eq_true, beq_iff_eq] at h
    simp only [nameLt, Bool.or_eq_false_iff, decide_eq_false_iff_not, Bool.and_eq_false_imp, beq_iff_eq]
    rcases h with h | ⟨h1, h2⟩
    · exact ⟨by omega, fun e => by omega⟩
    · exact ⟨by omega, fun _ => nameLt_asymm h2⟩

theorem nameLt_trans : ∀ {a b c : Name}, nameLt a b = true → nameLt b c = true → nameLt a c = true
  | [], [], _, h, _ => by simp [nameLt] at h
  | [], _ :: _, [], _, h => by simp [nameLt] at h
  | [], _ :: _, _ :: _, _, _ => by simp [nameLt]
  | _ :: _, [], _, h, _ => by simp [nameLt] at h
  | _ :: _, _ :: _, [], _, h => by simp [nameLt] at h
  | x :: xs, y :: ys, z :: zs, h1, h2 => by
    simp only [nameLt, Bool.or_eq_true, decide_eq_true_eq, Bool.and_eq_true, beq_iff_eq] at h1 h2 ⊢
    rcases h1 with h1 | ⟨e1, l1⟩ <;> rcases h2 with h2 | ⟨e2, l2⟩
    · left; omega
    · left; omega
    · left; omega
    · right; exact ⟨by omega, nameLt_trans l1 l2⟩

theorem nameLt_connected : ∀ {a b : Name}, nameLt a b = false → nameLt b a = false → a = b
  | [], [], _, _ => rfl
  | [], _ :: _, h, _ => by simp [nameLt] at h
  | _ :: _, [], _, h => by simp [nameLt] at h
  | x :: xs, y :: ys, h1, h2 => by
    simp only [nameLt, Bool.or_eq_false_iff, decide_eq_false_iff_not, Bool.and_eq_false_imp, beq_iff_eq] at h1 h2
    have e : x = y := by omega
    subst e
    rw [nameLt_connected (h1.2 rfl) (h2.2 rfl)]

/-! ## `Desc.le` is a linear order -/

theorem Desc.le_total (a b : Desc) : (Desc.le a b || Desc.le b a) = true := by
  simp only [Desc.le, Bool.or_eq_true, decide_eq_true_eq, Bool.and_eq_true, beq_iff_eq, Bool.not_eq_true']
  by_cases h1 : a.ver < b.ver
  · exact .inl (.inl h1)
  by_cases h2 : b.ver < a.ver
  · exact .inr (.inl h2)
  have ev : a.ver = b.ver := by omega
  by_cases h3 : a.obj < b.obj
  · exact .inl (.inr ⟨ev, .inl h3⟩)
  by_cases h4 : b.obj < a.obj
  · exact .inr (.inr ⟨ev.symm, .inl h4⟩)
  have eo : a.obj = b.obj := by omega
  cases h5 : nameLt b.name a.name
  · exact .inl (.inr ⟨ev, .inr ⟨eo, rfl⟩⟩)
  · exact .inr (.inr ⟨ev.symm, .inr ⟨eo.symm, nameLt_asymm h5⟩⟩)

theorem Desc.le_trans (a b c : Desc) (h1 : Desc.le a b = true) (h2 : Desc.le b c = true) : Desc.le a c = true := by
  simp only [Desc.le, Bool.or_eq_true, decide_eq_true_eq, Bool.and_eq_true, beq_iff_eq, Bool.not_eq_true'] at h1 h2 ⊢
  rcases h1 with h1 | ⟨e1, h1⟩
  · rcases h2 with h2 | ⟨e2, _⟩
    · left; omega
    · left; omega
  rcases h2 with h2 | ⟨e2, h2⟩
  · left; omega
  right
  refine ⟨by omega, ?_⟩
  rcases h1 with h1 | ⟨o1, n1⟩
  · rcases h2 with h2 | ⟨o2, _⟩
    · left; omega
    · left; omega
  rcases h2 with h2 | ⟨o2, n2⟩
  · left; omega
  right
  refine ⟨by omega, ?_⟩
  -- ¬ b < a, ¬ c < b ⊢ ¬ c < a
  cases h : nameLt c.name a.name
  · rfl
  · exfalso
    cases hab : nameLt a.name b.name
    · have := nameLt_connected hab n1
      rw [this] at h
      rw [h] at n2
      cases n2
    · have := nameLt_trans h hab
      rw [this] at n2
      cases n2

theorem Desc.le_antisymm (a b : Desc) (h1 : Desc.le a b = true) (h2 : Desc.le b a = true) : a = b := by
  simp only [Desc.le, Bool.or_eq_true, decide_eq_true_eq, Bool.and_eq_true, beq_iff_eq, Bool.not_eq_true'] at h1 h2
  have ev : a.ver = b.ver := by
    rcases h1 with h1 | ⟨e1, _⟩ <;> rcases h2 with h2 | ⟨e2, _⟩ <;> omega
  have h1' := h1.resolve_left (by omega)
  have h2' := h2.resolve_left (by omega)
  have eo : a.obj = b.obj := by
    rcases h1'.2 with h | ⟨e, _⟩ <;> rcases h2'.2 with h' | ⟨e', _⟩ <;> omega
  have n1 := (h1'.2.resolve_left (by omega)).2
  have n2 := (h2'.2.resolve_left (by omega)).2
  have en : a.name = b.name := nameLt_connected n2 n1
  cases a; cases b; simp_all

/-! ## Sorting -/

theorem sortDescs_sorted (l : List Desc) : (sortDescs l).Pairwise (fun a b => Desc.le a b = true) :=
  List.pairwise_mergeSort (le := Desc.le) Desc.le_trans Desc.le_total l

theorem sortDescs_perm (l : List Desc) : (sortDescs l).Perm l := List.mergeSort_perm l Desc.le

theorem mem_sortDescs {d : Desc} {l : List Desc} : d ∈ sortDescs l ↔ d ∈ l := (sortDescs_perm l).mem_iff

theorem eq_of_sorted_perm {l₁ l₂ : List Desc} (h₁ : l₁.Pairwise (fun a b => Desc.le a b = true))
    (h₂ : l₂.Pairwise (fun a b => Desc.le a b = true)) (p : l₁.Perm l₂) : l₁ = l₂ :=
  List.Perm.eq_of_pairwise (le := fun a b => Desc.le a b = true)
    (fun a b _ _ h1 h2 => Desc.le_antisymm a b h1 h2) h₁ h₂ p

theorem sortDescs_eq_of_perm {l₁ l₂ : List Desc} (p : l₁.Perm l₂) : sortDescs l₁ = sortDescs l₂ :=
  eq_of_sorted_perm (sortDescs_sorted _) (sortDescs_sorted _)
    ((sortDescs_perm l₁).trans (p.trans (sortDescs_perm l₂).symm))

theorem Desc.le_of_ver_lt {a b : Desc} (h : a.ver < b.ver) : Desc.le a b = true := by
  simp [Desc.le, h]

/-- The sorting lemma behind id stability. -/
theorem sortDescs_append (old added : List Desc) (h : ∀ o ∈ old, ∀ m ∈ added, o.ver < m.ver) :
    sortDescs (old ++ added) = sortDescs old ++ sortDescs added := by
  apply eq_of_sorted_perm (sortDescs_sorted _)
  · rw [List.pairwise_append]
    refine ⟨sortDescs_sorted _, sortDescs_sorted _, ?_⟩
    intro a ha b hb
    exact Desc.le_of_ver_lt (h a (mem_sortDescs.1 ha) b (mem_sortDescs.1 hb))
  · exact (sortDescs_perm _).trans ((sortDescs_perm old).symm.append (sortDescs_perm added).symm)

/-- A sorted permutation of the enumerated descriptors IS the id table (used to evaluate concrete id tables: the
kernel does not unfold `mergeSort`'s well-founded recursion). -/
theorem sortDescs_eq_of_sorted_perm {l s : List Desc} (hs : s.Pairwise (fun a b => Desc.le a b = true))
    (hp : s.Perm l) : sortDescs l = s :=
  eq_of_sorted_perm (sortDescs_sorted l) hs ((sortDescs_perm l).trans hp.symm)

/-! ## Method ids -/

theorem mem_idToMethod {cls : ClassDef} {d : Desc} : d ∈ idToMethod cls ↔ ∃ c ∈ cls, c.desc = d := by
  simp [idToMethod, mem_sortDescs, methodsToEnumerate]

theorem idToMethod_perm {c₁ c₂ : ClassDef} (p : c₁.Perm c₂) : idToMethod c₁ = idToMethod c₂ :=
  sortDescs_eq_of_perm (p.map _)

theorem idToMethod_append (old added : ClassDef) (h : ∀ o ∈ old, ∀ m ∈ added, o.ver < m.ver) :
    idToMethod (old ++ added) = idToMethod old ++ idToMethod added := by
  unfold idToMethod methodsToEnumerate
  rw [List.map_append]
  apply sortDescs_append
  intro o ho m hm
  obtain ⟨o', ho', rfl⟩ := List.mem_map.1 ho
  obtain ⟨m', hm', rfl⟩ := List.mem_map.1 hm
  exact h o' ho' m' hm'

theorem idToMethod_new (old added new : ClassDef) (p : new.Perm (old ++ added))
    (h : ∀ o ∈ old, ∀ m ∈ added, o.ver < m.ver) :
    idToMethod new = idToMethod old ++ idToMethod added := by
  rw [idToMethod_perm p, idToMethod_append old added h]

theorem methodToID_new (old added new : ClassDef) (p : new.Perm (old ++ added))
    (h : ∀ o ∈ old, ∀ m ∈ added, o.ver < m.ver) (obj : Nat) (name : Name) (i : Nat)
    (hi : methodToID old obj name = some i) : methodToID new obj name = some i := by
  unfold methodToID at hi ⊢
  rw [idToMethod_new old added new p h, List.findIdx?_append, hi]
  rfl

theorem foldl_max_ver (l : List Desc) (m : Nat) :
    m ≤ l.foldl (fun m d => max m d.ver) m ∧ (∀ d ∈ l, d.ver ≤ l.foldl (fun m d => max m d.ver) m) ∧
    (l.foldl (fun m d => max m d.ver) m = m ∨ ∃ d ∈ l, d.ver = l.foldl (fun m d => max m d.ver) m) := by
  induction l generalizing m with
  | nil => simp
  | cons x xs ih =>
    simp only [List.foldl_cons, List.mem_cons, forall_eq_or_imp, exists_eq_or_imp]
    obtain ⟨h1, h2, h3⟩ := ih (max m x.ver)
    refine ⟨by omega, ⟨by omega, h2⟩, ?_⟩
    rcases h3 with h3 | ⟨d, hd, e⟩
    · rw [h3]
      by_cases hm : x.ver ≤ m
      · left; omega
      · right; left; omega
    · right; right; exact ⟨d, hd, e⟩

theorem ver_le_selfCodeVersion {cls : ClassDef} {c : Decl} (hc : c ∈ cls) : c.ver ≤ selfCodeVersion cls :=
  (foldl_max_ver (idToMethod cls) 0).2.1 c.desc (mem_idToMethod.2 ⟨c, hc, rfl⟩)

theorem selfCodeVersion_attained (cls : ClassDef) :
    selfCodeVersion cls = 0 ∨ ∃ c ∈ cls, c.ver = selfCodeVersion cls := by
  rcases (foldl_max_ver (idToMethod cls) 0).2.2 with h | ⟨d, hd, e⟩
  · exact .inl h
  · obtain ⟨c, hc, rfl⟩ := mem_idToMethod.1 hd
    exact .inr ⟨c, hc, e⟩

/-! ## Name table -/

/-- The loop with `break` on an ascending list: either every version is above `e` and nothing is written, or the
entry written last is the greatest version `≤ e`. -/
theorem walk_sorted (e : Nat) : ∀ (l : List Nat) (acc : Option Nat), l.Pairwise (· ≤ ·) →
    ((∀ w ∈ l, e < w) ∧ walk e l acc = acc) ∨
    ∃ v, walk e l acc = some v ∧ v ∈ l ∧ v ≤ e ∧ ∀ w ∈ l, w ≤ e → w ≤ v
  | [], acc, _ => .inl ⟨by simp, rfl⟩
  | v :: vs, acc, hs => by
    rw [List.pairwise_cons] at hs
    by_cases hv : v > e
    · left
      refine ⟨?_, by simp [walk, hv]⟩
      intro w hw
      rcases List.mem_cons.1 hw with rfl | hw
      · exact hv
      · have := hs.1 w hw; omega
    · right
      have hw : walk e (v :: vs) acc = walk e vs (some v) := by simp [walk, hv]
      rcases walk_sorted e vs (some v) hs.2 with ⟨hall, heq⟩ | ⟨v', h1, h2, h3, h4⟩
      · refine ⟨v, by rw [hw, heq], List.mem_cons_self, by omega, ?_⟩
        intro w hw' hle
        rcases List.mem_cons.1 hw' with rfl | hw'
        · exact Nat.le_refl _
        · have := hall w hw'; omega
      · refine ⟨v', by rw [hw, h1], List.mem_cons_of_mem _ h2, h3, ?_⟩
        intro w hw' hle
        rcases List.mem_cons.1 hw' with rfl | hw'
        · exact hs.1 v' h2
        · exact h4 w hw' hle

theorem mem_versionsOf {cls : ClassDef} {k : Key} {v : Nat} :
    v ∈ versionsOf cls k ↔ ∃ c ∈ cls, c.key = k ∧ c.ver = v := by
  simp only [versionsOf, List.mem_eraseDups, List.mem_map, List.mem_filter, beq_iff_eq]
  constructor
  · rintro ⟨c, ⟨hc, hk⟩, rfl⟩; exact ⟨c, hc, hk, rfl⟩
  · rintro ⟨c, hc, hk, rfl⟩; exact ⟨c, ⟨hc, hk⟩, rfl⟩

theorem mem_sortedVersions {cls : ClassDef} {k : Key} {v : Nat} :
    v ∈ sortedVersions cls k ↔ ∃ c ∈ cls, c.key = k ∧ c.ver = v := by
  simp only [sortedVersions, List.mem_mergeSort, mem_versionsOf]

theorem sortedVersions_sorted (cls : ClassDef) (k : Key) : (sortedVersions cls k).Pairwise (· ≤ ·) := by
  have := List.pairwise_mergeSort (le := fun a b : Nat => decide (a ≤ b))
    (by intro a b c; simp only [decide_eq_true_eq]; omega)
    (by intro a b; simp only [Bool.or_eq_true, decide_eq_true_eq]; omega) (versionsOf cls k)
  simpa only [decide_eq_true_eq, sortedVersions] using this

theorem resolveVer_spec (cls : ClassDef) (e : Nat) (k : Key) :
    (resolveVer cls e k = none ∧ ∀ c ∈ cls, c.key = k → e < c.ver) ∨
    ∃ v, resolveVer cls e k = some v ∧ (∃ c ∈ cls, c.key = k ∧ c.ver = v) ∧ v ≤ e ∧
      ∀ c ∈ cls, c.key = k → c.ver ≤ e → c.ver ≤ v := by
  rcases walk_sorted e (sortedVersions cls k) none (sortedVersions_sorted cls k) with ⟨h1, h2⟩ | ⟨v, h1, h2, h3, h4⟩
  · left
    exact ⟨h2, fun c hc hk => h1 c.ver (mem_sortedVersions.2 ⟨c, hc, hk, rfl⟩)⟩
  · right
    exact ⟨v, h1, mem_sortedVersions.1 h2, h3, fun c hc hk hle => h4 c.ver (mem_sortedVersions.2 ⟨c, hc, hk, rfl⟩) hle⟩

theorem resolveVer_some_iff (cls : ClassDef) (e : Nat) (k : Key) (v : Nat) :
    resolveVer cls e k = some v ↔
      (∃ c ∈ cls, c.key = k ∧ c.ver = v) ∧ v ≤ e ∧ ∀ c ∈ cls, c.key = k → c.ver ≤ e → c.ver ≤ v := by
  constructor
  · intro h
    rcases resolveVer_spec cls e k with ⟨h0, _⟩ | ⟨v', h1, h2, h3, h4⟩
    · rw [h0] at h; cases h
    · rw [h1] at h; cases h; exact ⟨h2, h3, h4⟩
  · rintro ⟨⟨c, hc, hk, rfl⟩, hle, hmax⟩
    rcases resolveVer_spec cls e k with ⟨_, hall⟩ | ⟨v', h1, ⟨c', hc', hk', rfl⟩, h3, h4⟩
    · have := hall c hc hk; omega
    · rw [h1]
      have a := h4 c hc hk hle
      have b := hmax c' hc' hk' h3
      congr 1; omega

theorem resolveVer_none_iff (cls : ClassDef) (e : Nat) (k : Key) :
    resolveVer cls e k = none ↔ ∀ c ∈ cls, c.key = k → e < c.ver := by
  constructor
  · intro h
    rcases resolveVer_spec cls e k with ⟨_, hall⟩ | ⟨v', h1, _⟩
    · exact hall
    · rw [h1] at h; cases h
  · intro hall
    rcases resolveVer_spec cls e k with ⟨h0, _⟩ | ⟨v', _, ⟨c, hc, hk, rfl⟩, h3, _⟩
    · exact h0
    · have := hall c hc hk; omega

/-! ## `mkName` is injective -/

theorem digitsRev_ne_nil (n : Nat) : digitsRev n ≠ [] := by
  rw [digitsRev]; split <;> simp

theorem digitsRev_range : ∀ (n : Nat), ∀ c ∈ digitsRev n, 48 ≤ c ∧ c ≤ 57 := by
  intro n
  induction n using Nat.strongRecOn with
  | _ n ih =>
    intro c hc
    rw [digitsRev] at hc
    split at hc
    · simp at hc; omega
    · rcases List.mem_cons.1 hc with rfl | hc
      · omega
      · exact ih (n / 10) (by omega) c hc

theorem digitsRev_inj : ∀ (n m : Nat), digitsRev n = digitsRev m → n = m := by
  intro n
  induction n using Nat.strongRecOn with
  | _ n ih =>
    intro m h
    rw [digitsRev] at h
    conv at h => rhs; rw [digitsRev]
    split at h <;> split at h
    · simp at h; omega
    · simp only [List.cons.injEq] at h
      exact absurd h.2.symm (digitsRev_ne_nil _)
    · simp only [List.cons.injEq] at h
      exact absurd h.2 (digitsRev_ne_nil _)
    · simp only [List.cons.injEq] at h
      have := ih (n / 10) (by omega) (m / 10) h.2
      omega

theorem append_cons_inj_of_notMem {a : Nat} : ∀ {xs ys r₁ r₂ : List Nat}, a ∉ xs → a ∉ ys →
    xs ++ a :: r₁ = ys ++ a :: r₂ → xs = ys ∧ r₁ = r₂
  | [], [], _, _, _, _, h => by simpa using h
  | [], y :: ys, _, _, _, hy, h => by
    simp only [List.nil_append, List.cons_append, List.cons.injEq] at h
    exact absurd h.1 (fun e => hy (e ▸ List.mem_cons_self))
  | x :: xs, [], _, _, hx, _, h => by
    simp only [List.nil_append, List.cons_append, List.cons.injEq] at h
    exact absurd h.1.symm (fun e => hx (e ▸ List.mem_cons_self))
  | x :: xs, y :: ys, _, _, hx, hy, h => by
    simp only [List.cons_append, List.cons.injEq] at h
    have := append_cons_inj_of_notMem (fun m => hx (List.mem_cons_of_mem _ m))
      (fun m => hy (List.mem_cons_of_mem _ m)) h.2
    exact ⟨by rw [h.1, this.1], this.2⟩

theorem mkName_inj {o₁ o₂ : Name} {v₁ v₂ : Nat} (h : mkName o₁ v₁ = mkName o₂ v₂) : o₁ = o₂ ∧ v₁ = v₂ := by
  have h' := congrArg List.reverse h
  simp only [mkName, digits, List.reverse_append, List.reverse_cons, List.reverse_reverse,
    List.append_assoc, List.cons_append, List.nil_append] at h'
  have n1 : (118 : Nat) ∉ digitsRev v₁ := fun m => by have := digitsRev_range v₁ 118 m; omega
  have n2 : (118 : Nat) ∉ digitsRev v₂ := fun m => by have := digitsRev_range v₂ 118 m; omega
  have := append_cons_inj_of_notMem n1 n2 h'
  refine ⟨?_, digitsRev_inj _ _ this.1⟩
  have h2 := this.2
  simp only [List.cons.injEq, true_and] at h2
  exact List.reverse_inj.1 h2

theorem Decl.desc_inj {c₁ c₂ : Decl} (h : c₁.desc = c₂.desc) : c₁ = c₂ := by
  cases c₁; cases c₂
  simp only [Decl.desc, Desc.mk.injEq] at h
  obtain ⟨hv, ho, hn⟩ := h
  have := mkName_inj hn
  simp_all

/-! ## The id a call produces -/

theorem callId_none {cls : ClassDef} {e : Nat} {k : Key} (h : resolveVer cls e k = none) : callId cls e k = none := by
  simp [callId, funcName, h]

theorem callId_some {cls : ClassDef} {e : Nat} {k : Key} {v : Nat} (h : resolveVer cls e k = some v) :
    ∃ i, callId cls e k = some i ∧ (idToMethod cls)[i]? = some ⟨v, k.obj, mkName k.orig v⟩ := by
  obtain ⟨⟨c, hc, hk, hv⟩, _, _⟩ := (resolveVer_some_iff cls e k v).1 h
  have hcall : callId cls e k = methodToID cls k.obj (mkName k.orig v) := by simp [callId, funcName, h]
  rw [hcall]
  unfold methodToID
  cases hf : (idToMethod cls).findIdx? (fun d => d.obj == k.obj && d.name == mkName k.orig v) with
  | none =>
    exfalso
    rw [List.findIdx?_eq_none_iff] at hf
    have := hf c.desc (mem_idToMethod.2 ⟨c, hc, rfl⟩)
    subst hk hv
    simp [Decl.desc, Decl.key] at this
  | some i =>
    refine ⟨i, rfl, ?_⟩
    rw [List.findIdx?_eq_some_iff_getElem] at hf
    obtain ⟨hi, hp, _⟩ := hf
    rw [List.getElem?_eq_getElem hi]
    obtain ⟨c', _, hd⟩ := mem_idToMethod.1 (List.getElem_mem hi)
    simp only [Bool.and_eq_true, beq_iff_eq] at hp
    rw [← hd] at hp ⊢
    have := mkName_inj hp.2
    have ho : c'.obj = k.obj := hp.1
    simp only [Decl.desc, this.1, this.2, ho]

end PSO.Versions
