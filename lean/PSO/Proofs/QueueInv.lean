import PSO.Model.Queue

/-! Inductive invariant of the hand-over system `PSO.Queue.Sys` (property C19).

`Inv s` holds in the initial state and is preserved by every atomic action (`Sys.step`), hence in
every state reachable by any schedule (`Sys.exec`), i.e. for every interleaving of the caller threads,
the tick thread and the core's answers. -/
namespace PSO.Queue

/-! ## counting events -/

def Ev.isEnq (c : CallId) : Ev → Bool
  | .enq c' => c' == c
  | _ => false
def Ev.isFull (c : CallId) : Ev → Bool
  | .full c' => c' == c
  | _ => false
def Ev.isDeq (m : CmdRef) : Ev → Bool
  | .deq m' => m' == m
  | _ => false
def Ev.isApp (m : CmdRef) : Ev → Bool
  | .appended m' _ _ => m' == m
  | _ => false
def Ev.isFwd (m : CmdRef) : Ev → Bool
  | .forwarded m' _ => m' == m
  | _ => false
def Ev.isDrop (m : CmdRef) : Ev → Bool
  | .dropped m' _ => m' == m
  | _ => false
def Ev.isFired (c : CallId) : Ev → Bool
  | .fired c' _ _ => c' == c
  | _ => false
def Ev.isRet (c : CallId) : Ev → Bool
  | .ret c' _ => c' == c
  | _ => false

/-- commands in the order they entered the queue (oldest first); `hist` is newest first -/
def enqSeq : List Ev → List CmdRef
  | [] => []
  | .enq c :: h => enqSeq h ++ [.call c]
  | .renq k :: h => enqSeq h ++ [.foreign k]
  | _ :: h => enqSeq h

/-- commands in the order they left the queue -/
def deqSeq : List Ev → List CmdRef
  | [] => []
  | .deq m :: h => deqSeq h ++ [m]
  | _ :: h => deqSeq h

/-! ## static facts about a call (they depend on the thread programs only) -/

def Sys.planAt (s : Sys) (c : CallId) : Option Plan := ((s.thr c.t).prog[c.k]?).map planOf

def Sys.modeAt (s : Sys) (c : CallId) : Option Mode :=
  match s.planAt c with
  | some (.replicate _ m) => some m
  | _ => none

/-- call `c` goes through the queue (it is not a local `_doApply` run) -/
def Sys.isRepl (s : Sys) (c : CallId) : Bool := (s.modeAt c).isSome

/-- call `c` hands a callback of its own to `_applyCommand` -/
def Sys.hasCb (s : Sys) (c : CallId) : Bool :=
  match s.modeAt c with
  | some m => m.hasCb
  | none => false

/-- call `c` has executed its `_applyCommand` step -/
def Sys.putDone (s : Sys) (c : CallId) : Prop :=
  c.k < (s.thr c.t).next ∨ (c.k = (s.thr c.t).next ∧ (s.thr c.t).phase = .waiting)

instance (s : Sys) (c : CallId) : Decidable (s.putDone c) := by unfold Sys.putDone; infer_instance

def tok (cb : CbRef) (c : CallId) : Nat := if cb.isFor c then 1 else 0

/-- every `ret` event in the history (newest first) is a timeout of a call that has one, or is what
`outcomeOf` makes of an OLDER `fired` event of the same call -/
def RetJ (planAt : CallId → Option Plan) (hist : List Ev) : Prop :=
  ∀ pre post c o, hist = pre ++ Ev.ret c o :: post →
    (o = .timeout ∧ ∃ cmd tmo, planAt c = some (.replicate cmd (.sync tmo)) ∧ tmo.isSome = true) ∨
    ∃ r e, Ev.fired c r e ∈ post ∧ o = outcomeOf r e

/-! ## the invariant -/

/-- a set `AsyncResult` holds what its callback was invoked with -/
def AresOk (ars : CallId → ARes) (hist : List Ev) : Prop :=
  ∀ c, (ars c).flag = true → ∃ r e, ars c = ⟨r, some e, true⟩ ∧ Ev.fired c r e ∈ hist

/-- a callback gets the result of its own command with SUCCESS, or `None` with a failure -/
def FiredGood (resultOf : CmdRef → Nat) (hist : List Ev) : Prop :=
  ∀ c r e, Ev.fired c r e ∈ hist → r = if e = .success then some (resultOf (.call c)) else none

/-- the part of the invariant that does not mention the threads -/
structure InvTF (s : Sys) : Prop where
  /-- FIFO: what was enqueued = what was dequeued, then what is still queued, in order -/
  fifo : enqSeq s.hist = deqSeq s.hist ++ s.q.items.map (fun e => e.cmd)
  /-- command and callback of a queue entry belong to the same call -/
  pairQ : ∀ e ∈ s.q.items, ∀ c, e.cb.isFor c = true → e.cmd = .call c
  pairP : ∀ p ∈ s.pend, ∀ c, p.e.cb.isFor c = true → p.e.cmd = .call c
  /-- every dequeued command went exactly one way -/
  disp : ∀ m, s.hist.countP (Ev.isDeq m)
              = s.hist.countP (Ev.isApp m) + s.hist.countP (Ev.isFwd m) + s.hist.countP (Ev.isDrop m)
  /-- a set `AsyncResult` holds what its callback was invoked with -/
  ares : AresOk s.ars s.hist
  /-- a callback gets the result of its own command, or `None` with a failure -/
  firedGood : FiredGood s.resultOf s.hist
  /-- request ids in `commandsWaitingReply` were issued by the counter -/
  keys : ∀ p ∈ s.pend, ∀ n, p.key = .reply n → n ≤ s.counter

/-- where the callback of call `c` is: in the queue, registered with the core, or fired -/
def Sys.tokSum (s : Sys) (c : CallId) : Nat :=
  s.q.items.countP (fun e => e.cb.isFor c) + s.pend.countP (fun p => p.e.cb.isFor c)
    + s.hist.countP (Ev.isFired c)

/-- how often call `c` was enqueued or refused -/
def Sys.enqSum (s : Sys) (c : CallId) : Nat :=
  s.hist.countP (Ev.isEnq c) + s.hist.countP (Ev.isFull c)

structure Inv (s : Sys) : Prop extends InvTF s where
  /-- the callback of a call is in exactly one place: queue, core, or it has fired -/
  token : ∀ c, s.tokSum c = if s.hasCb c = true ∧ s.putDone c then 1 else 0
  /-- a call is enqueued once or refused once, when (and only when) its put step ran -/
  enq1 : ∀ c, s.enqSum c = if s.isRepl c = true ∧ s.putDone c then 1 else 0
  /-- every return of a sync call is justified by an earlier invocation of its callback, or is a timeout -/
  retJust : RetJ s.planAt s.hist
  /-- a refused call that has a callback was told `QUEUE_FULL` through it -/
  fullFired : ∀ c, Ev.full c ∈ s.hist → s.hasCb c = true → Ev.fired c none .queueFull ∈ s.hist
  /-- a thread past `start` is inside a replicated call; a waiting one inside a sync call -/
  builtOk : ∀ t, (s.thr t).phase ≠ .start → ∃ c cmd mode, s.current t = some (c, .replicate cmd mode)
  waitOk : ∀ t, (s.thr t).phase = .waiting → ∃ c cmd tmo, s.current t = some (c, .replicate cmd (.sync tmo))

/-! ## small facts -/

@[simp] theorem upd_same {β : Type} (f : Nat → β) (t : Nat) (v : β) : upd f t v t = v := by simp [upd]
theorem upd_other {β : Type} (f : Nat → β) {t i : Nat} (v : β) (h : i ≠ t) : upd f t v i = f i := by simp [upd, h]

@[simp] theorem enqSeq_nil : enqSeq [] = [] := rfl
@[simp] theorem deqSeq_nil : deqSeq [] = [] := rfl

theorem current_eq {s : Sys} {t : Nat} {c : CallId} {p : Plan} (h : s.current t = some (c, p)) :
    c = ⟨t, (s.thr t).next⟩ ∧ s.planAt c = some p := by
  unfold Sys.current Thread.cur at h
  split at h
  · simp at h
  · rename_i sp hsp
    simp only [Option.some.injEq, Prod.mk.injEq] at h
    obtain ⟨rfl, rfl⟩ := h
    exact ⟨rfl, by simp [Sys.planAt, hsp]⟩

/-! ## `invoke` -/

def invokeEvs (cb : CbRef) (r : Option Nat) (e : Fail) : List Ev :=
  match cb with
  | .none => []
  | .user c => [.fired c r e]
  | .ares c => [.fired c r e]
  | .remote n q => [.sent n q (.err e)]

@[simp] theorem invoke_q (s : Sys) (cb r e) : (s.invoke cb r e).q = s.q := by cases cb <;> rfl
@[simp] theorem invoke_pend (s : Sys) (cb r e) : (s.invoke cb r e).pend = s.pend := by cases cb <;> rfl
@[simp] theorem invoke_thr (s : Sys) (cb r e) : (s.invoke cb r e).thr = s.thr := by cases cb <;> rfl
@[simp] theorem invoke_counter (s : Sys) (cb r e) : (s.invoke cb r e).counter = s.counter := by cases cb <;> rfl
@[simp] theorem invoke_resultOf (s : Sys) (cb r e) : (s.invoke cb r e).resultOf = s.resultOf := by cases cb <;> rfl
theorem invoke_hist (s : Sys) (cb r e) : (s.invoke cb r e).hist = invokeEvs cb r e ++ s.hist := by cases cb <;> rfl
theorem invoke_ars (s : Sys) (cb r e) :
    (s.invoke cb r e).ars = match cb with
      | .ares c => updC s.ars c ⟨r, some e, true⟩
      | _ => s.ars := by cases cb <;> rfl

@[simp] theorem enqSeq_invokeEvs (cb r e) (h : List Ev) : enqSeq (invokeEvs cb r e ++ h) = enqSeq h := by
  cases cb <;> simp [invokeEvs, enqSeq]
@[simp] theorem deqSeq_invokeEvs (cb r e) (h : List Ev) : deqSeq (invokeEvs cb r e ++ h) = deqSeq h := by
  cases cb <;> simp [invokeEvs, deqSeq]

@[simp] theorem countP_isFired_invokeEvs (cb r e c) : (invokeEvs cb r e).countP (Ev.isFired c) = tok cb c := by
  cases cb <;> simp [invokeEvs, Ev.isFired, tok, CbRef.isFor, List.countP_cons]
@[simp] theorem countP_isEnq_invokeEvs (cb r e c) : (invokeEvs cb r e).countP (Ev.isEnq c) = 0 := by
  cases cb <;> simp [invokeEvs, Ev.isEnq]
@[simp] theorem countP_isFull_invokeEvs (cb r e c) : (invokeEvs cb r e).countP (Ev.isFull c) = 0 := by
  cases cb <;> simp [invokeEvs, Ev.isFull]
@[simp] theorem countP_isDeq_invokeEvs (cb r e m) : (invokeEvs cb r e).countP (Ev.isDeq m) = 0 := by
  cases cb <;> simp [invokeEvs, Ev.isDeq]
@[simp] theorem countP_isApp_invokeEvs (cb r e m) : (invokeEvs cb r e).countP (Ev.isApp m) = 0 := by
  cases cb <;> simp [invokeEvs, Ev.isApp]
@[simp] theorem countP_isFwd_invokeEvs (cb r e m) : (invokeEvs cb r e).countP (Ev.isFwd m) = 0 := by
  cases cb <;> simp [invokeEvs, Ev.isFwd]
@[simp] theorem countP_isDrop_invokeEvs (cb r e m) : (invokeEvs cb r e).countP (Ev.isDrop m) = 0 := by
  cases cb <;> simp [invokeEvs, Ev.isDrop]

/-- the static facts only depend on the threads -/
theorem static_of_thr {s s' : Sys} (h : s'.thr = s.thr) :
    s'.planAt = s.planAt ∧ s'.modeAt = s.modeAt ∧ s'.isRepl = s.isRepl ∧ s'.hasCb = s.hasCb ∧
    s'.putDone = s.putDone ∧ s'.current = s.current := by
  refine ⟨?_, ?_, ?_, ?_, ?_, ?_⟩ <;> funext c <;>
    simp [Sys.planAt, Sys.modeAt, Sys.isRepl, Sys.hasCb, Sys.putDone, Sys.current, h]

/-! ## `RetJ` -/

theorem cons_eq_append_cons {α : Type} {x y : α} {h pre post : List α} (e : x :: h = pre ++ y :: post) :
    (pre = [] ∧ x = y ∧ h = post) ∨ ∃ pre', pre = x :: pre' ∧ h = pre' ++ y :: post := by
  cases pre with
  | nil => simp at e; exact Or.inl ⟨rfl, e.1, e.2⟩
  | cons z pre' =>
    simp only [List.cons_append, List.cons.injEq] at e
    exact Or.inr ⟨pre', by rw [e.1], e.2⟩

theorem RetJ_cons_other {P : CallId → Option Plan} {h : List Ev} {x : Ev} (hx : ∀ c o, x ≠ .ret c o)
    (hj : RetJ P h) : RetJ P (x :: h) := by
  intro pre post c o e
  rcases cons_eq_append_cons e with ⟨_, hxy, _⟩ | ⟨pre', _, e'⟩
  · exact absurd hxy (hx c o)
  · exact hj pre' post c o e'

theorem RetJ_cons_ret {P : CallId → Option Plan} {h : List Ev} {c : CallId} {o : Outcome} (hj : RetJ P h)
    (hc : (o = .timeout ∧ ∃ cmd tmo, P c = some (.replicate cmd (.sync tmo)) ∧ tmo.isSome = true) ∨
      ∃ r e, Ev.fired c r e ∈ h ∧ o = outcomeOf r e) : RetJ P (.ret c o :: h) := by
  intro pre post c' o' e
  rcases cons_eq_append_cons e with ⟨_, hxy, hp⟩ | ⟨pre', _, e'⟩
  · simp only [Ev.ret.injEq] at hxy
    obtain ⟨rfl, rfl⟩ := hxy
    subst hp
    exact hc
  · exact hj pre' post c' o' e'

theorem RetJ_invokeEvs {P : CallId → Option Plan} {h : List Ev} (cb r e) (hj : RetJ P h) :
    RetJ P (invokeEvs cb r e ++ h) := by
  cases cb <;> simp only [invokeEvs, List.nil_append, List.cons_append] <;>
    first | exact hj | exact RetJ_cons_other (by intro c o; simp) hj

/-! ## `AresOk`, `FiredGood` -/

theorem AresOk_mono {ars : CallId → ARes} {h h' : List Ev} (hs : ∀ x ∈ h, x ∈ h') (ha : AresOk ars h) :
    AresOk ars h' := by
  intro c hc
  obtain ⟨r, e, h1, h2⟩ := ha c hc
  exact ⟨r, e, h1, hs _ h2⟩

theorem AresOk_invoke {s : Sys} (cb r e) (ha : AresOk s.ars s.hist) :
    AresOk (s.invoke cb r e).ars (s.invoke cb r e).hist := by
  rw [invoke_ars, invoke_hist]
  cases cb with
  | ares c0 =>
    intro c hc
    by_cases hcc : c = c0
    · subst hcc
      exact ⟨r, e, by simp [updC], by simp [invokeEvs]⟩
    · simp only [updC, hcc, ↓reduceIte] at hc ⊢
      obtain ⟨r', e', h1, h2⟩ := ha c hc
      exact ⟨r', e', h1, by simp [h2]⟩
  | none => simpa [invokeEvs] using ha
  | user c0 => exact AresOk_mono (by intro x hx; simp [hx]) ha
  | remote n q => exact AresOk_mono (by intro x hx; simp [hx]) ha

theorem FiredGood_cons_other {ro : CmdRef → Nat} {h : List Ev} {x : Ev} (hx : ∀ c r e, x ≠ .fired c r e)
    (hf : FiredGood ro h) : FiredGood ro (x :: h) := by
  intro c r e hm
  rcases List.mem_cons.mp hm with hm | hm
  · exact absurd hm.symm (hx c r e)
  · exact hf c r e hm

theorem FiredGood_invokeEvs {ro : CmdRef → Nat} {h : List Ev} (cb : CbRef) (r : Option Nat) (e : Fail)
    (hr : ∀ c, cb.isFor c = true → r = if e = .success then some (ro (.call c)) else none)
    (hf : FiredGood ro h) : FiredGood ro (invokeEvs cb r e ++ h) := by
  cases cb with
  | none => simpa [invokeEvs] using hf
  | remote n q => exact FiredGood_cons_other (by intro c r e; simp) hf
  | user c0 =>
    intro c r' e' hm
    simp only [invokeEvs, List.cons_append, List.nil_append, List.mem_cons, Ev.fired.injEq] at hm
    rcases hm with ⟨rfl, rfl, rfl⟩ | hm
    · exact hr c (by simp [CbRef.isFor])
    · exact hf c r' e' hm
  | ares c0 =>
    intro c r' e' hm
    simp only [invokeEvs, List.cons_append, List.nil_append, List.mem_cons, Ev.fired.injEq] at hm
    rcases hm with ⟨rfl, rfl, rfl⟩ | hm
    · exact hr c (by simp [CbRef.isFor])
    · exact hf c r' e' hm

/-! ## updating one thread -/

theorem planAt_of_thr {s s' : Sys} {t : Nat} {th' : Thread} (h : s'.thr = upd s.thr t th')
    (hp : th'.prog = (s.thr t).prog) : s'.planAt = s.planAt := by
  funext c
  unfold Sys.planAt
  rw [h]
  by_cases hc : c.t = t
  · subst hc; simp [hp]
  · rw [upd_other _ _ hc]

theorem static_of_thr' {s s' : Sys} {t : Nat} {th' : Thread} (h : s'.thr = upd s.thr t th')
    (hp : th'.prog = (s.thr t).prog) :
    s'.planAt = s.planAt ∧ s'.modeAt = s.modeAt ∧ s'.isRepl = s.isRepl ∧ s'.hasCb = s.hasCb := by
  have h1 := planAt_of_thr h hp
  have h2 : s'.modeAt = s.modeAt := by funext c; simp [Sys.modeAt, h1]
  exact ⟨h1, h2, by funext c; simp [Sys.isRepl, h2], by funext c; simp [Sys.hasCb, h2]⟩

theorem putDone_of_thr {s s' : Sys} {t : Nat} {th' : Thread} (h : s'.thr = upd s.thr t th') (c : CallId) :
    s'.putDone c ↔ if c.t = t then (c.k < th'.next ∨ (c.k = th'.next ∧ th'.phase = .waiting)) else s.putDone c := by
  unfold Sys.putDone
  rw [h]
  by_cases hc : c.t = t
  · subst hc; simp
  · rw [upd_other _ _ hc]; simp [hc]

theorem current_of_thr {s s' : Sys} {t : Nat} {th' : Thread} (h : s'.thr = upd s.thr t th') (t' : Nat) :
    s'.current t' = if t' = t then th'.cur t else s.current t' := by
  unfold Sys.current
  rw [h]
  by_cases hc : t' = t
  · subst hc; simp
  · rw [upd_other _ _ hc]; simp [hc]

theorem InvTF_congr {s s' : Sys} (hq : s'.q = s.q) (hp : s'.pend = s.pend) (hh : s'.hist = s.hist)
    (ha : s'.ars = s.ars) (hr : s'.resultOf = s.resultOf) (hc : s'.counter = s.counter) (hi : InvTF s) :
    InvTF s' := by
  constructor
  · rw [hh, hq]; exact hi.fifo
  · rw [hq]; exact hi.pairQ
  · rw [hp]; exact hi.pairP
  · rw [hh]; exact hi.disp
  · rw [hh, ha]; exact hi.ares
  · rw [hh, hr]; exact hi.firedGood
  · rw [hp, hc]; exact hi.keys

theorem tokSum_congr {s s' : Sys} (hq : s'.q = s.q) (hp : s'.pend = s.pend) (hh : s'.hist = s.hist) (c : CallId) :
    s'.tokSum c = s.tokSum c := by unfold Sys.tokSum; rw [hq, hp, hh]

theorem enqSum_congr {s s' : Sys} (hh : s'.hist = s.hist) (c : CallId) : s'.enqSum c = s.enqSum c := by
  unfold Sys.enqSum; rw [hh]

/-! ## `_applyCommand` -/

/-- the two ways `_applyCommand` is called -/
def PutKind (e : Entry) (okEv fullEv : Ev) : Prop :=
  (∃ c0, okEv = .enq c0 ∧ fullEv = .full c0 ∧ e.cmd = .call c0) ∨
  (∃ k, okEv = .renq k ∧ fullEv = .rfull k ∧ e.cmd = .foreign k)

theorem applyCommand_frame (s : Sys) (e : Entry) (okEv fullEv : Ev) :
    (s.applyCommand e okEv fullEv).thr = s.thr ∧ (s.applyCommand e okEv fullEv).pend = s.pend ∧
    (s.applyCommand e okEv fullEv).counter = s.counter ∧ (s.applyCommand e okEv fullEv).resultOf = s.resultOf := by
  unfold Sys.applyCommand
  split <;> simp

theorem applyCommand_TF {s : Sys} (hi : InvTF s) {e : Entry} {okEv fullEv : Ev} (hk : PutKind e okEv fullEv)
    (hp : ∀ c, e.cb.isFor c = true → e.cmd = .call c) : InvTF (s.applyCommand e okEv fullEv) := by
  unfold Sys.applyCommand FastQueue.putNowait
  by_cases hfull : s.q.items.length > s.q.maxSize
  · simp only [hfull, ↓reduceIte]
    rcases hk with ⟨c0, rfl, rfl, hcmd⟩ | ⟨k, rfl, rfl, hcmd⟩
    all_goals
      constructor
      · simpa [invoke_hist, enqSeq, deqSeq] using hi.fifo
      · simpa using hi.pairQ
      · simpa using hi.pairP
      · intro m
        have := hi.disp m
        simpa [invoke_hist, List.countP_append, List.countP_cons, Ev.isDeq, Ev.isApp, Ev.isFwd, Ev.isDrop] using this
      · exact AresOk_invoke _ _ _ (AresOk_mono (by intro x hx; simp [hx]) hi.ares)
      · rw [invoke_hist, invoke_resultOf]
        exact FiredGood_invokeEvs _ _ _ (by intro c _; simp) (FiredGood_cons_other (by intro c r e; simp) hi.firedGood)
      · simpa using hi.keys
  · simp only [hfull, ↓reduceIte]
    rcases hk with ⟨c0, rfl, rfl, hcmd⟩ | ⟨k, rfl, rfl, hcmd⟩
    all_goals
      constructor
      · simp [enqSeq, deqSeq, hi.fifo, hcmd]
      · intro e' he' c hc
        simp only [List.mem_append, List.mem_cons, List.not_mem_nil, or_false] at he'
        rcases he' with he' | rfl
        · exact hi.pairQ e' he' c hc
        · exact hp c hc
      · exact hi.pairP
      · intro m
        have := hi.disp m
        simpa [List.countP_cons, Ev.isDeq, Ev.isApp, Ev.isFwd, Ev.isDrop] using this
      · exact AresOk_mono (by intro x hx; simp [hx]) hi.ares
      · exact FiredGood_cons_other (by intro c r e; simp) hi.firedGood
      · exact hi.keys

theorem applyCommand_tokSum (s : Sys) (e : Entry) {okEv fullEv : Ev} (hk : PutKind e okEv fullEv) (c : CallId) :
    (s.applyCommand e okEv fullEv).tokSum c = s.tokSum c + tok e.cb c := by
  unfold Sys.applyCommand FastQueue.putNowait Sys.tokSum
  by_cases hfull : s.q.items.length > s.q.maxSize
  · simp only [hfull, ↓reduceIte]
    rcases hk with ⟨c0, rfl, rfl, hcmd⟩ | ⟨k, rfl, rfl, hcmd⟩ <;>
      simp [invoke_hist, List.countP_append, Ev.isFired] <;> omega
  · simp only [hfull, ↓reduceIte]
    rcases hk with ⟨c0, rfl, rfl, hcmd⟩ | ⟨k, rfl, rfl, hcmd⟩ <;>
      simp [List.countP_append, List.countP_cons, Ev.isFired, tok] <;> omega

theorem applyCommand_enqSum (s : Sys) (e : Entry) {okEv fullEv : Ev} (hk : PutKind e okEv fullEv) (c : CallId) :
    (s.applyCommand e okEv fullEv).enqSum c = s.enqSum c + if okEv = .enq c then 1 else 0 := by
  unfold Sys.applyCommand FastQueue.putNowait Sys.enqSum
  by_cases hfull : s.q.items.length > s.q.maxSize
  · simp only [hfull, ↓reduceIte]
    rcases hk with ⟨c0, rfl, rfl, hcmd⟩ | ⟨k, rfl, rfl, hcmd⟩ <;>
      simp [invoke_hist, List.countP_append, List.countP_cons, Ev.isEnq, Ev.isFull] <;> omega
  · simp only [hfull, ↓reduceIte]
    rcases hk with ⟨c0, rfl, rfl, hcmd⟩ | ⟨k, rfl, rfl, hcmd⟩ <;>
      simp [List.countP_cons, Ev.isEnq, Ev.isFull] <;> omega

theorem invokeEvs_no_full (cb r e) (c : CallId) : Ev.full c ∉ invokeEvs cb r e := by
  cases cb <;> simp [invokeEvs]

theorem applyCommand_mono (s : Sys) (e : Entry) (okEv fullEv : Ev) :
    ∀ x ∈ s.hist, x ∈ (s.applyCommand e okEv fullEv).hist := by
  intro x hx
  unfold Sys.applyCommand
  split
  · simp [hx]
  · rw [invoke_hist]; simp [hx]

theorem applyCommand_full {s : Sys} {e : Entry} {okEv fullEv : Ev} (hk : PutKind e okEv fullEv) (c : CallId)
    (h : Ev.full c ∈ (s.applyCommand e okEv fullEv).hist) :
    Ev.full c ∈ s.hist ∨ (fullEv = .full c ∧ (e.cb.isFor c = true → Ev.fired c none .queueFull ∈ (s.applyCommand e okEv fullEv).hist)) := by
  unfold Sys.applyCommand at h ⊢
  split at h
  · rcases hk with ⟨c0, rfl, rfl, hcmd⟩ | ⟨k, rfl, rfl, hcmd⟩ <;> simp at h <;> exact Or.inl h
  · rw [invoke_hist] at h ⊢
    simp only [List.mem_append, List.mem_cons] at h
    rcases h with h | h | h
    · exact absurd h (invokeEvs_no_full _ _ _ _)
    · rcases hk with ⟨c0, rfl, rfl, hcmd⟩ | ⟨k, rfl, rfl, hcmd⟩
      · simp only [Ev.full.injEq] at h
        subst h
        refine Or.inr ⟨rfl, ?_⟩
        intro hfor
        obtain ⟨cmd, cb⟩ := e
        cases cb <;> simp [CbRef.isFor] at hfor <;> subst hfor <;> simp [invokeEvs]
      · simp at h
    · exact Or.inl h

theorem applyCommand_RetJ {s : Sys} (e : Entry) {okEv fullEv : Ev} (hk : PutKind e okEv fullEv)
    {P : CallId → Option Plan} (hj : RetJ P s.hist) : RetJ P (s.applyCommand e okEv fullEv).hist := by
  unfold Sys.applyCommand
  split
  · rcases hk with ⟨c0, rfl, rfl, hcmd⟩ | ⟨k, rfl, rfl, hcmd⟩ <;>
      exact RetJ_cons_other (by intro c o; simp) hj
  · rw [invoke_hist]
    rcases hk with ⟨c0, rfl, rfl, hcmd⟩ | ⟨k, rfl, rfl, hcmd⟩ <;>
      exact RetJ_invokeEvs _ _ _ (RetJ_cons_other (by intro c o; simp) hj)

end PSO.Queue
