import PSO.Model.Queue

/-! Inductive invariant of the hand-over system `PSO.Queue.Sys` (property C19).

`Inv s` holds in the initial state and is preserved by every atomic action (`Sys.step`), hence in
every state reachable by any schedule (`Sys.exec`), i.e. for every interleaving of the caller threads,
the tick thread and the core's answers. -/
namespace PSO.Queue

/-! ## counting events -/

def Ev.isEnq (c : CallId) : Ev → Bool
  | .enq c' => c' == c
  | _ => false
def Ev.isFull (c : CallId) : Ev → Bool
  | .full c' => c' == c
  | _ => false
def Ev.isDeq (m : CmdRef) : Ev → Bool
  | .deq m' => m' == m
  | _ => false
def Ev.isApp (m : CmdRef) : Ev → Bool
  | .appended m' _ _ => m' == m
  | _ => false
def Ev.isFwd (m : CmdRef) : Ev → Bool
  | .forwarded m' _ => m' == m
  | _ => false
def Ev.isDrop (m : CmdRef) : Ev → Bool
  | .dropped m' _ => m' == m
  | _ => false
def Ev.isFired (c : CallId) : Ev → Bool
  | .fired c' _ _ => c' == c
  | _ => false
def Ev.isRet (c : CallId) : Ev → Bool
  | .ret c' _ => c' == c
  | _ => false

/-- commands in the order they entered the queue (oldest first); `hist` is newest first -/
def enqSeq : List Ev → List CmdRef
  | [] => []
  | .enq c :: h => enqSeq h ++ [.call c]
  | .renq k :: h => enqSeq h ++ [.foreign k]
  | _ :: h => enqSeq h

/-- commands in the order they left the queue -/
def deqSeq : List Ev → List CmdRef
  | [] => []
  | .deq m :: h => deqSeq h ++ [m]
  | _ :: h => deqSeq h

/-! ## static facts about a call (they depend on the thread programs only) -/

def Sys.planAt (s : Sys) (c : CallId) : Option Plan := ((s.thr c.t).prog[c.k]?).map planOf

def Sys.modeAt (s : Sys) (c : CallId) : Option Mode :=
  match s.planAt c with
  | some (.replicate _ m) => some m
  | _ => none

/-- call `c` goes through the queue (it is not a local `_doApply` run) -/
def Sys.isRepl (s : Sys) (c : CallId) : Bool := (s.modeAt c).isSome

/-- call `c` hands a callback of its own to `_applyCommand` -/
def Sys.hasCb (s : Sys) (c : CallId) : Bool :=
  match s.modeAt c with
  | some m => m.hasCb
  | none => false

/-- call `c` has executed its `_applyCommand` step -/
def Sys.putDone (s : Sys) (c : CallId) : Prop :=
  c.k < (s.thr c.t).next ∨ (c.k = (s.thr c.t).next ∧ (s.thr c.t).phase = .waiting)

instance (s : Sys) (c : CallId) : Decidable (s.putDone c) := by unfold Sys.putDone; infer_instance

def tok (cb : CbRef) (c : CallId) : Nat := if cb.isFor c then 1 else 0

/-- every `ret` event in the history (newest first) is a timeout of a call that has one, or is what
`outcomeOf` makes of an OLDER `fired` event of the same call -/
def RetJ (planAt : CallId → Option Plan) (hist : List Ev) : Prop :=
  ∀ pre post c o, hist = pre ++ Ev.ret c o :: post →
    (o = .timeout ∧ ∃ cmd tmo, planAt c = some (.replicate cmd (.sync tmo)) ∧ tmo.isSome = true) ∨
    ∃ r e, Ev.fired c r e ∈ post ∧ o = outcomeOf r e

/-! ## the invariant -/

structure Inv (s : Sys) : Prop where
  /-- FIFO: what was enqueued = what was dequeued, then what is still queued, in order -/
  fifo : enqSeq s.hist = deqSeq s.hist ++ s.q.items.map (fun e => e.cmd)
  /-- command and callback of a queue entry belong to the same call -/
  pairQ : ∀ e ∈ s.q.items, ∀ c, e.cb.isFor c = true → e.cmd = .call c
  pairP : ∀ p ∈ s.pend, ∀ c, p.e.cb.isFor c = true → p.e.cmd = .call c
  /-- the callback of a call is in exactly one place: queue, core, or it has fired -/
  token : ∀ c, s.q.items.countP (fun e => e.cb.isFor c) + s.pend.countP (fun p => p.e.cb.isFor c)
              + s.hist.countP (Ev.isFired c) = if s.hasCb c = true ∧ s.putDone c then 1 else 0
  /-- a call is enqueued once or refused once, when (and only when) its put step ran -/
  enq1 : ∀ c, s.hist.countP (Ev.isEnq c) + s.hist.countP (Ev.isFull c)
              = if s.isRepl c = true ∧ s.putDone c then 1 else 0
  /-- every dequeued command went exactly one way -/
  disp : ∀ m, s.hist.countP (Ev.isDeq m)
              = s.hist.countP (Ev.isApp m) + s.hist.countP (Ev.isFwd m) + s.hist.countP (Ev.isDrop m)
  /-- a set `AsyncResult` holds what its callback was invoked with -/
  ares : ∀ c, (s.ars c).flag = true → ∃ r e, s.ars c = ⟨r, some e, true⟩ ∧ Ev.fired c r e ∈ s.hist
  /-- a callback gets the result of its own command, or `None` with a failure -/
  firedGood : ∀ c r e, Ev.fired c r e ∈ s.hist →
              r = if e = .success then some (s.resultOf (.call c)) else none
  /-- every return of a sync call is justified by an earlier invocation of its callback, or is a timeout -/
  retJust : RetJ s.planAt s.hist
  /-- request ids in `commandsWaitingReply` were issued by the counter -/
  keys : ∀ p ∈ s.pend, ∀ n, p.key = .reply n → n ≤ s.counter
  /-- a thread past `start` is inside a replicated call; a waiting one inside a sync call -/
  builtOk : ∀ t, (s.thr t).phase ≠ .start → ∃ c cmd mode, s.current t = some (c, .replicate cmd mode)
  waitOk : ∀ t, (s.thr t).phase = .waiting → ∃ c cmd tmo, s.current t = some (c, .replicate cmd (.sync tmo))

/-! ## small facts -/

@[simp] theorem upd_same {β : Type} (f : Nat → β) (t : Nat) (v : β) : upd f t v t = v := by simp [upd]
theorem upd_other {β : Type} (f : Nat → β) {t i : Nat} (v : β) (h : i ≠ t) : upd f t v i = f i := by simp [upd, h]

@[simp] theorem enqSeq_nil : enqSeq [] = [] := rfl
@[simp] theorem deqSeq_nil : deqSeq [] = [] := rfl

theorem current_eq {s : Sys} {t : Nat} {c : CallId} {p : Plan} (h : s.current t = some (c, p)) :
    c = ⟨t, (s.thr t).next⟩ ∧ s.planAt c = some p := by
  unfold Sys.current at h
  split at h
  · simp at h
  · rename_i sp hsp
    simp only [Option.some.injEq, Prod.mk.injEq] at h
    obtain ⟨rfl, rfl⟩ := h
    exact ⟨rfl, by simp [Sys.planAt, hsp]⟩

/-! ## `invoke` -/

def invokeEvs (cb : CbRef) (r : Option Nat) (e : Fail) : List Ev :=
  match cb with
  | .none => []
  | .user c => [.fired c r e]
  | .ares c => [.fired c r e]
  | .remote n q => [.sent n q (.err e)]

@[simp] theorem invoke_q (s : Sys) (cb r e) : (s.invoke cb r e).q = s.q := by cases cb <;> rfl
@[simp] theorem invoke_pend (s : Sys) (cb r e) : (s.invoke cb r e).pend = s.pend := by cases cb <;> rfl
@[simp] theorem invoke_thr (s : Sys) (cb r e) : (s.invoke cb r e).thr = s.thr := by cases cb <;> rfl
@[simp] theorem invoke_counter (s : Sys) (cb r e) : (s.invoke cb r e).counter = s.counter := by cases cb <;> rfl
@[simp] theorem invoke_resultOf (s : Sys) (cb r e) : (s.invoke cb r e).resultOf = s.resultOf := by cases cb <;> rfl
theorem invoke_hist (s : Sys) (cb r e) : (s.invoke cb r e).hist = invokeEvs cb r e ++ s.hist := by cases cb <;> rfl
theorem invoke_ars (s : Sys) (cb r e) :
    (s.invoke cb r e).ars = match cb with
      | .ares c => updC s.ars c ⟨r, some e, true⟩
      | _ => s.ars := by cases cb <;> rfl

@[simp] theorem enqSeq_invokeEvs (cb r e) (h : List Ev) : enqSeq (invokeEvs cb r e ++ h) = enqSeq h := by
  cases cb <;> simp [invokeEvs, enqSeq]
@[simp] theorem deqSeq_invokeEvs (cb r e) (h : List Ev) : deqSeq (invokeEvs cb r e ++ h) = deqSeq h := by
  cases cb <;> simp [invokeEvs, deqSeq]

@[simp] theorem countP_isFired_invokeEvs (cb r e c) : (invokeEvs cb r e).countP (Ev.isFired c) = tok cb c := by
  cases cb <;> simp [invokeEvs, Ev.isFired, tok, CbRef.isFor, List.countP_cons]
@[simp] theorem countP_isEnq_invokeEvs (cb r e c) : (invokeEvs cb r e).countP (Ev.isEnq c) = 0 := by
  cases cb <;> simp [invokeEvs, Ev.isEnq]
@[simp] theorem countP_isFull_invokeEvs (cb r e c) : (invokeEvs cb r e).countP (Ev.isFull c) = 0 := by
  cases cb <;> simp [invokeEvs, Ev.isFull]
@[simp] theorem countP_isDeq_invokeEvs (cb r e m) : (invokeEvs cb r e).countP (Ev.isDeq m) = 0 := by
  cases cb <;> simp [invokeEvs, Ev.isDeq]
@[simp] theorem countP_isApp_invokeEvs (cb r e m) : (invokeEvs cb r e).countP (Ev.isApp m) = 0 := by
  cases cb <;> simp [invokeEvs, Ev.isApp]
@[simp] theorem countP_isFwd_invokeEvs (cb r e m) : (invokeEvs cb r e).countP (Ev.isFwd m) = 0 := by
  cases cb <;> simp [invokeEvs, Ev.isFwd]
@[simp] theorem countP_isDrop_invokeEvs (cb r e m) : (invokeEvs cb r e).countP (Ev.isDrop m) = 0 := by
  cases cb <;> simp [invokeEvs, Ev.isDrop]

/-- the static facts only depend on the threads -/
theorem static_of_thr {s s' : Sys} (h : s'.thr = s.thr) :
    s'.planAt = s.planAt ∧ s'.modeAt = s.modeAt ∧ s'.isRepl = s.isRepl ∧ s'.hasCb = s.hasCb ∧
    s'.putDone = s.putDone ∧ s'.current = s.current := by
  refine ⟨?_, ?_, ?_, ?_, ?_, ?_⟩ <;> funext c <;>
    simp [Sys.planAt, Sys.modeAt, Sys.isRepl, Sys.hasCb, Sys.putDone, Sys.current, h]

/-! ## `RetJ` -/

theorem cons_eq_append_cons {α : Type} {x y : α} {h pre post : List α} (e : x :: h = pre ++ y :: post) :
    (pre = [] ∧ x = y ∧ h = post) ∨ ∃ pre', pre = x :: pre' ∧ h = pre' ++ y :: post := by
  cases pre with
  | nil => simp at e; exact Or.inl ⟨rfl, e.1, e.2⟩
  | cons z pre' =>
    simp only [List.cons_append, List.cons.injEq] at e
    exact Or.inr ⟨pre', by rw [e.1], e.2⟩

theorem RetJ_cons_other {P : CallId → Option Plan} {h : List Ev} {x : Ev} (hx : ∀ c o, x ≠ .ret c o)
    (hj : RetJ P h) : RetJ P (x :: h) := by
  intro pre post c o e
  rcases cons_eq_append_cons e with ⟨_, hxy, _⟩ | ⟨pre', _, e'⟩
  · exact absurd hxy (hx c o)
  · exact hj pre' post c o e'

theorem RetJ_cons_ret {P : CallId → Option Plan} {h : List Ev} {c : CallId} {o : Outcome} (hj : RetJ P h)
    (hc : (o = .timeout ∧ ∃ cmd tmo, P c = some (.replicate cmd (.sync tmo)) ∧ tmo.isSome = true) ∨
      ∃ r e, Ev.fired c r e ∈ h ∧ o = outcomeOf r e) : RetJ P (.ret c o :: h) := by
  intro pre post c' o' e
  rcases cons_eq_append_cons e with ⟨_, hxy, hp⟩ | ⟨pre', _, e'⟩
  · simp only [Ev.ret.injEq] at hxy
    obtain ⟨rfl, rfl⟩ := hxy
    subst hp
    exact hc
  · exact hj pre' post c' o' e'

theorem RetJ_invokeEvs {P : CallId → Option Plan} {h : List Ev} (cb r e) (hj : RetJ P h) :
    RetJ P (invokeEvs cb r e ++ h) := by
  cases cb <;> simp only [invokeEvs, List.nil_append, List.cons_append] <;>
    first | exact hj | exact RetJ_cons_other (by intro c o; simp) hj

end PSO.Queue
