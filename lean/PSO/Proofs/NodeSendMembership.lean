import PSO.Model.NodeSend
import PSO.Proofs.NodeSendBasic
import PSO.Proofs.NodeSendBatches

/-! # Node-local membership theorems (C10): gate, member set = fold of the log, adjacent majorities

Referenced from `PSO/Props/C10.lean`.  Everything is about the functions of `PSO/Model/NodeSend.lean`
that `driver nodesend` executes.
-/
namespace PSO.NodeSend

/-! ## majorities of adjacent configurations intersect (pure arithmetic on duplicate-free lists) -/

theorem length_le_of_nodup_subset {l w : List Nat} (hl : l.Nodup) (hs : ∀ x ∈ l, x ∈ w) : l.length ≤ w.length := by
  induction l generalizing w with
  | nil => simp
  | cons a t ih =>
    have ha : a ∈ w := hs a (by simp)
    have hnd := List.nodup_cons.mp hl
    have ht : ∀ x ∈ t, x ∈ w.erase a := by
      intro x hx
      have hxa : x ≠ a := by intro h; subst h; exact hnd.1 hx
      exact (List.mem_erase_of_ne hxa).mpr (hs x (by simp [hx]))
    have := ih hnd.2 ht
    rw [List.length_erase_of_mem ha] at this
    have hpos : 0 < w.length := List.length_pos_of_mem ha
    simp
    omega

/-- `isMajority`: the code's `count > (len(otherNodes) + 1) / 2` (true division) for `count = |Q|`, `|V| = len(otherNodes)+1` -/
def IsMajorityOf (Q V : List Nat) : Prop := Q.Nodup ∧ (∀ x ∈ Q, x ∈ V) ∧ V.length < 2 * Q.length

/-- **Adjacent majorities intersect.** `V'` is `V` plus one node (`x ∉ V`); any majority of `V` and any
majority of `V'` share a node.  (Removal is the same statement read from `V'` to `V`.) -/
theorem adjacent_majorities_intersect {V Q Q' : List Nat} {x : Nat} (hV : V.Nodup) (hx : x ∉ V)
    (hQ : IsMajorityOf Q V) (hQ' : IsMajorityOf Q' (x :: V)) : ∃ y, y ∈ Q ∧ y ∈ Q' := by
  apply Classical.byContradiction
  intro hno
  have hdis : ∀ y, y ∈ Q → y ∉ Q' := fun y hy hy' => hno ⟨y, hy, hy'⟩
  have hnd : (Q ++ Q').Nodup := by
    rw [List.nodup_append]
    refine ⟨hQ.1, hQ'.1, ?_⟩
    intro a ha b hb hab
    subst hab
    exact hdis a ha hb
  have hsub : ∀ y ∈ Q ++ Q', y ∈ x :: V := by
    intro y hy
    rcases List.mem_append.mp hy with h | h
    · exact List.mem_cons_of_mem _ (hQ.2.1 y h)
    · exact hQ'.2.1 y h
  have hlen := length_le_of_nodup_subset hnd hsub
  have h1 := hQ.2.2
  have h2 := hQ'.2.2
  simp at hlen h2
  omega

/-- the same with the two configurations equal (ordinary quorum intersection) -/
theorem majorities_intersect {V Q Q' : List Nat} (hQ : IsMajorityOf Q V) (hQ' : IsMajorityOf Q' V) :
    ∃ y, y ∈ Q ∧ y ∈ Q' := by
  apply Classical.byContradiction
  intro hno
  have hdis : ∀ y, y ∈ Q → y ∉ Q' := fun y hy hy' => hno ⟨y, hy, hy'⟩
  have hnd : (Q ++ Q').Nodup := by
    rw [List.nodup_append]
    refine ⟨hQ.1, hQ'.1, ?_⟩
    intro a ha b hb hab
    subst hab
    exact hdis a ha hb
  have hsub : ∀ y ∈ Q ++ Q', y ∈ V := by
    intro y hy
    rcases List.mem_append.mp hy with h | h
    · exact hQ.2.1 y h
    · exact hQ'.2.1 y h
  have hlen := length_le_of_nodup_subset hnd hsub
  have h1 := hQ.2.2
  have h2 := hQ'.2.2
  simp at hlen
  omega

/-! ## algebra of `memStep` -/

def SetEq (a b : List Nat) : Prop := ∀ x, x ∈ a ↔ x ∈ b

theorem SetEq.refl (a : List Nat) : SetEq a a := fun _ => Iff.rfl
theorem SetEq.symm {a b : List Nat} (h : SetEq a b) : SetEq b a := fun x => (h x).symm
theorem SetEq.trans {a b c : List Nat} (h1 : SetEq a b) (h2 : SetEq b c) : SetEq a c := fun x => (h1 x).trans (h2 x)

/-- a member list: duplicate-free and without the node itself -/
def Good (self : Option Nat) (m : List Nat) : Prop := m.Nodup ∧ ∀ n, self = some n → n ∉ m

theorem Good.nodup {self : Option Nat} {m : List Nat} (h : Good self m) : m.Nodup := h.1
theorem Good.noself {self : Option Nat} {m : List Nat} (h : Good self m) : ∀ n, self = some n → n ∉ m := h.2

theorem memStep_good {self : Option Nat} {m : List Nat} (k : Kind) (r : Bool) (h : Good self m) :
    Good self (memStep self m k r).1 := by
  unfold memStep
  split
  · exact h
  · split
    · exact h
    · rename_i n _ hc
      simp at hc
      refine ⟨?_, ?_⟩
      · rw [List.nodup_append]
        refine ⟨h.nodup, by simp, ?_⟩
        intro a ha b hb hab
        simp at hb
        subst hab; subst hb
        exact hc.2 ha
      · intro s hs hmem
        rcases List.mem_append.mp hmem with h1 | h1
        · exact h.noself s hs h1
        · simp at h1; subst h1; exact hc.1 hs
  · split
    · exact h
    · exact ⟨h.nodup.erase _, fun s hs hmem => h.noself s hs (List.mem_of_mem_erase hmem)⟩

theorem memStep_congr {self : Option Nat} {m m' : List Nat} (k : Kind) (r : Bool)
    (hm : Good self m) (hm' : Good self m') (h : SetEq m m') :
    SetEq (memStep self m k r).1 (memStep self m' k r).1 ∧ (memStep self m k r).2 = (memStep self m' k r).2 := by
  unfold memStep
  split
  · exact ⟨h, by simp⟩
  · rename_i n _
    by_cases hc : self = some n ∨ n ∈ m
    · have hc' : self = some n ∨ n ∈ m' := hc.imp id (fun x => (h n).mp x)
      simp only [hc, hc', if_true]
      exact ⟨h, by simp⟩
    · have hc' : ¬ (self = some n ∨ n ∈ m') := fun x => hc (x.imp id (fun y => (h n).mpr y))
      simp only [hc, hc', if_false]
      refine ⟨?_, by simp⟩
      intro x
      simp [List.mem_append, h x]
  · rename_i n _
    by_cases hc : self = some n ∨ n ∉ m
    · have hc' : self = some n ∨ n ∉ m' := hc.imp id (fun x y => x ((h n).mpr y))
      simp only [hc, hc', if_true]
      exact ⟨h, by simp⟩
    · have hc' : ¬ (self = some n ∨ n ∉ m') := fun x => hc (x.imp id (fun y z => y ((h n).mp z)))
      simp only [hc, hc', if_false]
      refine ⟨?_, by simp⟩
      intro x
      rw [hm.nodup.mem_erase_iff, hm'.nodup.mem_erase_iff, h x]

/-- an entry is *effective* on member list `m`: it targets the node itself (then it is a no-op in both
directions) or it really changes `m` -/
def EffStep (self : Option Nat) (m : List Nat) (k : Kind) : Prop :=
  match changeDir k false with
  | none => True
  | some (n, _) => self = some n ∨ (memStep self m k false).2 = true

theorem changeDir_rev (k : Kind) : changeDir k true = (changeDir k false).map (fun p => (p.1, !p.2)) := by
  cases k <;> simp [changeDir]

/-- rolling an effective change back restores the member set -/
theorem memStep_undo {self : Option Nat} {m : List Nat} (k : Kind) (hm : Good self m) (he : EffStep self m k) :
    SetEq (memStep self (memStep self m k false).1 k true).1 m := by
  unfold EffStep at he
  cases k with
  | noop => simp [memStep, changeDir]; exact SetEq.refl _
  | regular => simp [memStep, changeDir]; exact SetEq.refl _
  | version => simp [memStep, changeDir]; exact SetEq.refl _
  | memOther => simp [memStep, changeDir]; exact SetEq.refl _
  | add n =>
    simp only [changeDir, Bool.not_false] at he
    rcases he with hs | hch
    · simp [memStep, changeDir, hs]; exact SetEq.refl _
    · by_cases hc : self = some n ∨ n ∈ m
      · simp [memStep, changeDir, hc] at hch
      · have hns : ¬ self = some n := fun x => hc (Or.inl x)
        have hnm : n ∉ m := fun x => hc (Or.inr x)
        simp [memStep, changeDir, hns, hnm]
        intro x
        have hnd : (m ++ [n]).Nodup := by
          rw [List.nodup_append]
          refine ⟨hm.nodup, by simp, ?_⟩
          intro a ha b hb hab; simp at hb; subst hab; subst hb; exact hnm ha
        rw [hnd.mem_erase_iff]
        simp [List.mem_append]
        constructor
        · rintro ⟨hne, h | h⟩
          · exact h
          · exact absurd h hne
        · intro h
          exact ⟨fun hx => hnm (hx ▸ h), Or.inl h⟩
  | rem n =>
    simp only [changeDir] at he
    rcases he with hs | hch
    · simp [memStep, changeDir, hs]; exact SetEq.refl _
    · by_cases hc : self = some n ∨ n ∉ m
      · simp [memStep, changeDir, hc] at hch
      · have hns : ¬ self = some n := fun x => hc (Or.inl x)
        have hnm : n ∈ m := Classical.byContradiction fun x => hc (Or.inr x)
        have hne : n ∉ m.erase n := fun h => by
          have := (hm.nodup.mem_erase_iff).mp h
          exact this.1 rfl
        simp [memStep, changeDir, hns, hnm, hne]
        intro x
        simp [List.mem_append, hm.nodup.mem_erase_iff]
        constructor
        · rintro (⟨_, h⟩ | h)
          · exact h
          · exact h ▸ hnm
        · intro h
          by_cases hx : x = n
          · exact Or.inr hx
          · exact Or.inl ⟨hx, h⟩

/-! ## fold of a log, effectiveness of a log, rollback of a suffix -/

def fwd (self : Option Nat) (m : List Nat) (e : Entry) : List Nat := (memStep self m e.cmd.kind false).1
def bwd (self : Option Nat) (m : List Nat) (e : Entry) : List Nat := (memStep self m e.cmd.kind true).1

theorem foldConfig_eq (self : Option Nat) (base : List Nat) (log : List Entry) :
    foldConfig self base log = log.foldl (fwd self) base := rfl

theorem foldConfig_append (self : Option Nat) (base : List Nat) (l1 l2 : List Entry) :
    foldConfig self base (l1 ++ l2) = foldConfig self (foldConfig self base l1) l2 := by
  simp [foldConfig, List.foldl_append]

theorem foldConfig_good {self : Option Nat} {base : List Nat} (log : List Entry) (h : Good self base) :
    Good self (foldConfig self base log) := by
  induction log generalizing base with
  | nil => exact h
  | cons e r ih => exact ih (memStep_good _ _ h)

theorem foldConfig_congr {self : Option Nat} {m m' : List Nat} (log : List Entry)
    (hm : Good self m) (hm' : Good self m') (h : SetEq m m') :
    SetEq (foldConfig self m log) (foldConfig self m' log) := by
  induction log generalizing m m' with
  | nil => exact h
  | cons e r ih =>
    exact ih (memStep_good _ _ hm) (memStep_good _ _ hm') (memStep_congr _ _ hm hm' h).1

theorem foldl_bwd_good {self : Option Nat} {m : List Nat} (l : List Entry) (h : Good self m) :
    Good self (l.foldl (bwd self) m) := by
  induction l generalizing m with
  | nil => exact h
  | cons e r ih => exact ih (memStep_good _ _ h)

theorem foldl_bwd_congr {self : Option Nat} {m m' : List Nat} (l : List Entry)
    (hm : Good self m) (hm' : Good self m') (h : SetEq m m') :
    SetEq (l.foldl (bwd self) m) (l.foldl (bwd self) m') := by
  induction l generalizing m m' with
  | nil => exact h
  | cons e r ih =>
    exact ih (memStep_good _ _ hm) (memStep_good _ _ hm') (memStep_congr _ _ hm hm' h).1

/-- every membership entry of the list changed the configuration it was applied to -/
def Eff (self : Option Nat) : List Nat → List Entry → Prop
  | _, [] => True
  | m, e :: r => EffStep self m e.cmd.kind ∧ Eff self (fwd self m e) r

theorem Eff_append {self : Option Nat} {m : List Nat} {l1 l2 : List Entry} :
    Eff self m (l1 ++ l2) ↔ Eff self m l1 ∧ Eff self (foldConfig self m l1) l2 := by
  induction l1 generalizing m with
  | nil => simp [Eff, foldConfig]
  | cons e r ih =>
    simp only [List.cons_append, Eff, ih, foldConfig, List.foldl_cons, fwd]
    exact and_assoc.symm

theorem EffStep_congr {self : Option Nat} {m m' : List Nat} (k : Kind) (hm : Good self m) (hm' : Good self m')
    (h : SetEq m m') : EffStep self m k → EffStep self m' k := by
  unfold EffStep
  split
  · exact id
  · intro he
    rw [← (memStep_congr k false hm hm' h).2]
    exact he

/-- **Rollback.** Rolling back, in reverse order, a list of entries that were effective from `m0` brings any
member list that equals the fold back to `m0` (as sets). -/
theorem rollback_restores {self : Option Nat} (L : List Entry) :
    ∀ {m0 m : List Nat}, Good self m0 → Good self m → Eff self m0 L → SetEq m (foldConfig self m0 L) →
      SetEq (L.reverse.foldl (bwd self) m) m0 := by
  induction L with
  | nil => intro m0 m _ _ _ h; exact h
  | cons e r ih =>
    intro m0 m h0 hm he hs
    have h1 : Good self (fwd self m0 e) := memStep_good _ _ h0
    have hr := ih h1 hm he.2 hs
    simp only [List.reverse_cons, List.foldl_append, List.foldl_cons, List.foldl_nil]
    have hg : Good self (r.reverse.foldl (bwd self) m) := foldl_bwd_good _ hm
    have hc := (memStep_congr e.cmd.kind true hg h1 hr).1
    exact SetEq.trans hc (memStep_undo e.cmd.kind h0 he.1)

/-! ## the model functions touch the member list exactly through `memStep` -/

theorem doChange_spec {s s' : Node} {k : Kind} {r ch : Bool} {o : List Out}
    (h : doChange s k r = .ok (s', ch, o)) :
    s'.members = (memStep s.self s.members k r).1 ∧ ch = (memStep s.self s.members k r).2 ∧
    s'.log = s.log ∧ s'.self = s.self ∧ s'.lastApplied = s.lastApplied ∧ s'.noopIdx = s.noopIdx ∧
    s'.changeIdx = s.changeIdx ∧ s'.role = s.role ∧ s'.term = s.term ∧ s'.queue = s.queue ∧
    s'.waitCommit = s.waitCommit ∧ s'.waitReply = s.waitReply ∧ s'.localCounter = s.localCounter ∧
    s'.leader = s.leader ∧ (ch = false → o = [] ∧ s'.members = s.members) := by
  unfold doChange at h
  cases hcd : changeDir k r with
  | none =>
    simp only [hcd] at h
    cases h
    simp [memStep, hcd]
  | some p =>
    obtain ⟨n, adding⟩ := p
    simp only [hcd] at h
    cases hms : memStep s.self s.members k r with
    | mk m' changed =>
      simp only [hms] at h
      cases changed with
      | false =>
        simp at h
        obtain ⟨h1, h2, h3⟩ := h
        subst h1; subst h2; subst h3
        have : m' = s.members := by
          unfold memStep at hms
          simp only [hcd] at hms
          cases adding <;> simp only at hms <;> split at hms <;> simp_all
        simp [this]
      | true =>
        simp at h
        cases adding with
        | true =>
          simp at h
          cases hl : lastIdx? s.log with
          | none => simp [hl] at h
          | some last =>
            simp [hl] at h
            obtain ⟨h1, h2, h3⟩ := h
            subst h1; subst h2; subst h3
            simp
        | false =>
          simp at h
          obtain ⟨h1, h2, h3⟩ := h
          subst h1; subst h2; subst h3
          simp

theorem applyChanges_spec {rev : Bool} (L : List Entry) :
    ∀ {s s' : Node} {o : List Out}, applyChanges s rev L = .ok (s', o) →
      s'.members = L.foldl (fun m e => (memStep s.self m e.cmd.kind rev).1) s.members ∧
      s'.log = s.log ∧ s'.self = s.self := by
  induction L with
  | nil => intro s s' o h; simp [applyChanges] at h; obtain ⟨h1, _⟩ := h; subst h1; simp
  | cons e r ih =>
    intro s s' o h
    unfold applyChanges at h
    cases hp : parseChange e.cmd.kind with
    | none =>
      simp only [hp] at h
      have := ih h
      have hnop : (memStep s.self s.members e.cmd.kind rev).1 = s.members := by
        cases hk : e.cmd.kind <;> simp [hk, parseChange] at hp <;> simp [memStep, changeDir]
      simp [List.foldl_cons, hnop, this]
    | some k =>
      have hk : k = e.cmd.kind := by
        cases hkk : e.cmd.kind <;> simp [hkk, parseChange] at hp <;> simp [← hp]
      subst hk
      simp only [hp] at h
      cases hd : doChange s e.cmd.kind rev with
      | error err => simp [hd] at h
      | ok res =>
        obtain ⟨s1, ch, o1⟩ := res
        simp only [hd] at h
        cases ha : applyChanges s1 rev r with
        | error err => simp [ha] at h
        | ok res2 =>
          obtain ⟨s2, o2⟩ := res2
          simp only [ha] at h
          simp at h
          obtain ⟨h1, _⟩ := h
          subst h1
          have hs := doChange_spec hd
          have := ih ha
          simp [List.foldl_cons, this, hs.1, hs.2.2.1, hs.2.2.2.1]

/-! ## the leader-side gate (`__changeCluster` + the append in `_checkCommandsToApply`) -/

def isMembership (k : Kind) : Bool := (parseChange k).isSome

theorem changeCluster_spec {s s' : Node} {k : Kind} {acc : Bool} {o : List Out}
    (h : changeCluster s k = .ok (s', acc, o)) :
    s'.log = s.log ∧ s'.self = s.self ∧ s'.lastApplied = s.lastApplied ∧ s'.noopIdx = s.noopIdx ∧
    s'.role = s.role ∧ s'.term = s.term ∧
    (acc = true →
      (∃ noop, s.noopIdx = some noop ∧ noop ≤ s.lastApplied) ∧
      (∀ c, s.changeIdx = some c → c ≤ s.lastApplied) ∧ s'.changeIdx = none ∧
      s'.members = (memStep s.self s.members k false).1 ∧ (memStep s.self s.members k false).2 = true) ∧
    (acc = false → s'.members = s.members ∧ o = []) := by
  unfold changeCluster at h
  cases hn : s.noopIdx with
  | none => simp [hn] at h
  | some noop =>
    simp only [hn] at h
    by_cases hlt : s.lastApplied < noop
    · simp [hlt] at h
      obtain ⟨h1, h2, h3⟩ := h
      subst h1; subst h2; subst h3
      simp [hn]
    · simp only [hlt, if_false] at h
      cases hc : s.changeIdx with
      | none =>
        simp [hc] at h
        have hs := doChange_spec h
        simp only [] at hs
        refine ⟨hs.2.2.1, hs.2.2.2.1, hs.2.2.2.2.1, by simpa [hn] using hs.2.2.2.2.2.1, hs.2.2.2.2.2.2.2.1, hs.2.2.2.2.2.2.2.2.1, ?_, ?_⟩
        · intro hacc
          refine ⟨⟨noop, rfl, by omega⟩, by simp, by simpa using hs.2.2.2.2.2.2.1, hs.1, ?_⟩
          rw [← hs.2.1]; exact hacc
        · intro hacc
          subst hacc
          have := hs.2.2.2.2.2.2.2.2.2.2.2.2.2.2 rfl
          exact ⟨by simpa using this.2, this.1⟩
      | some c =>
        by_cases hcl : c ≤ s.lastApplied
        · simp [hc, hcl] at h
          have hs := doChange_spec h
          simp only [] at hs
          refine ⟨hs.2.2.1, hs.2.2.2.1, hs.2.2.2.2.1, by simpa [hn] using hs.2.2.2.2.2.1, hs.2.2.2.2.2.2.2.1, hs.2.2.2.2.2.2.2.2.1, ?_, ?_⟩
          · intro hacc
            refine ⟨⟨noop, rfl, by omega⟩, ?_, by simpa using hs.2.2.2.2.2.2.1, hs.1, ?_⟩
            · intro c' hc'; cases hc'; exact hcl
            · rw [← hs.2.1]; exact hacc
          · intro hacc
            subst hacc
            have := hs.2.2.2.2.2.2.2.2.2.2.2.2.2.2 rfl
            exact ⟨by simpa using this.2, this.1⟩
        · simp [hc, hcl] at h
          obtain ⟨h1, h2, h3⟩ := h
          subst h1; subst h2; subst h3
          simp [hn]

theorem parseChange_some {k k' : Kind} (h : parseChange k = some k') : k' = k := by
  cases k <;> simp [parseChange] at h <;> simp [← h]

theorem leaderAccept_spec (s1 : Node) (cmd : Cmd) (cb : Cb) (idx term : Nat) (isReq : Bool) :
    let r := leaderAccept s1 cmd cb idx term isReq
    r.1.log = s1.log ++ [⟨cmd, idx, term⟩] ∧ r.1.members = s1.members ∧ r.1.self = s1.self ∧
    r.1.lastApplied = s1.lastApplied ∧ r.1.noopIdx = s1.noopIdx ∧
    r.1.changeIdx = (if isReq then some idx else s1.changeIdx) ∧ r.1.waitReply = s1.waitReply ∧
    r.1.waitCommit = s1.waitCommit ++ (match cb with | .loc id => [(idx, term, id)] | _ => []) ∧
    r.2.2 ≠ .denied ∧ (∀ x ∈ r.2.1, x.isSend = true) := by
  cases cb <;> simp [leaderAccept, Out.isSend]

/-- **Gate (C10).**  A leader that is asked for a membership change (`dynamicMembershipChange` on) appends the
entry only if the no-op of its own term is applied (`lastApplied ≥ noopIDx`), no earlier accepted change is
still recorded as unapplied, and the request really changes the member set; then it records the entry's index.
Otherwise the requester gets REQUEST_DENIED, and log and member set are unchanged. -/
theorem gate {cfg : Conf} {s s' : Node} {cmd : Cmd} {cb : Cb} {o : List Out} {br : Branch}
    (h : leaderDispatch cfg s cmd cb = .ok (s', o, br)) (hreq : isRequest cfg cmd = true) :
    (br ≠ .denied →
      ∃ noop last, s.noopIdx = some noop ∧ noop ≤ s.lastApplied ∧
        (∀ c, s.changeIdx = some c → c ≤ s.lastApplied) ∧ lastIdx? s.log = some last ∧
        s'.log = s.log ++ [⟨cmd, last + 1, s.term⟩] ∧ s'.changeIdx = some (last + 1) ∧
        s'.members = (memStep s.self s.members cmd.kind false).1 ∧
        (memStep s.self s.members cmd.kind false).2 = true) ∧
    (br = .denied → s'.log = s.log ∧ s'.members = s.members ∧ o = deniedOut cb) := by
  unfold leaderDispatch at h
  cases hl : lastIdx? s.log with
  | none => simp [hl] at h
  | some last =>
    simp only [hl] at h
    unfold isRequest at hreq
    simp only [Bool.and_eq_true] at hreq
    obtain ⟨hdyn, hp⟩ := hreq
    obtain ⟨k, hk⟩ := Option.isSome_iff_exists.mp hp
    have hkk := parseChange_some hk
    subst hkk
    unfold gateOf at h
    simp only [hdyn, if_true, hk] at h
    cases hg : changeCluster s cmd.kind with
    | error e => simp [hg] at h
    | ok res =>
      obtain ⟨s1, acc, o1⟩ := res
      have hs := changeCluster_spec hg
      cases acc with
      | false =>
        simp only [hg] at h
        simp at h
        obtain ⟨h1, h2, h3⟩ := h
        subst h1; subst h2; subst h3
        have hd := hs.2.2.2.2.2.2.2 rfl
        refine ⟨fun hne => absurd rfl hne, fun _ => ⟨hs.1, hd.1, by simp [hd.2]⟩⟩
      | true =>
        simp only [hg] at h
        have hacc := hs.2.2.2.2.2.2.1 rfl
        have hla := leaderAccept_spec s1 cmd cb (last + 1) s.term (isRequest cfg cmd)
        simp only [] at hla
        have hisreq : isRequest cfg cmd = true := by simp [isRequest, hdyn, hk]
        generalize hres : leaderAccept s1 cmd cb (last + 1) s.term (isRequest cfg cmd) = res at h hla
        obtain ⟨s3, o3, br3⟩ := res
        simp only [] at h hla
        obtain ⟨hlog, hmem, _, _, _, hci, _, _, hbr, _⟩ := hla
        obtain ⟨⟨noop, hn1, hn2⟩, hc, _, hmm, heff⟩ := hacc
        by_cases hub : cfg.useBatch
        · simp [hub] at h
          obtain ⟨h1, _, h3⟩ := h
          subst h1; subst h3
          refine ⟨fun _ => ⟨noop, last, hn1, hn2, hc, rfl, by rw [hlog, hs.1], by simp [hci, hisreq], by rw [hmem, hmm], heff⟩,
                  fun hd => absurd hd hbr⟩
        · simp only [hub, Bool.false_eq_true, if_false] at h
          cases hsa : sendAll cfg (fun _ => []) s3 none with
          | error e => simp [hsa] at h
          | ok r4 =>
            obtain ⟨s4, o4⟩ := r4
            simp [hsa] at h
            obtain ⟨h1, _, h3⟩ := h
            subst h1; subst h3
            have hf := (sendAll_frame hsa).1
            simp only [SameCore] at hf
            refine ⟨fun _ => ⟨noop, last, hn1, hn2, hc, rfl, by rw [hf.1, hlog, hs.1], by rw [hf.2.2.2.2.2.1]; simp [hci, hisreq],
                      by rw [hf.2.1, hmem, hmm], heff⟩, fun hd => absurd hd hbr⟩

/-- every membership entry of the log is applied, or lies before the leader's own no-op, or is the recorded
pending change -/
def GateInv (s : Node) : Prop :=
  ∀ e ∈ s.log, isMembership e.cmd.kind = true →
    e.idx ≤ s.lastApplied ∨ (∃ n, s.noopIdx = some n ∧ e.idx < n) ∨ (∃ c, s.changeIdx = some c ∧ e.idx ≤ c)

/-- **No two changes in flight.**  When the gate lets a membership request through, every membership entry
already in the leader's log is applied. -/
theorem gate_all_applied {cfg : Conf} {s s' : Node} {cmd : Cmd} {cb : Cb} {o : List Out} {br : Branch}
    (hinv : GateInv s) (h : leaderDispatch cfg s cmd cb = .ok (s', o, br)) (hreq : isRequest cfg cmd = true)
    (hbr : br ≠ .denied) : ∀ e ∈ s.log, isMembership e.cmd.kind = true → e.idx ≤ s.lastApplied := by
  obtain ⟨noop, last, hn1, hn2, hc, _⟩ := (gate h hreq).1 hbr
  intro e he hm
  rcases hinv e he hm with h1 | ⟨n, hn, hlt⟩ | ⟨c, hcc, hle⟩
  · exact h1
  · rw [hn1] at hn; cases hn; omega
  · have := hc c hcc; omega

/-- **Remove self is denied**: on the admin path before anything is queued, and by the gate on the API path. -/
theorem remove_self_denied_admin (s : Node) (n : Nat) : adminRemoveDenied s n = true ↔ s.self = some n := by
  simp [adminRemoveDenied]

theorem remove_self_denied {cfg : Conf} {s s' : Node} {cmd : Cmd} {cb : Cb} {o : List Out} {br : Branch} {n : Nat}
    (h : leaderDispatch cfg s cmd cb = .ok (s', o, br)) (hdyn : cfg.dynMember = true)
    (hk : cmd.kind = .rem n) (hself : s.self = some n) :
    br = .denied ∧ s'.log = s.log ∧ s'.members = s.members ∧ o = deniedOut cb := by
  have hreq : isRequest cfg cmd = true := by simp [isRequest, hdyn, hk, parseChange]
  have hg := gate h hreq
  by_cases hbr : br = .denied
  · exact ⟨hbr, hg.2 hbr⟩
  · obtain ⟨_, _, _, _, _, _, _, _, _, heff⟩ := hg.1 hbr
    simp [hk, memStep, changeDir, hself] at heff

/-! ## member set = fold of the log -/

/-- node-local membership invariant over a base configuration `base` (the configuration before the first
entry of `s.log`): the member list is duplicate-free, does not contain the node, equals (as a set) the fold of
the membership entries of the log, and every membership entry was effective when it took effect -/
structure MInv (base : List Nat) (s : Node) : Prop where
  base_good : Good s.self base
  good : Good s.self s.members
  eq : SetEq s.members (foldConfig s.self base s.log)
  eff : Eff s.self base s.log

/-- **Leader append keeps `members = fold(log)`** (`dynamicMembershipChange` on): an accepted command of any
kind — for a membership request the change takes effect when appended — and a refused one. -/
theorem members_eq_fold_leader {cfg : Conf} {base : List Nat} {s s' : Node} {cmd : Cmd} {cb : Cb} {o : List Out}
    {br : Branch} (hinv : MInv base s) (hdyn : cfg.dynMember = true)
    (h : leaderDispatch cfg s cmd cb = .ok (s', o, br)) : MInv base s' := by
  by_cases hreq : isRequest cfg cmd = true
  · have hg := gate h hreq
    by_cases hbr : br = .denied
    · obtain ⟨hlog, hmem, _⟩ := hg.2 hbr
      have hself : s'.self = s.self := by
        unfold leaderDispatch at h
        split at h
        · simp at h
        · unfold gateOf at h
          have hp : (parseChange cmd.kind).isSome = true := by simp [isRequest, hdyn] at hreq; exact hreq
          obtain ⟨k, hk⟩ := Option.isSome_iff_exists.mp hp
          simp only [hdyn, if_true, hk] at h
          cases hgc : changeCluster s k with
          | error e => simp [hgc] at h
          | ok res =>
            obtain ⟨s1, acc, o1⟩ := res
            have hs := changeCluster_spec hgc
            cases acc with
            | false => simp [hgc] at h; rw [← h.1]; exact hs.2.1
            | true =>
              simp only [hgc] at h
              have hla := leaderAccept_spec s1 cmd cb
              split at h
              · simp at h; exact absurd h.2.2 (by
                  intro hb; rw [← hb] at hbr
                  exact (hla _ _ _).2.2.2.2.2.2.2.2.1 hbr)
              · split at h
                · simp at h
                · simp at h; exact absurd h.2.2 (by
                    intro hb; rw [← hb] at hbr
                    exact (hla _ _ _).2.2.2.2.2.2.2.2.1 hbr)
      exact ⟨by rw [hself]; exact hinv.base_good, by rw [hself, hmem]; exact hinv.good,
             by rw [hself, hmem, hlog]; exact hinv.eq, by rw [hself, hlog]; exact hinv.eff⟩
    · obtain ⟨noop, last, _, _, _, _, hlog, _, hmem, heff⟩ := hg.1 hbr
      have hself : s'.self = s.self := by
        unfold leaderDispatch at h
        split at h
        · simp at h
        · unfold gateOf at h
          have hp : (parseChange cmd.kind).isSome = true := by simp [isRequest, hdyn] at hreq; exact hreq
          obtain ⟨k, hk⟩ := Option.isSome_iff_exists.mp hp
          simp only [hdyn, if_true, hk] at h
          cases hgc : changeCluster s k with
          | error e => simp [hgc] at h
          | ok res =>
            obtain ⟨s1, acc, o1⟩ := res
            have hs := changeCluster_spec hgc
            cases acc with
            | false => simp [hgc] at h; exact absurd h.2.2.symm hbr
            | true =>
              simp only [hgc] at h
              have hla := leaderAccept_spec s1 cmd cb
              split at h
              · simp at h; rw [← h.1, (hla _ _ _).2.2.1]; exact hs.2.1
              · split at h
                · simp at h
                · rename_i s4 o4 hsa
                  simp at h
                  rw [← h.1, (sendAll_frame hsa).1.2.2.1, (hla _ _ _).2.2.1]; exact hs.2.1
      refine ⟨by rw [hself]; exact hinv.base_good, by rw [hself, hmem]; exact memStep_good _ _ hinv.good, ?_, ?_⟩
      · rw [hself, hmem, hlog, foldConfig_append]
        have := (memStep_congr cmd.kind false hinv.good (foldConfig_good s.log hinv.base_good) hinv.eq).1
        simpa [foldConfig] using this
      · rw [hself, hlog, Eff_append]
        refine ⟨hinv.eff, ?_, trivial⟩
        apply EffStep_congr cmd.kind hinv.good (foldConfig_good s.log hinv.base_good) hinv.eq
        unfold EffStep
        split
        · trivial
        · exact Or.inr heff
  · -- not a membership command: appended without touching the member set
    have hnp : parseChange cmd.kind = none := by
      simp [isRequest, hdyn] at hreq
      exact hreq
    have hnop : ∀ m, (memStep s.self m cmd.kind false).1 = m := by
      intro m; cases hk : cmd.kind <;> simp [hk, parseChange] at hnp <;> simp [memStep, changeDir]
    have hcd : changeDir cmd.kind false = none := by
      cases hk : cmd.kind <;> simp [hk, parseChange] at hnp <;> simp [changeDir]
    unfold leaderDispatch at h
    split at h
    · simp at h
    · rename_i last hl
      unfold gateOf at h
      simp only [hdyn, if_true, hnp] at h
      have hla := leaderAccept_spec s cmd cb (last + 1) s.term (isRequest cfg cmd)
      simp only [] at hla
      have key : ∀ s3 : Node, s3.log = s.log ++ [⟨cmd, last + 1, s.term⟩] → s3.members = s.members → s3.self = s.self →
          MInv base s3 := by
        intro s3 h1 h2 h3
        refine ⟨by rw [h3]; exact hinv.base_good, by rw [h3, h2]; exact hinv.good, ?_, ?_⟩
        · rw [h3, h2, h1, foldConfig_append]
          simp only [foldConfig, List.foldl_cons, List.foldl_nil, hnop]
          exact hinv.eq
        · rw [h3, h1, Eff_append]
          refine ⟨hinv.eff, ?_, trivial⟩
          unfold EffStep
          simp [hcd]
      split at h
      · simp at h
        rw [← h.1]
        exact key _ hla.1 hla.2.1 hla.2.2.1
      · split at h
        · simp at h
        · rename_i s4 o4 hsa
          simp at h
          rw [← h.1]
          have hf := (sendAll_frame hsa).1
          exact key _ (by rw [hf.1]; exact hla.1) (by rw [hf.2.1]; exact hla.2.1) (by rw [hf.2.2.1]; exact hla.2.2.1)

/-- **Rollback of a truncated suffix keeps `members = fold(log)`**: the member list obtained by rolling back,
in reverse order, the membership entries of a suffix `old` (what the `append_entries` handler does before it
deletes a conflicting suffix) equals the fold of the kept prefix. -/
theorem members_eq_fold_rollback {base : List Nat} {s s1 : Node} {o : List Out} {pre old : List Entry}
    (hinv : MInv base s) (hlog : s.log = pre ++ old) (h : applyChanges s true old.reverse = .ok (s1, o)) :
    Good s.self s1.members ∧ SetEq s1.members (foldConfig s.self base pre) ∧ s1.self = s.self := by
  have hs := applyChanges_spec old.reverse h
  have heff := hinv.eff
  rw [hlog, Eff_append] at heff
  have heq := hinv.eq
  rw [hlog, foldConfig_append] at heq
  have hpre := foldConfig_good pre hinv.base_good
  have hr := rollback_restores old hpre hinv.good heff.2 heq
  refine ⟨?_, ?_, hs.2.2⟩
  · rw [hs.1]; exact foldl_bwd_good _ hinv.good
  · rw [hs.1]; exact hr

/-- **Appending entries on a follower keeps `members = fold(log)`**: applying the membership entries of the
appended list one after another is the fold step. -/
theorem members_eq_fold_append {m0 : List Nat} {s s3 : Node} {o : List Out} {new : List Entry}
    (hg0 : Good s.self m0) (hg : Good s.self s.members) (heq : SetEq s.members m0)
    (h : applyChanges s false new = .ok (s3, o)) :
    Good s.self s3.members ∧ SetEq s3.members (foldConfig s.self m0 new) := by
  have hs := applyChanges_spec new h
  rw [hs.1]
  exact ⟨foldConfig_good new hg, foldConfig_congr new hg hg0 heq⟩

theorem nodup_eraseDups : ∀ (l : List Nat), l.eraseDups.Nodup
  | [] => by simp
  | a :: as => by
    rw [List.eraseDups_cons, List.nodup_cons]
    have : (as.filter fun b => !b == a).length < as.length + 1 := Nat.lt_succ_of_le (List.length_filter_le _ _)
    refine ⟨?_, nodup_eraseDups _⟩
    intro hm
    rw [List.mem_eraseDups, List.mem_filter] at hm
    simp at hm
termination_by l => l.length

/-- **Snapshot restore**: the member list becomes the dump's cluster without the node itself, duplicate-free;
the log becomes the dump's two entries.  (With `base :=` that list and the two entries frozen, `MInv` holds
again provided the dump's cluster is the configuration at its last entry.) -/
theorem members_eq_fold_restore {s s' : Node} {o : List Out} (prevE lastE : Entry) (cluster : List Nat)
    (h : restoreSnapshot s prevE lastE cluster true = .ok (s', o)) :
    s'.log = [prevE, lastE] ∧ s'.members.Nodup ∧
    (∀ x, x ∈ s'.members ↔ (x ∈ cluster ∧ s.self ≠ some x)) ∧ s'.self = s.self := by
  unfold restoreSnapshot at h
  simp only [if_true] at h
  unfold updateClusterConfiguration at h
  simp only [lastIdx?, List.getLast?_cons_cons, List.getLast?_singleton, Option.map_some] at h
  cases h
  refine ⟨rfl, nodup_eraseDups _, ?_, rfl⟩
  intro x
  simp [List.mem_eraseDups, List.mem_filter]

/-! ## applying a membership entry (repair D6) -/

/-- **Applying (committing) a membership entry leaves the node alone**: no member-set change, no transport call. -/
theorem apply_membership_entry_no_effect (s : Node) (e : Entry) : reapplyAtCommit s e = .ok (s, []) := rfl

/-! ## last operation wins: the journal fold at start-up is idempotent -/

/-- what an entry does to node `x`: `some true` = adds it, `some false` = removes it -/
def opOn (x : Nat) (k : Kind) : Option Bool :=
  match k with
  | .add n => if n = x then some true else none
  | .rem n => if n = x then some false else none
  | _ => none

/-- the last operation on `x` in a list of entries -/
def lastOp (x : Nat) : List Entry → Option Bool
  | [] => none
  | e :: r => match lastOp x r with
    | some b => some b
    | none => opOn x e.cmd.kind

theorem lastOp_append (x : Nat) (l1 l2 : List Entry) :
    lastOp x (l1 ++ l2) = match lastOp x l2 with | some b => some b | none => lastOp x l1 := by
  induction l1 with
  | nil => simp [lastOp]; cases lastOp x l2 <;> rfl
  | cons e r ih =>
    simp only [List.cons_append, lastOp, ih]
    cases lastOp x l2 with
    | some b => rfl
    | none => rfl

theorem mem_memStep_iff {self : Option Nat} {m : List Nat} (hm : Good self m) (k : Kind) (x : Nat) :
    x ∈ (memStep self m k false).1 ↔
      match opOn x k with
      | some true => self ≠ some x
      | some false => False
      | none => x ∈ m := by
  cases k with
  | noop => simp [memStep, changeDir, opOn]
  | regular => simp [memStep, changeDir, opOn]
  | version => simp [memStep, changeDir, opOn]
  | memOther => simp [memStep, changeDir, opOn]
  | add n =>
    simp only [memStep, changeDir, opOn, Bool.not_false]
    by_cases hn : n = x
    · subst hn
      simp only [if_true]
      by_cases hc : self = some n ∨ n ∈ m
      · simp only [hc, if_true]
        rcases hc with hc | hc
        · simp [hc]; exact hm.noself n hc
        · simp [hc]; intro hs; exact hm.noself n hs hc
      · simp only [hc, if_false]
        simp
        exact fun hs => hc (Or.inl hs)
    · simp only [hn, if_false]
      by_cases hc : self = some n ∨ n ∈ m
      · simp [hc]
      · simp only [hc, if_false, List.mem_append, List.mem_singleton]
        constructor
        · rintro (h | h)
          · exact h
          · exact absurd h.symm hn
        · exact Or.inl
  | rem n =>
    simp only [memStep, changeDir, opOn]
    by_cases hn : n = x
    · subst hn
      simp only [if_true]
      by_cases hc : self = some n ∨ n ∉ m
      · simp only [hc, if_true]
        rcases hc with hc | hc
        · simp; exact hm.noself n hc
        · simpa using hc
      · simp only [hc, if_false]
        simp
        intro h
        exact ((hm.nodup.mem_erase_iff).mp h).1 rfl
    · simp only [hn, if_false]
      by_cases hc : self = some n ∨ n ∉ m
      · simp [hc]
      · simp only [hc, if_false]
        rw [hm.nodup.mem_erase_iff]
        constructor
        · exact fun h => h.2
        · exact fun h => ⟨fun hx => hn hx.symm, h⟩

/-- **Last operation wins.**  Membership of `x` in the fold of a log over `m` is decided by the last entry that
names `x` (an `add` puts it in unless it is the node itself, a `rem` takes it out), else by `m`. -/
theorem mem_foldConfig_iff {self : Option Nat} (L : List Entry) :
    ∀ {m : List Nat}, Good self m → ∀ x,
      (x ∈ foldConfig self m L ↔
        match lastOp x L with
        | some true => self ≠ some x
        | some false => False
        | none => x ∈ m) := by
  induction L with
  | nil => intro m _ x; simp [foldConfig, lastOp]
  | cons e r ih =>
    intro m hm x
    have h1 := ih (memStep_good e.cmd.kind false hm) x
    have h2 := mem_memStep_iff hm e.cmd.kind x
    simp only [foldConfig, List.foldl_cons] at h1 ⊢
    rw [h1]
    simp only [lastOp]
    cases lastOp x r with
    | some b => cases b <;> exact Iff.rfl
    | none => exact h2

/-- **The journal fold is idempotent.**  Folding the whole journal over a member list that already contains
the effects of a prefix of it (the list the node was started with: the original list, the current list, the list
restored from a dump …) gives the same set as folding it over the base. -/
theorem journalfold_idempotent {self : Option Nat} {base : List Nat} (hb : Good self base) (pre post : List Entry) :
    SetEq (foldConfig self (foldConfig self base pre) (pre ++ post)) (foldConfig self base (pre ++ post)) := by
  intro x
  rw [mem_foldConfig_iff (pre ++ post) (foldConfig_good pre hb) x, mem_foldConfig_iff (pre ++ post) hb x]
  cases hl : lastOp x (pre ++ post) with
  | some b => cases b <;> exact Iff.rfl
  | none =>
    simp only []
    rw [lastOp_append] at hl
    have hpre : lastOp x pre = none := by
      cases hp : lastOp x post with
      | some b => simp [hp] at hl
      | none => simpa [hp] using hl
    rw [mem_foldConfig_iff pre hb x, hpre]

theorem MInv.congr {base : List Nat} {s s' : Node} (h : MInv base s) (h1 : s'.self = s.self)
    (h2 : s'.members = s.members) (h3 : s'.log = s.log) : MInv base s' :=
  ⟨by rw [h1]; exact h.base_good, by rw [h1, h2]; exact h.good, by rw [h1, h2, h3]; exact h.eq, by rw [h1, h3]; exact h.eff⟩

/-- **Journal fold at start-up re-establishes `members = fold(log)`**: the node is started with a member list
`m0` that contains the effects of a prefix `log[..k)` of its journal (k = 0: the original list), the journal's
entries were effective from `base`; after the fold the member set is the fold of the whole journal over `base`. -/
theorem journalFold_minv {base : List Nat} {s s' : Node} {o : List Out} {k : Nat}
    (hb : Good s.self base) (hg : Good s.self s.members) (heff : Eff s.self base s.log)
    (hm : SetEq s.members (foldConfig s.self base (s.log.take k)))
    (h : journalFold true s = .ok (s', o)) : MInv base s' := by
  unfold journalFold at h
  simp only [if_true] at h
  cases hl : s.log with
  | nil => simp [hl] at h
  | cons e0 t =>
    simp only [hl] at h
    rw [← hl] at h
    have hs := applyChanges_spec s.log h
    have hfold : s'.members = foldConfig s.self s.members s.log := hs.1
    have hsplit : s.log = s.log.take k ++ s.log.drop k := (List.take_append_drop k s.log).symm
    refine ⟨by rw [hs.2.2]; exact hb, by rw [hs.2.2, hfold]; exact foldConfig_good _ hg, ?_, by rw [hs.2.2, hs.2.1]; exact heff⟩
    rw [hs.2.2, hs.2.1, hfold]
    have h1 := foldConfig_congr s.log hg (foldConfig_good (s.log.take k) hb) hm
    refine SetEq.trans h1 ?_
    have h2 := journalfold_idempotent hb (s.log.take k) (s.log.drop k)
    rw [← hsplit] at h2
    exact h2

/-! ## the cluster written into a dump (repair D63) -/

/-- `c` is the member list `m` plus the node itself -/
def WithSelf (self : Option Nat) (c m : List Nat) : Prop := ∀ x, x ∈ c ↔ x ∈ m ∨ self = some x

theorem unStep_bwd {self : Option Nat} {c m : List Nat} (hm : Good self m) (hc : WithSelf self c m) (k : Kind) :
    WithSelf self (unStep self c k) (memStep self m k true).1 := by
  cases k with
  | noop => simpa [unStep, memStep, changeDir] using hc
  | regular => simpa [unStep, memStep, changeDir] using hc
  | version => simpa [unStep, memStep, changeDir] using hc
  | memOther => simpa [unStep, memStep, changeDir] using hc
  | add n =>
    by_cases hs : self = some n
    · have h1 : unStep self c (.add n) = c := by simp [unStep, hs]
      have h2 : (memStep self m (.add n) true).1 = m := by simp [memStep, changeDir, hs]
      rw [h1, h2]; exact hc
    · have h1 : unStep self c (.add n) = c.filter (fun x => x != n) := by simp [unStep, hs]
      rw [h1]
      by_cases hn : n ∈ m
      · have h2 : (memStep self m (.add n) true).1 = m.erase n := by simp [memStep, changeDir, hs, hn]
        rw [h2]
        intro x
        simp only [List.mem_filter, bne_iff_ne, ne_eq, hc x, hm.nodup.mem_erase_iff]
        constructor
        · rintro ⟨h | h, hx⟩
          · exact Or.inl ⟨hx, h⟩
          · exact Or.inr h
        · rintro (⟨hx, h⟩ | h)
          · exact ⟨Or.inl h, hx⟩
          · exact ⟨Or.inr h, fun hx => hs (hx ▸ h)⟩
      · have h2 : (memStep self m (.add n) true).1 = m := by simp [memStep, changeDir, hs, hn]
        rw [h2]
        intro x
        simp only [List.mem_filter, bne_iff_ne, ne_eq, hc x]
        constructor
        · exact fun h => h.1
        · rintro (h | h)
          · exact ⟨Or.inl h, fun hx => hn (hx ▸ h)⟩
          · exact ⟨Or.inr h, fun hx => hs (hx ▸ h)⟩
  | rem n =>
    by_cases hs : self = some n
    · have h1 : unStep self c (.rem n) = c := by simp [unStep, hs]
      have h2 : (memStep self m (.rem n) true).1 = m := by simp [memStep, changeDir, hs]
      rw [h1, h2]; exact hc
    · have hcn : c.contains n = true ↔ n ∈ m := by
        rw [List.contains_iff_mem, hc n]
        exact ⟨fun h => h.resolve_right hs, Or.inl⟩
      by_cases hn : n ∈ m
      · have hmem : n ∈ c := (hc n).mpr (Or.inl hn)
        have h1 : unStep self c (.rem n) = c := by simp [unStep, hs, hmem]
        have h2 : (memStep self m (.rem n) true).1 = m := by simp [memStep, changeDir, hs, hn]
        rw [h1, h2]; exact hc
      · have hcf : c.contains n = false := by
          cases hb : c.contains n with
          | false => rfl
          | true => exact absurd (hcn.mp hb) hn
        have hnm : n ∉ c := fun h => ((hc n).mp h).elim hn hs
        have h1 : unStep self c (.rem n) = c ++ [n] := by simp [unStep, hs, hnm]
        have h2 : (memStep self m (.rem n) true).1 = m ++ [n] := by simp [memStep, changeDir, hs, hn]
        rw [h1, h2]
        intro x
        simp only [List.mem_append, List.mem_singleton, hc x]
        constructor
        · rintro ((h | h) | h)
          · exact Or.inl (Or.inl h)
          · exact Or.inr h
          · exact Or.inl (Or.inr h)
        · rintro ((h | h) | h)
          · exact Or.inl (Or.inl h)
          · exact Or.inr h
          · exact Or.inl (Or.inr h)

theorem unStep_foldl {self : Option Nat} (L : List Entry) :
    ∀ {c m : List Nat}, Good self m → WithSelf self c m →
      WithSelf self (L.foldl (fun c e => unStep self c e.cmd.kind) c) (L.foldl (bwd self) m) := by
  induction L with
  | nil => intro c m _ h; exact h
  | cons e r ih =>
    intro c m hm hc
    exact ih (memStep_good _ _ hm) (unStep_bwd hm hc e.cmd.kind)

/-- **The dump's cluster is the fold at its own position (repair D63).**  Under the membership invariant, for a
log with contiguous indices and `lastApplied = first + p - 1` inside it, the cluster `__tryLogCompaction` writes
into the dump is exactly the fold of the membership entries up to `lastApplied` (`log[..p)`) over the base, plus
the node itself — whatever changes later entries (appended, possibly uncommitted) have made to `otherNodes`. -/
theorem snapshot_cluster_is_fold_at_position {base : List Nat} {s : Node} {first p : Nat} (hinv : MInv base s)
    (hne : s.log ≠ []) (hidx : IdxOK first s.log) (hla : s.lastApplied + 1 = first + p) :
    ∃ c, clusterAt s.self s.members s.log s.lastApplied = some c ∧
      ∀ x, x ∈ c ↔ x ∈ foldConfig s.self base (s.log.take p) ∨ s.self = some x := by
  unfold clusterAt
  rw [hla, getEntries_from hne hidx]
  simp only []
  refine ⟨_, rfl, ?_⟩
  have hsplit : s.log = s.log.take p ++ s.log.drop p := (List.take_append_drop p s.log).symm
  have h0 : WithSelf s.self (s.members ++ s.self.toList) s.members := by
    intro x
    cases hs : s.self <;> simp [eq_comm]
  have h1 := unStep_foldl (self := s.self) (s.log.drop p).reverse hinv.good h0
  have heff := hinv.eff
  rw [hsplit, Eff_append] at heff
  have heq := hinv.eq
  rw [hsplit, foldConfig_append] at heq
  have hr := rollback_restores (s.log.drop p) (foldConfig_good (s.log.take p) hinv.base_good) hinv.good heff.2 heq
  intro x
  rw [h1 x, hr x]

/-! ## the follower's `append_entries` handler keeps `members = fold(log)` -/

theorem faChunk_frame (s : Node) (m : AppendMsg) :
    (faChunk s m).1.self = s.self ∧ (faChunk s m).1.members = s.members ∧ (faChunk s m).1.log = s.log := by
  unfold faChunk
  cases m.chunk with
  | none => simp
  | some c =>
    obtain ⟨l, data⟩ := c
    simp only []
    cases recvChunk s.recvBuf l data with
    | error e => simp
    | ok r =>
      obtain ⟨b, d⟩ := r
      cases d with
      | none => simp
      | some bytes =>
        simp only []
        cases unpickleEntry bytes <;> simp

theorem getEntries_split {log : List Entry} {pi : Nat} {p0 : Entry} {prest : List Entry}
    (h : getEntries log (some pi) none none = some (p0 :: prest)) :
    ∃ e0 t, log = e0 :: t ∧ ¬ pi < e0.idx ∧ log.drop (pi - e0.idx) = p0 :: prest := by
  cases log with
  | nil => simp [getEntries] at h
  | cons e0 t =>
    unfold getEntries at h
    by_cases hlt : pi < e0.idx
    · simp [hlt] at h
    · simp only [hlt, if_false] at h
      exact ⟨e0, t, rfl, hlt, by simpa using h⟩

/-- where the handler cuts and what it appends: (kept prefix, deleted suffix, appended entries) -/
def faPlan (log : List Entry) (prevIdx : Nat) (newEntries : List Entry) : Option (List Entry × List Entry × List Entry) :=
  match log with
  | [] => none
  | e0 :: _ =>
    match getEntries log (some prevIdx) none none with
    | some (_ :: prest) =>
      some (log.take (prevIdx - e0.idx + 1 + matchedCount prest newEntries),
            prest.drop (matchedCount prest newEntries), newEntries.drop (matchedCount prest newEntries))
    | _ => none

theorem faMerge_minv {cfg : Conf} {base : List Nat} {s0 s' : Node} {src pi : Nat} {prest new : List Entry}
    {o : List Out} {e0 p0 : Entry} {t : List Entry} (hdyn : cfg.dynMember = true) (hinv : MInv base s0)
    (hlog : s0.log = e0 :: t) (hge : ¬ pi < e0.idx) (hdrop : s0.log.drop (pi - e0.idx) = p0 :: prest)
    (heff : Eff s0.self (foldConfig s0.self base (s0.log.take (pi - e0.idx + 1 + matchedCount prest new)))
      (new.drop (matchedCount prest new)))
    (h : faMerge cfg s0 src pi prest new = (s', .ok o)) : MInv base s' := by
  generalize hK : pi - e0.idx + 1 + matchedCount prest new = K at heff
  have hold : prest.drop (matchedCount prest new) = s0.log.drop K := by
    have h1 : s0.log.drop (pi - e0.idx + 1) = prest := by
      have := congrArg (List.drop 1) hdrop
      rw [List.drop_drop] at this
      simpa using this
    have h2 : prest.drop (matchedCount prest new) = (s0.log.drop (pi - e0.idx + 1)).drop (matchedCount prest new) := by
      rw [h1]
    rw [h2, List.drop_drop, ← hK]
  have hsplit : s0.log = s0.log.take K ++ s0.log.drop K := (List.take_append_drop K s0.log).symm
  unfold faMerge at h
  simp only [hdyn, if_true] at h
  rw [hold] at h
  by_cases htr : s0.log.drop K ≠ [] ∧ new.drop (matchedCount prest new) ≠ []
  · rw [if_pos htr] at h
    cases hrb : applyChanges s0 true (s0.log.drop K).reverse with
    | error e => simp [hrb] at h
    | ok r1 =>
      obtain ⟨s1, o1⟩ := r1
      simp only [hrb] at h
      have hs1 := applyChanges_spec _ hrb
      have hdel : deleteFrom s1.log (pi + matchedCount prest new + 1) = some (s0.log.take K) := by
        rw [hs1.2.1, hlog]
        unfold deleteFrom
        have : ¬ pi + matchedCount prest new + 1 < e0.idx := by omega
        simp only [this, if_false]
        congr 2
        omega
      simp only [hdel] at h
      have hroll := members_eq_fold_rollback hinv hsplit hrb
      cases hap : applyChanges { s1 with log := s0.log.take K ++ new.drop (matchedCount prest new) } false
          (new.drop (matchedCount prest new)) with
      | error e => simp [hap] at h
      | ok r2 =>
        obtain ⟨s3, o2⟩ := r2
        simp [hap] at h
        obtain ⟨h3, _⟩ := h
        subst h3
        have hs3 := applyChanges_spec _ hap
        have happ := members_eq_fold_append (s := { s1 with log := s0.log.take K ++ new.drop (matchedCount prest new) })
          (m0 := foldConfig s0.self base (s0.log.take K))
          (by simpa [hroll.2.2] using foldConfig_good (s0.log.take K) hinv.base_good)
          (by simpa [hroll.2.2] using hroll.1) hroll.2.1 hap
        simp only [] at hs3 happ
        have hself : s3.self = s0.self := by rw [hs3.2.2]; exact hroll.2.2
        have heff0 := hinv.eff
        rw [hsplit, Eff_append] at heff0
        refine ⟨by rw [hself]; exact hinv.base_good, by rw [hself]; simpa [hroll.2.2] using happ.1, ?_, ?_⟩
        · rw [hself, hs3.2.1, foldConfig_append]
          simpa [hroll.2.2] using happ.2
        · rw [hself, hs3.2.1, Eff_append]
          exact ⟨heff0.1, heff⟩
  · rw [if_neg htr] at h
    simp only [] at h
    cases hap : applyChanges { s0 with log := s0.log ++ new.drop (matchedCount prest new) } false
        (new.drop (matchedCount prest new)) with
    | error e => simp [hap] at h
    | ok r2 =>
      obtain ⟨s3, o2⟩ := r2
      simp [hap] at h
      obtain ⟨h3, _⟩ := h
      subst h3
      have hs3 := applyChanges_spec _ hap
      simp only [] at hs3
      by_cases hnew : new.drop (matchedCount prest new) = []
      · rw [hnew] at hs3
        exact hinv.congr hs3.2.2 (by simpa using hs3.1) (by simpa using hs3.2.1)
      · have hold0 : s0.log.drop K = [] := by
          apply Classical.byContradiction
          intro hne
          exact htr ⟨hne, hnew⟩
        have hk : s0.log.take K = s0.log := by
          have := hsplit
          rw [hold0, List.append_nil] at this
          exact this.symm
        rw [hk] at heff
        have happ := members_eq_fold_append (s := { s0 with log := s0.log ++ new.drop (matchedCount prest new) })
          (m0 := foldConfig s0.self base s0.log) (foldConfig_good s0.log hinv.base_good) hinv.good hinv.eq hap
        simp only [] at happ
        refine ⟨by rw [hs3.2.2]; exact hinv.base_good, by rw [hs3.2.2]; exact happ.1, ?_, ?_⟩
        · rw [hs3.2.2, hs3.2.1, foldConfig_append]; exact happ.2
        · rw [hs3.2.2, hs3.2.1, Eff_append]; exact ⟨hinv.eff, heff⟩

/-- the entries a message makes the handler append are effective where they are appended (true of every
message built from a leader's log: `members_eq_fold_leader` keeps `Eff`) -/
def MsgEff (base : List Nat) (s : Node) (m : AppendMsg) : Prop :=
  ∀ es, (faChunk s m).2 = .ok (some es) → ∀ pi pt, m.prev = some (pi, pt) →
    ∀ kept old new, faPlan s.log pi es = some (kept, old, new) → Eff s.self (foldConfig s.self base kept) new

/-- **Follower append with conflict rollback keeps `members = fold(log)`.** -/
theorem followerAppend_minv {cfg : Conf} {base : List Nat} {s s' : Node} {src : Nat} {m : AppendMsg} {o : List Out}
    (hdyn : cfg.dynMember = true) (hinv : MInv base s) (hmsg : MsgEff base s m)
    (h : followerAppend cfg s src m = (s', .ok o)) : MInv base s' := by
  have hfr := faChunk_frame s m
  unfold followerAppend at h
  unfold MsgEff at hmsg
  cases hc : faChunk s m with
  | mk s0 rc =>
    rw [hc] at hfr hmsg h
    simp only [] at hfr hmsg
    have hinv0 : MInv base s0 := hinv.congr hfr.1 hfr.2.1 hfr.2.2
    cases rc with
    | error e => simp at h
    | ok r =>
      cases r with
      | none =>
        simp only [] at h
        cases hl : lastIdx? s0.log with
        | none => simp [hl] at h
        | some last => simp [hl] at h; rw [← h.1]; exact hinv0
      | some es =>
        simp only [] at h
        cases hp : m.prev with
        | none =>
          simp only [hp, Option.map_none] at h
          cases hlog : s0.log with
          | nil => simp [hlog, getEntries] at h
          | cons e0 t =>
            simp only [hlog, getEntries] at h
            rw [← hlog] at h
            cases hl : lastIdx? s0.log with
            | none => simp [hl] at h
            | some last => simp [hl] at h; rw [← h.1]; exact hinv0
        | some q =>
          obtain ⟨pi, pt⟩ := q
          simp only [hp, Option.map_some, Option.getD_some] at h
          cases hget : getEntries s0.log (some pi) none none with
          | none => simp [hget] at h
          | some l =>
            cases l with
            | nil =>
              simp only [hget] at h
              cases hl : lastIdx? s0.log with
              | none => simp [hl] at h
              | some last => simp [hl] at h; rw [← h.1]; exact hinv0
            | cons p0 prest =>
              simp only [hget] at h
              by_cases ht : p0.term ≠ pt
              · rw [if_pos ht] at h
                simp at h
                rw [← h.1]; exact hinv0
              · rw [if_neg ht] at h
                obtain ⟨e0, t, hlog, hge, hdrop⟩ := getEntries_split hget
                have hplan : faPlan s.log pi es = some (s0.log.take (pi - e0.idx + 1 + matchedCount prest es),
                    prest.drop (matchedCount prest es), es.drop (matchedCount prest es)) := by
                  rw [← hfr.2.2]
                  unfold faPlan
                  rw [hlog] at hget ⊢
                  simp only [hget]
                have heff := hmsg es rfl pi pt hp _ _ _ hplan
                rw [← hfr.1] at heff
                exact faMerge_minv hdyn hinv0 hlog hge hdrop heff h

/-! ## every sequence of the modelled operations -/

/-- states reachable by the modelled membership-relevant operations of one node, with the base configuration
(the member set before the first entry of the log) as index -/
inductive MReach (cfg : Conf) : List Nat → Node → Prop
  /-- a state satisfying the invariant, e.g. a fresh node: `members = base`, log = the initial no-op -/
  | init {base s} : MInv base s → MReach cfg base s
  /-- `_checkCommandsToApply`, leader branch: accepted (any command kind) or refused -/
  | leader {base s s' cmd cb o br} : MReach cfg base s → leaderDispatch cfg s cmd cb = .ok (s', o, br) →
      MReach cfg base s'
  /-- `append_entries` handler (regular branch, chunks included): no-op, append, or rollback + append -/
  | follower {base s s' src m o} : MReach cfg base s → followerAppend cfg s src m = (s', .ok o) →
      MsgEff base s m → MReach cfg base s'
  /-- an entry is applied / committed (`__doApplyCommand`) -/
  | apply {base s s' e o} : MReach cfg base s → reapplyAtCommit s e = .ok (s', o) → MReach cfg base s'
  /-- `__tryLogCompaction` captures a dump at `lastApplied` (no change of log or member set; the compaction of
  the log prefix is outside this model) -/
  | capture {base s c} : MReach cfg base s → clusterAt s.self s.members s.log s.lastApplied = some c →
      MReach cfg base s
  /-- install of a snapshot whose cluster is the fold up to its position over some base `base'` -/
  | restore {base base' s s' prevE lastE cluster o} : MReach cfg base s →
      restoreSnapshot s prevE lastE cluster true = .ok (s', o) → Good s.self base' →
      (∀ x, (x ∈ cluster ∧ s.self ≠ some x) ↔ x ∈ foldConfig s.self base' [prevE, lastE]) →
      Eff s.self base' [prevE, lastE] → MReach cfg base' s'
  /-- restart: the node is started with a member list `m0` that contains the effects of a prefix of its journal,
  the first tick folds the journal -/
  | restart {base s s' m0 k o} : MReach cfg base s → Good s.self m0 →
      SetEq m0 (foldConfig s.self base (s.log.take k)) →
      journalFold true { s with members := m0 } = .ok (s', o) → MReach cfg base s'

/-- **Member set = fold of the log, for every sequence of the modelled operations** (`dynamicMembershipChange`
on): leader accept / refuse, follower append with conflict rollback, apply / commit, snapshot capture, restore
from a snapshot whose cluster is the fold up to its position, journal fold at start-up.  The node's member list is
duplicate-free, does not contain the node, and equals (as a set) the fold of the membership commands of its log
over the base set of the log's first position. -/
theorem members_eq_fold {cfg : Conf} (hdyn : cfg.dynMember = true) {base : List Nat} {s : Node}
    (h : MReach cfg base s) : MInv base s := by
  induction h with
  | init h => exact h
  | leader _ hstep ih => exact members_eq_fold_leader ih hdyn hstep
  | follower _ hstep hmsg ih => exact followerAppend_minv hdyn ih hmsg hstep
  | apply _ hstep ih => cases hstep; exact ih
  | capture _ _ ih => exact ih
  | @restore base base' s s' prevE lastE cluster o _ hstep hb hcl heff ih =>
    obtain ⟨hlog, hnd, hmem, hself⟩ := members_eq_fold_restore prevE lastE cluster hstep
    refine ⟨by rw [hself]; exact hb, ⟨hnd, ?_⟩, ?_, by rw [hself, hlog]; exact heff⟩
    · intro n hn hin
      rw [hself] at hn
      exact ((hmem n).mp hin).2 hn
    · intro x
      rw [hself, hlog, hmem x]
      exact hcl x
  | @restart base s s' m0 k o _ hg hm hstep ih =>
    exact journalFold_minv (s := { s with members := m0 }) ih.base_good hg ih.eff hm hstep

/-! ## a newly added node is not counted for any position -/

theorem Map.get?_put_self (m : Map) (k v : Nat) : (m.put k v).get? k = some v := by
  simp [Map.put, Map.get?]

theorem sendAllLoop_matchIndex (B : Nat) (snapOf : Nat → List (Option Bool)) (ds : List Nat) :
    ∀ {s s' : Node} {budget b' : Option Nat} {o : List Out},
      sendAllLoop B snapOf ds s budget = .ok (s', o, b') → s'.matchIndex = s.matchIndex := by
  induction ds with
  | nil => intro s s' budget b' o h; simp [sendAllLoop] at h; rw [← h.1]
  | cons d ds ih =>
    intro s s' budget b' o h
    unfold sendAllLoop at h
    split at h
    · exact ih h
    · split at h
      · simp at h
      · split at h
        · simp at h
        · simp only [] at h
          split at h
          · simp at h
          · rename_i s2 o2 b2 hrec
            simp at h
            rw [← h.1, ih hrec]

theorem doChange_add_matchIndex {s s' : Node} {n : Nat} {o : List Out}
    (h : doChange s (.add n) false = .ok (s', true, o)) :
    s'.matchIndex.get? n = some 0 ∧ ∃ last, lastIdx? s.log = some last ∧ s'.nextIndex.get? n = some (last + 1) := by
  unfold doChange at h
  simp only [changeDir, Bool.not_false] at h
  split at h
  · simp at h
  · simp only [if_true] at h
    cases hl : lastIdx? s.log with
    | none => simp [hl] at h
    | some last =>
      simp [hl] at h
      obtain ⟨h1, _⟩ := h
      subst h1
      exact ⟨Map.get?_put_self _ _ _, last, rfl, Map.get?_put_self _ _ _⟩

/-- **A newly added node is not counted for any position.**  When the leader accepts `add x`
(`dynamicMembershipChange` on), `x` enters with `matchIndex = 0` (and `nextIndex` = the index of the membership
entry itself): it holds nothing as far as the commit rule is concerned until it acknowledges — the commit of the
entries, the change included, needs a majority of the NEW configuration that really stores them. -/
theorem added_node_not_counted {cfg : Conf} {s s' : Node} {cmd : Cmd} {cb : Cb} {o : List Out} {br : Branch} {x : Nat}
    (h : leaderDispatch cfg s cmd cb = .ok (s', o, br)) (hdyn : cfg.dynMember = true) (hk : cmd.kind = .add x)
    (hbr : br ≠ .denied) : s'.matchIndex.get? x = some 0 := by
  unfold leaderDispatch at h
  split at h
  · simp at h
  · rename_i last hl
    unfold gateOf at h
    simp only [hdyn, if_true, hk, parseChange] at h
    cases hg : changeCluster s (.add x) with
    | error e => simp [hg] at h
    | ok res =>
      obtain ⟨s1, acc, o1⟩ := res
      cases acc with
      | false => simp [hg] at h; exact absurd h.2.2.symm hbr
      | true =>
        simp only [hg] at h
        -- the accepted request went through `doChange … (.add x) false` with result `true`
        have hm1 : s1.matchIndex.get? x = some 0 := by
          unfold changeCluster at hg
          split at hg
          · simp at hg
          · split at hg
            · simp at hg
            · simp only [] at hg
              split at hg
              · simp at hg
              · exact (doChange_add_matchIndex hg).1
        have hacc : ∀ isReq, (leaderAccept s1 cmd cb (last + 1) s.term isReq).1.matchIndex = s1.matchIndex := by
          intro isReq; cases cb <;> rfl
        split at h
        · simp at h
          rw [← h.1, hacc]; exact hm1
        · split at h
          · simp at h
          · rename_i s4 o4 hsa
            simp at h
            rw [← h.1]
            unfold sendAll at hsa
            split at hsa
            · simp at hsa
            · rename_i s5 o5 b5 hloop
              simp at hsa
              rw [← hsa.1, sendAllLoop_matchIndex _ _ _ hloop, hacc]; exact hm1

end PSO.NodeSend
