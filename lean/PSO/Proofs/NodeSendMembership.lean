import PSO.Model.NodeSend

/-! # Node-local membership theorems (C10): gate, member set = fold of the log, adjacent majorities

Referenced from `PSO/Props/C10.lean`.  Everything is about the functions of `PSO/Model/NodeSend.lean`
that `driver nodesend` executes.
-/
namespace PSO.NodeSend

/-! ## majorities of adjacent configurations intersect (pure arithmetic on duplicate-free lists) -/

theorem length_le_of_nodup_subset {l w : List Nat} (hl : l.Nodup) (hs : ∀ x ∈ l, x ∈ w) : l.length ≤ w.length := by
  induction l generalizing w with
  | nil => simp
  | cons a t ih =>
    have ha : a ∈ w := hs a (by simp)
    have hnd := List.nodup_cons.mp hl
    have ht : ∀ x ∈ t, x ∈ w.erase a := by
      intro x hx
      have hxa : x ≠ a := by intro h; subst h; exact hnd.1 hx
      exact (List.mem_erase_of_ne hxa).mpr (hs x (by simp [hx]))
    have := ih hnd.2 ht
    rw [List.length_erase_of_mem ha] at this
    have hpos : 0 < w.length := List.length_pos_of_mem ha
    simp
    omega

/-- `isMajority`: the code's `count > (len(otherNodes) + 1) / 2` (true division) for `count = |Q|`, `|V| = len(otherNodes)+1` -/
def IsMajorityOf (Q V : List Nat) : Prop := Q.Nodup ∧ (∀ x ∈ Q, x ∈ V) ∧ V.length < 2 * Q.length

/-- **Adjacent majorities intersect.** `V'` is `V` plus one node (`x ∉ V`); any majority of `V` and any
majority of `V'` share a node.  (Removal is the same statement read from `V'` to `V`.) -/
theorem adjacent_majorities_intersect {V Q Q' : List Nat} {x : Nat} (hV : V.Nodup) (hx : x ∉ V)
    (hQ : IsMajorityOf Q V) (hQ' : IsMajorityOf Q' (x :: V)) : ∃ y, y ∈ Q ∧ y ∈ Q' := by
  apply Classical.byContradiction
  intro hno
  have hdis : ∀ y, y ∈ Q → y ∉ Q' := fun y hy hy' => hno ⟨y, hy, hy'⟩
  have hnd : (Q ++ Q').Nodup := by
    rw [List.nodup_append]
    refine ⟨hQ.1, hQ'.1, ?_⟩
    intro a ha b hb hab
    subst hab
    exact hdis a ha hb
  have hsub : ∀ y ∈ Q ++ Q', y ∈ x :: V := by
    intro y hy
    rcases List.mem_append.mp hy with h | h
    · exact List.mem_cons_of_mem _ (hQ.2.1 y h)
    · exact hQ'.2.1 y h
  have hlen := length_le_of_nodup_subset hnd hsub
  have h1 := hQ.2.2
  have h2 := hQ'.2.2
  simp at hlen h2
  omega

/-- the same with the two configurations equal (ordinary quorum intersection) -/
theorem majorities_intersect {V Q Q' : List Nat} (hQ : IsMajorityOf Q V) (hQ' : IsMajorityOf Q' V) :
    ∃ y, y ∈ Q ∧ y ∈ Q' := by
  apply Classical.byContradiction
  intro hno
  have hdis : ∀ y, y ∈ Q → y ∉ Q' := fun y hy hy' => hno ⟨y, hy, hy'⟩
  have hnd : (Q ++ Q').Nodup := by
    rw [List.nodup_append]
    refine ⟨hQ.1, hQ'.1, ?_⟩
    intro a ha b hb hab
    subst hab
    exact hdis a ha hb
  have hsub : ∀ y ∈ Q ++ Q', y ∈ V := by
    intro y hy
    rcases List.mem_append.mp hy with h | h
    · exact hQ.2.1 y h
    · exact hQ'.2.1 y h
  have hlen := length_le_of_nodup_subset hnd hsub
  have h1 := hQ.2.2
  have h2 := hQ'.2.2
  simp at hlen
  omega

/-! ## algebra of `memStep` -/

def SetEq (a b : List Nat) : Prop := ∀ x, x ∈ a ↔ x ∈ b

theorem SetEq.refl (a : List Nat) : SetEq a a := fun _ => Iff.rfl
theorem SetEq.symm {a b : List Nat} (h : SetEq a b) : SetEq b a := fun x => (h x).symm
theorem SetEq.trans {a b c : List Nat} (h1 : SetEq a b) (h2 : SetEq b c) : SetEq a c := fun x => (h1 x).trans (h2 x)

/-- a member list: duplicate-free and without the node itself -/
def Good (self : Option Nat) (m : List Nat) : Prop := m.Nodup ∧ ∀ n, self = some n → n ∉ m

theorem Good.nodup {self : Option Nat} {m : List Nat} (h : Good self m) : m.Nodup := h.1
theorem Good.noself {self : Option Nat} {m : List Nat} (h : Good self m) : ∀ n, self = some n → n ∉ m := h.2

theorem memStep_good {self : Option Nat} {m : List Nat} (k : Kind) (r : Bool) (h : Good self m) :
    Good self (memStep self m k r).1 := by
  unfold memStep
  split
  · exact h
  · split
    · exact h
    · rename_i n _ hc
      simp at hc
      refine ⟨?_, ?_⟩
      · rw [List.nodup_append]
        refine ⟨h.nodup, by simp, ?_⟩
        intro a ha b hb hab
        simp at hb
        subst hab; subst hb
        exact hc.2 ha
      · intro s hs hmem
        rcases List.mem_append.mp hmem with h1 | h1
        · exact h.noself s hs h1
        · simp at h1; subst h1; exact hc.1 hs
  · split
    · exact h
    · exact ⟨h.nodup.erase _, fun s hs hmem => h.noself s hs (List.mem_of_mem_erase hmem)⟩

theorem memStep_congr {self : Option Nat} {m m' : List Nat} (k : Kind) (r : Bool)
    (hm : Good self m) (hm' : Good self m') (h : SetEq m m') :
    SetEq (memStep self m k r).1 (memStep self m' k r).1 ∧ (memStep self m k r).2 = (memStep self m' k r).2 := by
  unfold memStep
  split
  · exact ⟨h, by simp⟩
  · rename_i n _
    by_cases hc : self = some n ∨ n ∈ m
    · have hc' : self = some n ∨ n ∈ m' := hc.imp id (fun x => (h n).mp x)
      simp only [hc, hc', if_true]
      exact ⟨h, by simp⟩
    · have hc' : ¬ (self = some n ∨ n ∈ m') := fun x => hc (x.imp id (fun y => (h n).mpr y))
      simp only [hc, hc', if_false]
      refine ⟨?_, by simp⟩
      intro x
      simp [List.mem_append, h x]
  · rename_i n _
    by_cases hc : self = some n ∨ n ∉ m
    · have hc' : self = some n ∨ n ∉ m' := hc.imp id (fun x y => x ((h n).mpr y))
      simp only [hc, hc', if_true]
      exact ⟨h, by simp⟩
    · have hc' : ¬ (self = some n ∨ n ∉ m') := fun x => hc (x.imp id (fun y z => y ((h n).mp z)))
      simp only [hc, hc', if_false]
      refine ⟨?_, by simp⟩
      intro x
      rw [hm.nodup.mem_erase_iff, hm'.nodup.mem_erase_iff, h x]

/-- an entry is *effective* on member list `m`: it targets the node itself (then it is a no-op in both
directions) or it really changes `m` -/
def EffStep (self : Option Nat) (m : List Nat) (k : Kind) : Prop :=
  match changeDir k false with
  | none => True
  | some (n, _) => self = some n ∨ (memStep self m k false).2 = true

theorem changeDir_rev (k : Kind) : changeDir k true = (changeDir k false).map (fun p => (p.1, !p.2)) := by
  cases k <;> simp [changeDir]

/-- rolling an effective change back restores the member set -/
theorem memStep_undo {self : Option Nat} {m : List Nat} (k : Kind) (hm : Good self m) (he : EffStep self m k) :
    SetEq (memStep self (memStep self m k false).1 k true).1 m := by
  unfold EffStep at he
  cases k with
  | noop => simp [memStep, changeDir]; exact SetEq.refl _
  | regular => simp [memStep, changeDir]; exact SetEq.refl _
  | version => simp [memStep, changeDir]; exact SetEq.refl _
  | memOther => simp [memStep, changeDir]; exact SetEq.refl _
  | add n =>
    simp only [changeDir, Bool.not_false] at he
    rcases he with hs | hch
    · simp [memStep, changeDir, hs]; exact SetEq.refl _
    · by_cases hc : self = some n ∨ n ∈ m
      · simp [memStep, changeDir, hc] at hch
      · have hns : ¬ self = some n := fun x => hc (Or.inl x)
        have hnm : n ∉ m := fun x => hc (Or.inr x)
        simp [memStep, changeDir, hns, hnm]
        intro x
        have hnd : (m ++ [n]).Nodup := by
          rw [List.nodup_append]
          refine ⟨hm.nodup, by simp, ?_⟩
          intro a ha b hb hab; simp at hb; subst hab; subst hb; exact hnm ha
        rw [hnd.mem_erase_iff]
        simp [List.mem_append]
        constructor
        · rintro ⟨hne, h | h⟩
          · exact h
          · exact absurd h hne
        · intro h
          exact ⟨fun hx => hnm (hx ▸ h), Or.inl h⟩
  | rem n =>
    simp only [changeDir] at he
    rcases he with hs | hch
    · simp [memStep, changeDir, hs]; exact SetEq.refl _
    · by_cases hc : self = some n ∨ n ∉ m
      · simp [memStep, changeDir, hc] at hch
      · have hns : ¬ self = some n := fun x => hc (Or.inl x)
        have hnm : n ∈ m := Classical.byContradiction fun x => hc (Or.inr x)
        have hne : n ∉ m.erase n := fun h => by
          have := (hm.nodup.mem_erase_iff).mp h
          exact this.1 rfl
        simp [memStep, changeDir, hns, hnm, hne]
        intro x
        simp [List.mem_append, hm.nodup.mem_erase_iff]
        constructor
        · rintro (⟨_, h⟩ | h)
          · exact h
          · exact h ▸ hnm
        · intro h
          by_cases hx : x = n
          · exact Or.inr hx
          · exact Or.inl ⟨hx, h⟩

/-! ## fold of a log, effectiveness of a log, rollback of a suffix -/

def fwd (self : Option Nat) (m : List Nat) (e : Entry) : List Nat := (memStep self m e.cmd.kind false).1
def bwd (self : Option Nat) (m : List Nat) (e : Entry) : List Nat := (memStep self m e.cmd.kind true).1

theorem foldConfig_eq (self : Option Nat) (base : List Nat) (log : List Entry) :
    foldConfig self base log = log.foldl (fwd self) base := rfl

theorem foldConfig_append (self : Option Nat) (base : List Nat) (l1 l2 : List Entry) :
    foldConfig self base (l1 ++ l2) = foldConfig self (foldConfig self base l1) l2 := by
  simp [foldConfig, List.foldl_append]

theorem foldConfig_good {self : Option Nat} {base : List Nat} (log : List Entry) (h : Good self base) :
    Good self (foldConfig self base log) := by
  induction log generalizing base with
  | nil => exact h
  | cons e r ih => exact ih (memStep_good _ _ h)

theorem foldConfig_congr {self : Option Nat} {m m' : List Nat} (log : List Entry)
    (hm : Good self m) (hm' : Good self m') (h : SetEq m m') :
    SetEq (foldConfig self m log) (foldConfig self m' log) := by
  induction log generalizing m m' with
  | nil => exact h
  | cons e r ih =>
    exact ih (memStep_good _ _ hm) (memStep_good _ _ hm') (memStep_congr _ _ hm hm' h).1

theorem foldl_bwd_good {self : Option Nat} {m : List Nat} (l : List Entry) (h : Good self m) :
    Good self (l.foldl (bwd self) m) := by
  induction l generalizing m with
  | nil => exact h
  | cons e r ih => exact ih (memStep_good _ _ h)

theorem foldl_bwd_congr {self : Option Nat} {m m' : List Nat} (l : List Entry)
    (hm : Good self m) (hm' : Good self m') (h : SetEq m m') :
    SetEq (l.foldl (bwd self) m) (l.foldl (bwd self) m') := by
  induction l generalizing m m' with
  | nil => exact h
  | cons e r ih =>
    exact ih (memStep_good _ _ hm) (memStep_good _ _ hm') (memStep_congr _ _ hm hm' h).1

/-- every membership entry of the list changed the configuration it was applied to -/
def Eff (self : Option Nat) : List Nat → List Entry → Prop
  | _, [] => True
  | m, e :: r => EffStep self m e.cmd.kind ∧ Eff self (fwd self m e) r

theorem Eff_append {self : Option Nat} {m : List Nat} {l1 l2 : List Entry} :
    Eff self m (l1 ++ l2) ↔ Eff self m l1 ∧ Eff self (foldConfig self m l1) l2 := by
  induction l1 generalizing m with
  | nil => simp [Eff, foldConfig]
  | cons e r ih =>
    simp only [List.cons_append, Eff, ih, foldConfig, List.foldl_cons, fwd]
    exact and_assoc.symm

theorem EffStep_congr {self : Option Nat} {m m' : List Nat} (k : Kind) (hm : Good self m) (hm' : Good self m')
    (h : SetEq m m') : EffStep self m k → EffStep self m' k := by
  unfold EffStep
  split
  · exact id
  · intro he
    rw [← (memStep_congr k false hm hm' h).2]
    exact he

/-- **Rollback.** Rolling back, in reverse order, a list of entries that were effective from `m0` brings any
member list that equals the fold back to `m0` (as sets). -/
theorem rollback_restores {self : Option Nat} (L : List Entry) :
    ∀ {m0 m : List Nat}, Good self m0 → Good self m → Eff self m0 L → SetEq m (foldConfig self m0 L) →
      SetEq (L.reverse.foldl (bwd self) m) m0 := by
  induction L with
  | nil => intro m0 m _ _ _ h; exact h
  | cons e r ih =>
    intro m0 m h0 hm he hs
    have h1 : Good self (fwd self m0 e) := memStep_good _ _ h0
    have hr := ih h1 hm he.2 hs
    simp only [List.reverse_cons, List.foldl_append, List.foldl_cons, List.foldl_nil]
    have hg : Good self (r.reverse.foldl (bwd self) m) := foldl_bwd_good _ hm
    have hc := (memStep_congr e.cmd.kind true hg h1 hr).1
    exact SetEq.trans hc (memStep_undo e.cmd.kind h0 he.1)

/-! ## the model functions touch the member list exactly through `memStep` -/

theorem doChange_spec {s s' : Node} {k : Kind} {r ch : Bool} {o : List Out}
    (h : doChange s k r = .ok (s', ch, o)) :
    s'.members = (memStep s.self s.members k r).1 ∧ ch = (memStep s.self s.members k r).2 ∧
    s'.log = s.log ∧ s'.self = s.self ∧ s'.lastApplied = s.lastApplied ∧ s'.noopIdx = s.noopIdx ∧
    s'.changeIdx = s.changeIdx ∧ s'.role = s.role ∧ s'.term = s.term ∧ s'.queue = s.queue ∧
    s'.waitCommit = s.waitCommit ∧ s'.waitReply = s.waitReply ∧ s'.localCounter = s.localCounter ∧
    s'.leader = s.leader ∧ (ch = false → o = [] ∧ s'.members = s.members) := by
  unfold doChange at h
  cases hcd : changeDir k r with
  | none =>
    simp only [hcd] at h
    cases h
    simp [memStep, hcd]
  | some p =>
    obtain ⟨n, adding⟩ := p
    simp only [hcd] at h
    cases hms : memStep s.self s.members k r with
    | mk m' changed =>
      simp only [hms] at h
      cases changed with
      | false =>
        simp at h
        obtain ⟨h1, h2, h3⟩ := h
        subst h1; subst h2; subst h3
        have : m' = s.members := by
          unfold memStep at hms
          simp only [hcd] at hms
          cases adding <;> simp only at hms <;> split at hms <;> simp_all
        simp [this]
      | true =>
        simp at h
        cases adding with
        | true =>
          simp at h
          cases hl : lastIdx? s.log with
          | none => simp [hl] at h
          | some last =>
            simp [hl] at h
            obtain ⟨h1, h2, h3⟩ := h
            subst h1; subst h2; subst h3
            simp
        | false =>
          simp at h
          obtain ⟨h1, h2, h3⟩ := h
          subst h1; subst h2; subst h3
          simp

theorem applyChanges_spec {rev : Bool} (L : List Entry) :
    ∀ {s s' : Node} {o : List Out}, applyChanges s rev L = .ok (s', o) →
      s'.members = L.foldl (fun m e => (memStep s.self m e.cmd.kind rev).1) s.members ∧
      s'.log = s.log ∧ s'.self = s.self := by
  induction L with
  | nil => intro s s' o h; simp [applyChanges] at h; obtain ⟨h1, _⟩ := h; subst h1; simp
  | cons e r ih =>
    intro s s' o h
    unfold applyChanges at h
    cases hp : parseChange e.cmd.kind with
    | none =>
      simp only [hp] at h
      have := ih h
      have hnop : (memStep s.self s.members e.cmd.kind rev).1 = s.members := by
        cases hk : e.cmd.kind <;> simp [hk, parseChange] at hp <;> simp [memStep, changeDir]
      simp [List.foldl_cons, hnop, this]
    | some k =>
      have hk : k = e.cmd.kind := by
        cases hkk : e.cmd.kind <;> simp [hkk, parseChange] at hp <;> simp [← hp]
      subst hk
      simp only [hp] at h
      cases hd : doChange s e.cmd.kind rev with
      | error err => simp [hd] at h
      | ok res =>
        obtain ⟨s1, ch, o1⟩ := res
        simp only [hd] at h
        cases ha : applyChanges s1 rev r with
        | error err => simp [ha] at h
        | ok res2 =>
          obtain ⟨s2, o2⟩ := res2
          simp only [ha] at h
          simp at h
          obtain ⟨h1, _⟩ := h
          subst h1
          have hs := doChange_spec hd
          have := ih ha
          simp [List.foldl_cons, this, hs.1, hs.2.2.1, hs.2.2.2.1]

/-! ## the leader-side gate (`__changeCluster` + the append in `_checkCommandsToApply`) -/

def isMembership (k : Kind) : Bool := (parseChange k).isSome

theorem changeCluster_spec {s s' : Node} {k : Kind} {acc : Bool} {o : List Out}
    (h : changeCluster s k = .ok (s', acc, o)) :
    s'.log = s.log ∧ s'.self = s.self ∧ s'.lastApplied = s.lastApplied ∧ s'.noopIdx = s.noopIdx ∧
    s'.role = s.role ∧ s'.term = s.term ∧
    (acc = true →
      (∃ noop, s.noopIdx = some noop ∧ noop ≤ s.lastApplied) ∧
      (∀ c, s.changeIdx = some c → c ≤ s.lastApplied) ∧ s'.changeIdx = none ∧
      s'.members = (memStep s.self s.members k false).1 ∧ (memStep s.self s.members k false).2 = true) ∧
    (acc = false → s'.members = s.members ∧ o = []) := by
  unfold changeCluster at h
  cases hn : s.noopIdx with
  | none => simp [hn] at h
  | some noop =>
    simp only [hn] at h
    by_cases hlt : s.lastApplied < noop
    · simp [hlt] at h
      obtain ⟨h1, h2, h3⟩ := h
      subst h1; subst h2; subst h3
      simp [hn]
    · simp only [hlt, if_false] at h
      cases hc : s.changeIdx with
      | none =>
        simp [hc] at h
        have hs := doChange_spec h
        simp only [] at hs
        refine ⟨hs.2.2.1, hs.2.2.2.1, hs.2.2.2.2.1, by simpa [hn] using hs.2.2.2.2.2.1, hs.2.2.2.2.2.2.2.1, hs.2.2.2.2.2.2.2.2.1, ?_, ?_⟩
        · intro hacc
          refine ⟨⟨noop, rfl, by omega⟩, by simp, by simpa using hs.2.2.2.2.2.2.1, hs.1, ?_⟩
          rw [← hs.2.1]; exact hacc
        · intro hacc
          subst hacc
          have := hs.2.2.2.2.2.2.2.2.2.2.2.2.2.2 rfl
          exact ⟨by simpa using this.2, this.1⟩
      | some c =>
        by_cases hcl : c ≤ s.lastApplied
        · simp [hc, hcl] at h
          have hs := doChange_spec h
          simp only [] at hs
          refine ⟨hs.2.2.1, hs.2.2.2.1, hs.2.2.2.2.1, by simpa [hn] using hs.2.2.2.2.2.1, hs.2.2.2.2.2.2.2.1, hs.2.2.2.2.2.2.2.2.1, ?_, ?_⟩
          · intro hacc
            refine ⟨⟨noop, rfl, by omega⟩, ?_, by simpa using hs.2.2.2.2.2.2.1, hs.1, ?_⟩
            · intro c' hc'; cases hc'; exact hcl
            · rw [← hs.2.1]; exact hacc
          · intro hacc
            subst hacc
            have := hs.2.2.2.2.2.2.2.2.2.2.2.2.2.2 rfl
            exact ⟨by simpa using this.2, this.1⟩
        · simp [hc, hcl] at h
          obtain ⟨h1, h2, h3⟩ := h
          subst h1; subst h2; subst h3
          simp [hn]

end PSO.NodeSend
