import PSO.Proofs.RaftSafetyBasic

/-! # `InvS` is preserved by every action -/
namespace PSO.Raft

/-- Node change in a step that leaves the log alone and creates no candidate/leader. -/
def NodeS (a b : NodeSt) : Prop :=
  b.log = a.log ∧ a.term ≤ b.term ∧ ((b.role = a.role ∧ b.term = a.term) ∨ b.role = .follower)

theorem NodeS.refl (a : NodeSt) : NodeS a a := ⟨rfl, Nat.le_refl _, Or.inl ⟨rfl, rfl⟩⟩

theorem nodeS_setNode {s : State} {n : Nat} {ns' : NodeSt} (h : NodeS (s.nodes n) ns') :
    ∀ k, NodeS (s.nodes k) ((setNode s n ns').nodes k) := by
  intro k
  by_cases hk : k = n
  · subst hk; simpa using h
  · rw [setNode_nodes_ne _ _ hk]; exact NodeS.refl _

theorem ownPos_congr {g g' : Ghost} (htl : g'.termLog = g.termLog) {t i : Nat} :
    OwnPos g' t i ↔ OwnPos g t i := by unfold OwnPos; rw [htl]

theorem blocked_frame {N : Nat} {s s' : State} (hak : s'.g.acked = s.g.acked)
    (hn : ∀ n, NodeS (s.nodes n) (s'.nodes n)) {t i : Nat} (h : Blocked N s t i) : Blocked N s' t i :=
  blocked_mono (fun b => (hn b).2.1) (fun b _ => by rw [hak]) h

theorem cmt_frame {N : Nat} {s s' : State} (htl : s'.g.termLog = s.g.termLog) (hak : s'.g.acked = s.g.acked)
    {b b' : Nat} (hb : b ≤ b') {P : List Entry} (h : Cmt N s b P) : Cmt N s' b' P :=
  cmt_mono (fun t => ⟨[], by rw [htl]; simp⟩) (fun t q => by rw [hak]) hb h

/-- Frame lemma for `InvS`: the ghost fields it reads are unchanged, no new messages, logs unchanged;
the fields that mention `commit` and `matchIdx` are supplied by the caller. -/
theorem invS_frame {N : Nat} {s s' : State} (h : InvS N s)
    (hv : s'.g.voted = s.g.voted) (htl : s'.g.termLog = s.g.termLog) (hak : s'.g.acked = s.g.acked)
    (hm : ∀ m ∈ s'.msgs, m.isVote = false → m ∈ s.msgs)
    (hn : ∀ n, NodeS (s.nodes n) (s'.nodes n))
    (hcm : ∀ n, (s'.nodes n).commit < (s'.nodes n).log.length)
    (hmatch : ∀ n f, (s'.nodes n).role = .leader → (s'.nodes n).matchIdx f ≤ s'.g.acked (s'.nodes n).term f)
    (hC1 : ∀ n, Cmt N s' (s'.nodes n).term ((s'.nodes n).log.take ((s'.nodes n).commit + 1))) :
    InvS N s' := by
  have hbl : ∀ t i, Blocked N s t i → Blocked N s' t i := fun t i => blocked_frame hak hn
  constructor
  · exact hcm
  · intro t v c hvv; rw [hv] at hvv; exact Nat.le_trans (h.voted_cand t v c hvv) (hn c).2.1
  · rw [htl, hak]; exact h.noldr_acked
  · intro t f l idx hmem; rw [hak]; exact h.ack_msg t f l idx (hm _ hmem rfl)
  · exact hmatch
  · intro n hr
    rcases (hn n).2.2 with ⟨hr', ht⟩ | hf
    · rw [hak, ht, (hn n).1]; exact h.ldr_acked n (hr' ▸ hr)
    · rw [hf] at hr; cases hr
  · rw [hak, htl]; exact h.acked_lt
  · intro t n hpos; rw [hak] at hpos; exact Nat.le_trans (h.acked_term t n hpos) (hn n).2.1
  · intro n hpos
    rw [hak] at hpos ⊢; rw [htl]
    rcases Nat.lt_or_ge (s.nodes n).term (s'.nodes n).term with hlt | hge
    · have := h.acked_term _ _ hpos; omega
    · have heq : (s'.nodes n).term = (s.nodes n).term := Nat.le_antisymm hge (hn n).2.1
      rw [heq] at hpos ⊢; rw [(hn n).1]; exact h.acked_cur n hpos
  · intro t t' i htt htlne ho
    rw [htl] at htlne ⊢; rw [ownPos_congr htl] at ho
    rcases h.Y t t' i htt htlne ho with hy | hy
    · exact Or.inl hy
    · exact Or.inr (hbl _ _ hy)
  · intro n t i ho hi
    rw [ownPos_congr htl] at ho; rw [hak] at hi; rw [htl, (hn n).1]
    rcases h.Z n t i ho hi with hy | hy
    · exact Or.inl hy
    · exact Or.inr (hbl _ _ hy)
  · intro t' c v hvv hr ht t i htt ho hi
    rw [hv] at hvv; rw [ownPos_congr htl] at ho; rw [hak] at hi; rw [htl]
    rcases (hn c).2.2 with ⟨hr', ht'⟩ | hf
    · rw [(hn c).1]
      rcases h.V t' c v hvv (hr' ▸ hr) (ht' ▸ ht) t i htt ho hi with hy | hy
      · exact Or.inl hy
      · exact Or.inr (hbl _ _ hy)
    · rw [hf] at hr; cases hr
  · exact hC1
  · intro t l d prev pt es c hmem
    obtain ⟨h1, h2⟩ := h.msg_cmt_a t l d prev pt es c (hm _ hmem rfl)
    rw [htl]; exact ⟨h1, cmt_frame htl hak (Nat.le_refl _) h2⟩
  · intro t l d k kt c pfx hmem
    obtain ⟨h1, h2, h3⟩ := h.msg_cmt_s t l d k kt c pfx (hm _ hmem rfl)
    rw [htl]; exact ⟨h1, cmt_frame htl hak (Nat.le_refl _) h2, cmt_frame htl hak (Nat.le_refl _) h3⟩

/-- The `commit`/`matchIdx` obligations of `invS_frame` when those fields are unchanged too. -/
theorem invS_frame' {N : Nat} {s s' : State} (h : InvS N s)
    (hv : s'.g.voted = s.g.voted) (htl : s'.g.termLog = s.g.termLog) (hak : s'.g.acked = s.g.acked)
    (hm : ∀ m ∈ s'.msgs, m.isVote = false → m ∈ s.msgs)
    (hn : ∀ n, NodeS (s.nodes n) (s'.nodes n))
    (hc : ∀ n, (s'.nodes n).commit = (s.nodes n).commit)
    (hmi : ∀ n, (s'.nodes n).matchIdx = (s.nodes n).matchIdx) : InvS N s' := by
  refine invS_frame h hv htl hak hm hn ?_ ?_ ?_
  · intro n; rw [hc, (hn n).1]; exact h.cm_lt n
  · intro n f hr
    rcases (hn n).2.2 with ⟨hr', ht⟩ | hf
    · rw [hmi, hak, ht]; exact h.match_le n f (hr' ▸ hr)
    · rw [hf] at hr; cases hr
  · intro n; rw [hc, (hn n).1]; exact cmt_frame htl hak (hn n).2.1 (h.C1 n)

end PSO.Raft

namespace PSO.Raft

theorem nodeS_adopt (ns : NodeSt) (t : Nat) (ht : ns.term ≤ t) : NodeS ns (adoptTerm ns t) := by
  unfold adoptTerm NodeS
  split
  · exact ⟨rfl, by simp; omega, Or.inr rfl⟩
  · exact ⟨rfl, Nat.le_refl _, Or.inr rfl⟩

@[simp] theorem adoptTerm_matchIdx (ns : NodeSt) (t : Nat) : (adoptTerm ns t).matchIdx = ns.matchIdx := by
  unfold adoptTerm; split <;> rfl

theorem invS_apply {N s s' n} (h : InvS N s) (hs : step N s (.apply n) = some s') : InvS N s' := by
  simp only [step] at hs
  split at hs
  · injection hs with hs; subst hs
    refine invS_frame' h rfl rfl rfl (fun m hm _ => hm) (nodeS_setNode ⟨rfl, Nat.le_refl _, Or.inl ⟨rfl, rfl⟩⟩) ?_ ?_
    · intro k; by_cases hk : k = n
      · subst hk; simp
      · rw [setNode_nodes_ne _ _ hk]
    · intro k; by_cases hk : k = n
      · subst hk; simp
      · rw [setNode_nodes_ne _ _ hk]
  · cases hs

theorem invS_stepDown {N s s' n} (h : InvS N s) (hs : step N s (.stepDown n) = some s') : InvS N s' := by
  simp only [step] at hs
  split at hs
  · injection hs with hs; subst hs
    refine invS_frame' h rfl rfl rfl (fun m hm _ => hm) (nodeS_setNode ⟨rfl, Nat.le_refl _, Or.inr rfl⟩) ?_ ?_
    · intro k; by_cases hk : k = n
      · subst hk; simp
      · rw [setNode_nodes_ne _ _ hk]
    · intro k; by_cases hk : k = n
      · subst hk; simp
      · rw [setNode_nodes_ne _ _ hk]
  · cases hs

theorem invS_observeTerm {N s s' n t} (h : InvS N s) (hs : step N s (.observeTerm n t) = some s') : InvS N s' := by
  simp only [step] at hs
  split at hs
  · rename_i hg
    injection hs with hs; subst hs
    refine invS_frame' h rfl rfl rfl (fun m hm _ => hm) (nodeS_setNode (nodeS_adopt _ _ hg)) ?_ ?_
    · intro k; by_cases hk : k = n
      · subst hk; simp
      · rw [setNode_nodes_ne _ _ hk]
    · intro k; by_cases hk : k = n
      · subst hk; simp
      · rw [setNode_nodes_ne _ _ hk]
  · cases hs

theorem invS_lose {N s s' m} (h : InvS N s) (hs : step N s (.lose m) = some s') : InvS N s' := by
  simp only [step] at hs
  split at hs
  · injection hs with hs; subst hs
    exact invS_frame' h rfl rfl rfl (fun m hm _ => List.mem_of_mem_erase hm) (fun k => NodeS.refl _) (fun _ => rfl) (fun _ => rfl)
  · cases hs

theorem invS_recvAck {N s s' n m} (h : InvS N s) (hs : step N s (.recvAck n m) = some s') : InvS N s' := by
  simp only [step] at hs
  split at hs
  · rename_i t flw ldr idx
    split at hs
    · rename_i hg
      split at hs
      · rename_i hc
        injection hs with hs; subst hs
        have hack := h.ack_msg _ _ _ _ hg.2.2
        refine invS_frame h rfl rfl rfl (fun m hm _ => List.mem_of_mem_erase hm)
          (nodeS_setNode ⟨rfl, Nat.le_refl _, Or.inl ⟨rfl, rfl⟩⟩) ?_ ?_ ?_
        · intro k; by_cases hk : k = n
          · subst hk; simp; exact h.cm_lt k
          · rw [setNode_nodes_ne _ _ hk]; exact h.cm_lt k
        · intro k f hr
          by_cases hk : k = n
          · subst hk
            simp only [setNode_nodes_self] at hr ⊢
            simp only [upd1]
            split
            · rename_i hf; subst hf; rw [← hc.2.1]; exact hack
            · exact h.match_le k f hr
          · rw [setNode_nodes_ne _ _ hk] at hr ⊢; exact h.match_le k f hr
        · intro k; by_cases hk : k = n
          · subst hk; simp; exact cmt_frame rfl rfl (Nat.le_refl _) (h.C1 k)
          · rw [setNode_nodes_ne _ _ hk]; exact cmt_frame rfl rfl (Nat.le_refl _) (h.C1 k)
      · injection hs with hs; subst hs
        exact invS_frame' h rfl rfl rfl (fun m hm _ => List.mem_of_mem_erase hm) (fun k => NodeS.refl _) (fun _ => rfl) (fun _ => rfl)
    · cases hs
  · cases hs

end PSO.Raft

namespace PSO.Raft

theorem matchQuorum {N n : Nat} (hn : n < N) (mi : Nat → Nat) (i : Nat)
    (hmaj : isMajority N (matchCount N n mi i) = true) :
    IsQuorum N (n :: (others N n).filter (fun m => decide (i ≤ mi m))) := by
  have hmaj' := isMajority_iff.mp hmaj
  refine ⟨?_, ?_, ?_⟩
  · refine List.nodup_cons.mpr ⟨?_, ?_⟩
    · intro hmem
      have := (List.mem_filter.mp (List.mem_filter.mp hmem).1).2
      simp at this
    · exact ((List.nodup_range).filter _).filter _
  · intro q hq
    rcases List.mem_cons.mp hq with rfl | hq
    · exact hn
    · exact List.mem_range.mp (List.mem_filter.mp (List.mem_filter.mp hq).1).1
  · unfold matchCount at hmaj'
    simp only [List.length_cons]; omega

theorem invS_advanceCommit {N s s' n i} (h : InvS N s) (he : InvE N s) (hl : InvL N s)
    (hs : step N s (.advanceCommit n i) = some s') : InvS N s' := by
  simp only [step] at hs
  split at hs
  · rename_i hg
    obtain ⟨hnN, hrole, hci, hil, hterm, hmaj⟩ := hg
    injection hs with hs; subst hs
    have hlog := hl.ldr_log n hrole
    have hpos := (he.self_vote n (by rw [hrole]; decide)).2.2
    have hchosen : Chosen N s (s.nodes n).term i := by
      refine ⟨⟨hpos, by rw [← hlog]; exact hil, by rw [← hlog]; exact hterm⟩, _, matchQuorum hnN _ i hmaj, ?_⟩
      intro q hq
      rcases List.mem_cons.mp hq with rfl | hq
      · rw [h.ldr_acked q hrole]; omega
      · have := (List.mem_filter.mp hq).2
        simp at this
        exact Nat.le_trans this (h.match_le n q hrole)
    refine invS_frame h rfl rfl rfl (fun m hm _ => hm) (nodeS_setNode ⟨rfl, Nat.le_refl _, Or.inl ⟨rfl, rfl⟩⟩) ?_ ?_ ?_
    · intro k; by_cases hk : k = n
      · subst hk; simp; exact hil
      · rw [setNode_nodes_ne _ _ hk]; exact h.cm_lt k
    · intro k f hr
      by_cases hk : k = n
      · subst hk; simp only [setNode_nodes_self] at hr ⊢; exact h.match_le k f hr
      · rw [setNode_nodes_ne _ _ hk] at hr ⊢; exact h.match_le k f hr
    · intro k; by_cases hk : k = n
      · subst hk
        simp only [setNode_nodes_self]
        right
        refine ⟨(s.nodes k).term, i, Nat.le_refl _, ?_, ?_, ?_⟩
        · exact chosen_mono ⟨[], by simp⟩ (fun _ => Nat.le_refl _) hchosen
        · show _ <+: s.g.termLog _
          rw [← hlog]; exact List.take_prefix _ _
        · simp; omega
      · rw [setNode_nodes_ne _ _ hk]; exact cmt_frame rfl rfl (Nat.le_refl _) (h.C1 k)
  · cases hs

theorem invS_addMsg {N : Nat} {s : State} {m : Msg} (h : InvS N s)
    (hack : ∀ t f l idx, m = Msg.ack t f l idx → idx ≤ s.g.acked t f)
    (ha : ∀ t l d prev pt es c, m = Msg.append t l d prev pt es c →
      c < (s.g.termLog t).length ∧ Cmt N s t ((s.g.termLog t).take (c + 1)))
    (hsn : ∀ t l d k kt c pfx, m = Msg.snapshot t l d k kt c pfx →
      c < (s.g.termLog t).length ∧ Cmt N s t ((s.g.termLog t).take (c + 1)) ∧
      Cmt N s t ((s.g.termLog t).take (k + 1))) :
    InvS N { s with msgs := s.msgs ++ [m] } := by
  have hbl : ∀ t i, Blocked N s t i → Blocked N { s with msgs := s.msgs ++ [m] } t i :=
    fun t i hb => hb
  refine { h with ack_msg := ?_, msg_cmt_a := ?_, msg_cmt_s := ?_, .. }
  · intro t f l idx hmem
    rcases List.mem_append.mp hmem with hmem | hmem
    · exact h.ack_msg t f l idx hmem
    · simp at hmem; exact hack t f l idx hmem.symm
  · intro t l d prev pt es c hmem
    rcases List.mem_append.mp hmem with hmem | hmem
    · exact h.msg_cmt_a t l d prev pt es c hmem
    · simp at hmem; exact ha t l d prev pt es c hmem.symm
  · intro t l d k kt c pfx hmem
    rcases List.mem_append.mp hmem with hmem | hmem
    · exact h.msg_cmt_s t l d k kt c pfx hmem
    · simp at hmem; exact hsn t l d k kt c pfx hmem.symm

/-- A prefix of a node's committed prefix is committed. -/
theorem cmt_of_le_commit {N : Nat} {s : State} (hl : InvL N s) (h : InvS N s) (n c : Nat)
    (hc : c ≤ (s.nodes n).commit) : Cmt N s (s.nodes n).term ((s.nodes n).log.take (c + 1)) := by
  have hcl := h.cm_lt n
  refine cmt_prefix (h.C1 n) ?_ (take_ne_nil_of_lt (by omega)) ?_
  · have : (s.nodes n).log.take (c + 1) = ((s.nodes n).log.take ((s.nodes n).commit + 1)).take (c + 1) := by
      rw [List.take_take]; congr 1; omega
    rw [this]; exact List.take_prefix _ _
  · rw [List.getElem?_take]; simp; exact hl.log_sent n

theorem invS_sendAppend {N s s' n dst prev k c} (h : InvS N s) (hl : InvL N s)
    (hs : step N s (.sendAppend n dst prev k c) = some s') : InvS N s' := by
  simp only [step] at hs
  split at hs
  · rename_i hg
    obtain ⟨_, _, hrole, _, hcc⟩ := hg
    injection hs with hs; subst hs
    have hlog := hl.ldr_log n hrole
    refine invS_addMsg h (fun _ _ _ _ hm => by cases hm) ?_ (fun _ _ _ _ _ _ _ hm => by cases hm)
    intro t l d p pt es c' hm
    injection hm with h1 h2 h3 h4 h5 h6 h7
    subst h1 h7
    rw [← hlog]
    exact ⟨by have := h.cm_lt n; omega, cmt_of_le_commit hl h n c hcc⟩
  · cases hs

theorem invS_sendSnapshot {N s s' n dst k c} (h : InvS N s) (hl : InvL N s) (hA : InvA s)
    (hs : step N s (.sendSnapshot n dst k c) = some s') : InvS N s' := by
  simp only [step] at hs
  split at hs
  · rename_i hg
    obtain ⟨_, _, hrole, hka, _, hcc⟩ := hg
    injection hs with hs; subst hs
    have hlog := hl.ldr_log n hrole
    refine invS_addMsg h (fun _ _ _ _ hm => by cases hm) (fun _ _ _ _ _ _ _ hm => by cases hm) ?_
    intro t l d kk kt c' pfx hm
    injection hm with h1 h2 h3 h4 h5 h6 h7
    subst h1 h4 h6
    rw [← hlog]
    exact ⟨by have := h.cm_lt n; omega, cmt_of_le_commit hl h n c hcc,
      cmt_of_le_commit hl h n k (Nat.le_trans hka (hA n))⟩
  · cases hs

end PSO.Raft

namespace PSO.Raft

theorem termAt_zero_of_sent {L : List Entry} (h : L[0]? = some sentinel) : termAt L 0 = 0 := by
  unfold termAt; rw [h]; rfl

/-- The leader of term `t` (old: `termLog t = L`, or just elected: `termLog t = []`) appends one entry
of its own term.  `hY` is leader completeness for the appended-to log. -/
theorem invS_extend {N : Nat} {s s' : State} {n t c : Nat} {L : List Entry}
    (he : InvE N s) (hl : InvL N s) (h : InvS N s)
    (htpos : 0 < t) (hterm : (s.nodes n).term = t) (hlog : (s.nodes n).log = L)
    (hcase : (s.g.termLog t = L ∧ (s.nodes n).role = .leader) ∨ s.g.termLog t = [])
    (hold : s.g.acked t n ≤ L.length)
    (hY : ∀ u i, u < t → OwnPos s.g u i → Agree L (s.g.termLog u) i ∨ Blocked N s u i)
    (hn_log : (s'.nodes n).log = L ++ [⟨t, c⟩]) (hn_term : (s'.nodes n).term = t)
    (hn_role : (s'.nodes n).role = .leader) (hn_commit : (s'.nodes n).commit = (s.nodes n).commit)
    (hn_match : ∀ f, (s'.nodes n).matchIdx f ≤ s.g.acked t f ∨ (s'.nodes n).matchIdx f = 0)
    (hnodes : ∀ k, k ≠ n → s'.nodes k = s.nodes k)
    (hmsgs : s'.msgs = s.msgs)
    (hvoted : s'.g.voted = s.g.voted)
    (htl : s'.g.termLog = upd1 s.g.termLog t (L ++ [⟨t, c⟩]))
    (hack : s'.g.acked = upd2 s.g.acked t n L.length) : InvS N s' := by
  have hL0 : L[0]? = some sentinel := by have := hl.log_sent n; rwa [hlog] at this
  have hLpos : 0 < L.length := by
    cases L with
    | nil => simp at hL0
    | cons _ _ => simp
  -- basic facts about the updated ghost state
  have htl_t : s'.g.termLog t = L ++ [⟨t, c⟩] := by rw [htl]; simp [upd1]
  have htl_ne : ∀ u, u ≠ t → s'.g.termLog u = s.g.termLog u := by intro u hu; rw [htl]; simp [upd1, hu]
  have hext : ∀ u, ∃ ys, s'.g.termLog u = s.g.termLog u ++ ys := by
    intro u; by_cases hu : u = t
    · subst hu; rw [htl_t]
      rcases hcase with ⟨hc, _⟩ | hc
      · exact ⟨[⟨u, c⟩], by rw [hc]⟩
      · exact ⟨L ++ [⟨u, c⟩], by rw [hc]; simp⟩
    · exact ⟨[], by rw [htl_ne u hu]; simp⟩
  have hack_tn : s'.g.acked t n = L.length := by rw [hack]; simp [upd2]
  have hack_ne : ∀ u k, ¬(u = t ∧ k = n) → s'.g.acked u k = s.g.acked u k := by
    intro u k hne; rw [hack]; simp only [upd2]; rw [if_neg hne]
  have hack_le : ∀ u k, s.g.acked u k ≤ s'.g.acked u k := by
    intro u k; by_cases hu : u = t ∧ k = n
    · obtain ⟨rfl, rfl⟩ := hu; rw [hack_tn]; exact hold
    · rw [hack_ne u k hu]
  have hterm' : ∀ k, (s'.nodes k).term = (s.nodes k).term := by
    intro k; by_cases hk : k = n
    · subst hk; rw [hn_term, hterm]
    · rw [hnodes k hk]
  -- acked positions of term t below the new one, for nodes other than n
  have hack_lt : ∀ k, k ≠ n → s.g.acked t k < L.length := by
    intro k _
    rcases hcase with ⟨hc, _⟩ | hc
    · rcases Nat.eq_zero_or_pos (s.g.acked t k) with h0 | hp
      · omega
      · have := h.acked_lt t k hp; rw [hc] at this; exact this -- L44
    · rw [h.noldr_acked t k hc]; exact hLpos
  have hbl : ∀ u i, Blocked N s u i → Blocked N s' u i := by
    intro u i hb
    refine blocked_mono (fun b => by rw [hterm']) (fun b hlt => ?_) hb
    apply hack_ne; rintro ⟨rfl, rfl⟩; omega
  have hcmt : ∀ b P, Cmt N s b P → Cmt N s' b P := fun b P hc => cmt_mono hext hack_le (Nat.le_refl _) hc
  -- own positions of the new state
  have hown : ∀ u i, OwnPos s'.g u i → (OwnPos s.g u i) ∨ (u = t ∧ i = L.length) := by
    intro u i ⟨h1, h2, h3⟩
    by_cases hu : u = t
    · subst hu
      rw [htl_t] at h2 h3
      by_cases hi : i < L.length
      · rw [termAt_append_left hi] at h3
        rcases hcase with ⟨hc, _⟩ | hc
        · exact Or.inl ⟨h1, by rw [hc]; exact hi, by rw [hc]; exact h3⟩
        · -- an entry of term u in L would make termLog u non-empty
          exfalso
          have := hl.log_l2 n i (by rw [hlog]; exact hi)
          rw [hlog, h3, hc] at this
          exact take_ne_nil_of_lt hi (by unfold Agree at this; rw [this]; simp)
      · simp at h2; exact Or.inr ⟨rfl, by omega⟩
    · rw [htl_ne u hu] at h2 h3; exact Or.inl ⟨h1, h2, h3⟩
  -- an old own position of term t means we are in the "old leader" case
  have hownA : ∀ i, OwnPos s.g t i → s.g.termLog t = L ∧ i < L.length := by
    intro i ⟨_, h2, _⟩
    rcases hcase with ⟨hc, _⟩ | hc
    · exact ⟨hc, by rw [hc] at h2; exact h2⟩
    · rw [hc] at h2; simp at h2
  -- agreement with an old term log survives the update (for old own positions)
  have hkeep : ∀ (X : List Entry) u i, OwnPos s.g u i → Agree X (s.g.termLog u) i → Agree X (s'.g.termLog u) i := by
    intro X u i ho hag
    by_cases hu : u = t
    · subst hu
      obtain ⟨hc, hi⟩ := hownA i ho
      rw [htl_t]; rw [hc] at hag
      exact agree_append_right hag (hag.symm.length_lt hi) _
    · rw [htl_ne u hu]; exact hag
  have hnewlog : s'.g.termLog t = (s'.nodes n).log := by rw [htl_t, hn_log]
  constructor
  · -- cm_lt
    intro k; by_cases hk : k = n
    · subst hk; rw [hn_commit, hn_log]; have := h.cm_lt k; rw [hlog] at this; simp; omega
    · rw [hnodes k hk]; exact h.cm_lt k
  · intro u v cc hv; rw [hvoted] at hv; rw [hterm']; exact h.voted_cand u v cc hv
  · -- noldr_acked
    intro u k hnil
    have hu : u ≠ t := by rintro rfl; rw [htl_t] at hnil; simp at hnil
    rw [hack_ne u k (fun hh => hu hh.1)]; rw [htl_ne u hu] at hnil; exact h.noldr_acked u k hnil
  · intro u f l idx hmem; rw [hmsgs] at hmem
    exact Nat.le_trans (h.ack_msg u f l idx hmem) (hack_le u f)
  · -- match_le
    intro k f hr
    by_cases hk : k = n
    · subst hk; rw [hn_term]
      rcases hn_match f with hm | hm
      · exact Nat.le_trans hm (hack_le t f)
      · rw [hm]; exact Nat.zero_le _
    · rw [hnodes k hk] at hr ⊢
      exact Nat.le_trans (h.match_le k f hr) (hack_le _ f)
  · -- ldr_acked
    intro k hr
    by_cases hk : k = n
    · subst hk; rw [hn_term, hn_log, hack_tn]; simp
    · rw [hnodes k hk] at hr ⊢
      rw [hack_ne _ _ (fun hh => hk hh.2)]; exact h.ldr_acked k hr
  · -- acked_lt
    intro u k hpos
    by_cases huk : u = t ∧ k = n
    · obtain ⟨rfl, rfl⟩ := huk; rw [hack_tn, htl_t]; simp
    · rw [hack_ne u k huk] at hpos ⊢
      obtain ⟨ys, hys⟩ := hext u
      rw [hys]; have := h.acked_lt u k hpos; simp; omega
  · -- acked_term
    intro u k hpos
    rw [hterm']
    by_cases huk : u = t ∧ k = n
    · obtain ⟨rfl, rfl⟩ := huk; rw [hterm]
    · rw [hack_ne u k huk] at hpos; exact h.acked_term u k hpos
  · -- acked_cur
    intro k hpos
    by_cases hk : k = n
    · subst hk; rw [hn_term, hack_tn, htl_t, hn_log]; exact Agree.refl _ _
    · rw [hnodes k hk] at hpos ⊢
      rw [hack_ne _ _ (fun hh => hk hh.2)] at hpos ⊢
      have hold' := h.acked_cur k hpos
      by_cases hu : (s.nodes k).term = t
      · rw [hu] at hold' hpos ⊢
        have := hack_lt k hk
        rcases hcase with ⟨hc, _⟩ | hc
        · rw [htl_t]; rw [hc] at hold'
          exact agree_append_right hold' (hold'.symm.length_lt this) _
        · rw [h.noldr_acked t k hc] at hpos; omega
      · rw [htl_ne _ hu]; exact hold'
  · -- Y
    intro u u' i huu htlne ho
    rcases hown u i ho with hoo | ⟨rfl, rfl⟩
    · -- old own position of u
      by_cases hu' : u' = t
      · subst hu'
        -- later log is the extended one
        rcases hY u i huu hoo with hag | hb
        · left
          have hiL : i < L.length := hag.symm.length_lt hoo.2.1
          rw [htl_t]
          exact agree_append_left' (hkeep L u i hoo hag) hiL _
        · exact Or.inr (hbl _ _ hb)
      · rw [htl_ne u' hu'] at htlne ⊢
        rcases h.Y u u' i huu htlne hoo with hag | hb
        · exact Or.inl (hkeep _ u i hoo hag)
        · exact Or.inr (hbl _ _ hb)
    · -- the new own position |L| of term t: blocked by the electors of the later term
      right
      have hu' : u' ≠ u := by omega
      rw [htl_ne u' hu'] at htlne
      have hpos' : 0 < u' := by omega
      refine ⟨s.g.electors u', electors_quorum he hl htlne hpos', ?_⟩
      intro v hv
      have hvt := electors_term he hl htlne hpos' hv
      have hvn : v ≠ n := by rintro rfl; omega
      refine ⟨by rw [hterm']; omega, ?_⟩
      rw [hack_ne _ _ (fun hh => hvn hh.2)]; exact hack_lt v hvn
  · -- Z
    intro k u i ho hi
    rcases hown u i ho with hoo | ⟨rfl, rfl⟩
    · by_cases hk : k = n
      · subst hk
        rw [hn_log]
        by_cases hu : u = t
        · subst hu; left; rw [htl_t]; exact Agree.refl _ _
        · rw [hack_ne u k (fun hh => hu hh.1)] at hi
          rcases h.Z k u i hoo hi with hag | hb
          · left; rw [hlog] at hag
            exact agree_append_left' (hkeep L u i hoo hag) (hag.symm.length_lt hoo.2.1) _
          · exact Or.inr (hbl _ _ hb)
      · rw [hnodes k hk]
        rw [hack_ne u k (fun hh => hk hh.2)] at hi
        rcases h.Z k u i hoo hi with hag | hb
        · exact Or.inl (hkeep _ u i hoo hag)
        · exact Or.inr (hbl _ _ hb)
    · -- new position: only n has acknowledged it
      by_cases hk : k = n
      · subst hk; left; rw [hn_log, htl_t]; exact Agree.refl _ _
      · rw [hack_ne u k (fun hh => hk hh.2)] at hi
        have := hack_lt k hk; omega
  · -- V
    intro t' cc v hv hr ht u i hut ho hi
    rw [hvoted] at hv
    have hcn : cc ≠ n := by rintro rfl; rw [hn_role] at hr; cases hr
    rw [hnodes cc hcn] at hr ht ⊢
    rcases hown u i ho with hoo | ⟨rfl, rfl⟩
    · by_cases huv : u = t ∧ v = n
      · obtain ⟨rfl, rfl⟩ := huv
        have := he.voted_le _ _ _ hv; omega
      · rw [hack_ne u v huv] at hi
        rcases h.V t' cc v hv hr ht u i hut hoo hi with hag | hb
        · exact Or.inl (hkeep _ u i hoo hag)
        · exact Or.inr (hbl _ _ hb)
    · by_cases hvn : v = n
      · subst hvn; have := he.voted_le _ _ _ hv; omega
      · rw [hack_ne u v (fun hh => hvn hh.2)] at hi
        have := hack_lt v hvn; omega
  · -- C1
    intro k; by_cases hk : k = n
    · subst hk
      rw [hn_log, hn_commit, hn_term]
      have hc := h.cm_lt k; rw [hlog] at hc
      rw [List.take_append_of_le_length (by omega)]
      have := h.C1 k; rw [hlog, hterm] at this
      exact hcmt _ _ this
    · rw [hnodes k hk]; exact hcmt _ _ (h.C1 k)
  · -- msg_cmt_a
    intro u l d prev pt es cc hmem; rw [hmsgs] at hmem
    obtain ⟨h1, h2⟩ := h.msg_cmt_a u l d prev pt es cc hmem
    obtain ⟨ys, hys⟩ := hext u
    rw [hys, List.take_append_of_le_length (by omega)]
    exact ⟨by simp; omega, hcmt _ _ h2⟩
  · intro u l d k kt cc pfx hmem; rw [hmsgs] at hmem
    obtain ⟨h1, h2, h3⟩ := h.msg_cmt_s u l d k kt cc pfx hmem
    have hkl := (hl.msg_snap u l d k kt cc pfx hmem).1
    obtain ⟨ys, hys⟩ := hext u
    rw [hys, List.take_append_of_le_length (by omega), List.take_append_of_le_length (by omega)]
    exact ⟨by simp; omega, hcmt _ _ h2, hcmt _ _ h3⟩

end PSO.Raft

namespace PSO.Raft

/-- The quorum that elects candidate `n`. -/
theorem newQuorum {N : Nat} {s : State} {n : Nat} (h : InvE N s)
    (hr : (s.nodes n).role = .candidate) (hmaj : isMajority N (s.nodes n).votes = true) :
    IsQuorum N (n :: s.g.counted (s.nodes n).term n) ∧
    ∀ v ∈ n :: s.g.counted (s.nodes n).term n, s.g.voted (s.nodes n).term v = some n := by
  obtain ⟨hvn, hnN, _⟩ := h.self_vote n (by rw [hr]; decide)
  have hvotes := h.vc_votes n hr
  have hmaj' := isMajority_iff.mp hmaj
  refine ⟨⟨?_, ?_, ?_⟩, ?_⟩
  · refine List.nodup_cons.mpr ⟨?_, ?_⟩
    · intro hmem; exact (h.vc_voted _ _ _ hmem).2.2 rfl
    · exact (List.nodup_append.mp (h.vc_nodup (s.nodes n).term n)).1
  · intro q hq
    rcases List.mem_cons.mp hq with rfl | hq
    · exact hnN
    · exact (h.vc_voted _ _ _ hq).2.1
  · simp only [List.length_cons]; omega
  · intro v hv
    rcases List.mem_cons.mp hv with rfl | hv
    · exact hvn
    · exact (h.vc_voted _ _ _ hv).1

theorem invS_clientAppend {N s s' n cmd} (h : InvS N s) (he : InvE N s) (hl : InvL N s)
    (hs : step N s (.clientAppend n cmd) = some s') : InvS N s' := by
  simp only [step] at hs
  split at hs
  · rename_i hg
    injection hs with hs; subst hs
    have hll := hl.ldr_log n hg.2
    have hpos := (he.self_vote n (by rw [hg.2]; decide)).2.2
    have hLne : (s.nodes n).log ≠ [] := by
      intro hnil; have := hl.log_sent n; rw [hnil] at this; simp at this
    refine invS_extend (n := n) (t := (s.nodes n).term) (c := cmd) (L := (s.nodes n).log) he hl h hpos rfl rfl
      (Or.inl ⟨hll.symm, hg.2⟩) ?_ ?_ (by simp) (by simp) (by simp [hg.2]) (by simp) ?_
      (fun k hk => by simp [setNode, hk]) rfl rfl rfl ?_
    · rw [h.ldr_acked n hg.2]; omega
    · intro u i hu ho
      have := h.Y u (s.nodes n).term i hu (by rw [← hll]; exact hLne) ho
      rw [← hll] at this; exact this
    · intro f; left; simp; exact h.match_le n f hg.2
    · simp
  · cases hs

theorem invS_becomeLeader {N : Nat} {s : State} {n : Nat} {ns : NodeSt} (h : InvS N s) (he : InvE N s)
    (hl : InvL N s) (hn : s.nodes n = ns) (hr : ns.role = .candidate) (hmaj : isMajority N ns.votes = true) :
    InvS N (becomeLeader s n ns) := by
  have hpos := (he.self_vote n (by rw [hn, hr]; decide)).2.2
  rw [hn] at hpos
  have hl' := invL_becomeLeader hl he hn hr hmaj
  -- nobody led this term before: the term log is empty
  have htl : s.g.termLog ns.term = [] := by
    by_contra hne
    have hld : s.g.leaderOf ns.term ≠ none := fun hnone => hne ((hl.tl_ldr _ hpos).mpr hnone)
    cases hlo : s.g.leaderOf ns.term with
    | none => exact hld hlo
    | some l =>
      have he' := invE_becomeLeader he hn hr hmaj
      obtain ⟨hq, hqv, _, _⟩ := he.el_quorum _ _ hlo
      obtain ⟨hq2, hqv2, _, _⟩ := he'.el_quorum ns.term n (by simp [becomeLeader, upd1])
      obtain ⟨x, hx1, hx2⟩ := quorum_inter hq hq2
      have h1 := hqv x hx1
      have h2 := hqv2 x hx2
      simp only [becomeLeader, setNode_g] at h2
      rw [h1] at h2; injection h2 with h2; subst h2
      exact hl.cand_not_ldr l (by rw [hn]; exact hr) (by rw [hn]; exact hlo)
  obtain ⟨hQ, hQv⟩ := newQuorum he (by rw [hn]; exact hr) (by rw [hn]; exact hmaj)
  rw [hn] at hQ hQv
  refine invS_extend (n := n) (t := ns.term) (c := 0) (L := ns.log) he hl h hpos (by rw [hn]) (by rw [hn])
    (Or.inr htl) ?_ ?_ (by simp [becomeLeader]) (by simp [becomeLeader]) (by simp [becomeLeader])
    (by simp [becomeLeader, hn]) ?_ (fun k hk => by simp [becomeLeader, setNode, hk]) rfl rfl rfl ?_
  · rw [h.noldr_acked _ _ htl]; exact Nat.zero_le _
  · -- leader completeness from the votes
    intro u i hu ho
    by_cases hex : ∃ v ∈ n :: s.g.counted ns.term n, i ≤ s.g.acked u v
    · obtain ⟨v, hv, hi⟩ := hex
      have := h.V ns.term n v (hQv v hv) (by rw [hn]; exact hr) (by rw [hn]) u i hu ho hi
      rw [hn] at this; exact this
    · right
      refine ⟨_, hQ, fun v hv => ⟨?_, ?_⟩⟩
      · have := he.voted_le _ _ _ (hQv v hv); omega
      · by_contra hge; exact hex ⟨v, hv, by omega⟩
  · intro f; right; simp [becomeLeader]
  · simp [becomeLeader]

end PSO.Raft

namespace PSO.Raft

theorem invS_timeout_core {N : Nat} {s : State} {n : Nat} {dsts : List Nat} (h : InvS N s) (he : InvE N s)
    (hrole : (s.nodes n).role ≠ .leader) :
    InvS N { (setNode s n { (s.nodes n) with term := (s.nodes n).term + 1, votedFor := some n, votes := 1, role := .candidate }) with
      msgs := s.msgs ++ dsts.map (fun d => Msg.reqVote ((s.nodes n).term + 1) n d ((s.nodes n).log.length - 1) (lastTerm (s.nodes n).log)),
      g := { s.g with voted := upd2 s.g.voted ((s.nodes n).term + 1) n (some n) } } := by
  set ns' : NodeSt := { (s.nodes n) with term := (s.nodes n).term + 1, votedFor := some n, votes := 1, role := .candidate } with hns'
  have hlog : ∀ k, ((setNode s n ns').nodes k).log = (s.nodes k).log := by
    intro k; by_cases hk : k = n
    · subst hk; simp [hns']
    · rw [setNode_nodes_ne _ _ hk]
  have hcommit : ∀ k, ((setNode s n ns').nodes k).commit = (s.nodes k).commit := by
    intro k; by_cases hk : k = n
    · subst hk; simp [hns']
    · rw [setNode_nodes_ne _ _ hk]
  have hterm : ∀ k, (s.nodes k).term ≤ ((setNode s n ns').nodes k).term := by
    intro k; by_cases hk : k = n
    · subst hk; simp [hns']
    · rw [setNode_nodes_ne _ _ hk]
  have hmsg : ∀ m, m ∈ s.msgs ++ dsts.map (fun d => Msg.reqVote ((s.nodes n).term + 1) n d ((s.nodes n).log.length - 1) (lastTerm (s.nodes n).log)) →
      (∀ t c d li lt, m ≠ Msg.reqVote t c d li lt) → m ∈ s.msgs := by
    intro m hm hne
    rcases List.mem_append.mp hm with hm | hm
    · exact hm
    · obtain ⟨d, _, rfl⟩ := List.mem_map.mp hm; exact absurd rfl (hne _ _ _ _ _)
  have hbl : ∀ t i, Blocked N s t i → Blocked N { (setNode s n ns') with
      msgs := s.msgs ++ dsts.map (fun d => Msg.reqVote ((s.nodes n).term + 1) n d ((s.nodes n).log.length - 1) (lastTerm (s.nodes n).log)),
      g := { s.g with voted := upd2 s.g.voted ((s.nodes n).term + 1) n (some n) } } t i := by
    intro t i hb
    exact blocked_mono hterm (fun _ _ => rfl) hb
  have hcmt : ∀ b b' P, b ≤ b' → Cmt N s b P → Cmt N { (setNode s n ns') with
      msgs := s.msgs ++ dsts.map (fun d => Msg.reqVote ((s.nodes n).term + 1) n d ((s.nodes n).log.length - 1) (lastTerm (s.nodes n).log)),
      g := { s.g with voted := upd2 s.g.voted ((s.nodes n).term + 1) n (some n) } } b' P := by
    intro b b' P hb hc
    exact cmt_mono (fun t => ⟨[], by simp⟩) (fun _ _ => Nat.le_refl _) hb hc
  constructor
  · intro k; show ((setNode s n ns').nodes k).commit < ((setNode s n ns').nodes k).log.length
    rw [hcommit, hlog]; exact h.cm_lt k
  · intro t v c hv
    show t ≤ ((setNode s n ns').nodes c).term
    simp only [upd2] at hv
    split at hv
    · rename_i heq; obtain ⟨rfl, rfl⟩ := heq; injection hv with hv; subst hv; simp [hns']
    · exact Nat.le_trans (h.voted_cand t v c hv) (hterm c)
  · exact h.noldr_acked
  · intro t f l idx hmem
    exact h.ack_msg t f l idx (hmsg _ hmem (fun _ _ _ _ _ hh => by cases hh))
  · intro k f hr
    show ((setNode s n ns').nodes k).matchIdx f ≤ s.g.acked ((setNode s n ns').nodes k).term f
    by_cases hk : k = n
    · subst hk; simp [hns'] at hr
    · simp only [setNode_nodes_ne _ _ hk] at hr ⊢; exact h.match_le k f hr
  · intro k hr
    show s.g.acked ((setNode s n ns').nodes k).term k = ((setNode s n ns').nodes k).log.length - 1
    by_cases hk : k = n
    · subst hk; simp [hns'] at hr
    · simp only [setNode_nodes_ne _ _ hk] at hr ⊢; exact h.ldr_acked k hr
  · exact h.acked_lt
  · intro t k hpos
    exact Nat.le_trans (h.acked_term t k hpos) (hterm k)
  · intro k hpos
    show Agree ((setNode s n ns').nodes k).log (s.g.termLog ((setNode s n ns').nodes k).term) (s.g.acked ((setNode s n ns').nodes k).term k)
    by_cases hk : k = n
    · subst hk
      simp only [setNode_nodes_self, hns'] at hpos
      have := h.acked_term _ _ hpos; omega
    · simp only [setNode_nodes_ne _ _ hk] at hpos ⊢; exact h.acked_cur k hpos
  · intro t t' i htt htl ho
    rcases h.Y t t' i htt htl ho with hy | hy
    · exact Or.inl hy
    · exact Or.inr (hbl _ _ hy)
  · intro k t i ho hi
    show Agree ((setNode s n ns').nodes k).log _ i ∨ _
    rw [hlog]
    rcases h.Z k t i ho hi with hy | hy
    · exact Or.inl hy
    · exact Or.inr (hbl _ _ hy)
  · intro t' c v hv hr ht t i htt ho hi
    show Agree ((setNode s n ns').nodes c).log _ i ∨ _
    rw [hlog]
    simp only [upd2] at hv
    split at hv
    · rename_i heq; obtain ⟨rfl, rfl⟩ := heq; injection hv with hv; subst hv
      rcases h.Z v t i ho hi with hy | hy
      · exact Or.inl hy
      · exact Or.inr (hbl _ _ hy)
    · by_cases hc : c = n
      · subst hc
        simp only [setNode_nodes_self, hns'] at ht
        have := h.voted_cand _ _ _ hv; omega
      · simp only [setNode_nodes_ne _ _ hc] at hr ht
        rcases h.V t' c v hv hr ht t i htt ho hi with hy | hy
        · exact Or.inl hy
        · exact Or.inr (hbl _ _ hy)
  · intro k
    show Cmt N _ ((setNode s n ns').nodes k).term (((setNode s n ns').nodes k).log.take (((setNode s n ns').nodes k).commit + 1))
    rw [hlog, hcommit]; exact hcmt _ _ _ (hterm k) (h.C1 k)
  · intro t l d prev pt es c hmem
    obtain ⟨h1, h2⟩ := h.msg_cmt_a t l d prev pt es c (hmsg _ hmem (fun _ _ _ _ _ hh => by cases hh))
    exact ⟨h1, hcmt _ _ _ (Nat.le_refl _) h2⟩
  · intro t l d k kt c pfx hmem
    obtain ⟨h1, h2, h3⟩ := h.msg_cmt_s t l d k kt c pfx (hmsg _ hmem (fun _ _ _ _ _ hh => by cases hh))
    exact ⟨h1, hcmt _ _ _ (Nat.le_refl _) h2, hcmt _ _ _ (Nat.le_refl _) h3⟩

theorem invS_timeout {N s s' n dsts} (h : InvS N s) (he : InvE N s) (hl : InvL N s)
    (hs : step N s (.timeout n dsts) = some s') : InvS N s' := by
  have hl' := invL_timeout hl he hs
  simp only [step] at hs
  split at hs
  · rename_i hg
    have hecore := invE_timeout_core (dsts := dsts) he hg.1 hg.2.1
    have hscore := invS_timeout_core (dsts := dsts) h he hg.2.1
    split at hs
    · rename_i hmaj
      injection hs with hs; subst hs
      -- InvL of the core state: rerun the timeout step without the majority branch is not available; derive it
      have hlcore : InvL N { (setNode s n { (s.nodes n) with term := (s.nodes n).term + 1, votedFor := some n, votes := 1, role := .candidate }) with
          msgs := s.msgs ++ dsts.map (fun d => Msg.reqVote ((s.nodes n).term + 1) n d ((s.nodes n).log.length - 1) (lastTerm (s.nodes n).log)),
          g := { s.g with voted := upd2 s.g.voted ((s.nodes n).term + 1) n (some n) } } :=
        invL_timeout_core hl he hg.1 hg.2.1
      exact invS_becomeLeader hscore hecore hlcore (by simp [setNode]) rfl hmaj
    · injection hs with hs; subst hs; exact hscore
  · cases hs

end PSO.Raft

namespace PSO.Raft

theorem invS_recvVote {N s s' n m} (h : InvS N s) (he : InvE N s) (hl : InvL N s)
    (hs : step N s (.recvVote n m) = some s') : InvS N s' := by
  simp only [step] at hs
  split at hs
  · rename_i t voter cand
    split at hs
    · rename_i hg
      obtain ⟨hnN, rfl, hmem⟩ := hg
      split at hs
      · rename_i hc
        obtain ⟨hrole, rfl⟩ := hc
        have hcoreS : InvS N { (setNode s cand { (s.nodes cand) with votes := (s.nodes cand).votes + 1 }) with
            msgs := s.msgs.erase (Msg.vote (s.nodes cand).term voter cand),
            g := { s.g with counted := upd2 s.g.counted (s.nodes cand).term cand (voter :: s.g.counted (s.nodes cand).term cand) } } := by
          refine invS_frame' h rfl rfl rfl (fun m hm _ => List.mem_of_mem_erase hm)
            (nodeS_setNode ⟨rfl, Nat.le_refl _, Or.inl ⟨rfl, rfl⟩⟩) ?_ ?_
          · intro k; by_cases hk : k = cand
            · subst hk; simp
            · simp [setNode, hk]
          · intro k; by_cases hk : k = cand
            · subst hk; simp
            · simp [setNode, hk]
        split at hs
        · rename_i hmaj
          injection hs with hs; subst hs
          have hcoreE := invE_recvVote_core (voter := voter) he hnN hmem hrole
          have hcoreL : InvL N { (setNode s cand { (s.nodes cand) with votes := (s.nodes cand).votes + 1 }) with
              msgs := s.msgs.erase (Msg.vote (s.nodes cand).term voter cand),
              g := { s.g with counted := upd2 s.g.counted (s.nodes cand).term cand (voter :: s.g.counted (s.nodes cand).term cand) } } := by
            refine invL_frame hl rfl rfl ?_ ?_
            · intro m hm _; exact List.mem_of_mem_erase hm
            · exact nodeL_setNode ⟨rfl, Nat.le_refl _, Or.inl ⟨rfl, rfl⟩⟩
          exact invS_becomeLeader hcoreS hcoreE hcoreL (by simp [setNode]) hrole hmaj
        · injection hs with hs; subst hs; exact hcoreS
      · injection hs with hs; subst hs
        exact invS_frame' h rfl rfl rfl (fun m hm _ => List.mem_of_mem_erase hm) (fun k => NodeS.refl _) (fun _ => rfl) (fun _ => rfl)
    · cases hs
  · cases hs

/-- The heart of leader completeness: a candidate whose log passes the voter's up-to-date test holds
every own-term prefix the voter holds (or that prefix can never be chosen). -/
theorem vote_complete {N : Nat} {s : State} (hl : InvL N s) (h : InvS N s) {n c li lt u i : Nat}
    (hup : upToDate lt li (s.nodes n).log = true)
    (hli : li = (s.nodes c).log.length - 1) (hlt : lt = lastTerm (s.nodes c).log)
    (ho : OwnPos s.g u i) (hag : Agree (s.nodes n).log (s.g.termLog u) i) :
    Agree (s.nodes c).log (s.g.termLog u) i ∨ Blocked N s u i := by
  obtain ⟨hupos, hiu, htu⟩ := ho
  have hin : i < (s.nodes n).log.length := hag.symm.length_lt hiu
  have hclen : 0 < (s.nodes c).log.length := by
    have := hl.log_sent c
    cases hc : (s.nodes c).log with
    | nil => rw [hc] at this; simp at this
    | cons _ _ => simp
  have hlic : li < (s.nodes c).log.length := by omega
  have hlt' : lt = termAt (s.nodes c).log li := by rw [hlt, lastTerm_eq_termAt, hli]
  -- the voter's last term is at least u
  have hnu : u ≤ lastTerm (s.nodes n).log := by
    rw [lastTerm_eq_termAt]
    have := log_sorted hl n i ((s.nodes n).log.length - 1) (by omega) (by omega)
    rw [hag.termAt (Nat.le_refl _), htu] at this; exact this
  simp only [upToDate, Bool.and_eq_true, Bool.not_eq_true', decide_eq_false_iff_not, Nat.not_lt,
    Bool.and_eq_false_iff, beq_eq_false_iff_ne] at hup
  obtain ⟨h1, h2⟩ := hup
  have hcl2 := hl.log_l2 c li hlic
  rw [← hlt'] at hcl2
  by_cases heq : lt = u
  · -- same last term: the candidate's log is at least as long
    left
    have hlast : lastTerm (s.nodes n).log = lt := by omega
    have hge : i ≤ li := by
      rcases h2 with h2 | h2
      · exact absurd hlast.symm h2
      · simp at h2; omega
    rw [heq] at hcl2
    exact hcl2.mono hge
  · have hgt : u < lt := by omega
    have hne : s.g.termLog lt ≠ [] := by
      intro hnil; rw [hnil] at hcl2
      exact take_ne_nil_of_lt hlic (by unfold Agree at hcl2; rw [hcl2]; simp)
    rcases h.Y u lt i hgt hne ⟨hupos, hiu, htu⟩ with hy | hy
    · left
      have hge : i ≤ li := by
        by_contra hlt2
        have hilt : i < (s.g.termLog lt).length := hy.symm.length_lt hiu
        have hs1 := tl_sorted hl lt li i (by omega) hilt
        rw [← hcl2.termAt (Nat.le_refl _), ← hlt', hy.termAt (Nat.le_refl _), htu] at hs1
        omega
      exact (hcl2.mono hge).trans hy
    · exact Or.inr hy

end PSO.Raft

namespace PSO.Raft

theorem nodeS_bump (ns : NodeSt) (t : Nat) : NodeS ns (bumpTerm ns t) := by
  unfold bumpTerm NodeS
  split
  · exact ⟨rfl, by simp; omega, Or.inr rfl⟩
  · exact ⟨rfl, Nat.le_refl _, Or.inl ⟨rfl, rfl⟩⟩

@[simp] theorem bumpTerm_log (ns : NodeSt) (t : Nat) : (bumpTerm ns t).log = ns.log := by
  unfold bumpTerm; split <;> rfl
@[simp] theorem bumpTerm_commit (ns : NodeSt) (t : Nat) : (bumpTerm ns t).commit = ns.commit := by
  unfold bumpTerm; split <;> rfl
@[simp] theorem bumpTerm_applied (ns : NodeSt) (t : Nat) : (bumpTerm ns t).applied = ns.applied := by
  unfold bumpTerm; split <;> rfl
@[simp] theorem bumpTerm_matchIdx (ns : NodeSt) (t : Nat) : (bumpTerm ns t).matchIdx = ns.matchIdx := by
  unfold bumpTerm; split <;> rfl

theorem invS_recvReqVote {N s s' n m} (h : InvS N s) (he : InvE N s) (hl : InvL N s)
    (hs : step N s (.recvReqVote n m) = some s') : InvS N s' := by
  simp only [step] at hs
  split at hs
  · rename_i t cand dst li lt
    split at hs
    · rename_i hg
      obtain ⟨hnN, rfl, hcN, hcn, hmem⟩ := hg
      split at hs
      · rename_i hc
        obtain ⟨hrole, hle, hup, hvf⟩ := hc
        injection hs with hs; subst hs
        have hNS : ∀ k, NodeS (s.nodes k) ((setNode s dst { bumpTerm (s.nodes dst) t with votedFor := some cand }).nodes k) := by
          apply nodeS_setNode
          have := nodeS_bump (s.nodes dst) t
          exact ⟨this.1, this.2.1, this.2.2⟩
        have hcand : (setNode s dst { bumpTerm (s.nodes dst) t with votedFor := some cand }).nodes cand = s.nodes cand :=
          setNode_nodes_ne _ _ hcn
        -- first the frame part with the old `voted`, then patch `voted_cand` and `V`
        have h1 : InvS N ⟨(setNode s dst { bumpTerm (s.nodes dst) t with votedFor := some cand }).nodes,
            s.msgs.erase (Msg.reqVote t cand dst li lt) ++ [Msg.vote t dst cand], s.g⟩ := by
          refine invS_frame' h rfl rfl rfl ?_ hNS ?_ ?_
          · intro m hm hv
            rcases List.mem_append.mp hm with hm | hm
            · exact List.mem_of_mem_erase hm
            · simp at hm; subst hm; simp [Msg.isVote] at hv
          · intro k; by_cases hk : k = dst
            · subst hk; simp
            · simp [setNode, hk]
          · intro k; by_cases hk : k = dst
            · subst hk; simp
            · simp [setNode, hk]
        refine { h1 with voted_cand := ?_, V := ?_ }
        · intro t' v c hv
          simp only [upd2] at hv
          split at hv
          · rename_i heq; obtain ⟨rfl, rfl⟩ := heq; injection hv with hv; subst hv
            show t' ≤ ((setNode s v _).nodes cand).term
            rw [hcand]; exact hl.msg_reqVote_le _ _ _ _ _ hmem
          · exact h1.voted_cand t' v c hv
        · intro t' c v hv hr ht u i hut ho hi
          simp only [upd2] at hv
          split at hv
          · rename_i heq; obtain ⟨rfl, rfl⟩ := heq; injection hv with hv; subst hv
            -- the new vote: use the voter's Z and the up-to-date test
            change Agree ((setNode s v _).nodes cand).log _ i ∨ _
            rw [hcand] at hr ht ⊢
            have hcur := hl.msg_reqVote _ _ _ _ _ hmem hr ht
            rcases h.Z v u i ho hi with hz | hz
            · have hup' : upToDate lt li (s.nodes v).log = true := by simpa using hup
              rcases vote_complete hl h hup' hcur.1 hcur.2 ho hz with hy | hy
              · exact Or.inl hy
              · exact Or.inr (blocked_mono (fun b => (hNS b).2.1) (fun _ _ => rfl) hy)
            · exact Or.inr (blocked_mono (fun b => (hNS b).2.1) (fun _ _ => rfl) hz)
          · exact h1.V t' c v hv hr ht u i hut ho hi
      · injection hs with hs; subst hs
        refine invS_frame' h rfl rfl rfl (fun m hm _ => List.mem_of_mem_erase hm)
          (nodeS_setNode (nodeS_bump _ _)) ?_ ?_
        · intro k; by_cases hk : k = dst
          · subst hk; simp
          · simp [setNode, hk]
        · intro k; by_cases hk : k = dst
          · subst hk; simp
          · simp [setNode, hk]
    · cases hs
  · cases hs

end PSO.Raft

namespace PSO.Raft

theorem ownPos_pos {N : Nat} {s : State} (hl : InvL N s) {u i : Nat} (ho : OwnPos s.g u i) : 0 < i := by
  obtain ⟨hu, hi, ht⟩ := ho
  rcases Nat.eq_zero_or_pos i with rfl | hp
  · have hne : s.g.termLog u ≠ [] := by intro hnil; rw [hnil] at hi; simp at hi
    have := hl.tl_sent u hne
    rw [termAt_zero_of_sent this] at ht; omega
  · exact hp

/-- A follower `n` accepts the log of term `t` up to position `a`: its log becomes `newlog`, which
agrees with the term log up to `a` and keeps every agreement the old log had with it. -/
theorem invS_setLog {N : Nat} {s s' : State} {n t a ldr : Nat} {newlog : List Entry}
    (he : InvE N s) (hl : InvL N s) (h : InvS N s)
    (htl_ne : s.g.termLog t ≠ []) (hold_term : (s.nodes n).term ≤ t)
    (H1 : Agree newlog (s.g.termLog t) a) (ha : a < (s.g.termLog t).length)
    (H2 : ∀ i, Agree (s.nodes n).log (s.g.termLog t) i → i < (s.nodes n).log.length → Agree newlog (s.g.termLog t) i)
    (H3 : (s'.nodes n).commit < newlog.length ∧
          Cmt N s t (newlog.take ((s'.nodes n).commit + 1)))
    (hn_log : (s'.nodes n).log = newlog) (hn_term : (s'.nodes n).term = t)
    (hn_role : (s'.nodes n).role = .follower)
    (hnodes : ∀ k, k ≠ n → s'.nodes k = s.nodes k)
    (hmsgs : ∀ m ∈ s'.msgs, m.isVote = false → m ∈ s.msgs ∨ m = Msg.ack t n ldr a)
    (hvoted : s'.g.voted = s.g.voted) (htl : s'.g.termLog = s.g.termLog)
    (hack : s'.g.acked = upd2 s.g.acked t n (max (s.g.acked t n) a)) : InvS N s' := by
  have hack_tn : s'.g.acked t n = max (s.g.acked t n) a := by rw [hack]; simp [upd2]
  have hack_ne : ∀ u k, ¬(u = t ∧ k = n) → s'.g.acked u k = s.g.acked u k := by
    intro u k hne; rw [hack]; simp only [upd2]; rw [if_neg hne]
  have hack_le : ∀ u k, s.g.acked u k ≤ s'.g.acked u k := by
    intro u k; by_cases hu : u = t ∧ k = n
    · obtain ⟨rfl, rfl⟩ := hu; rw [hack_tn]; exact Nat.le_max_left _ _
    · rw [hack_ne u k hu]
  have hterm' : ∀ k, (s.nodes k).term ≤ (s'.nodes k).term := by
    intro k; by_cases hk : k = n
    · subst hk; rw [hn_term]; exact hold_term
    · rw [hnodes k hk]
  have hbl : ∀ u i, Blocked N s u i → Blocked N s' u i := by
    intro u i hb
    refine blocked_mono hterm' (fun b hlt => ?_) hb
    apply hack_ne; rintro ⟨rfl, rfl⟩; omega
  have hcmt : ∀ b b' P, b ≤ b' → Cmt N s b P → Cmt N s' b' P := fun b b' P hb hc =>
    cmt_mono (fun u => ⟨[], by rw [htl]; simp⟩) hack_le hb hc
  have hop : ∀ u i, OwnPos s'.g u i ↔ OwnPos s.g u i := fun u i => ownPos_congr htl
  -- the old acknowledged prefix of term t is kept
  have hold_cur : 0 < s.g.acked t n → Agree newlog (s.g.termLog t) (s.g.acked t n) := by
    intro hpos
    have hte : (s.nodes n).term = t := Nat.le_antisymm hold_term (h.acked_term t n hpos)
    have hc := h.acked_cur n (by rw [hte]; exact hpos)
    rw [hte] at hc
    exact H2 _ hc (hc.symm.length_lt (h.acked_lt t n hpos))
  have hnew_cur : Agree newlog (s.g.termLog t) (max (s.g.acked t n) a) := by
    rcases Nat.le_total (s.g.acked t n) a with hle | hle
    · rw [Nat.max_eq_right hle]; exact H1
    · rw [Nat.max_eq_left hle]
      rcases Nat.eq_zero_or_pos (s.g.acked t n) with h0 | hp
      · have : a = 0 := by omega
        rw [h0, ← this]; exact H1
      · exact hold_cur hp
  constructor
  · intro k; by_cases hk : k = n
    · subst hk; rw [hn_log]; exact H3.1
    · rw [hnodes k hk]; exact h.cm_lt k
  · intro u v c hv; rw [hvoted] at hv; exact Nat.le_trans (h.voted_cand u v c hv) (hterm' c)
  · intro u k hnil; rw [htl] at hnil
    have : u ≠ t := by rintro rfl; exact htl_ne hnil
    rw [hack_ne u k (fun hh => this hh.1)]; exact h.noldr_acked u k hnil
  · intro u f l idx hmem
    rcases hmsgs _ hmem rfl with hm | hm
    · exact Nat.le_trans (h.ack_msg u f l idx hm) (hack_le u f)
    · injection hm with h1 h2 h3 h4; subst h1 h2 h4
      rw [hack_tn]; exact Nat.le_max_right _ _
  · intro k f hr
    by_cases hk : k = n
    · subst hk; rw [hn_role] at hr; cases hr
    · rw [hnodes k hk] at hr ⊢; exact Nat.le_trans (h.match_le k f hr) (hack_le _ f)
  · intro k hr
    by_cases hk : k = n
    · subst hk; rw [hn_role] at hr; cases hr
    · rw [hnodes k hk] at hr ⊢; rw [hack_ne _ _ (fun hh => hk hh.2)]; exact h.ldr_acked k hr
  · intro u k hpos
    rw [htl]
    by_cases huk : u = t ∧ k = n
    · obtain ⟨rfl, rfl⟩ := huk
      rw [hack_tn]
      rcases Nat.le_total (s.g.acked u k) a with hle | hle
      · rw [Nat.max_eq_right hle]; exact ha
      · rw [Nat.max_eq_left hle]
        rcases Nat.eq_zero_or_pos (s.g.acked u k) with h0 | hp
        · omega
        · exact h.acked_lt u k hp
    · rw [hack_ne u k huk] at hpos ⊢; exact h.acked_lt u k hpos
  · intro u k hpos
    by_cases huk : u = t ∧ k = n
    · obtain ⟨rfl, rfl⟩ := huk; rw [hn_term]
    · rw [hack_ne u k huk] at hpos; exact Nat.le_trans (h.acked_term u k hpos) (hterm' k)
  · intro k hpos
    by_cases hk : k = n
    · subst hk; rw [hn_term, hack_tn, hn_log, htl]; exact hnew_cur
    · rw [hnodes k hk] at hpos ⊢
      rw [hack_ne _ _ (fun hh => hk hh.2)] at hpos ⊢; rw [htl]; exact h.acked_cur k hpos
  · intro u u' i huu htlne ho
    rw [htl] at htlne ⊢; rw [hop] at ho
    rcases h.Y u u' i huu htlne ho with hy | hy
    · exact Or.inl hy
    · exact Or.inr (hbl _ _ hy)
  · -- Z
    intro k u i ho hi
    rw [hop] at ho; rw [htl]
    by_cases hk : k = n
    · subst hk; rw [hn_log]
      rcases Nat.lt_trichotomy u t with hlt | heq | hgt
      · rw [hack_ne u k (fun hh => by omega)] at hi
        rcases h.Z k u i ho hi with hz | hz
        · rcases h.Y u t i hlt htl_ne ho with hy | hy
          · left
            have hlogT : Agree (s.nodes k).log (s.g.termLog t) i := hz.trans hy.symm
            exact (H2 i hlogT (hz.symm.length_lt ho.2.1)).trans hy
          · exact Or.inr (hbl _ _ hy)
        · exact Or.inr (hbl _ _ hz)
      · subst heq; rw [hack_tn] at hi; left; exact hnew_cur.mono hi
      · exfalso
        rw [hack_ne u k (fun hh => by omega)] at hi
        have hip := ownPos_pos hl ho
        have := h.acked_term u k (by omega); omega
    · rw [hnodes k hk]
      rw [hack_ne u k (fun hh => hk hh.2)] at hi
      rcases h.Z k u i ho hi with hz | hz
      · exact Or.inl hz
      · exact Or.inr (hbl _ _ hz)
  · -- V
    intro t' c v hv hr htc u i hut ho hi
    rw [hvoted] at hv; rw [hop] at ho; rw [htl]
    have hcn : c ≠ n := by rintro rfl; rw [hn_role] at hr; cases hr
    rw [hnodes c hcn] at hr htc ⊢
    have hne : ¬(u = t ∧ v = n) := by
      rintro ⟨rfl, rfl⟩
      have := he.voted_le _ _ _ hv; omega
    rw [hack_ne u v hne] at hi
    rcases h.V t' c v hv hr htc u i hut ho hi with hy | hy
    · exact Or.inl hy
    · exact Or.inr (hbl _ _ hy)
  · intro k; by_cases hk : k = n
    · subst hk; rw [hn_log, hn_term]; exact hcmt _ _ _ (Nat.le_refl _) H3.2
    · rw [hnodes k hk]; exact hcmt _ _ _ (Nat.le_refl _) (h.C1 k)
  · intro u l d prev pt es c hmem
    rcases hmsgs _ hmem rfl with hm | hm
    · obtain ⟨h1, h2⟩ := h.msg_cmt_a u l d prev pt es c hm
      rw [htl]; exact ⟨h1, hcmt _ _ _ (Nat.le_refl _) h2⟩
    · cases hm
  · intro u l d k kt c pfx hmem
    rcases hmsgs _ hmem rfl with hm | hm
    · obtain ⟨h1, h2, h3⟩ := h.msg_cmt_s u l d k kt c pfx hm
      rw [htl]; exact ⟨h1, hcmt _ _ _ (Nat.le_refl _) h2, hcmt _ _ _ (Nat.le_refl _) h3⟩
    · cases hm

end PSO.Raft

namespace PSO.Raft

theorem cmt_bound {N : Nat} {s : State} {b b' : Nat} {P : List Entry} (hb : b ≤ b') (h : Cmt N s b P) :
    Cmt N s b' P :=
  cmt_mono (fun t => ⟨[], by simp⟩) (fun _ _ => Nat.le_refl _) hb h

/-- The committed prefix of the new log: either the old commit index (the prefix is unchanged) or a
prefix of the committed prefix announced by the leader. -/
theorem commit_step {N : Nat} {s : State} (hl : InvL N s) (h : InvS N s) {n t c a commit' : Nat}
    {newlog : List Entry} (hterm : (s.nodes n).term ≤ t) (htl_ne : s.g.termLog t ≠ [])
    (H1 : Agree newlog (s.g.termLog t) a) (ha : a < (s.g.termLog t).length)
    (H2 : ∀ i, Agree (s.nodes n).log (s.g.termLog t) i → i < (s.nodes n).log.length → Agree newlog (s.g.termLog t) i)
    (hmsg : c < (s.g.termLog t).length ∧ Cmt N s t ((s.g.termLog t).take (c + 1)))
    (hc' : commit' = (s.nodes n).commit ∨ (commit' = min c a)) :
    commit' < newlog.length ∧ Cmt N s t (newlog.take (commit' + 1)) := by
  have hT0 := hl.tl_sent t htl_ne
  rcases hc' with rfl | rfl
  · have hag := commit_agree_tl hl h n t hterm htl_ne
    have hcl := h.cm_lt n
    have hag' := H2 _ hag hcl
    have hcT : (s.nodes n).commit < (s.g.termLog t).length := hag.length_lt hcl
    refine ⟨hag'.symm.length_lt hcT, ?_⟩
    have : newlog.take ((s.nodes n).commit + 1) = (s.nodes n).log.take ((s.nodes n).commit + 1) :=
      hag'.trans hag.symm
    rw [this]; exact cmt_bound hterm (h.C1 n)
  · have hm : min c a ≤ a := Nat.min_le_right _ _
    have hag := H1.mono hm
    have hmT : min c a < (s.g.termLog t).length := by omega
    refine ⟨hag.symm.length_lt hmT, ?_⟩
    have : newlog.take (min c a + 1) = (s.g.termLog t).take (min c a + 1) := hag
    rw [this]
    refine cmt_prefix hmsg.2 ?_ (take_ne_nil_of_lt hmT) ?_
    · have : (s.g.termLog t).take (min c a + 1) = ((s.g.termLog t).take (c + 1)).take (min c a + 1) := by
        rw [List.take_take]; congr 1; omega
      rw [this]; exact List.take_prefix _ _
    · rw [List.getElem?_take]; simp; exact hT0

theorem invS_recvAppend {N s s' n m} (h : InvS N s) (he : InvE N s) (hl : InvL N s)
    (hs : step N s (.recvAppend n m) = some s') : InvS N s' := by
  simp only [step] at hs
  split at hs
  · rename_i t ldr dst prev prevTerm es c
    split at hs
    · rename_i hg
      obtain ⟨rfl, hmem⟩ := hg
      split at hs
      · injection hs with hs; subst hs
        exact invS_frame' h rfl rfl rfl (fun m hm _ => List.mem_of_mem_erase hm) (fun k => NodeS.refl _) (fun _ => rfl) (fun _ => rfl)
      · rename_i hnlt
        have hterm : (s.nodes dst).term ≤ t := by omega
        split at hs
        · rename_i hchk
          injection hs with hs; subst hs
          simp only [adoptTerm_log] at hchk
          obtain ⟨hp1, hp2, hp3, hp4⟩ := hl.msg_append _ _ _ _ _ _ _ hmem
          have hmc := h.msg_cmt_a _ _ _ _ _ _ _ hmem
          have htl_ne : s.g.termLog t ≠ [] := by intro hnil; rw [hnil] at hp1; simp at hp1
          have H := invL_H hl dst t
          have H0 : Agree (s.nodes dst).log (s.g.termLog t) prev := H prev hchk.1 hp1 (by rw [hchk.2, hp2])
          obtain ⟨ha, hb⟩ := merge_agree (s.g.termLog t) es (s.nodes dst).log prev H0 hchk.1 hp3 H
          have hTlen : prev + es.length < (s.g.termLog t).length := by
            obtain ⟨tl, htl⟩ := hp3
            have := congrArg List.length htl
            simp at this; omega
          have H2 : ∀ i, Agree (s.nodes dst).log (s.g.termLog t) i → i < (s.nodes dst).log.length →
              Agree (mergeEntries (s.nodes dst).log prev es) (s.g.termLog t) i := by
            intro i hag hi
            by_cases hle : i ≤ prev + es.length
            · exact ha.mono hle
            · rw [merge_eq_of_agree (s.g.termLog t) es (s.nodes dst).log prev i hag (by omega) hi hp3]; exact hag
          refine invS_setLog (n := dst) (t := t) (a := prev + es.length) (ldr := ldr)
            (newlog := mergeEntries (s.nodes dst).log prev es) he hl h htl_ne hterm ha hTlen H2 ?_
            (by simp) (by simp [adoptTerm_term hnlt]) (by simp) (fun k hk => by simp [setNode, hk]) ?_ rfl rfl rfl
          · simp only [setNode_nodes_self, adoptTerm_commit]
            apply commit_step hl h hterm htl_ne ha hTlen H2 hmc
            split
            · rename_i hlt
              rcases Nat.le_total (s.nodes dst).commit (min c (prev + es.length)) with hle | hle
              · right; rw [Nat.max_eq_right hle]
              · left; rw [Nat.max_eq_left hle]
            · left; rfl
          · intro m hm hv
            rcases List.mem_append.mp hm with hm | hm
            · exact Or.inl (List.mem_of_mem_erase hm)
            · simp at hm; exact Or.inr hm
        · injection hs with hs; subst hs
          refine invS_frame' h rfl rfl rfl (fun m hm _ => List.mem_of_mem_erase hm)
            (nodeS_setNode (nodeS_adopt _ _ hterm)) ?_ ?_
          · intro k; by_cases hk : k = dst
            · subst hk; simp
            · simp [setNode, hk]
          · intro k; by_cases hk : k = dst
            · subst hk; simp
            · simp [setNode, hk]
    · cases hs
  · cases hs

end PSO.Raft

namespace PSO.Raft

theorem agree_take_self (T : List Entry) {i k : Nat} (hik : i ≤ k) : Agree (T.take (k + 1)) T i := by
  unfold Agree; rw [List.take_take]; congr 1; omega

theorem invS_recvSnapshot {N s s' n m} (h : InvS N s) (he : InvE N s) (hl : InvL N s) (hA : InvA s)
    (hs : step N s (.recvSnapshot n m) = some s') : InvS N s' := by
  simp only [step] at hs
  split at hs
  · rename_i t ldr dst k kTerm c pfx
    split at hs
    · rename_i hg
      obtain ⟨rfl, hmem⟩ := hg
      split at hs
      · injection hs with hs; subst hs
        exact invS_frame' h rfl rfl rfl (fun m hm _ => List.mem_of_mem_erase hm) (fun k => NodeS.refl _) (fun _ => rfl) (fun _ => rfl)
      · rename_i hnlt
        have hterm : (s.nodes dst).term ≤ t := by omega
        injection hs with hs; subst hs
        obtain ⟨hk1, hk2, hk3, hk5⟩ := hl.msg_snap _ _ _ _ _ _ _ hmem
        have hmc3 := h.msg_cmt_s _ _ _ _ _ _ _ hmem
        have hmc : c < (s.g.termLog t).length ∧ Cmt N s t ((s.g.termLog t).take (c + 1)) := ⟨hmc3.1, hmc3.2.1⟩
        have htl_ne : s.g.termLog t ≠ [] := by intro hnil; rw [hnil] at hk1; simp at hk1
        have hmsgs : ∀ m ∈ s.msgs.erase (Msg.snapshot t ldr dst k kTerm c pfx) ++ [Msg.ack t dst ldr k], m.isVote = false →
            m ∈ s.msgs ∨ m = Msg.ack t dst ldr k := by
          intro m hm _
          rcases List.mem_append.mp hm with hm | hm
          · exact Or.inl (List.mem_of_mem_erase hm)
          · simp at hm; exact Or.inr hm
        have hcase : ∀ (x : Nat), (if x < c then max x (min c k) else x) = x ∨ (if x < c then max x (min c k) else x) = min c k := by
          intro x; split
          · rcases Nat.le_total x (min c k) with hle | hle
            · right; rw [Nat.max_eq_right hle]
            · left; rw [Nat.max_eq_left hle]
          · left; rfl
        by_cases hkeep : (decide (k ≤ (adoptTerm (s.nodes dst) t).applied) || (decide (k < (adoptTerm (s.nodes dst) t).log.length) && decide (termAt (adoptTerm (s.nodes dst) t).log k = kTerm))) = true
        · -- keep the log
          rw [if_pos hkeep]
          simp only [adoptTerm_applied, adoptTerm_log, Bool.or_eq_true, Bool.and_eq_true, decide_eq_true_eq] at hkeep
          have H1 : Agree (s.nodes dst).log (s.g.termLog t) k := by
            rcases hkeep with hka | ⟨hkl, hkt⟩
            · have := commit_agree_tl hl h dst t hterm htl_ne
              exact this.mono (Nat.le_trans hka (hA dst))
            · exact invL_H hl dst t k hkl hk1 (by rw [hkt, hk3])
          refine invS_setLog (n := dst) (t := t) (a := k) (ldr := ldr) (newlog := (s.nodes dst).log)
            he hl h htl_ne hterm H1 hk1 (fun i hag _ => hag) ?_
            (by simp) (by simp [adoptTerm_term hnlt]) (by simp) (fun k hk => by simp [setNode, hk]) hmsgs rfl rfl rfl
          simp only [setNode_nodes_self, adoptTerm_commit]
          apply commit_step hl h hterm htl_ne H1 hk1 (fun i hag _ => hag) hmc
          exact hcase _
        · -- install the snapshot
          rw [if_neg hkeep]
          simp only [adoptTerm_applied, adoptTerm_log, Bool.or_eq_true, Bool.and_eq_true, decide_eq_true_eq, not_or, not_and] at hkeep
          have H1 : Agree pfx (s.g.termLog t) k := by rw [hk2]; exact agree_take_self _ (Nat.le_refl _)
          have H2 : ∀ i, Agree (s.nodes dst).log (s.g.termLog t) i → i < (s.nodes dst).log.length →
              Agree pfx (s.g.termLog t) i := by
            intro i hag hi
            by_cases hik : i ≤ k
            · rw [hk2]; exact agree_take_self _ hik
            · exfalso
              have hkl : k < (s.nodes dst).log.length := by omega
              exact hkeep.2 hkl (by rw [hag.termAt (by omega), hk3])
          refine invS_setLog (n := dst) (t := t) (a := k) (ldr := ldr) (newlog := pfx)
            he hl h htl_ne hterm H1 hk1 H2 ?_
            (by simp) (by simp [adoptTerm_term hnlt]) (by simp) (fun k hk => by simp [setNode, hk]) hmsgs rfl rfl rfl
          simp only [setNode_nodes_self, adoptTerm_commit]
          have hpl : pfx.length = k + 1 := by rw [hk2]; simp; omega
          by_cases hle : (if (s.nodes dst).commit < c then max (s.nodes dst).commit (min c k) else (s.nodes dst).commit) ≤ k
          · rw [Nat.max_eq_right hle]
            refine ⟨by omega, ?_⟩
            have : pfx.take (k + 1) = (s.g.termLog t).take (k + 1) := by
              rw [hk2, List.take_take]; simp
            rw [this]; exact hmc3.2.2
          · rw [Nat.max_eq_left (by omega)]
            apply commit_step hl h hterm htl_ne H1 hk1 H2 hmc
            rcases hcase (s.nodes dst).commit with hc | hc
            · exact Or.inl hc
            · exfalso; rw [hc] at hle; exact hle (Nat.min_le_right _ _)
    · cases hs
  · cases hs

end PSO.Raft

namespace PSO.Raft

theorem invS_restart {N s s' n c a} (h : InvS N s) (hl : InvL N s)
    (hs : step N s (.restart n c a) = some s') : InvS N s' := by
  simp only [step] at hs
  split at hs
  · rename_i hg
    injection hs with hs; subst hs
    refine invS_frame h rfl rfl rfl (fun m hm _ => hm) (nodeS_setNode ⟨rfl, Nat.le_refl _, Or.inr rfl⟩) ?_ ?_ ?_
    · intro k; by_cases hk : k = n
      · subst hk; simp; have := h.cm_lt k; omega
      · rw [setNode_nodes_ne _ _ hk]; exact h.cm_lt k
    · intro k f hr
      by_cases hk : k = n
      · subst hk; simp at hr
      · rw [setNode_nodes_ne _ _ hk] at hr ⊢; exact h.match_le k f hr
    · intro k; by_cases hk : k = n
      · subst hk
        simp only [setNode_nodes_self]
        have hc := h.cm_lt k
        refine cmt_prefix (h.C1 k) ?_ (take_ne_nil_of_lt (by omega)) ?_
        · have : (s.nodes k).log.take (c + 1) = ((s.nodes k).log.take ((s.nodes k).commit + 1)).take (c + 1) := by
            rw [List.take_take]; congr 1; omega
          rw [this]; exact List.take_prefix _ _
        · rw [List.getElem?_take]; simp; exact hl.log_sent k
      · rw [setNode_nodes_ne _ _ hk]; exact cmt_frame rfl rfl (Nat.le_refl _) (h.C1 k)
  · cases hs

theorem invS_init (N : Nat) : InvS N init := by
  constructor <;> simp [init, Cmt, OwnPos, sentinel]
  · intro t t' i htt ht'0 htpos hi
    rw [if_neg (by omega)] at hi; simp at hi
  · intro t i htpos hi
    rw [if_neg (by omega)] at hi; simp at hi

theorem invS_step {N : Nat} {s s' : State} {a : Action} (h : InvS N s) (he : InvE N s) (hl : InvL N s)
    (hA : InvA s) (hs : step N s a = some s') : InvS N s' := by
  cases a with
  | timeout n dsts => exact invS_timeout h he hl hs
  | recvReqVote n m => exact invS_recvReqVote h he hl hs
  | recvVote n m => exact invS_recvVote h he hl hs
  | clientAppend n cmd => exact invS_clientAppend h he hl hs
  | sendAppend n dst prev k c => exact invS_sendAppend h hl hs
  | recvAppend n m => exact invS_recvAppend h he hl hs
  | recvAck n m => exact invS_recvAck h hs
  | advanceCommit n i => exact invS_advanceCommit h he hl hs
  | stepDown n => exact invS_stepDown h hs
  | apply n => exact invS_apply h hs
  | observeTerm n t => exact invS_observeTerm h hs
  | sendSnapshot n dst k c => exact invS_sendSnapshot h hl hA hs
  | recvSnapshot n m => exact invS_recvSnapshot h he hl hA hs
  | lose m => exact invS_lose h hs
  | restart n c a => exact invS_restart h hl hs

theorem inv_init (N : Nat) : Inv N init :=
  ⟨invE_init N, invL_init N, fun n => by simp [init], invS_init N⟩

theorem inv_step {N : Nat} {s s' : State} {a : Action} (h : Inv N s) (hs : step N s a = some s') :
    Inv N s' :=
  ⟨invE_step h.e hs, invL_step h.l h.e h.a hs, invA_step h.a h.l hs, invS_step h.s h.e h.l h.a hs⟩

theorem inv_reachable {N : Nat} {s : State} (h : Reachable N s) : Inv N s := by
  induction h with
  | init => exact inv_init N
  | step _ hs ih => exact inv_step ih hs

theorem inv_run {N : Nat} {s s' : State} {as : List Action} (h : Inv N s) (hr : run N s as = some s') :
    Inv N s' := by
  induction as generalizing s with
  | nil => simp [run] at hr; subst hr; exact h
  | cons a as ih =>
    simp only [run] at hr
    split at hr
    · rename_i s1 hs1; exact ih (inv_step h hs1) hr
    · cases hr

end PSO.Raft
