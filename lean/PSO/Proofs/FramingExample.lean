import PSO.Proofs.FramingE2E
import PSO.Proofs.FramingDuplex
import PSO.Proofs.FramingDrain
import PSO.Proofs.FramingCallback

/-! A tiny concrete codec and concrete event lists, used by the non-vacuity `example`s of Props/C13. -/
namespace PSO.Framing.Ex
open PSO PSO.Framing

/-- messages are booleans, the payload is one byte (0/1); every other payload is undecodable -/
def cfg : Cfg Bool :=
  { enc := fun m => [if m then 1 else 0]
    dec := fun p => if p = [1] then some true else if p = [0] then some false else none
    cbDisc := fun _ => false
    timeout := 10 }

theorem msgOk : ∀ m, MsgOk cfg m := by
  intro m; cases m <;> exact ⟨rfl, by decide, rfl⟩

/-- frames of [true, false] then the first two bytes of a third frame, cut into 3+3 and 6 bytes, two READ events -/
def reads : List (Nat × List Bytes) := [(1, [[1, 0, 0], [0, 1, 1]]), (5, [[0, 0, 0, 0, 1, 0]])]

/-- the same twelve bytes, one at a time, one event -/
def reads' : List (Nat × List Bytes) := [(3, [[1], [0], [0], [0], [1], [1], [0], [0], [0], [0], [1], [0]])]

/-- frame of `true`, then a length field of -5 and junk -/
def readsNeg : List (Nat × List Bytes) := [(1, [[1, 0, 0, 0]]), (2, [[1, 0xFB, 0xFF], [0xFF, 0xFF, 9, 9]])]

/-- frame of `true`, then a complete frame whose payload `[7]` does not decode, then more -/
def readsUndec : List (Nat × List Bytes) := [(1, [[1, 0, 0, 0, 1, 1, 0]]), (2, [[0, 0, 7, 1, 0, 0, 0, 1]])]

/-- a writer: send `true` (socket takes 3 bytes, then EAGAIN), send `false` (socket takes 4 bytes),
a WRITE event (socket takes the rest) -/
def writes : List (Ev Bool) :=
  [.send true 1 [.ret 3, .again], .send false 2 [.ret 4],
   .poll { descrOk := true, rd := false, wr := true, er := false, now := 3, soErr := false, onConnDisc := false,
           sends := [.ret 100], recvs := [] }]

/-- the same writer before the WRITE event: three bytes are still in the write buffer -/
def writesShort : List (Ev Bool) := writes.take 2

/-- reads that deliver the ten bytes of `writes` -/
def readsW : List (Nat × List Bytes) := [(1, [[1, 0, 0], [0, 1, 1, 0]]), (2, [[0, 0, 0]])]


/-- full duplex: the twelve bytes of `reads` arrive while the application sends two messages through short
writes, a zero write and EAGAIN; one poller event carries READ and WRITE together -/
def ioEvs : List (IoEv Bool) :=
  [.send true 1 [.ret 3, .again], .io 2 true true [.ret 1] [[1, 0, 0], [0, 1, 1]], .send false 3 [],
   .io 5 true false [] [[0, 0, 0, 0, 1, 0]], .io 6 false true [.ret 0] []]

theorem ioOk : ∀ e ∈ ioEvs, e.Ok := by
  intro e he
  simp only [ioEvs, List.mem_cons, List.mem_nil_iff, or_false] at he
  rcases he with rfl | rfl | rfl | rfl | rfl <;> simp [IoEv.Ok, BenignSend]

/-- the same with a negative length field after the first frame -/
def ioEvsNeg : List (IoEv Bool) :=
  [.send true 1 [.ret 3, .again], .io 2 true true [.ret 1] [[1, 0, 0, 0]], .send false 3 [],
   .io 4 true false [] [[1, 0xFB, 0xFF], [0xFF, 0xFF, 9, 9]]]

theorem ioOkNeg : ∀ e ∈ ioEvsNeg, e.Ok := by
  intro e he
  simp only [ioEvsNeg, List.mem_cons, List.mem_nil_iff, or_false] at he
  rcases he with rfl | rfl | rfl | rfl <;> simp [IoEv.Ok, BenignSend]


/-- a connected connection that has just had its first WRITE event (subscription READ|ERROR) -/
def idle : Conn Bool := step cfg (Conn.init true 0) (writeEv 0 [])

/-- five WRITE events on a writable socket that takes one byte at a time: enough for one frame -/
def drips : List (Nat × List SendRes) := [(1, [.ret 1]), (2, [.ret 1, .again]), (3, [.ret 1]), (4, [.ret 1]), (5, [.ret 1, .ret 0])]

theorem dripsWritable : ∀ e ∈ drips, Writable e.2 := by
  intro e he
  simp only [drips, List.mem_cons, List.mem_nil_iff, or_false] at he
  rcases he with rfl | rfl | rfl | rfl | rfl
  · exact ⟨1, [], rfl, by decide, by simp⟩
  · exact ⟨1, [.again], rfl, by decide, by simp [BenignSend]⟩
  · exact ⟨1, [], rfl, by decide, by simp⟩
  · exact ⟨1, [], rfl, by decide, by simp⟩
  · exact ⟨1, [.ret 0], rfl, by decide, by simp [BenignSend]⟩


/-- an `onDisconnected` callback that dials again and queues `true` on the new connection -/
def redial : DiscCb Bool := { ok := true, msgs := [true] }

/-- `send false`: the socket takes two bytes, then fails hard (connection lost inside the flush, the callback
redials and sends); then the connect completes and a WRITE event flushes -/
def lossy : List (Ev Bool) :=
  [.send false 1 [.ret 2, .err],
   .poll { descrOk := true, rd := false, wr := true, er := false, now := 2, soErr := false, onConnDisc := false,
           sends := [], recvs := [] },
   .poll { descrOk := true, rd := false, wr := true, er := false, now := 3, soErr := false, onConnDisc := false,
           sends := [.ret 100], recvs := [] }]


/-- a decoder that, like `zlib.decompress` / `pickle.loads`, looks at the beginning of the payload and ignores
whatever follows -/
def lenient : Cfg Bool :=
  { enc := fun m => [if m then 1 else 0]
    dec := fun p => match p.head? with
      | some 1 => some true
      | some 0 => some false
      | _ => none
    cbDisc := fun _ => false
    timeout := 10 }

/-- the frames of `[true, false, true]`, the first length field raised from 1 to 1 + 4 + 1 (one whole frame more) -/
def overrun : Bytes := [6, 0, 0, 0, 1, 1, 0, 0, 0, 0, 1, 0, 0, 0, 1]

/-- a strict decoder: exactly one byte -/
theorem cfgStrict : StrictDec cfg := by
  intro p x m h hx
  cases p with
  | nil => simp [cfg] at h
  | cons b t =>
    cases t with
    | nil =>
      cases x with
      | nil => exact absurd rfl hx
      | cons y ys => simp [cfg]
    | cons b' t' => simp [cfg] at h

/-- frame of `true` with the length field raised by one, then the frame of `false` -/
def readsOver : List (Nat × List Bytes) := [(1, [[2, 0, 0, 0, 1, 1]]), (2, [[0, 0, 0, 0]])]

end PSO.Framing.Ex
