import PSO.Model.NodeTick

/-!
# Frame lemmas for the handler-level tick model

Which fields each phase of `tick` / each handler leaves alone.  Everything else builds on these.
-/
namespace PSO.NodeTick
open PSO.Raft (Role isMajority)

/-! ## containers -/

theorem mdel_eq (m : AMap) (k : Nat) : mdel m k = m.filter (fun p => !decide (p.1 = k)) := by
  unfold mdel
  congr 1
  funext p
  simp

theorem mget_append_self (m : AMap) (k v : Nat) (h : mget m k = none) : mget (m ++ [(k, v)]) k = some v := by
  induction m with
  | nil => simp [mget]
  | cons p rest ih =>
    obtain ⟨a, b⟩ := p
    by_cases ha : a = k
    · simp [mget, ha] at h
    · simp only [mget, ha, if_false] at h
      simp only [List.cons_append, mget, ha, if_false]
      exact ih h

theorem mget_mdel_self (m : AMap) (k : Nat) : mget (mdel m k) k = none := by
  rw [mdel_eq]
  induction m with
  | nil => rfl
  | cons p rest ih =>
    obtain ⟨a, b⟩ := p
    by_cases ha : a = k
    · simp only [List.filter_cons, ha, decide_true, Bool.not_true]
      simpa using ih
    · simp only [List.filter_cons, ha, decide_false, Bool.not_false, if_true, mget, if_false]
      exact ih

theorem mget_mset_self (m : AMap) (k v : Nat) : mget (mset m k v) k = some v := by
  unfold mset
  exact mget_append_self _ _ _ (mget_mdel_self m k)

theorem mget_mdel_ne (m : AMap) (k j : Nat) (h : j ≠ k) : mget (mdel m k) j = mget m j := by
  rw [mdel_eq]
  induction m with
  | nil => rfl
  | cons p rest ih =>
    obtain ⟨a, b⟩ := p
    by_cases ha : a = k
    · subst ha
      have hj : ¬ a = j := fun e => h e.symm
      simp only [List.filter_cons, decide_true, Bool.not_true, mget, hj, if_false]
      simpa using ih
    · simp only [List.filter_cons, ha, decide_false, Bool.not_false, if_true, mget]
      by_cases hj : a = j
      · simp [hj]
      · simp only [hj, if_false]
        exact ih

theorem mget_append_ne (m : AMap) (k v j : Nat) (h : j ≠ k) : mget (m ++ [(k, v)]) j = mget m j := by
  induction m with
  | nil =>
    have : ¬ k = j := fun e => h e.symm
    simp [mget, this]
  | cons p rest ih =>
    obtain ⟨a, b⟩ := p
    by_cases hj : a = j
    · simp [mget, hj]
    · simp [mget, hj, ih]

theorem mget_mset_ne (m : AMap) (k v j : Nat) (h : j ≠ k) : mget (mset m k v) j = mget m j := by
  unfold mset
  rw [mget_append_ne _ _ _ _ h, mget_mdel_ne _ _ _ h]

theorem mgetD_mset_self (m : AMap) (k v : Nat) : mgetD (mset m k v) k = v := by
  simp [mgetD, mget_mset_self]

theorem mgetD_mset_ne (m : AMap) (k v j : Nat) (h : j ≠ k) : mgetD (mset m k v) j = mgetD m j := by
  simp [mgetD, mget_mset_ne _ _ _ _ h]

theorem mgetD_mdel_ne (m : AMap) (k j : Nat) (h : j ≠ k) : mgetD (mdel m k) j = mgetD m j := by
  simp [mgetD, mget_mdel_ne _ _ _ h]

/-- Two predicates that agree on the members of a list filter it to the same list. -/
theorem filter_congr_mem {l : List Nat} {p q : Nat → Bool} (h : ∀ x ∈ l, p x = q x) : l.filter p = l.filter q :=
  List.filter_congr h

theorem commitCount_congr {others : List Nat} {m m' : AMap} (h : ∀ n ∈ others, mgetD m n = mgetD m' n) (i : Nat) :
    commitCount others m i = commitCount others m' i := by
  unfold commitCount
  rw [filter_congr_mem (q := fun n => decide (i ≤ mgetD m' n))]
  intro x hx
  rw [h x hx]

theorem freshCount_congr {others : List Nat} {m m' : AMap} (h : ∀ n ∈ others, mgetD m n = mgetD m' n) (now T : Nat) :
    freshCount others m now T = freshCount others m' now T := by
  unfold freshCount
  rw [filter_congr_mem (q := fun n => decide (now < mgetD m' n + T))]
  intro x hx
  rw [h x hx]

theorem commitLoop_congr {others : List Nat} {m m' : AMap} (h : ∀ n ∈ others, mgetD m n = mgetD m' n)
    (log : List Entry) (term fuel ci next : Nat) :
    commitLoop others m log term fuel ci next = commitLoop others m' log term fuel ci next := by
  induction fuel generalizing ci next with
  | zero => rfl
  | succ f ih =>
    simp only [commitLoop, commitCount_congr h, ih]

/-! ## `setRole`, `leaderChanged` -/

@[simp] theorem setRole_fst (s : NodeState) (r : Role) : (setRole s r).1 = { s with role := r } := rfl

@[simp] theorem leaderChanged_fst (s : NodeState) : (leaderChanged s).1 = { s with waitingReply := [] } := rfl

/-! ## the apply loop: fields it never touches -/

/-- Fields that `__applyLogEntries` leaves alone, and the direction in which it moves `lastApplied`. -/
structure ApplyFrame (s s' : NodeState) : Prop where
  role : s'.role = s.role
  leader : s'.leader = s.leader
  term : s'.term = s.term
  self : s'.self = s.self
  log : s'.log = s.log
  commit : s'.commit = s.commit
  votes : s'.votes = s.votes
  votedFor : s'.votedFor = s.votedFor
  readonly : s'.readonly = s.readonly
  connected : s'.connected = s.connected
  leaderCommit : s'.leaderCommit = s.leaderCommit
  readyCalled : s'.readyCalled = s.readyCalled
  newAppendTime : s'.newAppendTime = s.newAppendTime
  applied : s.lastApplied ≤ s'.lastApplied

theorem ApplyFrame.refl (s : NodeState) : ApplyFrame s s :=
  ⟨rfl, rfl, rfl, rfl, rfl, rfl, rfl, rfl, rfl, rfl, rfl, rfl, rfl, Nat.le_refl _⟩

theorem ApplyFrame.trans {a b c : NodeState} (h1 : ApplyFrame a b) (h2 : ApplyFrame b c) : ApplyFrame a c :=
  ⟨h2.role.trans h1.role, h2.leader.trans h1.leader, h2.term.trans h1.term, h2.self.trans h1.self,
   h2.log.trans h1.log, h2.commit.trans h1.commit, h2.votes.trans h1.votes, h2.votedFor.trans h1.votedFor,
   h2.readonly.trans h1.readonly, h2.connected.trans h1.connected, h2.leaderCommit.trans h1.leaderCommit,
   h2.readyCalled.trans h1.readyCalled, h2.newAppendTime.trans h1.newAppendTime, Nat.le_trans h1.applied h2.applied⟩

theorem changeCluster_frame (s : NodeState) (now : Nat) (add : Bool) (n : Nat) :
    ApplyFrame s (changeCluster s now add n).1 ∧ (changeCluster s now add n).1.lastApplied = s.lastApplied := by
  unfold changeCluster
  split
  · split
    · exact ⟨ApplyFrame.refl s, rfl⟩
    · exact ⟨⟨rfl, rfl, rfl, rfl, rfl, rfl, rfl, rfl, rfl, rfl, rfl, rfl, rfl, Nat.le_refl _⟩, rfl⟩
  · split
    · exact ⟨ApplyFrame.refl s, rfl⟩
    · split
      · exact ⟨ApplyFrame.refl s, rfl⟩
      · exact ⟨⟨rfl, rfl, rfl, rfl, rfl, rfl, rfl, rfl, rfl, rfl, rfl, rfl, rfl, Nat.le_refl _⟩, rfl⟩

theorem applyCmd_frame {c : Config} {s : NodeState} {now : Nat} {e : Entry} {s' : NodeState} {r : Res}
    {o : List Output} (h : applyCmd c s now e = some (s', r, o)) :
    ApplyFrame s s' ∧ s'.lastApplied = s.lastApplied := by
  unfold applyCmd at h
  split at h
  · cases h; exact ⟨ApplyFrame.refl s, rfl⟩
  · split at h
    · cases h
    · split at h
      · cases h; exact ⟨ApplyFrame.refl s, rfl⟩
      · cases h
        exact ⟨⟨rfl, rfl, rfl, rfl, rfl, rfl, rfl, rfl, rfl, rfl, rfl, rfl, rfl, Nat.le_refl _⟩, rfl⟩
  · cases h
    exact ⟨ApplyFrame.refl s, rfl⟩
  · cases h
    exact ⟨⟨rfl, rfl, rfl, rfl, rfl, rfl, rfl, rfl, rfl, rfl, rfl, rfl, rfl, Nat.le_refl _⟩, rfl⟩

theorem applyLoop_frame (c : Config) (now : Nat) (es : List Entry) (s : NodeState) :
    ApplyFrame s (applyLoop c now es s).1 := by
  induction es generalizing s with
  | nil => exact ApplyFrame.refl s
  | cons e es ih =>
    simp only [applyLoop]
    split
    · exact ⟨rfl, rfl, rfl, rfl, rfl, rfl, rfl, rfl, rfl, rfl, rfl, rfl, rfl, Nat.le_refl _⟩
    · next s1 res o1 h =>
      have h1 := applyCmd_frame h
      have f0 : ApplyFrame s { s with waiting := wdel s.waiting e.idx } :=
        ⟨rfl, rfl, rfl, rfl, rfl, rfl, rfl, rfl, rfl, rfl, rfl, rfl, rfl, Nat.le_refl _⟩
      have f2 : ApplyFrame s1 { s1 with lastApplied := s1.lastApplied + 1 } :=
        ⟨rfl, rfl, rfl, rfl, rfl, rfl, rfl, rfl, rfl, rfl, rfl, rfl, rfl, Nat.le_succ _⟩
      exact (f0.trans h1.1).trans (f2.trans (ih _))

theorem applyEntries_frame (c : Config) (s : NodeState) (now : Nat) : ApplyFrame s (applyEntries c s now).1 := by
  unfold applyEntries
  split
  · exact ApplyFrame.refl s
  · split
    · exact applyLoop_frame c now _ s
    · exact ApplyFrame.refl s

/-! ## `readyPhase` -/

theorem readyPhase_fst (s : NodeState) :
    (readyPhase s).1 = s ∨ (readyPhase s).1 = { s with readyCalled := true } := by
  unfold readyPhase
  split
  · exact Or.inr rfl
  · exact Or.inl rfl

@[simp] theorem readyPhase_role (s : NodeState) : (readyPhase s).1.role = s.role := by
  rcases readyPhase_fst s with h | h <;> rw [h]
@[simp] theorem readyPhase_leader (s : NodeState) : (readyPhase s).1.leader = s.leader := by
  rcases readyPhase_fst s with h | h <;> rw [h]
@[simp] theorem readyPhase_commit (s : NodeState) : (readyPhase s).1.commit = s.commit := by
  rcases readyPhase_fst s with h | h <;> rw [h]
@[simp] theorem readyPhase_applied (s : NodeState) : (readyPhase s).1.lastApplied = s.lastApplied := by
  rcases readyPhase_fst s with h | h <;> rw [h]
@[simp] theorem readyPhase_others (s : NodeState) : (readyPhase s).1.others = s.others := by
  rcases readyPhase_fst s with h | h <;> rw [h]
@[simp] theorem readyPhase_lastResponse (s : NodeState) : (readyPhase s).1.lastResponse = s.lastResponse := by
  rcases readyPhase_fst s with h | h <;> rw [h]
@[simp] theorem readyPhase_matchIndex (s : NodeState) : (readyPhase s).1.matchIndex = s.matchIndex := by
  rcases readyPhase_fst s with h | h <;> rw [h]
@[simp] theorem readyPhase_log (s : NodeState) : (readyPhase s).1.log = s.log := by
  rcases readyPhase_fst s with h | h <;> rw [h]
@[simp] theorem readyPhase_term (s : NodeState) : (readyPhase s).1.term = s.term := by
  rcases readyPhase_fst s with h | h <;> rw [h]
@[simp] theorem readyPhase_self (s : NodeState) : (readyPhase s).1.self = s.self := by
  rcases readyPhase_fst s with h | h <;> rw [h]
@[simp] theorem readyPhase_sm (s : NodeState) : (readyPhase s).1.sm = s.sm := by
  rcases readyPhase_fst s with h | h <;> rw [h]
@[simp] theorem readyPhase_waiting (s : NodeState) : (readyPhase s).1.waiting = s.waiting := by
  rcases readyPhase_fst s with h | h <;> rw [h]

theorem readyPhase_outputs (s : NodeState) : (readyPhase s).2 = [] ∨ (readyPhase s).2 = [.ready] := by
  unfold readyPhase
  split
  · exact Or.inr rfl
  · exact Or.inl rfl

/-! ## `becomeLeader` -/

theorem becomeLeader_role (c : Config) (s : NodeState) (now : Nat) : (becomeLeader c s now).1.role = .leader := rfl
theorem becomeLeader_others (c : Config) (s : NodeState) (now : Nat) : (becomeLeader c s now).1.others = s.others := rfl
theorem becomeLeader_commit (c : Config) (s : NodeState) (now : Nat) : (becomeLeader c s now).1.commit = s.commit := rfl
theorem becomeLeader_applied (c : Config) (s : NodeState) (now : Nat) :
    (becomeLeader c s now).1.lastApplied = s.lastApplied := rfl
theorem becomeLeader_self (c : Config) (s : NodeState) (now : Nat) : (becomeLeader c s now).1.self = s.self := rfl
theorem becomeLeader_lastResponse (c : Config) (s : NodeState) (now : Nat) :
    (becomeLeader c s now).1.lastResponse = (tracked s).map (fun n => (n, now)) := rfl

theorem mget_map_now (l : List Nat) (now n : Nat) (h : n ∈ l) : mget (l.map (fun n => (n, now))) n = some now := by
  induction l with
  | nil => cases h
  | cons a rest ih =>
    by_cases ha : a = n
    · simp [mget, ha]
    · have : n ∈ rest := by
        rcases List.mem_cons.mp h with h | h
        · exact absurd h.symm ha
        · exact h
      simp [mget, ha, ih this]

theorem becomeLeader_fresh (c : Config) (s : NodeState) (now n : Nat) (h : n ∈ s.others) :
    mgetD (becomeLeader c s now).1.lastResponse n = now := by
  rw [becomeLeader_lastResponse]
  have : n ∈ tracked s := by
    unfold tracked
    exact List.mem_append_left _ h
  simp [mgetD, mget_map_now _ _ _ this]

/-! ## `electionPhase` -/

/-- The election-timeout branch either does nothing, or starts an election (and possibly wins it at once). -/
theorem electionPhase_cases (c : Config) (s : NodeState) (now rand : Nat) :
    (electionPhase c s now rand).1 = s ∨
    (s.role ≠ .leader ∧ s.self.isSome ∧ s.electionDeadline < now ∧
      (electionPhase c s now rand).1.commit = s.commit ∧
      (electionPhase c s now rand).1.lastApplied = s.lastApplied ∧
      (electionPhase c s now rand).1.others = s.others ∧
      (electionPhase c s now rand).1.self = s.self ∧
      (((electionPhase c s now rand).1.role = .candidate ∧ ¬ isMajority (s.others.length + 1) 1 = true) ∨
       ((electionPhase c s now rand).1.role = .leader ∧ isMajority (s.others.length + 1) 1 = true ∧
        ∀ n ∈ s.others, mgetD (electionPhase c s now rand).1.lastResponse n = now))) := by
  unfold electionPhase
  split
  · exact Or.inl rfl
  · next me hme =>
    split
    · exact Or.inl rfl
    · next hnl =>
      split
      · next hd =>
        right
        refine ⟨hnl, by simp [hme], hd.1, ?_⟩
        simp only [setRole, leaderChanged]
        split
        · next hm =>
          refine ⟨rfl, rfl, rfl, rfl, Or.inr ⟨rfl, hm, ?_⟩⟩
          intro n hn
          exact becomeLeader_fresh c _ now n hn
        · next hm =>
          exact ⟨rfl, rfl, rfl, rfl, Or.inl ⟨rfl, hm⟩⟩
      · exact Or.inl rfl

end PSO.NodeTick
