import PSO.Model.Queue

/-! Lemmas about `FastQueue` and the decorator packing (`PSO.Queue`, property C19 / C11 / C02). -/
namespace PSO.Queue

/-! ## keyword dictionaries -/

theorem mem_kwKeys_kwDel {k k' : String} {kw : Kw} : k' ∈ kwKeys (kwDel k kw) ↔ k' ∈ kwKeys kw ∧ k' ≠ k := by
  simp only [kwKeys, kwDel, List.mem_map, List.mem_filter]
  constructor
  · rintro ⟨p, ⟨hp, hne⟩, rfl⟩
    exact ⟨⟨p, hp, rfl⟩, by simpa using hne⟩
  · rintro ⟨⟨p, hp, rfl⟩, hne⟩
    exact ⟨p, ⟨hp, by simpa using hne⟩, rfl⟩

theorem nodup_kwDel {k : String} {kw : Kw} (h : (kwKeys kw).Nodup) : (kwKeys (kwDel k kw)).Nodup :=
  List.Nodup.sublist (List.Sublist.map _ List.filter_sublist) h

theorem kwDel_of_not_mem {k : String} {kw : Kw} (h : k ∉ kwKeys kw) : kwDel k kw = kw := by
  simp only [kwDel, List.filter_eq_self]
  intro p hp
  have : p.1 ≠ k := fun e => h (by simp only [kwKeys, List.mem_map]; exact ⟨p, hp, e⟩)
  simpa using this

theorem kwDel_comm (a b : String) (kw : Kw) : kwDel a (kwDel b kw) = kwDel b (kwDel a kw) := by
  simp only [kwDel, List.filter_filter, Bool.and_comm]

theorem kwDel_append (k : String) (a b : Kw) : kwDel k (a ++ b) = kwDel k a ++ kwDel k b := by
  simp [kwDel]

theorem kwGet_eq_none {k : String} {kw : Kw} (h : k ∉ kwKeys kw) : kwGet k kw = none := by
  induction kw with
  | nil => rfl
  | cons p rest ih =>
    obtain ⟨k', v⟩ := p
    simp only [kwKeys, List.map_cons, List.mem_cons, not_or] at h
    simp only [kwGet]
    have : (k' == k) = false := by simpa using fun e => h.1 e.symm
    simp only [this, Bool.false_eq_true, ↓reduceIte]
    exact ih (by simpa [kwKeys] using h.2)

theorem kwSet_of_not_mem {k : String} {v : Val} {kw : Kw} (h : k ∉ kwKeys kw) : kwSet k v kw = kw ++ [(k, v)] := by
  induction kw with
  | nil => rfl
  | cons p rest ih =>
    obtain ⟨k', v'⟩ := p
    simp only [kwKeys, List.map_cons, List.mem_cons, not_or] at h
    have : (k' == k) = false := by simpa using fun e => h.1 e.symm
    simp only [kwSet, this, Bool.false_eq_true, ↓reduceIte, List.cons_append, List.cons.injEq, true_and]
    exact ih (by simpa [kwKeys] using h.2)

/-- `base.update(upd)` appends when the keys are fresh and distinct (Python dict: always distinct). -/
theorem kwUpdate_fresh (base upd : Kw) (hn : (kwKeys upd).Nodup) (hd : ∀ k ∈ kwKeys upd, k ∉ kwKeys base) :
    kwUpdate base upd = base ++ upd := by
  induction upd generalizing base with
  | nil => simp [kwUpdate]
  | cons p rest ih =>
    obtain ⟨k, v⟩ := p
    simp only [kwKeys, List.map_cons, List.nodup_cons] at hn
    have hk : k ∉ kwKeys base := hd k (by simp [kwKeys])
    simp only [kwUpdate, kwSet_of_not_mem hk]
    rw [ih (base ++ [(k, v)]) (by simpa [kwKeys] using hn.2)]
    · simp
    · intro k' hk'
      have h1 : k' ∉ kwKeys base := hd k' (by simp only [kwKeys, List.map_cons, List.mem_cons]; exact Or.inr (by simpa [kwKeys] using hk'))
      have h2 : k' ≠ k := by
        rintro rfl
        exact hn.1 (by simpa [kwKeys] using hk')
      simp only [kwKeys, List.map_append, List.map_cons, List.map_nil, List.mem_append, List.mem_cons,
        List.not_mem_nil, or_false, not_or]
      exact ⟨by simpa [kwKeys] using h1, h2⟩

theorem doApply_not_mem_strip (kw : Kw) : "_doApply" ∉ kwKeys (stripReserved kw) := by
  simp only [stripReserved, mem_kwKeys_kwDel]
  intro h
  exact h.1.1.1.2 rfl

theorem nodup_strip {kw : Kw} (h : (kwKeys kw).Nodup) : (kwKeys (stripReserved kw)).Nodup :=
  nodup_kwDel (nodup_kwDel (nodup_kwDel (nodup_kwDel h)))

/-! ## the applying side inverts the packing -/

/-- With `_doApply: True` in front, the wrapper runs the body with exactly the remaining kwargs. -/
theorem replicatedCall_doApply (g : Nat) (args : List Val) (kw : Kw) (h : "_doApply" ∉ kwKeys kw) :
    replicatedCall g args (("_doApply", .bool true) :: kw) = .localRun args kw := by
  have : kwDel "_doApply" (("_doApply", Val.bool true) :: kw) = kw := by
    have := kwDel_of_not_mem h
    simpa [kwDel] using this
  simp [replicatedCall, kwGet, Val.truthy, this]

/-- `__doApplyCommand` on any packed shape whose kwargs are a dictionary without `_doApply`:
the method body receives the function id, the args and the kwargs that were packed. -/
theorem received_toVal (p : Packed) :
    match p with
    | .bare f => received p.toVal = some (.int f, [], [])
    | .two f a => received p.toVal = some (.int f, a, [])
    | .three f a kw => (kwKeys kw).Nodup → "_doApply" ∉ kwKeys kw → received p.toVal = some (.int f, a, kw) := by
  cases p with
  | bare f =>
    show received (Val.int f) = _
    simp only [received, unpackVal]
    rw [replicatedCall_doApply 0 [] [] (by simp [kwKeys])]
  | two f a =>
    show received (Val.tup [Val.int f, Val.tup a]) = _
    simp only [received, unpackVal]
    rw [replicatedCall_doApply 0 a [] (by simp [kwKeys])]
  | three f a kw =>
    intro hn hd
    show received (Val.tup [Val.int f, Val.tup a, Val.dict kw]) = _
    simp only [received, unpackVal]
    rw [kwUpdate_fresh _ _ hn (by
      intro k hk
      simp only [kwKeys, List.map_cons, List.map_nil, List.mem_cons, List.not_mem_nil, or_false]
      rintro rfl
      exact hd hk)]
    show (match replicatedCall 0 a (("_doApply", Val.bool true) :: kw) with
      | .localRun a k => some (Val.int f, a, k)
      | .replicate _ _ => none) = _
    rw [replicatedCall_doApply 0 a kw hd]

/-- the mode the wrapper chooses, as a function of the caller's kwargs -/
def modeOf (kw : Kw) : Mode :=
  let callback := (kwGet "callback" (kwDel "_doApply" kw)).getD .none
  let kw2 := kwDel "callback" (kwDel "_doApply" kw)
  let sync := if callback.isSome then false else ((kwGet "sync" kw2).getD (.bool false)).truthy
  if sync then .sync ((kwGet "timeout" (kwDel "sync" kw2)).getD .none)
  else if callback.isSome then .user else .nocb

/-- `@replicated`: a call that is not a local apply submits ONE command; applying that command hands the
method body the caller's positional arguments and the caller's keyword arguments minus the reserved
names — whatever the shape (`funcID`, `(funcID, args)`, `(funcID, args, kwargs)`) the wrapper chose. -/
theorem replicatedCall_received (f : Nat) (args : List Val) (kw : Kw) (hn : (kwKeys kw).Nodup)
    (hd : ((kwGet "_doApply" kw).getD (.bool false)).truthy = false) :
    ∃ cmd, replicatedCall f args kw = .replicate cmd (modeOf kw) ∧
      received cmd.toVal = some (.int f, args, stripReserved kw) := by
  by_cases h3 : (kwDel "callback" (kwDel "_doApply" kw)).isEmpty = true
  · -- no keyword besides `_doApply` / `callback`: shapes `funcID` and `(funcID, args)`
    have hnil : kwDel "callback" (kwDel "_doApply" kw) = [] := List.isEmpty_iff.mp h3
    have hs : stripReserved kw = [] := by
      unfold stripReserved
      rw [hnil]
      rfl
    by_cases h2 : args.isEmpty = true
    · have ha : args = [] := List.isEmpty_iff.mp h2
      refine ⟨.bare f, ?_, ?_⟩
      · simp [replicatedCall, modeOf, hd, h3, h2]
      · have := received_toVal (.bare f)
        simpa [hs, ha] using this
    · refine ⟨.two f args, ?_, ?_⟩
      · simp [replicatedCall, modeOf, hd, h3, h2]
      · have := received_toVal (.two f args)
        simpa [hs] using this
  · refine ⟨.three f args (stripReserved kw), ?_, ?_⟩
    · simp [replicatedCall, modeOf, hd, h3, stripReserved]
    · exact received_toVal (.three f args (stripReserved kw)) (nodup_strip hn) (doApply_not_mem_strip kw)

theorem not_mem_of_kwGet_none {k : String} {kw : Kw} (h : kwGet k kw = none) : k ∉ kwKeys kw := by
  induction kw with
  | nil => simp [kwKeys]
  | cons p rest ih =>
    obtain ⟨k', v⟩ := p
    simp only [kwGet] at h
    by_cases e : (k' == k) = true
    · simp [e] at h
    · simp only [e, Bool.false_eq_true, ↓reduceIte] at h
      have hne : k' ≠ k := by simpa using e
      simp only [kwKeys, List.map_cons, List.mem_cons, not_or]
      exact ⟨fun x => hne x.symm, by simpa [kwKeys] using ih h⟩

theorem kwGet_append_other {k k' : String} {v : Val} (kw : Kw) (h : k' ≠ k) :
    kwGet k (kw ++ [(k', v)]) = kwGet k kw := by
  induction kw with
  | nil => simp [kwGet, h]
  | cons p rest ih =>
    obtain ⟨k2, v2⟩ := p
    simp only [List.cons_append, kwGet, ih]

theorem kwSetDefault_cases (k : String) (v : Val) (kw : Kw) :
    kwSetDefault k v kw = kw ∨ (kwSetDefault k v kw = kw ++ [(k, v)] ∧ k ∉ kwKeys kw) := by
  unfold kwSetDefault
  cases h : kwGet k kw with
  | some _ => exact Or.inl rfl
  | none => exact Or.inr ⟨rfl, not_mem_of_kwGet_none h⟩

theorem nodup_kwSetDefault {k : String} {v : Val} {kw : Kw} (h : (kwKeys kw).Nodup) :
    (kwKeys (kwSetDefault k v kw)).Nodup := by
  rcases kwSetDefault_cases k v kw with e | ⟨e, hk⟩
  · rw [e]; exact h
  · rw [e]
    simp only [kwKeys, List.map_append, List.map_cons, List.map_nil]
    rw [List.nodup_append]
    refine ⟨h, by simp, ?_⟩
    intro a ha b hb
    simp only [List.mem_cons, List.not_mem_nil, or_false] at hb
    rintro rfl
    subst hb
    exact hk ha

theorem kwGet_kwSetDefault_other {k k' : String} {v : Val} (kw : Kw) (h : k' ≠ k) :
    kwGet k (kwSetDefault k' v kw) = kwGet k kw := by
  rcases kwSetDefault_cases k' v kw with e | ⟨e, _⟩
  · rw [e]
  · rw [e, kwGet_append_other kw h]

theorem strip_append_reserved (kw : Kw) (k : String) (v : Val)
    (hk : k = "sync" ∨ k = "timeout") : stripReserved (kw ++ [(k, v)]) = stripReserved kw := by
  unfold stripReserved
  rcases hk with rfl | rfl <;> simp [kwDel]

theorem strip_kwSetDefault (kw : Kw) (k : String) (v : Val) (hk : k = "sync" ∨ k = "timeout") :
    stripReserved (kwSetDefault k v kw) = stripReserved kw := by
  rcases kwSetDefault_cases k v kw with e | ⟨e, _⟩
  · rw [e]
  · rw [e, strip_append_reserved kw k v hk]

/-- Both decorators: a call that is not a local apply submits one command, and applying that command
gives the method body `(funcID, args, kwargs minus reserved names)` of the call.  (C11 `pack_unpack`.) -/
theorem planOf_received (sp : CallSpec) (hn : (kwKeys sp.kw).Nodup)
    (hd : ((kwGet "_doApply" sp.kw).getD (.bool false)).truthy = false) :
    ∃ cmd mode, planOf sp = .replicate cmd mode ∧
      received cmd.toVal = some (.int sp.func, sp.args, stripReserved sp.kw) := by
  cases hdec : sp.dec with
  | replicated =>
    obtain ⟨cmd, h1, h2⟩ := replicatedCall_received sp.func sp.args sp.kw hn hd
    exact ⟨cmd, modeOf sp.kw, by simp [planOf, hdec, h1], h2⟩
  | replicatedSync d =>
    let kw' := kwSetDefault "sync" (.bool true) (kwSetDefault "timeout" d sp.kw)
    have hn' : (kwKeys kw').Nodup := nodup_kwSetDefault (nodup_kwSetDefault hn)
    have hg : kwGet "_doApply" kw' = kwGet "_doApply" sp.kw := by
      show kwGet "_doApply" (kwSetDefault "sync" _ (kwSetDefault "timeout" d sp.kw)) = _
      rw [kwGet_kwSetDefault_other _ (by decide), kwGet_kwSetDefault_other _ (by decide)]
    have hd' : ((kwGet "_doApply" kw').getD (.bool false)).truthy = false := by rw [hg]; exact hd
    obtain ⟨cmd, h1, h2⟩ := replicatedCall_received sp.func sp.args kw' hn' hd'
    have hs : stripReserved kw' = stripReserved sp.kw := by
      show stripReserved (kwSetDefault "sync" _ (kwSetDefault "timeout" d sp.kw)) = _
      rw [strip_kwSetDefault _ _ _ (Or.inl rfl), strip_kwSetDefault _ _ _ (Or.inr rfl)]
    refine ⟨cmd, modeOf kw', ?_, by rw [h2, hs]⟩
    simp only [planOf, hdec, replicatedSyncCall, hd, Bool.false_eq_true, ↓reduceIte]
    exact h1

/-- `_doApply` truthy: the body runs in the caller with the remaining arguments, nothing is submitted. -/
theorem planOf_local (sp : CallSpec) (hd : ((kwGet "_doApply" sp.kw).getD (.bool false)).truthy = true) :
    planOf sp = .localRun sp.args (kwDel "_doApply" sp.kw) := by
  cases hdec : sp.dec <;> simp [planOf, hdec, replicatedSyncCall, replicatedCall, hd]

end PSO.Queue
