import PSO.Proofs.BridgeTick
import PSO.Proofs.BridgeAck
import PSO.Proofs.BridgeSend
import PSO.Proofs.BridgeSendCut
import PSO.Proofs.BridgeKeys
import PSO.Proofs.BridgeFollower
import PSO.Proofs.BridgeLeader
import PSO.Proofs.BridgeSnapshot

/-!
# Bridge theorems: handler model ⊑ protocol model

The chain   real code ≈ handler model (single-step correspondence, tested: `corr.nodetick_handlers`,
`corr.nodesend_handlers`)  ⊑  protocol model `PSO.Raft.step` (THIS FILE, proved)  ⊨  safety invariants
(`Proofs/RaftTheorems.lean`, proved)   for the election / vote / acknowledgement / commit / apply handlers and the
send loop.

Every theorem has the form: *if the protocol model's state `S` holds `absNode s` at node `n` (and the consumed
message is in flight), then the model action(s) the harness maps the handler to are enabled, the resulting model
state holds `absNode` of the handler's result at `n`, no other node changes, and the model's message bag changes
by exactly the handler's outputs read as model messages (`absOuts`)*.

Files: `BridgeAbs` (abstraction, node-level readings of `step`), `BridgeVote`, `BridgeTick`, `BridgeAck`,
`BridgeSend`, `BridgeSendCut` (node-level lemmas), `BridgeFollower` (`append_entries` handler ⊑ `recvAppend`:
`appendEntries_refines`, `appendEntries_chunk_refines`, `appendEntries_finish_refines`), `BridgeLeader` (queue dispatch ⊑
`clientAppend`: `leaderDispatch_refines`, `dispatch_idle_abs`), `BridgeSnapshot` (snapshot message ⊑ `recvSnapshot`:
`snapshot_refines`, `snapshot_partial_refines`, `snapshot_refines_S`; abstraction `absNodeM`), `BridgeKeys` (`KeysTracked` and `WFLog` are invariants of
`PSO.NodeTick.step`: `step_keysTracked`, `step_wfLog`).  Final statements, examples and the three
hypothesis-is-needed findings are below.

Standing conventions (see `BridgeAbs.lean`): voters are `0 … N−1`; model position = real index − 1; `WFLog` = the
handler model's log is the full log, contiguous from index 1; `KeysTracked` = no stale match-index keys;
`NoMembership` = no membership entries (the protocol model has a fixed voter set).
-/
namespace PSO.Bridge
open PSO
open PSO.NodeTick
open PSO.Raft (Role isMajority)

/-! ## 1. `request_vote` ⊑ `recvReqVote` -/

/-- **`onRequestVote_refines`.** -/
theorem onRequestVote_refines (c : Config) (s : NodeState) (frm term li lt now rand : Nat) (N n : Nat)
    (S : Raft.State) (hself : s.self = some n) (hn : n < N) (hf : frm < N) (hne : frm ≠ n)
    (hwf : WFLog s.log) (hli : 1 ≤ li) (habs : S.nodes n = absNode s)
    (hm : Raft.Msg.reqVote term frm n (li - 1) lt ∈ S.msgs) :
    ∃ S', Raft.step N S (.recvReqVote n (.reqVote term frm n (li - 1) lt)) = some S' ∧
      S'.nodes n = absNode (onRequestVote c s frm term li lt now rand).1 ∧
      (∀ k, k ≠ n → S'.nodes k = S.nodes k) ∧
      S'.msgs = S.msgs.erase (.reqVote term frm n (li - 1) lt) ++
        absOuts n (onRequestVote c s frm term li lt now rand).2 := by
  obtain ⟨S', hstep, h1, h2, h3⟩ := step_recvReqVote N S n term frm (li - 1) lt hn hf hne hm
  obtain ⟨a1, a2⟩ := onRequestVote_abs c s n frm term li lt now rand (by rw [hself]; rfl) hwf hli
  refine ⟨S', hstep, ?_, h2, ?_⟩
  · rw [h1, habs, a1]
  · rw [h3, habs, a2]

/-- the grant condition of the protocol model's `recvReqVote`, evaluated after `bumpTerm` -/
def GrantCond (ns : Raft.NodeSt) (t li lt : Nat) : Prop :=
  (Raft.bumpTerm ns t).role ≠ .leader ∧ (Raft.bumpTerm ns t).term ≤ t ∧
    Raft.upToDate lt li (Raft.bumpTerm ns t).log = true ∧ (Raft.bumpTerm ns t).votedFor = none

instance (ns : Raft.NodeSt) (t li lt : Nat) : Decidable (GrantCond ns t li lt) := by
  unfold GrantCond; infer_instance

theorem bumpTerm_frame (ns : Raft.NodeSt) (t : Nat) :
    (Raft.bumpTerm ns t).log = ns.log ∧ (Raft.bumpTerm ns t).commit = ns.commit ∧
    (Raft.bumpTerm ns t).applied = ns.applied ∧ (Raft.bumpTerm ns t).matchIdx = ns.matchIdx ∧
    (Raft.bumpTerm ns t).votes = ns.votes := by
  unfold Raft.bumpTerm
  split <;> exact ⟨rfl, rfl, rfl, rfl, rfl⟩

/-- **`onRequestVote_fields`**: the election-relevant fields spelled out — same `bumpTerm`, same grant condition
(`role ≠ leader ∧ term' ≤ t ∧ upToDate lt (li − 1) log ∧ votedFor = none`), log / commit / applied / match
positions untouched, `response_vote` emitted iff the model emits `vote`. -/
theorem onRequestVote_fields (c : Config) (s : NodeState) (n frm term li lt now rand : Nat)
    (hself : s.self.isSome = true) (hwf : WFLog s.log) (hli : 1 ≤ li) :
    (absNode (onRequestVote c s frm term li lt now rand).1).term = (Raft.bumpTerm (absNode s) term).term ∧
    (absNode (onRequestVote c s frm term li lt now rand).1).role = (Raft.bumpTerm (absNode s) term).role ∧
    (absNode (onRequestVote c s frm term li lt now rand).1).votedFor =
      (if GrantCond (absNode s) term (li - 1) lt then some frm else (Raft.bumpTerm (absNode s) term).votedFor) ∧
    (absNode (onRequestVote c s frm term li lt now rand).1).votes = (absNode s).votes ∧
    (absNode (onRequestVote c s frm term li lt now rand).1).log = (absNode s).log ∧
    (absNode (onRequestVote c s frm term li lt now rand).1).commit = (absNode s).commit ∧
    (absNode (onRequestVote c s frm term li lt now rand).1).applied = (absNode s).applied ∧
    (absNode (onRequestVote c s frm term li lt now rand).1).matchIdx = (absNode s).matchIdx ∧
    absOuts n (onRequestVote c s frm term li lt now rand).2 =
      (if GrantCond (absNode s) term (li - 1) lt then [Raft.Msg.vote term n frm] else []) := by
  obtain ⟨a1, a2⟩ := onRequestVote_abs c s n frm term li lt now rand hself hwf hli
  obtain ⟨b1, b2, b3, b4, b5⟩ := bumpTerm_frame (absNode s) term
  rw [a1, a2]
  unfold voteNode
  by_cases hg : GrantCond (absNode s) term (li - 1) lt
  · have hg' := hg
    unfold GrantCond at hg'
    simp only [if_pos hg, if_pos hg']
    exact ⟨trivial, trivial, trivial, b5, b1, b2, b3, b4, by simp⟩
  · have hg' := hg
    unfold GrantCond at hg'
    simp only [if_neg hg, if_neg hg']
    exact ⟨trivial, trivial, trivial, b5, b1, b2, b3, b4, by simp⟩

/-! ## 2. `response_vote` ⊑ `recvVote` -/

/-- **`onResponseVote_refines`.**  The majority test of the handler, `isMajority (others.length + 1) votes`, is the
model's `isMajority N votes` for `N = others.length + 1`; becoming leader appends the no-op of the current term and
resets the match positions exactly like `PSO.Raft.becomeLeader`. -/
theorem onResponseVote_refines (c : Config) (s : NodeState) (term now : Nat) (N n voter : Nat) (S : Raft.State)
    (hn : n < N) (hN : s.others.length + 1 = N) (hk : KeysTracked s) (habs : S.nodes n = absNode s)
    (hm : Raft.Msg.vote term voter n ∈ S.msgs) :
    ∃ S', Raft.step N S (.recvVote n (.vote term voter n)) = some S' ∧
      S'.nodes n = absNode (onResponseVote c s term now).1 ∧ (∀ k, k ≠ n → S'.nodes k = S.nodes k) ∧
      S'.msgs = S.msgs.erase (.vote term voter n) ++ absOuts n (onResponseVote c s term now).2 := by
  obtain ⟨S', hstep, h1, h2, h3⟩ := step_recvVote N S n term voter hn hm
  obtain ⟨a1, a2⟩ := onResponseVote_abs c s n term now hk
  refine ⟨S', hstep, ?_, h2, ?_⟩
  · rw [h1, habs, a1, hN]
  · rw [h3, a2, List.append_nil]

/-! ## 3. election-timeout branch of `_onTick` ⊑ `timeout` -/

/-- **`tick_election_refines`.**  `dsts` of the model action = `others` (every `request_vote` output). -/
theorem tick_election_refines (c : Config) (s : NodeState) (now rand : Nat) (N n : Nat) (S : Raft.State)
    (hself : s.self = some n) (hn : n < N) (hoth : s.others = Raft.others N n) (hwf : WFLog s.log)
    (hk : KeysTracked s) (hf : ElectionFires s now) (habs : S.nodes n = absNode s) :
    ∃ S', Raft.step N S (.timeout n s.others) = some S' ∧
      S'.nodes n = absNode (electionPhase c s now rand).1 ∧ (∀ k, k ≠ n → S'.nodes k = S.nodes k) ∧
      S'.msgs = S.msgs ++ absOuts n (electionPhase c s now rand).2 := by
  have hN : s.others.length + 1 = N := by rw [hoth, Raft.others_length hn]; omega
  have hd : ∀ d ∈ s.others, d < N ∧ d ≠ n := by
    intro d hd; rw [hoth] at hd; exact Raft.mem_others.mp hd
  have hr : (S.nodes n).role ≠ .leader := by rw [habs]; exact hf.1
  obtain ⟨S', hstep, h1, h2, h3⟩ := step_timeout N S n s.others hn hr hd
  obtain ⟨a1, a2⟩ := electionPhase_abs c s n now rand hself hwf hk hf
  refine ⟨S', hstep, ?_, h2, ?_⟩
  · rw [h1, habs, a1, hN]
  · rw [h3, habs, a2]

/-! ## 4. leader branch of `_onTick` ⊑ `advanceCommit` / `stepDown`;  `__applyLogEntries` ⊑ `apply`ᵏ -/

/-- **`tick_commit_refines`.**  If the leader's tick changes the commit index, the guard of
`advanceCommit n (newCommit − 1)` holds on the abstraction and the step sets `commit := newCommit − 1`. -/
theorem tick_commit_refines (s : NodeState) (N n : Nat) (S : Raft.State) (hn : n < N)
    (hoth : s.others = Raft.others N n) (hwf : WFLog s.log) (hl : s.role = .leader) (hc : 1 ≤ s.commit)
    (h : nextCommit s ≠ s.commit) (habs : S.nodes n = absNode s) :
    CommitGuard N n (absNode s) (nextCommit s - 1) ∧
    Raft.step N S (.advanceCommit n (nextCommit s - 1)) =
      some (Raft.setNode S n { absNode s with commit := nextCommit s - 1 }) := by
  have hg := nextCommit_guard s N n hn hoth hwf hl hc h
  refine ⟨hg, ?_⟩
  have := step_advanceCommit N S n (nextCommit s - 1) (by rw [habs]; exact hg)
  rw [habs] at this
  exact this

/-- **`tick_fallback_refines`.**  Leader → follower in the fallback check is `stepDown`. -/
theorem tick_fallback_refines (N n : Nat) (S : Raft.State) (ns : Raft.NodeSt) (hn : n < N) (hl : ns.role = .leader)
    (habs : S.nodes n = ns) :
    Raft.step N S (.stepDown n) = some (Raft.setNode S n { ns with role := .follower }) := by
  have := step_stepDown N S n ⟨hn, by rw [habs]; exact hl⟩
  rw [habs] at this
  exact this

/-- what a refinement of a handler that only ADDS messages looks like -/
def Refines (N n : Nat) (S : Raft.State) (acts : List Raft.Action) (ns' : Raft.NodeSt) (newMsgs : List Raft.Msg) : Prop :=
  ∃ S', Raft.run N S acts = some S' ∧ S'.nodes n = ns' ∧ (∀ k, k ≠ n → S'.nodes k = S.nodes k) ∧
    S'.msgs = S.msgs ++ newMsgs

theorem Refines.nil (N n : Nat) (S : Raft.State) : Refines N n S [] (S.nodes n) [] :=
  ⟨S, rfl, rfl, fun _ _ => rfl, by simp⟩

theorem Refines.single {N n : Nat} {S S' : Raft.State} {a : Raft.Action} {ns' : Raft.NodeSt} {ms : List Raft.Msg}
    (h : Raft.step N S a = some S') (h1 : S'.nodes n = ns') (h2 : ∀ k, k ≠ n → S'.nodes k = S.nodes k)
    (h3 : S'.msgs = S.msgs ++ ms) : Refines N n S [a] ns' ms :=
  ⟨S', by simp [Raft.run, h], h1, h2, h3⟩

theorem Refines.seq {N n : Nat} {S : Raft.State} {a1 a2 : List Raft.Action} {ns1 ns2 : Raft.NodeSt}
    {m1 m2 : List Raft.Msg} (h1 : Refines N n S a1 ns1 m1)
    (h2 : ∀ S1 : Raft.State, S1.nodes n = ns1 → Refines N n S1 a2 ns2 m2) : Refines N n S (a1 ++ a2) ns2 (m1 ++ m2) := by
  obtain ⟨S1, r1, e1, o1, g1⟩ := h1
  obtain ⟨S2, r2, e2, o2, g2⟩ := h2 S1 e1
  refine ⟨S2, ?_, e2, ?_, ?_⟩
  · rw [Raft.run_append, r1]; exact r2
  · intro k hk; rw [o2 k hk, o1 k hk]
  · rw [g2, g1, List.append_assoc]

/-- the model actions of the leader branch -/
def leaderActs (c : Config) (s : NodeState) (n now : Nat) : List Raft.Action :=
  (if s.role = .leader ∧ nextCommit s ≠ s.commit then [.advanceCommit n (nextCommit s - 1)] else []) ++
  (if s.role = .leader ∧ ¬ isMajority (s.others.length + 1) (freshCount s.others s.lastResponse now c.fallbackT) = true
   then [.stepDown n] else [])

/-- **`tick_leader_refines`**: the leader branch = `advanceCommit` (if the commit index moves) then `stepDown`
(if the fallback check fails). -/
theorem tick_leader_refines (c : Config) (s : NodeState) (now : Nat) (N n : Nat) (S : Raft.State) (hn : n < N)
    (hoth : s.others = Raft.others N n) (hwf : WFLog s.log) (hc : 1 ≤ s.commit) (habs : S.nodes n = absNode s) :
    Refines N n S (leaderActs c s n now) (absNode (leaderPhase c s now).1) (absOuts n (leaderPhase c s now).2) := by
  unfold leaderActs
  by_cases hl : s.role = .leader
  · obtain ⟨a1, a2⟩ := leaderPhase_abs c s n now hl
    rw [a2]
    have hnil : ([] : List Raft.Msg) = [] ++ [] := rfl
    rw [hnil]
    apply Refines.seq (ns1 := { absNode s with commit := nextCommit s - 1 })
    · by_cases h : nextCommit s ≠ s.commit
      · rw [if_pos ⟨hl, h⟩]
        obtain ⟨_, hstep⟩ := tick_commit_refines s N n S hn hoth hwf hl hc h habs
        exact Refines.single hstep (setNode_self _ _ _) (fun k hk => setNode_ne _ _ _ _ hk) (by simp)
      · rw [if_neg (fun g => h g.2)]
        have he : nextCommit s = s.commit := by
          by_cases e : nextCommit s = s.commit
          · exact e
          · exact absurd e h
        have : ({ absNode s with commit := nextCommit s - 1 } : Raft.NodeSt) = S.nodes n := by
          rw [habs, he]; rfl
        rw [this]
        exact Refines.nil N n S
    · intro S1 hS1
      by_cases hfr : isMajority (s.others.length + 1) (freshCount s.others s.lastResponse now c.fallbackT) = true
      · rw [if_neg (fun g => g.2 hfr), a1, if_pos hfr]
        have : ({ absNode s with commit := nextCommit s - 1, role := Role.leader } : Raft.NodeSt) = S1.nodes n := by
          rw [hS1]
          apply nodeSt_ext <;> first | rfl | exact hl.symm
        rw [this]
        exact Refines.nil N n S1
      · rw [if_pos ⟨hl, hfr⟩, a1, if_neg hfr]
        have hstep := tick_fallback_refines N n S1 _ hn (show ({ absNode s with commit := nextCommit s - 1 } : Raft.NodeSt).role = .leader from hl) hS1
        exact Refines.single hstep (setNode_self _ _ _) (fun k hk => setNode_ne _ _ _ _ hk) (by simp)
  · rw [if_neg (fun g => hl g.1), if_neg (fun g => hl g.1), leaderPhase_idle c s now hl]
    have := Refines.nil N n S
    rw [habs] at this
    exact this

theorem absOuts_of_noVote (n : Nat) (outs : List Output) (h : noVote outs) : absOuts n outs = [] := by
  induction outs with
  | nil => rfl
  | cons o rest ih =>
    have h1 : isVoteMsg o = false := h o (List.mem_cons_self ..)
    have h2 : absOuts n rest = [] := ih (fun x hx => h x (List.mem_cons_of_mem _ hx))
    have h3 : absOut n o = [] := by
      cases o <;> first | rfl | cases h1
    show absOut n o ++ absOuts n rest = []
    rw [h2, h3]
    rfl

/-- **`tick_apply_refines`.**  `__applyLogEntries` advancing `lastApplied` by `k` = `k` model `apply` steps (the model
tracks the index only; the state machine is the fold over the applied prefix). -/
theorem tick_apply_refines (c : Config) (s : NodeState) (now : Nat) (N n : Nat) (S : Raft.State)
    (hm : NoMembership s.log) (h1 : 1 ≤ s.lastApplied) (habs : S.nodes n = absNode s) :
    Refines N n S (List.replicate ((applyEntries c s now).1.lastApplied - s.lastApplied) (.apply n))
      (absNode (applyEntries c s now).1) (absOuts n (applyEntries c s now).2.1) := by
  obtain ⟨a1, a2⟩ := applyEntries_abs c s now hm h1
  rw [absOuts_of_noVote n _ (applyEntries_noVote c s now)]
  obtain ⟨S', hr, e1, e2, e3⟩ := run_apply N n ((applyEntries c s now).1.lastApplied - s.lastApplied) S
    (by rw [habs]; exact a2)
  refine ⟨S', hr, ?_, e2, by rw [e3]; simp⟩
  rw [e1, habs, a1]

/-! ## 4'. the whole `_onTick` ⊑ `timeout`? · `advanceCommit`? · `stepDown`? · `apply`ᵏ -/

instance (s : NodeState) (now : Nat) : Decidable (ElectionFires s now) := by
  unfold ElectionFires; infer_instance

/-- the model actions of one `_onTick` of voter `n`, in the order the handler performs them -/
def tickActs (c : Config) (s : NodeState) (n now rand : Nat) : List Raft.Action :=
  (if ElectionFires s now then [.timeout n s.others] else []) ++
  (leaderActs c (electionPhase c s now rand).1 n now ++
   List.replicate ((applyEntries c (leaderPhase c (electionPhase c s now rand).1 now).1 now).1.lastApplied -
      (leaderPhase c (electionPhase c s now rand).1 now).1.lastApplied) (.apply n))

theorem electionPhase_others (c : Config) (s : NodeState) (now rand : Nat) :
    (electionPhase c s now rand).1.others = s.others := by
  rcases electionPhase_cases c s now rand with h | h
  · rw [h]
  · exact h.2.2.2.2.2.1

theorem electionPhase_noMembership (c : Config) (s : NodeState) (now rand : Nat) (hm : NoMembership s.log) :
    NoMembership (electionPhase c s now rand).1.log := by
  rcases electionPhase_log c s now rand with h2 | ⟨i, t, h2⟩
  · rw [h2]; exact hm
  · rw [h2]; exact noMembership_append_noop hm i t

/-- **`tick_refines`.**  One `_onTick` of voter `n` (all modelled phases: election timeout, commit advance, fallback,
apply loop, `onReady`) is the run of `tickActs` in the protocol model: every action is enabled, the model state of
`n` afterwards is the abstraction of the handler's result, nobody else changes, and the message bag grows by the
`request_vote` outputs read as `reqVote` messages. -/
theorem tick_refines (c : Config) (s : NodeState) (now rand : Nat) (N n : Nat) (S : Raft.State)
    (hself : s.self = some n) (hn : n < N) (hoth : s.others = Raft.others N n) (hwf : WFLog s.log)
    (hk : KeysTracked s) (hm : NoMembership s.log) (hc : 1 ≤ s.commit) (ha : 1 ≤ s.lastApplied)
    (habs : S.nodes n = absNode s) :
    Refines N n S (tickActs c s n now rand) (absNode (tick c s now rand).1) (absOuts n (tick c s now rand).2) := by
  have hout : absOuts n (tick c s now rand).2 =
      absOuts n (electionPhase c s now rand).2 ++ (absOuts n (leaderPhase c (electionPhase c s now rand).1 now).2 ++
        absOuts n (applyEntries c (leaderPhase c (electionPhase c s now rand).1 now).1 now).2.1) := by
    rw [tick_snd]
    simp only [absOuts_append]
    have h4 : ∀ s' b, absOuts n (sendPhase s' now b) = [] := by
      intro s' b; unfold sendPhase; split <;> rfl
    have h5 : ∀ s', absOuts n (readyPhase s').2 = [] := by
      intro s'; rcases readyPhase_outputs s' with h | h <;> rw [h] <;> rfl
    rw [h4, h5]
    simp
  have hfst : absNode (tick c s now rand).1 =
      absNode (applyEntries c (leaderPhase c (electionPhase c s now rand).1 now).1 now).1 := by
    rw [tick_fst, readyPhase_abs]
  rw [hout, hfst]
  unfold tickActs
  apply Refines.seq (ns1 := absNode (electionPhase c s now rand).1)
  · by_cases hf : ElectionFires s now
    · rw [if_pos hf]
      obtain ⟨S', hstep, h1, h2, h3⟩ := tick_election_refines c s now rand N n S hself hn hoth hwf hk hf habs
      exact Refines.single hstep h1 h2 h3
    · rw [if_neg hf, electionPhase_idle c s now rand hf]
      have := Refines.nil N n S
      rw [habs] at this
      exact this
  · intro S1 hS1
    apply Refines.seq (ns1 := absNode (leaderPhase c (electionPhase c s now rand).1 now).1)
    · exact tick_leader_refines c _ now N n S1 hn (by rw [electionPhase_others]; exact hoth)
        (electionPhase_wfLog c s now rand hwf) (by rw [electionPhase_commit]; exact hc) hS1
    · intro S2 hS2
      exact tick_apply_refines c _ now N n S2
        (by rw [leaderPhase_log]; exact electionPhase_noMembership c s now rand hm)
        (by rw [leaderPhase_applied, electionPhase_applied]; exact ha) hS2

/-! ## 5. `next_node_idx` ⊑ `recvAck` -/

/-- **`onNextNodeIdx_refines`.**  A `success` reply of term `t` from `frm` with `next_node_idx = next` is the model
message `ack t frm n (next − 2)`; the handler raises `matchIndex[frm]` exactly when / to what `recvAck` does (on
positions).  Replies of another term: `onNextNodeIdx_other_term` (both sides ignore them); `success = False`:
`onNextNodeIdx_fail_abs` (no model action, abstraction unchanged). -/
theorem onNextNodeIdx_refines (s : NodeState) (frm t next now : Nat) (reset : Bool) (N n : Nat) (S : Raft.State)
    (hn : n < N) (hkey : s.role = .leader → (mget s.matchIndex frm).isSome = true)
    (habs : S.nodes n = absNode s) (hm : Raft.Msg.ack t frm n (next - 2) ∈ S.msgs) :
    ∃ S', Raft.step N S (.recvAck n (.ack t frm n (next - 2))) = some S' ∧
      S'.nodes n = absNode (onNextNodeIdx s frm (some t) reset next true now).1 ∧
      (∀ k, k ≠ n → S'.nodes k = S.nodes k) ∧
      S'.msgs = S.msgs.erase (.ack t frm n (next - 2)) ++
        absOuts n (onNextNodeIdx s frm (some t) reset next true now).2 := by
  obtain ⟨S', hstep, h1, h2, h3⟩ := step_recvAck N S n t frm (next - 2) hn hm
  obtain ⟨a1, a2⟩ := onNextNodeIdx_success_abs s n frm t next now reset hkey
  refine ⟨S', hstep, ?_, h2, ?_⟩
  · rw [h1, habs, a1]
  · rw [h3, a2, List.append_nil]

/-! ## 6. the send loop ⊑ `sendAppend` (pipelined, probing, cut) -/

/-- **`sendRun_refines`** = `sendRun_batches_refine` (`BridgeSend.lean`): every batch of a full PIPELINED send run
(destination has confirmed the entry before `nextIndex`: `matchIndex = m ≥ first + p − 1`, repair D62) is an
enabled `sendAppend n d prev k (commit − 1)` creating exactly the batch's model message; a chunk burst is ONE
`sendAppend … 1`; the wire messages read through `absMsgS` are these messages in order. -/
theorem sendRun_refines {first : Nat} {log : List NodeSend.Entry} {p B : Nat} (wf : C11.WF first log p B)
    (term commit : Nat) (snap : List (Option Bool)) (m : Nat) (hm : first + p - 1 ≤ m)
    (ghost : List Raft.Entry) (hgh : ghost.length + 1 = first)
    (N n d : Nat) (hn : n < N) (hd : d ≠ n) :
    ∃ r, NodeSend.sendOne ⟨B, term, commit, none, some m⟩ log (first + p) snap none = .ok r ∧
      r.msgs.filterMap (absMsgS n d) = r.batches.filterMap (absBatch term commit n d) ∧
      ∀ b ∈ r.batches, ∀ S : Raft.State, (S.nodes n).role = .leader → (S.nodes n).term = term →
        (S.nodes n).log = ghost ++ absLogS log → commit - 1 ≤ (S.nodes n).commit →
        ∃ prev m, prev < (S.nodes n).log.length ∧ absBatch term commit n d b = some m ∧
          Raft.step N S (.sendAppend n d prev b.entries.length (commit - 1)) = some { S with msgs := S.msgs ++ [m] } :=
  sendRun_batches_refine wf term commit snap m hm ghost hgh N n d hn hd

/-- **`sendRun_probe_refines`** = `sendRun_probe_refine`: a full PROBING run (`matchIndex = m < first + p − 1`) is
exactly ONE enabled `sendAppend`: one batch `b` = the first byte-budget batch (the empty heartbeat when up to date),
`nextIndex` right after it, the wire messages read as the one message `absBatch b`. -/
theorem sendRun_probe_refines {first : Nat} {log : List NodeSend.Entry} {p B : Nat} (wf : C11.WF first log p B)
    (term commit : Nat) (snap : List (Option Bool)) (m : Nat) (hm : m < first + p - 1)
    (ghost : List Raft.Entry) (hgh : ghost.length + 1 = first)
    (N n d : Nat) (hn : n < N) (hd : d ≠ n) :
    ∃ r b, NodeSend.sendOne ⟨B, term, commit, none, some m⟩ log (first + p) snap none = .ok r ∧
      r.batches = [b] ∧ b.entries = NodeSend.takeBytes B 0 (log.drop p) ∧ r.next = first + p + b.entries.length ∧
      r.msgs.filterMap (absMsgS n d) = (absBatch term commit n d b).toList ∧
      ∀ S : Raft.State, (S.nodes n).role = .leader → (S.nodes n).term = term →
        (S.nodes n).log = ghost ++ absLogS log → commit - 1 ≤ (S.nodes n).commit →
        ∃ prev m', prev < (S.nodes n).log.length ∧ absBatch term commit n d b = some m' ∧
          Raft.step N S (.sendAppend n d prev b.entries.length (commit - 1)) = some { S with msgs := S.msgs ++ [m'] } :=
  sendRun_probe_refine wf term commit snap m hm ghost hgh N n d hn hd

/-! ## non-vacuity: every theorem above has an instance in which its handler does something -/

section Examples

def exCfg : Config := { fallbackT := 2048, minT := 512, maxT := 1536, useBatch := true, selfVer := 0 }

def exLog : List Entry := [⟨.noop, 1, 0⟩, ⟨.noop, 2, 2⟩, ⟨.regular 7 false, 3, 2⟩]

/-- voter 0 of 3, follower in term 2, entries 1..3, commit 2, applied 1, election deadline 5000 -/
def exFollower : NodeState :=
  { self := some 0, role := .follower, term := 2, votedFor := none, votes := 0, leader := some 1,
    electionDeadline := 5000, others := [1, 2], readonly := [], connected := [1, 2], log := exLog,
    commit := 2, lastApplied := 1, matchIndex := [], nextIndex := [], lastResponse := [],
    waiting := [], waitingReply := [], sm := [], enabledVer := 0, leaderCommit := none,
    readyCalled := true, newAppendTime := 0, noopIdx := none }

/-- the same node as candidate of term 3 holding its own vote -/
def exCandidate : NodeState :=
  { exFollower with role := .candidate, term := 3, votedFor := some 0, votes := 1, leader := none }

/-- the same node as leader of term 2: follower 1 confirmed index 3, follower 2 index 2; heard from both at 9500 -/
def exLeader : NodeState :=
  { exFollower with role := .leader, votedFor := some 0, votes := 2, leader := some 0, lastApplied := 2,
                    matchIndex := [(1, 3), (2, 2)], nextIndex := [(1, 4), (2, 3)],
                    lastResponse := [(1, 9500), (2, 9500)], noopIdx := some 2 }

def exState (s : NodeState) (msgs : List Raft.Msg) : Raft.State := { nodes := fun _ => absNode s, msgs := msgs }

theorem exLog_wf : WFLog exLog := by
  refine ⟨by decide, ?_⟩
  intro j hj
  match j, hj with
  | 0, _ => rfl
  | 1, _ => rfl
  | 2, _ => rfl
  | k + 3, hk => exact absurd hk (by simp [exLog])

theorem exLog_noMembership : NoMembership exLog := by
  intro e he
  simp only [exLog, List.mem_cons, List.not_mem_nil, or_false] at he
  rcases he with h | h | h <;> subst h <;> rfl

theorem ex_keysTracked_nil (s : NodeState) (h : s.matchIndex = []) : KeysTracked s := by
  intro j _; rw [h]; rfl

theorem exOthers : exFollower.others = Raft.others 3 0 := by decide

/-- 1. `request_vote` of term 3 from voter 1 with last entry (3, term 2): the vote is granted. -/
example : ∃ S', Raft.step 3 (exState exFollower [.reqVote 3 1 0 2 2]) (.recvReqVote 0 (.reqVote 3 1 0 (3 - 1) 2)) = some S' ∧
      S'.nodes 0 = absNode (onRequestVote exCfg exFollower 1 3 3 2 100 0).1 ∧
      (∀ k, k ≠ 0 → S'.nodes k = (exState exFollower [.reqVote 3 1 0 2 2]).nodes k) ∧
      S'.msgs = (exState exFollower [.reqVote 3 1 0 2 2]).msgs.erase (.reqVote 3 1 0 (3 - 1) 2) ++
        absOuts 0 (onRequestVote exCfg exFollower 1 3 3 2 100 0).2 :=
  onRequestVote_refines exCfg exFollower 1 3 3 2 100 0 3 0 _ rfl (by decide) (by decide) (by decide) exLog_wf
    (by decide) rfl (by decide)

example : (onRequestVote exCfg exFollower 1 3 3 2 100 0).2 = [.responseVote 1 3] ∧
    GrantCond (absNode exFollower) 3 (3 - 1) 2 := by decide

/-- 2. the second vote of term 3 makes the candidate leader (2 of 3). -/
example : ∃ S', Raft.step 3 (exState exCandidate [.vote 3 1 0]) (.recvVote 0 (.vote 3 1 0)) = some S' ∧
      S'.nodes 0 = absNode (onResponseVote exCfg exCandidate 3 100).1 ∧
      (∀ k, k ≠ 0 → S'.nodes k = (exState exCandidate [.vote 3 1 0]).nodes k) ∧
      S'.msgs = (exState exCandidate [.vote 3 1 0]).msgs.erase (.vote 3 1 0) ++
        absOuts 0 (onResponseVote exCfg exCandidate 3 100).2 :=
  onResponseVote_refines exCfg exCandidate 3 100 3 0 1 _ (by decide) (by decide) (ex_keysTracked_nil _ rfl) rfl
    (by decide)

example : (onResponseVote exCfg exCandidate 3 100).1.role = .leader ∧
    (onResponseVote exCfg exCandidate 3 100).1.log = exLog ++ [⟨.noop, 4, 3⟩] := by decide

/-- 3. the follower's election deadline (5000) has passed at 6000: election of term 3, two `request_vote`s. -/
example : ∃ S', Raft.step 3 (exState exFollower []) (.timeout 0 exFollower.others) = some S' ∧
      S'.nodes 0 = absNode (electionPhase exCfg exFollower 6000 0).1 ∧
      (∀ k, k ≠ 0 → S'.nodes k = (exState exFollower []).nodes k) ∧
      S'.msgs = (exState exFollower []).msgs ++ absOuts 0 (electionPhase exCfg exFollower 6000 0).2 :=
  tick_election_refines exCfg exFollower 6000 0 3 0 _ rfl (by decide) exOthers exLog_wf (ex_keysTracked_nil _ rfl)
    (by decide) rfl

example : absOuts 0 (electionPhase exCfg exFollower 6000 0).2 = [.reqVote 3 0 1 2 2, .reqVote 3 0 2 2 2] := by decide

/-- 4a. the leader's tick raises the commit index 2 → 3 (followers confirmed 3 and 2; entry 3 is of term 2). -/
example : nextCommit exLeader = 3 ∧ CommitGuard 3 0 (absNode exLeader) (nextCommit exLeader - 1) ∧
    Raft.step 3 (exState exLeader []) (.advanceCommit 0 (nextCommit exLeader - 1)) =
      some (Raft.setNode (exState exLeader []) 0 { absNode exLeader with commit := nextCommit exLeader - 1 }) := by
  have h := tick_commit_refines exLeader 3 0 (exState exLeader []) (by decide) exOthers exLog_wf rfl (by decide)
    (by decide) rfl
  exact ⟨by decide, h.1, h.2⟩

/-- 4b. at 12000 both followers were last heard at 9500 (T = 2048): the leader falls back = `stepDown`. -/
example : (leaderPhase exCfg exLeader 12000).1.role = .follower ∧
    leaderActs exCfg exLeader 0 12000 = [.advanceCommit 0 2, .stepDown 0] := ⟨by decide, by rfl⟩

example : Refines 3 0 (exState exLeader []) (leaderActs exCfg exLeader 0 12000)
    (absNode (leaderPhase exCfg exLeader 12000).1) (absOuts 0 (leaderPhase exCfg exLeader 12000).2) :=
  tick_leader_refines exCfg exLeader 12000 3 0 _ (by decide) exOthers exLog_wf (by decide) rfl

/-- 4c. the follower applies entry 2 (commit 2, applied 1): one model `apply`. -/
example : (applyEntries exCfg exFollower 100).1.lastApplied - exFollower.lastApplied = 1 := by decide

example : Refines 3 0 (exState exFollower [])
    (List.replicate ((applyEntries exCfg exFollower 100).1.lastApplied - exFollower.lastApplied) (.apply 0))
    (absNode (applyEntries exCfg exFollower 100).1) (absOuts 0 (applyEntries exCfg exFollower 100).2.1) :=
  tick_apply_refines exCfg exFollower 100 3 0 _ exLog_noMembership (by decide) rfl

/-- 4'. a whole leader tick at 10000: commit 2 → 3, stays leader, applies entry 3. -/
example : tickActs exCfg exLeader 0 10000 0 = [.advanceCommit 0 2, .apply 0] := by rfl

example : Refines 3 0 (exState exLeader []) (tickActs exCfg exLeader 0 10000 0)
    (absNode (tick exCfg exLeader 10000 0).1) (absOuts 0 (tick exCfg exLeader 10000 0).2) :=
  tick_refines exCfg exLeader 10000 0 3 0 _ rfl (by decide) exOthers exLog_wf
    (by
      intro j hj
      have h1 : j ≠ 1 := fun e => hj (by rw [e]; decide)
      have h2 : j ≠ 2 := fun e => hj (by rw [e]; decide)
      show mget [(1, 3), (2, 2)] j = none
      simp [mget, Ne.symm h1, Ne.symm h2])
    exLog_noMembership (by decide) (by decide) rfl

/-- … and a whole follower tick at 6000: election of term 3 and one apply. -/
example : tickActs exCfg exFollower 0 6000 0 = [.timeout 0 [1, 2], .apply 0] := by rfl

/-- 5. follower 2 confirms index 3 (`next_node_idx = 4` ↦ `ack 2 2 0 2`): match position 1 → 2. -/
example : ∃ S', Raft.step 3 (exState exLeader [.ack 2 2 0 2]) (.recvAck 0 (.ack 2 2 0 (4 - 2))) = some S' ∧
      S'.nodes 0 = absNode (onNextNodeIdx exLeader 2 (some 2) false 4 true 9000).1 ∧
      (∀ k, k ≠ 0 → S'.nodes k = (exState exLeader [.ack 2 2 0 2]).nodes k) ∧
      S'.msgs = (exState exLeader [.ack 2 2 0 2]).msgs.erase (.ack 2 2 0 (4 - 2)) ++
        absOuts 0 (onNextNodeIdx exLeader 2 (some 2) false 4 true 9000).2 :=
  onNextNodeIdx_refines exLeader 2 2 4 9000 false 3 0 _ (by decide) (fun _ => by decide) rfl (by decide)

example : (absNode exLeader).matchIdx 2 = 1 ∧
    (absNode (onNextNodeIdx exLeader 2 (some 2) false 4 true 9000).1).matchIdx 2 = 2 := by decide

/-- 6. send run over a log with an over-sized (chunked: 250 ≥ B = 100) and a small entry: two batches (a chunk
burst of 4 messages and a regular message), two model messages. -/
def exLogS : List NodeSend.Entry :=
  [⟨⟨.noop, 0, 1, 54⟩, 1, 0⟩, ⟨⟨.regular, 1, 250, 54⟩, 2, 1⟩, ⟨⟨.regular, 2, 40, 54⟩, 3, 1⟩]

theorem exLogS_wf : C11.WF 1 exLogS 1 100 :=
  ⟨by simp [exLogS], by
    intro i e he
    match i, he with
    | 0, he => cases he; rfl
    | 1, he => cases he; rfl
    | 2, he => cases he; rfl
    | n + 3, he => simp [exLogS] at he, by omega, by simp [exLogS], by omega, by
    intro e he; simp [exLogS] at he; rcases he with h | h | h <;> subst h <;> simp⟩

example := sendRun_refines exLogS_wf 1 2 [] 1 (by decide) [] rfl 3 0 1 (by decide) (by decide)

example : (match NodeSend.sendOne ⟨100, 1, 2, none, some 1⟩ exLogS (1 + 1) [] none with
    | .ok r => r.batches.filterMap (absBatch 1 2 0 1)
    | .error _ => []) =
    [.append 1 0 1 0 0 [⟨1, 1⟩] 1, .append 1 0 1 1 1 [⟨1, 2⟩] 1] := by decide

example : (match NodeSend.sendOne ⟨100, 1, 2, none, some 1⟩ exLogS (1 + 1) [] none with
    | .ok r => (r.msgs.length, r.msgs.filterMap (absMsgS 0 1))
    | .error _ => (0, [])) =
    (5, [.append 1 0 1 0 0 [⟨1, 1⟩] 1, .append 1 0 1 1 1 [⟨1, 2⟩] 1]) := by decide

/-- 6'. the same run cut by the clock after one iteration and by a disconnect at the second `transport.send`:
one batch (the chunked entry), two of its four chunks on the wire, still an enabled `sendAppend … 1`. -/
example := sendRun_cut_refines exLogS_wf 1 2 [] (some 1) (some 2) 1 [] rfl 3 0 1 (by decide) (by decide)

example : (match NodeSend.sendOne ⟨100, 1, 2, some 2, some 1⟩ exLogS (1 + 1) [] (some 1) with
    | .ok r => (r.msgs.length, r.batches.filterMap (absBatch 1 2 0 1))
    | .error _ => (0, [])) = (2, [.append 1 0 1 0 0 [⟨1, 1⟩] 1]) := by decide

/-- 6''. a probing run (the destination has confirmed nothing: `matchIndex = 0 < 1`): exactly one batch — the
chunked entry — = one model message, although the log holds two unsent entries (D62). -/
example := sendRun_probe_refines exLogS_wf 1 2 [] 0 (by decide) [] rfl 3 0 1 (by decide) (by decide)

example : (match NodeSend.sendOne ⟨100, 1, 2, none, some 0⟩ exLogS (1 + 1) [] none with
    | .ok r => (r.next, r.msgs.length, r.msgs.filterMap (absMsgS 0 1))
    | .error _ => (0, 0, [])) = (3, 4, [.append 1 0 1 0 0 [⟨1, 1⟩] 1]) := by decide

/-- 3'. a single-voter cluster: the election-timeout branch makes the node leader at once (`isMajority 1 1`). -/
def exSingle : NodeState := { exFollower with others := [], connected := [] }

example : ∃ S', Raft.step 1 (exState exSingle []) (.timeout 0 exSingle.others) = some S' ∧
      S'.nodes 0 = absNode (electionPhase exCfg exSingle 6000 0).1 ∧
      (∀ k, k ≠ 0 → S'.nodes k = (exState exSingle []).nodes k) ∧
      S'.msgs = (exState exSingle []).msgs ++ absOuts 0 (electionPhase exCfg exSingle 6000 0).2 :=
  tick_election_refines exCfg exSingle 6000 0 1 0 _ rfl (by decide) (by decide) exLog_wf (ex_keysTracked_nil _ rfl)
    (by decide) rfl

example : (electionPhase exCfg exSingle 6000 0).1.role = .leader ∧
    (electionPhase exCfg exSingle 6000 0).1.log = exLog ++ [⟨.noop, 4, 3⟩] := by decide

/-! ### 7. follower side of `append_entries` (`BridgeFollower.lean`) -/

/-- follower 1 of 3: journal `exLogS` (indices 1..3, terms 0, 1, 1), term 1, commit 1 -/
def exFollowerS : NodeSend.Node :=
  { self := some 1, role := .follower, term := 1, leader := some 0, log := exLogS, commit := 1, lastApplied := 1,
    members := [0, 2] }

def exExtra : NodeSend.Extra := { votedFor := none, votes := 0 }

def exE4 : NodeSend.Entry := ⟨⟨.regular, 3, 10, 54⟩, 4, 1⟩
def exE2' : NodeSend.Entry := ⟨⟨.regular, 9, 10, 54⟩, 2, 2⟩

/-- what the examples look at: journal (index, term), commit, term, role is follower, model messages of the outputs -/
def exView (r : NodeSend.Extra × NodeSend.Node × Except NodeSend.Err (List NodeSend.Out)) :
    List (Nat × Nat) × Nat × Nat × List Raft.Msg :=
  match r with
  | (_, s', .ok outs) => (s'.log.map (fun e => (e.idx, e.term)), s'.commit, s'.term, absOutsS 1 outs)
  | (_, _, .error _) => ([], 0, 0, [])

def exStateS : Raft.State :=
  { nodes := fun _ => absNodeS [] exExtra exFollowerS, msgs := [.append 1 0 1 (3 - 1) 1 (absLogS [exE4]) (3 - 1)] }

/-- extend: prev = (3, term 1), one new entry, leader commit 3: log 1..4, commit 1 → 3, `ack … 3`. -/
example := appendEntries_refines {} rfl exExtra exFollowerS 0 1 3 [] rfl (by simp [exFollowerS, exLogS]) exLogS_wf.idx
    3 1 [exE4] (by decide) (by decide) 3 1 exStateS rfl (by decide)

example : exView (NodeSend.appendEntriesEnv {} exExtra exFollowerS 0 1 3 { prev := some (3, 1), entries := [exE4] }) =
    ([(1, 0), (2, 1), (3, 1), (4, 1)], 3, 1, [.ack 1 1 0 3]) := by decide

/-- heartbeat (no entries) of a higher term 2: term adopted, commit 1 → 2, `ack 2 1 0 2`. -/
example : exView (NodeSend.appendEntriesEnv {} exExtra exFollowerS 0 2 2 { prev := some (3, 1), entries := [] }) =
    ([(1, 0), (2, 1), (3, 1)], 2, 2, [.ack 2 1 0 2]) := by decide

/-- duplicate delivery (entries 2, 3 already present): journal unchanged, acknowledged again. -/
example : exView (NodeSend.appendEntriesEnv {} exExtra exFollowerS 0 1 1
      { prev := some (1, 0), entries := [exLogS[1], exLogS[2]] }) =
    ([(1, 0), (2, 1), (3, 1)], 1, 1, [.ack 1 1 0 2]) := by decide

/-- conflict: entry 2 of term 2 replaces entries 2, 3 of term 1 (truncate + append). -/
example : exView (NodeSend.appendEntriesEnv {} exExtra exFollowerS 0 2 1 { prev := some (1, 0), entries := [exE2'] }) =
    ([(1, 0), (2, 2)], 1, 2, [.ack 2 1 0 1]) := by decide

/-- prev term mismatch / prev missing / stale term: journal and commit unchanged, no model message
(term adopted in the first two, nothing at all for the stale message). -/
example : exView (NodeSend.appendEntriesEnv {} exExtra exFollowerS 0 2 3 { prev := some (3, 5), entries := [exE4] }) =
      ([(1, 0), (2, 1), (3, 1)], 1, 2, []) ∧
    exView (NodeSend.appendEntriesEnv {} exExtra exFollowerS 0 2 3 { prev := some (7, 1), entries := [exE4] }) =
      ([(1, 0), (2, 1), (3, 1)], 1, 2, []) ∧
    exView (NodeSend.appendEntriesEnv {} exExtra exFollowerS 0 0 3 { prev := some (3, 1), entries := [exE4] }) =
      ([(1, 0), (2, 1), (3, 1)], 1, 1, []) := by decide

/-- a chunk burst for `exE4` (batch 20 < pickled length 64): `start`/`process` chunks = `observeTerm`, the `finish`
chunk = ONE `recvAppend` with the entry: journal 1..4 at the end. -/
example : (match NodeSend.followerRun {} 0 exFollowerS
      (NodeSend.render 20 1 3 (.chunked (some (3, 1)) exE4)) with
    | .ok (s', o) => (s'.log.map (fun e => (e.idx, e.term)), absOutsS 1 o)
    | .error _ => ([], [])) = ([(1, 0), (2, 1), (3, 1), (4, 1)], [.ack 1 1 0 3]) := by decide

example := appendEntries_chunk_refines {} exExtra exFollowerS 0 1 3 [] (by simp [exFollowerS, exLogS]) exLogS_wf.idx
    (some (3, 1)) .start (NodeSend.slice (NodeSend.pickleEntry exE4) 0 20) _ rfl (by decide) 3 1
    { nodes := fun _ => absNodeS [] exExtra exFollowerS } rfl

/-! ### 8. queue dispatch of a leader (`BridgeLeader.lean`) -/

def exLeaderS : NodeSend.Node :=
  { self := some 0, role := .leader, term := 1, leader := some 0, log := exLogS, commit := 1, lastApplied := 1,
    members := [1, 2], noopIdx := some 2 }

/-- a regular command with a local callback is accepted: entry (4, term 1) appended = `clientAppend 0 7`. -/
example : (match NodeSend.leaderDispatch {} exLeaderS ⟨.regular, 7, 10, 54⟩ (.loc 41) with
    | .ok (s', _, _) => s'.log.map (fun e => (e.idx, e.term, e.cmd.id))
    | .error _ => []) = [(1, 0, 0), (2, 1, 1), (3, 1, 2), (4, 1, 7)] := by decide

example : ∀ s' o br, NodeSend.leaderDispatch {} exLeaderS ⟨.regular, 7, 10, 54⟩ (.loc 41) = .ok (s', o, br) →
    br ≠ .denied ∧ ∃ S', Raft.step 3 { nodes := fun _ => absNodeS [] exExtra exLeaderS } (.clientAppend 0 7) = some S' ∧
      S'.nodes 0 = absNodeS [] exExtra s' ∧
      (∀ k, k ≠ 0 → S'.nodes k = ({ nodes := fun _ => absNodeS [] exExtra exLeaderS } : Raft.State).nodes k) ∧
      S'.msgs = ({ nodes := fun _ => absNodeS [] exExtra exLeaderS } : Raft.State).msgs :=
  fun s' o br h => leaderDispatch_refines {} [] exExtra exLeaderS s' ⟨.regular, 7, 10, 54⟩ (.loc 41) o br
    (Or.inl rfl) rfl 3 0 _ (by decide) rfl h

/-- a follower forwards the command: abstraction unchanged. -/
example : absNodeS [] exExtra (NodeSend.followerDispatch exFollowerS ⟨.regular, 7, 10, 54⟩ (.loc 41)).1 =
    absNodeS [] exExtra exFollowerS := followerDispatch_abs [] exExtra exFollowerS _ _

/-! ### 9. snapshot messages (`BridgeSnapshot.lean`) -/

def exPrevE : NodeSend.Entry := ⟨⟨.regular, 3, 10, 54⟩, 4, 1⟩
def exLastE : NodeSend.Entry := ⟨⟨.regular, 4, 10, 54⟩, 5, 1⟩
/-- the sender's entries 1..3 (the new ghost) -/
def exGhost' : List Raft.Entry := absLogS exLogS
def exPfx : List Raft.Entry := exGhost' ++ absLogS [exPrevE, exLastE]

/-- journal (index, term), lastApplied, commit, term, model messages of the outputs -/
def exViewM (r : NodeSend.Extra × NodeSend.Node × Except NodeSend.Err (List NodeSend.Out) × NodeSend.EnvObs) :
    List (Nat × Nat) × Nat × Nat × Nat × List Raft.Msg :=
  match r with
  | (_, s', .ok outs, _) => (s'.log.map (fun e => (e.idx, e.term)), s'.lastApplied, s'.commit, s'.term, absOutsS 1 outs)
  | (_, _, .error _, _) => ([], 0, 0, 0, [])

/-- INSTALL: the follower (journal 1..3, applied 1) gets the snapshot of index 5 with leader commit 6:
journal := entries 4, 5; applied 5; commit 5; `ack 1 1 0 4`; model log := `pfx`. -/
example := snapshot_refines {} rfl exExtra exFollowerS 0 1 6 [] exGhost' rfl (by simp [exFollowerS, exLogS])
    exLogS_wf.idx exPrevE exLastE [] exPfx (by decide) (by decide) (by decide) rfl 3 1
    { nodes := fun _ => absNodeM [] exExtra exFollowerS, msgs := [.snapshot 1 0 1 (5 - 1) 1 (6 - 1) exPfx] } rfl
    (List.mem_cons_self ..)

example : snapKeeps exFollowerS exLastE = false ∧
    exViewM (NodeSend.appendMsgEnv {} exExtra exFollowerS 0 1 6 (.snapshot (.complete exPrevE exLastE []))) =
      ([(4, 1), (5, 1)], 5, 5, 1, [.ack 1 1 0 4]) := by decide

/-- KEEP, already applied: a node that has applied 3 gets a snapshot of index 2: journal kept, acknowledged. -/
example : snapKeeps { exFollowerS with lastApplied := 3, commit := 3 } exLogS[1] = true ∧
    exViewM (NodeSend.appendMsgEnv {} exExtra { exFollowerS with lastApplied := 3, commit := 3 } 0 1 3
      (.snapshot (.complete exLogS[0] exLogS[1] []))) = ([(1, 0), (2, 1), (3, 1)], 3, 3, 1, [.ack 1 1 0 1]) := by decide

/-- KEEP, last entry held: the snapshot of index 3 (term 1) — the follower holds entry 3 of term 1, unapplied. -/
example : snapKeeps exFollowerS exLogS[2] = true ∧
    exViewM (NodeSend.appendMsgEnv {} exExtra exFollowerS 0 1 3 (.snapshot (.complete exLogS[1] exLogS[2] []))) =
      ([(1, 0), (2, 1), (3, 1)], 1, 3, 1, [.ack 1 1 0 2]) := by decide

example := snapshot_refines {} rfl exExtra exFollowerS 0 1 3 [] [] rfl (by simp [exFollowerS, exLogS])
    exLogS_wf.idx exLogS[1] exLogS[2] [] ([] ++ absLogS [exLogS[1], exLogS[2]]) (by decide) (by decide) (by decide) rfl 3 1
    { nodes := fun _ => absNodeM [] exExtra exFollowerS,
      msgs := [.snapshot 1 0 1 (3 - 1) 1 (3 - 1) ([] ++ absLogS [exLogS[1], exLogS[2]])] } rfl (List.mem_cons_self ..)

/-- PARTIAL chunk of a higher term 2: term adopted (= `observeTerm 1 2`), nothing else, no reply. -/
example := snapshot_partial_refines {} exExtra exFollowerS 0 2 6 [] .notLast (by intro p l c h; cases h) (by decide) 3 1
    { nodes := fun _ => absNodeM [] exExtra exFollowerS } rfl

example : exViewM (NodeSend.appendMsgEnv {} exExtra exFollowerS 0 2 6 (.snapshot .notLast)) =
    ([(1, 0), (2, 1), (3, 1)], 1, 1, 2, []) := by decide

/-- **F7 `snapshot_commit_lags`.**  Install of the snapshot of index 5 from a message whose `commit_index` is 2: the
real node ends with `lastApplied = 5`, `commitIndex = 2`.  On `commit − 1` (`absNodeS`) that is position 1, whereas
the protocol model's install sets `commit := max commit' 4 = 4`; `max(commit, lastApplied) − 1` (`absNodeM`) gives 4. -/
theorem snapshot_commit_lags :
    exViewM (NodeSend.appendMsgEnv {} exExtra exFollowerS 0 1 2 (.snapshot (.complete exPrevE exLastE []))) =
      ([(4, 1), (5, 1)], 5, 2, 1, [.ack 1 1 0 4]) ∧
    (snapNode (absNodeS [] exExtra exFollowerS) 1 4 1 (2 - 1) exPfx).1.commit = 4 ∧
    (absNodeS exGhost' exExtra
      (NodeSend.appendMsgEnv {} exExtra exFollowerS 0 1 2 (.snapshot (.complete exPrevE exLastE []))).2.1).commit = 1 ∧
    (absNodeM exGhost' exExtra
      (NodeSend.appendMsgEnv {} exExtra exFollowerS 0 1 2 (.snapshot (.complete exPrevE exLastE []))).2.1).commit = 4 := by
  decide

end Examples

/-! ## the hypotheses are needed: where the handler model is more general than the protocol model -/

section Findings

/-- **F1 (`1 ≤ li`).**  A `request_vote` with `last_log_index = 0` (no real node sends it: every journal holds the
initial entry) is REFUSED by the handler (`0 < lastIdx`) but GRANTED by the protocol model on the message
`reqVote t c n (0 − 1) lt` (truncated subtraction: position 0 = index 1).  Both sides agree for every `li ≥ 1`. -/
theorem request_vote_li_zero_differs :
    let s : NodeState := { exFollower with log := [⟨.noop, 1, 0⟩], term := 0, commit := 1, lastApplied := 1 }
    (onRequestVote exCfg s 1 1 0 0 100 0).2 = [] ∧ (voteNode (absNode s) 1 1 (0 - 1) 0).2 = true := by decide

/-- **F2 (match-index key present).**  A `success` reply from a node the leader does not track raises `KeyError` in
the real handler (`Output.keyError`; nothing changes) while the protocol model's `recvAck` counts it. -/
theorem ack_untracked_differs :
    let s : NodeState := { exLeader with matchIndex := [(1, 3)] }
    (onNextNodeIdx s 2 (some 2) false 4 true 9000).2 = [.keyError] ∧
    (absNode (onNextNodeIdx s 2 (some 2) false 4 true 9000).1).matchIdx 2 = 0 ∧
    (ackNode (absNode s) 2 2 (4 - 2)).matchIdx 2 = 2 := by decide

/-- **F3 (`1 ≤ commit`).**  With the (unreal) commit index 0 a commit advance to index 1 is invisible on positions
(`0 − 1 = 1 − 1 = 0`): the guard `commit < i` of `advanceCommit` fails although the abstraction does not move. -/
theorem commit_zero_no_guard :
    let s : NodeState := { exLeader with commit := 0, lastApplied := 0, log := [⟨.noop, 1, 2⟩], matchIndex := [(1, 1), (2, 1)] }
    nextCommit s = 1 ∧ ¬ CommitGuard 3 0 (absNode s) (nextCommit s - 1) ∧
    (absNode s).commit = nextCommit s - 1 := by
  refine ⟨by decide, ?_, by decide⟩
  intro h
  exact absurd h.2.2.1 (by decide)

end Findings

end PSO.Bridge
