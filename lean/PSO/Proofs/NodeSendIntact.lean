import PSO.Proofs.NodeSendChunks
import PSO.Proofs.NodeSendBatches
import PSO.Proofs.NodeSendMembership

/-! # The follower rebuilds exactly the leader's entries from the messages of one send run (C11) -/
namespace PSO.NodeSend

/-! ## totality of the membership application on a non-empty log -/

theorem lastIdx_some_of_ne {l : List Entry} (h : l ≠ []) : ∃ x, lastIdx? l = some x := by
  unfold lastIdx?
  cases hl : l.getLast? with
  | none => rw [List.getLast?_eq_none_iff] at hl; exact absurd hl h
  | some e => exact ⟨e.idx, rfl⟩

theorem doChange_ok {s : Node} (k : Kind) (r : Bool) (h : s.log ≠ []) : ∃ res, doChange s k r = .ok res := by
  obtain ⟨x, hx⟩ := lastIdx_some_of_ne h
  unfold doChange
  split
  · exact ⟨_, rfl⟩
  · simp only []
    split
    · exact ⟨_, rfl⟩
    · split
      · simp only [hx]; exact ⟨_, rfl⟩
      · exact ⟨_, rfl⟩

theorem applyChanges_ok (rev : Bool) (L : List Entry) : ∀ {s : Node}, s.log ≠ [] → ∃ res, applyChanges s rev L = .ok res := by
  induction L with
  | nil => intro s _; exact ⟨_, rfl⟩
  | cons e r ih =>
    intro s h
    unfold applyChanges
    split
    · exact ih h
    · rename_i k _
      obtain ⟨⟨s1, ch, o1⟩, hd⟩ := doChange_ok (s := s) k rev h
      simp only [hd]
      have hs := doChange_spec hd
      obtain ⟨⟨s2, o2⟩, ha⟩ := ih (s := s1) (by rw [hs.2.2.1]; exact h)
      simp only [ha]
      exact ⟨_, rfl⟩

theorem doChange_recvBuf {s s' : Node} {k : Kind} {r ch : Bool} {o : List Out}
    (h : doChange s k r = .ok (s', ch, o)) : s'.recvBuf = s.recvBuf := by
  unfold doChange at h
  split at h
  · cases h; rfl
  · simp only [] at h
    split at h
    · cases h; rfl
    · split at h
      · split at h
        · simp at h
        · cases h; rfl
      · cases h; rfl

theorem applyChanges_recvBuf {rev : Bool} (L : List Entry) :
    ∀ {a b : Node} {o : List Out}, applyChanges a rev L = .ok (b, o) → b.recvBuf = a.recvBuf := by
  induction L with
  | nil => intro a b o hh; simp [applyChanges] at hh; rw [← hh.1]
  | cons e r ih =>
    intro a b o hh
    unfold applyChanges at hh
    split at hh
    · exact ih hh
    · split at hh
      · simp at hh
      · rename_i s1 ch o1 hdc
        split at hh
        · simp at hh
        · rename_i s2 o2 ha2
          simp at hh
          rw [← hh.1, ih ha2, doChange_recvBuf hdc]

/-! ## one `append_entries` message that continues the follower's log -/

theorem getEntries_last {ff : Nat} {F : List Entry} (hne : F ≠ []) (h : IdxOK ff F) {pe : Entry} (hpe : F.getLast? = some pe) :
    getEntries F (some (ff + F.length - 1)) none none = some [pe] := by
  have hlen : 1 ≤ F.length := List.length_pos_iff.mpr hne
  have : ff + F.length - 1 = ff + (F.length - 1) := by omega
  rw [this, getEntries_from hne h]
  simp only []
  have hd : F.drop (F.length - 1) = [pe] := by
    rw [List.getLast?_eq_getElem?] at hpe
    have hlt : F.length - 1 < F.length := by omega
    rw [List.drop_eq_getElem_cons hlt]
    rw [List.getElem?_eq_getElem hlt] at hpe
    cases hpe
    have : F.length - 1 + 1 = F.length := by omega
    simp [this]
  rw [hd]

theorem ackNext_snoc (l : List Out) (d n t : Nat) (r : Bool) :
    ackNext (l ++ [Out.send d (.nextNodeIdx n r true t)]) = some n := by
  induction l with
  | nil => simp [ackNext]
  | cons a t ih => simp [ackNext, ih]

theorem ackNext_append_some (o1 : List Out) {o2 : List Out} {n : Nat} (h : ackNext o2 = some n) :
    ackNext (o1 ++ o2) = some n := by
  induction o1 with
  | nil => simpa using h
  | cons a t ih => simp [ackNext, ih]

theorem matchedCount_nil (es : List Entry) : matchedCount [] es = 0 := by cases es <;> rfl

theorem followerRunA_cons (cfg : Conf) (src : Nat) (s : Node) (am : AppendMsg) (rest : List AppendMsg) :
    followerRunA cfg src s (am :: rest) =
      match followerAppend cfg s src am with
      | (_, .error e) => .error e
      | (s1, .ok o1) =>
        match followerRunA cfg src s1 rest with
        | .error e => .error e
        | .ok (s2, o2) => .ok (s2, o1 ++ o2) := by
  rw [followerRunA]
  cases followerAppend cfg s src am with
  | mk s1 r =>
    cases r with
    | error e => rfl
    | ok o1 =>
      cases followerRunA cfg src s1 rest with
      | error e => rfl
      | ok p => rfl

/-- a regular message whose `prev` is the follower's last entry appends its entries -/
theorem followerAppend_extend (cfg : Conf) (s : Node) (src : Nat) {ff : Nat} (hne : s.log ≠ []) (h : IdxOK ff s.log)
    {pe : Entry} (hpe : s.log.getLast? = some pe) (es : List Entry) :
    ∃ s' o, followerAppend cfg s src { prev := some (ff + s.log.length - 1, pe.term), entries := es } = (s', .ok o) ∧
      s'.log = s.log ++ es ∧ s'.recvBuf = s.recvBuf ∧ ackNext o = some (ff + s.log.length + es.length) := by
  have hlen1 : 1 ≤ s.log.length := List.length_pos_iff.mpr hne
  have hnum : ff + s.log.length - 1 + es.length + 1 = ff + s.log.length + es.length := by omega
  unfold followerAppend faChunk
  simp only [getEntries_last hne h hpe, Option.map_some, Option.getD_some, ne_eq, not_true_eq_false, if_false]
  unfold faMerge
  simp only [matchedCount_nil, List.drop_zero, List.drop_nil, ne_eq, not_true_eq_false, false_and, if_false]
  by_cases hd : cfg.dynMember
  · simp only [hd, if_true]
    obtain ⟨⟨s3, o2⟩, ha⟩ := applyChanges_ok false es (s := { s with log := s.log ++ es }) (by simp [hne])
    simp only [ha]
    have hs := applyChanges_spec es ha
    refine ⟨_, _, rfl, by simpa using hs.2.1, ?_, ?_⟩
    · have := applyChanges_recvBuf es ha
      simpa using this
    · rw [ackNext_snoc, hnum]
  · simp only [hd, Bool.false_eq_true, if_false]
    refine ⟨_, _, rfl, rfl, rfl, ?_⟩
    rw [ackNext_snoc, hnum]

/-! ## a chunk burst -/

theorem unpickle_pickle (e : Entry) (h : 1 ≤ e.plen) : unpickleEntry (pickleEntry e) = some e := by
  unfold unpickleEntry
  have hlen : (pickleEntry e).length = e.plen := by simp [pickleEntry]
  cases hp : pickleEntry e with
  | nil => rw [hp] at hlen; simp at hlen; omega
  | cons b t =>
    obtain ⟨e', i⟩ := b
    have : e' = e := by
      have hm : (e', i) ∈ pickleEntry e := by rw [hp]; simp
      simp [pickleEntry] at hm
      exact hm.2.symm
    subst this
    simp only []
    rw [← hp, List.take_of_length_le (by omega)]
    simp

/-- the chunk list of a string longer than a batch: `start`, then `process`es, then one `finish` -/
theorem chunksFrom_shape {α : Type} (B : Nat) (data : List α) (hB : 1 ≤ B) (hE : B < data.length) :
    ∀ (m k : Nat), 1 ≤ k → 1 ≤ m → k + m = nChunks B data.length →
      ∃ (mids : List (List α)) (dn : List α), chunksFrom B data k m = mids.map (fun d => (Label.process, d)) ++ [(Label.finish, dn)] := by
  intro m
  induction m with
  | zero => intro k _ hm; omega
  | succ m ih =>
    intro k hk _ hn
    rw [chunksFrom_succ]
    by_cases hm : m = 0
    · subst hm
      have hfin := (labelAt_finish_iff hB hE (show k < nChunks B data.length by omega)).mpr (by omega)
      rw [hfin]
      exact ⟨[], slice data (k * B) (min B (data.length - k * B)), by simp [chunksFrom]⟩
    · have hpr := labelAt_process hB hE (show k + 1 < nChunks B data.length by omega) (by omega)
      rw [hpr]
      obtain ⟨mids, dn, hsh⟩ := ih (k + 1) (by omega) (by omega) (by omega)
      rw [hsh]
      exact ⟨slice data (k * B) (min B (data.length - k * B)) :: mids, dn, by simp⟩

theorem chunksOf_shape {α : Type} (B : Nat) (data : List α) (hB : 1 ≤ B) (hE : B < data.length) :
    ∃ (d0 : List α) (mids : List (List α)) (dn : List α), chunksOf B data = (Label.start, d0) :: (mids.map (fun d => (Label.process, d)) ++ [(Label.finish, dn)]) ∧
      d0 ++ mids.flatten ++ dn = data := by
  have h2 := nChunks_ge_two hB hE
  have hre := recvAll_chunksOf B data hB hE none
  rw [chunksOf_eq_chunksFrom] at hre ⊢
  obtain ⟨n, hn⟩ : ∃ n, nChunks B data.length = n + 1 := ⟨nChunks B data.length - 1, by omega⟩
  rw [hn, chunksFrom_succ] at hre ⊢
  have hs : labelAt data.length B (0 * B) = .start := (labelAt_start_iff hB).mpr rfl
  rw [hs] at hre ⊢
  obtain ⟨mids, dn, hsh⟩ := chunksFrom_shape B data hB hE n 1 (by omega) (by omega) (by omega)
  rw [hsh] at hre ⊢
  refine ⟨_, mids, dn, rfl, ?_⟩
  -- read the concatenation off the receiver
  have hrun : ∀ (ms : List (List α)) (b : List α),
      recvAll (some b) (ms.map (fun d => (Label.process, d)) ++ [(Label.finish, dn)]) = .ok (none, [b ++ ms.flatten ++ dn]) := by
    intro ms
    induction ms with
    | nil => intro b; simp [recvAll, recvChunk]
    | cons d t iht => intro b; simp [recvAll, recvChunk, iht]
  simp only [recvAll, recvChunk] at hre
  rw [hrun] at hre
  simpa [List.append_assoc] using hre

/-- the follower acknowledges `start`/`process` chunks and keeps accumulating -/
theorem followerRunA_process (cfg : Conf) (src : Nat) (prev : Option (Nat × Nat)) (mids : List (List PByte)) :
    ∀ (s : Node) (b : List PByte), s.log ≠ [] → s.recvBuf = some b →
      ∀ (rest : List AppendMsg),
        followerRunA cfg src s (mids.map (fun d => { prev := prev, chunk := some (Label.process, d) }) ++ rest) =
          match followerRunA cfg src { s with recvBuf := some (b ++ mids.flatten) } rest with
          | .error e => .error e
          | .ok (s2, o2) => .ok (s2, (mids.map fun _ => Out.send src (.nextNodeIdx ((lastIdx? s.log).getD 0 + 1) false false s.term)) ++ o2) := by
  induction mids with
  | nil =>
    intro s b _ hb rest
    have : ({ s with recvBuf := some (b ++ ([] : List (List PByte)).flatten) } : Node) = s := by
      cases s; simp at hb ⊢; exact hb.symm
    simp only [List.map_nil, List.nil_append, this]
    cases followerRunA cfg src s rest with
    | error e => rfl
    | ok r => obtain ⟨s2, o2⟩ := r; rfl
  | cons d t ih =>
    intro s b hne hb rest
    obtain ⟨x, hx⟩ := lastIdx_some_of_ne hne
    simp only [List.map_cons, List.cons_append]
    rw [followerRunA_cons]
    have hfa : followerAppend cfg s src { prev := prev, chunk := some (Label.process, d) } =
        ({ s with recvBuf := some (b ++ d) }, .ok [Out.send src (.nextNodeIdx (x + 1) false false s.term)]) := by
      unfold followerAppend faChunk
      simp [recvChunk, hb, hx]
    rw [hfa]
    simp only []
    rw [ih { s with recvBuf := some (b ++ d) } (b ++ d) hne rfl rest]
    simp only [List.flatten_cons, List.append_assoc, hx, Option.getD_some]
    cases followerRunA cfg src { s with recvBuf := some (b ++ (d ++ t.flatten)) } rest with
    | error e => rfl
    | ok r => obtain ⟨s2, o2⟩ := r; simp

/-- **A chunk burst delivers its entry.**  The messages of a chunked batch, consumed in order by a follower
whose last entry is the batch's `prev`, append exactly the entry. -/
theorem followerRunA_chunked (cfg : Conf) (src : Nat) (s : Node) {ff : Nat} (hne : s.log ≠ []) (h : IdxOK ff s.log)
    {pe : Entry} (hpe : s.log.getLast? = some pe) (B : Nat) (hB : 1 ≤ B) (e : Entry) (hE : B < e.plen) :
    ∃ s' o, followerRunA cfg src s
        ((chunksOf B (pickleEntry e)).map fun c => { prev := some (ff + s.log.length - 1, pe.term), chunk := some c }) = .ok (s', o) ∧
      s'.log = s.log ++ [e] ∧ s'.recvBuf = none ∧ ackNext o = some (ff + s.log.length + 1) := by
  have hlen : (pickleEntry e).length = e.plen := by simp [pickleEntry]
  obtain ⟨d0, mids, dn, hshape, hcat⟩ := chunksOf_shape B (pickleEntry e) hB (by omega)
  obtain ⟨x, hx⟩ := lastIdx_some_of_ne hne
  rw [hshape]
  simp only [List.map_cons, List.map_append, List.map_map]
  rw [followerRunA_cons]
  have hstart : followerAppend cfg s src { prev := some (ff + s.log.length - 1, pe.term), chunk := some (Label.start, d0) } =
      ({ s with recvBuf := some d0 }, .ok [Out.send src (.nextNodeIdx (x + 1) false false s.term)]) := by
    unfold followerAppend faChunk
    simp [recvChunk, hx]
  rw [hstart]
  simp only []
  have hmap : List.map ((fun c => ({ prev := some (ff + s.log.length - 1, pe.term), chunk := some c } : AppendMsg)) ∘ fun d => (Label.process, d)) mids
      = mids.map (fun d => ({ prev := some (ff + s.log.length - 1, pe.term), chunk := some (Label.process, d) } : AppendMsg)) := by
    simp [Function.comp]
  rw [hmap, followerRunA_process cfg src _ mids { s with recvBuf := some d0 } d0 hne rfl]
  -- the finish chunk
  simp only [List.map_cons, List.map_nil]
  rw [followerRunA_cons]
  have hbytes : d0 ++ mids.flatten ++ dn = pickleEntry e := hcat
  have hfin : ∃ s' o, followerAppend cfg { s with recvBuf := some (d0 ++ mids.flatten) } src
        { prev := some (ff + s.log.length - 1, pe.term), chunk := some (Label.finish, dn) } = (s', .ok o) ∧
        s'.log = s.log ++ [e] ∧ s'.recvBuf = none ∧ ackNext o = some (ff + s.log.length + 1) := by
    have hext := followerAppend_extend cfg { s with recvBuf := none } src (ff := ff) hne h hpe [e]
    obtain ⟨s', o, hfa, hlog, hbuf, hack⟩ := hext
    refine ⟨s', o, ?_, hlog, hbuf, by simpa using hack⟩
    rw [← hfa]
    unfold followerAppend faChunk
    simp only [recvChunk, hbytes, unpickle_pickle e (by omega)]
  obtain ⟨s', o, hfa, hlog, hbuf, hack⟩ := hfin
  rw [hfa]
  simp only [followerRunA]
  refine ⟨s', _, rfl, hlog, hbuf, ?_⟩
  exact ackNext_append_some _ (ackNext_append_some _ (by simpa using hack))

/-! ## all batches of one send run -/

theorem followerRunA_append (cfg : Conf) (src : Nat) (l1 l2 : List AppendMsg) :
    ∀ (s : Node), followerRunA cfg src s (l1 ++ l2) =
      match followerRunA cfg src s l1 with
      | .error e => .error e
      | .ok (s1, o1) =>
        match followerRunA cfg src s1 l2 with
        | .error e => .error e
        | .ok (s2, o2) => .ok (s2, o1 ++ o2) := by
  induction l1 with
  | nil =>
    intro s
    simp only [List.nil_append, followerRunA]
    cases followerRunA cfg src s l2 with
    | error e => rfl
    | ok p => simp
  | cons am t ih =>
    intro s
    simp only [List.cons_append]
    rw [followerRunA_cons, followerRunA_cons]
    cases followerAppend cfg s src am with
    | mk s1 r =>
      cases r with
      | error e => rfl
      | ok o1 =>
        simp only []
        rw [ih s1]
        cases followerRunA cfg src s1 t with
        | error e => rfl
        | ok p1 =>
          obtain ⟨s2, o2⟩ := p1
          simp only []
          cases followerRunA cfg src s2 l2 with
          | error e => rfl
          | ok p2 => simp

/-- the `append_entries` view of the messages of one batch -/
theorem render_appendMsgs (B term commit : Nat) (b : Batch) :
    (render B term commit b).filterMap toAppendMsg =
      match b with
      | .regular prev es => [{ prev := prev, entries := es }]
      | .chunked prev e => (chunksOf B (pickleEntry e)).map fun c => { prev := prev, chunk := some c }
      | .snapshot _ => [] := by
  cases b with
  | regular prev es => simp [render, toAppendMsg]
  | snapshot a => simp [render, toAppendMsg]
  | chunked prev e =>
    have hlen : (pickleEntry e).length = e.plen := by simp [pickleEntry]
    simp only [render, chunksOf, hlen, List.filterMap_map, List.map_map]
    rw [← List.filterMap_eq_map]
    congr 1

theorem take_getLast {log : List Entry} {p : Nat} (hp1 : 1 ≤ p) (hp2 : p ≤ log.length) :
    (log.take p).getLast? = log[p - 1]? := by
  rw [List.getLast?_eq_getElem?, List.length_take, Nat.min_eq_left hp2, List.getElem?_take]
  simp
  omega

/-- a follower holding the leader's log up to position `p` and consuming the batches from `p` on ends up
with the leader's log up to the end of the batches -/
theorem followerRunA_batches (cfg : Conf) (src : Nat) {first : Nat} {log : List Entry} (hne : log ≠ [])
    (h : IdxOK first log) (B term commit : Nat) (hB : 1 ≤ B) (hovh : ∀ e ∈ log, 1 ≤ e.cmd.ovh) :
    ∀ (bs : List Batch) (p : Nat) (s : Node) (tail : List Entry), 1 ≤ p → p ≤ log.length → s.log = log.take p →
      PrevOK log first p bs → ChunkOK B bs → log.drop p = bs.flatMap Batch.entries ++ tail →
      ∃ s' o, followerRunA cfg src s ((bs.flatMap (render B term commit)).filterMap toAppendMsg) = .ok (s', o) ∧
        s'.log = log.take (p + (bs.flatMap Batch.entries).length) ∧ (bs = [] → o = []) ∧
        (bs ≠ [] → ackNext o = some (first + p + (bs.flatMap Batch.entries).length)) := by
  intro bs
  induction bs with
  | nil => intro p s tail _ _ hs _ _ _; exact ⟨s, [], by simp [followerRunA], by simpa using hs, fun _ => rfl, fun h => absurd rfl h⟩
  | cons b bs ih =>
    intro p s tail hp1 hp2 hs hprev hck hdrop
    obtain ⟨⟨pe, hpe, hbprev⟩, hprev'⟩ := hprev
    have hsne : s.log ≠ [] := by
      rw [hs]; intro hnil
      have h1 : (log.take p).length = p := by rw [List.length_take]; omega
      rw [hnil] at h1
      simp at h1; omega
    have hsidx : IdxOK first s.log := by
      have : log = log.take p ++ log.drop p := (List.take_append_drop p log).symm
      rw [this] at h
      rw [hs]; exact h.prefix
    have hslen : s.log.length = p := by rw [hs]; simp; omega
    have hslast : s.log.getLast? = some pe := by rw [hs, take_getLast hp1 hp2]; exact hpe
    simp only [flatMap_cons', List.filterMap_append, List.append_assoc] at hdrop ⊢
    rw [followerRunA_append]
    -- the first batch
    have hstep : ∃ s1 o1, followerRunA cfg src s ((render B term commit b).filterMap toAppendMsg) = .ok (s1, o1) ∧
        s1.log = s.log ++ b.entries ∧ ackNext o1 = some (first + p + b.entries.length) := by
      rw [render_appendMsgs]
      cases b with
      | snapshot a => simp [Batch.prev] at hbprev
      | regular prev es =>
        simp only [Batch.prev] at hbprev
        obtain ⟨s1, o1, hfa, hlog, _, hack⟩ := followerAppend_extend cfg s src hsne hsidx hslast es
        rw [hslen] at hfa hack
        refine ⟨s1, o1 ++ [], ?_, hlog, by simpa [Batch.entries] using hack⟩
        simp only [hbprev, followerRunA_cons, hfa, followerRunA]
      | chunked prev e =>
        simp only [Batch.prev] at hbprev
        have hsz : B ≤ e.cmd.size := hck _ (List.mem_cons_self)
        have hmem : e ∈ log := by
          have : e ∈ log.drop p := by rw [hdrop]; simp [Batch.entries]
          exact List.mem_of_mem_drop this
        have hE : B < e.plen := by have := hovh e hmem; unfold Entry.plen; omega
        obtain ⟨s1, o1, hrun, hlog, _, hack⟩ := followerRunA_chunked cfg src s hsne hsidx hslast B hB e hE
        rw [hslen] at hrun hack
        exact ⟨s1, o1, by rw [hbprev]; exact hrun, hlog, by simpa [Batch.entries] using hack⟩
    obtain ⟨s1, o1, hrun1, hlog1, hack1⟩ := hstep
    rw [hrun1]
    simp only []
    have hlen_b : p + b.entries.length ≤ log.length := by
      have := congrArg List.length hdrop
      simp at this; omega
    have hs1 : s1.log = log.take (p + b.entries.length) := by
      rw [hlog1, hs, List.take_add]
      congr 1
      rw [hdrop]; simp
    have hdrop' : log.drop (p + b.entries.length) = bs.flatMap Batch.entries ++ tail := by
      rw [← List.drop_drop, hdrop]; simp
    have hck' : ChunkOK B bs := fun b' hb' => hck b' (List.mem_cons_of_mem _ hb')
    obtain ⟨s', o', hrun', hlog', hnil', hack'⟩ := ih (p + b.entries.length) s1 tail (by omega) hlen_b hs1 hprev' hck' hdrop'
    rw [hrun']
    refine ⟨s', o1 ++ o', rfl, ?_, ⟨fun hc => absurd hc (List.cons_ne_nil _ _), fun _ => ?_⟩⟩
    · rw [hlog']
      simp [Nat.add_assoc]
    · by_cases hbs : bs = []
      · rw [hnil' hbs, hbs]
        simpa using hack1
      · have := ackNext_append_some o1 (hack' hbs)
        rw [this]
        simp [List.length_append, Nat.add_assoc]

end PSO.NodeSend
