import PSO.Proofs.NodeTickFallback

/-!
# C20: a leader that hears nothing from a majority steps down in bounded time and acknowledges nothing new

* `steps_down_by`  — over any run in which a set `S` of voters stays silent (no `next_node_idx` from them,
  no vote counted) and the rest plus the node itself is no majority: the first tick at or after `t₀ + T`
  (`t₀` = latest response time recorded for the silent voters) leaves the node a non-leader.
* `commit_bounded_without_acks`, `no_success_without_acks` — over any run without acknowledgements and votes
  the commit index never exceeds what the acknowledgements held at the start justify (`commitBound`), and
  every SUCCESS callback is for an index ≤ that bound.
-/
namespace PSO.NodeTick
open PSO.Raft (Role isMajority)

/-! ## voters and response table along a step (no membership entries) -/

theorem leaderPhase_others (c : Config) (s : NodeState) (now : Nat) : (leaderPhase c s now).1.others = s.others := by
  rw [leaderPhase_eq]; split
  · split <;> rfl
  · rfl

theorem leaderPhase_lastResponse (c : Config) (s : NodeState) (now : Nat) :
    (leaderPhase c s now).1.lastResponse = s.lastResponse := by
  rw [leaderPhase_eq]; split
  · split <;> rfl
  · rfl

theorem leaderPhase_matchIndex (c : Config) (s : NodeState) (now : Nat) :
    (leaderPhase c s now).1.matchIndex = s.matchIndex := by
  rw [leaderPhase_eq]; split
  · split <;> rfl
  · rfl

theorem leaderPhase_term (c : Config) (s : NodeState) (now : Nat) : (leaderPhase c s now).1.term = s.term := by
  rw [leaderPhase_eq]; split
  · split <;> rfl
  · rfl

theorem leaderPhase_noMembership (c : Config) (s : NodeState) (now rand : Nat) (hm : NoMembership s.log) :
    NoMembership (leaderPhase c (electionPhase c s now rand).1 now).1.log := by
  rw [leaderPhase_log]
  rcases electionPhase_log c s now rand with h2 | ⟨i, t, h2⟩
  · rw [h2]; exact hm
  · rw [h2]; exact noMembership_append_noop hm i t

theorem tick_others (c : Config) (s : NodeState) (now rand : Nat) (hm : NoMembership s.log) :
    (tick c s now rand).1.others = s.others := by
  have vf := applyEntries_voterFrame c _ now (leaderPhase_noMembership c s now rand hm)
  rw [tick_fst, readyPhase_others, vf.others, leaderPhase_others]
  rcases electionPhase_cases c s now rand with h | h
  · rw [h]
  · exact h.2.2.2.2.2.1

theorem tick_lastResponse (c : Config) (s : NodeState) (now rand : Nat) (hm : NoMembership s.log) :
    (tick c s now rand).1.lastResponse = (electionPhase c s now rand).1.lastResponse := by
  have vf := applyEntries_voterFrame c _ now (leaderPhase_noMembership c s now rand hm)
  rw [tick_fst, readyPhase_lastResponse, vf.lastResponse, leaderPhase_lastResponse]

theorem tick_matchIndex (c : Config) (s : NodeState) (now rand : Nat) (hm : NoMembership s.log) :
    (tick c s now rand).1.matchIndex = (electionPhase c s now rand).1.matchIndex := by
  have vf := applyEntries_voterFrame c _ now (leaderPhase_noMembership c s now rand hm)
  rw [tick_fst, readyPhase_matchIndex, vf.matchIndex, leaderPhase_matchIndex]

theorem tick_term (c : Config) (s : NodeState) (now rand : Nat) :
    (tick c s now rand).1.term = (electionPhase c s now rand).1.term := by
  rw [tick_fst, readyPhase_term, (applyEntries_frame c _ now).term, leaderPhase_term]

theorem onRequestVote_others (c : Config) (s : NodeState) (frm term li lt now rand : Nat) :
    (onRequestVote c s frm term li lt now rand).1.others = s.others := by
  simp only [onRequestVote, setRole]
  repeat' split
  all_goals rfl

theorem onResponseVote_others (c : Config) (s : NodeState) (term now : Nat) :
    (onResponseVote c s term now).1.others = s.others := by
  rcases onResponseVote_cases c s term now with h | ⟨_, h⟩ | ⟨_, h⟩ <;> rw [h] <;> rfl

theorem step_others (c : Config) (s : NodeState) (e : Event) (hm : NoMembership s.log) :
    (step c s e).1.others = s.others := by
  cases e with
  | tick now rand => exact tick_others c s now rand hm
  | deliver frm m now rand =>
    cases m with
    | requestVote t li lt => exact onRequestVote_others c s frm t li lt now rand
    | responseVote t => exact onResponseVote_others c s t now
    | nextNodeIdx t reset next success => exact (onNextNodeIdx_cases s frm t reset next success now).2.1
  | connected n => rfl
  | disconnected n => rfl
  | roConnected n => rfl
  | roDisconnected n => rfl

/-- With at least one other voter the election-timeout branch cannot make the node leader. -/
theorem electionPhase_not_leader (c : Config) (s : NodeState) (now rand : Nat) (ho : s.others ≠ [])
    (h : (electionPhase c s now rand).1.role = .leader) : electionPhase c s now rand = (s, []) ∧ s.role = .leader := by
  have hlen : 0 < s.others.length := List.length_pos_iff.mpr ho
  unfold electionPhase at h ⊢
  split
  · next hs => simp only [hs] at h; exact ⟨rfl, h⟩
  · next me hs =>
    simp only [hs] at h
    split
    · next hl => exact ⟨rfl, hl⟩
    · next hl =>
      rw [if_neg hl] at h
      split
      · next hd =>
        rw [if_pos hd] at h
        simp only [setRole, leaderChanged] at h
        split at h
        · next hmaj =>
          rw [isMajority_iff] at hmaj
          omega
        · cases h
      · next hd =>
        rw [if_neg hd] at h
        exact absurd h hl

theorem tick_not_leader (c : Config) (s : NodeState) (now rand : Nat) (ho : s.others ≠ []) (hl : s.role ≠ .leader) :
    (tick c s now rand).1.role ≠ .leader := by
  intro h
  rw [tick_role, leaderPhase_eq] at h
  split at h
  · next h1 => exact hl (electionPhase_not_leader c s now rand ho h1).2
  · next h1 => exact h1 h

/-! ## bounded-time step-down -/

/-- Events of a run in which the voters in `S` are silent: no acknowledgement from them is delivered and
no vote is counted. (`request_vote` messages, connection events and ticks are unrestricted.) -/
def SilentEv (S : List Nat) : Event → Prop
  | .deliver frm (.nextNodeIdx _ _ _ _) _ _ => frm ∉ S
  | .deliver _ (.responseVote _) _ _ => False
  | _ => True

/-- The response times recorded for the silent voters are at most `t0` (relevant for a leader only). -/
def StaleOn (S : List Nat) (t0 : Nat) (s : NodeState) : Prop :=
  s.role = .leader → ∀ n ∈ S, mgetD s.lastResponse n ≤ t0

theorem step_staleOn (c : Config) (S : List Nat) (t0 : Nat) (s : NodeState) (e : Event)
    (hm : NoMembership s.log) (ho : s.others ≠ []) (hq : SilentEv S e) (hs : StaleOn S t0 s) :
    StaleOn S t0 (step c s e).1 := by
  cases e with
  | tick now rand =>
    intro hl n hn
    change (tick c s now rand).1.role = .leader at hl
    change mgetD (tick c s now rand).1.lastResponse n ≤ t0
    rw [tick_lastResponse c s now rand hm]
    have h1 : (electionPhase c s now rand).1.role = .leader := by
      rw [tick_role, leaderPhase_eq] at hl
      split at hl
      · assumption
      · next h1 => exact absurd hl h1
    obtain ⟨he, hl0⟩ := electionPhase_not_leader c s now rand ho h1
    rw [he]
    exact hs hl0 n hn
  | deliver frm m now rand =>
    cases m with
    | requestVote t li lt =>
      intro hl
      have : (step c s (.deliver frm (.requestVote t li lt) now rand)).1 = s :=
        onRequestVote_leader c s frm t li lt now rand hl
      rw [this] at hl ⊢
      exact hs hl
    | responseVote t => exact absurd hq (by simp [SilentEv])
    | nextNodeIdx t reset next success =>
      intro hl n hn
      change (onNextNodeIdx s frm t reset next success now).1.role = .leader at hl
      change mgetD (onNextNodeIdx s frm t reset next success now).1.lastResponse n ≤ t0
      obtain ⟨hr, _, _, _, hlr⟩ := onNextNodeIdx_cases s frm t reset next success now
      rw [hr] at hl
      have hfrm : frm ∉ S := hq
      rcases hlr with hlr | hlr
      · rw [hlr]; exact hs hl n hn
      · rw [hlr, mgetD_mset_ne _ _ _ _ (fun (e : n = frm) => hfrm (e ▸ hn))]
        exact hs hl n hn
  | connected n => exact hs
  | disconnected n => exact hs
  | roConnected n => exact hs
  | roDisconnected n => exact hs

theorem run_staleOn (c : Config) (S : List Nat) (t0 : Nat) (evs : List Event) :
    ∀ s : NodeState, NoMembership s.log → s.others ≠ [] → (∀ e ∈ evs, SilentEv S e) → StaleOn S t0 s →
      StaleOn S t0 (run c s evs).1 ∧ (run c s evs).1.others = s.others ∧ NoMembership (run c s evs).1.log := by
  induction evs with
  | nil => intro s hm _ _ hs; exact ⟨hs, rfl, hm⟩
  | cons e es ih =>
    intro s hm ho hq hs
    have ho' := step_others c s e hm
    have := ih (step c s e).1 (step_noMembership c s e hm) (by rw [ho']; exact ho)
      (fun e' he' => hq e' (List.mem_cons_of_mem _ he'))
      (step_staleOn c S t0 s e hm ho (hq e (List.mem_cons_self ..)) hs)
    exact ⟨this.1, this.2.1.trans ho', this.2.2⟩

/-- Stale silent voters ⇒ the fresh count is at most 1 + the number of the other voters. -/
theorem freshCount_le_of_stale (others S : List Nat) (m : AMap) (t0 now T : Nat) (hnow : t0 + T ≤ now)
    (hs : ∀ n ∈ S, mgetD m n ≤ t0) :
    freshCount others m now T ≤ 1 + (others.filter (fun n => decide (n ∉ S))).length := by
  unfold freshCount
  have := length_filter_le_of_imp (l := others) (p := fun n => decide (now < mgetD m n + T))
    (q := fun n => decide (n ∉ S)) (by
      intro x _ hp
      simp only [decide_eq_true_eq] at hp ⊢
      intro hx
      have := hs x hx
      omega)
  omega

/-- **Bounded-time step-down.** Let the voters in `S` be silent during `evs` (no acknowledgement from them,
no vote counted), let the remaining voters plus the node itself be no majority, and let every response
time recorded for a silent voter be ≤ `t0`.  Then a tick at any clock value `now ≥ t0 + T` after `evs`
leaves the node a non-leader that names no leader: whatever the partition timing, it stops reporting itself
leader at its first tick at or after `t0 + T`. -/
theorem steps_down_by (c : Config) (S : List Nat) (t0 : Nat) (s : NodeState) (evs : List Event) (now rand : Nat)
    (hm : NoMembership s.log)
    (hS : 2 * (1 + (s.others.filter (fun n => decide (n ∉ S))).length) ≤ s.others.length + 1)
    (hq : ∀ e ∈ evs, SilentEv S e) (hs : StaleOn S t0 s) (hnow : t0 + c.fallbackT ≤ now) :
    (run c s (evs ++ [.tick now rand])).1.role ≠ .leader := by
  have ho : s.others ≠ [] := by
    intro h; rw [h] at hS; simp at hS
  have run_append : ∀ (evs : List Event) (s : NodeState) (e : Event),
      (run c s (evs ++ [e])).1 = (step c (run c s evs).1 e).1 := by
    intro evs
    induction evs with
    | nil => intro s e; rfl
    | cons a rest ih => intro s e; exact ih (step c s a).1 e
  rw [run_append]
  obtain ⟨hst, hoth, _⟩ := run_staleOn c S t0 evs s hm ho hq hs
  generalize (run c s evs).1 = s' at hst hoth
  by_cases hl : s'.role = .leader
  · refine (tick_step_down c s' now rand hl ?_).1
    unfold CutOff
    have := freshCount_le_of_stale s'.others S s'.lastResponse t0 now c.fallbackT hnow (hst hl)
    rw [hoth] at this ⊢
    omega
  · exact tick_not_leader c s' now rand (by rw [hoth]; exact ho) hl

/-! ## the commit-advance loop is idempotent -/

theorem commitLoop_restart (others : List Nat) (m : AMap) (log : List Entry) (term : Nat) :
    ∀ fuel ci next, next ≤ ci → ci < commitLoop others m log term fuel ci next →
      commitLoop others m log term (ci + fuel - commitLoop others m log term fuel ci next)
        (commitLoop others m log term fuel ci next) (commitLoop others m log term fuel ci next) =
        commitLoop others m log term fuel ci next := by
  intro fuel
  induction fuel with
  | zero => intro ci next h1 h2; simp only [commitLoop] at h2; omega
  | succ f ih =>
    intro ci next h1 h2
    simp only [commitLoop] at h2 ⊢
    split at h2
    · next hmaj =>
      rw [if_pos hmaj]
      split at h2
      · next ht =>
        rw [if_pos ht]
        rcases commitLoop_bounds others m log term f (ci + 1) (ci + 1) with hb | hb
        · rw [hb]
          have : ci + (f + 1) - (ci + 1) = f := by omega
          rw [this]; exact hb
        · have := ih (ci + 1) (ci + 1) (Nat.le_refl _) hb.1
          have e : ci + (f + 1) = ci + 1 + f := by omega
          rw [e]; exact this
      · next ht =>
        rw [if_neg ht]
        rcases commitLoop_bounds others m log term f (ci + 1) next with hb | hb
        · rw [hb] at h2; omega
        · have := ih (ci + 1) next (Nat.le_succ_of_le h1) hb.1
          have e : ci + (f + 1) = ci + 1 + f := by omega
          rw [e]; exact this
    · omega

theorem nextCommit_congr {s s' : NodeState} (ho : s'.others = s.others)
    (hmi : ∀ n ∈ s.others, mgetD s'.matchIndex n = mgetD s.matchIndex n) (hlog : s'.log = s.log)
    (ht : s'.term = s.term) (hc : s'.commit = s.commit) : nextCommit s' = nextCommit s := by
  unfold nextCommit
  rw [ho, hlog, ht, hc]
  exact commitLoop_congr hmi _ _ _ _ _

/-- Re-running the loop from the index it produced changes nothing. -/
theorem nextCommit_idem {s s' : NodeState} (ho : s'.others = s.others)
    (hmi : ∀ n ∈ s.others, mgetD s'.matchIndex n = mgetD s.matchIndex n) (hlog : s'.log = s.log)
    (ht : s'.term = s.term) (hc : s'.commit = nextCommit s) : nextCommit s' = nextCommit s := by
  unfold nextCommit at hc ⊢
  rw [ho, hlog, ht, hc, commitLoop_congr hmi]
  rcases commitLoop_bounds s.others s.matchIndex s.log s.term (lastIdx s.log - s.commit) s.commit s.commit with hb | hb
  · rw [hb]; exact hb
  · have := commitLoop_restart s.others s.matchIndex s.log s.term (lastIdx s.log - s.commit) s.commit s.commit
      (Nat.le_refl _) hb.1
    have e : s.commit + (lastIdx s.log - s.commit) = lastIdx s.log := by omega
    rw [e] at this
    exact this

/-! ## well-formed logs: index fields are consecutive -/

def LogWF (log : List Entry) : Prop := ∀ j (h : j < log.length), log[j].idx = firstIdx log + j

theorem firstIdx_append (log : List Entry) (e : Entry) (h : log ≠ []) : firstIdx (log ++ [e]) = firstIdx log := by
  cases log with
  | nil => exact absurd rfl h
  | cons a rest => rfl

theorem lastIdx_of_wf (log : List Entry) (h : LogWF log) (hne : log ≠ []) :
    lastIdx log + 1 = firstIdx log + log.length := by
  have hlen : 0 < log.length := List.length_pos_iff.mpr hne
  unfold lastIdx
  rw [List.getLast?_eq_getElem?]
  have : log[log.length - 1]? = some log[log.length - 1] := List.getElem?_eq_getElem (by omega)
  rw [this]
  simp only [Option.map_some, Option.getD_some]
  rw [h (log.length - 1) (by omega)]
  omega

theorem logWF_append_noop (log : List Entry) (h : LogWF log) (t : Nat) :
    LogWF (log ++ [⟨.noop, lastIdx log + 1, t⟩]) := by
  by_cases hne : log = []
  · subst hne
    intro j hj
    simp only [List.nil_append, List.length_singleton] at hj
    have : j = 0 := by omega
    subst this
    simp [firstIdx, lastIdx]
  · intro j hj
    rw [firstIdx_append _ _ hne]
    simp only [List.length_append, List.length_singleton] at hj
    by_cases hj' : j < log.length
    · rw [List.getElem_append_left hj']
      exact h j hj'
    · have : j = log.length := by omega
      subst this
      rw [List.getElem_append_right (Nat.le_refl _)]
      simp only [Nat.sub_self, List.getElem_cons_zero]
      exact lastIdx_of_wf log h hne

theorem electionPhase_log' (c : Config) (s : NodeState) (now rand : Nat) :
    (electionPhase c s now rand).1.log = s.log ∨
    ∃ t, (electionPhase c s now rand).1.log = s.log ++ [⟨.noop, lastIdx s.log + 1, t⟩] := by
  unfold electionPhase
  split
  · exact Or.inl rfl
  · split
    · exact Or.inl rfl
    · split
      · simp only [setRole, leaderChanged]
        split
        · exact Or.inr ⟨_, rfl⟩
        · exact Or.inl rfl
      · exact Or.inl rfl

theorem step_logWF (c : Config) (s : NodeState) (e : Event) (h : LogWF s.log) : LogWF (step c s e).1.log := by
  cases e with
  | tick now rand =>
    show LogWF (tick c s now rand).1.log
    rw [tick_log]
    rcases electionPhase_log' c s now rand with h1 | ⟨t, h1⟩
    · rw [h1]; exact h
    · rw [h1]; exact logWF_append_noop _ h t
  | deliver frm m now rand =>
    cases m with
    | requestVote t li lt =>
      show LogWF (onRequestVote c s frm t li lt now rand).1.log
      rw [onRequestVote_log]; exact h
    | responseVote t =>
      show LogWF (onResponseVote c s t now).1.log
      rcases onResponseVote_cases c s t now with h1 | ⟨_, h1⟩ | ⟨_, h1⟩
      · rw [h1]; exact h
      · rw [h1]; exact h
      · rw [h1, becomeLeader_log]; exact logWF_append_noop _ h _
    | nextNodeIdx t reset next success =>
      show LogWF (onNextNodeIdx s frm t reset next success now).1.log
      rw [(onNextNodeIdx_cases s frm t reset next success now).2.2.1]; exact h
  | connected n => exact h
  | disconnected n => exact h
  | roConnected n => exact h
  | roDisconnected n => exact h

/-- Entries returned by `__getEntries(frm, count)` of a well-formed log carry indices `frm … frm+count-1`. -/
theorem getEntries_idx (log : List Entry) (h : LogWF log) (frm count : Nat) :
    ∀ e ∈ getEntries log frm count, frm ≤ e.idx ∧ e.idx < frm + count := by
  intro e he
  unfold getEntries at he
  split at he
  · cases he
  · next hf =>
    obtain ⟨k, hk, rfl⟩ := List.mem_iff_getElem.mp he
    rw [List.getElem_take, List.getElem_drop]
    simp only [List.length_take, List.length_drop] at hk
    rw [h _ (by omega)]
    omega

/-! ## SUCCESS callbacks are for committed indices -/

def successIdx : Output → Option Nat
  | .callback idx _ _ .success => some idx
  | _ => none

theorem callbacksFor_success (e : Entry) (res : Res) (subs : List (Nat × Nat)) :
    ∀ o ∈ callbacksFor e res subs, ∀ i, successIdx o = some i → i = e.idx := by
  intro o ho i hi
  unfold callbacksFor at ho
  obtain ⟨p, _, rfl⟩ := List.mem_map.mp ho
  split at hi
  · simp only [successIdx, Option.some.injEq] at hi; exact hi.symm
  · simp [successIdx] at hi

def noSuccess (outs : List Output) : Prop := ∀ o ∈ outs, successIdx o = none

theorem noSuccess_nil : noSuccess [] := fun _ h => by cases h
theorem noSuccess_append {a b : List Output} (ha : noSuccess a) (hb : noSuccess b) : noSuccess (a ++ b) := by
  intro o ho
  rcases List.mem_append.mp ho with h | h
  · exact ha o h
  · exact hb o h
theorem noSuccess_single {o : Output} (h : successIdx o = none) : noSuccess [o] := by
  intro x hx; simp only [List.mem_singleton] at hx; subst hx; exact h
theorem noSuccess_ite {p : Prop} [Decidable p] {a b : List Output} (ha : noSuccess a) (hb : noSuccess b) :
    noSuccess (if p then a else b) := by
  split
  · exact ha
  · exact hb
theorem noSuccess_map {α : Type} (f : α → Output) (l : List α) (h : ∀ x, successIdx (f x) = none) :
    noSuccess (l.map f) := by
  intro o ho
  obtain ⟨x, _, rfl⟩ := List.mem_map.mp ho
  exact h x

/-- closes `noSuccess` goals about concrete output lists -/
macro "no_success" : tactic =>
  `(tactic| repeat (first
      | exact noSuccess_nil
      | apply noSuccess_append
      | apply noSuccess_ite
      | (apply noSuccess_single; rfl)
      | (apply noSuccess_map; intro _; rfl)))

theorem changeCluster_noSuccess (s : NodeState) (now : Nat) (add : Bool) (n : Nat) :
    noSuccess (changeCluster s now add n).2 := by
  unfold changeCluster
  repeat' split
  all_goals no_success

theorem applyCmd_no_callback {c : Config} {s : NodeState} {now : Nat} {e : Entry} {s' : NodeState} {r : Res}
    {o : List Output} (h : applyCmd c s now e = some (s', r, o)) : ∀ x ∈ o, successIdx x = none := by
  unfold applyCmd at h
  split at h
  · cases h; exact noSuccess_nil
  · split at h
    · cases h
    · split at h
      · cases h; exact noSuccess_nil
      · cases h; exact noSuccess_single rfl
  · cases h; exact noSuccess_nil
  · cases h; exact noSuccess_single rfl

theorem applyLoop_success (c : Config) (now : Nat) (es : List Entry) :
    ∀ s : NodeState, ∀ o ∈ (applyLoop c now es s).2, ∀ i, successIdx o = some i → ∃ e ∈ es, e.idx = i := by
  induction es with
  | nil => intro s o ho; cases ho
  | cons e es ih =>
    intro s o ho i hi
    simp only [applyLoop] at ho
    split at ho
    · cases ho
    · next s1 res o1 h =>
      simp only [List.mem_append] at ho
      rcases ho with (ho | ho) | ho
      · rw [applyCmd_no_callback h o ho] at hi; cases hi
      · exact ⟨e, List.mem_cons_self .., (callbacksFor_success e res _ o ho i hi).symm⟩
      · obtain ⟨e', he', hi'⟩ := ih _ o ho i hi
        exact ⟨e', List.mem_cons_of_mem _ he', hi'⟩

theorem applyEntries_success (c : Config) (s : NodeState) (now : Nat) (hwf : LogWF s.log) :
    ∀ o ∈ (applyEntries c s now).2.1, ∀ i, successIdx o = some i → i ≤ s.commit := by
  intro o ho i hi
  unfold applyEntries at ho
  split at ho
  · cases ho
  · split at ho
    · next hlt =>
      obtain ⟨e, he, rfl⟩ := applyLoop_success c now _ s o ho i hi
      have := (getEntries_idx s.log hwf _ _ e he).2
      omega
    · cases ho

theorem setRole_noSuccess (s : NodeState) (r : Role) : noSuccess (setRole s r).2 := by
  unfold setRole; no_success

theorem becomeLeader_noSuccess (c : Config) (s : NodeState) (now : Nat) : noSuccess (becomeLeader c s now).2 := by
  show noSuccess ((setRole { s with leader := s.self } .leader).2 ++ (if c.useBatch then [] else [.sendAppend]) ++ [.sendAppend])
  apply noSuccess_append
  · apply noSuccess_append
    · exact setRole_noSuccess _ _
    · split <;> no_success
  · no_success

theorem electionPhase_no_success (c : Config) (s : NodeState) (now rand : Nat) :
    noSuccess (electionPhase c s now rand).2 := by
  unfold electionPhase
  split
  · exact noSuccess_nil
  · split
    · exact noSuccess_nil
    · split
      · simp only [setRole, leaderChanged]
        split
        · apply noSuccess_append
          · no_success
          · exact becomeLeader_noSuccess _ _ _
        · no_success
      · exact noSuccess_nil

theorem leaderPhase_no_success (c : Config) (s : NodeState) (now : Nat) :
    noSuccess (leaderPhase c s now).2 := by
  rw [leaderPhase_eq]
  repeat' split
  all_goals no_success

theorem tick_snd (c : Config) (s : NodeState) (now rand : Nat) :
    (tick c s now rand).2 =
      (electionPhase c s now rand).2 ++ (leaderPhase c (electionPhase c s now rand).1 now).2 ++
      (applyEntries c (leaderPhase c (electionPhase c s now rand).1 now).1 now).2.1 ++
      sendPhase (applyEntries c (leaderPhase c (electionPhase c s now rand).1 now).1 now).1 now
        (applyEntries c (leaderPhase c (electionPhase c s now rand).1 now).1 now).2.2 ++
      (readyPhase (applyEntries c (leaderPhase c (electionPhase c s now rand).1 now).1 now).1).2 := rfl

/-- A SUCCESS callback emitted by a tick is for an index ≤ the commit index after that tick. -/
theorem tick_success_le_commit (c : Config) (s : NodeState) (now rand : Nat) (hwf : LogWF s.log) :
    ∀ o ∈ (tick c s now rand).2, ∀ i, successIdx o = some i → i ≤ (tick c s now rand).1.commit := by
  intro o ho i hi
  rw [tick_snd] at ho
  simp only [List.mem_append] at ho
  rcases ho with (((ho | ho) | ho) | ho) | ho
  · rw [electionPhase_no_success c s now rand o ho] at hi; cases hi
  · rw [leaderPhase_no_success c _ now o ho] at hi; cases hi
  · rw [tick_commit]
    refine applyEntries_success c _ now ?_ o ho i hi
    rw [leaderPhase_log]
    rcases electionPhase_log' c s now rand with h1 | ⟨t, h1⟩
    · rw [h1]; exact hwf
    · rw [h1]; exact logWF_append_noop _ hwf t
  · unfold sendPhase at ho
    split at ho
    · simp only [List.mem_singleton] at ho; subst ho; cases hi
    · cases ho
  · rcases readyPhase_outputs (applyEntries c (leaderPhase c (electionPhase c s now rand).1 now).1 now).1 with h | h
    · rw [h] at ho; cases ho
    · rw [h] at ho; simp only [List.mem_singleton] at ho; subst ho; cases hi

theorem onMessage_no_success (c : Config) (s : NodeState) (frm : Nat) (m : Msg) (now rand : Nat) :
    noSuccess (onMessage c s frm m now rand).2 := by
  cases m with
  | requestVote t li lt =>
    simp only [onMessage, onRequestVote, setRole]
    repeat' split
    all_goals no_success
  | responseVote t =>
    simp only [onMessage, onResponseVote]
    repeat' split
    all_goals first | exact becomeLeader_noSuccess _ _ _ | no_success
  | nextNodeIdx t reset next success =>
    simp only [onMessage, onNextNodeIdx]
    repeat' split
    all_goals no_success

/-- Every SUCCESS callback any modelled handler emits is for an index ≤ the node's commit index. -/
theorem step_success_le_commit (c : Config) (s : NodeState) (e : Event) (hwf : LogWF s.log) :
    ∀ o ∈ (step c s e).2, ∀ i, successIdx o = some i → i ≤ (step c s e).1.commit := by
  intro o ho i hi
  cases e with
  | tick now rand => exact tick_success_le_commit c s now rand hwf o ho i hi
  | deliver frm m now rand => rw [onMessage_no_success c s frm m now rand o ho] at hi; cases hi
  | connected n => cases ho
  | disconnected n => cases ho
  | roConnected n => cases ho
  | roDisconnected n => cases ho

/-! ## without acknowledgements the commit index stays under the bound the old ones justify -/

/-- Events of a run segment in which no acknowledgement and no vote reaches the node; read-only
(dis)connects concern nodes outside the voter set `V`. -/
def NoAckEv (V : List Nat) : Event → Prop
  | .deliver _ (.nextNodeIdx _ _ _ _) _ _ => False
  | .deliver _ (.responseVote _) _ _ => False
  | .roConnected n => n ∉ V
  | .roDisconnected n => n ∉ V
  | _ => True

/-- What the acknowledgements held by `s` justify: the index a tick would commit now. -/
def commitBound (s : NodeState) : Nat := if s.role = .leader then nextCommit s else s.commit

/-- `commit ≤ K`, and a leader's next tick would not commit beyond `K`. -/
def Bounded (K : Nat) (s : NodeState) : Prop := s.commit ≤ K ∧ (s.role = .leader → nextCommit s ≤ K)

theorem step_bounded (c : Config) (K : Nat) (s : NodeState) (e : Event) (hm : NoMembership s.log)
    (ho : s.others ≠ []) (hq : NoAckEv s.others e) (hb : Bounded K s) : Bounded K (step c s e).1 := by
  cases e with
  | tick now rand =>
    change Bounded K (tick c s now rand).1
    by_cases hl : s.role = .leader
    · have he := electionPhase_leader c s now rand hl
      have hc : (tick c s now rand).1.commit = nextCommit s := by
        rw [tick_commit, he, leaderPhase_commit, if_pos hl]
      refine ⟨by rw [hc]; exact hb.2 hl, fun _ => ?_⟩
      have hmi : (tick c s now rand).1.matchIndex = s.matchIndex := by rw [tick_matchIndex c s now rand hm, he]
      have hidem : nextCommit (tick c s now rand).1 = nextCommit s :=
        nextCommit_idem (tick_others c s now rand hm) (fun n _ => by rw [hmi])
          (by rw [tick_log, he]) (by rw [tick_term, he]) hc
      rw [hidem]; exact hb.2 hl
    · have hnl := tick_not_leader c s now rand ho hl
      refine ⟨?_, fun h => absurd h hnl⟩
      rw [tick_commit, leaderPhase_commit]
      split
      · next h1 => exact absurd (electionPhase_not_leader c s now rand ho h1).2 hl
      · rw [electionPhase_commit]; exact hb.1
  | deliver frm m now rand =>
    cases m with
    | requestVote t li lt =>
      refine ⟨?_, fun hl => ?_⟩
      · exact Nat.le_trans (Nat.le_of_eq (onMessage_indices c s frm (.requestVote t li lt) now rand).1) hb.1
      · have : (step c s (.deliver frm (.requestVote t li lt) now rand)).1 = s :=
          onRequestVote_leader c s frm t li lt now rand hl
        rw [this] at hl ⊢
        exact hb.2 hl
    | responseVote t => exact absurd hq (by simp [NoAckEv])
    | nextNodeIdx t reset next success => exact absurd hq (by simp [NoAckEv])
  | connected n => exact hb
  | disconnected n => exact hb
  | roConnected n =>
    refine ⟨hb.1, fun hl => ?_⟩
    have hn : n ∉ s.others := hq
    have : nextCommit (step c s (.roConnected n)).1 = nextCommit s :=
      nextCommit_congr rfl (fun k hk => mgetD_mset_ne _ _ _ _ (fun e => hn (e ▸ hk))) rfl rfl rfl
    rw [this]; exact hb.2 hl
  | roDisconnected n =>
    refine ⟨hb.1, fun hl => ?_⟩
    have hn : n ∉ s.others := hq
    have : nextCommit (step c s (.roDisconnected n)).1 = nextCommit s :=
      nextCommit_congr rfl (fun k hk => mgetD_mdel_ne _ _ _ (fun e => hn (e ▸ hk))) rfl rfl rfl
    rw [this]; exact hb.2 hl

theorem bounded_init (s : NodeState) : Bounded (commitBound s) s := by
  unfold commitBound Bounded
  split
  · exact ⟨nextCommit_ge s, fun _ => Nat.le_refl _⟩
  · next h => exact ⟨Nat.le_refl _, fun hl => absurd hl h⟩

/-- Run-level statement: commit bound, and every SUCCESS callback below it. -/
theorem run_bounded (c : Config) (K : Nat) (evs : List Event) :
    ∀ s : NodeState, NoMembership s.log → LogWF s.log → s.others ≠ [] → (∀ e ∈ evs, NoAckEv s.others e) →
      Bounded K s →
      Bounded K (run c s evs).1 ∧ ∀ o ∈ (run c s evs).2, ∀ i, successIdx o = some i → i ≤ K := by
  induction evs with
  | nil => intro s _ _ _ _ hb; exact ⟨hb, fun o ho => by cases ho⟩
  | cons e es ih =>
    intro s hm hwf ho hq hb
    have ho' := step_others c s e hm
    have hb' := step_bounded c K s e hm ho (hq e (List.mem_cons_self ..)) hb
    have := ih (step c s e).1 (step_noMembership c s e hm) (step_logWF c s e hwf) (by rw [ho']; exact ho)
      (fun e' he' => by rw [ho']; exact hq e' (List.mem_cons_of_mem _ he')) hb'
    refine ⟨this.1, fun o hmem i hi => ?_⟩
    change o ∈ (step c s e).2 ++ (run c (step c s e).1 es).2 at hmem
    rcases List.mem_append.mp hmem with h1 | h1
    · exact Nat.le_trans (step_success_le_commit c s e hwf o h1 i hi) hb'.1
    · exact this.2 o h1 i hi

end PSO.NodeTick
