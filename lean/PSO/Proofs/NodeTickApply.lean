import PSO.Proofs.NodeTickCutoff

/-!
# C12: the apply loop with raising commands

`applyLoop` is the `for entry in entries` loop of `__applyLogEntries` on the repaired tree (D9: an
exception raised by the replicated method is the command's result; D10: an unsupported VERSION entry stops
the batch and keeps its subscribers).  Everything is stated for the loop over an arbitrary entry list and then
for `applyEntries` (= `__applyLogEntries`) / `tick`.
-/
namespace PSO.NodeTick
open PSO.Raft (Role isMajority)

/-- An entry this code version can apply (everything except a VERSION entry above `selfVer`). -/
def supported (c : Config) (e : Entry) : Bool :=
  match e.cmd with
  | .version v => decide (v ≤ c.selfVer)
  | _ => true

/-- What an entry contributes to the free state machine: raising or not, a regular command records its id. -/
def idsOf (e : Entry) : List Nat :=
  match e.cmd with
  | .regular id _ => [id]
  | _ => []

/-- State-machine content produced by a list of entries — a function of the entries only. -/
def regularIds (es : List Entry) : List Nat := es.flatMap idsOf

/-- The result handed to SUCCESS callbacks of entry `e` when the state machine held `sm` and the enabled code
version was `ver` before it (D71: a VERSION entry below the enabled version yields the exception object). -/
def resOf (sm : List Nat) (ver : Nat) (e : Entry) : Res :=
  match e.cmd with
  | .regular id raises => if raises then .raised id else .ok (sm.length + 1)
  | .version v => if v < ver then .lowerVersion v else .none
  | _ => .none

/-- The enabled code version after an applied entry: a VERSION entry not below it switches, everything else
(a lower VERSION entry included, D71) leaves it. -/
def verOf (ver : Nat) (e : Entry) : Nat :=
  match e.cmd with
  | .version v => max ver v
  | _ => ver

/-- the enabled version after a list of applied entries -/
def verAfter (ver : Nat) (es : List Entry) : Nat := es.foldl verOf ver

theorem verOf_ge (ver : Nat) (e : Entry) : ver ≤ verOf ver e := by
  unfold verOf
  split
  · exact Nat.le_max_left _ _
  · exact Nat.le_refl _

theorem verAfter_ge (es : List Entry) : ∀ ver, ver ≤ verAfter ver es := by
  induction es with
  | nil => intro ver; exact Nat.le_refl _
  | cons e es ih => intro ver; exact Nat.le_trans (verOf_ge ver e) (ih _)

/-- The entries a batch actually applies: everything up to the first unsupported VERSION entry. -/
def applicable (c : Config) (es : List Entry) : List Entry := es.takeWhile (supported c)

theorem regularIds_append (a b : List Entry) : regularIds (a ++ b) = regularIds a ++ regularIds b := by
  simp [regularIds]

/-! ## one command -/

theorem applyCmd_none_iff (c : Config) (s : NodeState) (now : Nat) (e : Entry) :
    applyCmd c s now e = none ↔ supported c e = false := by
  obtain ⟨cmd, idx, term⟩ := e
  cases cmd with
  | noop => simp [applyCmd, supported]
  | regular id r => simp [applyCmd, supported]
  | membership a n => simp [applyCmd, supported]
  | version v =>
    simp only [applyCmd, supported]
    split
    · simp; omega
    · split <;> simp <;> omega

theorem changeCluster_keeps (s : NodeState) (now : Nat) (add : Bool) (n : Nat) :
    (changeCluster s now add n).1.sm = s.sm ∧ (changeCluster s now add n).1.waiting = s.waiting ∧
    (changeCluster s now add n).1.lastApplied = s.lastApplied := by
  unfold changeCluster
  repeat' split
  all_goals exact ⟨rfl, rfl, rfl⟩

theorem applyCmd_some {c : Config} {s : NodeState} {now : Nat} {e : Entry} {s' : NodeState} {r : Res}
    {o : List Output} (h : applyCmd c s now e = some (s', r, o)) :
    s'.sm = s.sm ++ idsOf e ∧ s'.waiting = s.waiting ∧ s'.lastApplied = s.lastApplied ∧
    r = resOf s.sm s.enabledVer e ∧ s'.enabledVer = verOf s.enabledVer e := by
  obtain ⟨cmd, idx, term⟩ := e
  cases cmd with
  | noop =>
    simp only [applyCmd, Option.some.injEq, Prod.mk.injEq] at h
    obtain ⟨rfl, rfl, _⟩ := h
    simp [idsOf, resOf, verOf]
  | regular id raises =>
    simp only [applyCmd, Option.some.injEq, Prod.mk.injEq] at h
    obtain ⟨rfl, rfl, _⟩ := h
    simp [idsOf, resOf, verOf]
  | version v =>
    simp only [applyCmd] at h
    split at h
    · cases h
    · split at h
      · next hlt =>
        simp only [Option.some.injEq, Prod.mk.injEq] at h
        obtain ⟨rfl, rfl, _⟩ := h
        simp only [idsOf, resOf, verOf, List.append_nil, if_pos hlt, true_and]
        omega
      · next hge =>
        simp only [Option.some.injEq, Prod.mk.injEq] at h
        obtain ⟨rfl, rfl, _⟩ := h
        simp only [idsOf, resOf, verOf, List.append_nil, if_neg hge, true_and]
        omega
  | membership a n =>
    simp only [applyCmd, Option.some.injEq, Prod.mk.injEq] at h
    obtain ⟨rfl, rfl, _⟩ := h
    simp [idsOf, resOf, verOf]

/-! ## progress and state-machine content -/

/-- The loop applies exactly the applicable prefix: `lastApplied` advances by its length and the state
machine grows by its regular ids — raising commands included. -/
theorem applyLoop_applied_sm (c : Config) (now : Nat) (es : List Entry) :
    ∀ s : NodeState,
      (applyLoop c now es s).1.lastApplied = s.lastApplied + (applicable c es).length ∧
      (applyLoop c now es s).1.sm = s.sm ++ regularIds (applicable c es) := by
  induction es with
  | nil => intro s; simp [applyLoop, applicable, regularIds]
  | cons e es ih =>
    intro s
    simp only [applyLoop]
    split
    · next h =>
      have hs := (applyCmd_none_iff c _ now e).mp h
      simp [applicable, List.takeWhile_cons, hs, regularIds]
    · next s1 res o1 h =>
      have hsup : supported c e = true := by
        cases hs : supported c e
        · rw [(applyCmd_none_iff c _ now e).mpr hs] at h; cases h
        · rfl
      obtain ⟨hsm, _, hla, _, _⟩ := applyCmd_some h
      obtain ⟨ih1, ih2⟩ := ih { s1 with lastApplied := s1.lastApplied + 1 }
      simp only [applicable, List.takeWhile_cons, hsup, if_true, List.length_cons] at ih1 ih2 ⊢
      refine ⟨?_, ?_⟩
      · rw [ih1]; simp only [hla]; omega
      · rw [ih2]; simp only [hsm, regularIds, List.flatMap_cons, List.append_assoc]

theorem applicable_all {c : Config} {es : List Entry} (h : ∀ e ∈ es, supported c e = true) : applicable c es = es := by
  unfold applicable
  induction es with
  | nil => rfl
  | cons e es ih =>
    rw [List.takeWhile_cons, h e (List.mem_cons_self ..), if_pos rfl, ih (fun x hx => h x (List.mem_cons_of_mem _ hx))]

/-- Number of entries `__getEntries(lastApplied+1, commit-lastApplied)` returns when the range is in the log. -/
theorem getEntries_length (log : List Entry) (hwf : LogWF log) (frm count : Nat)
    (h1 : firstIdx log ≤ frm) (h2 : frm + count ≤ lastIdx log + 1) (hne : log ≠ []) :
    (getEntries log frm count).length = count := by
  unfold getEntries
  rw [if_neg (by omega)]
  have := lastIdx_of_wf log hwf hne
  simp only [List.length_take, List.length_drop]
  omega

/-- **progress** for `__applyLogEntries`: when the committed range is in the log and contains no
unsupported VERSION entry (and the enabled version is supported, D21), the loop runs to the end of the
range — past every raising command: afterwards `lastApplied = commit`. -/
theorem applyEntries_progress (c : Config) (s : NodeState) (now : Nat)
    (hver : ¬ c.selfVer < s.enabledVer) (hwf : LogWF s.log) (hne : s.log ≠ [])
    (hfirst : firstIdx s.log ≤ s.lastApplied + 1) (hlast : s.commit ≤ lastIdx s.log)
    (hsup : ∀ e ∈ getEntries s.log (s.lastApplied + 1) (s.commit - s.lastApplied), supported c e = true) :
    (applyEntries c s now).1.lastApplied = max s.lastApplied s.commit := by
  unfold applyEntries
  rw [if_neg hver]
  split
  · next hlt =>
    rw [(applyLoop_applied_sm c now _ s).1, applicable_all hsup,
      getEntries_length s.log hwf _ _ hfirst (by omega) hne]
    omega
  · next hge => simp only; omega

/-- The state machine after `__applyLogEntries` = before ++ the regular ids of the applied entries. -/
theorem applyEntries_sm (c : Config) (s : NodeState) (now : Nat) :
    (applyEntries c s now).1.sm =
      s.sm ++ regularIds (if c.selfVer < s.enabledVer ∨ ¬ s.lastApplied < s.commit then []
                          else applicable c (getEntries s.log (s.lastApplied + 1) (s.commit - s.lastApplied))) := by
  unfold applyEntries
  split
  · next h => simp [h, regularIds]
  · next h =>
    split
    · next h2 => rw [(applyLoop_applied_sm c now _ s).2]; simp [h, h2]
    · next h2 => simp [h2, regularIds]

/-! ## the enabled code version -/

/-- The loop leaves the enabled version at `verAfter` of the applied entries: it changes exactly at applied
VERSION entries that are not below it (D71). -/
theorem applyLoop_enabledVer (c : Config) (now : Nat) (es : List Entry) :
    ∀ s : NodeState, (applyLoop c now es s).1.enabledVer = verAfter s.enabledVer (applicable c es) := by
  induction es with
  | nil => intro s; rfl
  | cons e es ih =>
    intro s
    simp only [applyLoop]
    split
    · next h =>
      have hs := (applyCmd_none_iff c _ now e).mp h
      simp [applicable, List.takeWhile_cons, hs, verAfter]
    · next s1 res o1 h =>
      have hsup : supported c e = true := by
        cases hs : supported c e
        · rw [(applyCmd_none_iff c _ now e).mpr hs] at h; cases h
        · rfl
      obtain ⟨_, _, _, _, hver⟩ := applyCmd_some h
      have := ih { s1 with lastApplied := s1.lastApplied + 1 }
      simp only [applicable, List.takeWhile_cons, hsup, if_true] at this ⊢
      rw [this]
      show verAfter s1.enabledVer _ = verAfter s.enabledVer (e :: _)
      rw [hver]
      rfl

/-- **enabledVer_mono** (loop): the enabled code version never decreases along `applyLoop`. -/
theorem applyLoop_enabledVer_mono (c : Config) (now : Nat) (es : List Entry) (s : NodeState) :
    s.enabledVer ≤ (applyLoop c now es s).1.enabledVer := by
  rw [applyLoop_enabledVer]
  exact verAfter_ge _ _

/-- … along `__applyLogEntries` -/
theorem applyEntries_enabledVer_mono (c : Config) (s : NodeState) (now : Nat) :
    s.enabledVer ≤ (applyEntries c s now).1.enabledVer := by
  unfold applyEntries
  split
  · exact Nat.le_refl _
  · split
    · exact applyLoop_enabledVer_mono c now _ s
    · exact Nat.le_refl _

/-! ## callbacks -/

def isCallback : Output → Bool
  | .callback _ _ _ _ => true
  | _ => false

/-- subscribers registered for index `j` (`self.__commandsWaitingCommit.get(j, [])`) -/
def subsOf (w : List (Nat × List (Nat × Nat))) (j : Nat) : List (Nat × Nat) := (wget w j).getD []

/-- The callbacks a batch must produce: a pure function of the waiting table, the state machine content and the
enabled code version before the batch, and the applied entries.  Every subscriber `(term, cb)` of an applied index
gets exactly one call: `(result, SUCCESS)` when its term is the entry's term, `(None, DISCARDED)` otherwise. -/
def expectedCallbacks (w : List (Nat × List (Nat × Nat))) : List Nat → Nat → List Entry → List Output
  | _, _, [] => []
  | sm, ver, e :: es =>
    callbacksFor e (resOf sm ver e) (subsOf w e.idx) ++ expectedCallbacks w (sm ++ idsOf e) (verOf ver e) es

theorem wget_wdel_ne (w : List (Nat × List (Nat × Nat))) (k j : Nat) (h : j ≠ k) : wget (wdel w k) j = wget w j := by
  unfold wdel
  induction w with
  | nil => rfl
  | cons p rest ih =>
    obtain ⟨a, b⟩ := p
    by_cases ha : a = k
    · subst ha
      have hj : ¬ a = j := fun e => h e.symm
      have : decide (a ≠ a) = false := by simp
      simp only [List.filter_cons, this, wget, hj, if_false]
      exact ih
    · have : decide (a ≠ k) = true := by simp [ha]
      simp only [List.filter_cons, this, if_true, wget]
      by_cases hj : a = j
      · simp [hj]
      · simp only [hj, if_false]; exact ih

theorem wget_wdel_self (w : List (Nat × List (Nat × Nat))) (k : Nat) : wget (wdel w k) k = none := by
  unfold wdel
  induction w with
  | nil => rfl
  | cons p rest ih =>
    obtain ⟨a, b⟩ := p
    by_cases ha : a = k
    · subst ha
      have : decide (a ≠ a) = false := by simp
      simp only [List.filter_cons, this]
      exact ih
    · have : decide (a ≠ k) = true := by simp [ha]
      simp only [List.filter_cons, this, if_true, wget, ha, if_false]
      exact ih

theorem wget_append_self (w : List (Nat × List (Nat × Nat))) (k : Nat) (v : List (Nat × Nat))
    (h : wget w k = none) : wget (w ++ [(k, v)]) k = some v := by
  induction w with
  | nil => simp [wget]
  | cons p rest ih =>
    obtain ⟨a, b⟩ := p
    by_cases ha : a = k
    · simp [wget, ha] at h
    · simp only [wget, ha, if_false] at h
      simp only [List.cons_append, wget, ha, if_false]
      exact ih h

theorem wget_append_ne (w : List (Nat × List (Nat × Nat))) (k j : Nat) (v : List (Nat × Nat)) (h : j ≠ k) :
    wget (w ++ [(k, v)]) j = wget w j := by
  induction w with
  | nil =>
    have : ¬ k = j := fun e => h e.symm
    simp [wget, this]
  | cons p rest ih =>
    obtain ⟨a, b⟩ := p
    by_cases hj : a = j
    · simp [wget, hj]
    · simp [wget, hj, ih]

/-- Popping the subscribers of `k` and putting them back (D10) leaves every subscriber list as it was. -/
theorem subsOf_restore (w : List (Nat × List (Nat × Nat))) (k j : Nat) :
    subsOf (if subsOf w k = [] then wdel w k else wdel w k ++ [(k, subsOf w k)]) j = subsOf w j := by
  unfold subsOf
  by_cases hj : j = k
  · subst hj
    split
    · next h => rw [wget_wdel_self]; exact h.symm
    · rw [wget_append_self _ _ _ (wget_wdel_self w j)]; rfl
  · split
    · rw [wget_wdel_ne _ _ _ hj]
    · rw [wget_append_ne _ _ _ _ hj, wget_wdel_ne _ _ _ hj]

theorem expectedCallbacks_congr (w w' : List (Nat × List (Nat × Nat))) (es : List Entry)
    (h : ∀ e ∈ es, subsOf w' e.idx = subsOf w e.idx) :
    ∀ sm ver, expectedCallbacks w' sm ver es = expectedCallbacks w sm ver es := by
  induction es with
  | nil => intro sm ver; rfl
  | cons e es ih =>
    intro sm ver
    simp only [expectedCallbacks]
    rw [h e (List.mem_cons_self ..), ih (fun e' he' => h e' (List.mem_cons_of_mem _ he'))]

theorem filter_isCallback_callbacksFor (e : Entry) (res : Res) (subs : List (Nat × Nat)) :
    (callbacksFor e res subs).filter isCallback = callbacksFor e res subs := by
  apply List.filter_eq_self.mpr
  intro o ho
  unfold callbacksFor at ho
  obtain ⟨p, _, rfl⟩ := List.mem_map.mp ho
  split <;> rfl

theorem changeCluster_no_isCallback (s : NodeState) (now : Nat) (add : Bool) (n : Nat) :
    (changeCluster s now add n).2.filter isCallback = [] := by
  unfold changeCluster
  repeat' split
  all_goals rfl

theorem applyCmd_no_isCallback {c : Config} {s : NodeState} {now : Nat} {e : Entry} {s' : NodeState} {r : Res}
    {o : List Output} (h : applyCmd c s now e = some (s', r, o)) : o.filter isCallback = [] := by
  unfold applyCmd at h
  split at h
  · cases h; rfl
  · split at h
    · cases h
    · split at h
      · cases h; rfl
      · cases h; rfl
  · cases h; rfl
  · cases h; rfl

theorem applicable_subset (c : Config) (es : List Entry) : ∀ e ∈ applicable c es, e ∈ es := by
  unfold applicable
  induction es with
  | nil => intro e h; cases h
  | cons a es ih =>
    intro e h
    rw [List.takeWhile_cons] at h
    split at h
    · rcases List.mem_cons.mp h with rfl | h
      · exact List.mem_cons_self ..
      · exact List.mem_cons_of_mem _ (ih e h)
    · cases h

/-- **callback_once** (loop level). With distinct entry indices, the callbacks the loop emits are exactly
`expectedCallbacks` of the applied entries, in order; the applied indices have no subscribers left (so no
later batch can call them again) and every other index keeps its subscribers. -/
theorem applyLoop_callbacks (c : Config) (now : Nat) (es : List Entry) :
    ∀ s : NodeState, (es.map (·.idx)).Nodup →
      (applyLoop c now es s).2.filter isCallback = expectedCallbacks s.waiting s.sm s.enabledVer (applicable c es) ∧
      (∀ e ∈ applicable c es, subsOf (applyLoop c now es s).1.waiting e.idx = []) ∧
      (∀ j, (∀ e ∈ applicable c es, e.idx ≠ j) → subsOf (applyLoop c now es s).1.waiting j = subsOf s.waiting j) := by
  induction es with
  | nil => intro s _; simp [applyLoop, applicable, expectedCallbacks]
  | cons e es ih =>
    intro s hnd
    have hnd' : (es.map (·.idx)).Nodup := (List.nodup_cons.mp hnd).2
    have hnotin : ∀ e' ∈ es, e'.idx ≠ e.idx := by
      intro e' he' heq
      exact (List.nodup_cons.mp hnd).1 (List.mem_map.mpr ⟨e', he', heq⟩)
    simp only [applyLoop]
    split
    · next h =>
      have hs := (applyCmd_none_iff c _ now e).mp h
      have happ : applicable c (e :: es) = [] := by simp [applicable, List.takeWhile_cons, hs]
      rw [happ]
      refine ⟨rfl, fun _ h => (by cases h), fun j _ => ?_⟩
      exact subsOf_restore s.waiting e.idx j
    · next s1 res o1 h =>
      have hsup : supported c e = true := by
        cases hs : supported c e
        · rw [(applyCmd_none_iff c _ now e).mpr hs] at h; cases h
        · rfl
      obtain ⟨hsm, hw, _, hres, hver⟩ := applyCmd_some h
      have happ : applicable c (e :: es) = e :: applicable c es := by
        simp [applicable, List.takeWhile_cons, hsup]
      have hw1 : ({ s1 with lastApplied := s1.lastApplied + 1 } : NodeState).waiting = wdel s.waiting e.idx := hw
      have hsm1 : ({ s1 with lastApplied := s1.lastApplied + 1 } : NodeState).sm = s.sm ++ idsOf e := hsm
      have hver1 : ({ s1 with lastApplied := s1.lastApplied + 1 } : NodeState).enabledVer = verOf s.enabledVer e := hver
      generalize ({ s1 with lastApplied := s1.lastApplied + 1 } : NodeState) = s2 at hw1 hsm1 hver1 ⊢
      obtain ⟨ih1, ih2, ih3⟩ := ih s2 hnd'
      rw [hw1, hsm1, hver1] at ih1
      rw [hw1] at ih3
      have hkeep : ∀ e' ∈ applicable c es, subsOf (wdel s.waiting e.idx) e'.idx = subsOf s.waiting e'.idx := by
        intro e' he'
        unfold subsOf
        rw [wget_wdel_ne _ _ _ (hnotin e' (applicable_subset c es e' he'))]
      rw [happ]
      refine ⟨?_, ?_, ?_⟩
      · simp only [List.filter_append, applyCmd_no_isCallback h, List.nil_append,
          filter_isCallback_callbacksFor, expectedCallbacks]
        rw [ih1, expectedCallbacks_congr _ _ _ hkeep]
        have : res = resOf s.sm s.enabledVer e := hres
        rw [this]
        rfl
      · intro e' he'
        rcases List.mem_cons.mp he' with rfl | he'
        · have := ih3 e'.idx (fun x hx => hnotin x (applicable_subset c es x hx))
          rw [this]
          unfold subsOf; rw [wget_wdel_self]; rfl
        · exact ih2 e' he'
      · intro j hj
        have hje : e.idx ≠ j := hj e (List.mem_cons_self ..)
        rw [ih3 j (fun x hx => hj x (List.mem_cons_of_mem _ hx))]
        unfold subsOf
        rw [wget_wdel_ne _ _ _ (fun h => hje h.symm)]

/-- Index fields of the entries `__getEntries` returns from a well-formed log are pairwise distinct. -/
theorem getEntries_nodup (log : List Entry) (hwf : LogWF log) (frm count : Nat) :
    ((getEntries log frm count).map (·.idx)).Nodup := by
  unfold getEntries
  split
  · exact List.nodup_nil
  · rw [List.nodup_iff_pairwise_ne, List.pairwise_map, List.pairwise_iff_getElem]
    intro i j hi hj hij
    simp only [List.getElem_take, List.getElem_drop]
    simp only [List.length_take, List.length_drop] at hi hj
    rw [hwf _ (by omega), hwf _ (by omega)]
    omega

/-- **callback_once** for `__applyLogEntries`. -/
theorem applyEntries_callbacks (c : Config) (s : NodeState) (now : Nat) (hwf : LogWF s.log)
    (hver : ¬ c.selfVer < s.enabledVer) (hlt : s.lastApplied < s.commit) :
    let es := getEntries s.log (s.lastApplied + 1) (s.commit - s.lastApplied)
    (applyEntries c s now).2.1.filter isCallback = expectedCallbacks s.waiting s.sm s.enabledVer (applicable c es) ∧
    (∀ e ∈ applicable c es, subsOf (applyEntries c s now).1.waiting e.idx = []) ∧
    (∀ j, (∀ e ∈ applicable c es, e.idx ≠ j) → subsOf (applyEntries c s now).1.waiting j = subsOf s.waiting j) := by
  intro es
  unfold applyEntries
  rw [if_neg hver, if_pos hlt]
  exact applyLoop_callbacks c now es s (getEntries_nodup s.log hwf _ _)

/-! ## every subscriber exactly once -/

/-- How often callback `cb` of index `idx` occurs in an output list. -/
def callCount (idx cb : Nat) (outs : List Output) : Nat :=
  (outs.filter (fun o => match o with
    | .callback i k _ _ => decide (i = idx ∧ k = cb)
    | _ => false)).length

theorem callCount_append (idx cb : Nat) (a b : List Output) :
    callCount idx cb (a ++ b) = callCount idx cb a + callCount idx cb b := by
  simp [callCount, List.filter_append]

theorem callCount_callbacksFor (e : Entry) (res : Res) (subs : List (Nat × Nat)) (idx cb : Nat) :
    callCount idx cb (callbacksFor e res subs) =
      if e.idx = idx then (subs.filter (fun p => decide (p.2 = cb))).length else 0 := by
  unfold callbacksFor
  induction subs with
  | nil => simp [callCount]
  | cons p rest ih =>
    have hcons : callCount idx cb (List.map (fun p : Nat × Nat =>
          if p.1 = e.term then Output.callback e.idx p.2 res Fail.success
          else Output.callback e.idx p.2 Res.none Fail.discarded) (p :: rest)) =
        (if e.idx = idx ∧ p.2 = cb then 1 else 0) +
        callCount idx cb (List.map (fun p : Nat × Nat =>
          if p.1 = e.term then Output.callback e.idx p.2 res Fail.success
          else Output.callback e.idx p.2 Res.none Fail.discarded) rest) := by
      simp only [List.map_cons]
      rw [show ∀ (x : Output) (l : List Output), x :: l = [x] ++ l from fun _ _ => rfl, callCount_append]
      congr 1
      unfold callCount
      split <;> (simp only [List.filter_cons, List.filter_nil]; split <;> simp_all)
    rw [hcons, ih]
    by_cases h1 : e.idx = idx
    · by_cases h2 : p.2 = cb
      · simp [h1, h2, List.filter_cons]; omega
      · simp [h1, h2, List.filter_cons]
    · simp [h1]

/-- In `expectedCallbacks` over entries with distinct indices, a subscriber `cb` of an applied index is
called as many times as it is registered there — once, when callback ids are not registered twice — and
subscribers of other indices are not called. -/
theorem callCount_expected (w : List (Nat × List (Nat × Nat))) (idx cb : Nat) (es : List Entry) :
    (es.map (·.idx)).Nodup → ∀ sm ver,
      callCount idx cb (expectedCallbacks w sm ver es) =
        if idx ∈ es.map (·.idx) then ((subsOf w idx).filter (fun p => decide (p.2 = cb))).length else 0 := by
  induction es with
  | nil => intro _ sm ver; simp [expectedCallbacks, callCount]
  | cons e es ih =>
    intro hnd sm ver
    have hnd' := (List.nodup_cons.mp hnd).2
    have hnot := (List.nodup_cons.mp hnd).1
    simp only [expectedCallbacks, callCount_append, callCount_callbacksFor, ih hnd', List.map_cons, List.mem_cons]
    by_cases h1 : e.idx = idx
    · subst h1
      simp [hnot]
    · have : ¬ idx = e.idx := fun h => h1 h.symm
      simp [h1, this]

end PSO.NodeTick

namespace PSO.NodeTick
open PSO.Raft (Role isMajority)

/-! ## glue: what the tick does before / after `__applyLogEntries` -/

/-- The state `__applyLogEntries` runs on inside `_onTick`. -/
def preApply (c : Config) (s : NodeState) (now rand : Nat) : NodeState :=
  (leaderPhase c (electionPhase c s now rand).1 now).1

theorem electionPhase_keeps (c : Config) (s : NodeState) (now rand : Nat) :
    (electionPhase c s now rand).1.sm = s.sm ∧ (electionPhase c s now rand).1.waiting = s.waiting ∧
    (electionPhase c s now rand).1.enabledVer = s.enabledVer := by
  unfold electionPhase
  split
  · exact ⟨rfl, rfl, rfl⟩
  · split
    · exact ⟨rfl, rfl, rfl⟩
    · split
      · simp only [setRole, leaderChanged]
        split <;> exact ⟨rfl, rfl, rfl⟩
      · exact ⟨rfl, rfl, rfl⟩

theorem leaderPhase_keeps (c : Config) (s : NodeState) (now : Nat) :
    (leaderPhase c s now).1.sm = s.sm ∧ (leaderPhase c s now).1.waiting = s.waiting ∧
    (leaderPhase c s now).1.enabledVer = s.enabledVer := by
  rw [leaderPhase_eq]
  repeat' split
  all_goals exact ⟨rfl, rfl, rfl⟩

/-- Before the apply step a tick has not touched the state machine, the waiting table, the enabled version
or `lastApplied`. -/
theorem preApply_keeps (c : Config) (s : NodeState) (now rand : Nat) :
    (preApply c s now rand).sm = s.sm ∧ (preApply c s now rand).waiting = s.waiting ∧
    (preApply c s now rand).enabledVer = s.enabledVer ∧ (preApply c s now rand).lastApplied = s.lastApplied := by
  unfold preApply
  obtain ⟨a1, a2, a3⟩ := electionPhase_keeps c s now rand
  obtain ⟨b1, b2, b3⟩ := leaderPhase_keeps c (electionPhase c s now rand).1 now
  exact ⟨b1.trans a1, b2.trans a2, b3.trans a3, (leaderPhase_applied c _ now).trans (electionPhase_applied c s now rand)⟩

/-- After the apply step a tick only sets the ready flag. -/
theorem tick_after_apply (c : Config) (s : NodeState) (now rand : Nat) :
    (tick c s now rand).1.sm = (applyEntries c (preApply c s now rand) now).1.sm ∧
    (tick c s now rand).1.lastApplied = (applyEntries c (preApply c s now rand) now).1.lastApplied ∧
    (tick c s now rand).1.waiting = (applyEntries c (preApply c s now rand) now).1.waiting ∧
    (tick c s now rand).1.commit = (preApply c s now rand).commit := by
  refine ⟨?_, ?_, ?_, tick_commit c s now rand⟩
  · rw [tick_fst, readyPhase_sm]; rfl
  · rw [tick_fst, readyPhase_applied]; rfl
  · rw [tick_fst, readyPhase_waiting]; rfl

theorem supported_congr {c1 c2 : Config} (h : c1.selfVer = c2.selfVer) : supported c1 = supported c2 := by
  funext e
  unfold supported
  rw [h]

theorem applicable_append_of_all (c : Config) (es1 es2 : List Entry) (h : ∀ e ∈ es1, supported c e = true) :
    applicable c (es1 ++ es2) = es1 ++ applicable c es2 := by
  unfold applicable
  induction es1 with
  | nil => rfl
  | cons e es ih =>
    rw [List.cons_append, List.takeWhile_cons, h e (List.mem_cons_self ..), if_pos rfl,
      ih (fun x hx => h x (List.mem_cons_of_mem _ hx))]
    rfl

theorem callCount_filter (idx cb : Nat) (outs : List Output) :
    callCount idx cb (outs.filter isCallback) = callCount idx cb outs := by
  unfold callCount
  rw [List.filter_filter]
  congr 1
  apply List.filter_congr
  intro o _
  cases o <;> simp [isCallback]

@[simp] theorem readyPhase_enabledVer (s : NodeState) : (readyPhase s).1.enabledVer = s.enabledVer := by
  rcases readyPhase_fst s with h | h <;> rw [h]

/-- **enabledVer_mono**: the enabled code version never decreases along a whole `_onTick` (the election-timeout
and leader branches leave it alone, the apply loop only raises it, `onReady` leaves it alone). -/
theorem enabledVer_mono (c : Config) (s : NodeState) (now rand : Nat) :
    s.enabledVer ≤ (tick c s now rand).1.enabledVer := by
  rw [tick_fst, readyPhase_enabledVer]
  have h := applyEntries_enabledVer_mono c (preApply c s now rand) now
  rw [(preApply_keeps c s now rand).2.2.1] at h
  exact h

end PSO.NodeTick
