import PSO.Proofs.FramingReader

/-! Writer lemmas: the invariant "bytes handed to the socket ++ write buffer = frames of everything sent
since the socket was created" through every event. -/
namespace PSO.Framing

variable {Msg : Type}

/-- `F` = the frames of all messages sent since the last `connect`, concatenated -/
def WInv (F : Bytes) (c : Conn Msg) : Prop :=
  c.wire <+: F ∧ (c.state ≠ .disconnected → c.wire ++ c.wbuf = F)

theorem WInv_of_same {F : Bytes} {c c' : Conn Msg} (hw : c'.wire = c.wire)
    (hb : c'.state ≠ .disconnected → c'.wbuf = c.wbuf ∧ c.state ≠ .disconnected) (h : WInv F c) : WInv F c' := by
  refine ⟨by rw [hw]; exact h.1, fun hs => ?_⟩
  obtain ⟨h1, h2⟩ := hb hs
  rw [hw, h1]; exact h.2 h2

theorem WInv_disconnect {F : Bytes} {c : Conn Msg} (h : WInv F c) : WInv F (disconnect c) :=
  ⟨h.1, fun hs => absurd rfl hs⟩

theorem WInv_timeoutCheck {F : Bytes} (cfg : Cfg Msg) {c : Conn Msg} (now : Nat) (h : WInv F c) :
    WInv F (timeoutCheck cfg c now) := by
  unfold timeoutCheck; split
  · exact WInv_disconnect h
  · exact h

theorem WInv_sendLoop {F : Bytes} (s : List SendRes) : ∀ {c : Conn Msg}, c.state ≠ .disconnected → WInv F c →
    WInv F (sendLoop c s) := by
  induction s with
  | nil => intro c _ h; exact h
  | cons r rest ih =>
    intro c hs h
    unfold sendLoop
    split
    · exact h
    · cases r with
      | again => exact h
      | err => exact WInv_disconnect h
      | ret k =>
        simp only
        split
        · exact WInv_disconnect h
        · split
          · exact h
          · apply ih (c := { c with wbuf := c.wbuf.drop k.toNat, wire := c.wire ++ c.wbuf.take k.toNat }) hs
            have hF := h.2 hs
            constructor
            · show c.wire ++ c.wbuf.take k.toNat <+: F
              rw [← hF]
              exact List.prefix_append_right_inj _ |>.mpr (List.take_prefix _ _)
            · intro _
              show c.wire ++ c.wbuf.take k.toNat ++ c.wbuf.drop k.toNat = F
              rw [List.append_assoc, List.take_append_drop]; exact hF

theorem WInv_trySend {F : Bytes} (cfg : Cfg Msg) {c : Conn Msg} (now : Nat) (s : List SendRes) (h : WInv F c) :
    WInv F (trySend cfg c now s) := by
  unfold trySend
  simp only
  split
  · exact WInv_timeoutCheck cfg now h
  · rename_i hs
    have h1 := WInv_sendLoop s hs (WInv_timeoutCheck cfg now h)
    split
    · exact WInv_of_same (c := sendLoop (timeoutCheck cfg c now) s) rfl (fun hs' => ⟨rfl, hs'⟩) h1
    · exact h1

theorem WInv_recvLoop {F : Bytes} (r : List RecvRes) : ∀ {c : Conn Msg}, WInv F c → WInv F (recvLoop c r) := by
  induction r with
  | nil => intro c h; exact h
  | cons x rest ih =>
    intro c h
    cases x with
    | again => exact h
    | err => exact WInv_disconnect h
    | data bs so =>
      unfold recvLoop
      split
      · exact WInv_disconnect h
      · split
        · exact WInv_disconnect h
        · exact ih (WInv_of_same (c := c) rfl (fun hs => ⟨rfl, hs⟩) h)

theorem WInv_parseLoop {F : Bytes} (cfg : Cfg Msg) (c : Conn Msg) : WInv F c → WInv F (parseLoop cfg c) := by
  refine parseLoop_induct cfg (fun c c' => WInv F c → WInv F c') ?_ ?_ ?_ ?_ c
  · intro c _ h; exact h
  · intro c _ h; exact WInv_disconnect h
  · intro c m rest _ _ h
    exact WInv_disconnect (WInv_of_same (c := c) (c' := { c with rbuf := rest, delivered := c.delivered ++ [m] })
      rfl (fun hs => ⟨rfl, hs⟩) h)
  · intro c m rest _ _ ih h
    exact ih (WInv_of_same (c := c) rfl (fun hs => ⟨rfl, hs⟩) h)

theorem WInv_readPart {F : Bytes} (cfg : Cfg Msg) {c : Conn Msg} (now : Nat) (r : List RecvRes) (h : WInv F c) :
    WInv F (readPart cfg c now r) := by
  unfold readPart
  simp only
  have h1 : WInv F ({ recvLoop c r with lastRead := now } : Conn Msg) :=
    WInv_of_same (c := recvLoop c r) rfl (fun hs => ⟨rfl, hs⟩) (WInv_recvLoop r h)
  split
  · exact h1
  · exact WInv_parseLoop cfg _ h1

theorem WInv_writePart {F : Bytes} (cfg : Cfg Msg) {c : Conn Msg} (now : Nat) (s : List SendRes) (h : WInv F c) :
    WInv F (writePart cfg c now s) := by
  unfold writePart
  simp only
  split
  · exact WInv_trySend cfg now s h
  · exact WInv_of_same (c := trySend cfg c now s) rfl (fun hs => ⟨rfl, hs⟩) (WInv_trySend cfg now s h)

theorem WInv_poll {F : Bytes} (cfg : Cfg Msg) {c : Conn Msg} (e : PollEv) (h : WInv F c) : WInv F (poll cfg c e) := by
  unfold poll
  split
  · exact h
  · split
    · exact WInv_disconnect h
    · simp only
      have ht := WInv_timeoutCheck cfg e.now h
      split
      · exact ht
      · split
        · exact WInv_disconnect ht
        · split
          · have hconn : WInv F ({ timeoutCheck cfg c e.now with state := .connected, lastRead := e.now } : Conn Msg) := by
              refine WInv_of_same (c := timeoutCheck cfg c e.now) rfl (fun _ => ⟨rfl, ?_⟩) ht
              assumption
            split
            · exact WInv_disconnect hconn
            · exact hconn
          · have key : ∀ c1 : Conn Msg, WInv F c1 →
                WInv F (if c1.state = .disconnected then c1
                        else if e.rd then readPart cfg c1 e.now e.recvs else c1) := by
              intro c1 h1
              split
              · exact h1
              · split
                · exact WInv_readPart cfg e.now e.recvs h1
                · exact h1
            cases hwr : e.wr with
            | true => exact key _ (WInv_writePart cfg e.now e.sends ht)
            | false => exact key _ ht

theorem WInv_send {F : Bytes} (cfg : Cfg Msg) {c : Conn Msg} (m : Msg) (now : Nat) (s : List SendRes)
    (hsz : (cfg.enc m).length < 2147483648) (h : WInv F c) :
    WInv (F ++ frame (cfg.enc m)) (send cfg c m now s) := by
  unfold send
  simp only [hsz, if_true]
  apply WInv_trySend
  constructor
  · exact h.1.trans (List.prefix_append _ _)
  · intro hs
    show c.wire ++ (c.wbuf ++ frame (cfg.enc m)) = F ++ frame (cfg.enc m)
    rw [← List.append_assoc, h.2 hs]

theorem WInv_connect (c : Conn Msg) (ok : Bool) (now : Nat) : WInv ([] : Bytes) (connect c ok now) :=
  ⟨List.prefix_rfl, fun _ => rfl⟩

/-- the messages whose frames were put into the write buffer since the socket was created -/
def sentLog (cfg : Cfg Msg) : List Msg → List (Ev Msg) → List Msg
  | log, [] => log
  | log, .send m _ _ :: evs => sentLog cfg (if (cfg.enc m).length < 2147483648 then log ++ [m] else log) evs
  | _, .connect _ _ :: evs => sentLog cfg [] evs
  | log, .poll _ :: evs => sentLog cfg log evs
  | log, .disconnect :: evs => sentLog cfg log evs

theorem WInv_run (cfg : Cfg Msg) (evs : List (Ev Msg)) : ∀ (c : Conn Msg) (log : List Msg),
    WInv (frames cfg log) c → WInv (frames cfg (sentLog cfg log evs)) (run cfg c evs) := by
  induction evs with
  | nil => intro c log h; exact h
  | cons ev evs ih =>
    intro c log h
    simp only [run, List.foldl_cons]
    cases ev with
    | send m now s =>
      simp only [sentLog, step]
      by_cases hsz : (cfg.enc m).length < 2147483648
      · simp only [hsz, if_true]
        apply ih
        rw [frames_append]
        simpa [frames] using WInv_send cfg m now s hsz h
      · simp only [hsz, if_false]
        apply ih
        simpa [send, hsz] using h
    | poll e => exact ih _ log (WInv_poll cfg e h)
    | disconnect => exact ih _ log (WInv_disconnect h)
    | connect ok now =>
      simp only [sentLog, step]
      apply ih
      simpa [frames] using WInv_connect c ok now

end PSO.Framing
