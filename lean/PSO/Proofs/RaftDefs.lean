import PSO.Model.Raft

/-!
# Invariants of the protocol model (DESIGN.md §4.2)

Three groups, each preserved by every action given the earlier groups:
`InvE` (terms, votes, election), `InvL` (logs, term logs, messages), `InvS` (acknowledgements,
blocked/chosen, leader completeness, commit).
-/
namespace PSO.Raft

/-- `a` and `b` agree on positions `0..i`. -/
def Agree (a b : List Entry) (i : Nat) : Prop := a.take (i + 1) = b.take (i + 1)

/-- Position `i` of the log of term `t` holds an entry created in term `t`. -/
def OwnPos (g : Ghost) (t i : Nat) : Prop :=
  0 < t ∧ i < (g.termLog t).length ∧ termAt (g.termLog t) i = t

def IsQuorum (N : Nat) (Q : List Nat) : Prop :=
  Q.Nodup ∧ (∀ q ∈ Q, q < N) ∧ N < 2 * Q.length

/-- A majority has left term `t` without confirming position `i`: `(t, i)` can never be chosen. -/
def Blocked (N : Nat) (s : State) (t i : Nat) : Prop :=
  ∃ B, IsQuorum N B ∧ ∀ b ∈ B, t < (s.nodes b).term ∧ s.g.acked t b < i

/-- A majority confirmed, in term `t`, the log of term `t` up to its own-term position `i`. -/
def Chosen (N : Nat) (s : State) (t i : Nat) : Prop :=
  OwnPos s.g t i ∧ ∃ Q, IsQuorum N Q ∧ ∀ q ∈ Q, i ≤ s.g.acked t q

/-- `P` is (a prefix of) a chosen prefix, witnessed by a term `≤ bound`. -/
def Cmt (N : Nat) (s : State) (bound : Nat) (P : List Entry) : Prop :=
  P = [sentinel] ∨ ∃ t i, t ≤ bound ∧ Chosen N s t i ∧ P <+: s.g.termLog t ∧ P.length ≤ i + 1

def Msg.isLogMsg : Msg → Bool
  | .reqVote .. => true
  | .append .. => true
  | .snapshot .. => true
  | _ => false

/-- Voters of the in-flight `vote` messages for candidate `c` in term `t`. -/
def inflight (msgs : List Msg) (t c : Nat) : List Nat :=
  msgs.filterMap fun m => match m with
    | .vote t' v c' => if t' = t ∧ c' = c then some v else none
    | _ => none

structure InvE (N : Nat) (s : State) : Prop where
  voted_le   : ∀ t n c, s.g.voted t n = some c → t ≤ (s.nodes n).term
  voted_cur  : ∀ n, s.g.voted (s.nodes n).term n = (s.nodes n).votedFor
  vote_msg   : ∀ t v c, Msg.vote t v c ∈ s.msgs → s.g.voted t v = some c ∧ v < N ∧ v ≠ c
  vc_nodup   : ∀ t c, (s.g.counted t c ++ inflight s.msgs t c).Nodup
  vc_voted   : ∀ t c v, v ∈ s.g.counted t c → s.g.voted t v = some c ∧ v < N ∧ v ≠ c
  vc_votes   : ∀ n, (s.nodes n).role = .candidate →
                 (s.nodes n).votes = 1 + (s.g.counted (s.nodes n).term n).length
  self_vote  : ∀ n, (s.nodes n).role ≠ .follower →
                 s.g.voted (s.nodes n).term n = some n ∧ n < N ∧ 0 < (s.nodes n).term
  counted_self : ∀ t c v, v ∈ s.g.counted t c → s.g.voted t c = some c
  ldr_of     : ∀ n, (s.nodes n).role = .leader → s.g.leaderOf (s.nodes n).term = some n
  el_quorum  : ∀ t l, s.g.leaderOf t = some l →
                 IsQuorum N (s.g.electors t) ∧ (∀ v ∈ s.g.electors t, s.g.voted t v = some l) ∧ l < N ∧ 0 < t
  ldr_le     : ∀ t l, s.g.leaderOf t = some l → t ≤ (s.nodes l).term

structure InvL (N : Nat) (s : State) : Prop where
  log_sent   : ∀ n, (s.nodes n).log[0]? = some sentinel
  tl_zero    : s.g.termLog 0 = [sentinel]
  tl_sent    : ∀ t, s.g.termLog t ≠ [] → (s.g.termLog t)[0]? = some sentinel
  tl_ldr     : ∀ t, 0 < t → (s.g.termLog t = [] ↔ s.g.leaderOf t = none)
  ldr_pos    : ∀ l, s.g.leaderOf 0 ≠ some l
  cand_not_ldr : ∀ n, (s.nodes n).role = .candidate → s.g.leaderOf (s.nodes n).term ≠ some n
  tl_terms   : ∀ t e, e ∈ s.g.termLog t → e.term ≤ t
  tl_l2      : ∀ t j, j < (s.g.termLog t).length →
                 Agree (s.g.termLog t) (s.g.termLog (termAt (s.g.termLog t) j)) j
  log_l2     : ∀ n j, j < (s.nodes n).log.length →
                 Agree (s.nodes n).log (s.g.termLog (termAt (s.nodes n).log j)) j
  log_terms  : ∀ n e, e ∈ (s.nodes n).log → e.term ≤ (s.nodes n).term
  ldr_log    : ∀ n, (s.nodes n).role = .leader → (s.nodes n).log = s.g.termLog (s.nodes n).term
  msg_append : ∀ t l d prev pt es c, Msg.append t l d prev pt es c ∈ s.msgs →
                 prev < (s.g.termLog t).length ∧ termAt (s.g.termLog t) prev = pt ∧
                 es <+: (s.g.termLog t).drop (prev + 1) ∧ 0 < t
  msg_snap   : ∀ t l d k kt c pfx, Msg.snapshot t l d k kt c pfx ∈ s.msgs →
                 k < (s.g.termLog t).length ∧ pfx = (s.g.termLog t).take (k + 1) ∧
                 kt = termAt (s.g.termLog t) k ∧ 0 < t
  msg_reqVote_le : ∀ t c d li lt, Msg.reqVote t c d li lt ∈ s.msgs → t ≤ (s.nodes c).term
  msg_reqVote : ∀ t c d li lt, Msg.reqVote t c d li lt ∈ s.msgs →
                 (s.nodes c).role = .candidate → (s.nodes c).term = t →
                 li = (s.nodes c).log.length - 1 ∧ lt = lastTerm (s.nodes c).log

/-- `applied ≤ commit` on every node. -/
def InvA (s : State) : Prop := ∀ n, (s.nodes n).applied ≤ (s.nodes n).commit

structure InvS (N : Nat) (s : State) : Prop where
  cm_lt      : ∀ n, (s.nodes n).commit < (s.nodes n).log.length
  voted_cand : ∀ t v c, s.g.voted t v = some c → t ≤ (s.nodes c).term
  noldr_acked : ∀ t n, s.g.termLog t = [] → s.g.acked t n = 0
  ack_msg    : ∀ t f l idx, Msg.ack t f l idx ∈ s.msgs → idx ≤ s.g.acked t f
  match_le   : ∀ n f, (s.nodes n).role = .leader → (s.nodes n).matchIdx f ≤ s.g.acked (s.nodes n).term f
  ldr_acked  : ∀ n, (s.nodes n).role = .leader →
                 s.g.acked (s.nodes n).term n = (s.nodes n).log.length - 1
  acked_lt   : ∀ t n, 0 < s.g.acked t n → s.g.acked t n < (s.g.termLog t).length
  acked_term : ∀ t n, 0 < s.g.acked t n → t ≤ (s.nodes n).term
  acked_cur  : ∀ n, 0 < s.g.acked (s.nodes n).term n →
                 Agree (s.nodes n).log (s.g.termLog (s.nodes n).term) (s.g.acked (s.nodes n).term n)
  Y          : ∀ t t' i, t < t' → s.g.termLog t' ≠ [] → OwnPos s.g t i →
                 Agree (s.g.termLog t') (s.g.termLog t) i ∨ Blocked N s t i
  Z          : ∀ n t i, OwnPos s.g t i → i ≤ s.g.acked t n →
                 Agree (s.nodes n).log (s.g.termLog t) i ∨ Blocked N s t i
  V          : ∀ t' c v, s.g.voted t' v = some c → (s.nodes c).role = .candidate → (s.nodes c).term = t' →
                 ∀ t i, t < t' → OwnPos s.g t i → i ≤ s.g.acked t v →
                   Agree (s.nodes c).log (s.g.termLog t) i ∨ Blocked N s t i
  C1         : ∀ n, Cmt N s (s.nodes n).term ((s.nodes n).log.take ((s.nodes n).commit + 1))
  msg_cmt_a  : ∀ t l d prev pt es c, Msg.append t l d prev pt es c ∈ s.msgs →
                 c < (s.g.termLog t).length ∧ Cmt N s t ((s.g.termLog t).take (c + 1))
  msg_cmt_s  : ∀ t l d k kt c pfx, Msg.snapshot t l d k kt c pfx ∈ s.msgs →
                 c < (s.g.termLog t).length ∧ Cmt N s t ((s.g.termLog t).take (c + 1)) ∧
                 Cmt N s t ((s.g.termLog t).take (k + 1))

/-- The full inductive invariant. -/
structure Inv (N : Nat) (s : State) : Prop where
  e : InvE N s
  l : InvL N s
  a : InvA s
  s : InvS N s

end PSO.Raft
