import PSO.Model.Raft

/-!
# Invariants of the protocol model (DESIGN.md §4.2)

Three groups, each preserved by every action given the earlier groups:
`InvE` (terms, votes, election), `InvL` (logs, term logs, messages), `InvS` (acknowledgements,
blocked/chosen, leader completeness, commit).
-/
namespace PSO.Raft

/-- `a` and `b` agree on positions `0..i`. -/
def Agree (a b : List Entry) (i : Nat) : Prop := a.take (i + 1) = b.take (i + 1)

/-- Position `i` of the log of term `t` holds an entry created in term `t`. -/
def OwnPos (g : Ghost) (t i : Nat) : Prop :=
  0 < t ∧ i < (g.termLog t).length ∧ termAt (g.termLog t) i = t

def IsQuorum (N : Nat) (Q : List Nat) : Prop :=
  Q.Nodup ∧ (∀ q ∈ Q, q < N) ∧ N < 2 * Q.length

/-- A majority has left term `t` without confirming position `i`: `(t, i)` can never be chosen. -/
def Blocked (N : Nat) (s : State) (t i : Nat) : Prop :=
  ∃ B, IsQuorum N B ∧ ∀ b ∈ B, t < (s.nodes b).term ∧ s.g.acked t b < i

/-- A majority confirmed, in term `t`, the log of term `t` up to its own-term position `i`. -/
def Chosen (N : Nat) (s : State) (t i : Nat) : Prop :=
  OwnPos s.g t i ∧ ∃ Q, IsQuorum N Q ∧ ∀ q ∈ Q, i ≤ s.g.acked t q

/-- `P` is (a prefix of) a chosen prefix, witnessed by a term `≤ bound`. -/
def Cmt (N : Nat) (s : State) (bound : Nat) (P : List Entry) : Prop :=
  P = [sentinel] ∨ ∃ t i, t ≤ bound ∧ Chosen N s t i ∧ P <+: s.g.termLog t ∧ P.length ≤ i + 1

/-- Voters of the in-flight `vote` messages for candidate `c` in term `t`. -/
def inflight (msgs : List Msg) (t c : Nat) : List Nat :=
  msgs.filterMap fun m => match m with
    | .vote t' v c' => if t' = t ∧ c' = c then some v else none
    | _ => none

structure InvE (N : Nat) (s : State) : Prop where
  voted_le   : ∀ t n c, s.g.voted t n = some c → t ≤ (s.nodes n).term
  voted_cur  : ∀ n, s.g.voted (s.nodes n).term n = (s.nodes n).votedFor
  vote_msg   : ∀ t v c, Msg.vote t v c ∈ s.msgs → s.g.voted t v = some c ∧ v < N ∧ v ≠ c
  vc_nodup   : ∀ t c, (s.g.counted t c ++ inflight s.msgs t c).Nodup
  vc_voted   : ∀ t c v, v ∈ s.g.counted t c → s.g.voted t v = some c ∧ v < N ∧ v ≠ c
  vc_votes   : ∀ n, (s.nodes n).role = .candidate →
                 (s.nodes n).votes = 1 + (s.g.counted (s.nodes n).term n).length
  self_vote  : ∀ n, (s.nodes n).role ≠ .follower →
                 s.g.voted (s.nodes n).term n = some n ∧ n < N ∧ 0 < (s.nodes n).term
  counted_self : ∀ t c v, v ∈ s.g.counted t c → s.g.voted t c = some c
  ldr_of     : ∀ n, (s.nodes n).role = .leader → s.g.leaderOf (s.nodes n).term = some n
  el_quorum  : ∀ t l, s.g.leaderOf t = some l →
                 IsQuorum N (s.g.electors t) ∧ (∀ v ∈ s.g.electors t, s.g.voted t v = some l) ∧ l < N ∧ 0 < t
  ldr_le     : ∀ t l, s.g.leaderOf t = some l → t ≤ (s.nodes l).term

end PSO.Raft
