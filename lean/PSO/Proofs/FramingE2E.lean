import PSO.Proofs.FramingWriter

/-! Every prefix of a stream of frames is: some whole frames, then a strict prefix of the next frame. -/
namespace PSO.Framing

variable {Msg : Type}

theorem prefix_frames_decomp (cfg : Cfg Msg) (ms : List Msg) : ∀ (w : Bytes), w <+: frames cfg ms →
    ∃ ms1 ms2 tail, ms = ms1 ++ ms2 ∧ w = frames cfg ms1 ++ tail ∧
      (tail = [] ∨ ∃ m ms3, ms2 = m :: ms3 ∧ tail <+: frame (cfg.enc m) ∧
        tail.length < (frame (cfg.enc m)).length) := by
  induction ms with
  | nil =>
    intro w hw
    have : w = [] := by simpa [frames] using hw
    exact ⟨[], [], [], rfl, by simp [this, frames], Or.inl rfl⟩
  | cons m ms ih =>
    intro w hw
    rw [frames_cons] at hw
    by_cases hl : w.length < (frame (cfg.enc m)).length
    · by_cases hw0 : w = []
      · exact ⟨[], m :: ms, [], rfl, by simp [hw0, frames], Or.inl rfl⟩
      · refine ⟨[], m :: ms, w, rfl, by simp [frames], Or.inr ⟨m, ms, rfl, ?_, hl⟩⟩
        exact List.prefix_of_prefix_length_le hw (List.prefix_append _ _) (by omega)
    · have hf : frame (cfg.enc m) <+: w :=
        List.prefix_of_prefix_length_le (List.prefix_append _ _) hw (by omega)
      obtain ⟨w', rfl⟩ := hf
      have hw' : w' <+: frames cfg ms := (List.prefix_append_right_inj _).mp hw
      obtain ⟨ms1, ms2, tail, h1, h2, h3⟩ := ih w' hw'
      refine ⟨m :: ms1, ms2, tail, by simp [h1], ?_, h3⟩
      rw [frames_cons, h2, List.append_assoc]

end PSO.Framing
