import PSO.Proofs.NodeTickKeys
import PSO.Proofs.NodeTickBridge

/-!
# Bridge, part 0: the abstraction function  handler model (`PSO.NodeTick`)  →  protocol model (`PSO.Raft`)

`absNode : PSO.NodeTick.NodeState → PSO.Raft.NodeSt`

* role, term, votedFor, votes: copied;
* log: entry `(cmd, idx, term)` ↦ `⟨term, cmdId cmd⟩`, in order; the index is dropped — under `WFLog` (indices
  contiguous from 1) the entry with real index `i` sits at model position `i − 1`;
* commit ↦ `commit − 1`, lastApplied ↦ `lastApplied − 1`  (real indices are ≥ 1 on every real node; the theorems
  that need it carry `1 ≤ s.commit` / `1 ≤ s.lastApplied` as hypotheses);
* matchIndex: real match index `m` of node `j` (`0` = nothing confirmed, `m ≥ 1` = entries up to index `m`)
  ↦ position `m − 1` (truncated: both `0` and `1` map to position `0`, the initial entry every node holds).
  This is exactly `max(mi.get(w, 0) − 1, 0)` of `harness/corr/core_trace.py`, `Tracer.abstract`.

Also here: node-level readings of the protocol model's transitions (`voteNode`, `countVoteNode`, `ackNode`, …) with
the lemmas `step_*` that say what `PSO.Raft.step` does to the node, to the other nodes and to the message bag in
terms of them.  The refinement lemmas of the other `Bridge*.lean` files are stated against these.
-/
namespace PSO.Bridge
open PSO
open PSO.NodeTick
open PSO.Raft (Role isMajority)

/-! ## the abstraction -/

/-- command id of the protocol model (`0` = no-op); injective (`cmdId_injective`). -/
def cmdId : Cmd → Nat
  | .noop => 0
  | .regular id raises => 8 * id + (if raises then 2 else 1)
  | .membership add n => 8 * n + (if add then 4 else 3)
  | .version v => 8 * v + 5

theorem cmdId_noop : cmdId .noop = 0 := rfl

theorem cmdId_injective : ∀ a b : Cmd, cmdId a = cmdId b → a = b := by
  intro a b h
  cases a <;> cases b <;> simp only [cmdId] at h
  · rfl
  · split at h <;> omega
  · split at h <;> omega
  · omega
  · split at h <;> omega
  · next i r j q =>
    cases r <;> cases q <;> simp at h
    · have : i = j := by omega
      rw [this]
    · omega
    · omega
    · have : i = j := by omega
      rw [this]
  · split at h <;> split at h <;> omega
  · split at h <;> omega
  · split at h <;> omega
  · split at h <;> split at h <;> omega
  · next r i q j =>
    cases r <;> cases q <;> simp at h
    · have : i = j := by omega
      rw [this]
    · omega
    · omega
    · have : i = j := by omega
      rw [this]
  · split at h <;> omega
  · omega
  · split at h <;> omega
  · split at h <;> omega
  · have : ∀ x y : Nat, 8 * x + 5 = 8 * y + 5 → x = y := by intro x y h; omega
    rw [this _ _ h]

def absEntry (e : Entry) : Raft.Entry := ⟨e.term, cmdId e.cmd⟩

def absLog (log : List Entry) : List Raft.Entry := log.map absEntry

/-- real match index ↦ model position -/
def absMatch (m : AMap) : Nat → Nat := fun j => mgetD m j - 1

def absNode (s : NodeState) : Raft.NodeSt :=
  { term := s.term, votedFor := s.votedFor, role := s.role, votes := s.votes, log := absLog s.log,
    commit := s.commit - 1, applied := s.lastApplied - 1, matchIdx := absMatch s.matchIndex }

/-- The handler model's log is the full log: non-empty, the entry at list position `j` has index `j + 1`. -/
def WFLog (log : List Entry) : Prop := log ≠ [] ∧ ∀ j (h : j < log.length), log[j].idx = j + 1

/-- The match-index table has no stale keys: only tracked nodes (voters other than self, connected observers)
have an entry.  (The code deletes the key whenever a node stops being tracked.) -/
def KeysTracked (s : NodeState) : Prop := ∀ j, j ∉ tracked s → mget s.matchIndex j = none

/-- extensionality for the protocol model's node record -/
theorem nodeSt_ext {a b : Raft.NodeSt} (h1 : a.term = b.term) (h2 : a.votedFor = b.votedFor) (h3 : a.role = b.role)
    (h4 : a.votes = b.votes) (h5 : a.log = b.log) (h6 : a.commit = b.commit) (h7 : a.applied = b.applied)
    (h8 : a.matchIdx = b.matchIdx) : a = b := by
  cases a; cases b; simp only [Raft.NodeSt.mk.injEq]
  exact ⟨h1, h2, h3, h4, h5, h6, h7, h8⟩

/-! ## `WFLog` -/

theorem firstIdx_of_wfLog {log : List Entry} (h : WFLog log) : firstIdx log = 1 := by
  obtain ⟨hne, hidx⟩ := h
  cases log with
  | nil => exact absurd rfl hne
  | cons a t =>
    have := hidx 0 (by simp)
    simp at this
    simp [firstIdx, this]

theorem wfLog_logWF {log : List Entry} (h : WFLog log) : LogWF log := by
  intro j hj
  rw [firstIdx_of_wfLog h, h.2 j hj]
  omega

theorem wfLog_of_logWF {log : List Entry} (hne : log ≠ []) (hf : firstIdx log = 1) (h : LogWF log) : WFLog log := by
  refine ⟨hne, ?_⟩
  intro j hj
  rw [h j hj, hf]
  omega

theorem lastIdx_of_wfLog {log : List Entry} (h : WFLog log) : lastIdx log = log.length := by
  have := lastIdx_of_wf log (wfLog_logWF h) h.1
  rw [firstIdx_of_wfLog h] at this
  have hl : 1 ≤ log.length := List.length_pos_iff.mpr h.1
  omega

theorem wfLog_append {log : List Entry} (h : WFLog log) (c : Cmd) (t : Nat) :
    WFLog (log ++ [⟨c, lastIdx log + 1, t⟩]) := by
  refine ⟨by simp, ?_⟩
  intro j hj
  by_cases hlt : j < log.length
  · rw [List.getElem_append_left hlt]
    exact h.2 j hlt
  · have hj' : j = log.length := by
      simp at hj
      omega
    subst hj'
    simp [lastIdx_of_wfLog h]

theorem absLog_length (log : List Entry) : (absLog log).length = log.length := by simp [absLog]

theorem absLog_append (a b : List Entry) : absLog (a ++ b) = absLog a ++ absLog b := by simp [absLog]

theorem lastTerm_abs (log : List Entry) : Raft.lastTerm (absLog log) = lastTerm log := by
  unfold Raft.lastTerm lastTerm absLog
  rw [List.getLast?_map]
  cases log.getLast? with
  | none => rfl
  | some e => rfl

/-- `termAt log i` of the handler model reads list position `i − 1`. -/
theorem termAt_abs {log : List Entry} (h : WFLog log) {i t : Nat} (ht : termAt log i = some t) :
    1 ≤ i ∧ i ≤ log.length ∧ Raft.termAt (absLog log) (i - 1) = t := by
  unfold termAt getEntries at ht
  rw [firstIdx_of_wfLog h] at ht
  split at ht
  · simp at ht
  · next hi =>
    have hi1 : 1 ≤ i := by omega
    rw [List.take_one, List.head?_drop] at ht
    cases hg : log[i - 1]? with
    | none => rw [hg] at ht; simp at ht
    | some e =>
      rw [hg] at ht
      simp at ht
      have hlt : i - 1 < log.length := by
        rcases Nat.lt_or_ge (i - 1) log.length with h1 | h1
        · exact h1
        · rw [List.getElem?_eq_none h1] at hg; cases hg
      refine ⟨hi1, by omega, ?_⟩
      unfold Raft.termAt absLog
      rw [List.getElem?_map, hg]
      simp [absEntry, ht]

/-! ## match indices -/

theorem absMatch_mset_self (m : AMap) (k v : Nat) : absMatch (mset m k v) k = v - 1 := by
  simp [absMatch, mgetD_mset_self]

theorem absMatch_mset_ne (m : AMap) (k v j : Nat) (h : j ≠ k) : absMatch (mset m k v) j = absMatch m j := by
  simp [absMatch, mgetD_mset_ne _ _ _ _ h]

/-- `i ≤ m` on real indices is `i − 1 ≤ m − 1` on positions as soon as `i ≥ 2` … -/
theorem le_iff_pos_le {i x : Nat} (hi : 2 ≤ i) : i ≤ x ↔ i - 1 ≤ x - 1 := by omega

/-- the tick's count over real match indices = the protocol model's count over positions (for `i ≥ 2`) -/
theorem commitCount_abs (N n : Nat) (m : AMap) {i : Nat} (hi : 2 ≤ i) :
    commitCount (Raft.others N n) m i = Raft.matchCount N n (absMatch m) (i - 1) := by
  rw [commitCount_eq_matchCount]
  unfold Raft.matchCount absMatch
  congr 2
  apply List.filter_congr
  intro x _
  have := @le_iff_pos_le i (mgetD m x) hi
  by_cases h : i ≤ mgetD m x
  · simp [h, this.mp h]
  · have h' : ¬ (i - 1 ≤ mgetD m x - 1) := fun e => h (this.mpr e)
    simp [h, h']

/-- resetting every tracked node's match index leaves the all-zero table, when there are no stale keys -/
theorem mgetD_foldl_mset_zero (nodes : List Nat) : ∀ (m : AMap) (j : Nat), (j ∉ nodes → mgetD m j = 0) →
    mgetD (nodes.foldl (fun m n => mset m n 0) m) j = 0 := by
  induction nodes with
  | nil => intro m j h; exact h (by simp)
  | cons a rest ih =>
    intro m j h
    simp only [List.foldl_cons]
    apply ih
    intro hj
    by_cases hja : j = a
    · subst hja; exact mgetD_mset_self _ _ _
    · rw [mgetD_mset_ne _ _ _ _ hja]
      apply h
      intro hmem
      rcases List.mem_cons.mp hmem with e | e
      · exact hja e
      · exact hj e

/-! ## node-level readings of `PSO.Raft.step` -/

/-- `recvReqVote` on one node: new node state and whether a `vote` message is emitted -/
def voteNode (ns : Raft.NodeSt) (t cand li lt : Nat) : Raft.NodeSt × Bool :=
  let ns1 := Raft.bumpTerm ns t
  if ns1.role ≠ .leader ∧ ns1.term ≤ t ∧ Raft.upToDate lt li ns1.log = true ∧ ns1.votedFor = none then
    ({ ns1 with votedFor := some cand }, true)
  else (ns1, false)

/-- the node part of `PSO.Raft.becomeLeader` -/
def leaderNode (ns : Raft.NodeSt) : Raft.NodeSt :=
  { ns with role := .leader, matchIdx := fun _ => 0, log := ns.log ++ [⟨ns.term, 0⟩] }

/-- `recvVote` on one node -/
def countVoteNode (N : Nat) (ns : Raft.NodeSt) (t : Nat) : Raft.NodeSt :=
  if ns.role = .candidate ∧ t = ns.term then
    let ns' := { ns with votes := ns.votes + 1 }
    if isMajority N ns'.votes then leaderNode ns' else ns'
  else ns

/-- `timeout` on one node -/
def timeoutNode (N n : Nat) (ns : Raft.NodeSt) : Raft.NodeSt :=
  let ns' := { ns with term := ns.term + 1, votedFor := some n, votes := 1, role := .candidate }
  if isMajority N 1 then leaderNode ns' else ns'

/-- `recvAck` on one node -/
def ackNode (ns : Raft.NodeSt) (t flw idx : Nat) : Raft.NodeSt :=
  if ns.role = .leader ∧ t = ns.term ∧ ns.matchIdx flw < idx then
    { ns with matchIdx := Raft.upd1 ns.matchIdx flw idx }
  else ns

theorem becomeLeader_nodes (S : Raft.State) (n : Nat) (ns : Raft.NodeSt) :
    (Raft.becomeLeader S n ns).nodes = fun m => if m = n then leaderNode ns else S.nodes m := rfl

theorem becomeLeader_msgs (S : Raft.State) (n : Nat) (ns : Raft.NodeSt) :
    (Raft.becomeLeader S n ns).msgs = S.msgs := rfl

theorem step_recvReqVote (N : Nat) (S : Raft.State) (n t cand li lt : Nat) (hn : n < N) (hc : cand < N)
    (hne : cand ≠ n) (hm : Raft.Msg.reqVote t cand n li lt ∈ S.msgs) :
    ∃ S', Raft.step N S (.recvReqVote n (.reqVote t cand n li lt)) = some S' ∧
      S'.nodes n = (voteNode (S.nodes n) t cand li lt).1 ∧ (∀ k, k ≠ n → S'.nodes k = S.nodes k) ∧
      S'.msgs = S.msgs.erase (.reqVote t cand n li lt) ++
        (if (voteNode (S.nodes n) t cand li lt).2 then [Raft.Msg.vote t n cand] else []) := by
  simp only [Raft.step, hn, hc, hne, hm, and_self, if_true, ne_eq, not_false_eq_true, voteNode]
  by_cases hv : ¬ (Raft.bumpTerm (S.nodes n) t).role = Role.leader ∧ (Raft.bumpTerm (S.nodes n) t).term ≤ t ∧
      Raft.upToDate lt li (Raft.bumpTerm (S.nodes n) t).log = true ∧ (Raft.bumpTerm (S.nodes n) t).votedFor = none
  · simp only [if_pos hv]
    refine ⟨_, rfl, ?_, ?_, ?_⟩
    · simp [Raft.setNode]
    · intro k hk; simp [Raft.setNode, hk]
    · simp
  · simp only [if_neg hv]
    refine ⟨_, rfl, ?_, ?_, ?_⟩
    · simp [Raft.setNode]
    · intro k hk; simp [Raft.setNode, hk]
    · simp

theorem step_recvVote (N : Nat) (S : Raft.State) (n t voter : Nat) (hn : n < N)
    (hm : Raft.Msg.vote t voter n ∈ S.msgs) :
    ∃ S', Raft.step N S (.recvVote n (.vote t voter n)) = some S' ∧
      S'.nodes n = countVoteNode N (S.nodes n) t ∧ (∀ k, k ≠ n → S'.nodes k = S.nodes k) ∧
      S'.msgs = S.msgs.erase (.vote t voter n) := by
  simp only [Raft.step, hn, hm, and_self, if_true, countVoteNode]
  by_cases hv : (S.nodes n).role = Role.candidate ∧ t = (S.nodes n).term
  · simp only [if_pos hv]
    by_cases hmaj : isMajority N ((S.nodes n).votes + 1) = true
    · simp only [if_pos hmaj]
      refine ⟨_, rfl, ?_, ?_, ?_⟩
      · simp [becomeLeader_nodes]
      · intro k hk; simp [becomeLeader_nodes, hk, Raft.setNode]
      · simp [becomeLeader_msgs]
    · simp only [if_neg hmaj]
      refine ⟨_, rfl, ?_, ?_, ?_⟩
      · simp [Raft.setNode]
      · intro k hk; simp [Raft.setNode, hk]
      · rfl
  · simp only [if_neg hv]
    exact ⟨_, rfl, rfl, fun _ _ => rfl, rfl⟩

theorem step_timeout (N : Nat) (S : Raft.State) (n : Nat) (dsts : List Nat) (hn : n < N)
    (hr : (S.nodes n).role ≠ .leader) (hd : ∀ d ∈ dsts, d < N ∧ d ≠ n) :
    ∃ S', Raft.step N S (.timeout n dsts) = some S' ∧
      S'.nodes n = timeoutNode N n (S.nodes n) ∧ (∀ k, k ≠ n → S'.nodes k = S.nodes k) ∧
      S'.msgs = S.msgs ++ dsts.map (fun d => Raft.Msg.reqVote ((S.nodes n).term + 1) n d
        ((S.nodes n).log.length - 1) (Raft.lastTerm (S.nodes n).log)) := by
  have hg : n < N ∧ (S.nodes n).role ≠ .leader ∧ (∀ d ∈ dsts, d < N ∧ d ≠ n) := ⟨hn, hr, hd⟩
  simp only [Raft.step, timeoutNode]
  rw [if_pos hg]
  by_cases hmaj : isMajority N 1 = true
  · simp only [if_pos hmaj]
    refine ⟨_, rfl, ?_, ?_, ?_⟩
    · simp [becomeLeader_nodes]
    · intro k hk; simp [becomeLeader_nodes, hk, Raft.setNode]
    · simp [becomeLeader_msgs]
  · simp only [if_neg hmaj]
    refine ⟨_, rfl, ?_, ?_, ?_⟩
    · simp [Raft.setNode]
    · intro k hk; simp [Raft.setNode, hk]
    · rfl

theorem step_recvAck (N : Nat) (S : Raft.State) (n t flw idx : Nat) (hn : n < N)
    (hm : Raft.Msg.ack t flw n idx ∈ S.msgs) :
    ∃ S', Raft.step N S (.recvAck n (.ack t flw n idx)) = some S' ∧
      S'.nodes n = ackNode (S.nodes n) t flw idx ∧ (∀ k, k ≠ n → S'.nodes k = S.nodes k) ∧
      S'.msgs = S.msgs.erase (.ack t flw n idx) := by
  simp only [Raft.step, hn, hm, and_self, if_true, ackNode]
  by_cases hv : (S.nodes n).role = Role.leader ∧ t = (S.nodes n).term ∧ (S.nodes n).matchIdx flw < idx
  · simp only [if_pos hv]
    refine ⟨_, rfl, ?_, ?_, ?_⟩
    · simp [Raft.setNode]
    · intro k hk; simp [Raft.setNode, hk]
    · rfl
  · simp only [if_neg hv]
    exact ⟨_, rfl, rfl, fun _ _ => rfl, rfl⟩

theorem step_advanceCommit (N : Nat) (S : Raft.State) (n i : Nat)
    (hg : n < N ∧ (S.nodes n).role = .leader ∧ (S.nodes n).commit < i ∧ i < (S.nodes n).log.length ∧
      Raft.termAt (S.nodes n).log i = (S.nodes n).term ∧
      isMajority N (Raft.matchCount N n (S.nodes n).matchIdx i) = true) :
    Raft.step N S (.advanceCommit n i) = some (Raft.setNode S n { S.nodes n with commit := i }) := by
  simp only [Raft.step, if_pos hg]

theorem step_stepDown (N : Nat) (S : Raft.State) (n : Nat) (hg : n < N ∧ (S.nodes n).role = .leader) :
    Raft.step N S (.stepDown n) = some (Raft.setNode S n { S.nodes n with role := .follower }) := by
  simp only [Raft.step, if_pos hg]

theorem step_apply (N : Nat) (S : Raft.State) (n : Nat) (hg : (S.nodes n).applied < (S.nodes n).commit) :
    Raft.step N S (.apply n) = some (Raft.setNode S n { S.nodes n with applied := (S.nodes n).applied + 1 }) := by
  simp only [Raft.step, if_pos hg]

theorem setNode_self (S : Raft.State) (n : Nat) (ns : Raft.NodeSt) : (Raft.setNode S n ns).nodes n = ns := by
  simp [Raft.setNode]

theorem setNode_ne (S : Raft.State) (n k : Nat) (ns : Raft.NodeSt) (h : k ≠ n) :
    (Raft.setNode S n ns).nodes k = S.nodes k := by
  simp [Raft.setNode, h]

theorem setNode_msgs (S : Raft.State) (n : Nat) (ns : Raft.NodeSt) : (Raft.setNode S n ns).msgs = S.msgs := rfl

end PSO.Bridge
