import PSO.Proofs.BridgeSend
import PSO.Proofs.NodeSendBasic

/-!
# Bridge, part 4b: the send loop under ANY wall-clock cut-off and ANY disconnect point

`sendRun_batches_refine` (full run) generalised: whatever iteration budget the clock leaves and whichever
`transport.send` call finds the node disconnected, the batches the loop went through are consecutive segments of
the log from `nextIndex` on (a prefix of what the full run sends), each with the right `prev`, so each is an enabled
`sendAppend` of the protocol model; every wire message handed to the transport belongs to one of these batches.
-/
namespace PSO.Bridge
open PSO
open PSO.NodeSend

/-- what the loop guarantees about the batches it went through and the messages it handed to the transport -/
def GoodRun (c : SendCfg) (log : List NodeSend.Entry) (first p : Nat) (bs : List Batch) (ms : List NodeSend.Msg) : Prop :=
  PrevOK log first p bs ∧ (∃ rest, log.drop p = bs.flatMap Batch.entries ++ rest) ∧ ChunkOK c.B bs ∧
    ∀ m ∈ ms, ∃ b ∈ bs, m ∈ render c.B c.term c.commit b

/-- a batch is sent as a chunk burst only when its single command is at least a batch long -/
def BatchChunkOK (B : Nat) (b : Batch) : Prop :=
  match b with
  | .chunked _ e => B ≤ e.cmd.size
  | _ => True

theorem goodRun_nil (c : SendCfg) (log : List NodeSend.Entry) (first p : Nat) : GoodRun c log first p [] [] :=
  ⟨trivial, ⟨log.drop p, by simp⟩, (fun _ hb => by cases hb), (fun _ hm => by cases hm)⟩

theorem goodRun_single (c : SendCfg) (log : List NodeSend.Entry) (first p : Nat) (b : Batch) (ms : List NodeSend.Msg)
    (hprev : ∃ pe, log[p - 1]? = some pe ∧ b.prev = some (first + p - 1, pe.term))
    (hent : ∃ rest, log.drop p = b.entries ++ rest)
    (hck : BatchChunkOK c.B b)
    (hms : ∀ m ∈ ms, m ∈ render c.B c.term c.commit b) : GoodRun c log first p [b] ms := by
  refine ⟨⟨hprev, trivial⟩, ?_, ?_, ?_⟩
  · obtain ⟨rest, hr⟩ := hent
    exact ⟨rest, by simp [hr]⟩
  · intro b' hb'
    simp only [List.mem_singleton] at hb'
    subst hb'
    exact hck
  · intro m hm
    exact ⟨b, List.mem_singleton.mpr rfl, hms m hm⟩

theorem goodRun_cons (c : SendCfg) (log : List NodeSend.Entry) (first p : Nat) (b : Batch) (ms : List NodeSend.Msg)
    (bs : List Batch) (ms' : List NodeSend.Msg)
    (hprev : ∃ pe, log[p - 1]? = some pe ∧ b.prev = some (first + p - 1, pe.term))
    (hent : log.drop p = b.entries ++ log.drop (p + b.entries.length))
    (hck : BatchChunkOK c.B b)
    (hms : ∀ m ∈ ms, m ∈ render c.B c.term c.commit b)
    (hg : GoodRun c log first (p + b.entries.length) bs ms') : GoodRun c log first p (b :: bs) (ms ++ ms') := by
  obtain ⟨g1, ⟨rest, g2⟩, g3, g4⟩ := hg
  refine ⟨⟨hprev, g1⟩, ⟨rest, ?_⟩, ?_, ?_⟩
  · rw [flatMap_cons', List.append_assoc, ← g2]
    exact hent
  · intro b' hb'
    rcases List.mem_cons.mp hb' with e | e
    · subst e; exact hck
    · exact g3 b' e
  · intro m hm
    rcases List.mem_append.mp hm with e | e
    · exact ⟨b, List.mem_cons_self .., hms m e⟩
    · obtain ⟨b', hb', hm'⟩ := g4 m e
      exact ⟨b', List.mem_cons_of_mem _ hb', hm'⟩

/-- **Loop lemma, any cut-off, any disconnect.** -/
theorem sendLoop_goodRun {first : Nat} {log : List NodeSend.Entry} (hne : log ≠ []) (h : IdxOK first log) (c : SendCfg)
    (snap : List (Option Bool)) :
    ∀ (fuel p : Nat) (ss : Bool) (budget : Option Nat) (sent : Nat) (dec : Bool), 1 ≤ p → p ≤ log.length →
      (dec = true ∨ c.matchIdx.isSome = true) →
      ∃ r, sendLoop c log fuel (first + p) ss false snap budget sent dec = .ok r ∧ GoodRun c log first p r.batches r.msgs := by
  intro fuel
  induction fuel with
  | zero => intro p ss budget sent dec _ _ _; exact ⟨_, rfl, goodRun_nil c log first p⟩
  | succ fuel ih =>
    intro p ss budget sent dec hp1 hp2 hm
    have hlast := lastIdx_of hne h
    have hlen : 1 ≤ log.length := List.length_pos_iff.mpr hne
    unfold sendLoop
    simp only [hlast]
    by_cases hcond : (decide (first + p ≤ first + (log.length - 1)) || ss || false) = true
    · simp only [hcond, if_true]
      by_cases hlt : p < log.length
      · have hpe : ∃ pe, log[p - 1]? = some pe := by
          have : p - 1 < log.length := by omega
          exact ⟨log[p - 1], by simp [List.getElem?_eq_getElem this]⟩
        obtain ⟨pe, hpe⟩ := hpe
        obtain ⟨hes, ⟨rest, hrest⟩, hcase⟩ := iterBatch_entries (B := c.B) hne h hp1 hlt (snap.head?.join) hpe
        have hlen_es : 1 ≤ (takeBytes c.B 0 (log.drop p)).length := List.length_pos_iff.mpr hes
        have hle : p + (takeBytes c.B 0 (log.drop p)).length ≤ log.length := by
          have := congrArg List.length hrest
          simp at this
          omega
        have hdrop : log.drop (p + (takeBytes c.B 0 (log.drop p)).length) = rest := by
          have h1 : List.drop (takeBytes c.B 0 (log.drop p)).length (takeBytes c.B 0 (log.drop p) ++ rest) = rest :=
            List.drop_left
          rw [← hrest, List.drop_drop] at h1
          exact h1
        have hnx : first + p + (takeBytes c.B 0 (log.drop p)).length = first + (p + (takeBytes c.B 0 (log.drop p)).length) := by omega
        obtain ⟨pb, hpb⟩ := probe_ok (c := c) (dec := dec) (some (first + p - 1, pe.term)) hm
        rcases hcase with ⟨e, he1, hB, hiter⟩ | hiter
        · -- chunk burst
          rw [hiter]
          simp only [hpb]
          have hprev : ∃ pe', log[p - 1]? = some pe' ∧
              (Batch.chunked (some (first + p - 1, pe.term)) e).prev = some (first + p - 1, pe'.term) := ⟨pe, hpe, rfl⟩
          have hms : ∀ m ∈ (sendBurst c.dropAfter sent (render c.B c.term c.commit (Batch.chunked (some (first + p - 1, pe.term)) e))).1,
              m ∈ render c.B c.term c.commit (Batch.chunked (some (first + p - 1, pe.term)) e) :=
            sendBurst_sub c.dropAfter _ sent
          have hsingle : GoodRun c log first p [Batch.chunked (some (first + p - 1, pe.term)) e]
              (sendBurst c.dropAfter sent (render c.B c.term c.commit (Batch.chunked (some (first + p - 1, pe.term)) e))).1 := by
            refine goodRun_single c log first p _ _ hprev ⟨rest, ?_⟩ hB hms
            simp only [Batch.entries]; rw [← he1]; exact hrest
          by_cases hcb : (!stillConnected c.dropAfter (sendBurst c.dropAfter sent
              (render c.B c.term c.commit (Batch.chunked (some (first + p - 1, pe.term)) e))).2) = true
          · -- repair D65: a drop inside the burst ends the run for this node
            simp only [hcb, if_true]
            exact ⟨_, rfl, hsingle⟩
          · simp only [hcb]
            by_cases hp : pb = true
            · simp only [hp, if_true]
              exact ⟨_, rfl, hsingle⟩
            · simp only [hp]
              by_cases hb : budgetDone budget = true
              · simp only [hb, if_true]
                exact ⟨_, rfl, hsingle⟩
              · simp only [hb]
                rw [hnx]
                obtain ⟨r, hr, hg⟩ := ih (p + (takeBytes c.B 0 (log.drop p)).length) false (budgetNext budget)
                  (sendBurst c.dropAfter sent (render c.B c.term c.commit (Batch.chunked (some (first + p - 1, pe.term)) e))).2
                  true (by omega) hle (Or.inl rfl)
                simp only [hr]
                refine ⟨_, rfl, ?_⟩
                have hl1 : (Batch.chunked (some (first + p - 1, pe.term)) e).entries.length = (takeBytes c.B 0 (log.drop p)).length := by
                  rw [he1]; rfl
                apply goodRun_cons c log first p _ _ _ _ hprev ?_ hB hms
                · rw [hl1]; exact hg
                · rw [hl1, hdrop]; simp only [Batch.entries]; rw [← he1]; exact hrest
        · rw [hiter]
          simp only [hpb]
          have hprev : ∃ pe', log[p - 1]? = some pe' ∧
              (Batch.regular (some (first + p - 1, pe.term)) (takeBytes c.B 0 (log.drop p))).prev = some (first + p - 1, pe'.term) :=
            ⟨pe, hpe, rfl⟩
          by_cases hcn : (!stillConnected c.dropAfter (sent + 1)) = true
          · simp only [hcn, if_true]
            exact ⟨_, rfl, goodRun_single c log first p _ _ hprev ⟨rest, hrest⟩ trivial (fun _ hm => hm)⟩
          · simp only [hcn]
            by_cases hp : pb = true
            · simp only [hp, if_true]
              exact ⟨_, rfl, goodRun_single c log first p _ _ hprev ⟨rest, hrest⟩ trivial (fun _ hm => hm)⟩
            · simp only [hp]
              by_cases hb : budgetDone budget = true
              · simp only [hb, if_true]
                exact ⟨_, rfl, goodRun_single c log first p _ _ hprev ⟨rest, hrest⟩ trivial (fun _ hm => hm)⟩
              · simp only [hb]
                rw [hnx]
                obtain ⟨r, hr, hg⟩ := ih (p + (takeBytes c.B 0 (log.drop p)).length) false (budgetNext budget) (sent + 1) true
                  (by omega) hle (Or.inl rfl)
                simp only [hr]
                refine ⟨_, rfl, ?_⟩
                apply goodRun_cons c log first p _ _ _ _ hprev ?_ trivial (fun _ hm => hm)
                · exact hg
                · simp only [Batch.entries]; rw [hdrop]; exact hrest
      · have hpeq : p = log.length := by omega
        subst hpeq
        cases hl : log.getLast? with
        | none => rw [List.getLast?_eq_none_iff] at hl; exact absurd hl hne
        | some pe =>
          rw [iterBatch_heartbeat hne h _ hl]
          obtain ⟨pb, hpb⟩ := probe_ok (c := c) (dec := dec) (some (first + log.length - 1, pe.term)) hm
          simp only [hpb]
          have hpe : log[log.length - 1]? = some pe := by rw [← List.getLast?_eq_getElem?]; exact hl
          have hprev : ∃ pe', log[log.length - 1]? = some pe' ∧
              (Batch.regular (some (first + log.length - 1, pe.term)) []).prev = some (first + log.length - 1, pe'.term) :=
            ⟨pe, hpe, rfl⟩
          by_cases hcn : (!stillConnected c.dropAfter (sent + 1)) = true
          · simp only [hcn, if_true]
            exact ⟨_, rfl, goodRun_single c log first _ _ _ hprev ⟨log.drop log.length, by simp [Batch.entries]⟩ trivial (fun _ hm => hm)⟩
          · simp only [hcn]
            by_cases hp : pb = true
            · simp only [hp, if_true]
              exact ⟨_, rfl, goodRun_single c log first _ _ _ hprev ⟨log.drop log.length, by simp [Batch.entries]⟩ trivial (fun _ hm => hm)⟩
            · simp only [hp]
              by_cases hb : budgetDone budget = true
              · simp only [hb, if_true]
                exact ⟨_, rfl, goodRun_single c log first _ _ _ hprev ⟨log.drop log.length, by simp [Batch.entries]⟩ trivial (fun _ hm => hm)⟩
              · simp only [hb]
                obtain ⟨r, hr, hg⟩ := ih log.length false (budgetNext budget) (sent + 1) true hlen (Nat.le_refl _) (Or.inl rfl)
                simp only [hr]
                refine ⟨_, rfl, ?_⟩
                apply goodRun_cons c log first _ _ _ _ _ hprev ?_ trivial (fun _ hm => hm)
                · simpa [Batch.entries] using hg
                · simp [Batch.entries]
    · simp only [hcond]
      exact ⟨_, rfl, goodRun_nil c log first p⟩

/-- **Every batch of ANY send run is an enabled `sendAppend`** (any wall-clock budget, any disconnect point, any
`matchIndex = m` of the destination — pipelined or probing, repair D62): the run returns a value, and for every
batch it went through there is a position `prev` with `sendAppend n d prev |b.entries| (commit − 1)` enabled and
creating `absBatch b`; every message handed to the transport is a message of one of these batches (of a chunk burst
possibly only an initial part). -/
theorem sendRun_cut_refines {first : Nat} {log : List NodeSend.Entry} {p B : Nat} (wf : C11.WF first log p B)
    (term commit : Nat) (snap : List (Option Bool)) (budget dropAfter : Option Nat) (m : Nat)
    (ghost : List Raft.Entry) (hgh : ghost.length + 1 = first) (N n d : Nat) (hn : n < N) (hd : d ≠ n) :
    ∃ r, sendOne ⟨B, term, commit, dropAfter, some m⟩ log (first + p) snap budget = .ok r ∧
      (∀ w ∈ r.msgs, ∃ b ∈ r.batches, w ∈ render B term commit b) ∧
      ∀ b ∈ r.batches, ∀ S : Raft.State, (S.nodes n).role = .leader → (S.nodes n).term = term →
        (S.nodes n).log = ghost ++ absLogS log → commit - 1 ≤ (S.nodes n).commit →
        ∃ prev m', prev < (S.nodes n).log.length ∧ absBatch term commit n d b = some m' ∧
          Raft.step N S (.sendAppend n d prev b.entries.length (commit - 1)) = some { S with msgs := S.msgs ++ [m'] } := by
  unfold sendOne
  obtain ⟨r, hr, hprev, hrest, _, hms⟩ := sendLoop_goodRun wf.ne wf.idx ⟨B, term, commit, dropAfter, some m⟩ snap
    (sendFuel log snap + (dropAfter.getD 0) + budget.getD 0) p true budget 0 false wf.p1 wf.p2 (Or.inr rfl)
  exact ⟨r, hr, hms, located_batch_sendAppend wf.p1 ghost hgh N n d term commit hn hd r.batches hprev hrest⟩

end PSO.Bridge
