import PSO.Model.Framing

/-! Byte-level lemmas for the framing model: the length field round-trips, `parseOne` on a buffer that
starts with a frame, stability of `parseOne` under appending bytes. -/
namespace PSO.Framing

theorem le32_length (n : Nat) : (le32 n).length = 4 := rfl

theorem frame_length (p : Bytes) : (frame p).length = 4 + p.length := by
  simp [frame, le32_length]

theorem leU32_le32 (n : Nat) (h : n < 4294967296) (x : Bytes) : leU32 (le32 n ++ x) = n := by
  simp only [le32, List.cons_append, List.nil_append, leU32, UInt8.toNat_ofNat']
  omega

theorem leInt32_le32 (n : Nat) (h : n < 2147483648) (x : Bytes) : leInt32 (le32 n ++ x) = (n : Int) := by
  unfold leInt32
  rw [leU32_le32 n (by omega) x]
  simp [h]

theorem leU32_append (b x : Bytes) (h : 4 ≤ b.length) : leU32 (b ++ x) = leU32 b := by
  match b, h with
  | b0 :: b1 :: b2 :: b3 :: t, _ => simp [leU32]

theorem leInt32_append (b x : Bytes) (h : 4 ≤ b.length) : leInt32 (b ++ x) = leInt32 b := by
  unfold leInt32; rw [leU32_append b x h]

end PSO.Framing
