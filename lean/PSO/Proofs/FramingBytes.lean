import PSO.Model.Framing

/-! Byte-level lemmas for the framing model: the length field round-trips, `parseOne` on a buffer that
starts with a frame, stability of `parseOne` under appending bytes. -/
namespace PSO.Framing

theorem le32_length (n : Nat) : (le32 n).length = 4 := rfl

theorem frame_length (p : Bytes) : (frame p).length = 4 + p.length := by
  simp [frame, le32_length]

theorem leU32_le32 (n : Nat) (h : n < 4294967296) (x : Bytes) : leU32 (le32 n ++ x) = n := by
  simp only [le32, List.cons_append, List.nil_append, leU32, UInt8.toNat_ofNat']
  omega

theorem leInt32_le32 (n : Nat) (h : n < 2147483648) (x : Bytes) : leInt32 (le32 n ++ x) = (n : Int) := by
  unfold leInt32
  rw [leU32_le32 n (by omega) x]
  simp [h]

theorem leU32_append (b x : Bytes) (h : 4 ≤ b.length) : leU32 (b ++ x) = leU32 b := by
  match b, h with
  | b0 :: b1 :: b2 :: b3 :: t, _ => simp [leU32]

theorem leInt32_append (b x : Bytes) (h : 4 ≤ b.length) : leInt32 (b ++ x) = leInt32 b := by
  unfold leInt32; rw [leU32_append b x h]


variable {Msg : Type}

/-! ### `parseOne` -/

/-- a buffer that starts with a well-formed frame of a decodable payload yields that message and the rest -/
theorem parseOne_frame (dec : Bytes → Option Msg) (p x : Bytes) (m : Msg)
    (hd : dec p = some m) (hs : p.length < 2147483648) :
    parseOne dec (frame p ++ x) = .msg m x := by
  have hl : (frame p ++ x).length = 4 + p.length + x.length := by simp [frame_length]
  have hi : leInt32 (frame p ++ x) = (p.length : Int) := by
    simp only [frame, List.append_assoc]; exact leInt32_le32 _ hs _
  have hd4 : (frame p ++ x).drop 4 = p ++ x := by
    simp [frame, le32]
  unfold parseOne
  rw [hi, hl, hd4]
  have h1 : ¬ (4 + p.length + x.length < 4) := by omega
  have h2 : ¬ ((p.length : Int) < 0) := by omega
  have h3 : ¬ (((4 + p.length + x.length : Nat) : Int) - 4 < (p.length : Int)) := by omega
  simp only [h1, h2, h3, if_false, Int.toNat_natCast, List.take_left', hd]
  congr 1
  rw [show 4 + p.length = (frame p).length from (frame_length p).symm]
  simp

/-- a negative length field is rejected as soon as the four bytes are there (repair D13) -/
theorem parseOne_negative (dec : Bytes → Option Msg) (b : Bytes) (h4 : 4 ≤ b.length) (hn : leInt32 b < 0) :
    parseOne dec b = .bad := by
  unfold parseOne
  have : ¬ b.length < 4 := by omega
  simp [this, hn]

/-- a complete frame whose payload does not decode is rejected -/
theorem parseOne_undecodable (dec : Bytes → Option Msg) (p x : Bytes)
    (hd : dec p = none) (hs : p.length < 2147483648) :
    parseOne dec (frame p ++ x) = .bad := by
  have hl : (frame p ++ x).length = 4 + p.length + x.length := by simp [frame_length]
  have hi : leInt32 (frame p ++ x) = (p.length : Int) := by
    simp only [frame, List.append_assoc]; exact leInt32_le32 _ hs _
  have hd4 : (frame p ++ x).drop 4 = p ++ x := by
    simp [frame, le32]
  unfold parseOne
  rw [hi, hl, hd4]
  have h1 : ¬ (4 + p.length + x.length < 4) := by omega
  have h2 : ¬ ((p.length : Int) < 0) := by omega
  have h3 : ¬ (((4 + p.length + x.length : Nat) : Int) - 4 < (p.length : Int)) := by omega
  simp only [h1, h2, h3, if_false, Int.toNat_natCast, List.take_left', hd]

/-- a strict prefix of a frame makes the parser wait -/
theorem parseOne_partial (dec : Bytes → Option Msg) (p t : Bytes) (hs : p.length < 2147483648)
    (ht : t <+: frame p) (hlt : t.length < (frame p).length) : parseOne dec t = .wait := by
  obtain ⟨r, hr⟩ := ht
  unfold parseOne
  by_cases h4 : t.length < 4
  · simp [h4]
  · have hi : leInt32 t = (p.length : Int) := by
      have := leInt32_le32 p.length hs p
      rw [← frame, ← hr, leInt32_append t r (by omega)] at this
      exact this
    rw [frame_length] at hlt
    have h2 : ¬ ((p.length : Int) < 0) := by omega
    have h3 : ((t.length : Int) - 4 < (p.length : Int)) := by omega
    simp only [h4, hi, h2, h3, if_false, if_true]

/-- `.bad` is stable under more bytes arriving -/
theorem parseOne_bad_append (dec : Bytes → Option Msg) (b x : Bytes) (h : parseOne dec b = .bad) :
    parseOne dec (b ++ x) = .bad := by
  unfold parseOne at h ⊢
  by_cases h4 : b.length < 4
  · simp [h4] at h
  · have h4' : ¬ (b ++ x).length < 4 := by simp; omega
    rw [leInt32_append b x (by omega)]
    simp only [h4, h4', if_false] at h ⊢
    by_cases hn : leInt32 b < 0
    · simp [hn]
    · simp only [hn, if_false] at h ⊢
      by_cases hw : (b.length : Int) - 4 < leInt32 b
      · simp [hw] at h
      · have hw' : ¬ (((b ++ x).length : Nat) : Int) - 4 < leInt32 b := by
          simp only [List.length_append, Int.natCast_add]; omega
        simp only [hw, hw', if_false] at h ⊢
        have hlen : (leInt32 b).toNat ≤ (b.drop 4).length := by simp; omega
        rw [List.drop_append_of_le_length (by omega), List.take_append_of_le_length hlen]
        split at h <;> simp_all

/-- `.msg` is stable under more bytes arriving: same message, the new bytes stay behind it -/
theorem parseOne_msg_append (dec : Bytes → Option Msg) (b x : Bytes) (m : Msg) (rest : Bytes)
    (h : parseOne dec b = .msg m rest) : parseOne dec (b ++ x) = .msg m (rest ++ x) := by
  unfold parseOne at h ⊢
  by_cases h4 : b.length < 4
  · simp [h4] at h
  · have h4' : ¬ (b ++ x).length < 4 := by simp; omega
    rw [leInt32_append b x (by omega)]
    simp only [h4, h4', if_false] at h ⊢
    by_cases hn : leInt32 b < 0
    · simp [hn] at h
    · simp only [hn, if_false] at h ⊢
      by_cases hw : (b.length : Int) - 4 < leInt32 b
      · simp [hw] at h
      · have hw' : ¬ (((b ++ x).length : Nat) : Int) - 4 < leInt32 b := by
          simp only [List.length_append, Int.natCast_add]; omega
        simp only [hw, hw', if_false] at h ⊢
        have hlen : (leInt32 b).toNat ≤ (b.drop 4).length := by simp; omega
        have hlen2 : 4 + (leInt32 b).toNat ≤ b.length := by omega
        rw [List.drop_append_of_le_length (by omega), List.take_append_of_le_length hlen,
            List.drop_append_of_le_length hlen2]
        split at h
        · cases h
        · rename_i m' hm
          cases h
          rfl

end PSO.Framing
