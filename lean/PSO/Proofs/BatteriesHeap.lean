import PSO.Model.PyContainers
/-!
Correctness of the transcribed CPython `heapq` algorithms (`_siftdown`, `_siftup`, `heappush`,
`heappop`): heap invariant by induction over the two sift loops, multiset effect by counting.
-/
namespace PSO.Py.PyHeap

theorem getD_set' (a : List Int) (i j : Nat) (v : Int) (hi : i < a.length) :
    (a.set i v).getD j 0 = if j = i then v else a.getD j 0 := by
  simp only [List.getD_eq_getElem?_getD, List.getElem?_set]
  by_cases h : i = j
  · subst h; simp [hi]
  · have : ¬ j = i := fun e => h e.symm
    simp [h, this]

theorem count_set' (a : List Int) (i : Nat) (w v : Int) (hi : i < a.length) :
    List.count v (a.set i w) + (if a.getD i 0 = v then 1 else 0) =
      List.count v a + (if w = v then 1 else 0) := by
  have h := List.count_set (a := w) (b := v) (l := a) hi
  have hg : a.getD i 0 = a[i] := by simp [List.getD_eq_getElem?_getD, hi]
  rw [h, hg]
  have hm : a[i] ∈ a := List.getElem_mem hi
  by_cases e : a[i] = v
  · have : 0 < List.count v a := by rw [List.count_pos_iff]; exact e ▸ hm
    simp [e]; omega
  · simp [e]

/-- heap order of the array: every non-root element is ≥ its parent `(i-1)>>1` -/
def IsHeap (a : List Int) : Prop :=
  ∀ i, 0 < i → i < a.length → a.getD ((i - 1) / 2) 0 ≤ a.getD i 0

/-- "hole moving up" invariant of `_siftdown`: `a` is a heap except that position `pos` is about to
receive `x`; the children of `pos` are ≥ `x` and ≥ the parent of `pos`. -/
structure HoleUp (a : List Int) (pos : Nat) (x : Int) : Prop where
  lt : pos < a.length
  h1 : ∀ c, 0 < c → c < a.length → c ≠ pos → (c - 1) / 2 ≠ pos → a.getD ((c - 1) / 2) 0 ≤ a.getD c 0
  h2 : 0 < pos → ∀ c, 0 < c → c < a.length → (c - 1) / 2 = pos → a.getD ((pos - 1) / 2) 0 ≤ a.getD c 0
  h3 : ∀ c, 0 < c → c < a.length → (c - 1) / 2 = pos → x ≤ a.getD c 0

theorem siftdown_length (a : List Int) (sp pos : Nat) (x : Int) :
    (siftdown a sp pos x).length = a.length := by
  fun_induction siftdown a sp pos x <;> simp_all

theorem siftdown_isHeap (a : List Int) (pos : Nat) (x : Int) (h : HoleUp a pos x) :
    IsHeap (siftdown a 0 pos x) := by
  fun_induction siftdown a 0 pos x with
  | case1 a pos hpos parentpos parent hlt ih =>
    apply ih
    obtain ⟨lt, h1, h2, h3⟩ := h
    have hpp : parentpos < pos := by simp only [parentpos]; omega
    have hlen : (a.set pos parent).length = a.length := by simp
    refine ⟨by rw [hlen]; omega, ?_, ?_, ?_⟩
    · intro c hc0 hcl hcne hpne
      rw [hlen] at hcl
      rw [getD_set' _ _ _ _ lt, getD_set' _ _ _ _ lt]
      by_cases e1 : c = pos
      · subst e1; exact absurd rfl hpne
      · by_cases e2 : (c - 1) / 2 = pos
        · simp only [e2, if_true, e1, if_false]
          exact h2 hpos c hc0 hcl e2
        · simp only [e2, e1, if_false]
          exact h1 c hc0 hcl e1 e2
    · intro hp0 c hc0 hcl hcp
      rw [hlen] at hcl
      rw [getD_set' _ _ _ _ lt, getD_set' _ _ _ _ lt]
      have e0 : ¬ ((parentpos - 1) / 2 = pos) := by omega
      have hgp : a.getD ((parentpos - 1) / 2) 0 ≤ a.getD parentpos 0 :=
        h1 parentpos hp0 (by omega) (by omega) e0
      simp only [e0, if_false]
      by_cases e1 : c = pos
      · simp only [e1, if_true]; exact hgp
      · simp only [e1, if_false]
        have := h1 c hc0 hcl e1 (by omega)
        rw [hcp] at this
        exact Int.le_trans hgp this
    · intro c hc0 hcl hcp
      rw [hlen] at hcl
      rw [getD_set' _ _ _ _ lt]
      by_cases e1 : c = pos
      · simp only [e1, if_true]; exact Int.le_of_lt hlt
      · simp only [e1, if_false]
        have := h1 c hc0 hcl e1 (by omega)
        rw [hcp] at this
        exact Int.le_trans (Int.le_of_lt hlt) this
  | case2 a pos hpos parentpos parent hlt =>
    obtain ⟨lt, h1, h2, h3⟩ := h
    intro c hc0 hcl
    have hlen : (a.set pos x).length = a.length := by simp
    rw [hlen] at hcl
    rw [getD_set' _ _ _ _ lt, getD_set' _ _ _ _ lt]
    by_cases e1 : c = pos
    · subst e1
      have e0 : ¬ ((c - 1) / 2 = c) := by omega
      simp only [e0, if_false, if_true]
      exact Int.not_lt.mp hlt
    · by_cases e2 : (c - 1) / 2 = pos
      · simp only [e2, if_true, e1, if_false]; exact h3 c hc0 hcl e2
      · simp only [e2, e1, if_false]; exact h1 c hc0 hcl e1 e2
  | case3 a pos hpos =>
    obtain ⟨lt, h1, h2, h3⟩ := h
    have hp : pos = 0 := by omega
    subst hp
    intro c hc0 hcl
    have hlen : (a.set 0 x).length = a.length := by simp
    rw [hlen] at hcl
    rw [getD_set' _ _ _ _ lt, getD_set' _ _ _ _ lt]
    have e1 : ¬ c = 0 := by omega
    by_cases e2 : (c - 1) / 2 = 0
    · simp only [e2, if_true, e1, if_false]; exact h3 c hc0 hcl e2
    · simp only [e2, e1, if_false]; exact h1 c hc0 hcl e1 e2



/-- multiset effect of `_siftdown`: position `pos` loses its old value and `x` enters -/
theorem siftdown_count (a : List Int) (sp pos : Nat) (x v : Int) (hlt : pos < a.length) :
    List.count v (siftdown a sp pos x) + (if a.getD pos 0 = v then 1 else 0) =
      List.count v a + (if x = v then 1 else 0) := by
  fun_induction siftdown a sp pos x with
  | case1 a pos hpos parentpos parent hlt' ih =>
    have hpp : parentpos < pos := by simp only [parentpos]; omega
    have hlen : (a.set pos parent).length = a.length := by simp
    have ih' := ih (by rw [hlen]; omega)
    rw [getD_set' _ _ _ _ hlt] at ih'
    have e0 : ¬ parentpos = pos := by omega
    simp only [e0, if_false] at ih'
    have hc := count_set' a pos parent v hlt
    generalize (if a.getD pos 0 = v then 1 else 0) = t1 at *
    generalize (if a.getD parentpos 0 = v then 1 else 0) = t2 at *
    generalize (if x = v then 1 else 0) = t3 at *
    omega
  | case2 a pos hpos parentpos parent hlt' => exact count_set' a pos x v hlt
  | case3 a pos hpos => exact count_set' a pos x v hlt

/-- "hole moving down" invariant of the bubbling loop of `_siftup`: all parent/child relations hold
except those whose parent is `pos`; the children of `pos` are ≥ the parent of `pos`. -/
structure HoleDown (a : List Int) (pos : Nat) : Prop where
  lt : pos < a.length
  d1 : ∀ c, 0 < c → c < a.length → (c - 1) / 2 ≠ pos → a.getD ((c - 1) / 2) 0 ≤ a.getD c 0
  d2 : 0 < pos → ∀ c, 0 < c → c < a.length → (c - 1) / 2 = pos → a.getD ((pos - 1) / 2) 0 ≤ a.getD c 0

theorem siftupLoop_spec (a : List Int) (endpos pos : Nat) (he : endpos = a.length)
    (h : HoleDown a pos) :
    HoleDown (siftupLoop a endpos pos).1 (siftupLoop a endpos pos).2 ∧
    (siftupLoop a endpos pos).1.length = a.length ∧
    a.length ≤ 2 * (siftupLoop a endpos pos).2 + 1 := by
  fun_induction siftupLoop a endpos pos with
  | case1 a pos childpos hlt rightpos childpos' ih =>
    obtain ⟨lt, d1, d2⟩ := h
    have hlen : (a.set pos (a.getD childpos' 0)).length = a.length := by simp
    have hc' : childpos' = childpos ∨ (childpos' = rightpos ∧ rightpos < endpos ∧
        ¬ (a.getD childpos 0 < a.getD rightpos 0)) := by
      simp only [childpos']
      split
      · right; exact ⟨rfl, by assumption⟩
      · left; rfl
    have hcl : childpos' < a.length := by
      rcases hc' with e | ⟨e, h1, _⟩ <;> omega
    have hcp : (childpos' - 1) / 2 = pos := by
      rcases hc' with e | ⟨e, _, _⟩ <;> simp only [e, childpos, rightpos] <;> omega
    have hcpos : 0 < childpos' := by
      rcases hc' with e | ⟨e, _, _⟩ <;> simp only [e, childpos, rightpos] <;> omega
    have hne : childpos' ≠ pos := by omega
    have key : HoleDown (a.set pos (a.getD childpos' 0)) childpos' := by
      refine ⟨by rw [hlen]; exact hcl, ?_, ?_⟩
      · intro c hc0 hcl2 hcne
        rw [hlen] at hcl2
        rw [getD_set' _ _ _ _ lt, getD_set' _ _ _ _ lt]
        by_cases e1 : c = pos
        · subst e1
          have e0 : ¬ ((c - 1) / 2 = c) := by omega
          simp only [e0, if_false, if_true]
          exact d2 hc0 childpos' hcpos hcl hcp
        · by_cases e2 : (c - 1) / 2 = pos
          · simp only [e2, if_true, e1, if_false]
            -- c is a child of pos: either the chosen one or its sibling
            by_cases e3 : c = childpos'
            · subst e3; exact Int.le_refl _
            · have hcc : c = childpos ∨ c = rightpos := by simp only [childpos, rightpos]; omega
              rcases hc' with e | ⟨e, h1, h2⟩
              · -- chosen = left child, so c = right child and left < right
                have hcr : c = rightpos := by rcases hcc with h | h; exact absurd (h.trans e.symm) e3; exact h
                have hr : rightpos < endpos := by omega
                have hnn : ¬ (rightpos < endpos ∧ ¬ (a.getD childpos 0 < a.getD rightpos 0)) := by
                  intro hh
                  have : childpos' = rightpos := by simp only [childpos']; rw [dif_pos hh]
                  omega
                have : a.getD childpos 0 < a.getD rightpos 0 := by
                  by_cases q : a.getD childpos 0 < a.getD rightpos 0
                  · exact q
                  · exact absurd ⟨hr, q⟩ hnn
                rw [e, hcr]; exact Int.le_of_lt this
              · have hcr : c = childpos := by rcases hcc with h | h; exact h; exact absurd (h.trans e.symm) e3
                rw [e, hcr]; exact Int.not_lt.mp h2
          · simp only [e2, e1, if_false]; exact d1 c hc0 hcl2 e2
      · intro _ c hc0 hcl2 hcp2
        rw [hlen] at hcl2
        rw [getD_set' _ _ _ _ lt, getD_set' _ _ _ _ lt]
        have e1 : ¬ c = pos := by omega
        simp only [hcp, if_true, e1, if_false]
        exact hcp2 ▸ d1 c hc0 hcl2 (by omega)
    have := ih (by rw [hlen]; exact he) key
    rw [hlen] at this
    exact this
  | case2 a pos childpos hlt =>
    exact ⟨h, rfl, by simp only [childpos] at hlt; omega⟩

theorem siftupLoop_count (a : List Int) (endpos pos : Nat) (v : Int) (hlt : pos < a.length)
    (he : endpos = a.length) :
    List.count v (siftupLoop a endpos pos).1 + (if a.getD pos 0 = v then 1 else 0) =
      List.count v a + (if (siftupLoop a endpos pos).1.getD (siftupLoop a endpos pos).2 0 = v then 1 else 0) := by
  fun_induction siftupLoop a endpos pos with
  | case1 a pos childpos hlt' rightpos childpos' ih =>
    have hlen : (a.set pos (a.getD childpos' 0)).length = a.length := by simp
    have hcl : childpos' < a.length ∧ childpos' ≠ pos := by
      simp only [childpos']
      split <;> simp only [rightpos, childpos] at * <;> omega
    have ih' := ih (by rw [hlen]; exact hcl.1) (by rw [hlen]; exact he)
    rw [getD_set' _ _ _ _ hlt] at ih'
    simp only [hcl.2, if_false] at ih'
    have hc := count_set' a pos (a.getD childpos' 0) v hlt
    generalize (if a.getD pos 0 = v then 1 else 0) = t1 at *
    generalize (if a.getD childpos' 0 = v then 1 else 0) = t2 at *
    omega
  | case2 a pos childpos hlt' => rfl



theorem siftup_eq (a : List Int) (pos : Nat) :
    siftup a pos = siftdown (siftupLoop a a.length pos).1 pos (siftupLoop a a.length pos).2 (a.getD pos 0) := by
  simp only [siftup]

theorem IsHeap.root_le {a : List Int} (h : IsHeap a) : ∀ i, i < a.length → a.getD 0 0 ≤ a.getD i 0 := by
  intro i
  induction i using Nat.strongRecOn with
  | ind i ih =>
    intro hi
    by_cases e : i = 0
    · subst e; exact Int.le_refl _
    · have h1 := h i (by omega) hi
      have h2 := ih ((i - 1) / 2) (by omega) (by omega)
      exact Int.le_trans h2 h1

theorem IsHeap.root_le_mem {a : List Int} (h : IsHeap a) (y : Int) (hy : y ∈ a) : a.getD 0 0 ≤ y := by
  obtain ⟨i, hi, rfl⟩ := List.getElem_of_mem hy
  have := h.root_le i hi
  simpa [List.getD_eq_getElem?_getD, hi] using this

theorem getD_append_left' (a : List Int) (x : Int) (i : Nat) (hi : i < a.length) :
    (a ++ [x]).getD i 0 = a.getD i 0 := by
  simp [List.getD_eq_getElem?_getD, List.getElem?_append_left hi]

theorem IsHeap.dropLast_append {a : List Int} {x : Int} (h : IsHeap (a ++ [x])) : IsHeap a := by
  intro i hi0 hil
  have := h i hi0 (by simp; omega)
  rwa [getD_append_left' a x i hil, getD_append_left' a x _ (by omega)] at this

theorem HoleDown.toHoleUp {a : List Int} {pos : Nat} (h : HoleDown a pos) (leaf : a.length ≤ 2 * pos + 1)
    (x : Int) : HoleUp a pos x := by
  obtain ⟨lt, d1, d2⟩ := h
  refine ⟨lt, ?_, ?_, ?_⟩
  · intro c hc0 hcl _ hp; exact d1 c hc0 hcl hp
  · intro _ c hc0 hcl hp; omega
  · intro c hc0 hcl hp; omega

/-- `_siftup(heap, 0)` on an array that is a heap except for its root yields a heap -/
theorem siftup_root_isHeap (a : List Int) (h : HoleDown a 0) : IsHeap (siftup a 0) := by
  rw [siftup_eq]
  obtain ⟨hd, hl, hleaf⟩ := siftupLoop_spec a a.length 0 rfl h
  apply siftdown_isHeap
  apply hd.toHoleUp
  rw [hl]; exact hleaf

theorem siftupLoop_length (a : List Int) (e pos : Nat) : (siftupLoop a e pos).1.length = a.length := by
  fun_induction siftupLoop a e pos with
  | case1 a pos childpos hlt' rightpos childpos' ih => rw [ih]; simp
  | case2 a pos childpos hlt' => rfl

theorem siftupLoop_pos_lt (a : List Int) (e pos : Nat) (hlt : pos < a.length) (he : e ≤ a.length) :
    (siftupLoop a e pos).2 < a.length := by
  fun_induction siftupLoop a e pos with
  | case1 a pos childpos hlt' rightpos childpos' ih =>
    have hlen : (a.set pos (a.getD childpos' 0)).length = a.length := by simp
    have hcl : childpos' < a.length := by
      simp only [childpos']
      split <;> simp only [rightpos, childpos] at * <;> omega
    have := ih (by rw [hlen]; exact hcl) (by rw [hlen]; exact he)
    rwa [hlen] at this
  | case2 a pos childpos hlt' => exact hlt

theorem siftup_count (a : List Int) (pos : Nat) (v : Int) (hlt : pos < a.length) :
    List.count v (siftup a pos) = List.count v a := by
  rw [siftup_eq]
  have h1 := siftupLoop_count a a.length pos v hlt rfl
  have hlen := siftupLoop_length a a.length pos
  have hpos' : (siftupLoop a a.length pos).2 < (siftupLoop a a.length pos).1.length := by
    rw [hlen]; exact siftupLoop_pos_lt a a.length pos hlt (Nat.le_refl _)
  have h2 := siftdown_count (siftupLoop a a.length pos).1 pos (siftupLoop a a.length pos).2 (a.getD pos 0) v hpos'
  generalize (if a.getD pos 0 = v then 1 else 0) = t1 at *
  generalize (if (siftupLoop a a.length pos).1.getD (siftupLoop a a.length pos).2 0 = v then 1 else 0) = t2 at *
  omega

theorem heappush_isHeap (a : List Int) (x : Int) (h : IsHeap a) : IsHeap (heappush a x) := by
  simp only [heappush]
  apply siftdown_isHeap
  have hl : (a ++ [x]).length - 1 = a.length := by simp
  rw [hl]
  refine ⟨by simp, ?_, ?_, ?_⟩
  · intro c hc0 hcl hc1 hc2
    have hcl' : c < a.length := by simp at hcl; omega
    rw [getD_append_left' a x c hcl', getD_append_left' a x _ (by omega)]
    exact h c hc0 hcl'
  · intro _ c hc0 hcl hp; simp at hcl; omega
  · intro c hc0 hcl hp; simp at hcl; omega

theorem heappush_count (a : List Int) (x v : Int) :
    List.count v (heappush a x) = List.count v a + (if x = v then 1 else 0) := by
  simp only [heappush]
  have hl : (a ++ [x]).length - 1 = a.length := by simp
  rw [hl]
  have hx : (a ++ [x]).getD a.length 0 = x := by simp [List.getD_eq_getElem?_getD]
  rw [hx]
  have := siftdown_count (a ++ [x]) 0 a.length x v (by simp)
  rw [hx] at this
  have hc : List.count v (a ++ [x]) = List.count v a + (if x = v then 1 else 0) := by
    simp [List.count_append, List.count_singleton]
  omega

theorem heappush_perm (a : List Int) (x : Int) : (heappush a x).Perm (x :: a) := by
  rw [List.perm_iff_count]
  intro v
  rw [heappush_count, List.count_cons]
  simp only [beq_iff_eq]

theorem heappop_nil : heappop [] = .error .IndexError := rfl

/-- `heappop` on a non-empty heap: returns the root, which is a minimum; removes exactly one
occurrence of it (multiset equation as a permutation); leaves a heap. -/
theorem heappop_spec (a : List Int) (hne : a ≠ []) (h : IsHeap a) :
    ∃ x r, heappop a = .ok (x, r) ∧ x = a.getD 0 0 ∧ (∀ y ∈ a, x ≤ y) ∧ a.Perm (x :: r) ∧ IsHeap r := by
  rcases List.eq_nil_or_concat a with rfl | ⟨b, last, rfl⟩
  · exact absurd rfl hne
  · rw [List.concat_eq_append] at *
    have hb : IsHeap b := h.dropLast_append
    cases hbe : b with
    | nil =>
      subst hbe
      refine ⟨last, [], by simp [heappop], by simp, by simp, by simp, ?_⟩
      intro i _ hi; simp at hi
    | cons b0 bs =>
      have hlen : 0 < b.length := by rw [hbe]; simp
      have hpop : heappop (b ++ [last]) = .ok (b.getD 0 0, siftup (b.set 0 last) 0) := by
        simp only [heappop, List.getLast?_append, List.getLast?_singleton, Option.some_or,
          List.dropLast_concat]
        have : b.length ≠ 0 := by omega
        simp [this]
      have hroot : (b ++ [last]).getD 0 0 = b.getD 0 0 := getD_append_left' b last 0 hlen
      rw [← hbe]
      refine ⟨b.getD 0 0, siftup (b.set 0 last) 0, hpop, hroot.symm, ?_, ?_, ?_⟩
      · intro y hy
        rw [← hroot]; exact h.root_le_mem y hy
      · rw [List.perm_iff_count]
        intro v
        have hl0 : 0 < (b.set 0 last).length := by simpa using hlen
        rw [List.count_cons, siftup_count _ 0 v hl0]
        have := count_set' b 0 last v hlen
        simp only [List.count_append, List.count_singleton, beq_iff_eq]
        generalize (if b.getD 0 0 = v then 1 else 0) = t1 at *
        generalize (if last = v then 1 else 0) = t2 at *
        omega
      · apply siftup_root_isHeap
        refine ⟨by simpa using hlen, ?_, ?_⟩
        · intro c hc0 hcl hp
          have hcl' : c < b.length := by simpa using hcl
          rw [getD_set' _ _ _ _ hlen, getD_set' _ _ _ _ hlen]
          have e1 : ¬ c = 0 := by omega
          simp only [hp, e1, if_false]
          exact hb c hc0 hcl'
        · intro h0; omega

end PSO.Py.PyHeap
