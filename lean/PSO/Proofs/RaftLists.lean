import PSO.Proofs.RaftElection
namespace PSO.Raft

theorem Agree.refl (a : List Entry) (i : Nat) : Agree a a i := rfl
theorem Agree.symm {a b : List Entry} {i : Nat} (h : Agree a b i) : Agree b a i := Eq.symm h
theorem Agree.trans {a b c : List Entry} {i : Nat} (h1 : Agree a b i) (h2 : Agree b c i) : Agree a c i :=
  Eq.trans h1 h2

theorem Agree.mono {a b : List Entry} {i j : Nat} (h : Agree a b i) (hji : j ≤ i) : Agree a b j := by
  unfold Agree at *
  have h1 : (a.take (i+1)).take (j+1) = (b.take (i+1)).take (j+1) := by rw [h]
  simpa [List.take_take, Nat.min_eq_left (Nat.succ_le_succ hji)] using h1

theorem Agree.length_lt {a b : List Entry} {i : Nat} (h : Agree a b i) (hi : i < a.length) : i < b.length := by
  unfold Agree at h
  have := congrArg List.length h
  simp at this
  omega

theorem Agree.getElem? {a b : List Entry} {i j : Nat} (h : Agree a b i) (hj : j ≤ i) : a[j]? = b[j]? := by
  unfold Agree at h
  have h1 : (a.take (i+1))[j]? = (b.take (i+1))[j]? := by rw [h]
  simpa [List.getElem?_take, Nat.lt_succ_of_le hj] using h1

theorem Agree.termAt {a b : List Entry} {i j : Nat} (h : Agree a b i) (hj : j ≤ i) : termAt a j = termAt b j := by
  unfold PSO.Raft.termAt; rw [h.getElem? hj]

theorem agree_append_right {a b : List Entry} {i : Nat} (h : Agree a b i) (hi : i < a.length) (ys : List Entry) :
    Agree a (b ++ ys) i := by
  have hb := h.length_lt hi
  unfold Agree at *
  rw [h, List.take_append_of_le_length (by omega)]

theorem agree_append_left {a : List Entry} {i : Nat} (hi : i < a.length) (ys : List Entry) :
    Agree (a ++ ys) a i := by
  unfold Agree; rw [List.take_append_of_le_length (by omega)]

/-- Merging the leader's own entries: agreement up to the end of the merged segment. -/
theorem merge_agree (T : List Entry) :
    ∀ (es log : List Entry) (prev : Nat),
      Agree log T prev → prev < log.length → es <+: T.drop (prev + 1) →
      (∀ p, p < log.length → p < T.length → termAt log p = termAt T p → Agree log T p) →
      Agree (mergeEntries log prev es) T (prev + es.length) ∧
      (mergeEntries log prev es = log ∨ (mergeEntries log prev es).length = prev + es.length + 1) := by
  intro es
  induction es with
  | nil => intro log prev h _ _ _; exact ⟨by simpa [mergeEntries] using h, Or.inl rfl⟩
  | cons e rest ih =>
    intro log prev h hprev hpre H
    -- e is T[prev+1], rest is a prefix of T.drop (prev+2)
    obtain ⟨tl, htl⟩ := hpre
    have hT : T.drop (prev + 1) = e :: (rest ++ tl) := by rw [← htl]; simp
    have hTlen : prev + 1 < T.length := by
      by_contra hc
      have : T.drop (prev + 1) = [] := List.drop_eq_nil_of_le (by omega)
      rw [this] at hT; cases hT
    have hTe : T[prev + 1]? = some e := by
      have := congrArg (fun l => l[0]?) hT
      simpa [List.getElem?_drop] using this
    have hTrest : rest <+: T.drop (prev + 1 + 1) := by
      refine ⟨tl, ?_⟩
      have : T.drop (prev + 1 + 1) = (T.drop (prev + 1)).drop 1 := by rw [List.drop_drop]
      rw [this, hT]; simp
    have htake : T.take (prev + 1 + 1) = T.take (prev + 1) ++ [e] := by
      rw [List.take_add_one, hTe]; simp
    -- the cut case
    have hcut : Agree (log.take (prev + 1) ++ e :: rest) T (prev + (e :: rest).length) ∧
        (log.take (prev + 1) ++ e :: rest).length = prev + (e :: rest).length + 1 := by
      constructor
      · unfold Agree at h ⊢
        have hlen : (log.take (prev + 1)).length = prev + 1 := by simp; omega
        have h2 : T.take (prev + (e :: rest).length + 1) = T.take (prev + 1) ++ (e :: rest) := by
          have : T = T.take (prev + 1) ++ T.drop (prev + 1) := (List.take_append_drop _ _).symm
          conv_lhs => rw [this, hT]
          have hl2 : (T.take (prev + 1)).length = prev + 1 := by simp; omega
          rw [List.take_append, hl2]
          have : prev + (e :: rest).length + 1 - (prev + 1) = (e :: rest).length := by simp
          rw [this]
          have : List.take (prev + (e :: rest).length + 1) (List.take (prev + 1) T) = List.take (prev + 1) T := by
            apply List.take_of_length_le; rw [hl2]; simp
          rw [this]
          have : (e :: (rest ++ tl)).take (e :: rest).length = e :: rest := by simp
          rw [this]
        rw [h2, ← h]
        apply List.take_of_length_le
        simp; omega
      · simp; omega
    unfold mergeEntries
    split
    · exact ⟨hcut.1, Or.inr hcut.2⟩
    · rename_i x hx
      split
      · rename_i hterm
        -- same term at prev+1: entries agree up to prev+1, recurse
        have hlt : prev + 1 < log.length := by
          by_contra hc
          rw [List.getElem?_eq_none (by omega)] at hx; cases hx
        have hag : Agree log T (prev + 1) := by
          apply H (prev + 1) hlt hTlen
          unfold termAt; rw [hx, hTe]; exact hterm
        obtain ⟨h1, h2⟩ := ih log (prev + 1) hag hlt hTrest H
        refine ⟨?_, ?_⟩
        · have : prev + (e :: rest).length = prev + 1 + rest.length := by simp; omega
          rw [this]; exact h1
        · rcases h2 with h2 | h2
          · exact Or.inl h2
          · right; rw [h2]; simp; omega
      · exact ⟨hcut.1, Or.inr hcut.2⟩

theorem mem_merge {log : List Entry} {prev : Nat} {es : List Entry} {e : Entry}
    (h : e ∈ mergeEntries log prev es) : e ∈ log ∨ e ∈ es := by
  induction es generalizing prev with
  | nil => left; simpa [mergeEntries] using h
  | cons a rest ih =>
    unfold mergeEntries at h
    split at h
    · rcases List.mem_append.mp h with h | h
      · left; exact List.mem_of_mem_take h
      · right; exact h
    · split at h
      · rcases ih h with h | h
        · left; exact h
        · right; exact List.mem_cons_of_mem _ h
      · rcases List.mem_append.mp h with h | h
        · left; exact List.mem_of_mem_take h
        · right; exact h

end PSO.Raft
