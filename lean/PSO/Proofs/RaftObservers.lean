import PSO.Proofs.RaftTheorems

/-! # Read-only nodes (node ids `≥ N`) in the protocol model -/
namespace PSO.Raft

/-- Only voters ever cast votes. -/
def InvO (N : Nat) (s : State) : Prop := ∀ t v c, s.g.voted t v = some c → v < N

theorem invO_init (N : Nat) : InvO N init := by
  intro t v c h; simp [init] at h

theorem invO_of_ghost {N : Nat} {s s' : State} (h : InvO N s) (hv : s'.g.voted = s.g.voted) : InvO N s' := by
  intro t v c hh; rw [hv] at hh; exact h t v c hh

theorem invO_becomeLeader {N : Nat} {s : State} {n : Nat} {ns : NodeSt} (h : InvO N s) :
    InvO N (becomeLeader s n ns) := invO_of_ghost h rfl

theorem invO_step {N : Nat} {s s' : State} {a : Action} (h : InvO N s) (hs : step N s a = some s') :
    InvO N s' := by
  cases a with
  | timeout n dsts =>
    simp only [step] at hs
    split at hs
    · rename_i hg
      have hcore : InvO N { (setNode s n { (s.nodes n) with term := (s.nodes n).term + 1, votedFor := some n, votes := 1, role := .candidate }) with
          msgs := s.msgs ++ dsts.map (fun d => Msg.reqVote ((s.nodes n).term + 1) n d ((s.nodes n).log.length - 1) (lastTerm (s.nodes n).log)),
          g := { s.g with voted := upd2 s.g.voted ((s.nodes n).term + 1) n (some n) } } := by
        intro t v c hv
        change upd2 s.g.voted ((s.nodes n).term + 1) n (some n) t v = some c at hv
        simp only [upd2] at hv
        split at hv
        · rename_i heq; rw [heq.2]; exact hg.1
        · exact h t v c hv
      split at hs
      · injection hs with hs; subst hs; exact invO_becomeLeader hcore
      · injection hs with hs; subst hs; exact hcore
    · cases hs
  | recvReqVote n m =>
    simp only [step] at hs
    split at hs
    · split at hs
      · rename_i hg
        split at hs
        · injection hs with hs; subst hs
          intro t v c hv
          rename_i t0 cand dst li lt _
          change upd2 s.g.voted t0 n (some cand) t v = some c at hv
          simp only [upd2] at hv
          split at hv
          · rename_i heq; rw [heq.2]; exact hg.1
          · exact h t v c hv
        · injection hs with hs; subst hs; exact invO_of_ghost h rfl
      · cases hs
    · cases hs
  | recvVote n m =>
    simp only [step] at hs
    split at hs
    · split at hs
      · split at hs
        · split at hs
          · injection hs with hs; subst hs
            exact invO_becomeLeader (s := {(setNode s n _) with msgs := _, g := _}) (invO_of_ghost h rfl)
          · injection hs with hs; subst hs; exact invO_of_ghost h rfl
        · injection hs with hs; subst hs; exact invO_of_ghost h rfl
      · cases hs
    · cases hs
  | clientAppend n cmd =>
    simp only [step] at hs
    split at hs
    · injection hs with hs; subst hs; exact invO_of_ghost h rfl
    · cases hs
  | sendAppend n dst prev k c =>
    simp only [step] at hs
    split at hs
    · injection hs with hs; subst hs; exact invO_of_ghost h rfl
    · cases hs
  | recvAppend n m =>
    simp only [step] at hs
    split at hs
    · split at hs
      · split at hs
        · injection hs with hs; subst hs; exact invO_of_ghost h rfl
        · split at hs
          · injection hs with hs; subst hs; exact invO_of_ghost h rfl
          · injection hs with hs; subst hs; exact invO_of_ghost h rfl
      · cases hs
    · cases hs
  | recvAck n m =>
    simp only [step] at hs
    split at hs
    · split at hs
      · split at hs
        · injection hs with hs; subst hs; exact invO_of_ghost h rfl
        · injection hs with hs; subst hs; exact invO_of_ghost h rfl
      · cases hs
    · cases hs
  | advanceCommit n i =>
    simp only [step] at hs
    split at hs
    · injection hs with hs; subst hs; exact invO_of_ghost h rfl
    · cases hs
  | stepDown n =>
    simp only [step] at hs
    split at hs
    · injection hs with hs; subst hs; exact invO_of_ghost h rfl
    · cases hs
  | apply n =>
    simp only [step] at hs
    split at hs
    · injection hs with hs; subst hs; exact invO_of_ghost h rfl
    · cases hs
  | observeTerm n t =>
    simp only [step] at hs
    split at hs
    · injection hs with hs; subst hs; exact invO_of_ghost h rfl
    · cases hs
  | sendSnapshot n dst k c =>
    simp only [step] at hs
    split at hs
    · injection hs with hs; subst hs; exact invO_of_ghost h rfl
    · cases hs
  | recvSnapshot n m =>
    simp only [step] at hs
    split at hs
    · split at hs
      · split at hs
        · injection hs with hs; subst hs; exact invO_of_ghost h rfl
        · injection hs with hs; subst hs; exact invO_of_ghost h rfl
      · cases hs
    · cases hs
  | lose m =>
    simp only [step] at hs
    split at hs
    · injection hs with hs; subst hs; exact invO_of_ghost h rfl
    · cases hs
  | restart n c a =>
    simp only [step] at hs
    split at hs
    · injection hs with hs; subst hs; exact invO_of_ghost h rfl
    · cases hs

theorem invO_reachable {N : Nat} {s : State} (h : Reachable N s) : InvO N s := by
  induction h with
  | init => exact invO_init N
  | step _ hs ih => exact invO_step ih hs

/-- A read-only node is a follower that has voted for nobody, in every reachable state. -/
theorem observer_is_passive {N : Nat} {s : State} (h : Reachable N s) {n : Nat} (hn : N ≤ n) :
    (s.nodes n).role = .follower ∧ (s.nodes n).votedFor = none ∧ ∀ t, s.g.voted t n = none := by
  have i := inv_reachable h
  have ho := invO_reachable h
  have hv : ∀ t, s.g.voted t n = none := by
    intro t
    cases hvt : s.g.voted t n with
    | none => rfl
    | some c => have := ho t n c hvt; omega
  refine ⟨?_, ?_, hv⟩
  · by_contra hr
    have := (i.e.self_vote n hr).2.1; omega
  · rw [← i.e.voted_cur n]; exact hv _

/-- No quorum (election or commit) ever contains a read-only node. -/
theorem observer_in_no_quorum {N : Nat} {Q : List Nat} (hQ : IsQuorum N Q) {n : Nat} (hn : N ≤ n) : n ∉ Q := by
  intro hmem; have := hQ.2.1 n hmem; omega

/-- The leader's commit rule counts voters only: the match index of a read-only node is irrelevant. -/
theorem matchCount_ignores_observers (N n : Nat) (mi mi' : Nat → Nat) (i : Nat)
    (hsame : ∀ k, k < N → mi k = mi' k) : matchCount N n mi i = matchCount N n mi' i := by
  unfold matchCount others
  congr 2
  apply List.filter_congr
  intro k hk
  have hkN : k < N := List.mem_range.mp (List.mem_filter.mp hk).1
  rw [hsame k hkN]

end PSO.Raft
