import PSO.Proofs.TransportStep

/-! Bounded progress of the dialling side (towards `C14.reconnect_bound`). -/
namespace PSO.Transport

/-- What the progress argument tracks about the dialled node `a` and its registered object `c`. -/
structure Dial (s : St) (a c : Nat) : Prop where
  inv : Inv s
  mem : a ∈ s.nodes
  should : s.shouldConnect a false = true
  reg : lookup (.tcp a) s.reg = some c

theorem Dial.of_sameCfg {s s' : St} {a c : Nat} (d : Dial s a c) (h' : Inv s') (e : SameCfg s s') : Dial s' a c := by
  obtain ⟨e1, e2, e3, _⟩ := e
  exact ⟨h', by rw [e2]; exact d.mem, by simpa [St.shouldConnect, e3] using d.should, by rw [e1]; exact d.reg⟩

theorem lastAttempt_connConnect (s : St) (c : Nat) (f : Bool) : (s.connConnect c f).lastAttempt = s.lastAttempt := by
  unfold St.connConnect
  cases s.conn? c <;> rfl

/-- `_connectIfNecessarySingle` for another node leaves object `c` and the attempt time of `a` alone. -/
theorem connectSingle_other {s : St} {a c : Nat} (d : Dial s a c) {a' : Nat} (hne : a' ≠ a) (p f : Bool) :
    (s.connectSingle a' p f).conn? c = s.conn? c ∧
    lookup a (s.connectSingle a' p f).lastAttempt = lookup a s.lastAttempt := by
  constructor
  · rcases conn?_connectSingle s a' c p f with e | ⟨e, _⟩
    · exact e
    · have := d.inv.inj _ _ _ e d.reg
      cases this; exact absurd rfl hne
  · rcases connectSingle_cases s a' p f with e | ⟨_, e⟩ | ⟨x, _, _, _, _, e⟩
    · rw [e]
    · rw [e]; rfl
    · rw [e, lastAttempt_connConnect]
      show lookup a (setKey a' s.now s.lastAttempt) = _
      rw [lookup_setKey_ne (Ne.symm hne)]

/-- `_connectIfNecessarySingle(a)` when the registered object is not DISCONNECTED: nothing happens. -/
theorem connectSingle_live {s : St} {a c : Nat} {k : Conn} (hl : lookup (.tcp a) s.reg = some c)
    (hk : s.conn? c = some k) (hst : k.state ≠ .disconnected) (p f : Bool) : s.connectSingle a p f = s := by
  unfold St.connectSingle
  have : s.regLive (NodeId.tcp a) = true := by
    simp [St.regLive, St.regConn, hl, hk, hst]
  simp [this]

/-- `_connectIfNecessarySingle(a)` when the object is DISCONNECTED and the retry time has passed: it dials. -/
theorem connectSingle_dials' {s : St} {a c : Nat} {k : Conn} (hshould : s.shouldConnect a false = true)
    (hreg : lookup (.tcp a) s.reg = some c) (hk : s.conn? c = some k)
    (hst : k.state = .disconnected) (hrec : s.recent a = false) (f : Bool) :
    s.connectSingle a false f =
      ({ s with lastAttempt := setKey a s.now s.lastAttempt }).connConnect c f := by
  unfold St.connectSingle
  have h1 : s.regLive (NodeId.tcp a) = false := by simp [St.regLive, St.regConn, hreg, hk, hst]
  simp [h1, hshould, hreg, hrec]

theorem connectSingle_dials {s : St} {a c : Nat} {k : Conn} (d : Dial s a c) (hk : s.conn? c = some k)
    (hst : k.state = .disconnected) (hrec : s.recent a = false) (f : Bool) :
    s.connectSingle a false f =
      ({ s with lastAttempt := setKey a s.now s.lastAttempt }).connConnect c f := by
  unfold St.connectSingle
  have h1 : s.regLive (NodeId.tcp a) = false := by simp [St.regLive, St.regConn, d.reg, hk, hst]
  simp [h1, d.should, d.reg, hrec]

/-- The tick, seen from node `a`, when its object is not DISCONNECTED: the object and `a`'s attempt time are left
alone. -/
theorem tick_live (fl : List Nat) (l : List Nat) : ∀ {s : St} {a c : Nat} {k : Conn}, Dial s a c →
    s.conn? c = some k → k.state ≠ .disconnected →
    let s' := l.foldl (fun s a' => s.connectSingle a' false (decide (a' ∈ fl))) s
    Dial s' a c ∧ s'.conn? c = some k ∧ lookup a s'.lastAttempt = lookup a s.lastAttempt ∧ SameCfg s s' := by
  induction l with
  | nil => intro s a c k d hk _; exact ⟨d, hk, rfl, SameCfg.refl s⟩
  | cons a' r ih =>
    intro s a c k d hk hst
    simp only [List.foldl_cons]
    by_cases e : a' = a
    · subst e
      rw [connectSingle_live d.reg hk hst]
      exact ih d hk hst
    · obtain ⟨e1, e2⟩ := connectSingle_other d e false (decide (a' ∈ fl))
      have hc := sameCfg_connectSingle s a' false (decide (a' ∈ fl))
      have d' := d.of_sameCfg (d.inv.connectSingle a' false _) hc
      obtain ⟨r1, r2, r3, r4⟩ := ih d' (by rw [e1]; exact hk) hst
      exact ⟨r1, r2, by rw [r3, e2], SameCfg.trans hc r4⟩

/-- The tick when `a`'s object is DISCONNECTED, the retry time has passed and `connect()` does not fail at once:
afterwards the object is CONNECTING (attempt made at `now`). -/
theorem tick_dials (fl : List Nat) (l : List Nat) : ∀ {s : St} {a c : Nat} {k : Conn}, Dial s a c →
    s.conn? c = some k → k.state = .disconnected → s.recent a = false → a ∉ fl → a ∈ l →
    let s' := l.foldl (fun s a' => s.connectSingle a' false (decide (a' ∈ fl))) s
    Dial s' a c ∧ s'.conn? c = some { k with state := .connecting, lastRead := s.now } ∧ SameCfg s s' := by
  induction l with
  | nil => intro s a c k _ _ _ _ _ hm; simp at hm
  | cons a' r ih =>
    intro s a c k d hk hst hrec hfl hm
    simp only [List.foldl_cons]
    by_cases e : a' = a
    · subst e
      have hf : decide (a' ∈ fl) = false := by simpa using hfl
      rw [hf, connectSingle_dials d hk hst hrec false]
      have hI := d.inv.connectSingle a' false false
      rw [connectSingle_dials d hk hst hrec false] at hI
      have hc : SameCfg s (({ s with lastAttempt := setKey a' s.now s.lastAttempt }).connConnect c false) :=
        SameCfg.trans (b := { s with lastAttempt := setKey a' s.now s.lastAttempt })
          ⟨rfl, rfl, rfl, rfl, rfl, rfl, rfl, rfl⟩ (sameCfg_connConnect _ c false)
      have d' := d.of_sameCfg hI hc
      have hk' : (({ s with lastAttempt := setKey a' s.now s.lastAttempt }).connConnect c false).conn? c =
          some { k with state := .connecting, lastRead := s.now } := by
        rw [conn?_connConnect]
        have : St.conn? { s with lastAttempt := setKey a' s.now s.lastAttempt } c = some k := hk
        simp [this]
      obtain ⟨r1, r2, _, r4⟩ := tick_live fl r d' hk' (by simp)
      exact ⟨r1, r2, SameCfg.trans hc r4⟩
    · have hm' : a ∈ r := by
        rcases List.mem_cons.mp hm with h | h
        · exact absurd h.symm e
        · exact h
      obtain ⟨e1, e2⟩ := connectSingle_other d e false (decide (a' ∈ fl))
      have hc := sameCfg_connectSingle s a' false (decide (a' ∈ fl))
      have d' := d.of_sameCfg (d.inv.connectSingle a' false _) hc
      have h4 : (s.connectSingle a' false (decide (a' ∈ fl))).now = s.now := hc.2.2.2.1
      have h5 : (s.connectSingle a' false (decide (a' ∈ fl))).retry = s.retry := hc.2.2.2.2.1
      have hrec' : (s.connectSingle a' false (decide (a' ∈ fl))).recent a = false := by
        simpa [St.recent, e2, h4, h5] using hrec
      obtain ⟨r1, r2, r4⟩ := ih d' (by rw [e1]; exact hk) hst hrec' hfl hm'
      exact ⟨r1, by rw [r2, h4], SameCfg.trans hc r4⟩

theorem tick_live' {s : St} {a c : Nat} {k : Conn} (d : Dial s a c) (hk : s.conn? c = some k)
    (hst : k.state ≠ .disconnected) (fl : List Nat) :
    Dial (s.tick fl) a c ∧ (s.tick fl).conn? c = some k ∧
      lookup a (s.tick fl).lastAttempt = lookup a s.lastAttempt ∧ SameCfg s (s.tick fl) :=
  tick_live fl s.nodes d hk hst

theorem tick_dials' {s : St} {a c : Nat} {k : Conn} (d : Dial s a c) (hk : s.conn? c = some k)
    (hst : k.state = .disconnected) (hrec : s.recent a = false) {fl : List Nat} (hfl : a ∉ fl) :
    Dial (s.tick fl) a c ∧ (s.tick fl).conn? c = some { k with state := .connecting, lastRead := s.now } ∧
      SameCfg s (s.tick fl) :=
  tick_dials fl s.nodes d hk hst hrec hfl d.mem

theorem sameCfg_onOutgoingConnected (s : St) (c : Nat) (sf f : Bool) : SameCfg s (s.onOutgoingConnected c sf f) := by
  unfold St.onOutgoingConnected
  simp only
  have h1 : SameCfg s (if sf = true then s.connDisconnect c none f else s) := by
    cases sf
    · exact SameCfg.refl s
    · exact sameCfg_connDisconnect s c none f
  generalize (if sf = true then s.connDisconnect c none f else s) = s1 at h1 ⊢
  cases s1.conn? c with
  | none => exact h1
  | some k =>
    simp only
    split
    · exact h1
    · cases connToNode c s1.reg with
      | none => exact SameCfg.trans h1 ⟨rfl, rfl, rfl, rfl, rfl, rfl, rfl, rfl⟩
      | some n => exact SameCfg.trans h1 ⟨rfl, rfl, rfl, rfl, rfl, rfl, rfl, rfl⟩

/-- `_onOutgoingConnected` when the address goes out: the object is untouched, the node is reported. -/
theorem onOutgoingConnected_ok {s : St} {a c : Nat} {k : Conn} (hnd : Inv s) (hreg : lookup (.tcp a) s.reg = some c)
    (hk : s.conn? c = some k) (hst : k.state = .connected) (f : Bool) :
    (s.onOutgoingConnected c false f).conn? c = some k ∧ NodeId.tcp a ∈ (s.onOutgoingConnected c false f).view := by
  have hn : connToNode c s.reg = some (NodeId.tcp a) := (hnd.c2n c _).mpr hreg
  unfold St.onOutgoingConnected
  simp only [Bool.false_eq_true, if_false, hk, hst, bne_self_eq_false, hn]
  exact ⟨hk, mem_insertSet.mpr (Or.inr rfl)⟩

/-- The fabric answers a pending attempt in time: the object becomes CONNECTED and the node is reported. -/
theorem pollOk_connects {s : St} {a c : Nat} {k : Conn} (d : Dial s a c) (hk : s.conn? c = some k)
    (hst : k.state = .connecting) (hdl : k.dialled = true) (hto : s.timedOut k = false) (f : Bool) :
    let s' := s.pollOk c false f
    Dial s' a c ∧ s'.conn? c = some { k with state := .connected, lastRead := s.now } ∧ NodeId.tcp a ∈ s'.view ∧
      SameCfg s s' := by
  have hI := d.inv.pollOk c false f
  have hlt := conn?_lt hk
  have h1 : Inv (s.setConn c { k with state := .connected, lastRead := s.now }) :=
    d.inv.setConn hk rfl (fun _ => Or.inl (by rw [hst]; simp)) (fun _ _ _ => rfl)
  have h0 : (s.setConn c { k with state := .connected, lastRead := s.now }).conn? c =
      some { k with state := .connected, lastRead := s.now } := by rw [conn?_setConn]; simp [hlt]
  have heq : s.pollOk c false f =
      (s.setConn c { k with state := .connected, lastRead := s.now }).onOutgoingConnected c false f := by
    unfold St.pollOk
    rw [hk]; simp only; rw [hst]; simp only; rw [hto]
    simp only [Bool.false_eq_true, if_false]
    rw [if_pos hdl]
  obtain ⟨r1, r2⟩ := onOutgoingConnected_ok (a := a) h1 d.reg h0 rfl f
  have hcfg : SameCfg s (s.pollOk c false f) := by
    rw [heq]; exact SameCfg.trans (sameCfg_setConn s c _) (sameCfg_onOutgoingConnected _ c false f)
  show Dial (s.pollOk c false f) a c ∧ (s.pollOk c false f).conn? c = _ ∧ _ ∈ (s.pollOk c false f).view ∧ _
  refine ⟨d.of_sameCfg hI hcfg, ?_, ?_, hcfg⟩
  · rw [heq]; exact r1
  · rw [heq]; exact r2

/-- A poll event on a CONNECTED object that has been read from within the timeout changes nothing. -/
theorem pollOk_idle {s : St} {c : Nat} {k : Conn} (hk : s.conn? c = some k) (hst : k.state = .connected)
    (hto : s.timedOut k = false) (sf f : Bool) : s.pollOk c sf f = s := by
  unfold St.pollOk
  simp [hk, hst, hto]

/-- `_onDisconnected` of the registered object of the dialled member `a` once the retry time has passed: reports
the disconnect and dials again at once. -/
theorem onDisconnected_redials {s : St} {a c : Nat} {k : Conn} (hnd : KeysNodup s.reg)
    (hinj : ∀ n', lookup n' s.reg = some c → n' = NodeId.tcp a)
    (hmem : a ∈ s.nodes) (hshould : s.shouldConnect a false = true) (hreg : lookup (.tcp a) s.reg = some c)
    (hk : s.conn? c = some k) (hst : k.state = .disconnected) (hrec : s.recent a = false) :
    (s.onDisconnected c none false).conn? c = some { k with state := .connecting, lastRead := s.now } := by
  have hn : connToNode c s.reg = some (NodeId.tcp a) := by
    cases hc : connToNode c s.reg with
    | none => exact absurd (mem_of_lookup hreg) (connToNode_none hc _)
    | some n' => rw [hinj n' (lookup_of_mem hnd (connToNode_mem hc))]
  unfold St.onDisconnected
  simp only [hn]
  have hm : St.isMember { s with unknown := eraseAll c s.unknown } (NodeId.tcp a) = true := by
    simp [St.isMember, hmem]
  rw [if_pos hm]
  have hd : decide ((none : Option NodeId) = some (NodeId.tcp a)) = false := by simp
  have key : ∀ S : St, S.shouldConnect a false = true → lookup (.tcp a) S.reg = some c → S.conn? c = some k →
      S.recent a = false → S.now = s.now →
      (S.connectSingle a (decide ((none : Option NodeId) = some (NodeId.tcp a))) false).conn? c =
        some { k with state := .connecting, lastRead := s.now } := by
    intro S h1 h2 h3 h4 h5
    rw [hd, connectSingle_dials' h1 h2 h3 hst h4 false, conn?_connConnect]
    have : St.conn? { S with lastAttempt := setKey a S.now S.lastAttempt } c = some k := h3
    rw [this]
    simp [h5]
  exact key _ hshould hreg hk hrec rfl

/-- A pending attempt that outlived the read timeout: the poll event disconnects and, the retry time having
passed, dials again in the same event. -/
theorem pollOk_stale_redials {s : St} {a c : Nat} {k : Conn} (d : Dial s a c) (hk : s.conn? c = some k)
    (hst : k.state = .connecting) (hto : s.timedOut k = true) (hrec : s.recent a = false) (sf : Bool) :
    let s' := s.pollOk c sf false
    Dial s' a c ∧ s'.conn? c = some { k with state := .connecting, lastRead := s.now, gen := k.gen + 1 } ∧
      SameCfg s s' := by
  have hI := d.inv.pollOk c sf false
  have hlt := conn?_lt hk
  have heq : s.pollOk c sf false =
      (s.setConn c { k with state := .disconnected, gen := k.gen + 1 }).onDisconnected c none false := by
    unfold St.pollOk
    rw [hk]; simp only; rw [hst]; simp only; rw [hto]
    simp only [if_true]
    unfold St.connDisconnect
    rw [hk]; simp only; rw [hst]
    simp only [reduceCtorEq, if_false]
  have hcfg : SameCfg s (s.pollOk c sf false) := by
    rw [heq]; exact SameCfg.trans (sameCfg_setConn s c _) (sameCfg_onDisconnected _ c none false)
  have h0 : (s.setConn c { k with state := .disconnected, gen := k.gen + 1 }).conn? c =
      some { k with state := .disconnected, gen := k.gen + 1 } := by rw [conn?_setConn]; simp [hlt]
  show Dial (s.pollOk c sf false) a c ∧ (s.pollOk c sf false).conn? c = _ ∧ _
  refine ⟨d.of_sameCfg hI hcfg, ?_, hcfg⟩
  rw [heq, onDisconnected_redials (s := s.setConn c _) (a := a) d.inv.nodup
    (fun n' hn' => d.inv.inj n' _ c hn' d.reg) d.mem d.should d.reg h0 rfl hrec]
  rfl

end PSO.Transport
