import PSO.Proofs.Batteries
/-!
The container specifications of `PSO.Py` say what they are meant to say:
`list.sort` sorts and permutes; the dict representation keeps distinct keys and behaves like a finite
map; the set representation stays canonical (strictly increasing) and behaves like a finite set.
-/
namespace PSO.Batteries
open PSO.Py

/-! ### list.sort -/
theorem insertSorted_perm (lt : Int → Int → Bool) (x : Int) (l : List Int) :
    (PyList.insertSorted lt x l).Perm (x :: l) := by
  induction l with
  | nil => exact List.Perm.refl _
  | cons y ys ih =>
    simp only [PyList.insertSorted]
    split
    · exact List.Perm.refl _
    · exact (List.Perm.cons y ih).trans (List.Perm.swap x y ys)

theorem insertionSort_perm (lt : Int → Int → Bool) (l : List Int) : (PyList.insertionSort lt l).Perm l := by
  induction l with
  | nil => exact List.Perm.refl _
  | cons x xs ih =>
    simp only [PyList.insertionSort]
    exact (insertSorted_perm lt x _).trans (List.Perm.cons x ih)

theorem insertSorted_sorted (lt : Int → Int → Bool) (r : Int → Int → Prop)
    (h1 : ∀ a b, lt a b = true → r a b) (h2 : ∀ a b, lt a b = false → r b a)
    (tr : ∀ a b c, r a b → r b c → r a c) (x : Int) (l : List Int) (hs : l.Pairwise r) :
    (PyList.insertSorted lt x l).Pairwise r := by
  induction l with
  | nil => simp [PyList.insertSorted]
  | cons y ys ih =>
    simp only [PyList.insertSorted]
    rw [List.pairwise_cons] at hs
    split
    · rename_i hxy
      rw [List.pairwise_cons]
      refine ⟨?_, List.pairwise_cons.mpr hs⟩
      intro z hz
      rcases List.mem_cons.mp hz with rfl | hz
      · exact h1 _ _ hxy
      · exact tr _ _ _ (h1 _ _ hxy) (hs.1 z hz)
    · rename_i hxy
      rw [List.pairwise_cons]
      refine ⟨?_, ih hs.2⟩
      intro z hz
      have := (insertSorted_perm lt x ys).mem_iff.mp hz
      rcases List.mem_cons.mp this with rfl | hz
      · exact h2 _ _ (by simpa using hxy)
      · exact hs.1 z hz

theorem insertionSort_sorted (lt : Int → Int → Bool) (r : Int → Int → Prop)
    (h1 : ∀ a b, lt a b = true → r a b) (h2 : ∀ a b, lt a b = false → r b a)
    (tr : ∀ a b c, r a b → r b c → r a c) (l : List Int) : (PyList.insertionSort lt l).Pairwise r := by
  induction l with
  | nil => exact List.Pairwise.nil
  | cons x xs ih => exact insertSorted_sorted lt r h1 h2 tr x _ ih

theorem sort_spec (l : List Int) (reverse : Bool) :
    (PyList.sort l reverse).Perm l ∧
    (reverse = false → (PyList.sort l reverse).Pairwise (· ≤ ·)) ∧
    (reverse = true → (PyList.sort l reverse).Pairwise (· ≥ ·)) := by
  cases reverse with
  | false =>
    simp only [PyList.sort, Bool.false_eq_true, if_false]
    refine ⟨insertionSort_perm _ l, fun _ => ?_, fun h => by cases h⟩
    exact insertionSort_sorted _ (fun a b => a ≤ b)
      (fun a b h => by have := of_decide_eq_true h; omega)
      (fun a b h => by have := of_decide_eq_false h; omega)
      (fun a b c h1 h2 => Int.le_trans h1 h2) l
  | true =>
    simp only [PyList.sort, if_true]
    refine ⟨insertionSort_perm _ l, (fun h => by cases h), fun _ => ?_⟩
    exact insertionSort_sorted _ (fun a b => a ≥ b)
      (fun a b h => by have := of_decide_eq_true h; omega)
      (fun a b h => by have := of_decide_eq_false h; omega)
      (fun a b c h1 h2 => Int.le_trans h2 h1) l

/-! ### dict -/
theorem lookup_setitem (d : PyDict.D) (k v k' : Int) :
    PyDict.lookup (PyDict.setitem d k v) k' = if k' = k then some v else PyDict.lookup d k' := by
  induction d with
  | nil =>
    simp only [PyDict.setitem, PyDict.lookup]
    by_cases e : k' = k
    · subst e; simp
    · have : ¬ k = k' := fun h => e h.symm
      simp [e, this]
  | cons p r ih =>
    obtain ⟨a, b⟩ := p
    simp only [PyDict.setitem]
    by_cases e : a = k
    · subst e
      simp only [if_true, PyDict.lookup]
      by_cases e2 : k' = a
      · subst e2; simp
      · have : ¬ a = k' := fun h => e2 h.symm
        simp [e2, this]
    · simp only [e, if_false, PyDict.lookup, ih]
      by_cases e2 : a = k'
      · subst e2; simp [e]
      · simp [e2]

theorem keys_setitem (d : PyDict.D) (k v : Int) :
    PyDict.keys (PyDict.setitem d k v) = if k ∈ PyDict.keys d then PyDict.keys d else PyDict.keys d ++ [k] := by
  induction d with
  | nil => simp [PyDict.setitem, PyDict.keys]
  | cons p r ih =>
    obtain ⟨a, b⟩ := p
    simp only [PyDict.setitem]
    by_cases e : a = k
    · subst e; simp [PyDict.keys]
    · have e' : ¬ k = a := fun h => e h.symm
      simp only [e, if_false]
      simp only [PyDict.keys, List.map_cons, List.mem_cons, e', false_or] at ih ⊢
      rw [ih]; split <;> rename_i hh <;> simp [hh]

theorem nodup_setitem (d : PyDict.D) (k v : Int) (h : (PyDict.keys d).Nodup) :
    (PyDict.keys (PyDict.setitem d k v)).Nodup := by
  rw [keys_setitem]
  split
  · exact h
  · rename_i hk
    rw [List.nodup_append]
    refine ⟨h, by simp, ?_⟩
    intro a ha b hb
    simp at hb; subst hb
    intro e; subst e; exact hk ha

theorem keys_delete_sublist (d : PyDict.D) (k : Int) : (PyDict.keys (PyDict.delete d k)).Sublist (PyDict.keys d) := by
  induction d with
  | nil => simp [PyDict.delete, PyDict.keys]
  | cons p r ih =>
    obtain ⟨a, b⟩ := p
    simp only [PyDict.delete]
    split
    · simp [PyDict.keys]
    · simp only [PyDict.keys, List.map_cons] at ih ⊢
      exact List.Sublist.cons_cons _ ih

theorem lookup_none_of_not_mem (d : PyDict.D) (k : Int) (h : k ∉ PyDict.keys d) : PyDict.lookup d k = none := by
  induction d with
  | nil => rfl
  | cons p r ih =>
    obtain ⟨a, b⟩ := p
    simp only [PyDict.keys, List.map_cons, List.mem_cons, not_or] at h
    have : ¬ a = k := fun e => h.1 e.symm
    simp only [PyDict.lookup, this, if_false]
    exact ih h.2

/-- with distinct keys `delete` removes the key and nothing else -/
theorem lookup_delete (d : PyDict.D) (k k' : Int) (h : (PyDict.keys d).Nodup) :
    PyDict.lookup (PyDict.delete d k) k' = if k' = k then none else PyDict.lookup d k' := by
  induction d with
  | nil => simp [PyDict.delete, PyDict.lookup]
  | cons p r ih =>
    obtain ⟨a, b⟩ := p
    simp only [PyDict.keys, List.map_cons, List.nodup_cons] at h
    simp only [PyDict.delete]
    by_cases e : a = k
    · subst e
      simp only [if_true, PyDict.lookup]
      by_cases e2 : k' = a
      · subst e2; simp only [if_true]; exact lookup_none_of_not_mem r k' h.1
      · have : ¬ a = k' := fun hh => e2 hh.symm
        simp [e2, this]
    · simp only [e, if_false, PyDict.lookup, ih h.2]
      by_cases e2 : a = k'
      · subst e2; simp [e]
      · simp [e2]

theorem nodup_update (d : PyDict.D) (o : List (Int × Int)) (h : (PyDict.keys d).Nodup) :
    (PyDict.keys (PyDict.update d o)).Nodup := by
  induction o generalizing d with
  | nil => exact h
  | cons p r ih => exact ih _ (nodup_setitem d p.1 p.2 h)

def DictWF (s : ReplDict.State) : Prop := (PyDict.keys s.data).Nodup

theorem dict_step_wf (s : ReplDict.State) (o : DictOp) (h : DictWF s) : DictWF (ReplDict.step s o).1 := by
  unfold DictWF at *
  cases o with
  | reset v =>
    cases v <;> simp only [ReplDict.step] <;> try exact h
    exact nodup_update [] _ (by simp [PyDict.keys])
  | setitem k v => exact nodup_setitem _ _ _ h
  | set k v => exact nodup_setitem _ _ _ h
  | setdefault k d =>
    simp only [ReplDict.step, PyDict.setdefault]
    cases PyDict.lookup s.data k with
    | none => exact nodup_setitem _ _ _ h
    | some v => exact h
  | update o => exact nodup_update _ _ h
  | pop k d =>
    simp only [ReplDict.step, PyDict.popDefault]
    cases PyDict.lookup s.data k with
    | none => exact h
    | some v => exact List.Nodup.sublist (keys_delete_sublist _ _) h
  | clear => simp [ReplDict.step, PyDict.keys]
  | getitem k => simp only [ReplDict.step]; cases PyDict.getitem s.data k <;> exact h
  | _ => exact h

/-! ### set -/
def SetWF (s : PySet.S) : Prop := s.Pairwise (· < ·)

theorem mem_add (x y : Int) (s : PySet.S) : y ∈ PySet.add x s ↔ y = x ∨ y ∈ s := by
  induction s with
  | nil => simp [PySet.add]
  | cons a t ih =>
    simp only [PySet.add]
    split
    · simp
    · split
      · rename_i h; subst h; simp
      · simp only [List.mem_cons, ih]
        constructor
        · rintro (h | h | h) <;> simp [h]
        · rintro (h | h | h) <;> simp [h]

theorem add_wf (x : Int) (s : PySet.S) (h : SetWF s) : SetWF (PySet.add x s) := by
  unfold SetWF at *
  induction s with
  | nil => simp [PySet.add]
  | cons a t ih =>
    rw [List.pairwise_cons] at h
    simp only [PySet.add]
    split
    · rename_i hxa
      rw [List.pairwise_cons]
      refine ⟨?_, List.pairwise_cons.mpr h⟩
      intro z hz
      rcases List.mem_cons.mp hz with rfl | hz
      · exact hxa
      · exact Int.lt_trans hxa (h.1 z hz)
    · split
      · exact List.pairwise_cons.mpr h
      · rename_i h1 h2
        rw [List.pairwise_cons]
        refine ⟨?_, ih h.2⟩
        intro z hz
        rcases (mem_add x z t).mp hz with rfl | hz
        · omega
        · exact h.1 z hz

theorem update_wf (s : PySet.S) (o : List Int) (h : SetWF s) : SetWF (PySet.update s o) := by
  induction o generalizing s with
  | nil => exact h
  | cons x r ih => exact ih _ (add_wf x s h)

theorem mem_update (s : PySet.S) (o : List Int) (y : Int) : y ∈ PySet.update s o ↔ y ∈ s ∨ y ∈ o := by
  induction o generalizing s with
  | nil => simp [PySet.update]
  | cons x r ih =>
    have := ih (PySet.add x s)
    simp only [PySet.update, List.foldl_cons] at this ⊢
    rw [this, mem_add]
    simp only [List.mem_cons]
    constructor
    · rintro ((h | h) | h) <;> simp [h]
    · rintro (h | h | h) <;> simp [h]

theorem wf_nodup (s : PySet.S) (h : SetWF s) : s.Nodup := by
  rw [List.nodup_iff_pairwise_ne]
  exact List.Pairwise.imp (fun hab => by omega) h

theorem erase_wf (s : PySet.S) (x : Int) (h : SetWF s) : SetWF (s.erase x) :=
  List.Pairwise.sublist List.erase_sublist h

theorem mem_erase_wf (s : PySet.S) (x y : Int) (h : SetWF s) : y ∈ s.erase x ↔ y ≠ x ∧ y ∈ s :=
  (wf_nodup s h).mem_erase_iff

/-- canonicity: two well-formed representations with the same members are equal -/
theorem set_ext (s t : PySet.S) (hs : SetWF s) (ht : SetWF t) (h : ∀ x, x ∈ s ↔ x ∈ t) : s = t := by
  have hp : s.Perm t := (List.perm_ext_iff_of_nodup (wf_nodup s hs) (wf_nodup t ht)).mpr h
  have hs' : s.Pairwise (· ≤ ·) := List.Pairwise.imp (fun h => Int.le_of_lt h) hs
  have ht' : t.Pairwise (· ≤ ·) := List.Pairwise.imp (fun h => Int.le_of_lt h) ht
  exact List.Perm.eq_of_pairwise (fun a b _ _ h1 h2 => by omega) hs' ht' hp

theorem set_step_wf (choose : PySet.S → Int) (s : ReplSet.State) (o : SetOp) (h : SetWF s.data) :
    SetWF (ReplSet.stepWith choose s o).1.data := by
  cases o with
  | reset v =>
    cases v <;> simp only [ReplSet.stepWith] <;> try exact h
    exact update_wf [] _ List.Pairwise.nil
  | add x => exact add_wf x _ h
  | remove x =>
    by_cases hx : x ∈ s.data
    · have : ReplSet.stepWith choose s (.remove x) = (⟨s.data.erase x⟩, .ok .none) := by
        simp [ReplSet.stepWith, PySet.remove, hx]
      rw [this]; exact erase_wf _ _ h
    · have : ReplSet.stepWith choose s (.remove x) = (s, .err .KeyError) := by
        simp [ReplSet.stepWith, PySet.remove, hx]
      rw [this]; exact h
  | discard x => exact erase_wf _ _ h
  | pop =>
    obtain ⟨d⟩ := s
    cases d with
    | nil => exact h
    | cons a t => simp only [ReplSet.stepWith, PySet.pop]; exact erase_wf _ _ h
  | clear => exact List.Pairwise.nil
  | update o => exact update_wf _ _ h
  | _ => exact h

/-- `pop` returns a member and removes exactly it -/
theorem set_pop_spec (choose : PySet.S → Int) (s : PySet.S) (h : SetWF s) (hne : s ≠ []) :
    ∃ x r, PySet.pop choose s = .ok (x, r) ∧ x ∈ s ∧ ∀ y, y ∈ r ↔ y ≠ x ∧ y ∈ s := by
  cases s with
  | nil => exact absurd rfl hne
  | cons a t =>
    simp only [PySet.pop]
    refine ⟨_, _, rfl, ?_, fun y => mem_erase_wf _ _ y h⟩
    split
    · assumption
    · exact List.mem_cons_self

/-! ### the implemented choice of `ReplSet.pop` (D20 repaired) -/
theorem foldl_pick_mem (p : Int → Int → Prop) [DecidableRel p] (x : Int) (xs : List Int) :
    xs.foldl (fun m y => if p y m then y else m) x ∈ x :: xs := by
  induction xs generalizing x with
  | nil => simp
  | cons y ys ih =>
    simp only [List.foldl_cons]
    by_cases hp : p y x
    · simp only [hp, if_true]
      have := ih y
      exact List.mem_cons_of_mem _ this
    · simp only [hp, if_false]
      have := ih x
      rcases List.mem_cons.mp this with h | h
      · rw [h]; exact List.mem_cons_self
      · exact List.mem_cons_of_mem _ (List.mem_cons_of_mem _ h)

theorem minRepr_mem (s : PySet.S) (h : s ≠ []) : PySet.minRepr s ∈ s := by
  cases s with
  | nil => exact absurd rfl h
  | cons x xs => exact foldl_pick_mem (fun y m => PySet.reprKey y < PySet.reprKey m) x xs

theorem foldl_pick_min (x : Int) (xs : List Int) :
    ∀ y ∈ x :: xs, ¬ PySet.reprKey y <
      PySet.reprKey (xs.foldl (fun m y => if PySet.reprKey y < PySet.reprKey m then y else m) x) := by
  induction xs generalizing x with
  | nil =>
    intro y hy
    simp at hy; subst hy
    exact List.lt_irrefl _
  | cons z zs ih =>
    intro y hy
    simp only [List.foldl_cons]
    by_cases hz : PySet.reprKey z < PySet.reprKey x
    · simp only [hz, if_true]
      rcases List.mem_cons.mp hy with rfl | hy
      · intro hlt
        exact ih z z List.mem_cons_self (List.lt_trans hz hlt)
      · exact ih z y hy
    · simp only [hz, if_false]
      rcases List.mem_cons.mp hy with rfl | hy
      · exact ih y y List.mem_cons_self
      · rcases List.mem_cons.mp hy with rfl | hy
        · have h1 := ih x x List.mem_cons_self
          rw [List.not_lt] at *
          exact List.le_trans h1 hz
        · exact ih x y (List.mem_cons_of_mem _ hy)

/-- `minRepr s` is a member with the smallest `repr` key -/
theorem minRepr_min (s : PySet.S) : ∀ y ∈ s, ¬ PySet.reprKey y < PySet.reprKey (PySet.minRepr s) := by
  cases s with
  | nil => intro y hy; cases hy
  | cons x xs => exact foldl_pick_min x xs

/-- the repaired method body is the generic battery with `choose := minRepr` -/
theorem set_step_eq (s : ReplSet.State) (o : SetOp) :
    ReplSet.step s o = ReplSet.stepWith PySet.minRepr s o := by
  cases o with
  | pop =>
    obtain ⟨d⟩ := s
    cases d with
    | nil => rfl
    | cons a t =>
      have hm := minRepr_mem (a :: t) (by simp)
      simp only [ReplSet.step, ReplSet.stepWith, PySet.pop, PySet.remove, List.isEmpty_cons, hm, if_true]
      rfl
  | _ => rfl

theorem set_step_funext : ReplSet.step = ReplSet.stepWith PySet.minRepr := by
  funext s o; exact set_step_eq s o

end PSO.Batteries
