import PSO.Proofs.TransportProgress

/-! Reachable registry states; the composed bounded-progress argument. -/
namespace PSO.Transport

theorem addNode_nodes (s : St) (a : Nat) : (s.addNode a).nodes = insertSet a s.nodes := by
  unfold St.addNode
  simp only
  split <;> rfl

theorem inv_foldl_addNode (others : List Nat) : ∀ {s : St}, Inv s → others.Nodup → (∀ a, a ∈ others → a ∉ s.nodes) →
    Inv (others.foldl St.addNode s) := by
  induction others with
  | nil => intro s h _ _; exact h
  | cons a r ih =>
    intro s h hn hd
    simp only [List.foldl_cons]
    have hn' := List.nodup_cons.mp hn
    refine ih (h.addNode (hd a (by simp))) hn'.2 ?_
    intro b hb hmem
    rw [addNode_nodes] at hmem
    rcases mem_insertSet.mp hmem with h1 | h1
    · exact hd b (List.mem_cons_of_mem _ hb) h1
    · subst h1; exact hn'.1 hb

theorem inv_init (selfAddr : Option Nat) (retry timeout now : Nat) {others : List Nat} (hn : others.Nodup) :
    Inv (init selfAddr retry timeout now others) := by
  unfold init
  exact inv_foldl_addNode others (inv_empty selfAddr retry timeout now) hn (by intro a _ h; simp at h)

/-- States a transport can be in: constructed for distinct partner addresses, then any events, `addNode` only for
non-members. -/
def Reach (s : St) : Prop :=
  ∃ (selfAddr : Option Nat) (retry timeout now : Nat) (others : List Nat) (evs : List Event),
    others.Nodup ∧ AdmissibleRun (init selfAddr retry timeout now others) evs ∧
    s = run (init selfAddr retry timeout now others) evs

theorem Reach.inv {s : St} (h : Reach s) : Inv s := by
  obtain ⟨sa, r, t, n, o, evs, hn, ha, rfl⟩ := h
  exact (inv_init sa r t n hn).run ha

theorem Reach.step {s : St} (h : Reach s) {e : Event} (ha : Admissible s e) : Reach (step s e) := by
  obtain ⟨sa, r, t, n, o, evs, hn, hadm, rfl⟩ := h
  refine ⟨sa, r, t, n, o, evs ++ [e], hn, ?_, ?_⟩
  · clear hn
    generalize init sa r t n o = s0 at hadm ha
    induction evs generalizing s0 with
    | nil => exact ⟨ha, trivial⟩
    | cons e1 es ih => exact ⟨hadm.1, ih _ hadm.2 ha⟩
  · simp [run, List.foldl_append]

theorem dropNode_not_member (s : St) (a : Nat) : a ∉ (s.dropNode (.tcp a)).nodes := by
  unfold St.dropNode
  simp only
  intro h
  exact (mem_eraseAll.mp h).2 rfl

/-- The canonical fault-free continuation seen from the dialling side: `d ≥ connectionRetryTime` passes, one tick
(whose `connect()` to `a` does not fail at once), the fabric answers (two poll events on the object). -/
theorem reconnect_script {s : St} {a c : Nat} {k : Conn} (dl : Dial s a c) (hk : s.conn? c = some k)
    (hdl : k.dialled = true) (hnc : k.state ≠ .connected)
    (hla : ∀ t, lookup a s.lastAttempt = some t → t ≤ s.now)
    (d : Nat) (hd : s.retry ≤ d) (fl : List Nat) (hfl : a ∉ fl) :
    let s' := run s [.advance d, .tick fl, .pollOk c false false, .pollOk c false false]
    (∃ k', s'.conn? c = some k' ∧ k'.state = .connected) ∧ lookup (.tcp a) s'.reg = some c ∧
      NodeId.tcp a ∈ s'.view ∧ s'.now = s.now + d := by
  -- time passes
  have d1 : Dial { s with now := s.now + d } a c :=
    ⟨dl.inv.frame rfl rfl rfl rfl (fun _ h => h), dl.mem, dl.should, dl.reg⟩
  have hk1 : St.conn? { s with now := s.now + d } c = some k := hk
  have hrec1 : St.recent { s with now := s.now + d } a = false := by
    unfold St.recent
    cases hl : lookup a s.lastAttempt with
    | none => simp [hl]
    | some t =>
      have := hla t hl
      simp only [hl, decide_eq_false_iff_not, Nat.not_lt]
      omega
  have hrun : run s [.advance d, .tick fl, .pollOk c false false, .pollOk c false false] =
      ((St.tick { s with now := s.now + d } fl).pollOk c false false).pollOk c false false := rfl
  -- the last two events, from a state whose object is CONNECTING with an attempt made "now"
  have finish : ∀ (s2 : St) (k2 : Conn), Dial s2 a c → s2.conn? c = some k2 → k2.state = .connecting →
      k2.dialled = true → k2.lastRead = s2.now →
      let s3 := s2.pollOk c false false
      (∃ k', s3.conn? c = some k' ∧ k'.state = .connected ∧ s3.timedOut k' = false) ∧
        lookup (.tcp a) s3.reg = some c ∧ NodeId.tcp a ∈ s3.view ∧ s3.now = s2.now := by
    intro s2 k2 d2 hk2 hs2 hd2 hl2
    have hto : s2.timedOut k2 = false := by simp [St.timedOut, hl2]
    obtain ⟨r1, r2, r3, r4⟩ := pollOk_connects d2 hk2 hs2 hd2 hto false
    refine ⟨⟨_, r2, rfl, ?_⟩, r1.reg, r3, r4.2.2.2.1⟩
    simp [St.timedOut, r4.2.2.2.1]
  intro s'
  have hs' : s' = ((St.tick { s with now := s.now + d } fl).pollOk c false false).pollOk c false false := hrun
  rw [hs']
  by_cases hst : k.state = .disconnected
  · -- DISCONNECTED: the tick dials
    obtain ⟨d2, hk2, c2⟩ := tick_dials' d1 hk1 hst hrec1 hfl
    have hnow2 : (St.tick { s with now := s.now + d } fl).now = s.now + d := c2.2.2.2.1
    obtain ⟨⟨k3, hk3, hs3, hto3⟩, hr3, hv3, hn3⟩ :=
      finish (St.tick { s with now := s.now + d } fl) _ d2 hk2 rfl hdl (by simp [hnow2])
    rw [pollOk_idle hk3 hs3 hto3]
    exact ⟨⟨k3, hk3, hs3⟩, hr3, hv3, by rw [hn3, hnow2]⟩
  · -- CONNECTING (an attempt is pending): the tick leaves it alone
    have hst' : k.state = .connecting := by
      cases hh : k.state with
      | disconnected => exact absurd hh hst
      | connecting => rfl
      | connected => exact absurd hh hnc
    obtain ⟨d2, hk2, hla2, c2⟩ := tick_live' d1 hk1 hst fl
    have hnow2 : (St.tick { s with now := s.now + d } fl).now = s.now + d := c2.2.2.2.1
    have hret2 : (St.tick { s with now := s.now + d } fl).retry = s.retry := c2.2.2.2.2.1
    by_cases hto : (St.tick { s with now := s.now + d } fl).timedOut k = true
    · -- the pending attempt is older than the read timeout: disconnect + redial, then the answer
      have hrec2 : (St.tick { s with now := s.now + d } fl).recent a = false := by
        have : (St.tick { s with now := s.now + d } fl).recent a = St.recent { s with now := s.now + d } a := by
          unfold St.recent
          rw [hla2, hnow2, hret2]
        rw [this]; exact hrec1
      obtain ⟨d3, hk3, c3⟩ := pollOk_stale_redials d2 hk2 hst' hto hrec2 false
      have hnow3 : ((St.tick { s with now := s.now + d } fl).pollOk c false false).now = s.now + d := by
        rw [c3.2.2.2.1, hnow2]
      obtain ⟨⟨k4, hk4, hs4, _⟩, hr4, hv4, hn4⟩ :=
        finish ((St.tick { s with now := s.now + d } fl).pollOk c false false) _ d3 hk3 rfl hdl
          (by simp [hnow3, hnow2])
      exact ⟨⟨k4, hk4, hs4⟩, hr4, hv4, by rw [hn4, hnow3]⟩
    · -- answered in time
      have hto' : (St.tick { s with now := s.now + d } fl).timedOut k = false := by simpa using hto
      obtain ⟨r1, r2, r3, r4⟩ := pollOk_connects d2 hk2 hst' hdl hto' false
      have hnow3 : ((St.tick { s with now := s.now + d } fl).pollOk c false false).now = s.now + d := by
        rw [r4.2.2.2.1, hnow2]
      have hto3 : ((St.tick { s with now := s.now + d } fl).pollOk c false false).timedOut
          { k with state := .connected, lastRead := (St.tick { s with now := s.now + d } fl).now } = false := by
        simp [St.timedOut, hnow3, hnow2]
      rw [pollOk_idle r2 rfl hto3]
      exact ⟨⟨_, r2, rfl⟩, r1.reg, r3, hnow3⟩

end PSO.Transport
