import PSO.Proofs.RaftProgressRank
import PSO.Proofs.RaftDemo

/-! # Concrete states for the non-vacuity examples of `Props/C05.lean` -/
namespace PSO.Raft

/-- The demo run ends with leader 0 (term 1, three entries, all committed and applied) and voter 2
left behind at the initial state. -/
theorem demo_obs_runs : (run 3 init demoActs).map (fun s => (s.nodes 3).term) = some 0 := by
  decide +kernel

theorem demo_uptodate_runs : (run 3 init demoActs).map (fun s =>
    (upToDate (lastTerm (s.nodes 1).log) ((s.nodes 1).log.length - 1) (s.nodes 1).log,
     upToDate (lastTerm (s.nodes 1).log) ((s.nodes 1).log.length - 1) (s.nodes 2).log)) = some (true, true) := by
  decide +kernel

theorem demo_lagging : ∃ s, Reachable 3 s ∧ (s.nodes 0).role = .leader ∧ (s.nodes 0).term = 1 ∧
    (s.nodes 2).term = 0 ∧ (s.nodes 0).log.length = 3 ∧ (s.nodes 2).log.length = 1 ∧
    (s.nodes 0).commit = 2 ∧ (s.nodes 0).applied = 2 ∧ (s.nodes 3).term = 0 := by
  obtain ⟨s, hrun, hr, hs⟩ := demo_reachable
  have ho := demo_obs_runs
  rw [hrun] at ho
  simp at ho
  refine ⟨s, hr, ?_⟩
  simp [demoSummary] at hs
  obtain ⟨⟨h1, h2, h3, h4, h5⟩, _, ⟨g1, _, _, _, g5⟩⟩ := hs
  exact ⟨h2, h1, g1, h5, g5, h3, h4, ho⟩

/-- (is leader, term, commit, log length, term of the last entry, matchIdx of node 1) of node 0. -/
def ackSummary (s : State) : Bool × Nat × Nat × Nat × Nat × Nat :=
  (decide ((s.nodes 0).role = .leader), (s.nodes 0).term, (s.nodes 0).commit, (s.nodes 0).log.length,
    termAt (s.nodes 0).log 2, (s.nodes 0).matchIdx 1)

theorem demo_acked_runs : (run 3 init (demoActs.take 7)).map ackSummary = some (true, 1, 0, 3, 1, 2) := by
  decide +kernel

/-- After the first seven demo actions leader 0 holds the acknowledgement of voter 1 for position 2 and
has not committed yet. -/
theorem demo_acked : ∃ s, Reachable 3 s ∧ (s.nodes 0).role = .leader ∧ (s.nodes 0).term = 1 ∧
    (s.nodes 0).commit = 0 ∧ (s.nodes 0).log.length = 3 ∧ termAt (s.nodes 0).log 2 = 1 ∧
    (s.nodes 0).matchIdx 1 = 2 := by
  have h := demo_acked_runs
  cases hr : run 3 init (demoActs.take 7) with
  | none => rw [hr] at h; cases h
  | some s =>
    rw [hr] at h
    simp [ackSummary] at h
    exact ⟨s, reachable_iff_run.mpr ⟨_, hr⟩, h⟩

end PSO.Raft
