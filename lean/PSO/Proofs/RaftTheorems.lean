import PSO.Proofs.RaftHistory

/-! # Consequences of the invariant used by the property files C01–C04 -/
namespace PSO.Raft

theorem take_prefix_of_agree {a b : List Entry} {i j : Nat} (h : a.take (i + 1) <+: b.take (j + 1))
    (hi : i < a.length) {p : Nat} (hp : p ≤ i) : a[p]? = b[p]? := by
  obtain ⟨tl, htl⟩ := h
  have h1 : (a.take (i + 1))[p]? = a[p]? := by rw [List.getElem?_take]; simp; omega
  have hlen : p < (a.take (i + 1)).length := by simp; omega
  have h2 : (b.take (j + 1))[p]? = (a.take (i + 1))[p]? := by
    rw [← htl, List.getElem?_append_left hlen]
  have h3 : (b.take (j + 1))[p]? = b[p]? ∨ (b.take (j + 1))[p]? = none := by
    rw [List.getElem?_take]; by_cases hpj : p < j + 1 <;> simp [hpj]
  rcases h3 with h3 | h3
  · rw [← h1, ← h2, h3]
  · rw [h3] at h2
    have : (a.take (i + 1))[p]? ≠ none := by
      rw [List.getElem?_eq_getElem hlen]; simp
    exact absurd h2.symm this

/-- Committed prefixes of two nodes, possibly at different times, never disagree. -/
theorem committed_agree {N : Nat} {s1 s2 : State} {as : List Action} (h1 : Reachable N s1)
    (hr : run N s1 as = some s2) (a b p : Nat)
    (hpa : p ≤ (s1.nodes a).commit) (hpb : p ≤ (s2.nodes b).commit) :
    (s1.nodes a).log[p]? = (s2.nodes b).log[p]? := by
  have i1 := inv_reachable h1
  have i2 := inv_run i1 hr
  have hm := run_ghost_mono i1 hr
  have c1 := cmt_later hm (i1.s.C1 a)
  have c2 := i2.s.C1 b
  rcases cmt_comparable i2.l i2.s c1 c2 with hc | hc
  · exact take_prefix_of_agree hc (i1.s.cm_lt a) hpa
  · exact (take_prefix_of_agree hc (i2.s.cm_lt b) hpb).symm

/-- At every reachable state the committed prefix of any node is held by a majority. -/
theorem commit_majority {N : Nat} {s : State} (h : Reachable N s) (hN : 0 < N) (n : Nat) :
    ∃ Q, IsQuorum N Q ∧ ∀ q ∈ Q, Agree (s.nodes q).log (s.nodes n).log (s.nodes n).commit := by
  have i := inv_reachable h
  rcases i.s.C1 n with hc | ⟨t, i0, _, hch, hp, hlen⟩
  · -- commit = 0: everybody holds the initial entry
    have hc0 : (s.nodes n).commit = 0 := by
      have := congrArg List.length hc
      have hl := i.s.cm_lt n
      simp at this; omega
    refine ⟨List.range N, ⟨List.nodup_range, fun q hq => List.mem_range.mp hq, by simp; omega⟩, ?_⟩
    intro q _
    rw [hc0]; unfold Agree
    have hq := i.l.log_sent q
    have hn := i.l.log_sent n
    have e1 : (s.nodes q).log.take 1 = [sentinel] := by
      cases hq' : (s.nodes q).log with
      | nil => rw [hq'] at hq; simp at hq
      | cons x xs => rw [hq'] at hq; simp at hq; subst hq; simp
    have e2 : (s.nodes n).log.take 1 = [sentinel] := by
      cases hn' : (s.nodes n).log with
      | nil => rw [hn'] at hn; simp at hn
      | cons x xs => rw [hn'] at hn; simp at hn; subst hn; simp
    simp [e1, e2]
  · obtain ⟨ho, Q, hQ, hq⟩ := hch
    refine ⟨Q, hQ, fun q hqQ => ?_⟩
    have hcl := i.s.cm_lt n
    have hci : (s.nodes n).commit ≤ i0 := by simp at hlen; omega
    rcases i.s.Z q t i0 ho (hq q hqQ) with hz | hz
    · -- q agrees with the term log up to i0, n's committed prefix is a prefix of it
      have hn : Agree (s.nodes n).log (s.g.termLog t) (s.nodes n).commit := by
        obtain ⟨tl, htl⟩ := hp
        unfold Agree
        rw [← htl, List.take_append_of_le_length (by simp; omega), List.take_take]; simp
      exact (hz.mono hci).trans hn.symm
    · exact absurd hz (fun hb => chosen_not_blocked ⟨ho, Q, hQ, hq⟩ hb)

/-- A leader's log contains every committed prefix witnessed at or below its term. -/
theorem leader_holds_committed {N : Nat} {s : State} (h : Reachable N s) {n : Nat}
    (hr : (s.nodes n).role = .leader) {b : Nat} {P : List Entry} (hc : Cmt N s b P)
    (hb : b ≤ (s.nodes n).term) : P <+: (s.nodes n).log := by
  have i := inv_reachable h
  have hll := i.l.ldr_log n hr
  have hne : s.g.termLog (s.nodes n).term ≠ [] := by
    rw [← hll]; intro hnil; have := i.l.log_sent n; rw [hnil] at this; simp at this
  rw [hll]; exact cmt_prefix_tl i.l i.s hc hb hne

theorem leader_unique_ever {N : Nat} {s1 s2 : State} {as : List Action} (h1 : Reachable N s1)
    (hr : run N s1 as = some s2) {a b : Nat} (ha : (s1.nodes a).role = .leader)
    (hb : (s2.nodes b).role = .leader) (ht : (s1.nodes a).term = (s2.nodes b).term) : a = b := by
  have i1 := inv_reachable h1
  have i2 := inv_run i1 hr
  have hm := run_ghost_mono i1 hr
  have l1 := hm.ldr _ _ (i1.e.ldr_of a ha)
  have l2 := i2.e.ldr_of b hb
  rw [ht, l2] at l1; injection l1 with l1; exact l1.symm

/-- How the applied index of a node can change in one step. -/
theorem applied_step {N : Nat} {s s' : State} {a : Action} (hs : step N s a = some s') (n : Nat) :
    (s'.nodes n).applied = (s.nodes n).applied ∨
    (a = .apply n ∧ (s'.nodes n).applied = (s.nodes n).applied + 1) ∨
    (∃ m, a = .recvSnapshot n m ∧ (s.nodes n).applied < (s'.nodes n).applied) ∨
    (∃ c a', a = .restart n c a') := by
  cases a with
  | restart k c a' =>
    simp only [step] at hs
    split at hs
    · injection hs with hs; subst hs
      by_cases hk : n = k
      · subst hk; right; right; right; exact ⟨_, _, rfl⟩
      · left; simp [setNode, hk]
    · cases hs
  | apply k =>
    simp only [step] at hs
    split at hs
    · injection hs with hs; subst hs
      by_cases hk : n = k
      · subst hk; right; left; simp
      · left; simp [setNode, hk]
    · cases hs
  | recvSnapshot k m =>
    simp only [step] at hs
    split at hs
    · split at hs
      · split at hs
        · injection hs with hs; subst hs; left; rfl
        · injection hs with hs; subst hs
          by_cases hk : n = k
          · subst hk
            simp only [setNode_nodes_self]
            split
            · left; simp
            · rename_i hkeep
              simp only [adoptTerm_applied, Bool.or_eq_true, decide_eq_true_eq, not_or] at hkeep
              right; right; left; exact ⟨_, rfl, by simp; omega⟩
          · left; simp [setNode, hk]
      · cases hs
    · cases hs
  | timeout k dsts =>
    left
    simp only [step] at hs
    split at hs
    · split at hs
      · injection hs with hs; subst hs
        simp only [becomeLeader, setNode]; by_cases hk : n = k <;> simp [hk]
      · injection hs with hs; subst hs
        simp only [setNode]; by_cases hk : n = k <;> simp [hk]
    · cases hs
  | recvReqVote k m =>
    left
    simp only [step] at hs
    split at hs
    · split at hs
      · split at hs <;>
        · injection hs with hs; subst hs
          simp only [setNode]; by_cases hk : n = k
          · subst hk; simp
          · simp [hk]
      · cases hs
    · cases hs
  | recvVote k m =>
    left
    simp only [step] at hs
    split at hs
    · split at hs
      · split at hs
        · split at hs
          · injection hs with hs; subst hs
            simp only [becomeLeader, setNode]; by_cases hk : n = k <;> simp [hk]
          · injection hs with hs; subst hs
            simp only [setNode]; by_cases hk : n = k <;> simp [hk]
        · injection hs with hs; subst hs; rfl
      · cases hs
    · cases hs
  | clientAppend k cmd =>
    left
    simp only [step] at hs
    split at hs
    · injection hs with hs; subst hs
      simp only [setNode]; by_cases hk : n = k <;> simp [hk]
    · cases hs
  | sendAppend k dst prev kk c =>
    left
    simp only [step] at hs
    split at hs
    · injection hs with hs; subst hs; rfl
    · cases hs
  | recvAppend k m =>
    left
    simp only [step] at hs
    split at hs
    · split at hs
      · split at hs
        · injection hs with hs; subst hs; rfl
        · split at hs <;>
          · injection hs with hs; subst hs
            simp only [setNode]; by_cases hk : n = k
            · subst hk; simp
            · simp [hk]
      · cases hs
    · cases hs
  | recvAck k m =>
    left
    simp only [step] at hs
    split at hs
    · split at hs
      · split at hs
        · injection hs with hs; subst hs
          simp only [setNode]; by_cases hk : n = k <;> simp [hk]
        · injection hs with hs; subst hs; rfl
      · cases hs
    · cases hs
  | advanceCommit k i =>
    left
    simp only [step] at hs
    split at hs
    · injection hs with hs; subst hs
      simp only [setNode]; by_cases hk : n = k <;> simp [hk]
    · cases hs
  | stepDown k =>
    left
    simp only [step] at hs
    split at hs
    · injection hs with hs; subst hs
      simp only [setNode]; by_cases hk : n = k <;> simp [hk]
    · cases hs
  | observeTerm k t =>
    left
    simp only [step] at hs
    split at hs
    · injection hs with hs; subst hs
      simp only [setNode]; by_cases hk : n = k
      · subst hk; simp
      · simp [hk]
    · cases hs
  | sendSnapshot k dst kk c =>
    left
    simp only [step] at hs
    split at hs
    · injection hs with hs; subst hs; rfl
    · cases hs
  | lose m =>
    left
    simp only [step] at hs
    split at hs
    · injection hs with hs; subst hs; rfl
    · cases hs

end PSO.Raft
