import PSO.Model.Batteries
/-!
Helper lemmas for C15: generic simulation over operation lists, and the per-battery step lemmas
(battery method body = the mimicked builtin given the same call).
-/
namespace PSO.Batteries
open PSO.Py

theorem runOps_nil {σ ο : Type} (f : σ → ο → σ × Res) (s : σ) : runOps f s [] = (s, []) := rfl

theorem runOps_cons {σ ο : Type} (f : σ → ο → σ × Res) (s : σ) (o : ο) (os : List ο) :
    runOps f s (o :: os) = ((runOps f (f s o).1 os).1, (f s o).2 :: (runOps f (f s o).1 os).2) := rfl

theorem runOps_append {σ ο : Type} (f : σ → ο → σ × Res) (s : σ) (a b : List ο) :
    runOps f s (a ++ b) =
      ((runOps f (runOps f s a).1 b).1, (runOps f s a).2 ++ (runOps f (runOps f s a).1 b).2) := by
  induction a generalizing s with
  | nil => simp [runOps_nil]
  | cons o os ih => simp [runOps_cons, ih]

theorem runOps_length {σ ο : Type} (f : σ → ο → σ × Res) (s : σ) (ops : List ο) :
    (runOps f s ops).2.length = ops.length := by
  induction ops generalizing s with
  | nil => rfl
  | cons o os ih => simp [runOps_cons, ih]

/-- forward simulation: a relation preserved by every step with equal results is preserved by
every operation sequence with equal result lists. -/
theorem runOps_sim {σ τ ο : Type} (f : σ → ο → σ × Res) (g : τ → ο → τ × Res) (R : σ → τ → Prop)
    (h : ∀ s t o, R s t → R (f s o).1 (g t o).1 ∧ (f s o).2 = (g t o).2) :
    ∀ (ops : List ο) (s : σ) (t : τ), R s t →
      R (runOps f s ops).1 (runOps g t ops).1 ∧ (runOps f s ops).2 = (runOps g t ops).2 := by
  intro ops
  induction ops with
  | nil => intro s t hr; exact ⟨hr, rfl⟩
  | cons o os ih =>
    intro s t hr
    have h1 := h s t o hr
    have h2 := ih _ _ h1.1
    simp only [runOps_cons]
    exact ⟨h2.1, by rw [h1.2, h2.2]⟩

/-- invariants: preserved by every step ⇒ by every sequence -/
theorem runOps_inv {σ ο : Type} (f : σ → ο → σ × Res) (P : σ → Prop)
    (h : ∀ s o, P s → P (f s o).1) : ∀ (ops : List ο) (s : σ), P s → P (runOps f s ops).1 := by
  intro ops
  induction ops with
  | nil => intro s hp; exact hp
  | cons o os ih => intro s hp; simp only [runOps_cons]; exact ih _ (h s o hp)

/-! ### counter -/
theorem counter_step (s : ReplCounter.State) (o : CounterOp) :
    ((ReplCounter.step s o).1.counter = (RefCounter.step s.counter o).1) ∧
    (ReplCounter.step s o).2 = (RefCounter.step s.counter o).2 := by
  cases o <;> simp [ReplCounter.step, RefCounter.step, PyInt.set, PyInt.iadd, PyInt.isub]

/-! ### list -/

/-- the D12 repair is right: `l.pop(-1)` is `l.pop()` — same element, same remainder, same error. -/
theorem PyList.pop_neg_one (l : List Int) : PyList.pop l (-1) = PyList.pop0 l := by
  rcases List.eq_nil_or_concat l with rfl | ⟨l', x, rfl⟩
  · simp [PyList.pop, PyList.pop0]
  · rw [List.concat_eq_append]
    have hlen : (l' ++ [x]).length = l'.length + 1 := by simp
    have hn : PyList.normIdx (l'.length + 1) (-1) = some l'.length := by
      unfold PyList.normIdx
      simp only []
      have : ((-1 : Int) < 0) := by omega
      simp only [this, if_true]
      have h2 : (0 : Int) ≤ -1 + ((l'.length + 1 : Nat) : Int) ∧ -1 + ((l'.length + 1 : Nat) : Int) < ((l'.length + 1 : Nat) : Int) := by
        omega
      rw [if_pos h2]
      congr 1
      omega
    unfold PyList.pop PyList.pop0
    rw [hlen, hn]
    simp [List.getD_eq_getElem?_getD, List.eraseIdx_append_of_length_le]

theorem list_step (s : ReplList.State) (o : ListOp) :
    ((ReplList.step s o).1.data = (RefList.step s.data o).1) ∧
    (ReplList.step s o).2 = (RefList.step s.data o).2 := by
  cases o with
  | reset v => cases v <;> simp [ReplList.step, RefList.step]
  | pop p =>
    cases p with
    | none =>
      simp only [ReplList.step, RefList.step, Option.getD_none, PyList.pop_neg_one]
      cases PyList.pop0 s.data <;> simp
    | some i =>
      simp only [ReplList.step, RefList.step, Option.getD_some]
      cases PyList.pop s.data i <;> simp
  | sort r => cases r <;> simp [ReplList.step, RefList.step]
  | set p v => simp only [ReplList.step, RefList.step]; cases PyList.setitem s.data p v <;> simp
  | setitem p v => simp only [ReplList.step, RefList.step]; cases PyList.setitem s.data p v <;> simp
  | remove v => simp only [ReplList.step, RefList.step]; cases PyList.remove s.data v <;> simp
  | index v => simp only [ReplList.step, RefList.step]; cases PyList.index s.data v <;> simp
  | get p => simp only [ReplList.step, RefList.step]; cases PyList.getitem s.data p <;> simp
  | getitem p => simp only [ReplList.step, RefList.step]; cases PyList.getitem s.data p <;> simp
  | _ => simp [ReplList.step, RefList.step]

/-! ### dict -/
theorem dict_step (s : ReplDict.State) (o : DictOp) :
    ((ReplDict.step s o).1.data = (RefDict.step s.data o).1) ∧
    (ReplDict.step s o).2 = (RefDict.step s.data o).2 := by
  cases o with
  | reset v => cases v <;> simp [ReplDict.step, RefDict.step]
  | getitem k => simp only [ReplDict.step, RefDict.step]; cases PyDict.getitem s.data k <;> simp
  | _ => simp [ReplDict.step, RefDict.step]

/-! ### set -/
theorem set_step (choose : PySet.S → Int) (s : ReplSet.State) (o : SetOp) :
    ((ReplSet.stepWith choose s o).1.data = (RefSet.step choose s.data o).1) ∧
    (ReplSet.stepWith choose s o).2 = (RefSet.step choose s.data o).2 := by
  cases o with
  | reset v => cases v <;> simp [ReplSet.stepWith, RefSet.step]
  | remove x => simp only [ReplSet.stepWith, RefSet.step]; cases PySet.remove s.data x <;> simp
  | pop => simp only [ReplSet.stepWith, RefSet.step]; cases PySet.pop choose s.data <;> simp
  | _ => simp [ReplSet.stepWith, RefSet.step]

/-! ### queue -/
/-- relation battery state ↔ `queue.Queue` -/
def QRel (s : ReplQueue.State) (q : PyQueue.Q) : Prop := s.maxsize = q.maxsize ∧ s.data = q.data

theorem queue_step (s : ReplQueue.State) (q : PyQueue.Q) (o : QueueOp) (h : QRel s q) :
    QRel (ReplQueue.step s o).1 (RefQueue.step q o).1 ∧
    (ReplQueue.step s o).2 = (RefQueue.step q o).2 := by
  obtain ⟨m, d⟩ := s
  obtain ⟨m', d'⟩ := q
  obtain ⟨h1, h2⟩ := h
  simp only at h1 h2
  subst h1 h2
  cases o with
  | qsize => simp [ReplQueue.step, RefQueue.step, QRel]
  | len => simp [ReplQueue.step, RefQueue.step, QRel]
  | empty => cases d <;> simp [ReplQueue.step, RefQueue.step, QRel]
  | full =>
    simp only [ReplQueue.step, RefQueue.step, QRel, PyQueue.full, and_self, true_and]
    simp [Bool.decide_and]
  | put x =>
    simp only [ReplQueue.step, RefQueue.step, PyQueue.putNowait, PyQueue.full, PyDeque.append]
    by_cases hf : 0 < m ∧ m ≤ d.length
    · have : m ≠ 0 ∧ d.length ≥ m := ⟨by omega, hf.2⟩
      simp [hf, this, QRel]
    · have : ¬ (m ≠ 0 ∧ d.length ≥ m) := by omega
      simp [hf, this, QRel]
  | get dflt =>
    cases d with
    | nil => simp [ReplQueue.step, RefQueue.step, PyDeque.popleft, PyQueue.getNowait, QRel]
    | cons x r => simp [ReplQueue.step, RefQueue.step, PyDeque.popleft, PyQueue.getNowait, QRel]

end PSO.Batteries
