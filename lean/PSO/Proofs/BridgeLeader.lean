import PSO.Proofs.BridgeFollower
import PSO.Proofs.NodeSendBasic

/-!
# Bridge, part 7: the queue dispatch of a leader (`leaderDispatch`) ⊑ `clientAppend`

`_checkCommandsToApply`, branch `self.__raftState == LEADER`: an accepted command is appended as
`(command, last + 1, currentTerm)` = the protocol model's `clientAppend n cmdId`; a refused membership request and
the non-leader branches (`followerDispatch`) leave the abstraction unchanged.  In unbatched mode the handler also
calls `__sendAppendEntries()` (`sendAll`): that part is the send loop (`sendRun_*_refines`), it only moves
`nextIndex`.
-/
namespace PSO.Bridge
open PSO
open PSO.NodeSend

theorem sendAllLoop_matchIndex (B : Nat) (snapOf : Nat → List (Option Bool)) (ds : List Nat) :
    ∀ {s s' : Node} {budget b' : Option Nat} {o : List Out},
      sendAllLoop B snapOf ds s budget = .ok (s', o, b') → s'.matchIndex = s.matchIndex := by
  induction ds with
  | nil =>
    intro s s' budget b' o h
    simp [sendAllLoop] at h
    rw [← h.1]
  | cons d ds ih =>
    intro s s' budget b' o h
    unfold sendAllLoop at h
    split at h
    · exact ih h
    · split at h
      · simp at h
      · split at h
        · simp at h
        · simp only [] at h
          split at h
          · simp at h
          · rename_i s2 o2 b2 hrec
            simp at h
            obtain ⟨h1, _, _⟩ := h
            subst h1
            have h2 := ih hrec
            exact h2

theorem sendAll_matchIndex {cfg : Conf} {snapOf : Nat → List (Option Bool)} {s s' : Node} {budget : Option Nat}
    {o : List Out} (h : sendAll cfg snapOf s budget = .ok (s', o)) : s'.matchIndex = s.matchIndex := by
  unfold sendAll at h
  split at h
  · simp at h
  · rename_i s2 o2 b2 hrec
    simp at h
    obtain ⟨h1, _⟩ := h
    subst h1
    exact sendAllLoop_matchIndex _ _ _ hrec

/-- the gate lets everything through when there is no dynamic membership or the command is not a membership request -/
theorem gateOf_open (cfg : Conf) (s : Node) (cmd : NodeSend.Cmd)
    (hgate : cfg.dynMember = false ∨ parseChange cmd.kind = none) : gateOf cfg s cmd = .ok (s, true, []) := by
  unfold gateOf
  rcases hgate with h | h
  · simp [h]
  · cases hd : cfg.dynMember <;> simp [h]

/-- the node part of `clientAppend` -/
def clientNode (ns : Raft.NodeSt) (cmd : Nat) : Raft.NodeSt := { ns with log := ns.log ++ [⟨ns.term, cmd⟩] }

theorem step_clientAppend (N : Nat) (S : Raft.State) (n cmd : Nat) (hn : n < N) (hl : (S.nodes n).role = .leader) :
    ∃ S', Raft.step N S (.clientAppend n cmd) = some S' ∧ S'.nodes n = clientNode (S.nodes n) cmd ∧
      (∀ k, k ≠ n → S'.nodes k = S.nodes k) ∧ S'.msgs = S.msgs := by
  have hg : n < N ∧ (S.nodes n).role = .leader := ⟨hn, hl⟩
  simp only [Raft.step, if_pos hg, clientNode]
  refine ⟨_, rfl, ?_, ?_, rfl⟩
  · simp [Raft.setNode]
  · intro k hk; simp [Raft.setNode, hk]

theorem leaderAccept_abs (ghost : List Raft.Entry) (x : Extra) (s : Node) (cmd : NodeSend.Cmd) (cb : Cb) (idx : Nat)
    (isReq : Bool) :
    absNodeS ghost x (leaderAccept s cmd cb idx s.term isReq).1 = clientNode (absNodeS ghost x s) cmd.id ∧
    absOutsS 0 (leaderAccept s cmd cb idx s.term isReq).2.1 = [] := by
  unfold leaderAccept
  cases cb with
  | none =>
    refine ⟨?_, rfl⟩
    apply nodeSt_ext <;> first | rfl | (show ghost ++ absLogS (s.log ++ [_]) = ghost ++ absLogS s.log ++ [_]; simp [absLogS, absEntryS]; rfl)
  | loc id =>
    refine ⟨?_, rfl⟩
    apply nodeSt_ext <;> first | rfl | (show ghost ++ absLogS (s.log ++ [_]) = ghost ++ absLogS s.log ++ [_]; simp [absLogS, absEntryS]; rfl)
  | remote node reqId =>
    refine ⟨?_, rfl⟩
    apply nodeSt_ext <;> first | rfl | (show ghost ++ absLogS (s.log ++ [_]) = ghost ++ absLogS s.log ++ [_]; simp [absLogS, absEntryS]; rfl)

/-- **An accepted queue item is `clientAppend`** (node level): whatever the callback kind and the batching mode, if
`leaderDispatch` returns with a branch other than `denied`, the abstraction of the result is the abstraction of the
input with `⟨term, cmd.id⟩` appended to the log. -/
theorem leaderDispatch_accept_abs (cfg : Conf) (ghost : List Raft.Entry) (x : Extra) (s s' : Node) (cmd : NodeSend.Cmd)
    (cb : Cb) (o : List Out) (br : Branch) (hgate : cfg.dynMember = false ∨ parseChange cmd.kind = none)
    (h : leaderDispatch cfg s cmd cb = .ok (s', o, br)) :
    absNodeS ghost x s' = clientNode (absNodeS ghost x s) cmd.id ∧ br ≠ .denied := by
  unfold leaderDispatch at h
  split at h
  · cases h
  · next last _ =>
    rw [gateOf_open cfg s cmd hgate] at h
    simp only [List.nil_append] at h
    have ha := (leaderAccept_abs ghost x s cmd cb (last + 1) (isRequest cfg cmd)).1
    have hbr : (leaderAccept s cmd cb (last + 1) s.term (isRequest cfg cmd)).2.2 ≠ .denied := by
      unfold leaderAccept; cases cb <;> simp
    split at h
    · cases h
      exact ⟨ha, hbr⟩
    · split at h
      · cases h
      · rename_i s4 o4 hsend
        cases h
        obtain ⟨hcore, _⟩ := sendAll_frame hsend
        have hmi := sendAll_matchIndex hsend
        simp only [SameCore] at hcore
        refine ⟨?_, hbr⟩
        rw [← ha]
        apply nodeSt_ext
        · exact hcore.2.2.2.2.2.2.2.1
        · rfl
        · show absRoleS _ = absRoleS _; rw [hcore.2.2.2.2.2.2.1]
        · rfl
        · show ghost ++ absLogS _ = ghost ++ absLogS _; rw [hcore.1]
        · show _ - 1 = _ - 1; rw [hcore.2.2.2.2.2.2.2.2.2.2.2.2.2.2.2.1]
        · show _ - 1 = _ - 1; rw [hcore.2.2.2.1]
        · show absMatchS _ = absMatchS _; rw [hmi]

/-! ## refused and forwarded items leave the abstraction alone -/

theorem doChange_false {s s1 : Node} {k : Kind} {r : Bool} {o : List Out}
    (h : doChange s k r = .ok (s1, false, o)) : s1 = s := by
  unfold doChange at h
  split at h
  · cases h; rfl
  · simp only at h
    split at h
    · cases h; rfl
    · split at h
      · split at h
        · cases h
        · cases h
      · cases h

theorem changeCluster_false_abs (ghost : List Raft.Entry) (x : Extra) {s s1 : Node} {k : Kind} {o : List Out}
    (h : changeCluster s k = .ok (s1, false, o)) : absNodeS ghost x s1 = absNodeS ghost x s := by
  unfold changeCluster at h
  split at h
  · cases h
  · split at h
    · cases h; rfl
    · simp only at h
      split at h
      · cases h; rfl
      · rw [doChange_false h]; rfl

/-- **A refused queue item changes nothing the protocol model sees** (`REQUEST_DENIED`: only `changeIdx` may be
cleared). -/
theorem leaderDispatch_denied_abs (cfg : Conf) (ghost : List Raft.Entry) (x : Extra) (s s' : Node) (cmd : NodeSend.Cmd)
    (cb : Cb) (o : List Out) (h : leaderDispatch cfg s cmd cb = .ok (s', o, .denied)) :
    absNodeS ghost x s' = absNodeS ghost x s := by
  unfold leaderDispatch at h
  split at h
  · cases h
  · next last _ =>
    split at h
    · cases h
    · next s1 o1 hg =>
      have hbr : (leaderAccept s1 cmd cb (last + 1) s.term (isRequest cfg cmd)).2.2 ≠ .denied := by
        unfold leaderAccept; cases cb <;> simp
      simp only at h
      split at h
      · injection h with h
        exact absurd (congrArg (fun p => p.2.2) h) hbr
      · split at h
        · cases h
        · injection h with h
          exact absurd (congrArg (fun p => p.2.2) h) hbr
    · next s1 o1 hg =>
      cases h
      unfold gateOf at hg
      split at hg
      · cases hg
      · exact changeCluster_false_abs ghost x hg

/-- **A non-leader's queue item** (forwarded, `NOT_LEADER`, `MISSING_LEADER`) changes only `localCounter` /
`waitReply`. -/
theorem followerDispatch_abs (ghost : List Raft.Entry) (x : Extra) (s : Node) (cmd : NodeSend.Cmd) (cb : Cb) :
    absNodeS ghost x (followerDispatch s cmd cb).1 = absNodeS ghost x s := by
  unfold followerDispatch
  split
  · split <;> rfl
  · rfl

/-! ## cluster level -/

/-- **`leaderDispatch_refines`.**  A queue item accepted by the leader `n` ⊑ `clientAppend n cmd.id`. -/
theorem leaderDispatch_refines (cfg : Conf) (ghost : List Raft.Entry) (x : Extra) (s s' : Node) (cmd : NodeSend.Cmd)
    (cb : Cb) (o : List Out) (br : Branch) (hgate : cfg.dynMember = false ∨ parseChange cmd.kind = none)
    (hl : s.role = .leader) (N n : Nat) (S : Raft.State) (hn : n < N) (habs : S.nodes n = absNodeS ghost x s)
    (h : leaderDispatch cfg s cmd cb = .ok (s', o, br)) :
    br ≠ .denied ∧
    ∃ S', Raft.step N S (.clientAppend n cmd.id) = some S' ∧ S'.nodes n = absNodeS ghost x s' ∧
      (∀ k, k ≠ n → S'.nodes k = S.nodes k) ∧ S'.msgs = S.msgs := by
  obtain ⟨ha, hbr⟩ := leaderDispatch_accept_abs cfg ghost x s s' cmd cb o br hgate h
  have hrole : (S.nodes n).role = .leader := by
    rw [habs]; show absRoleS s.role = .leader; rw [hl]; rfl
  obtain ⟨S', hstep, h1, h2, h3⟩ := step_clientAppend N S n cmd.id hn hrole
  refine ⟨hbr, S', hstep, ?_, h2, h3⟩
  rw [h1, habs, ha]

/-- **`dispatch_idle_abs`.**  Every other outcome of `dispatchOne` (not leader; leader but `denied`) is no model
action: the abstraction is unchanged. -/
theorem dispatch_idle_abs (cfg : Conf) (ghost : List Raft.Entry) (x : Extra) (s s' : Node) (cmd : NodeSend.Cmd)
    (cb : Cb) (o : List Out) (br : Branch) (h : dispatchOne cfg s cmd cb = .ok (s', o, br))
    (hidle : s.role ≠ .leader ∨ br = .denied) : absNodeS ghost x s' = absNodeS ghost x s := by
  unfold dispatchOne at h
  split at h
  · next hl =>
    rcases hidle with h1 | h1
    · exact absurd hl h1
    · subst h1
      exact leaderDispatch_denied_abs cfg ghost x s s' cmd cb o h
  · have e : s' = (followerDispatch s cmd cb).1 := by
      injection h with h'
      rw [h']
    rw [e]
    exact followerDispatch_abs ghost x s cmd cb

end PSO.Bridge
