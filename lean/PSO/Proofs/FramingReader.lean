import PSO.Proofs.FramingBytes

/-! Reader lemmas: unfolding of `parseLoop`, what it leaves untouched, stability under appended bytes
(the core of fragmentation independence), behaviour on a stream of well-formed frames. -/
namespace PSO.Framing

variable {Msg : Type}

/-! ### unfolding -/

theorem parseLoop_wait (cfg : Cfg Msg) (c : Conn Msg) (h : parseOne cfg.dec c.rbuf = .wait) :
    parseLoop cfg c = c := by
  rw [parseLoop]; split <;> simp_all

theorem parseLoop_bad (cfg : Cfg Msg) (c : Conn Msg) (h : parseOne cfg.dec c.rbuf = .bad) :
    parseLoop cfg c = disconnect c := by
  rw [parseLoop]; split <;> simp_all

theorem parseLoop_msg (cfg : Cfg Msg) (c : Conn Msg) (m : Msg) (rest : Bytes)
    (h : parseOne cfg.dec c.rbuf = .msg m rest) :
    parseLoop cfg c =
      if cfg.cbDisc m then disconnect { c with rbuf := rest, delivered := c.delivered ++ [m] }
      else parseLoop cfg { c with rbuf := rest, delivered := c.delivered ++ [m] } := by
  rw [parseLoop]
  split
  · simp_all
  · simp_all
  · rename_i m' rest' h'
    rw [h] at h'
    cases h'
    rfl


/-- induction principle following the control flow of `parseLoop` -/
theorem parseLoop_induct (cfg : Cfg Msg) (P : Conn Msg → Conn Msg → Prop)
    (hwait : ∀ c, parseOne cfg.dec c.rbuf = .wait → P c c)
    (hbad : ∀ c, parseOne cfg.dec c.rbuf = .bad → P c (disconnect c))
    (hcb : ∀ c m rest, parseOne cfg.dec c.rbuf = .msg m rest → cfg.cbDisc m = true →
      P c (disconnect { c with rbuf := rest, delivered := c.delivered ++ [m] }))
    (hrec : ∀ c m rest, parseOne cfg.dec c.rbuf = .msg m rest → cfg.cbDisc m = false →
      P { c with rbuf := rest, delivered := c.delivered ++ [m] }
        (parseLoop cfg { c with rbuf := rest, delivered := c.delivered ++ [m] }) →
      P c (parseLoop cfg { c with rbuf := rest, delivered := c.delivered ++ [m] })) :
    ∀ c, P c (parseLoop cfg c) := by
  intro c
  induction hn : c.rbuf.length using Nat.strongRecOn generalizing c with
  | _ n ih =>
    cases hp : parseOne cfg.dec c.rbuf with
    | wait => rw [parseLoop_wait cfg c hp]; exact hwait c hp
    | bad => rw [parseLoop_bad cfg c hp]; exact hbad c hp
    | msg m rest =>
      rw [parseLoop_msg cfg c m rest hp]
      cases hcc : cfg.cbDisc m with
      | true => simp only [if_true]; exact hcb c m rest hp hcc
      | false =>
        simp only [Bool.false_eq_true, if_false]
        apply hrec c m rest hp hcc
        have hl := parseOne_msg_length hp
        exact ih rest.length (by omega) _ rfl

theorem parseOne_msg_dec {dec : Bytes → Option Msg} {b : Bytes} {m : Msg} {rest : Bytes}
    (h : parseOne dec b = .msg m rest) : ∃ p, dec p = some m := by
  unfold parseOne at h
  split at h
  · cases h
  · split at h
    · cases h
    · split at h
      · cases h
      · split at h
        · cases h
        · rename_i m' hm
          cases h
          exact ⟨_, hm⟩

@[simp] theorem disconnect_rbuf_irrel (c : Conn Msg) (y : Bytes) :
    disconnect { c with rbuf := y } = disconnect c := rfl

/-- more bytes arrived -/
def Conn.feed (c : Conn Msg) (x : Bytes) : Conn Msg := { c with rbuf := c.rbuf ++ x }

/-- forget the clock field (the only thing in which a fragmented run differs from a one-piece run) -/
def Conn.atTime (c : Conn Msg) (t : Nat) : Conn Msg := { c with lastRead := t }

@[simp] theorem Conn.feed_nil (c : Conn Msg) : c.feed [] = c := by simp [Conn.feed]
theorem Conn.feed_feed (c : Conn Msg) (x y : Bytes) : (c.feed x).feed y = c.feed (x ++ y) := by
  simp [Conn.feed, List.append_assoc]
@[simp] theorem Conn.feed_state (c : Conn Msg) (x : Bytes) : (c.feed x).state = c.state := rfl
@[simp] theorem Conn.atTime_state (c : Conn Msg) (t : Nat) : (c.atTime t).state = c.state := rfl
@[simp] theorem Conn.atTime_lastRead (c : Conn Msg) (t : Nat) : (c.atTime t).lastRead = t := rfl
@[simp] theorem Conn.atTime_atTime (c : Conn Msg) (s t : Nat) : (c.atTime s).atTime t = c.atTime t := rfl
theorem Conn.atTime_feed (c : Conn Msg) (t : Nat) (x : Bytes) : (c.atTime t).feed x = (c.feed x).atTime t := rfl
@[simp] theorem Conn.feed_rbuf (c : Conn Msg) (x : Bytes) : (c.feed x).rbuf = c.rbuf ++ x := rfl

/-- **Appending bytes commutes with parsing**: parsing `buffer ++ x` is the same as parsing `buffer`
first and, when that left the connection up, appending `x` to what is left and parsing again. -/
theorem parseLoop_append (cfg : Cfg Msg) (x : Bytes) (c : Conn Msg)
    (hc : c.state = .connected) :
    parseLoop cfg (c.feed x) =
      if (parseLoop cfg c).state = .connected then parseLoop cfg ((parseLoop cfg c).feed x)
      else parseLoop cfg c := by
  revert hc
  refine parseLoop_induct cfg
    (fun c c' => c.state = .connected → parseLoop cfg (c.feed x) =
      if c'.state = .connected then parseLoop cfg (c'.feed x) else c')
    ?_ ?_ ?_ ?_ c
  · intro c _ hc
    simp [hc]
  · intro c hp hc
    have : (disconnect c).state ≠ .connected := by simp [disconnect]
    simp only [this, if_false]
    rw [parseLoop_bad cfg (c.feed x) (parseOne_bad_append cfg.dec c.rbuf x hp)]
    rfl
  · intro c m rest hp hcb hc
    have : (disconnect { c with rbuf := rest, delivered := c.delivered ++ [m] }).state ≠ .connected := by
      simp [disconnect]
    simp only [this, if_false]
    rw [parseLoop_msg cfg (c.feed x) m (rest ++ x) (parseOne_msg_append cfg.dec c.rbuf x m rest hp)]
    simp only [hcb, if_true]
    rfl
  · intro c m rest hp hcb ih hc
    rw [parseLoop_msg cfg (c.feed x) m (rest ++ x) (parseOne_msg_append cfg.dec c.rbuf x m rest hp)]
    simp only [hcb, Bool.false_eq_true, if_false]
    exact ih hc

/-- the clock field is only carried along by the parse loop -/
theorem parseLoop_lastRead (cfg : Cfg Msg) (t : Nat) (c : Conn Msg) :
    parseLoop cfg { c with lastRead := t } = { parseLoop cfg c with lastRead := t } := by
  refine parseLoop_induct cfg
    (fun c c' => parseLoop cfg { c with lastRead := t } = { c' with lastRead := t }) ?_ ?_ ?_ ?_ c
  · intro c hp
    exact parseLoop_wait cfg { c with lastRead := t } hp
  · intro c hp
    rw [parseLoop_bad cfg { c with lastRead := t } hp]; rfl
  · intro c m rest hp hcb
    rw [parseLoop_msg cfg { c with lastRead := t } m rest hp]; simp [hcb]; rfl
  · intro c m rest hp hcb ih
    rw [parseLoop_msg cfg { c with lastRead := t } m rest hp]
    simp only [hcb, Bool.false_eq_true, if_false]
    exact ih

/-! ### READ events -/

/-- A READ-only poller event at time `now`: `recv` returns the chunks `cs` one after the other, then EAGAIN. -/
def readEv (now : Nat) (cs : List Bytes) : Ev Msg :=
  .poll { descrOk := true, rd := true, wr := false, er := false, now := now, soErr := false,
          onConnDisc := false, sends := [], recvs := cs.map (fun b => RecvRes.data b false) }

/-- no read time-out fires: every event comes at most `timeout` after the previous read -/
def gapsOk (timeout : Nat) : Nat → List Nat → Prop
  | _, [] => True
  | t0, t :: ts => t ≤ t0 + timeout ∧ gapsOk timeout t ts

theorem recvLoop_data (cs : List Bytes) (c : Conn Msg) (hne : ∀ b ∈ cs, b ≠ []) :
    recvLoop c (cs.map (fun b => RecvRes.data b false)) = { c with rbuf := c.rbuf ++ cs.flatten } := by
  induction cs generalizing c with
  | nil => simp [recvLoop]
  | cons b cs ih =>
    have hb : b ≠ [] := hne b (by simp)
    simp only [List.map_cons, recvLoop, Bool.false_eq_true, if_false, hb]
    rw [ih _ (fun b' hb' => hne b' (by simp [hb']))]
    simp

theorem poll_readEv (cfg : Cfg Msg) (c : Conn Msg) (now : Nat) (cs : List Bytes)
    (hc : c.state = .connected) (ht : now ≤ c.lastRead + cfg.timeout) (hne : ∀ b ∈ cs, b ≠ []) :
    step cfg c (readEv now cs) = parseLoop cfg ((c.feed cs.flatten).atTime now) := by
  have ht' : ¬ now > c.lastRead + cfg.timeout := by omega
  have hr := recvLoop_data cs c hne
  simp [step, readEv, poll, timeoutCheck, ht', readPart, hr, hc, Conn.feed, Conn.atTime]

theorem step_readEv_disconnected (cfg : Cfg Msg) (c : Conn Msg) (now : Nat) (cs : List Bytes)
    (hc : c.state = .disconnected) : step cfg c (readEv now cs) = c := by
  simp [step, readEv, poll, hc]

theorem run_readEv_disconnected (cfg : Cfg Msg) (c : Conn Msg) (evs : List (Nat × List Bytes))
    (hc : c.state = .disconnected) : run cfg c (evs.map fun e => readEv e.1 e.2) = c := by
  induction evs with
  | nil => rfl
  | cons e evs ih =>
    simp only [run, List.map_cons, List.foldl_cons] at ih ⊢
    rw [step_readEv_disconnected cfg c _ _ hc]
    exact ih


theorem parseLoop_lastRead_eq (cfg : Cfg Msg) (c : Conn Msg) : (parseLoop cfg c).lastRead = c.lastRead := by
  have h := parseLoop_lastRead cfg c.lastRead c
  have h2 : ({ c with lastRead := c.lastRead } : Conn Msg) = c := rfl
  rw [h2] at h
  exact (congrArg Conn.lastRead h).trans rfl

theorem parseLoop_state (cfg : Cfg Msg) (c : Conn Msg) (hc : c.state = .connected) :
    (parseLoop cfg c).state = .connected ∨ (parseLoop cfg c).state = .disconnected := by
  revert hc
  refine parseLoop_induct cfg
    (fun c c' => c.state = .connected → c'.state = .connected ∨ c'.state = .disconnected) ?_ ?_ ?_ ?_ c
  · intro c _ hc; exact Or.inl hc
  · intro c _ _; exact Or.inr rfl
  · intro c m rest _ _ _; exact Or.inr rfl
  · intro c m rest _ _ ih hc; exact ih hc

theorem Conn.atTime_fields {a b : Conn Msg} {t : Nat} (h : a.atTime t = b.atTime t) :
    a.delivered = b.delivered ∧ a.state = b.state ∧ a.rbuf = b.rbuf ∧ a.wbuf = b.wbuf ∧
    a.wire = b.wire ∧ a.nDisc = b.nDisc ∧ a.pollMask = b.pollMask := by
  have h1 : (a.atTime t).delivered = (b.atTime t).delivered := congrArg Conn.delivered h
  have h2 : (a.atTime t).state = (b.atTime t).state := congrArg Conn.state h
  have h3 : (a.atTime t).rbuf = (b.atTime t).rbuf := congrArg Conn.rbuf h
  have h4 : (a.atTime t).wbuf = (b.atTime t).wbuf := congrArg Conn.wbuf h
  have h5 : (a.atTime t).wire = (b.atTime t).wire := congrArg Conn.wire h
  have h6 : (a.atTime t).nDisc = (b.atTime t).nDisc := congrArg Conn.nDisc h
  have h7 : (a.atTime t).pollMask = (b.atTime t).pollMask := congrArg Conn.pollMask h
  exact ⟨h1, h2, h3, h4, h5, h6, h7⟩

theorem parseLoop_atTime (cfg : Cfg Msg) (t : Nat) (c : Conn Msg) :
    parseLoop cfg (c.atTime t) = (parseLoop cfg c).atTime t := parseLoop_lastRead cfg t c

/-- **Fragmentation independence.**  Whatever bytes arrive, cut into whatever chunks, grouped into whatever
READ events: the result is the parse loop applied once to the old buffer followed by all the bytes
(up to the clock field).  Stated for a connection whose buffer has been looked at (`parseLoop cfg c`). -/
theorem run_reads_eq (cfg : Cfg Msg) (evs : List (Nat × List Bytes)) :
    ∀ (c : Conn Msg), c.state = .connected →
      (∀ e ∈ evs, ∀ b ∈ e.2, b ≠ []) → gapsOk cfg.timeout c.lastRead (evs.map (·.1)) → ∀ t,
      (run cfg (parseLoop cfg c) (evs.map fun e => readEv e.1 e.2)).atTime t =
      (parseLoop cfg (c.feed (evs.map (·.2)).flatten.flatten)).atTime t := by
  induction evs with
  | nil =>
    intro c _ _ _ t
    simp [run]
  | cons e evs ih =>
    intro c hc hne hg t
    simp only [List.map_cons, gapsOk] at hg
    have hB : ((e :: evs).map (·.2)).flatten.flatten = e.2.flatten ++ (evs.map (·.2)).flatten.flatten := by
      simp
    rw [hB, parseLoop_append cfg _ c hc]
    rcases parseLoop_state cfg c hc with hs | hs
    · have h1 : run cfg (parseLoop cfg c) ((e :: evs).map fun e => readEv e.1 e.2) =
          run cfg (parseLoop cfg (((parseLoop cfg c).feed e.2.flatten).atTime e.1))
            (evs.map fun e => readEv e.1 e.2) := by
        simp only [run, List.map_cons, List.foldl_cons]
        rw [poll_readEv cfg (parseLoop cfg c) e.1 e.2 hs (by rw [parseLoop_lastRead_eq]; exact hg.1)
              (fun b hb => hne e (by simp) b hb)]
      rw [h1, ih (((parseLoop cfg c).feed e.2.flatten).atTime e.1) (by simpa using hs)
            (fun e' he' => hne e' (by simp [he'])) (by simpa using hg.2) t]
      simp only [hs, if_true]
      rw [Conn.atTime_feed, Conn.feed_feed, parseLoop_atTime, Conn.atTime_atTime]
    · have hs' : (parseLoop cfg c).state ≠ .connected := by rw [hs]; decide
      simp only [hs', if_false]
      rw [run_readEv_disconnected cfg (parseLoop cfg c) (e :: evs) hs]


/-! ### streams of well-formed frames -/

/-- the byte stream of a message sequence: the frames one after the other -/
def frames (cfg : Cfg Msg) (ms : List Msg) : Bytes := (ms.map fun m => frame (cfg.enc m)).flatten

theorem frames_cons (cfg : Cfg Msg) (m : Msg) (ms : List Msg) :
    frames cfg (m :: ms) = frame (cfg.enc m) ++ frames cfg ms := by simp [frames]

theorem frames_append (cfg : Cfg Msg) (a b : List Msg) : frames cfg (a ++ b) = frames cfg a ++ frames cfg b := by
  simp [frames]

/-- what the reader needs of a message: it survives encode/decode, fits the 31-bit length field, and its
callback leaves the connection alone (any value, Python's `None` included, is a message: repair D75) -/
def MsgOk (cfg : Cfg Msg) (m : Msg) : Prop :=
  cfg.dec (cfg.enc m) = some m ∧ (cfg.enc m).length < 2147483648 ∧ cfg.cbDisc m = false

/-- a buffer that starts with the frames of `ms`: the loop delivers exactly `ms`, in order, and goes on
with what follows -/
theorem parseLoop_frames (cfg : Cfg Msg) (ms : List Msg) (hok : ∀ m ∈ ms, MsgOk cfg m) :
    ∀ (c : Conn Msg) (tail : Bytes), c.rbuf = frames cfg ms ++ tail →
      parseLoop cfg c = parseLoop cfg { c with rbuf := tail, delivered := c.delivered ++ ms } := by
  induction ms with
  | nil =>
    intro c tail hr
    simp only [frames, List.map_nil, List.flatten_nil, List.nil_append] at hr
    simp [← hr]
  | cons m ms ih =>
    intro c tail hr
    obtain ⟨hd, hs, hcb⟩ := hok m (by simp)
    rw [frames_cons, List.append_assoc] at hr
    have hp : parseOne cfg.dec c.rbuf = .msg m (frames cfg ms ++ tail) := by
      rw [hr]; exact parseOne_frame cfg.dec _ _ m hd hs
    rw [parseLoop_msg cfg c m _ hp]
    simp only [hcb, Bool.false_eq_true, if_false]
    rw [ih (fun m' hm' => hok m' (by simp [hm'])) _ tail rfl]
    simp [List.append_assoc]


theorem parseLoop_msg_nocb (cfg : Cfg Msg) (c : Conn Msg) (m : Msg) (rest : Bytes)
    (h : parseOne cfg.dec c.rbuf = .msg m rest) (hcb : cfg.cbDisc m = false) :
    parseLoop cfg c = parseLoop cfg { c with rbuf := rest, delivered := c.delivered ++ [m] } := by
  rw [parseLoop_msg cfg c m rest h]; simp [hcb]

/-! ### exact consumption of the payload (repair D83) -/

/-- The decoder accepts a payload only if it is consumed exactly: a decodable payload followed by anything is
rejected (`zlib.decompressobj`: `eof` and no `unused_data`; `pickle.load` from a stream that must be exhausted).
The unrepaired decoder (`zlib.decompress`, `pickle.loads`) ignores trailing bytes and is NOT strict. -/
def StrictDec (cfg : Cfg Msg) : Prop :=
  ∀ p x m, cfg.dec p = some m → x ≠ [] → cfg.dec (p ++ x) = none

theorem frame_overrun (p rest : Bytes) (k : Nat) (hk : k ≤ rest.length) :
    le32 (p.length + k) ++ p ++ rest = frame (p ++ rest.take k) ++ rest.drop k := by
  have hl : (rest.take k).length = k := by simp [List.length_take]; omega
  simp only [frame, List.length_append, hl, List.append_assoc, List.take_append_drop]

end PSO.Framing
