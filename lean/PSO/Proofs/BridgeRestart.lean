import PSO.Proofs.BridgeTheorems

/-!
# Bridge, part 10: kill + start of a journaled node ⊑ `restart`

Handler model: `PSO.NodeSend.restartNode s storedCommit dump` / `restartExtra x` (correspondence-tested, driver op
`restartnode`, family `op:restartnode` of `corr.nodesend_handlers`: a REAL `SyncObj` on a journal file (+ dump file)
is abandoned without shutdown, a second one is constructed on the same files and ticks once).

Protocol action: `Raft.step N S (.restart n c a)` — guard `a ≤ c ∧ c ≤ commit`; term, vote, log kept; role follower,
votes 0, match positions 0, `commit := c`, `applied := a`.

Abstraction `absNodeM` (commit ↦ `max(commit, lastApplied) − 1`): right after a restart with a dump file the real node
has `lastApplied = dump index > commitIndex = stored commit index` (the window `absNodeS` cannot express).
The action's parameters are `c = max storedCommit lastApplied' − 1`, `a = lastApplied' − 1`.

**Ghost.**  `__loadDumpFile(clearJournal=False)` drops the journal entries BEFORE the dump's two entries (D14/D60);
they move into the compacted prefix: `restartGhost`.  The ghost-complete log is unchanged (`restart_keeps_journal`).

**Hypotheses** (all about what the files hold — the "guard on the stored values"):
* `hheld`: the journal holds the dump's two entries (`DumpHeld`).  Otherwise the real code REPLACES the journal by the
  two dump entries (`restartNode_unheld`): the log changes, which `restart` cannot do — that start is a snapshot
  install from the node's own dump file, not bridged here (no counterpart in `Raft.step`; it needs the dump to be a
  committed prefix, which is outside the handler model, as F8).  It is reached only when journal and dump file do not
  belong together (journal file lost / older than the dump).
* `hsc`: stored commit index ≤ `max commit lastApplied` before the kill (the meta holds an earlier commit index).
* `hdump`: the dump's index ≤ `max commit lastApplied` before the kill (a dump is written from applied entries).
Not covered: `dynamicMembershipChange = True` (member set after the start; invisible to `absNodeM`).
-/
namespace PSO.Bridge
open PSO
open PSO.NodeSend

/-- the journal holds the dump's two entries: `__getEntries(data[2][1], 2) == [data[2], data[1]]` -/
def DumpHeld (log : List NodeSend.Entry) (prevE lastE : NodeSend.Entry) : Prop :=
  getEntries log (some prevE.idx) (some 2) none = some [prevE, lastE]

/-- compacted prefix after the start: the journal entries before the dump's first entry join it -/
def restartGhost (ghost : List Raft.Entry) (s : Node) (dump : Option (NodeSend.Entry × NodeSend.Entry)) :
    List Raft.Entry :=
  match dump, firstIdx? s.log with
  | some (prevE, _), some f => ghost ++ absLogS (s.log.take (prevE.idx - f))
  | _, _ => ghost

theorem take2_eq {α : Type} {l : List α} {a b : α} (h : l.take 2 = [a, b]) : ∃ rest, l = a :: b :: rest := by
  match l, h with
  | x :: y :: r, h =>
    simp only [List.take_succ_cons, List.take_zero, List.cons.injEq, and_true] at h
    exact ⟨r, by rw [h.1, h.2]⟩

/-- a held dump: only the head of the journal is dropped, the dump's entries and everything after them stay -/
theorem restartNode_held (s : Node) (sc : Nat) (prevE lastE : NodeSend.Entry) (h : DumpHeld s.log prevE lastE) :
    ∃ f rest, firstIdx? s.log = some f ∧ (restartNode s sc (some (prevE, lastE))).log = s.log.drop (prevE.idx - f) ∧
      s.log.drop (prevE.idx - f) = prevE :: lastE :: rest := by
  unfold DumpHeld at h
  cases hl : s.log with
  | nil => rw [hl] at h; simp [getEntries] at h
  | cons e0 t =>
    have hg := h
    rw [hl] at h
    simp only [getEntries] at h
    by_cases hlt : prevE.idx < e0.idx
    · simp [hlt] at h
    · simp only [if_neg hlt, Option.some.injEq] at h
      obtain ⟨rest, hrest⟩ := take2_eq h
      refine ⟨e0.idx, rest, rfl, ?_, hrest⟩
      have hf : firstIdx? s.log = some e0.idx := by rw [hl]; rfl
      unfold restartNode
      simp only [hg, hf, and_self, if_true]
      rw [hl, hrest]
      simp

/-- a dump whose entries the journal does not hold: the journal is REPLACED by the dump's two entries
(the case `restart_refines` excludes) -/
theorem restartNode_unheld (s : Node) (sc : Nat) (prevE lastE : NodeSend.Entry)
    (h : getEntries s.log (some prevE.idx) (some 2) none = some []) :
    (restartNode s sc (some (prevE, lastE))).log = [prevE, lastE] ∨
      ∃ rest, s.log = prevE :: lastE :: rest := by
  unfold restartNode
  simp only [h]
  cases hl : s.log with
  | nil => left; rfl
  | cons a t =>
    cases t with
    | nil => left; rfl
    | cons b r =>
      by_cases hab : a = prevE ∧ b = lastE
      · right; exact ⟨r, by rw [hab.1, hab.2]⟩
      · left; simp [hab]

theorem restartNode_fields (s : Node) (sc : Nat) (dump : Option (NodeSend.Entry × NodeSend.Entry)) :
    (restartNode s sc dump).term = s.term ∧ (restartNode s sc dump).commit = sc ∧
    (restartNode s sc dump).role = .follower ∧ (restartNode s sc dump).matchIndex = [] ∧
    (restartNode s sc dump).nextIndex = [] ∧ (restartNode s sc dump).leader = none ∧
    (restartNode s sc dump).lastApplied = (match dump with | none => 1 | some (_, lastE) => lastE.idx) := by
  unfold restartNode
  cases dump with
  | none => exact ⟨rfl, rfl, rfl, rfl, rfl, rfl, rfl⟩
  | some d => obtain ⟨p, l⟩ := d; exact ⟨rfl, rfl, rfl, rfl, rfl, rfl, rfl⟩

/-- **`restart_keeps_journal`.**  Term and vote come back from the journal's meta unchanged; the journal after the
start is a SUFFIX of the journal before the kill that still begins with the dump's two entries (nothing at or after
the dump is lost; without a dump file nothing is dropped), and the ghost-complete log is the same. -/
theorem restart_keeps_journal (x : Extra) (s : Node) (sc : Nat) (dump : Option (NodeSend.Entry × NodeSend.Entry))
    (ghost : List Raft.Entry) (hheld : ∀ p l, dump = some (p, l) → DumpHeld s.log p l) :
    (restartNode s sc dump).term = s.term ∧ (restartExtra x).votedFor = x.votedFor ∧
    (∃ k, (restartNode s sc dump).log = s.log.drop k ∧ (dump = none → k = 0) ∧
      (∀ p l, dump = some (p, l) → ∃ rest, s.log.drop k = p :: l :: rest)) ∧
    restartGhost ghost s dump ++ absLogS (restartNode s sc dump).log = ghost ++ absLogS s.log := by
  refine ⟨(restartNode_fields s sc dump).1, rfl, ?_, ?_⟩
  · cases dump with
    | none => exact ⟨0, rfl, (fun _ => rfl), (fun p l h => by cases h)⟩
    | some d =>
      obtain ⟨p, l⟩ := d
      obtain ⟨f, rest, _, h2, h3⟩ := restartNode_held s sc p l (hheld p l rfl)
      refine ⟨p.idx - f, h2, (fun h => by cases h), ?_⟩
      intro p' l' h
      cases h
      exact ⟨rest, h3⟩
  · cases dump with
    | none =>
      unfold restartGhost
      rfl
    | some d =>
      obtain ⟨p, l⟩ := d
      obtain ⟨f, rest, h1, h2, _⟩ := restartNode_held s sc p l (hheld p l rfl)
      unfold restartGhost
      simp only [h1]
      rw [h2, List.append_assoc]
      unfold absLogS
      rw [← List.map_append, List.take_append_drop]

/-- **`restart_refines`.**  Kill + start of a journaled node (`restartNode`, `restartExtra`) ⊑ `restart n c a` with
`c = max storedCommit lastApplied' − 1`, `a = lastApplied' − 1` (abstraction `absNodeM`): the action is enabled, the
node afterwards is the abstraction of the restarted node (compacted prefix `restartGhost`), nothing else changes. -/
theorem restart_refines (x : Extra) (s : Node) (sc : Nat) (dump : Option (NodeSend.Entry × NodeSend.Entry))
    (ghost : List Raft.Entry)
    (hheld : ∀ p l, dump = some (p, l) → DumpHeld s.log p l)
    (hsc : sc ≤ max s.commit s.lastApplied)
    (hdump : ∀ p l, dump = some (p, l) → l.idx ≤ max s.commit s.lastApplied)
    (N n : Nat) (S : Raft.State) (habs : S.nodes n = absNodeM ghost x s) :
    ∃ S', Raft.step N S (.restart n (max sc (restartNode s sc dump).lastApplied - 1)
              ((restartNode s sc dump).lastApplied - 1)) = some S' ∧
      S'.nodes n = absNodeM (restartGhost ghost s dump) (restartExtra x) (restartNode s sc dump) ∧
      (∀ j, j ≠ n → S'.nodes j = S.nodes j) ∧ S'.msgs = S.msgs := by
  obtain ⟨ft, fc, fr, fm, _, _, fa⟩ := restartNode_fields s sc dump
  obtain ⟨_, _, _, hlog⟩ := restart_keeps_journal x s sc dump ghost hheld
  have hla : (restartNode s sc dump).lastApplied ≤ max 1 (max s.commit s.lastApplied) := by
    rw [fa]
    cases dump with
    | none => exact Nat.le_max_left _ _
    | some d =>
      obtain ⟨p, l⟩ := d
      have := hdump p l rfl
      show l.idx ≤ _
      omega
  have hg : (restartNode s sc dump).lastApplied - 1 ≤ max sc (restartNode s sc dump).lastApplied - 1 ∧
      max sc (restartNode s sc dump).lastApplied - 1 ≤ (S.nodes n).commit := by
    rw [habs]
    show _ ∧ _ ≤ max s.commit s.lastApplied - 1
    omega
  simp only [Raft.step, if_pos hg]
  refine ⟨_, rfl, ?_, ?_, rfl⟩
  · simp only [Raft.setNode, if_true]
    rw [habs]
    apply nodeSt_ext
    · exact ft.symm
    · rfl
    · show Raft.Role.follower = absRoleS (restartNode s sc dump).role
      rw [fr]; rfl
    · rfl
    · exact hlog.symm
    · show max sc (restartNode s sc dump).lastApplied - 1 =
        max (restartNode s sc dump).commit (restartNode s sc dump).lastApplied - 1
      rw [fc]
    · rfl
    · show (fun _ => 0) = absMatchS (restartNode s sc dump).matchIndex
      rw [fm]; rfl
  · intro j hj
    simp [Raft.setNode, hj]

/-- **`restart_refines_S`.**  The same for the plain abstraction `absNodeS` (`commit − 1`) when the applied index is
not ahead of the commit index before the kill and the stored commit index covers the dump (`lastApplied' ≤ sc`, in
particular: no dump file and `1 ≤ sc`). -/
theorem restart_refines_S (x : Extra) (s : Node) (sc : Nat) (dump : Option (NodeSend.Entry × NodeSend.Entry))
    (ghost : List Raft.Entry)
    (hheld : ∀ p l, dump = some (p, l) → DumpHeld s.log p l)
    (hinv : s.lastApplied ≤ s.commit) (hsc : sc ≤ s.commit)
    (hcov : (restartNode s sc dump).lastApplied ≤ sc)
    (N n : Nat) (S : Raft.State) (habs : S.nodes n = absNodeS ghost x s) :
    ∃ S', Raft.step N S (.restart n (sc - 1) ((restartNode s sc dump).lastApplied - 1)) = some S' ∧
      S'.nodes n = absNodeS (restartGhost ghost s dump) (restartExtra x) (restartNode s sc dump) ∧
      (∀ j, j ≠ n → S'.nodes j = S.nodes j) ∧ S'.msgs = S.msgs := by
  rw [← absNodeM_eq ghost x s hinv] at habs
  have fc := (restartNode_fields s sc dump).2.1
  have fa := (restartNode_fields s sc dump).2.2.2.2.2.2
  have hd : ∀ p l, dump = some (p, l) → l.idx ≤ max s.commit s.lastApplied := by
    intro p l h
    subst h
    rw [fa] at hcov
    have : l.idx ≤ sc := hcov
    omega
  obtain ⟨S', h1, h2, h3, h4⟩ := restart_refines x s sc dump ghost hheld (by omega) hd N n S habs
  have e : max sc (restartNode s sc dump).lastApplied = sc := by omega
  rw [e] at h1
  refine ⟨S', h1, ?_, h3, h4⟩
  rw [h2, absNodeM_eq]
  rw [fc]; exact hcov

/-! ## non-vacuity: the 3-voter leader of `BridgeTheorems` with commit 3 / applied 3 is killed -/

/-- the leader of term 1 (it voted for itself, 2 votes counted), entries 1..3 committed and applied, follower 1 confirmed up to 3 -/
def exLeaderR : NodeSend.Node := { exLeaderS with commit := 3, lastApplied := 3, matchIndex := [(1, 3), (2, 2)] }
def exExtraR : NodeSend.Extra := { votedFor := some 0, votes := 2 }
def exStateR : Raft.State := { nodes := fun _ => absNodeM [] exExtraR exLeaderR }

/-- dump at index 3 (entries 2, 3), stored commit index 2: the start drops entry 1 from the journal, keeps term 1 and
the vote for node 0, is a follower with `lastApplied = 3 > commit = 2`; this is `restart 0 2 2`. -/
example : (restartNode exLeaderR 2 (some (exLogS[1]!, exLogS[2]!))).log.map (fun e => (e.idx, e.term)) = [(2, 1), (3, 1)] ∧
    (restartNode exLeaderR 2 (some (exLogS[1]!, exLogS[2]!))).lastApplied = 3 ∧
    (restartNode exLeaderR 2 (some (exLogS[1]!, exLogS[2]!))).commit = 2 ∧
    (restartNode exLeaderR 2 (some (exLogS[1]!, exLogS[2]!))).role = .follower ∧
    (restartNode exLeaderR 2 (some (exLogS[1]!, exLogS[2]!))).term = 1 ∧
    restartGhost [] exLeaderR (some (exLogS[1]!, exLogS[2]!)) = [⟨0, 0⟩] := by decide

example : ∃ S', Raft.step 3 exStateR (.restart 0 2 2) = some S' ∧
    S'.nodes 0 = absNodeM [⟨0, 0⟩] (restartExtra exExtraR) (restartNode exLeaderR 2 (some (exLogS[1]!, exLogS[2]!))) ∧
    (S'.nodes 0).votedFor = some 0 ∧ (S'.nodes 0).term = 1 ∧ (S'.nodes 0).role = .follower ∧
    (S'.nodes 0).log = (exStateR.nodes 0).log ∧ (S'.nodes 0).commit = 2 ∧ (S'.nodes 0).applied = 2 := by
  obtain ⟨S', h1, h2, _, _⟩ := restart_refines exExtraR exLeaderR 2 (some (exLogS[1]!, exLogS[2]!)) []
    (by intro p l h; cases h; unfold DumpHeld; decide) (by decide) (by intro p l h; cases h; decide) 3 0 exStateR rfl
  refine ⟨S', h1, h2, ?_⟩
  rw [h2]
  decide

/-- no dump file, stored commit index 1 (never flushed): everything is re-applied from the start = `restart 0 0 0` -/
example : ∃ S', Raft.step 3 exStateR (.restart 0 0 0) = some S' ∧
    S'.nodes 0 = absNodeM [] (restartExtra exExtraR) (restartNode exLeaderR 1 none) :=
  let ⟨S', h1, h2, _, _⟩ := restart_refines exExtraR exLeaderR 1 none [] (by intro p l h; cases h) (by decide)
    (by intro p l h; cases h) 3 0 exStateR rfl
  ⟨S', h1, h2⟩

/-- the excluded case is real: a dump (entries 3, 4′) the journal does not hold replaces the journal -/
example : (restartNode exLeaderR 2 (some (exLogS[2]!, exE4))).log = [exLogS[2]!, exE4] := by decide

end PSO.Bridge
