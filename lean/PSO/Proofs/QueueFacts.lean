import PSO.Proofs.QueueTick
import PSO.Proofs.Queue

/-! Consequences of `Inv` in the vocabulary of property C19. -/
namespace PSO.Queue

theorem count_enqSeq_call (h : List Ev) (c : CallId) : (enqSeq h).count (.call c) = h.countP (Ev.isEnq c) := by
  induction h with
  | nil => rfl
  | cons x rest ih =>
    cases x <;> simp [enqSeq, List.countP_cons, Ev.isEnq, ih, List.count_append, List.count_cons]

theorem count_deqSeq (h : List Ev) (m : CmdRef) : (deqSeq h).count m = h.countP (Ev.isDeq m) := by
  induction h with
  | nil => rfl
  | cons x rest ih =>
    cases x <;> simp [deqSeq, List.countP_cons, Ev.isDeq, ih, List.count_append, List.count_cons]

/-- a call is dequeued at most as often as it was enqueued -/
theorem deq_le_enq {s : Sys} (hi : Inv s) (c : CallId) :
    s.hist.countP (Ev.isDeq (.call c)) ≤ s.hist.countP (Ev.isEnq c) := by
  rw [← count_deqSeq, ← count_enqSeq_call, hi.fifo, List.count_append]
  omega

theorem enq_le_one {s : Sys} (hi : Inv s) (c : CallId) :
    s.hist.countP (Ev.isEnq c) + s.hist.countP (Ev.isFull c) ≤ 1 := by
  have := hi.enq1 c
  unfold Sys.enqSum at this
  split at this <;> omega

theorem fired_le_one {s : Sys} (hi : Inv s) (c : CallId) : s.hist.countP (Ev.isFired c) ≤ 1 := by
  have := hi.token c
  unfold Sys.tokSum at this
  split at this <;> omega

theorem mem_of_countP_pos {α : Type} {p : α → Bool} {l : List α} (h : 0 < l.countP p) : ∃ x ∈ l, p x = true := by
  exact List.countP_pos_iff.mp h

/-! ## what no step changes: the result function and the threads' programs -/

theorem prog_upd (f : Nat → Thread) (t : Nat) (th' : Thread) (h : th'.prog = (f t).prog) (t' : Nat) :
    (upd f t th' t').prog = (f t').prog := by
  by_cases e : t' = t
  · subst e; simp [h]
  · rw [upd_other _ _ e]

theorem dispatch_static (s : Sys) (env : Env) (e : Entry) :
    (s.dispatch env e).resultOf = s.resultOf ∧ (s.dispatch env e).thr = s.thr := by
  obtain ⟨cmd, cb⟩ := e
  unfold Sys.dispatch
  by_cases h1 : env.isLeader = true <;> by_cases h2 : env.denied = true <;> by_cases h3 : env.hasLeader = true <;>
    cases cb <;> simp [h1, h2, h3]

theorem afterPut_static (s : Sys) (t : Nat) (mode : Mode) :
    (s.afterPut t mode).resultOf = s.resultOf ∧ ∀ t', ((s.afterPut t mode).thr t').prog = (s.thr t').prog := by
  cases mode <;> exact ⟨rfl, prog_upd _ _ _ rfl⟩

theorem step_static {s s' : Sys} {l : Label} (h : s.step l = some s') :
    s'.resultOf = s.resultOf ∧ ∀ t, (s'.thr t).prog = (s.thr t).prog := by
  cases l with
  | call t =>
    simp only [Sys.step, Sys.callStep] at h
    split at h
    · unfold Sys.startStep at h
      split at h
      · simp at h
      · simp only [Option.some.injEq] at h; subst h; exact ⟨rfl, prog_upd _ _ _ rfl⟩
      · simp only [Option.some.injEq] at h; subst h; exact ⟨rfl, prog_upd _ _ _ rfl⟩
    · unfold Sys.putStep at h
      split at h
      · simp only [Option.some.injEq] at h
        subst h
        rename_i c cmd mode _
        obtain ⟨a1, a2⟩ := afterPut_static (s.applyCommand ⟨.call c, mode.cbRef c⟩ (.enq c) (.full c)) t mode
        obtain ⟨f1, _, _, f4⟩ := applyCommand_frame s ⟨.call c, mode.cbRef c⟩ (.enq c) (.full c)
        exact ⟨by rw [a1, f4], by intro t'; rw [a2 t', f1]⟩
      · simp at h
    · unfold Sys.waitStep at h
      split at h
      · simp only at h
        split at h
        · simp only [Option.some.injEq] at h; subst h; exact ⟨rfl, prog_upd _ _ _ rfl⟩
        · simp at h
      · simp at h
  | timeout t =>
    simp only [Sys.step, Sys.timeoutStep] at h
    split at h
    · split at h
      · split at h
        · simp only [Option.some.injEq] at h; subst h; exact ⟨rfl, prog_upd _ _ _ rfl⟩
        · simp at h
      · simp at h
    · simp at h
  | tick env =>
    simp only [Sys.step, Sys.tick] at h
    split at h
    · simp at h
    · split at h
      · simp at h
      · simp only [Option.some.injEq] at h
        subst h
        rename_i x q' _
        obtain ⟨d1, d2⟩ := dispatch_static ({ s with q := q', hist := Ev.deq x.cmd :: s.hist } : Sys) env x
        exact ⟨d1, by intro t; rw [d2]⟩
  | answer j err =>
    simp only [Sys.step, Sys.answer] at h
    split at h
    · simp at h
    · simp only [Option.some.injEq] at h
      subst h
      exact ⟨by simp, by intro t; simp⟩
  | remotePut k cb =>
    simp only [Sys.step, Option.some.injEq] at h
    subst h
    obtain ⟨f1, _, _, f4⟩ := applyCommand_frame s ⟨.foreign k, cbOfOpt cb⟩ (.renq k) (.rfull k)
    exact ⟨f4, by intro t; simp only [Sys.remotePut]; rw [f1]⟩

theorem exec_static {s s' : Sys} (ls : List Label) (h : s.exec ls = some s') :
    s'.resultOf = s.resultOf ∧ ∀ t, (s'.thr t).prog = (s.thr t).prog := by
  induction ls generalizing s with
  | nil => simp only [Sys.exec, Option.some.injEq] at h; subst h; exact ⟨rfl, fun _ => rfl⟩
  | cons l ls ih =>
    simp only [Sys.exec] at h
    split at h
    · simp at h
    · rename_i s1 hs1
      obtain ⟨a1, a2⟩ := step_static hs1
      obtain ⟨b1, b2⟩ := ih h
      exact ⟨by rw [b1, a1], by intro t; rw [b2 t, a2 t]⟩

end PSO.Queue
