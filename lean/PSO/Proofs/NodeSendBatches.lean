import PSO.Model.NodeSend

/-! # The send loop partitions the log suffix into batches (C11) -/
namespace PSO.NodeSend

/-- the entry at position `i` has index `first + i` (contiguous indices) -/
def IdxOK (first : Nat) (l : List Entry) : Prop := ∀ i e, l[i]? = some e → e.idx = first + i

theorem IdxOK.drop {first : Nat} {l : List Entry} (h : IdxOK first l) (p : Nat) : IdxOK (first + p) (l.drop p) := by
  intro i e he
  rw [List.getElem?_drop] at he
  have := h (p + i) e he
  omega

theorem IdxOK.prefix {first : Nat} {es rest : List Entry} (h : IdxOK first (es ++ rest)) : IdxOK first es := by
  intro i e he
  have hi : i < es.length := by
    rcases Nat.lt_or_ge i es.length with h1 | h1
    · exact h1
    · rw [List.getElem?_eq_none h1] at he; cases he
  apply h i e
  rw [List.getElem?_append_left hi]
  exact he

theorem IdxOK.last {first : Nat} {l : List Entry} (h : IdxOK first l) {e : Entry} (he : l.getLast? = some e) :
    e.idx = first + (l.length - 1) := by
  rw [List.getLast?_eq_getElem?] at he
  exact h _ e he

theorem firstIdx_of {first : Nat} {l : List Entry} (hne : l ≠ []) (h : IdxOK first l) : firstIdx? l = some first := by
  cases l with
  | nil => exact absurd rfl hne
  | cons a t =>
    have := h 0 a (by simp)
    simp [firstIdx?, this]

theorem lastIdx_of {first : Nat} {l : List Entry} (hne : l ≠ []) (h : IdxOK first l) :
    lastIdx? l = some (first + (l.length - 1)) := by
  unfold lastIdx?
  cases hl : l.getLast? with
  | none => rw [List.getLast?_eq_none_iff] at hl; exact absurd hl hne
  | some e => simp [h.last hl]

/-! ## `takeBytes` returns a non-empty prefix -/

theorem takeBytes_prefix (B : Nat) : ∀ (l : List Entry) (acc : Nat), ∃ rest, l = takeBytes B acc l ++ rest := by
  intro l
  induction l with
  | nil => intro acc; exact ⟨[], by simp [takeBytes]⟩
  | cons e r ih =>
    intro acc
    unfold takeBytes
    split
    · exact ⟨r, by simp⟩
    · obtain ⟨rest, hr⟩ := ih (acc + e.cmd.size)
      exact ⟨rest, by simp [← hr]⟩

theorem takeBytes_ne_nil (B : Nat) {l : List Entry} (acc : Nat) (h : l ≠ []) : takeBytes B acc l ≠ [] := by
  cases l with
  | nil => exact absurd rfl h
  | cons e r => unfold takeBytes; split <;> simp

/-! ## `getEntries` / `getPrev` on a well-formed log -/

theorem getEntries_from {first : Nat} {log : List Entry} (hne : log ≠ []) (h : IdxOK first log) (p : Nat)
    (count : Option Nat) (maxB : Option Nat) :
    getEntries log (some (first + p)) count maxB =
      some (let r := match count with | none => log.drop p | some c => (log.drop p).take c
            match maxB with | none => r | some m => takeBytes m 0 r) := by
  cases log with
  | nil => exact absurd rfl hne
  | cons e0 t =>
    have h0 : e0.idx = first := by simpa using h 0 e0 (by simp)
    unfold getEntries
    simp only [h0]
    have : ¬ first + p < first := by omega
    simp only [this, if_false]
    have hp : first + p - first = p := by omega
    rw [hp]
    cases count <;> cases maxB <;> rfl

theorem getPrev_of {first : Nat} {log : List Entry} (hne : log ≠ []) (h : IdxOK first log) {p : Nat} (hp : 1 ≤ p)
    {e : Entry} (he : log[p - 1]? = some e) :
    getPrev log (first + p) = some (some (first + p - 1, e.term)) := by
  unfold getPrev
  have : first + p - 1 = first + (p - 1) := by omega
  rw [this, getEntries_from hne h]
  simp only []
  have hd : (log.drop (p - 1)).take 1 = [e] := by
    rw [List.take_one, List.head?_drop, he]
    rfl
  rw [hd]

theorem getPrev_beyond {first : Nat} {log : List Entry} (hne : log ≠ []) (h : IdxOK first log) {p : Nat}
    (hp : log.length < p) : getPrev log (first + p) = some none := by
  unfold getPrev
  have : first + p - 1 = first + (p - 1) := by omega
  rw [this, getEntries_from hne h]
  simp only []
  have hd : (log.drop (p - 1)).take 1 = [] := by
    rw [List.drop_eq_nil_of_le (by omega)]
    rfl
  rw [hd]

/-! ## one iteration in the regular region `first < next ≤ last + 1` -/

/-- what `iterBatch` returns for `next = first + p`, `1 ≤ p < log.length` -/
theorem iterBatch_entries {first B : Nat} {log : List Entry} (hne : log ≠ []) (h : IdxOK first log) {p : Nat}
    (hp1 : 1 ≤ p) (hp2 : p < log.length) (ans : Option Bool) {pe : Entry} (hpe : log[p - 1]? = some pe) :
    takeBytes B 0 (log.drop p) ≠ [] ∧ (∃ rest, log.drop p = takeBytes B 0 (log.drop p) ++ rest) ∧
    ((∃ e, takeBytes B 0 (log.drop p) = [e] ∧ B ≤ e.cmd.size ∧
        iterBatch B log (first + p) ans =
          .ok (.chunked (some (first + p - 1, pe.term)) e, first + p + (takeBytes B 0 (log.drop p)).length)) ∨
     (iterBatch B log (first + p) ans =
        .ok (.regular (some (first + p - 1, pe.term)) (takeBytes B 0 (log.drop p)),
             first + p + (takeBytes B 0 (log.drop p)).length))) := by
  generalize hesdef : takeBytes B 0 (log.drop p) = es
  have hdne : log.drop p ≠ [] := by
    intro hd
    have := congrArg List.length hd
    simp at this
    omega
  have hes : es ≠ [] := hesdef ▸ takeBytes_ne_nil B 0 hdne
  obtain ⟨rest, hrest⟩ := takeBytes_prefix B (log.drop p) 0
  rw [hesdef] at hrest
  refine ⟨hes, ⟨rest, hrest⟩, ?_⟩
  have hok : IdxOK (first + p) es := by
    have := (h.drop p)
    rw [hrest] at this
    exact this.prefix
  cases hl : es.getLast? with
  | none => rw [List.getLast?_eq_none_iff] at hl; exact absurd hl hes
  | some l =>
    have hlidx := hok.last hl
    have hlen : 1 ≤ es.length := List.length_pos_iff.mpr hes
    have hnext : l.idx + 1 = first + p + es.length := by omega
    have hfirst := firstIdx_of hne h
    have hlast := lastIdx_of hne h
    have hprev := getPrev_of hne h hp1 hpe
    have hget : getEntries log (some (first + p)) none (some B) = some es := by
      rw [getEntries_from hne h]
      simp only [hesdef]
    unfold iterBatch
    simp only [hfirst, hlast]
    have c1 : first < first + p := by omega
    have c2 : first + p ≤ first + (log.length - 1) := by omega
    simp only [c1, if_true, hprev, c2, hget, hl, hnext]
    cases hes' : es with
    | nil => exact absurd hes' hes
    | cons e r =>
      cases r with
      | nil =>
        by_cases hB : B ≤ e.cmd.size
        · left
          exact ⟨e, rfl, hB, by simp [hB]⟩
        · right
          simp [hB]
      | cons e2 r2 => right; rfl

/-- the single heartbeat sent when the destination is up to date (`next = last + 1`) -/
theorem iterBatch_heartbeat {first B : Nat} {log : List Entry} (hne : log ≠ []) (h : IdxOK first log)
    (ans : Option Bool) {pe : Entry} (hpe : log.getLast? = some pe) :
    iterBatch B log (first + log.length) ans = .ok (.regular (some (first + log.length - 1, pe.term)) [], first + log.length) := by
  have hlen : 1 ≤ log.length := List.length_pos_iff.mpr hne
  have hfirst := firstIdx_of hne h
  have hlast := lastIdx_of hne h
  have hpe' : log[log.length - 1]? = some pe := by rw [← List.getLast?_eq_getElem?]; exact hpe
  have hprev := getPrev_of hne h hlen hpe'
  unfold iterBatch
  simp only [hfirst, hlast]
  have c1 : first < first + log.length := by omega
  have c2 : ¬ first + log.length ≤ first + (log.length - 1) := by omega
  simp only [c1, if_true, hprev, c2, if_false]

/-! ## the whole loop -/

/-- every batch's `prev` is the (index, term) of the log entry before its first entry -/
def PrevOK (log : List Entry) (first : Nat) : Nat → List Batch → Prop
  | _, [] => True
  | p, b :: bs =>
    (∃ pe, log[p - 1]? = some pe ∧ b.prev = some (first + p - 1, pe.term)) ∧ PrevOK log first (p + b.entries.length) bs

/-- a batch is sent as a chunk burst only when its single command is at least a batch long -/
def ChunkOK (B : Nat) (bs : List Batch) : Prop :=
  ∀ b ∈ bs, match b with
    | .chunked _ e => B ≤ e.cmd.size
    | _ => True

theorem flatMap_cons' {α β : Type} (f : α → List β) (a : α) (l : List α) : (a :: l).flatMap f = f a ++ l.flatMap f := by
  simp [List.flatMap_cons]

/-! ### the probing decision (repair D62) -/

/-- the destination has confirmed the entry before `first + p`, or the question was answered before -/
def Confirmed (c : SendCfg) (dec : Bool) (pi : Nat) : Prop := dec = true ∨ ∃ m, c.matchIdx = some m ∧ pi ≤ m

theorem probe_false {c : SendCfg} {dec : Bool} {pi t : Nat} (h : Confirmed c dec pi) :
    probeDecision c dec (some (pi, t)) = .ok false := by
  unfold probeDecision
  rcases h with h | ⟨m, hm, hle⟩
  · simp [h]
  · cases dec
    · simp only [Bool.false_eq_true, if_false, hm]
      have : ¬ m < pi := by omega
      simp [this]
    · simp

theorem probe_true {c : SendCfg} {pi t m : Nat} (hm : c.matchIdx = some m) (hlt : m < pi) :
    probeDecision c false (some (pi, t)) = .ok true := by
  unfold probeDecision
  simp [hm, hlt]

theorem probe_ok {c : SendCfg} {dec : Bool} (prev : Option (Nat × Nat)) (h : dec = true ∨ c.matchIdx.isSome = true) :
    ∃ b, probeDecision c dec prev = .ok b := by
  unfold probeDecision
  rcases h with h | h
  · simp [h]
  · cases dec
    · simp only [Bool.false_eq_true, if_false]
      cases prev with
      | none => exact ⟨_, rfl⟩
      | some q =>
        obtain ⟨pi, t⟩ := q
        obtain ⟨m, hm⟩ := Option.isSome_iff_exists.mp h
        simp only [hm]
        exact ⟨_, rfl⟩
    · simp

/-- **Loop lemma.** Without cut-off and without disconnect, from `next = first + p` (`1 ≤ p ≤ length`) the loop
terminates by itself, sends the log suffix from position `p` batch by batch, and leaves `nextIndex = last + 1` —
provided the destination has confirmed the entry before the first batch (`matchIndex ≥ first + p - 1`: a
pipelined, not a probing run). -/
theorem sendLoop_partition {first : Nat} {log : List Entry} (hne : log ≠ []) (h : IdxOK first log)
    (c : SendCfg) (hc : c.dropAfter = none) (snap : List (Option Bool)) :
    ∀ (fuel p : Nat) (ss : Bool) (sent : Nat) (dec : Bool), 1 ≤ p → p ≤ log.length →
      log.length - p + (if ss then 2 else 1) ≤ fuel → Confirmed c dec (first + p - 1) →
      ∃ r, sendLoop c log fuel (first + p) ss false snap none sent dec = .ok r ∧ r.spin = false ∧
        r.next = first + log.length ∧ r.batches.flatMap Batch.entries = log.drop p ∧
        r.msgs = r.batches.flatMap (render c.B c.term c.commit) ∧ r.snap = snap ∧
        PrevOK log first p r.batches ∧ (ss = false → p = log.length → r.batches = []) ∧ ChunkOK c.B r.batches ∧
        (ss = true → r.batches ≠ []) := by
  intro fuel
  induction fuel with
  | zero => intro p ss sent dec _ _ hf _; split at hf <;> omega
  | succ fuel ih =>
    intro p ss sent dec hp1 hp2 hf hconf
    have hlast := lastIdx_of hne h
    have hlen : 1 ≤ log.length := List.length_pos_iff.mpr hne
    unfold sendLoop
    simp only [hlast]
    by_cases hlt : p < log.length
    · -- entries to send
      have hcond : (decide (first + p ≤ first + (log.length - 1)) || ss || false) = true := by
        have : first + p ≤ first + (log.length - 1) := by omega
        simp [this]
      simp only [hcond, if_true]
      have hpe : ∃ pe, log[p - 1]? = some pe := by
        have : p - 1 < log.length := by omega
        exact ⟨log[p - 1], by simp [List.getElem?_eq_getElem this]⟩
      obtain ⟨pe, hpe⟩ := hpe
      have hit := iterBatch_entries (B := c.B) hne h hp1 hlt (snap.head?.join) hpe
      obtain ⟨hes, ⟨rest, hrest⟩, hcase⟩ := hit
      have hlen_es : 1 ≤ (takeBytes c.B 0 (log.drop p)).length := List.length_pos_iff.mpr hes
      have hle : p + (takeBytes c.B 0 (log.drop p)).length ≤ log.length := by
        have := congrArg List.length hrest
        simp at this
        omega
      have hdrop : log.drop (p + (takeBytes c.B 0 (log.drop p)).length) = rest := by
        have h1 : List.drop (takeBytes c.B 0 (log.drop p)).length (takeBytes c.B 0 (log.drop p) ++ rest) = rest :=
          List.drop_left
        rw [← hrest, List.drop_drop] at h1
        exact h1
      have hpf : probeDecision c dec (some (first + p - 1, pe.term)) = .ok false := probe_false hconf
      rcases hcase with ⟨e, he1, hB, hiter⟩ | hiter
      · -- one over-sized entry: chunk burst
        rw [hiter]
        simp only [hpf, hc, budgetDone, budgetNext]
        have hburst : ∀ (ms : List Msg) (n : Nat), sendBurst none n ms = (ms, n + ms.length) := by
          intro ms
          induction ms with
          | nil => intro n; simp [sendBurst]
          | cons m t iht => intro n; simp [sendBurst, stillConnected, iht]; omega
        rw [hburst]
        simp only [Bool.false_eq_true, if_false]
        -- the recursive call: same loop with another `sent`
        obtain ⟨r2, hr2, hspin2, hnext2, hents2, hmsgs2, hsnap2, hprev2, _, hck2, _⟩ :=
          ih (p + (takeBytes c.B 0 (log.drop p)).length) false
            (sent + (render c.B c.term c.commit (Batch.chunked (some (first + p - 1, pe.term)) e)).length) true
            (by omega) hle (by split at hf <;> simp <;> omega) (Or.inl rfl)
        have hnx : first + p + (takeBytes c.B 0 (log.drop p)).length = first + (p + (takeBytes c.B 0 (log.drop p)).length) := by omega
        rw [hnx, hr2]
        refine ⟨_, rfl, hspin2, hnext2, ?_, ?_, hsnap2, ?_, ?_, ?_, fun _ => List.cons_ne_nil _ _⟩
        · simp only [flatMap_cons', Batch.entries, hents2, hdrop]
          rw [hrest, he1]
        · simp only [flatMap_cons', hmsgs2]
        · refine ⟨⟨pe, hpe, rfl⟩, ?_⟩
          simp only [Batch.entries, List.length_singleton]
          rw [he1] at hprev2
          simpa using hprev2
        · intro _ hpl; omega
        · intro b hb
          rcases List.mem_cons.mp hb with hb | hb
          · subst hb; exact hB
          · exact hck2 b hb
      · rw [hiter]
        simp only [hpf, hc, stillConnected, budgetDone, budgetNext, decide_true, Bool.not_true, Bool.false_eq_true, if_false]
        obtain ⟨r2, hr2, hspin2, hnext2, hents2, hmsgs2, hsnap2, hprev2, _, hck2, _⟩ :=
          ih (p + (takeBytes c.B 0 (log.drop p)).length) false (sent + 1) true (by omega) hle (by split at hf <;> simp <;> omega) (Or.inl rfl)
        have hnx : first + p + (takeBytes c.B 0 (log.drop p)).length = first + (p + (takeBytes c.B 0 (log.drop p)).length) := by omega
        rw [hnx, hr2]
        refine ⟨_, rfl, hspin2, hnext2, ?_, ?_, hsnap2, ?_, ?_, ?_, fun _ => List.cons_ne_nil _ _⟩
        · simp only [flatMap_cons', Batch.entries, hents2, hdrop]
          exact hrest.symm
        · simp only [flatMap_cons', hmsgs2]
        · exact ⟨⟨pe, hpe, rfl⟩, by simpa [Batch.entries] using hprev2⟩
        · intro _ hpl; omega
        · intro b hb
          rcases List.mem_cons.mp hb with hb | hb
          · subst hb; trivial
          · exact hck2 b hb
    · -- up to date
      have hpeq : p = log.length := by omega
      subst hpeq
      have hnle : ¬ first + log.length ≤ first + (log.length - 1) := by omega
      cases ss with
      | false =>
        simp [hnle, PrevOK, ChunkOK]
      | true =>
        simp only [hnle, decide_false, Bool.false_or, Bool.true_or, if_true]
        cases hl : log.getLast? with
        | none => rw [List.getLast?_eq_none_iff] at hl; exact absurd hl hne
        | some pe =>
          rw [iterBatch_heartbeat hne h _ hl]
          have hpf : probeDecision c dec (some (first + log.length - 1, pe.term)) = .ok false := probe_false hconf
          simp only [hpf, hc, stillConnected, budgetDone, budgetNext, decide_true, Bool.not_true, Bool.false_eq_true, if_false]
          obtain ⟨r2, hr2, hspin2, hnext2, hents2, hmsgs2, hsnap2, hprev2, hemp, hck2, _⟩ :=
            ih log.length false (sent + 1) true hlen (Nat.le_refl _) (by simp at hf ⊢; omega) (Or.inl rfl)
          rw [hr2]
          have hb := hemp rfl rfl
          refine ⟨_, rfl, hspin2, hnext2, ?_, ?_, hsnap2, ?_, ?_, ?_, fun _ => List.cons_ne_nil _ _⟩
          · simp [flatMap_cons', Batch.entries, hb]
          · simp only [flatMap_cons', hmsgs2]
          · refine ⟨⟨pe, ?_, rfl⟩, by simp [hb, PrevOK]⟩
            rw [← List.getLast?_eq_getElem?]; exact hl
          · intro hf; cases hf
          · intro b hb
            rcases List.mem_cons.mp hb with hb | hb
            · subst hb; trivial
            · exact hck2 b hb

end PSO.NodeSend

namespace PSO.NodeSend

/-- **No exception, any cut-off, any disconnect, probing or not.**  In the regular region
(`first < next ≤ last + 1`) the send loop returns a value for every fuel, every wall-clock budget, every disconnect
point and every `matchIndex` of the destination (the dict entry must exist: a leader holds one per destination). -/
theorem sendLoop_ok {first : Nat} {log : List Entry} (hne : log ≠ []) (h : IdxOK first log) (c : SendCfg)
    (snap : List (Option Bool)) :
    ∀ (fuel p : Nat) (ss : Bool) (budget : Option Nat) (sent : Nat) (dec : Bool), 1 ≤ p → p ≤ log.length →
      (dec = true ∨ c.matchIdx.isSome = true) →
      ∃ r, sendLoop c log fuel (first + p) ss false snap budget sent dec = .ok r := by
  intro fuel
  induction fuel with
  | zero => intro p ss budget sent dec _ _ _; exact ⟨_, rfl⟩
  | succ fuel ih =>
    intro p ss budget sent dec hp1 hp2 hm
    have hlast := lastIdx_of hne h
    have hlen : 1 ≤ log.length := List.length_pos_iff.mpr hne
    unfold sendLoop
    simp only [hlast]
    by_cases hcond : (decide (first + p ≤ first + (log.length - 1)) || ss || false) = true
    · simp only [hcond, if_true]
      by_cases hlt : p < log.length
      · have hpe : ∃ pe, log[p - 1]? = some pe := by
          have : p - 1 < log.length := by omega
          exact ⟨log[p - 1], by simp [List.getElem?_eq_getElem this]⟩
        obtain ⟨pe, hpe⟩ := hpe
        obtain ⟨hes, ⟨rest, hrest⟩, hcase⟩ := iterBatch_entries (B := c.B) hne h hp1 hlt (snap.head?.join) hpe
        have hlen_es : 1 ≤ (takeBytes c.B 0 (log.drop p)).length := List.length_pos_iff.mpr hes
        have hle : p + (takeBytes c.B 0 (log.drop p)).length ≤ log.length := by
          have := congrArg List.length hrest
          simp at this
          omega
        have hnx : first + p + (takeBytes c.B 0 (log.drop p)).length = first + (p + (takeBytes c.B 0 (log.drop p)).length) := by omega
        obtain ⟨pb, hpb⟩ := probe_ok (c := c) (dec := dec) (some (first + p - 1, pe.term)) hm
        rcases hcase with ⟨e, _, _, hiter⟩ | hiter
        · rw [hiter]
          simp only [hpb]
          by_cases hcb : (!stillConnected c.dropAfter
              (sendBurst c.dropAfter sent (render c.B c.term c.commit (Batch.chunked (some (first + p - 1, pe.term)) e))).2) = true
          · simp only [hcb, if_true]; exact ⟨_, rfl⟩
          · simp only [hcb]
            by_cases hp : pb = true
            · simp only [hp, if_true]; exact ⟨_, rfl⟩
            · simp only [hp]
              by_cases hb : budgetDone budget = true
              · simp only [hb, if_true]; exact ⟨_, rfl⟩
              · simp only [hb]
                rw [hnx]
                obtain ⟨r, hr⟩ := ih (p + (takeBytes c.B 0 (log.drop p)).length) false (budgetNext budget)
                  (sendBurst c.dropAfter sent (render c.B c.term c.commit (Batch.chunked (some (first + p - 1, pe.term)) e))).2
                  true (by omega) hle (Or.inl rfl)
                simp only [hr]; exact ⟨_, rfl⟩
        · rw [hiter]
          simp only [hpb]
          by_cases hcn : (!stillConnected c.dropAfter (sent + 1)) = true
          · simp only [hcn, if_true]; exact ⟨_, rfl⟩
          · simp only [hcn]
            by_cases hp : pb = true
            · simp only [hp, if_true]; exact ⟨_, rfl⟩
            · simp only [hp]
              by_cases hb : budgetDone budget = true
              · simp only [hb, if_true]; exact ⟨_, rfl⟩
              · simp only [hb]
                rw [hnx]
                obtain ⟨r, hr⟩ := ih (p + (takeBytes c.B 0 (log.drop p)).length) false (budgetNext budget) (sent + 1) true
                  (by omega) hle (Or.inl rfl)
                simp only [hr]; exact ⟨_, rfl⟩
      · have hpeq : p = log.length := by omega
        subst hpeq
        cases hl : log.getLast? with
        | none => rw [List.getLast?_eq_none_iff] at hl; exact absurd hl hne
        | some pe =>
          rw [iterBatch_heartbeat hne h _ hl]
          obtain ⟨pb, hpb⟩ := probe_ok (c := c) (dec := dec) (some (first + log.length - 1, pe.term)) hm
          simp only [hpb]
          by_cases hcn : (!stillConnected c.dropAfter (sent + 1)) = true
          · simp only [hcn, if_true]; exact ⟨_, rfl⟩
          · simp only [hcn]
            by_cases hp : pb = true
            · simp only [hp, if_true]; exact ⟨_, rfl⟩
            · simp only [hp]
              by_cases hb : budgetDone budget = true
              · simp only [hb, if_true]; exact ⟨_, rfl⟩
              · simp only [hb]
                obtain ⟨r, hr⟩ := ih log.length false (budgetNext budget) (sent + 1) true hlen (Nat.le_refl _) (Or.inl rfl)
                simp only [hr]; exact ⟨_, rfl⟩
    · simp only [hcond]; exact ⟨_, rfl⟩

/-- **A probing run (repair D62).**  To a destination that has NOT confirmed the entry before `first + p`
(`matchIndex < first + p - 1`), without cut-off and disconnect, the loop sends exactly the first batch — the
entries `takeBytes B (log[p..])`, or the single heartbeat when up to date — and leaves `nextIndex` right after it. -/
theorem sendLoop_probe {first : Nat} {log : List Entry} (hne : log ≠ []) (h : IdxOK first log)
    (c : SendCfg) (hc : c.dropAfter = none) (snap : List (Option Bool)) {m : Nat} (hm : c.matchIdx = some m)
    (fuel p sent : Nat) (budget : Option Nat) (hp1 : 1 ≤ p) (hp2 : p ≤ log.length) (hlt : m < first + p - 1) :
    ∃ r b, sendLoop c log (fuel + 1) (first + p) true false snap budget sent false = .ok r ∧ r.spin = false ∧
      r.batches = [b] ∧ b.entries = takeBytes c.B 0 (log.drop p) ∧
      r.next = first + p + b.entries.length ∧ r.msgs = render c.B c.term c.commit b ∧
      PrevOK log first p [b] ∧ ChunkOK c.B [b] ∧ (∃ rest, log.drop p = b.entries ++ rest) := by
  have hlast := lastIdx_of hne h
  have hlen : 1 ≤ log.length := List.length_pos_iff.mpr hne
  unfold sendLoop
  simp only [hlast, Bool.or_true, Bool.true_or, Bool.or_false, if_true]
  by_cases hlt' : p < log.length
  · have hpe : ∃ pe, log[p - 1]? = some pe := by
      have : p - 1 < log.length := by omega
      exact ⟨log[p - 1], by simp [List.getElem?_eq_getElem this]⟩
    obtain ⟨pe, hpe⟩ := hpe
    obtain ⟨hes, ⟨rest, hrest⟩, hcase⟩ := iterBatch_entries (B := c.B) hne h hp1 hlt' (snap.head?.join) hpe
    have hpt : probeDecision c false (some (first + p - 1, pe.term)) = .ok true := probe_true hm hlt
    have hburst : ∀ (ms : List Msg) (n : Nat), sendBurst none n ms = (ms, n + ms.length) := by
      intro ms
      induction ms with
      | nil => intro n; simp [sendBurst]
      | cons m t iht => intro n; simp [sendBurst, stillConnected, iht]; omega
    rcases hcase with ⟨e, he1, hB, hiter⟩ | hiter
    · rw [hiter]
      simp only [hpt, hc, hburst, if_true]
      refine ⟨_, _, rfl, rfl, rfl, by simp [Batch.entries, he1], by simp [Batch.entries, he1], rfl, ?_, ?_, ?_⟩
      · exact ⟨⟨pe, hpe, rfl⟩, trivial⟩
      · intro b hb; simp at hb; subst hb; exact hB
      · exact ⟨rest, by simp only [Batch.entries]; rw [← he1]; exact hrest⟩
    · rw [hiter]
      simp only [hpt, hc, stillConnected, decide_true, Bool.not_true, Bool.false_eq_true, if_false, if_true]
      refine ⟨_, _, rfl, rfl, rfl, rfl, rfl, rfl, ?_, ?_, ?_⟩
      · exact ⟨⟨pe, hpe, rfl⟩, trivial⟩
      · intro b hb; simp at hb; subst hb; trivial
      · exact ⟨rest, hrest⟩
  · have hpeq : p = log.length := by omega
    subst hpeq
    cases hl : log.getLast? with
    | none => rw [List.getLast?_eq_none_iff] at hl; exact absurd hl hne
    | some pe =>
      rw [iterBatch_heartbeat hne h _ hl]
      have hpt : probeDecision c false (some (first + log.length - 1, pe.term)) = .ok true := probe_true hm hlt
      simp only [hpt, hc, stillConnected, decide_true, Bool.not_true, Bool.false_eq_true, if_false, if_true]
      refine ⟨_, _, rfl, rfl, rfl, by simp [Batch.entries, takeBytes], by simp [Batch.entries], rfl, ?_, ?_, ?_⟩
      · refine ⟨⟨pe, ?_, rfl⟩, trivial⟩
        rw [← List.getLast?_eq_getElem?]; exact hl
      · intro b hb; simp at hb; subst hb; trivial
      · exact ⟨[], by simp [Batch.entries]⟩

end PSO.NodeSend
