import PSO.Proofs.NodeTickApply

/-!
# C18 (node-local part): read-only nodes never vote, never lead, are never counted
-/
namespace PSO.NodeTick
open PSO.Raft (Role isMajority)

/-! ## outputs that are vote traffic -/

def isVoteMsg : Output → Bool
  | .requestVote _ _ _ _ => true
  | .responseVote _ _ => true
  | _ => false

def noVote (outs : List Output) : Prop := ∀ o ∈ outs, isVoteMsg o = false

theorem noVote_nil : noVote [] := fun _ h => by cases h
theorem noVote_append {a b : List Output} (ha : noVote a) (hb : noVote b) : noVote (a ++ b) := by
  intro o ho
  rcases List.mem_append.mp ho with h | h
  · exact ha o h
  · exact hb o h
theorem noVote_single {o : Output} (h : isVoteMsg o = false) : noVote [o] := by
  intro x hx; simp only [List.mem_singleton] at hx; subst hx; exact h
theorem noVote_ite {p : Prop} [Decidable p] {a b : List Output} (ha : noVote a) (hb : noVote b) :
    noVote (if p then a else b) := by
  split
  · exact ha
  · exact hb
theorem noVote_map {α : Type} (f : α → Output) (l : List α) (h : ∀ x, isVoteMsg (f x) = false) :
    noVote (l.map f) := by
  intro o ho
  obtain ⟨x, _, rfl⟩ := List.mem_map.mp ho
  exact h x

macro "no_vote" : tactic =>
  `(tactic| repeat (first
      | exact noVote_nil
      | apply noVote_append
      | apply noVote_ite
      | (apply noVote_single; rfl)
      | (apply noVote_map; intro _; (first | rfl | (split <;> rfl)))))

theorem changeCluster_noVote (s : NodeState) (now : Nat) (add : Bool) (n : Nat) :
    noVote (changeCluster s now add n).2 := by
  unfold changeCluster
  repeat' split
  all_goals no_vote

theorem applyCmd_noVote {c : Config} {s : NodeState} {now : Nat} {e : Entry} {s' : NodeState} {r : Res}
    {o : List Output} (h : applyCmd c s now e = some (s', r, o)) : noVote o := by
  unfold applyCmd at h
  split at h
  · cases h; exact noVote_nil
  · split at h
    · cases h
    · split at h
      · cases h; exact noVote_nil
      · cases h; exact noVote_single rfl
  · cases h; exact noVote_nil
  · cases h; exact noVote_single rfl

theorem callbacksFor_noVote (e : Entry) (res : Res) (subs : List (Nat × Nat)) : noVote (callbacksFor e res subs) := by
  unfold callbacksFor
  no_vote

theorem applyLoop_noVote (c : Config) (now : Nat) (es : List Entry) : ∀ s, noVote (applyLoop c now es s).2 := by
  induction es with
  | nil => intro s; exact noVote_nil
  | cons e es ih =>
    intro s
    simp only [applyLoop]
    split
    · exact noVote_nil
    · next s1 res o1 h =>
      exact noVote_append (noVote_append (applyCmd_noVote h) (callbacksFor_noVote _ _ _)) (ih _)

theorem applyEntries_noVote (c : Config) (s : NodeState) (now : Nat) : noVote (applyEntries c s now).2.1 := by
  unfold applyEntries
  split
  · exact noVote_nil
  · split
    · exact applyLoop_noVote c now _ s
    · exact noVote_nil

/-! ## a read-only node stays a silent follower -/

/-- "read-only follower": started without an own address, in follower state. -/
def Observer (s : NodeState) : Prop := s.self = none ∧ s.role = .follower

theorem electionPhase_observer (c : Config) (s : NodeState) (now rand : Nat) (h : s.self = none) :
    electionPhase c s now rand = (s, []) := by
  unfold electionPhase
  rw [h]

theorem leaderPhase_not_leader (c : Config) (s : NodeState) (now : Nat) (h : s.role ≠ .leader) :
    leaderPhase c s now = (s, []) := by
  rw [leaderPhase_eq, if_neg h]

theorem tick_observer (c : Config) (s : NodeState) (now rand : Nat) (h : Observer s) :
    Observer (tick c s now rand).1 ∧ noVote (tick c s now rand).2 := by
  obtain ⟨hs, hr⟩ := h
  have hnl : s.role ≠ .leader := by rw [hr]; decide
  have e1 := electionPhase_observer c s now rand hs
  have e2 := leaderPhase_not_leader c s now hnl
  refine ⟨⟨?_, ?_⟩, ?_⟩
  · rw [tick_fst, readyPhase_self, (applyEntries_frame c _ now).self, e1, e2]; exact hs
  · rw [tick_role, e1, e2]; exact hr
  · rw [tick_snd, e1, e2]
    apply noVote_append
    · apply noVote_append
      · apply noVote_append
        · exact noVote_nil
        · exact applyEntries_noVote c s now
      · unfold sendPhase
        rw [(applyEntries_frame c s now).role]
        rw [if_neg (fun h => hnl h.1)]
        exact noVote_nil
    · rcases readyPhase_outputs (applyEntries c s now).1 with h | h <;> rw [h]
      · exact noVote_nil
      · exact noVote_single rfl

theorem onMessage_observer (c : Config) (s : NodeState) (frm : Nat) (m : Msg) (now rand : Nat) (h : Observer s) :
    onMessage c s frm m now rand = (s, []) := by
  obtain ⟨hs, hr⟩ := h
  cases m with
  | requestVote t li lt => simp [onMessage, onRequestVote, hs]
  | responseVote t => simp [onMessage, onResponseVote, hr]
  | nextNodeIdx t reset next success => simp [onMessage, onNextNodeIdx, hr]

/-- **never_votes_never_leads**, one handler: a read-only follower stays a read-only follower and emits no
`request_vote` / `response_vote`, whatever the event. -/
theorem step_observer (c : Config) (s : NodeState) (e : Event) (h : Observer s) :
    Observer (step c s e).1 ∧ noVote (step c s e).2 := by
  cases e with
  | tick now rand => exact tick_observer c s now rand h
  | deliver frm m now rand =>
    show Observer (onMessage c s frm m now rand).1 ∧ noVote (onMessage c s frm m now rand).2
    rw [onMessage_observer c s frm m now rand h]
    exact ⟨h, noVote_nil⟩
  | connected n => exact ⟨h, noVote_nil⟩
  | disconnected n => exact ⟨h, noVote_nil⟩
  | roConnected n => exact ⟨h, noVote_nil⟩
  | roDisconnected n => exact ⟨h, noVote_nil⟩

/-- … over any sequence of events. -/
theorem run_observer (c : Config) (evs : List Event) :
    ∀ s, Observer s → Observer (run c s evs).1 ∧ noVote (run c s evs).2 := by
  induction evs with
  | nil => intro s h; exact ⟨h, noVote_nil⟩
  | cons e es ih =>
    intro s h
    obtain ⟨h1, h2⟩ := step_observer c s e h
    obtain ⟨h3, h4⟩ := ih _ h1
    exact ⟨h3, noVote_append h2 h4⟩

/-! ## observers are not counted -/

/-- The commit index a tick computes does not depend on the read-only set nor on match-index entries of
nodes outside the voter set. -/
theorem nextCommit_observers (s : NodeState) (r : List Nat) (m' : AMap)
    (h : ∀ n ∈ s.others, mgetD m' n = mgetD s.matchIndex n) :
    nextCommit { s with readonly := r, matchIndex := m' } = nextCommit s :=
  nextCommit_congr rfl h rfl rfl rfl

/-- The fallback decision does not depend on the read-only set nor on response times of non-voters. -/
theorem cutOff_observers (c : Config) (s : NodeState) (now : Nat) (r : List Nat) (m' : AMap)
    (h : ∀ n ∈ s.others, mgetD m' n = mgetD s.lastResponse n) :
    CutOff c { s with readonly := r, lastResponse := m' } now ↔ CutOff c s now := by
  unfold CutOff
  rw [show freshCount s.others m' now c.fallbackT = freshCount s.others s.lastResponse now c.fallbackT from
    freshCount_congr h now c.fallbackT]

/-- The whole leader branch of a tick (new commit index, step-down decision) is the same with and without
observers. -/
theorem leaderPhase_observers (c : Config) (s : NodeState) (now : Nat) (r : List Nat) (mi lr : AMap)
    (h1 : ∀ n ∈ s.others, mgetD mi n = mgetD s.matchIndex n)
    (h2 : ∀ n ∈ s.others, mgetD lr n = mgetD s.lastResponse n) :
    (leaderPhase c { s with readonly := r, matchIndex := mi, lastResponse := lr } now).1.commit = (leaderPhase c s now).1.commit ∧
    (leaderPhase c { s with readonly := r, matchIndex := mi, lastResponse := lr } now).1.role = (leaderPhase c s now).1.role ∧
    (leaderPhase c { s with readonly := r, matchIndex := mi, lastResponse := lr } now).1.leader = (leaderPhase c s now).1.leader := by
  have hn : nextCommit { s with readonly := r, matchIndex := mi, lastResponse := lr } = nextCommit s :=
    nextCommit_congr rfl h1 rfl rfl rfl
  have hf : freshCount s.others lr now c.fallbackT = freshCount s.others s.lastResponse now c.fallbackT :=
    freshCount_congr h2 now c.fallbackT
  rw [leaderPhase_eq, leaderPhase_eq]
  simp only [hn, hf]
  repeat' split
  all_goals exact ⟨rfl, rfl, rfl⟩

/-- `hasQuorum` does not depend on the read-only set nor on which non-voters are connected. -/
theorem hasQuorum_observers (s : NodeState) (r conn' : List Nat)
    (h : ∀ n ∈ s.others, (n ∈ conn' ↔ n ∈ s.connected)) :
    hasQuorum { s with readonly := r, connected := conn' } = hasQuorum s := by
  unfold hasQuorum
  have : s.others.filter (fun n => decide (n ∈ conn')) = s.others.filter (fun n => decide (n ∈ s.connected)) := by
    apply List.filter_congr
    intro n hn
    simp only [decide_eq_decide]
    exact h n hn
  simp only [this]

/-- The election majority test reads the vote counter and the number of voters only. -/
theorem electionMajority_observers (s : NodeState) (r : List Nat) (mi lr conn' : AMap) (cn : List Nat) :
    isMajority (({ s with readonly := r, matchIndex := mi, lastResponse := lr, nextIndex := conn', connected := cn } : NodeState).others.length + 1)
      ({ s with readonly := r, matchIndex := mi, lastResponse := lr, nextIndex := conn', connected := cn } : NodeState).votes =
    isMajority (s.others.length + 1) s.votes := rfl

/-- A read-only node (dis)connecting touches only its own table entries: every voter keeps its match index,
and the voter set, the response table, the log, term and commit index are untouched — so by the lemmas above
no majority computation changes, for any number of observers joining and leaving. -/
theorem roEvents_keep_voters (s : NodeState) (n : Nat) (hn : n ∉ s.others) :
    (onReadonlyConnected s n).others = s.others ∧ (onReadonlyDisconnected s n).others = s.others ∧
    (∀ k ∈ s.others, mgetD (onReadonlyConnected s n).matchIndex k = mgetD s.matchIndex k) ∧
    (∀ k ∈ s.others, mgetD (onReadonlyDisconnected s n).matchIndex k = mgetD s.matchIndex k) ∧
    (onReadonlyConnected s n).lastResponse = s.lastResponse ∧ (onReadonlyDisconnected s n).lastResponse = s.lastResponse ∧
    nextCommit (onReadonlyConnected s n) = nextCommit s ∧ nextCommit (onReadonlyDisconnected s n) = nextCommit s := by
  have h1 : ∀ k ∈ s.others, mgetD (onReadonlyConnected s n).matchIndex k = mgetD s.matchIndex k :=
    fun k hk => mgetD_mset_ne _ _ _ _ (fun (e : k = n) => hn (e ▸ hk))
  have h2 : ∀ k ∈ s.others, mgetD (onReadonlyDisconnected s n).matchIndex k = mgetD s.matchIndex k :=
    fun k hk => mgetD_mdel_ne _ _ _ (fun (e : k = n) => hn (e ▸ hk))
  exact ⟨rfl, rfl, h1, h2, rfl, rfl, nextCommit_congr rfl h1 rfl rfl rfl, nextCommit_congr rfl h2 rfl rfl rfl⟩

end PSO.NodeTick
