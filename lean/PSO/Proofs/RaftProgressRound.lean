import PSO.Proofs.RaftProgressCatchup

/-!
# Progress (C05), part 3: one full replication round of an established leader

`round`: a leader `c` whose term every voter has reached and whose log ends with an entry of its own
term brings, without any fault action, every voter to its exact log, commits the last entry with the
acknowledgements, applies, distributes the commit index, and every voter applies: `Converged`.
-/
namespace PSO.Raft

/-- The nodes a convergence statement talks about: a set `Q` of voters that can exchange messages
(a majority; all voters `0 … N-1` in the simplest case) and a list of connected read-only nodes
(observers; ids `≥ N`). -/
def InScope (Q obs : List Nat) (d : Nat) : Prop := d ∈ Q ∨ d ∈ obs

/-- The goal state of C05 on the connected voters `Q` and the observers `obs`: one leader, equal
logs, everything committed and applied everywhere. -/
structure Converged (N : Nat) (Q obs : List Nat) (s : State) (c : Nat) : Prop where
  cN : c < N
  cQ : c ∈ Q
  ldr : (s.nodes c).role = .leader
  flw : ∀ d, InScope Q obs d → d ≠ c → (s.nodes d).role = .follower
  term_eq : ∀ d, InScope Q obs d → (s.nodes d).term = (s.nodes c).term
  log_eq : ∀ d, InScope Q obs d → (s.nodes d).log = (s.nodes c).log
  commit_eq : ∀ d, InScope Q obs d → (s.nodes d).commit = (s.nodes c).log.length - 1
  applied_eq : ∀ d, InScope Q obs d → (s.nodes d).applied = (s.nodes c).log.length - 1

theorem noFault_of_forall {as : List Action} (h : as.all (fun a => !a.isFault) = true) : NoFault as := by
  intro a ha
  have := List.all_eq_true.mp h a ha
  simpa using this

/-- Full synchronisation of one follower and delivery of its acknowledgement. -/
theorem sync_block {N : Nat} {s : State} (hR : Reachable N s) {c d : Nat} (hc : c < N) (hd : d ≠ c)
    (hr : (s.nodes c).role = .leader) (hterm : (s.nodes d).term ≤ (s.nodes c).term)
    (hlast : termAt (s.nodes c).log ((s.nodes c).log.length - 1) = (s.nodes c).term) :
    ∃ as s', NoFault as ∧ run N s as = some s' ∧ Reachable N s' ∧
      (s'.nodes d).log = (s.nodes c).log ∧ (s'.nodes d).term = (s.nodes c).term ∧
      (s'.nodes d).role = .follower ∧
      (s'.nodes d).applied = (s.nodes d).applied ∧ (s'.nodes d).commit = (s.nodes d).commit ∧
      (∀ x, x ≠ d → x ≠ c → s'.nodes x = s.nodes x) ∧
      (∃ mi, s'.nodes c = { s.nodes c with matchIdx := mi } ∧ (s.nodes c).log.length - 1 ≤ mi d ∧
        ∀ x, (s.nodes c).matchIdx x ≤ mi x) := by
  have h := inv_reachable hR
  obtain ⟨s2, hrun2, hlog, hT, hrole, happ, hcm, hfr, hack, _⟩ :=
    full_sync (k := (s.nodes c).log.length) (c := 0) h hc hd hr hterm (Nat.zero_le _) (by omega) hlast
  have hc2 : s2.nodes c = s.nodes c := hfr c (fun e => hd e.symm)
  obtain ⟨s3, mi, hstep3, hfr3, hc3, hmi, hmix, hmid, _, _⟩ :=
    step_recvAck (N := N) (s := s2) (n := c) (t := (s.nodes c).term) (flw := d)
      (idx := (s.nodes c).log.length - 1) hc hack (by rw [hc2]; exact hr) (by rw [hc2])
  have hrun : run N s [.sendAppend c d 0 (s.nodes c).log.length 0,
      .recvAppend d (.append (s.nodes c).term c d 0 0 ((s.nodes c).log.drop 1) 0),
      .recvAck c (.ack (s.nodes c).term d c ((s.nodes c).log.length - 1))] = some s3 := by
    have := run_append_some hrun2 (run_one hstep3)
    simpa using this
  refine ⟨_, s3, noFault_of_forall (by simp [Action.isFault]), hrun, reachable_of_run hR hrun, ?_, ?_, ?_, ?_, ?_, ?_, ?_⟩
  · rw [hfr3 d hd]; exact hlog
  · rw [hfr3 d hd]; exact hT
  · rw [hfr3 d hd]; exact hrole
  · rw [hfr3 d hd]; exact happ
  · rw [hfr3 d hd, hcm]; simp
  · intro x hxd hxc; rw [hfr3 x hxc]; exact hfr x hxd
  · refine ⟨mi, by rw [hc3, hc2], hmi, fun x => ?_⟩
    by_cases hx : x = d
    · subst hx; rw [← hc2]; exact hmid
    · rw [hmix x hx, hc2]

/-- A heartbeat carrying the commit index to a follower that already holds the leader's log; the
follower commits and applies everything. -/
theorem heartbeat_block {N : Nat} {s : State} (hR : Reachable N s) {c d : Nat} (hc : c < N) (hd : d ≠ c)
    (hr : (s.nodes c).role = .leader) (hterm : (s.nodes d).term ≤ (s.nodes c).term)
    (hlog : (s.nodes d).log = (s.nodes c).log)
    (hcl : (s.nodes c).commit = (s.nodes c).log.length - 1) :
    ∃ as s', NoFault as ∧ run N s as = some s' ∧ Reachable N s' ∧
      (s'.nodes d).log = (s.nodes c).log ∧ (s'.nodes d).term = (s.nodes c).term ∧
      (s'.nodes d).role = .follower ∧
      (s'.nodes d).commit = (s.nodes c).log.length - 1 ∧ (s'.nodes d).applied = (s.nodes c).log.length - 1 ∧
      (∀ x, x ≠ d → s'.nodes x = s.nodes x) := by
  have h := inv_reachable hR
  have hLpos := log_pos h c
  obtain ⟨s2, hrun2, _, hlog2, _, hT, hrole, happ, hcm, hfr, _, _, _⟩ :=
    append_round (prev := (s.nodes c).log.length - 1) (k := 0) (c := (s.nodes c).log.length - 1)
      h hc hd hr hterm (by omega) (by omega) (by rw [hlog]; omega) (by rw [hlog])
  simp only [List.take_zero, List.length_nil, Nat.add_zero] at hlog2 hcm
  have hlog2' : (s2.nodes d).log = (s.nodes c).log := by
    rw [hlog2, ← hlog]; simp [mergeEntries]
  have hcd := h.s.cm_lt d
  have had := h.a d
  rw [hlog] at hcd
  have hcm' : (s2.nodes d).commit = (s.nodes c).log.length - 1 := by
    rw [hcm]; split <;> omega
  obtain ⟨s3, hrun3, hfr3, hn3, _, _⟩ := run_apply (N := N) d ((s.nodes c).log.length - 1 - (s.nodes d).applied) s2
    (by rw [happ, hcm']; omega)
  have hrun := run_append_some hrun2 hrun3
  refine ⟨_, s3, ?_, hrun, reachable_of_run hR hrun, ?_, ?_, ?_, ?_, ?_, ?_⟩
  · exact NoFault.append (noFault_of_forall (by simp [Action.isFault])) (NoFault.replicate rfl)
  · rw [hn3]; exact hlog2'
  · rw [hn3]; exact hT
  · rw [hn3]; exact hrole
  · rw [hn3]; exact hcm'
  · rw [hn3]; simp only []; rw [happ]; omega
  · intro x hx; rw [hfr3 x hx]; exact hfr x hx

theorem range_quorum {N : Nat} (hN : 0 < N) : IsQuorum N (List.range N) :=
  ⟨List.nodup_range, fun q hq => List.mem_range.mp hq, by simp; omega⟩

theorem round {N : Nat} {s : State} (Q obs : List Nat) (hQ : IsQuorum N Q) (hobs : ∀ o ∈ obs, N ≤ o)
    (hR : Reachable N s) {c : Nat} (hcQ : c ∈ Q) (hr : (s.nodes c).role = .leader)
    (hterm : ∀ d, InScope Q obs d → (s.nodes d).term ≤ (s.nodes c).term)
    (hlast : termAt (s.nodes c).log ((s.nodes c).log.length - 1) = (s.nodes c).term)
    (hcm : (s.nodes c).commit < (s.nodes c).log.length - 1) :
    ∃ as s', NoFault as ∧ run N s as = some s' ∧ Converged N Q obs s' c ∧
      (s'.nodes c).log = (s.nodes c).log ∧ (s'.nodes c).term = (s.nodes c).term ∧
      (∀ x, ¬ InScope Q obs x → s'.nodes x = s.nodes x) := by
  have hc : c < N := hQ.2.1 c hcQ
  obtain ⟨L, hL⟩ : ∃ L, (s.nodes c).log = L := ⟨_, rfl⟩
  obtain ⟨T, hT⟩ : ∃ T, (s.nodes c).term = T := ⟨_, rfl⟩
  rw [hL] at hlast hcm ⊢
  rw [hT] at hlast hterm ⊢
  have htargets : ∀ d ∈ Q.erase c ++ obs, InScope Q obs d ∧ d ≠ c := by
    intro d hd
    rcases List.mem_append.mp hd with h | h
    · exact ⟨Or.inl (List.mem_of_mem_erase h), fun e => ((List.Nodup.mem_erase_iff hQ.1).mp h).1 e⟩
    · exact ⟨Or.inr h, by have := hobs d h; omega⟩
  have hcover : ∀ d, InScope Q obs d → d ≠ c → d ∈ Q.erase c ++ obs := by
    intro d hd hdc
    rcases hd with h | h
    · exact List.mem_append_left _ ((List.mem_erase_of_ne hdc).mpr h)
    · exact List.mem_append_right _ h
  have hcS : InScope Q obs c := Or.inl hcQ
  -- phase A: synchronise every other voter / observer and collect the acknowledgements
  let IA : List Nat → State → Prop := fun rest s1 =>
    Reachable N s1 ∧ (s1.nodes c).role = .leader ∧ (s1.nodes c).term = T ∧ (s1.nodes c).log = L ∧
    (s1.nodes c).commit = (s.nodes c).commit ∧ (s1.nodes c).applied = (s.nodes c).applied ∧
    (∀ d, InScope Q obs d → (s1.nodes d).term ≤ T) ∧ (∀ d ∈ rest, InScope Q obs d ∧ d ≠ c) ∧
    (∀ d, InScope Q obs d → d ≠ c → d ∉ rest →
      (s1.nodes d).log = L ∧ (s1.nodes d).term = T ∧ L.length - 1 ≤ (s1.nodes c).matchIdx d) ∧
    (∀ x, ¬ InScope Q obs x → s1.nodes x = s.nodes x)
  have hA0 : IA (Q.erase c ++ obs) s :=
    ⟨hR, hr, hT, hL, rfl, rfl, hterm, htargets, fun d h1 h2 h3 => absurd (hcover d h1 h2) h3, fun _ _ => rfl⟩
  obtain ⟨asA, sA, hnfA, hrunA, hRA, hrA, hTA, hLA, hcmA, hapA, _, _, hdoneA, hframeA⟩ :=
    run_foreach (N := N) IA (by
      intro d rest s1 ⟨hR1, hr1, hT1, hL1, hcm1, hap1, hterm1, hrest1, hdone1, hframe1⟩
      obtain ⟨hdS, hdc⟩ := hrest1 d List.mem_cons_self
      obtain ⟨as, s2, hnf, hrun, hR2, hlog2, hterm2, _, _, _, hfr2, mi, hc2, hmi, hmono⟩ :=
        sync_block hR1 hc hdc hr1 (by rw [hT1]; exact hterm1 d hdS) (by rw [hL1, hT1]; exact hlast)
      refine ⟨as, s2, hnf, hrun, hR2, by rw [hc2]; exact hr1, by rw [hc2]; exact hT1, by rw [hc2]; exact hL1,
        by rw [hc2]; exact hcm1, by rw [hc2]; exact hap1, ?_, fun x hx => hrest1 x (List.mem_cons_of_mem _ hx), ?_, ?_⟩
      rotate_left 2
      · intro x hx
        rw [hfr2 x (fun e => hx (e ▸ hdS)) (fun e => hx (e ▸ hcS))]; exact hframe1 x hx
      · intro x hx
        by_cases hxd : x = d
        · subst hxd; rw [hterm2, hT1]
        · by_cases hxc : x = c
          · subst hxc; rw [hc2, hT1]
          · rw [hfr2 x hxd hxc]; exact hterm1 x hx
      · intro x hxS hxc hxr
        by_cases hxd : x = d
        · subst hxd
          refine ⟨by rw [hlog2, hL1], by rw [hterm2, hT1], ?_⟩
          rw [hc2]; simp only []; rw [← hL1]; exact hmi
        · obtain ⟨h1, h2, h3⟩ := hdone1 x hxS hxc (by simp [hxd, hxr])
          refine ⟨by rw [hfr2 x hxd hxc]; exact h1, by rw [hfr2 x hxd hxc]; exact h2, ?_⟩
          rw [hc2]; exact Nat.le_trans h3 (hmono x)) (Q.erase c ++ obs) s hA0
  have hdoneA' : ∀ d, InScope Q obs d → d ≠ c →
      (sA.nodes d).log = L ∧ (sA.nodes d).term = T ∧ L.length - 1 ≤ (sA.nodes c).matchIdx d :=
    fun d h1 h2 => hdoneA d h1 h2 (by simp)
  -- phase B: commit the last entry, apply on the leader
  have hinvA := inv_reachable hRA
  have hLpos : 0 < L.length := by rw [← hLA]; exact log_pos hinvA c
  have hstepB := commit_enabled (N := N) (s := sA) (l := c) (i := L.length - 1) hc hrA
    (by rw [hcmA]; exact hcm) (by rw [hLA]; omega) (by rw [hLA, hTA]; exact hlast) hQ
    (by
      intro q hq
      by_cases hqc : q = c
      · exact Or.inl hqc
      · exact Or.inr (hdoneA' q (Or.inl hq) hqc).2.2)
  have hapLe : (s.nodes c).applied ≤ L.length - 1 := by
    have := (inv_reachable hR).a c; omega
  obtain ⟨sB, hrunB2, hfrB, hnB, _, _⟩ := run_apply (N := N) c (L.length - 1 - (s.nodes c).applied)
    (setNode sA c { sA.nodes c with commit := L.length - 1 }) (by simp [hapA]; omega)
  have hrunB : run N sA (.advanceCommit c (L.length - 1) ::
      List.replicate (L.length - 1 - (s.nodes c).applied) (.apply c)) = some sB := run_cons_some hstepB hrunB2
  have hRB : Reachable N sB := reachable_of_run hRA hrunB
  have hcB : sB.nodes c = { sA.nodes c with commit := L.length - 1, applied := L.length - 1 } := by
    rw [hnB]; simp [hapA]; omega
  have hoB : ∀ x, x ≠ c → sB.nodes x = sA.nodes x := by
    intro x hx; rw [hfrB x hx]; simp [setNode, hx]
  -- phase C: heartbeat with the new commit index, followers apply
  let IC : List Nat → State → Prop := fun rest s1 =>
    Reachable N s1 ∧ (s1.nodes c).role = .leader ∧ (s1.nodes c).term = T ∧ (s1.nodes c).log = L ∧
    (s1.nodes c).commit = L.length - 1 ∧ (s1.nodes c).applied = L.length - 1 ∧
    (∀ d, InScope Q obs d → (s1.nodes d).term = T ∧ (s1.nodes d).log = L) ∧
    (∀ d ∈ rest, InScope Q obs d ∧ d ≠ c) ∧
    (∀ d, InScope Q obs d → d ≠ c → d ∉ rest →
      (s1.nodes d).role = .follower ∧ (s1.nodes d).commit = L.length - 1 ∧ (s1.nodes d).applied = L.length - 1) ∧
    (∀ x, ¬ InScope Q obs x → s1.nodes x = s.nodes x)
  have hC0 : IC (Q.erase c ++ obs) sB := by
    refine ⟨hRB, by rw [hcB]; exact hrA, by rw [hcB]; exact hTA, by rw [hcB]; exact hLA, by rw [hcB], by rw [hcB],
      ?_, htargets, fun d h1 h2 h3 => absurd (hcover d h1 h2) h3,
      fun x hx => by rw [hoB x (fun e => hx (e ▸ hcS))]; exact hframeA x hx⟩
    intro d hd
    by_cases hdc : d = c
    · subst hdc; rw [hcB]; exact ⟨hTA, hLA⟩
    · rw [hoB d hdc]; exact ⟨(hdoneA' d hd hdc).2.1, (hdoneA' d hd hdc).1⟩
  obtain ⟨asC, sC, hnfC, hrunC, hRC, hrC, hTC, hLC, hcmC, hapC, hallC, _, hdoneC, hframeC⟩ :=
    run_foreach (N := N) IC (by
      intro d rest s1 ⟨hR1, hr1, hT1, hL1, hcm1, hap1, hall1, hrest1, hdone1, hframe1⟩
      obtain ⟨hdS, hdc⟩ := hrest1 d List.mem_cons_self
      obtain ⟨as, s2, hnf, hrun, hR2, hlog2, hterm2, hrole2, hcm2, hap2, hfr2⟩ :=
        heartbeat_block hR1 hc hdc hr1 (by rw [(hall1 d hdS).1, hT1])
          (by rw [(hall1 d hdS).2, hL1]) (by rw [hcm1, hL1])
      have hc2 : s2.nodes c = s1.nodes c := hfr2 c (fun e => hdc e.symm)
      refine ⟨as, s2, hnf, hrun, hR2, by rw [hc2]; exact hr1, by rw [hc2]; exact hT1, by rw [hc2]; exact hL1,
        by rw [hc2]; exact hcm1, by rw [hc2]; exact hap1, ?_, fun x hx => hrest1 x (List.mem_cons_of_mem _ hx), ?_,
        fun x hx => by rw [hfr2 x (fun e => hx (e ▸ hdS))]; exact hframe1 x hx⟩
      · intro x hx
        by_cases hxd : x = d
        · subst hxd; exact ⟨by rw [hterm2, hT1], by rw [hlog2, hL1]⟩
        · rw [hfr2 x hxd]; exact hall1 x hx
      · intro x hxS hxc hxr
        by_cases hxd : x = d
        · subst hxd; exact ⟨hrole2, by rw [hcm2, hL1], by rw [hap2, hL1]⟩
        · rw [hfr2 x hxd]; exact hdone1 x hxS hxc (by simp [hxd, hxr])) (Q.erase c ++ obs) sB hC0
  have hrun : run N s (asA ++ ((.advanceCommit c (L.length - 1) ::
      List.replicate (L.length - 1 - (s.nodes c).applied) (.apply c)) ++ asC)) = some sC :=
    run_append_some hrunA (run_append_some hrunB hrunC)
  refine ⟨_, sC, ?_, hrun, ?_, hLC, hTC, hframeC⟩
  · exact hnfA.append ((NoFault.cons rfl (NoFault.replicate rfl)).append hnfC)
  · refine ⟨hc, hcQ, hrC, fun d h1 h2 => (hdoneC d h1 h2 (by simp)).1, fun d hd => by rw [(hallC d hd).1, hTC],
      fun d hd => by rw [(hallC d hd).2, hLC], ?_, ?_⟩
    · intro d hd
      by_cases hdc : d = c
      · subst hdc; rw [hcmC, hLC]
      · rw [(hdoneC d hd hdc (by simp)).2.1, hLC]
    · intro d hd
      by_cases hdc : d = c
      · subst hdc; rw [hapC, hLC]
      · rw [(hdoneC d hd hdc (by simp)).2.2, hLC]

end PSO.Raft
