import PSO.Proofs.NodeTickBasic

/-!
# C04, node-local half: the commit index and the applied index never move backwards while a node runs

Handler list covered (everything `PSO.NodeTick.step` models): `_onTick` (election-timeout branch, leader
branch incl. the commit-advance loop and the fallback check, `__applyLogEntries`, send decision, onReady),
`__onMessageReceived` for `request_vote` / `response_vote` / `next_node_idx` (incl. `__onBecomeLeader`),
`__onNodeConnected`, `__onNodeDisconnected`, `__onReadonlyNodeConnected`, `__onReadonlyNodeDisconnected`.
The `append_entries` handler (follower side) is owned by the trace-validated protocol model.
-/
namespace PSO.NodeTick
open PSO.Raft (Role isMajority)

/-! ## the commit-advance loop -/

theorem commitLoop_ge (others : List Nat) (m : AMap) (log : List Entry) (term : Nat) :
    ∀ fuel ci next, next ≤ ci → next ≤ commitLoop others m log term fuel ci next := by
  intro fuel
  induction fuel with
  | zero => intro ci next _; exact Nat.le_refl _
  | succ f ih =>
    intro ci next h
    simp only [commitLoop]
    split
    · split
      · exact Nat.le_trans (Nat.le_succ_of_le h) (ih (ci + 1) (ci + 1) (Nat.le_refl _))
      · exact ih (ci + 1) next (Nat.le_succ_of_le h)
    · exact Nat.le_refl _

/-- The loop returns its `next` argument or an index it examined. -/
theorem commitLoop_bounds (others : List Nat) (m : AMap) (log : List Entry) (term : Nat) :
    ∀ fuel ci next, commitLoop others m log term fuel ci next = next ∨
      (ci < commitLoop others m log term fuel ci next ∧ commitLoop others m log term fuel ci next ≤ ci + fuel) := by
  intro fuel
  induction fuel with
  | zero => intro ci next; exact Or.inl rfl
  | succ f ih =>
    intro ci next
    simp only [commitLoop]
    split
    · split
      · rcases ih (ci + 1) (ci + 1) with h | h
        · right; rw [h]; omega
        · right; omega
      · rcases ih (ci + 1) next with h | h
        · left; exact h
        · right; omega
    · exact Or.inl rfl

theorem nextCommit_ge (s : NodeState) : s.commit ≤ nextCommit s :=
  commitLoop_ge _ _ _ _ _ _ _ (Nat.le_refl _)

/-- The leader never commits beyond the end of its log (when the commit index is not already there). -/
theorem nextCommit_le (s : NodeState) : nextCommit s ≤ max s.commit (lastIdx s.log) := by
  unfold nextCommit
  rcases commitLoop_bounds s.others s.matchIndex s.log s.term (lastIdx s.log - s.commit) s.commit s.commit with h | h
  · rw [h]; exact Nat.le_max_left _ _
  · omega

/-! ## phases of the tick -/

/-- `leaderPhase` with the local definitions unfolded. -/
theorem leaderPhase_eq (c : Config) (s : NodeState) (now : Nat) :
    leaderPhase c s now =
      if s.role = .leader then
        if isMajority (s.others.length + 1) (freshCount s.others s.lastResponse now c.fallbackT) = true then
          ({ s with commit := nextCommit s, leaderCommit := some (nextCommit s) }, [])
        else
          ({ s with commit := nextCommit s, leaderCommit := some (nextCommit s), role := .follower, leader := none },
           if s.role = .follower then [] else [.stateChange s.role .follower])
      else (s, []) := rfl

theorem leaderPhase_commit (c : Config) (s : NodeState) (now : Nat) :
    (leaderPhase c s now).1.commit = if s.role = .leader then nextCommit s else s.commit := by
  rw [leaderPhase_eq]
  split
  · split <;> rfl
  · rfl

theorem leaderPhase_applied (c : Config) (s : NodeState) (now : Nat) :
    (leaderPhase c s now).1.lastApplied = s.lastApplied := by
  rw [leaderPhase_eq]
  split
  · split <;> rfl
  · rfl

theorem leaderPhase_commit_ge (c : Config) (s : NodeState) (now : Nat) : s.commit ≤ (leaderPhase c s now).1.commit := by
  rw [leaderPhase_commit]
  split
  · exact nextCommit_ge s
  · exact Nat.le_refl _

theorem electionPhase_commit (c : Config) (s : NodeState) (now rand : Nat) :
    (electionPhase c s now rand).1.commit = s.commit := by
  rcases electionPhase_cases c s now rand with h | h
  · rw [h]
  · exact h.2.2.2.1

theorem electionPhase_applied (c : Config) (s : NodeState) (now rand : Nat) :
    (electionPhase c s now rand).1.lastApplied = s.lastApplied := by
  rcases electionPhase_cases c s now rand with h | h
  · rw [h]
  · exact h.2.2.2.2.1

theorem tick_fst (c : Config) (s : NodeState) (now rand : Nat) :
    (tick c s now rand).1 =
      (readyPhase (applyEntries c (leaderPhase c (electionPhase c s now rand).1 now).1 now).1).1 := rfl

theorem tick_commit (c : Config) (s : NodeState) (now rand : Nat) :
    (tick c s now rand).1.commit = (leaderPhase c (electionPhase c s now rand).1 now).1.commit := by
  rw [tick_fst, readyPhase_commit, (applyEntries_frame c _ now).commit]

/-- `_onTick` never lowers the commit index. -/
theorem tick_commit_monotone (c : Config) (s : NodeState) (now rand : Nat) : s.commit ≤ (tick c s now rand).1.commit := by
  rw [tick_commit]
  calc s.commit = (electionPhase c s now rand).1.commit := (electionPhase_commit c s now rand).symm
    _ ≤ _ := leaderPhase_commit_ge c _ now

/-- `_onTick` never lowers the applied index. -/
theorem tick_applied_monotone (c : Config) (s : NodeState) (now rand : Nat) :
    s.lastApplied ≤ (tick c s now rand).1.lastApplied := by
  rw [tick_fst, readyPhase_applied]
  calc s.lastApplied = (electionPhase c s now rand).1.lastApplied := (electionPhase_applied c s now rand).symm
    _ = (leaderPhase c (electionPhase c s now rand).1 now).1.lastApplied := (leaderPhase_applied c _ now).symm
    _ ≤ _ := (applyEntries_frame c _ now).applied

/-! ## message handlers and connection callbacks leave both indices alone -/

theorem onRequestVote_indices (c : Config) (s : NodeState) (frm term li lt now rand : Nat) :
    (onRequestVote c s frm term li lt now rand).1.commit = s.commit ∧
    (onRequestVote c s frm term li lt now rand).1.lastApplied = s.lastApplied := by
  simp only [onRequestVote, setRole]
  repeat' split
  all_goals exact ⟨rfl, rfl⟩

theorem onResponseVote_indices (c : Config) (s : NodeState) (term now : Nat) :
    (onResponseVote c s term now).1.commit = s.commit ∧ (onResponseVote c s term now).1.lastApplied = s.lastApplied := by
  simp only [onResponseVote]
  repeat' split
  all_goals exact ⟨rfl, rfl⟩

theorem onNextNodeIdx_indices (s : NodeState) (frm : Nat) (term : Option Nat) (reset : Bool) (next : Nat)
    (success : Bool) (now : Nat) :
    (onNextNodeIdx s frm term reset next success now).1.commit = s.commit ∧
    (onNextNodeIdx s frm term reset next success now).1.lastApplied = s.lastApplied := by
  simp only [onNextNodeIdx]
  split
  · cases reset <;> cases success <;> simp only [if_true, if_false, Bool.false_eq_true]
    all_goals (repeat' split)
    all_goals first | exact ⟨rfl, rfl⟩ | exact ⟨trivial, trivial⟩
  · exact ⟨rfl, rfl⟩

theorem onMessage_indices (c : Config) (s : NodeState) (frm : Nat) (m : Msg) (now rand : Nat) :
    (onMessage c s frm m now rand).1.commit = s.commit ∧ (onMessage c s frm m now rand).1.lastApplied = s.lastApplied := by
  cases m with
  | requestVote t li lt => exact onRequestVote_indices c s frm t li lt now rand
  | responseVote t => exact onResponseVote_indices c s t now
  | nextNodeIdx t reset next success => exact onNextNodeIdx_indices s frm t reset next success now

/-- **C04 (node-local)** every modelled handler keeps `commit` from moving backwards. -/
theorem step_commit_monotone (c : Config) (s : NodeState) (e : Event) : s.commit ≤ (step c s e).1.commit := by
  cases e with
  | tick now rand => exact tick_commit_monotone c s now rand
  | deliver frm m now rand => exact Nat.le_of_eq (onMessage_indices c s frm m now rand).1.symm
  | connected n => exact Nat.le_refl _
  | disconnected n => exact Nat.le_refl _
  | roConnected n => exact Nat.le_refl _
  | roDisconnected n => exact Nat.le_refl _

/-- **C04 (node-local)** every modelled handler keeps `lastApplied` from moving backwards. -/
theorem step_applied_monotone (c : Config) (s : NodeState) (e : Event) : s.lastApplied ≤ (step c s e).1.lastApplied := by
  cases e with
  | tick now rand => exact tick_applied_monotone c s now rand
  | deliver frm m now rand => exact Nat.le_of_eq (onMessage_indices c s frm m now rand).2.symm
  | connected n => exact Nat.le_refl _
  | disconnected n => exact Nat.le_refl _
  | roConnected n => exact Nat.le_refl _
  | roDisconnected n => exact Nat.le_refl _

/-- Over any sequence of modelled events the commit index only advances. -/
theorem run_commit_monotone (c : Config) (evs : List Event) : ∀ s, s.commit ≤ (run c s evs).1.commit := by
  induction evs with
  | nil => intro s; exact Nat.le_refl _
  | cons e es ih => intro s; exact Nat.le_trans (step_commit_monotone c s e) (ih _)

/-- Over any sequence of modelled events the applied index only advances. -/
theorem run_applied_monotone (c : Config) (evs : List Event) : ∀ s, s.lastApplied ≤ (run c s evs).1.lastApplied := by
  induction evs with
  | nil => intro s; exact Nat.le_refl _
  | cons e es ih => intro s; exact Nat.le_trans (step_applied_monotone c s e) (ih _)

/-- Only a tick moves either index (messages of the three modelled kinds and connection events do not). -/
theorem step_indices_of_not_tick (c : Config) (s : NodeState) (e : Event) (h : ∀ now rand, e ≠ .tick now rand) :
    (step c s e).1.commit = s.commit ∧ (step c s e).1.lastApplied = s.lastApplied := by
  cases e with
  | tick now rand => exact absurd rfl (h now rand)
  | deliver frm m now rand => exact onMessage_indices c s frm m now rand
  | connected n => exact ⟨rfl, rfl⟩
  | disconnected n => exact ⟨rfl, rfl⟩
  | roConnected n => exact ⟨rfl, rfl⟩
  | roDisconnected n => exact ⟨rfl, rfl⟩

end PSO.NodeTick
