import PSO.Proofs.BridgeFollower
import PSO.Proofs.NodeSendBasic

/-!
# Bridge, part 8: a snapshot `append_entries` message ⊑ `recvSnapshot`

Handler model: `PSO.NodeSend.appendMsgEnv … (.snapshot d)` (correspondence-tested, driver op `appendmsg`): the
envelope (`envState`, `envExtra`, `envOuts`), `installSnapshot` = `__loadDumpFile(clearJournal=True)` with the D4
keep-log guard, the success reply and the commit update.

**Abstraction of the commit index.**  After an install the real node has `lastApplied = K` (the snapshot's index)
while `commitIndex = max(commit, min(leaderCommit, K))` may stay BELOW `K` (`leaderCommit < K`); the protocol model
sets `commit := max commit' k`.  So `commit − 1` (`absNodeS`) does not commute with the model's install in that
case (`snapshot_commit_lags`), and the theorems here are stated for

    `absNodeM ghost x s = { absNodeS ghost x s with commit := max s.commit s.lastApplied − 1 }`

— the abstraction of `harness/corr/core_trace.py` (`max(raftCommitIndex, raftLastApplied) − 1`).  It commutes in
every case (install and keep, whatever `leaderCommit`).  When `lastApplied ≤ commit` it is `absNodeS`
(`absNodeM_eq`), and `snapshot_refines_S` restates the result for `absNodeS` under `lastApplied ≤ commit` and
`K ≤ leaderCommit`.

**Ghost.**  Install: the journal becomes `[prevE, lastE]`; the ghost-complete model log becomes the message's `pfx`.
The new ghost `ghost'` is whatever makes `ghost' ++ absLogS [prevE, lastE] = pfx` with `|ghost'| + 1 = prevE.idx`
(hypotheses on the message: its `pfx` ends with the two dumped entries and has length `K`, as the model's
`sendSnapshot` produces it).  Keep: ghost unchanged.
-/
namespace PSO.Bridge
open PSO
open PSO.NodeSend

/-! ## abstraction with the harness's commit position -/

def absNodeM (ghost : List Raft.Entry) (x : Extra) (s : Node) : Raft.NodeSt :=
  { absNodeS ghost x s with commit := max s.commit s.lastApplied - 1 }

theorem absNodeM_eq (ghost : List Raft.Entry) (x : Extra) (s : Node) (h : s.lastApplied ≤ s.commit) :
    absNodeM ghost x s = absNodeS ghost x s := by
  unfold absNodeM
  have : max s.commit s.lastApplied - 1 = (absNodeS ghost x s).commit := by
    show max s.commit s.lastApplied - 1 = s.commit - 1
    omega
  rw [this]

theorem env_absM (ghost : List Raft.Entry) (x : Extra) (s : Node) (src t : Nat) :
    absNodeM ghost (envExtra x s t) (envState s src t) = Raft.adoptTerm (absNodeM ghost x s) t := by
  unfold Raft.adoptTerm envExtra envState
  have e : (absNodeM ghost x s).term = s.term := rfl
  rw [e]
  by_cases hlt : s.term < t
  · simp only [if_pos hlt]; rfl
  · simp only [if_neg hlt]; rfl

theorem absOutsS_map_callback {α : Type} (n : Nat) (l : List α) (f : α → Nat) (r : FailReason) :
    absOutsS n (l.map fun p => Out.callback (f p) r) = [] := by
  induction l with
  | nil => rfl
  | cons p rest ih => simp [absOutsS, absOutS]

/-! ## commit arithmetic (real indices vs. positions, `max(commit, lastApplied)`) -/

theorem commit_keep_arith (a L lc K : Nat) (hL : 1 ≤ L) (hK : 1 ≤ K) :
    max (if a < lc then max a (min lc K) else a) L - 1 =
      (if max a L - 1 < lc - 1 then max (max a L - 1) (min (lc - 1) (K - 1)) else max a L - 1) := by
  split <;> split <;> omega

theorem commit_install_arith (a L lc K : Nat) (hL : 1 ≤ L) (hLK : L < K) :
    max (if a < lc then max a (min lc K) else a) K - 1 =
      max (if max a L - 1 < lc - 1 then max (max a L - 1) (min (lc - 1) (K - 1)) else max a L - 1) (K - 1) := by
  split <;> split <;> omega

/-! ## `installSnapshot` without dynamic membership -/

/-- the node holds the snapshot's last entry (same index, same term) -/
def snapHeld (s : Node) (lastE : NodeSend.Entry) : Bool :=
  match getEntries s.log (some lastE.idx) (some 1) none with
  | some (e :: _) => e.term == lastE.term
  | _ => false

/-- repair D4: the snapshot is NOT installed -/
def snapKeeps (s : Node) (lastE : NodeSend.Entry) : Bool := decide (lastE.idx ≤ s.lastApplied) || snapHeld s lastE

theorem installSnapshot_eq (cfg : Conf) (hdyn : cfg.dynMember = false) (s : Node) (hne : s.log ≠ [])
    (prevE lastE : NodeSend.Entry) (cluster : List Nat) :
    installSnapshot cfg s prevE lastE cluster =
      if snapKeeps s lastE = true then (s, [], some lastE.idx)
      else ((coveredCallbacks { s with log := [prevE, lastE], lastApplied := lastE.idx } lastE.idx).1,
            (coveredCallbacks { s with log := [prevE, lastE], lastApplied := lastE.idx } lastE.idx).2, some lastE.idx) := by
  unfold installSnapshot snapKeeps snapHeld
  cases hg : getEntries s.log (some lastE.idx) (some 1) none with
  | none =>
    exfalso
    unfold getEntries at hg
    cases hl : s.log with
    | nil => exact hne hl
    | cons e0 t =>
      rw [hl] at hg
      simp only at hg
      split at hg <;> cases hg
  | some own =>
    cases own with
    | nil => simp only [hdyn, Bool.false_eq_true, if_false]
    | cons e r => simp only [hdyn, Bool.false_eq_true, if_false]

/-- the keep test on the journal = the protocol model's keep test on the ghost-complete log -/
theorem snapKeeps_abs (ghost : List Raft.Entry) (s : Node) {first : Nat} (hgh : ghost.length + 1 = first)
    (hne : s.log ≠ []) (hidx : IdxOK first s.log) (lastE : NodeSend.Entry) (hK : 1 ≤ lastE.idx)
    (hcomp : first ≤ s.lastApplied + 1) (hla : 1 ≤ s.lastApplied) :
    snapKeeps s lastE =
      (decide (lastE.idx - 1 ≤ s.lastApplied - 1) ||
        (decide (lastE.idx - 1 < (ghost ++ absLogS s.log).length) &&
         decide (Raft.termAt (ghost ++ absLogS s.log) (lastE.idx - 1) = lastE.term))) := by
  unfold snapKeeps
  by_cases hap : lastE.idx ≤ s.lastApplied
  · have : lastE.idx - 1 ≤ s.lastApplied - 1 := by omega
    simp [hap, this]
  · have hap' : ¬ lastE.idx - 1 ≤ s.lastApplied - 1 := by omega
    have hge : first ≤ lastE.idx := by omega
    simp only [hap, hap', decide_false, Bool.false_or]
    have hlenA : (ghost ++ absLogS s.log).length = ghost.length + s.log.length := by simp [absLogS]
    have hpos : lastE.idx - 1 = ghost.length + (lastE.idx - first) := by omega
    have hget : getEntries s.log (some lastE.idx) (some 1) none = some ((s.log.drop (lastE.idx - first)).take 1) := by
      have := getEntries_from hne hidx (lastE.idx - first) (some 1) none
      have e : first + (lastE.idx - first) = lastE.idx := by omega
      rw [e] at this
      exact this
    unfold snapHeld
    rw [hget]
    by_cases hlt : lastE.idx - first < s.log.length
    · have hp0 : s.log[lastE.idx - first]? = some s.log[lastE.idx - first] := List.getElem?_eq_getElem hlt
      have hd : (s.log.drop (lastE.idx - first)).take 1 = [s.log[lastE.idx - first]] := by
        rw [List.take_one, List.head?_drop, hp0]; rfl
      have hta := termAt_ghost ghost s.log (lastE.idx - first) _ hp0
      rw [← hpos] at hta
      rw [hd, hta, hlenA]
      have : lastE.idx - 1 < ghost.length + s.log.length := by omega
      simp only [this, decide_true, Bool.true_and]
      by_cases ht : s.log[lastE.idx - first].term = lastE.term
      · simp [ht]
      · simp [ht]
    · have hd : (s.log.drop (lastE.idx - first)).take 1 = [] := by
        rw [List.drop_eq_nil_of_le (by omega)]; rfl
      rw [hd, hlenA]
      have : ¬ lastE.idx - 1 < ghost.length + s.log.length := by omega
      simp [this]

/-! ## node-level reading of `recvSnapshot` -/

def snapNode (ns : Raft.NodeSt) (t k kTerm c : Nat) (pfx : List Raft.Entry) : Raft.NodeSt × Bool :=
  if t < ns.term then (ns, false)
  else
    (if (decide (k ≤ (Raft.adoptTerm ns t).applied) ||
          (decide (k < (Raft.adoptTerm ns t).log.length) && decide (Raft.termAt (Raft.adoptTerm ns t).log k = kTerm))) = true
     then { Raft.adoptTerm ns t with
              commit := if (Raft.adoptTerm ns t).commit < c then max (Raft.adoptTerm ns t).commit (min c k)
                        else (Raft.adoptTerm ns t).commit }
     else { Raft.adoptTerm ns t with
              log := pfx, applied := k
              commit := max (if (Raft.adoptTerm ns t).commit < c then max (Raft.adoptTerm ns t).commit (min c k)
                             else (Raft.adoptTerm ns t).commit) k }, true)

theorem step_recvSnapshot (N : Nat) (S : Raft.State) (n t ldr k kTerm c : Nat) (pfx : List Raft.Entry)
    (hm : Raft.Msg.snapshot t ldr n k kTerm c pfx ∈ S.msgs) :
    ∃ S', Raft.step N S (.recvSnapshot n (.snapshot t ldr n k kTerm c pfx)) = some S' ∧
      S'.nodes n = (snapNode (S.nodes n) t k kTerm c pfx).1 ∧ (∀ j, j ≠ n → S'.nodes j = S.nodes j) ∧
      S'.msgs = S.msgs.erase (.snapshot t ldr n k kTerm c pfx) ++
        (if (snapNode (S.nodes n) t k kTerm c pfx).2 then [Raft.Msg.ack t n ldr k] else []) := by
  simp only [Raft.step, hm, and_self, if_true, snapNode]
  by_cases hst : t < (S.nodes n).term
  · simp only [if_pos hst]
    exact ⟨_, rfl, rfl, fun _ _ => rfl, by simp⟩
  · simp only [if_neg hst]
    refine ⟨_, rfl, ?_, ?_, ?_⟩
    · simp [Raft.setNode]
    · intro j hj; simp [Raft.setNode, hj]
    · simp

theorem adoptTerm_frame' (ns : Raft.NodeSt) (t : Nat) :
    (Raft.adoptTerm ns t).log = ns.log ∧ (Raft.adoptTerm ns t).commit = ns.commit ∧
    (Raft.adoptTerm ns t).applied = ns.applied := by
  unfold Raft.adoptTerm
  split <;> exact ⟨rfl, rfl, rfl⟩

/-! ## a complete snapshot through the whole handler (node level) -/

/-- **A complete snapshot message refines `recvSnapshot`** (node level, abstraction `absNodeM`).  Dump entries
`prevE`, `lastE` (`K = lastE.idx`), message term `t`, leader commit `lc`; model message
`snapshot t src n (K − 1) lastE.term (lc − 1) pfx`.  Stale term: nothing.  Otherwise `adoptTerm`, then — D4 guard,
`snapKeeps` = the model's `keep` (`snapKeeps_abs`) — either the log stays and `commit := commit'`, or
`log := pfx`, `applied := K − 1`, `commit := max commit' (K − 1)`; the success reply `next_node_idx = K + 1` is
`ack t n src (K − 1)`; the LEADER_CHANGED callbacks (`envOuts`, `coveredCallbacks`) are no model message. -/
theorem snapshotEnv_abs (cfg : Conf) (hdyn : cfg.dynMember = false) (x : Extra) (s : Node) (src n t lc : Nat)
    {first : Nat} (ghost ghost' : List Raft.Entry) (hgh : ghost.length + 1 = first) (hne : s.log ≠ [])
    (hidx : IdxOK first s.log) (prevE lastE : NodeSend.Entry) (cluster : List Nat) (pfx : List Raft.Entry)
    (hK : 1 ≤ lastE.idx) (hcomp : first ≤ s.lastApplied + 1) (hla : 1 ≤ s.lastApplied)
    (hpfx : pfx = ghost' ++ absLogS [prevE, lastE]) :
    ∃ x' s' outs obs,
      appendMsgEnv cfg x s src t lc (.snapshot (.complete prevE lastE cluster)) = (x', s', .ok outs, obs) ∧
      absNodeM (if t < s.term ∨ snapKeeps s lastE = true then ghost else ghost') x' s' =
        (snapNode (absNodeM ghost x s) t (lastE.idx - 1) lastE.term (lc - 1) pfx).1 ∧
      absOutsS n outs = (if (snapNode (absNodeM ghost x s) t (lastE.idx - 1) lastE.term (lc - 1) pfx).2
        then [Raft.Msg.ack t n src (lastE.idx - 1)] else []) := by
  unfold snapNode
  have eterm : (absNodeM ghost x s).term = s.term := rfl
  rw [eterm]
  by_cases hst : t < s.term
  · rw [appendMsgEnv_stale cfg x s src t lc _ hst]
    simp only [if_pos hst]
    refine ⟨x, s, [], {}, rfl, ?_, rfl⟩
    rw [if_pos (Or.inl hst)]
  · simp only [if_neg hst]
    obtain ⟨hl, hcm, hap⟩ := adoptTerm_frame' (absNodeM ghost x s) t
    have elog : (absNodeM ghost x s).log = ghost ++ absLogS s.log := rfl
    have eapp : (absNodeM ghost x s).applied = s.lastApplied - 1 := rfl
    have ecom : (absNodeM ghost x s).commit = max s.commit s.lastApplied - 1 := rfl
    rw [hl, hcm, hap, elog, eapp, ecom, ← snapKeeps_abs ghost s hgh hne hidx lastE hK hcomp hla]
    have hne0 : (envState s src t).log ≠ [] := hne
    have hkeep0 : snapKeeps (envState s src t) lastE = snapKeeps s lastE := rfl
    have hinst := installSnapshot_eq cfg hdyn (envState s src t) hne0 prevE lastE cluster
    rw [hkeep0] at hinst
    unfold appendMsgEnv
    simp only [if_neg hst, hinst]
    by_cases hk : snapKeeps s lastE = true
    · -- D4: keep the log
      simp only [if_pos hk, if_pos (Or.inr hk : t < s.term ∨ snapKeeps s lastE = true)]
      refine ⟨_, _, _, _, rfl, ?_, ?_⟩
      · rw [← env_absM ghost x s src t]
        apply nodeSt_ext
        · rfl
        · rfl
        · rfl
        · rfl
        · rfl
        · exact commit_keep_arith s.commit s.lastApplied lc lastE.idx hla hK
        · rfl
        · rfl
      · rw [absOutsS_append, absOutsS_append, absOutsS_envOuts, envState_term s src t hst]
        show [Raft.Msg.ack t n src (lastE.idx + 1 - 2)] = _
        have : lastE.idx + 1 - 2 = lastE.idx - 1 := by omega
        rw [this, if_pos trivial]
    · -- install
      have hnk : ¬ (t < s.term ∨ snapKeeps s lastE = true) := fun g => g.elim hst hk
      simp only [if_neg hk, if_neg hnk]
      have hLK : s.lastApplied < lastE.idx := by
        rcases Nat.lt_or_ge s.lastApplied lastE.idx with h | h
        · exact h
        · exfalso; apply hk; unfold snapKeeps; simp [h]
      refine ⟨_, _, _, _, rfl, ?_, ?_⟩
      · rw [← env_absM ghost x s src t]
        apply nodeSt_ext
        · rfl
        · rfl
        · rfl
        · rfl
        · show ghost' ++ absLogS [prevE, lastE] = pfx
          rw [hpfx]
        · exact commit_install_arith s.commit s.lastApplied lc lastE.idx hla hLK
        · rfl
        · rfl
      · rw [absOutsS_append, absOutsS_append, absOutsS_envOuts]
        have hcb : absOutsS n (coveredCallbacks { envState s src t with log := [prevE, lastE], lastApplied := lastE.idx } lastE.idx).2 = [] := by
          unfold coveredCallbacks
          exact absOutsS_map_callback n _ _ _
        rw [hcb]
        show [Raft.Msg.ack (envState s src t).term n src (lastE.idx + 1 - 2)] = _
        rw [envState_term s src t hst]
        have : lastE.idx + 1 - 2 = lastE.idx - 1 := by omega
        rw [this, if_pos trivial]

/-- **A partial / empty / broken snapshot message** (`notLast`, `none`, `broken`): only the envelope acts — on the
abstraction `adoptTerm` (= the model's `observeTerm n t`), no reply, no model message. -/
theorem snapshotEnv_partial_abs (cfg : Conf) (x : Extra) (s : Node) (src n t lc : Nat) (ghost : List Raft.Entry)
    (d : SnapMsg) (hd : ∀ p l c, d ≠ .complete p l c) (hst : ¬ t < s.term) :
    ∃ x' s' outs obs, appendMsgEnv cfg x s src t lc (.snapshot d) = (x', s', .ok outs, obs) ∧
      absNodeM ghost x' s' = Raft.adoptTerm (absNodeM ghost x s) t ∧ absOutsS n outs = [] := by
  unfold appendMsgEnv
  simp only [if_neg hst]
  cases d with
  | complete p l c => exact absurd rfl (hd p l c)
  | none =>
    refine ⟨_, _, _, _, rfl, ?_, ?_⟩
    · rw [← env_absM ghost x s src t]
    · simp only [List.append_nil]; exact absOutsS_envOuts n s src
  | notLast =>
    refine ⟨_, _, _, _, rfl, ?_, ?_⟩
    · rw [← env_absM ghost x s src t]
    · simp only [List.append_nil]; exact absOutsS_envOuts n s src
  | broken =>
    refine ⟨_, _, _, _, rfl, ?_, ?_⟩
    · rw [← env_absM ghost x s src t]
    · simp only [List.append_nil]; exact absOutsS_envOuts n s src

/-- journal, applied index and commit index after a complete snapshot message of a non-stale term -/
theorem snapshotEnv_state (cfg : Conf) (hdyn : cfg.dynMember = false) (x : Extra) (s : Node) (src t lc : Nat)
    (hne : s.log ≠ []) (prevE lastE : NodeSend.Entry) (cluster : List Nat) (hst : ¬ t < s.term) :
    (appendMsgEnv cfg x s src t lc (.snapshot (.complete prevE lastE cluster))).2.1.log =
      (if snapKeeps s lastE = true then s.log else [prevE, lastE]) ∧
    (appendMsgEnv cfg x s src t lc (.snapshot (.complete prevE lastE cluster))).2.1.lastApplied =
      (if snapKeeps s lastE = true then s.lastApplied else lastE.idx) ∧
    (appendMsgEnv cfg x s src t lc (.snapshot (.complete prevE lastE cluster))).2.1.commit =
      (if s.commit < lc then max s.commit (min lc lastE.idx) else s.commit) := by
  have hne0 : (envState s src t).log ≠ [] := hne
  have hkeep0 : snapKeeps (envState s src t) lastE = snapKeeps s lastE := rfl
  have hinst := installSnapshot_eq cfg hdyn (envState s src t) hne0 prevE lastE cluster
  rw [hkeep0] at hinst
  unfold appendMsgEnv
  simp only [if_neg hst, hinst]
  by_cases hk : snapKeeps s lastE = true
  · simp only [if_pos hk]; exact ⟨rfl, rfl, rfl⟩
  · simp only [if_neg hk]; exact ⟨rfl, rfl, rfl⟩

/-- the installed journal is contiguous from `prevE.idx` when the dump's two entries are consecutive -/
theorem install_idxOK (prevE lastE : NodeSend.Entry) (h : lastE.idx = prevE.idx + 1) :
    IdxOK prevE.idx [prevE, lastE] := by
  intro i e he
  match i, he with
  | 0, he => cases he; rfl
  | 1, he => cases he; exact h
  | k + 2, he => simp at he

/-! ## cluster level -/

/-- **`snapshot_refines`.**  A complete snapshot message handled by `appendMsgEnv` ⊑ `recvSnapshot`
(abstraction `absNodeM`; no `n < N` needed: observers receive snapshots too). -/
theorem snapshot_refines (cfg : Conf) (hdyn : cfg.dynMember = false) (x : Extra) (s : Node) (src t lc : Nat)
    {first : Nat} (ghost ghost' : List Raft.Entry) (hgh : ghost.length + 1 = first) (hne : s.log ≠ [])
    (hidx : IdxOK first s.log) (prevE lastE : NodeSend.Entry) (cluster : List Nat) (pfx : List Raft.Entry)
    (hK : 1 ≤ lastE.idx) (hcomp : first ≤ s.lastApplied + 1) (hla : 1 ≤ s.lastApplied)
    (hpfx : pfx = ghost' ++ absLogS [prevE, lastE])
    (N n : Nat) (S : Raft.State) (habs : S.nodes n = absNodeM ghost x s)
    (hm : Raft.Msg.snapshot t src n (lastE.idx - 1) lastE.term (lc - 1) pfx ∈ S.msgs) :
    ∃ x' s' outs obs S',
      appendMsgEnv cfg x s src t lc (.snapshot (.complete prevE lastE cluster)) = (x', s', .ok outs, obs) ∧
      Raft.step N S (.recvSnapshot n (.snapshot t src n (lastE.idx - 1) lastE.term (lc - 1) pfx)) = some S' ∧
      S'.nodes n = absNodeM (if t < s.term ∨ snapKeeps s lastE = true then ghost else ghost') x' s' ∧
      (∀ j, j ≠ n → S'.nodes j = S.nodes j) ∧
      S'.msgs = S.msgs.erase (.snapshot t src n (lastE.idx - 1) lastE.term (lc - 1) pfx) ++ absOutsS n outs := by
  obtain ⟨x', s', outs, obs, henv, a1, a2⟩ :=
    snapshotEnv_abs cfg hdyn x s src n t lc ghost ghost' hgh hne hidx prevE lastE cluster pfx hK hcomp hla hpfx
  obtain ⟨S', hstep, h1, h2, h3⟩ := step_recvSnapshot N S n t src (lastE.idx - 1) lastE.term (lc - 1) pfx hm
  refine ⟨x', s', outs, obs, S', henv, hstep, ?_, h2, ?_⟩
  · rw [h1, habs, a1]
  · rw [h3, habs, a2]

/-- **`snapshot_partial_refines`.**  A snapshot chunk that is not the last one, a `serialized: None` message, or a
last chunk whose dump does not load: ⊑ `observeTerm n t` (term / role / leader envelope only; no reply, no model
message).  Stale term: `appendMsgEnv_stale` (nothing at all). -/
theorem snapshot_partial_refines (cfg : Conf) (x : Extra) (s : Node) (src t lc : Nat) (ghost : List Raft.Entry)
    (d : SnapMsg) (hd : ∀ p l c, d ≠ .complete p l c) (hst : ¬ t < s.term)
    (N n : Nat) (S : Raft.State) (habs : S.nodes n = absNodeM ghost x s) :
    ∃ x' s' outs obs, appendMsgEnv cfg x s src t lc (.snapshot d) = (x', s', .ok outs, obs) ∧
      Raft.step N S (.observeTerm n t) = some (Raft.setNode S n (absNodeM ghost x' s')) ∧ absOutsS n outs = [] := by
  obtain ⟨x', s', outs, obs, henv, a1, a2⟩ := snapshotEnv_partial_abs cfg x s src n t lc ghost d hd hst
  refine ⟨x', s', outs, obs, henv, ?_, a2⟩
  have hg : (S.nodes n).term ≤ t := by
    rw [habs]; show s.term ≤ t; omega
  simp only [Raft.step, if_pos hg]
  rw [habs, a1]

/-- **`snapshot_refines_S`.**  The same for the plain abstraction `absNodeS` (`commit − 1`), which commutes when the
node's commit index is not behind its applied index and the message's commit index covers the snapshot
(`K ≤ leaderCommit`); without the latter see `snapshot_commit_lags` in `BridgeTheorems.lean`. -/
theorem snapshot_refines_S (cfg : Conf) (hdyn : cfg.dynMember = false) (x : Extra) (s : Node) (src t lc : Nat)
    {first : Nat} (ghost ghost' : List Raft.Entry) (hgh : ghost.length + 1 = first) (hne : s.log ≠ [])
    (hidx : IdxOK first s.log) (prevE lastE : NodeSend.Entry) (cluster : List Nat) (pfx : List Raft.Entry)
    (hK : 1 ≤ lastE.idx) (hcomp : first ≤ s.lastApplied + 1) (hla : 1 ≤ s.lastApplied)
    (hpfx : pfx = ghost' ++ absLogS [prevE, lastE]) (hinv : s.lastApplied ≤ s.commit) (hlc : lastE.idx ≤ lc)
    (N n : Nat) (S : Raft.State) (habs : S.nodes n = absNodeS ghost x s)
    (hm : Raft.Msg.snapshot t src n (lastE.idx - 1) lastE.term (lc - 1) pfx ∈ S.msgs) :
    ∃ x' s' outs obs S',
      appendMsgEnv cfg x s src t lc (.snapshot (.complete prevE lastE cluster)) = (x', s', .ok outs, obs) ∧
      Raft.step N S (.recvSnapshot n (.snapshot t src n (lastE.idx - 1) lastE.term (lc - 1) pfx)) = some S' ∧
      S'.nodes n = absNodeS (if t < s.term ∨ snapKeeps s lastE = true then ghost else ghost') x' s' ∧
      s'.lastApplied ≤ s'.commit ∧
      (∀ j, j ≠ n → S'.nodes j = S.nodes j) ∧
      S'.msgs = S.msgs.erase (.snapshot t src n (lastE.idx - 1) lastE.term (lc - 1) pfx) ++ absOutsS n outs := by
  rw [← absNodeM_eq ghost x s hinv] at habs
  obtain ⟨x', s', outs, obs, S', henv, hstep, h1, h2, h3⟩ :=
    snapshot_refines cfg hdyn x s src t lc ghost ghost' hgh hne hidx prevE lastE cluster pfx hK hcomp hla hpfx N n S habs hm
  have hinv' : s'.lastApplied ≤ s'.commit := by
    by_cases hst : t < s.term
    · rw [appendMsgEnv_stale cfg x s src t lc _ hst] at henv
      cases henv
      exact hinv
    · obtain ⟨_, e2, e3⟩ := snapshotEnv_state cfg hdyn x s src t lc hne prevE lastE cluster hst
      rw [henv] at e2 e3
      simp only at e2 e3
      rw [e2, e3]
      split <;> split <;> omega
  refine ⟨x', s', outs, obs, S', henv, hstep, ?_, hinv', h2, h3⟩
  rw [h1, absNodeM_eq _ x' s' hinv']

/-! ## send side -/

/-- the guard of `sendSnapshot`, spelled out.  NOTE (finding F8): the handler model of the send loop
(`PSO.NodeSend.sendLoop`, batch `.snapshot ans`, message `Msg.snap term commit ans`) carries only the serializer's
answer (`none` / not last / last) — the dump's index `k` and content are outside it, so that "the burst is ONE
enabled `sendSnapshot n dst k c`" cannot be derived from the handler model: `k ≤ applied ∧ k < |log|` are facts about
the serializer's dump.  Given them the action is enabled and produces the message `snapshot_refines` consumes. -/
theorem step_sendSnapshot (N : Nat) (S : Raft.State) (n dst k c : Nat)
    (hg : n < N ∧ dst ≠ n ∧ (S.nodes n).role = .leader ∧ k ≤ (S.nodes n).applied ∧ k < (S.nodes n).log.length ∧
      c ≤ (S.nodes n).commit) :
    Raft.step N S (.sendSnapshot n dst k c) =
      some { S with msgs := S.msgs ++ [Raft.Msg.snapshot (S.nodes n).term n dst k (Raft.termAt (S.nodes n).log k) c
        ((S.nodes n).log.take (k + 1))] } := by
  simp only [Raft.step, if_pos hg]

/-- on the wire only the answer travels: a snapshot batch renders to one `snap` message, which `absMsgS` maps to no
model message (the model message is created from the dump when the last chunk is sent) -/
theorem render_snapshot (B term commit n d : Nat) (ans : Option Bool) :
    render B term commit (.snapshot ans) = [Msg.snap term commit ans] ∧
    (render B term commit (.snapshot ans)).filterMap (absMsgS n d) = [] := ⟨rfl, rfl⟩

end PSO.Bridge
