import PSO.Proofs.TransportMaps

/-! Inductive invariant of the transport registry model and its preservation by every operation. -/
namespace PSO.Transport

/-- The registry invariant (of the repaired code). -/
structure Inv (s : St) : Prop where
  nodup : KeysNodup s.reg
  /-- a registered object exists and delivers as the node it is registered for -/
  regCb : ∀ n c, lookup n s.reg = some c → ∃ k, s.conn? c = some k ∧ k.cb = .deliver n
  /-- an object that can still receive events and delivers as `n` is the registered object of `n` -/
  live : ∀ c k n, s.conn? c = some k → k.cb = .deliver n → k.state ≠ .disconnected → lookup n s.reg = some c
  /-- only members are registered (TCP nodes) -/
  regMem : ∀ a c, lookup (.tcp a) s.reg = some c → a ∈ s.nodes
  /-- "connected" was the last notification only for nodes whose registered object is CONNECTED -/
  viewOk : ∀ n, n ∈ s.view → ∃ c k, lookup n s.reg = some c ∧ s.conn? c = some k ∧ k.state = .connected
  /-- the object `_connectIfNecessarySingle` asserts to exist does exist -/
  dialReg : ∀ a, a ∈ s.nodes → s.shouldConnect a false = true → ∃ c, lookup (.tcp a) s.reg = some c

theorem Inv.inj {s : St} (h : Inv s) (n1 n2 : NodeId) (c : Nat)
    (h1 : lookup n1 s.reg = some c) (h2 : lookup n2 s.reg = some c) : n1 = n2 := by
  obtain ⟨k1, hk1, hc1⟩ := h.regCb n1 c h1
  obtain ⟨k2, hk2, hc2⟩ := h.regCb n2 c h2
  rw [hk1] at hk2
  cases hk2
  rw [hc1] at hc2
  cases hc2
  rfl

theorem Inv.c2n {s : St} (h : Inv s) (c : Nat) (n : NodeId) :
    connToNode c s.reg = some n ↔ lookup n s.reg = some c :=
  connToNode_iff h.nodup h.inj c n

theorem conn?_setConn (s : St) (c c' : Nat) (k : Conn) :
    (s.setConn c k).conn? c' = if c = c' then (if c < s.conns.length then some k else none) else s.conn? c' := by
  simp [St.setConn, St.conn?, List.getElem?_set]

theorem conn?_lt {s : St} {c : Nat} {k : Conn} (h : s.conn? c = some k) : c < s.conns.length := by
  unfold St.conn? at h
  exact (List.getElem?_eq_some_iff.mp h).1

/-- Transfer lemma: registry, members and own address unchanged; objects keep their callback binding; an object
is non-disconnected afterwards only if it was before or it is registered; the view clause holds afterwards. -/
theorem Inv.transfer {s s' : St} (h : Inv s)
    (hreg : s'.reg = s.reg) (hnodes : s'.nodes = s.nodes) (hself : s'.selfAddr = s.selfAddr)
    (hdom : ∀ c k, s.conn? c = some k → ∃ k', s'.conn? c = some k')
    (hconn : ∀ c k', s'.conn? c = some k' → ∃ k, s.conn? c = some k ∧ k'.cb = k.cb ∧
      (k'.state ≠ .disconnected → k.state ≠ .disconnected ∨ ∃ n, k.cb = .deliver n ∧ lookup n s.reg = some c))
    (hview : ∀ n, n ∈ s'.view → ∃ c k, lookup n s.reg = some c ∧ s'.conn? c = some k ∧ k.state = .connected) :
    Inv s' := by
  refine ⟨by rw [hreg]; exact h.nodup, ?_, ?_, ?_, ?_, ?_⟩
  · intro n c hl
    rw [hreg] at hl
    obtain ⟨k, hk, hcb⟩ := h.regCb n c hl
    obtain ⟨k', hk'⟩ := hdom c k hk
    obtain ⟨k0, hk0, hcb0, _⟩ := hconn c k' hk'
    rw [hk] at hk0; cases hk0
    exact ⟨k', hk', by rw [hcb0, hcb]⟩
  · intro c k' n hk' hcb hst
    rw [hreg]
    obtain ⟨k, hk, hcb0, hor⟩ := hconn c k' hk'
    rw [hcb0] at hcb
    rcases hor hst with h1 | ⟨n0, hn0, hl0⟩
    · exact h.live c k n hk hcb h1
    · rw [hcb] at hn0; cases hn0; exact hl0
  · intro a c hl
    rw [hreg] at hl; rw [hnodes]; exact h.regMem a c hl
  · intro n hn
    rw [hreg]; exact hview n hn
  · intro a ha hsc
    rw [hreg]
    rw [hnodes] at ha
    have : s.shouldConnect a false = true := by
      simpa [St.shouldConnect, hself] using hsc
    exact h.dialReg a ha this

/-- Changes that touch neither the registry, the members, the objects nor (except by shrinking) the view. -/
theorem Inv.frame {s s' : St} (h : Inv s)
    (hreg : s'.reg = s.reg) (hnodes : s'.nodes = s.nodes) (hself : s'.selfAddr = s.selfAddr)
    (hconns : s'.conns = s.conns) (hview : ∀ n, n ∈ s'.view → n ∈ s.view) : Inv s' := by
  have hc : ∀ c, s'.conn? c = s.conn? c := by intro c; simp [St.conn?, hconns]
  refine h.transfer hreg hnodes hself ?_ ?_ ?_
  · intro c k hk; exact ⟨k, by rw [hc]; exact hk⟩
  · intro c k' hk'; rw [hc] at hk'; exact ⟨k', hk', rfl, fun hs => Or.inl hs⟩
  · intro n hn
    obtain ⟨c, k, hl, hk, hst⟩ := h.viewOk n (hview n hn)
    exact ⟨c, k, hl, by rw [hc]; exact hk, hst⟩

theorem Inv.emit {s : St} (h : Inv s) (o : Out) : Inv (s.emit o) :=
  h.frame rfl rfl rfl rfl (fun _ hn => hn)

/-- Replace the record of object `c` by one with the same callback binding, possibly shrinking the view and
changing fields the invariant does not read. -/
theorem Inv.setConn' {s s' : St} (h : Inv s) {c : Nat} {k k' : Conn}
    (hreg : s'.reg = s.reg) (hnodes : s'.nodes = s.nodes) (hself : s'.selfAddr = s.selfAddr)
    (hconns : s'.conns = s.conns.set c k')
    (hk : s.conn? c = some k) (hcb : k'.cb = k.cb)
    (hlive : k'.state ≠ .disconnected → k.state ≠ .disconnected ∨ ∃ n, k.cb = .deliver n ∧ lookup n s.reg = some c)
    (hview : ∀ n, n ∈ s'.view → n ∈ s.view ∧ (lookup n s.reg = some c → k'.state = .connected)) :
    Inv s' := by
  have hlt := conn?_lt hk
  have hc : ∀ c1, s'.conn? c1 = if c = c1 then some k' else s.conn? c1 := by
    intro c1
    simp only [St.conn?, hconns, List.getElem?_set]
    by_cases e : c = c1
    · simp [e, e ▸ hlt]
    · simp [e]
  refine h.transfer hreg hnodes hself ?_ ?_ ?_
  · intro c1 k1 hk1
    rw [hc]
    by_cases e : c = c1
    · simp [e]
    · simp [e, hk1]
  · intro c1 k1 hk1
    rw [hc] at hk1
    by_cases e : c = c1
    · subst e
      simp at hk1
      subst hk1
      exact ⟨k, hk, hcb, hlive⟩
    · simp [e] at hk1
      exact ⟨k1, hk1, rfl, fun hs => Or.inl hs⟩
  · intro n hn
    obtain ⟨hn1, hn2⟩ := hview n hn
    obtain ⟨c1, k1, hl, hk1, hst⟩ := h.viewOk n hn1
    refine ⟨c1, ?_⟩
    by_cases e : c = c1
    · subst e
      exact ⟨k', hl, by rw [hc]; simp, hn2 hl⟩
    · exact ⟨k1, hl, by rw [hc]; simp [e, hk1], hst⟩

theorem Inv.setConn {s : St} (h : Inv s) {c : Nat} {k k' : Conn} (hk : s.conn? c = some k) (hcb : k'.cb = k.cb)
    (hlive : k'.state ≠ .disconnected → k.state ≠ .disconnected ∨ ∃ n, k.cb = .deliver n ∧ lookup n s.reg = some c)
    (hview : ∀ n, n ∈ s.view → lookup n s.reg = some c → k'.state = .connected) :
    Inv (s.setConn c k') :=
  h.setConn' (s' := s.setConn c k') rfl rfl rfl rfl hk hcb hlive (fun n hn => ⟨hn, hview n hn⟩)

/-! ### `_connectIfNecessarySingle`, `disconnect` -/

theorem Inv.connConnect {s : St} (h : Inv s) {a c : Nat} (f : Bool) (hl : lookup (.tcp a) s.reg = some c)
    (hdead : ∀ k, s.conn? c = some k → k.state = .disconnected) : Inv (s.connConnect c f) := by
  unfold St.connConnect
  cases hk : s.conn? c with
  | none => simpa using h
  | some k =>
    simp only
    obtain ⟨k0, hk0, hcb0⟩ := h.regCb _ _ hl
    rw [hk] at hk0; cases hk0
    refine h.setConn hk rfl (fun _ => Or.inr ⟨_, hcb0, hl⟩) ?_
    intro n hn hln
    exfalso
    obtain ⟨c1, k1, hl1, hk1, hst⟩ := h.viewOk n hn
    rw [hln] at hl1; cases hl1
    rw [hk] at hk1; cases hk1
    rw [hdead k hk] at hst
    cases hst

theorem Inv.connectSingle {s : St} (h : Inv s) (a : Nat) (p f : Bool) : Inv (s.connectSingle a p f) := by
  unfold St.connectSingle
  by_cases h1 : s.regLive (NodeId.tcp a) = true
  · simp only [h1, if_true]; exact h
  · simp only [h1]
    by_cases h2 : (!s.shouldConnect a p) = true
    · simp only [h2, if_true]; exact h
    · simp only [h2]
      cases hl : lookup (NodeId.tcp a) s.reg with
      | none => exact h.emit _
      | some c =>
        simp only
        by_cases h3 : s.recent a = true
        · simp only [h3, if_true]; exact h
        · simp only [h3]
          have hI : Inv { s with lastAttempt := setKey a s.now s.lastAttempt } :=
            h.frame rfl rfl rfl rfl (fun _ hn => hn)
          refine hI.connConnect f (a := a) hl ?_
          intro k hk
          have hk' : s.conn? c = some k := hk
          simp [St.regLive, St.regConn, hl, hk'] at h1
          exact h1

/-- The effect of `disconnect()` on an object that is not DISCONNECTED. -/
theorem Inv.onDisconnected {s : St} (h : Inv s) {c : Nat} {k : Conn} (hk : s.conn? c = some k)
    (p : Option NodeId) (f : Bool) :
    Inv ((s.setConn c { k with state := .disconnected, gen := k.gen + 1 }).onDisconnected c p f) := by
  unfold St.onDisconnected
  simp only
  have hreg : (s.setConn c { k with state := .disconnected, gen := k.gen + 1 }).reg = s.reg := rfl
  simp only [hreg]
  cases hn : connToNode c s.reg with
  | none =>
    simp only
    refine h.setConn' (k' := { k with state := .disconnected, gen := k.gen + 1 }) rfl rfl rfl rfl hk rfl
      (fun hs => absurd rfl hs) ?_
    intro n hv
    refine ⟨hv, fun hl => ?_⟩
    rw [(h.c2n c n).mpr hl] at hn
    cases hn
  | some n =>
    simp only
    have hl : lookup n s.reg = some c := (h.c2n c n).mp hn
    have hbase : ∀ (s' : St), s'.reg = s.reg → s'.nodes = s.nodes → s'.selfAddr = s.selfAddr →
        s'.conns = s.conns.set c { k with state := .disconnected, gen := k.gen + 1 } →
        s'.view = eraseAll n s.view → Inv s' := by
      intro s' e1 e2 e3 e4 e5
      refine h.setConn' (k' := { k with state := .disconnected, gen := k.gen + 1 }) e1 e2 e3 e4 hk rfl
        (fun hs => absurd rfl hs) ?_
      intro n' hv
      rw [e5] at hv
      obtain ⟨hv1, hv2⟩ := mem_eraseAll.mp hv
      refine ⟨hv1, fun hl' => ?_⟩
      exact absurd (h.inj _ _ _ hl' hl) hv2
    split
    · cases n with
      | tcp a =>
        simp only
        refine Inv.connectSingle ?_ a _ f
        exact hbase _ rfl rfl rfl rfl rfl
      | ro r =>
        simp only
        exact hbase _ rfl rfl rfl rfl rfl
    · cases n with
      | tcp a => simp only; exact hbase _ rfl rfl rfl rfl rfl
      | ro r => simp only; exact hbase _ rfl rfl rfl rfl rfl

theorem Inv.connDisconnect {s : St} (h : Inv s) (c : Nat) (p : Option NodeId) (f : Bool) :
    Inv (s.connDisconnect c p f) := by
  unfold St.connDisconnect
  cases hk : s.conn? c with
  | none => exact h
  | some k =>
    simp only
    split
    · exact h
    · exact h.onDisconnected hk p f

/-! ### What `disconnect()` of one object does to the records of the objects -/

theorem conn?_connConnect (s : St) (x c : Nat) (f : Bool) :
    (s.connConnect x f).conn? c =
      if x = c then (s.conn? c).map (fun k => { k with state := if f then .disconnected else .connecting,
                                                       lastRead := s.now })
      else s.conn? c := by
  unfold St.connConnect
  cases hx : s.conn? x with
  | none =>
    by_cases e : x = c
    · subst e; simp [hx]
    · simp [e]
  | some k =>
    simp only [conn?_setConn]
    by_cases e : x = c
    · subst e; simp [hx, conn?_lt hx]
    · simp [e]

theorem connectSingle_cases (s : St) (a : Nat) (p f : Bool) :
    s.connectSingle a p f = s ∨
    (lookup (NodeId.tcp a) s.reg = none ∧ s.connectSingle a p f = s.emit .raised) ∨
    (∃ x, lookup (NodeId.tcp a) s.reg = some x ∧ s.regLive (NodeId.tcp a) = false ∧
      s.shouldConnect a p = true ∧ s.recent a = false ∧
      s.connectSingle a p f = ({ s with lastAttempt := setKey a s.now s.lastAttempt }).connConnect x f) := by
  unfold St.connectSingle
  by_cases h1 : s.regLive (NodeId.tcp a) = true
  · left; simp [h1]
  · by_cases h2 : s.shouldConnect a p = true
    · cases hl : lookup (NodeId.tcp a) s.reg with
      | none => right; left; simp [h1, h2]
      | some x =>
        by_cases h3 : s.recent a = true
        · left; simp [h1, h2, h3]
        · right; right
          refine ⟨x, rfl, by simpa using h1, h2, by simpa using h3, ?_⟩
          simp [h1, h2, h3]
    · left; simp [h1, h2]

/-- `_connectIfNecessarySingle` touches at most the registered object of the node, keeps its `gen`. -/
theorem conn?_connectSingle (s : St) (a c : Nat) (p f : Bool) :
    (s.connectSingle a p f).conn? c = s.conn? c ∨
    (lookup (NodeId.tcp a) s.reg = some c ∧ ∃ k k', s.conn? c = some k ∧ k.state = .disconnected ∧
      (s.connectSingle a p f).conn? c = some k' ∧ k'.gen = k.gen ∧ k'.cb = k.cb ∧ k'.dialled = k.dialled ∧
      k'.state ≠ .connected) := by
  rcases connectSingle_cases s a p f with e | ⟨_, e⟩ | ⟨x, hl, h1, _, _, e⟩
  · left; rw [e]
  · left; rw [e]; rfl
  · rw [e, conn?_connConnect]
    by_cases ex : x = c
    · subst ex
      cases hk : s.conn? x with
      | none =>
        left
        have hk' : St.conn? { s with lastAttempt := setKey a s.now s.lastAttempt } x = none := hk
        simp [hk']
      | some k =>
        right
        have hk' : St.conn? { s with lastAttempt := setKey a s.now s.lastAttempt } x = some k := hk
        refine ⟨hl, k, { k with state := if f then .disconnected else .connecting, lastRead := s.now }, rfl, ?_,
          by simp [hk'], rfl, rfl, rfl, ?_⟩
        · simp [St.regLive, St.regConn, hl, hk] at h1; exact h1
        · cases f <;> simp
    · left; simp [ex]; rfl

theorem conn?_onDisconnected_other {s : St} (hnd : KeysNodup s.reg) {x c : Nat} (hne : c ≠ x)
    (p : Option NodeId) (f : Bool) : (s.onDisconnected x p f).conn? c = s.conn? c := by
  unfold St.onDisconnected
  simp only
  cases hn : connToNode x s.reg with
  | none => rfl
  | some n =>
    simp only
    have hl : lookup n s.reg = some x := lookup_of_mem hnd (connToNode_mem hn)
    split
    · cases n with
      | tcp a =>
        simp only
        rcases conn?_connectSingle
          ({ s with unknown := eraseAll x s.unknown, view := eraseAll (NodeId.tcp a) s.view }.emit
            (.nodeDisc (NodeId.tcp a))) a c (decide (p = some (NodeId.tcp a))) f with e | ⟨e, _⟩
        · exact e
        · have e' : lookup (NodeId.tcp a) s.reg = some c := e
          rw [hl] at e'; cases e'; exact absurd rfl hne
      | ro r => rfl
    · cases n with
      | tcp a => rfl
      | ro r => rfl

/-- `_onDisconnected` keeps `gen`, callback binding and kind of every object, and never makes one CONNECTED. -/
theorem conn?_onDisconnected (s : St) (x c : Nat) (p : Option NodeId) (f : Bool) :
    (s.onDisconnected x p f).conn? c = s.conn? c ∨
    ∃ k k', s.conn? c = some k ∧ k.state = .disconnected ∧ (s.onDisconnected x p f).conn? c = some k' ∧
      k'.gen = k.gen ∧ k'.cb = k.cb ∧ k'.dialled = k.dialled ∧ k'.state ≠ .connected := by
  unfold St.onDisconnected
  simp only
  cases hn : connToNode x s.reg with
  | none => left; rfl
  | some n =>
    simp only
    split
    · cases n with
      | tcp a =>
        simp only
        rcases conn?_connectSingle
          ({ s with unknown := eraseAll x s.unknown, view := eraseAll (NodeId.tcp a) s.view }.emit
            (.nodeDisc (NodeId.tcp a))) a c (decide (p = some (NodeId.tcp a))) f with e | ⟨_, k, k', e1, e2, e3, e4⟩
        · left; exact e
        · right; exact ⟨k, k', e1, e2, e3, e4⟩
      | ro r => left; rfl
    · cases n with
      | tcp a => left; rfl
      | ro r => left; rfl

theorem conn?_connDisconnect_other {s : St} (hnd : KeysNodup s.reg) {x c : Nat} (hne : c ≠ x)
    (p : Option NodeId) (f : Bool) : (s.connDisconnect x p f).conn? c = s.conn? c := by
  unfold St.connDisconnect
  cases hk : s.conn? x with
  | none => rfl
  | some k =>
    simp only
    split
    · rfl
    · rw [conn?_onDisconnected_other (s := s.setConn x _) hnd hne, conn?_setConn]
      have : ¬ x = c := fun e => hne e.symm
      simp [this]

/-- Disconnecting a non-DISCONNECTED object bumps its `gen`; it is not CONNECTED afterwards. -/
theorem conn?_connDisconnect_self {s : St} {c : Nat} {k : Conn} (hk : s.conn? c = some k)
    (hst : k.state ≠ .disconnected) (p : Option NodeId) (f : Bool) :
    ∃ k', (s.connDisconnect c p f).conn? c = some k' ∧ k'.gen = k.gen + 1 ∧ k'.cb = k.cb ∧
      k'.dialled = k.dialled ∧ k'.state ≠ .connected := by
  unfold St.connDisconnect
  simp only [hk, hst, if_false]
  have hlt := conn?_lt hk
  have h0 : (s.setConn c { k with state := .disconnected, gen := k.gen + 1 }).conn? c =
      some { k with state := .disconnected, gen := k.gen + 1 } := by
    rw [conn?_setConn]; simp [hlt]
  rcases conn?_onDisconnected (s.setConn c { k with state := .disconnected, gen := k.gen + 1 }) c c p f with
    e | ⟨k1, k2, e1, _, e3, e4, e5, e6, e7⟩
  · rw [e, h0]; exact ⟨_, rfl, rfl, rfl, rfl, by simp⟩
  · rw [h0] at e1; cases e1
    exact ⟨k2, e3, e4, e5, e6, e7⟩

/-- Any `disconnect()`: every object keeps callback binding and kind, `gen` does not decrease, and an object is
CONNECTED afterwards only if it was, with the same `gen`. -/
theorem conn?_connDisconnect (s : St) (x c : Nat) (p : Option NodeId) (f : Bool) :
    (s.connDisconnect x p f).conn? c = s.conn? c ∨
    ∃ k k', s.conn? c = some k ∧ (s.connDisconnect x p f).conn? c = some k' ∧ k.gen ≤ k'.gen ∧ k'.cb = k.cb ∧
      k'.dialled = k.dialled ∧ k'.state ≠ .connected := by
  unfold St.connDisconnect
  cases hk : s.conn? x with
  | none => left; rfl
  | some k =>
    simp only
    split
    · left; rfl
    · have hlt := conn?_lt hk
      rcases conn?_onDisconnected (s.setConn x { k with state := .disconnected, gen := k.gen + 1 }) x c p f with
        e | ⟨k1, k2, e1, e2, e3, e4, e5, e6, e7⟩
      · rw [e, conn?_setConn]
        by_cases ex : x = c
        · subst ex
          right
          exact ⟨k, { k with state := .disconnected, gen := k.gen + 1 }, hk, by simp [hlt], by simp, rfl, rfl,
            by simp⟩
        · left; simp [ex]
      · rw [conn?_setConn] at e1
        by_cases ex : x = c
        · subst ex
          simp [hlt] at e1
          subst e1
          right
          refine ⟨k, k2, hk, e3, ?_, e5, e6, e7⟩
          simp at e4; omega
        · simp [ex] at e1
          right
          exact ⟨k1, k2, e1, e3, by omega, e5, e6, e7⟩

/-! ### Fields that `connect` / `disconnect` never touch -/

/-- Agreement on the fields no connection-level operation changes. -/
def SameCfg (s s' : St) : Prop :=
  s'.reg = s.reg ∧ s'.nodes = s.nodes ∧ s'.selfAddr = s.selfAddr ∧ s'.now = s.now ∧ s'.retry = s.retry ∧
  s'.timeout = s.timeout ∧ s'.roCounter = s.roCounter ∧ s'.conns.length = s.conns.length

theorem SameCfg.refl (s : St) : SameCfg s s := ⟨rfl, rfl, rfl, rfl, rfl, rfl, rfl, rfl⟩

theorem SameCfg.trans {a b c : St} (h1 : SameCfg a b) (h2 : SameCfg b c) : SameCfg a c := by
  obtain ⟨a1, a2, a3, a4, a5, a6, a7, a8⟩ := h1
  obtain ⟨b1, b2, b3, b4, b5, b6, b7, b8⟩ := h2
  exact ⟨b1.trans a1, b2.trans a2, b3.trans a3, b4.trans a4, b5.trans a5, b6.trans a6, b7.trans a7, b8.trans a8⟩

theorem sameCfg_setConn (s : St) (c : Nat) (k : Conn) : SameCfg s (s.setConn c k) :=
  ⟨rfl, rfl, rfl, rfl, rfl, rfl, rfl, by simp [St.setConn]⟩

theorem sameCfg_connConnect (s : St) (c : Nat) (f : Bool) : SameCfg s (s.connConnect c f) := by
  unfold St.connConnect
  cases s.conn? c with
  | none => exact SameCfg.refl s
  | some k => exact sameCfg_setConn s c _

theorem sameCfg_connectSingle (s : St) (a : Nat) (p f : Bool) : SameCfg s (s.connectSingle a p f) := by
  rcases connectSingle_cases s a p f with e | ⟨_, e⟩ | ⟨x, _, _, _, _, e⟩
  · rw [e]; exact SameCfg.refl s
  · rw [e]; exact ⟨rfl, rfl, rfl, rfl, rfl, rfl, rfl, rfl⟩
  · rw [e]
    exact SameCfg.trans (b := { s with lastAttempt := setKey a s.now s.lastAttempt })
      ⟨rfl, rfl, rfl, rfl, rfl, rfl, rfl, rfl⟩ (sameCfg_connConnect _ x f)

theorem sameCfg_onDisconnected (s : St) (c : Nat) (p : Option NodeId) (f : Bool) :
    SameCfg s (s.onDisconnected c p f) := by
  unfold St.onDisconnected
  simp only
  cases connToNode c s.reg with
  | none => exact ⟨rfl, rfl, rfl, rfl, rfl, rfl, rfl, rfl⟩
  | some n =>
    simp only
    split
    · cases n with
      | tcp a =>
        simp only
        exact SameCfg.trans (b := ({ s with unknown := eraseAll c s.unknown,
                                            view := eraseAll (NodeId.tcp a) s.view }.emit (.nodeDisc (NodeId.tcp a))))
          ⟨rfl, rfl, rfl, rfl, rfl, rfl, rfl, rfl⟩ (sameCfg_connectSingle _ a _ f)
      | ro r => exact ⟨rfl, rfl, rfl, rfl, rfl, rfl, rfl, rfl⟩
    · cases n with
      | tcp a => exact ⟨rfl, rfl, rfl, rfl, rfl, rfl, rfl, rfl⟩
      | ro r => exact ⟨rfl, rfl, rfl, rfl, rfl, rfl, rfl, rfl⟩

theorem sameCfg_connDisconnect (s : St) (c : Nat) (p : Option NodeId) (f : Bool) :
    SameCfg s (s.connDisconnect c p f) := by
  unfold St.connDisconnect
  cases s.conn? c with
  | none => exact SameCfg.refl s
  | some k =>
    simp only
    split
    · exact SameCfg.refl s
    · exact SameCfg.trans (sameCfg_setConn s c _) (sameCfg_onDisconnected _ c p f)

theorem connectSingle_prevent (s : St) (a : Nat) (f : Bool) : s.connectSingle a true f = s := by
  unfold St.connectSingle
  simp [St.shouldConnect]

/-- `_onDisconnected` while the node is in `_preventConnectNodes` changes no object. -/
theorem conn?_onDisconnected_prevented {s : St} (hnd : KeysNodup s.reg) {n : NodeId} {x : Nat}
    (hinj : ∀ n', lookup n' s.reg = some x → n' = n) (f : Bool) (c : Nat) :
    (s.onDisconnected x (some n) f).conn? c = s.conn? c := by
  unfold St.onDisconnected
  simp only
  cases hn : connToNode x s.reg with
  | none => rfl
  | some n' =>
    have : n' = n := hinj n' (lookup_of_mem hnd (connToNode_mem hn))
    subst this
    simp only
    split
    · cases n' with
      | tcp a => simp only [decide_true, connectSingle_prevent]; rfl
      | ro r => rfl
    · cases n' with
      | tcp a => rfl
      | ro r => rfl

/-- `disconnect()` performed while the node is in `_preventConnectNodes` leaves the object DISCONNECTED. -/
theorem connDisconnect_prevented {s : St} (hnd : KeysNodup s.reg) {n : NodeId} {x : Nat}
    (hinj : ∀ n', lookup n' s.reg = some x → n' = n) (f : Bool) :
    ∀ k', (s.connDisconnect x (some n) f).conn? x = some k' → k'.state = .disconnected := by
  intro k' hk'
  unfold St.connDisconnect at hk'
  cases hk : s.conn? x with
  | none => rw [hk] at hk'; simp at hk'; rw [hk] at hk'; cases hk'
  | some k =>
    rw [hk] at hk'
    simp only at hk'
    by_cases hd : k.state = .disconnected
    · simp only [hd, if_true] at hk'
      rw [hk] at hk'; cases hk'; exact hd
    · simp only [hd, if_false] at hk'
      have hlt := conn?_lt hk
      rw [conn?_onDisconnected_prevented (s := s.setConn x _) hnd hinj, conn?_setConn] at hk'
      simp [hlt] at hk'
      subst hk'
      rfl

end PSO.Transport
