import PSO.Proofs.TransportMaps

/-! Inductive invariant of the transport registry model and its preservation by every operation. -/
namespace PSO.Transport

/-- The registry invariant (of the repaired code). -/
structure Inv (s : St) : Prop where
  nodup : KeysNodup s.reg
  /-- a registered object exists and delivers as the node it is registered for -/
  regCb : ∀ n c, lookup n s.reg = some c → ∃ k, s.conn? c = some k ∧ k.cb = .deliver n
  /-- an object that can still receive events and delivers as `n` is the registered object of `n` -/
  live : ∀ c k n, s.conn? c = some k → k.cb = .deliver n → k.state ≠ .disconnected → lookup n s.reg = some c
  /-- only members are registered (TCP nodes) -/
  regMem : ∀ a c, lookup (.tcp a) s.reg = some c → a ∈ s.nodes
  /-- "connected" was the last notification only for nodes whose registered object is CONNECTED -/
  viewOk : ∀ n, n ∈ s.view → ∃ c k, lookup n s.reg = some c ∧ s.conn? c = some k ∧ k.state = .connected
  /-- the object `_connectIfNecessarySingle` asserts to exist does exist -/
  dialReg : ∀ a, a ∈ s.nodes → s.shouldConnect a false = true → ∃ c, lookup (.tcp a) s.reg = some c

theorem Inv.inj {s : St} (h : Inv s) (n1 n2 : NodeId) (c : Nat)
    (h1 : lookup n1 s.reg = some c) (h2 : lookup n2 s.reg = some c) : n1 = n2 := by
  obtain ⟨k1, hk1, hc1⟩ := h.regCb n1 c h1
  obtain ⟨k2, hk2, hc2⟩ := h.regCb n2 c h2
  rw [hk1] at hk2
  cases hk2
  rw [hc1] at hc2
  cases hc2
  rfl

theorem Inv.c2n {s : St} (h : Inv s) (c : Nat) (n : NodeId) :
    connToNode c s.reg = some n ↔ lookup n s.reg = some c :=
  connToNode_iff h.nodup h.inj c n

theorem conn?_setConn (s : St) (c c' : Nat) (k : Conn) :
    (s.setConn c k).conn? c' = if c = c' then (if c < s.conns.length then some k else none) else s.conn? c' := by
  simp [St.setConn, St.conn?, List.getElem?_set]

theorem conn?_lt {s : St} {c : Nat} {k : Conn} (h : s.conn? c = some k) : c < s.conns.length := by
  unfold St.conn? at h
  exact (List.getElem?_eq_some_iff.mp h).1

/-- Transfer lemma: registry, members and own address unchanged; objects keep their callback binding; an object
is non-disconnected afterwards only if it was before or it is registered; the view clause holds afterwards. -/
theorem Inv.transfer {s s' : St} (h : Inv s)
    (hreg : s'.reg = s.reg) (hnodes : s'.nodes = s.nodes) (hself : s'.selfAddr = s.selfAddr)
    (hdom : ∀ c k, s.conn? c = some k → ∃ k', s'.conn? c = some k')
    (hconn : ∀ c k', s'.conn? c = some k' → ∃ k, s.conn? c = some k ∧ k'.cb = k.cb ∧
      (k'.state ≠ .disconnected → k.state ≠ .disconnected ∨ ∃ n, k.cb = .deliver n ∧ lookup n s.reg = some c))
    (hview : ∀ n, n ∈ s'.view → ∃ c k, lookup n s.reg = some c ∧ s'.conn? c = some k ∧ k.state = .connected) :
    Inv s' := by
  refine ⟨by rw [hreg]; exact h.nodup, ?_, ?_, ?_, ?_, ?_⟩
  · intro n c hl
    rw [hreg] at hl
    obtain ⟨k, hk, hcb⟩ := h.regCb n c hl
    obtain ⟨k', hk'⟩ := hdom c k hk
    obtain ⟨k0, hk0, hcb0, _⟩ := hconn c k' hk'
    rw [hk] at hk0; cases hk0
    exact ⟨k', hk', by rw [hcb0, hcb]⟩
  · intro c k' n hk' hcb hst
    rw [hreg]
    obtain ⟨k, hk, hcb0, hor⟩ := hconn c k' hk'
    rw [hcb0] at hcb
    rcases hor hst with h1 | ⟨n0, hn0, hl0⟩
    · exact h.live c k n hk hcb h1
    · rw [hcb] at hn0; cases hn0; exact hl0
  · intro a c hl
    rw [hreg] at hl; rw [hnodes]; exact h.regMem a c hl
  · intro n hn
    rw [hreg]; exact hview n hn
  · intro a ha hsc
    rw [hreg]
    rw [hnodes] at ha
    have : s.shouldConnect a false = true := by
      simpa [St.shouldConnect, hself] using hsc
    exact h.dialReg a ha this

/-- Changes that touch neither the registry, the members, the objects nor (except by shrinking) the view. -/
theorem Inv.frame {s s' : St} (h : Inv s)
    (hreg : s'.reg = s.reg) (hnodes : s'.nodes = s.nodes) (hself : s'.selfAddr = s.selfAddr)
    (hconns : s'.conns = s.conns) (hview : ∀ n, n ∈ s'.view → n ∈ s.view) : Inv s' := by
  have hc : ∀ c, s'.conn? c = s.conn? c := by intro c; simp [St.conn?, hconns]
  refine h.transfer hreg hnodes hself ?_ ?_ ?_
  · intro c k hk; exact ⟨k, by rw [hc]; exact hk⟩
  · intro c k' hk'; rw [hc] at hk'; exact ⟨k', hk', rfl, fun hs => Or.inl hs⟩
  · intro n hn
    obtain ⟨c, k, hl, hk, hst⟩ := h.viewOk n (hview n hn)
    exact ⟨c, k, hl, by rw [hc]; exact hk, hst⟩

theorem Inv.emit {s : St} (h : Inv s) (o : Out) : Inv (s.emit o) :=
  h.frame rfl rfl rfl rfl (fun _ hn => hn)

/-- Replace the record of object `c` by one with the same callback binding, possibly shrinking the view and
changing fields the invariant does not read. -/
theorem Inv.setConn' {s s' : St} (h : Inv s) {c : Nat} {k k' : Conn}
    (hreg : s'.reg = s.reg) (hnodes : s'.nodes = s.nodes) (hself : s'.selfAddr = s.selfAddr)
    (hconns : s'.conns = s.conns.set c k')
    (hk : s.conn? c = some k) (hcb : k'.cb = k.cb)
    (hlive : k'.state ≠ .disconnected → k.state ≠ .disconnected ∨ ∃ n, k.cb = .deliver n ∧ lookup n s.reg = some c)
    (hview : ∀ n, n ∈ s'.view → n ∈ s.view ∧ (lookup n s.reg = some c → k'.state = .connected)) :
    Inv s' := by
  have hlt := conn?_lt hk
  have hc : ∀ c1, s'.conn? c1 = if c = c1 then some k' else s.conn? c1 := by
    intro c1
    simp only [St.conn?, hconns, List.getElem?_set]
    by_cases e : c = c1
    · simp [e, e ▸ hlt]
    · simp [e]
  refine h.transfer hreg hnodes hself ?_ ?_ ?_
  · intro c1 k1 hk1
    rw [hc]
    by_cases e : c = c1
    · simp [e]
    · simp [e, hk1]
  · intro c1 k1 hk1
    rw [hc] at hk1
    by_cases e : c = c1
    · subst e
      simp at hk1
      subst hk1
      exact ⟨k, hk, hcb, hlive⟩
    · simp [e] at hk1
      exact ⟨k1, hk1, rfl, fun hs => Or.inl hs⟩
  · intro n hn
    obtain ⟨hn1, hn2⟩ := hview n hn
    obtain ⟨c1, k1, hl, hk1, hst⟩ := h.viewOk n hn1
    refine ⟨c1, ?_⟩
    by_cases e : c = c1
    · subst e
      exact ⟨k', hl, by rw [hc]; simp, hn2 hl⟩
    · exact ⟨k1, hl, by rw [hc]; simp [e, hk1], hst⟩

theorem Inv.setConn {s : St} (h : Inv s) {c : Nat} {k k' : Conn} (hk : s.conn? c = some k) (hcb : k'.cb = k.cb)
    (hlive : k'.state ≠ .disconnected → k.state ≠ .disconnected ∨ ∃ n, k.cb = .deliver n ∧ lookup n s.reg = some c)
    (hview : ∀ n, n ∈ s.view → lookup n s.reg = some c → k'.state = .connected) :
    Inv (s.setConn c k') :=
  h.setConn' (s' := s.setConn c k') rfl rfl rfl rfl hk hcb hlive (fun n hn => ⟨hn, hview n hn⟩)

/-! ### `_connectIfNecessarySingle`, `disconnect` -/

theorem Inv.connConnect {s : St} (h : Inv s) {a c : Nat} (f : Bool) (hl : lookup (.tcp a) s.reg = some c)
    (hdead : ∀ k, s.conn? c = some k → k.state = .disconnected) : Inv (s.connConnect c f) := by
  unfold St.connConnect
  cases hk : s.conn? c with
  | none => simpa using h
  | some k =>
    simp only
    obtain ⟨k0, hk0, hcb0⟩ := h.regCb _ _ hl
    rw [hk] at hk0; cases hk0
    refine h.setConn hk rfl (fun _ => Or.inr ⟨_, hcb0, hl⟩) ?_
    intro n hn hln
    exfalso
    obtain ⟨c1, k1, hl1, hk1, hst⟩ := h.viewOk n hn
    rw [hln] at hl1; cases hl1
    rw [hk] at hk1; cases hk1
    rw [hdead k hk] at hst
    cases hst

theorem Inv.connectSingle {s : St} (h : Inv s) (a : Nat) (p f : Bool) : Inv (s.connectSingle a p f) := by
  unfold St.connectSingle
  by_cases h1 : s.regLive (NodeId.tcp a) = true
  · simp only [h1, if_true]; exact h
  · simp only [h1]
    by_cases h2 : (!s.shouldConnect a p) = true
    · simp only [h2, if_true]; exact h
    · simp only [h2]
      cases hl : lookup (NodeId.tcp a) s.reg with
      | none => exact h.emit _
      | some c =>
        simp only
        by_cases h3 : s.recent a = true
        · simp only [h3, if_true]; exact h
        · simp only [h3]
          have hI : Inv { s with lastAttempt := setKey a s.now s.lastAttempt } :=
            h.frame rfl rfl rfl rfl (fun _ hn => hn)
          refine hI.connConnect f (a := a) hl ?_
          intro k hk
          have hk' : s.conn? c = some k := hk
          simp [St.regLive, St.regConn, hl, hk'] at h1
          exact h1

/-- The effect of `disconnect()` on an object that is not DISCONNECTED. -/
theorem Inv.onDisconnected {s : St} (h : Inv s) {c : Nat} {k : Conn} (hk : s.conn? c = some k)
    (p : Option NodeId) (f : Bool) :
    Inv ((s.setConn c { k with state := .disconnected, gen := k.gen + 1 }).onDisconnected c p f) := by
  unfold St.onDisconnected
  simp only
  have hreg : (s.setConn c { k with state := .disconnected, gen := k.gen + 1 }).reg = s.reg := rfl
  simp only [hreg]
  cases hn : connToNode c s.reg with
  | none =>
    simp only
    refine h.setConn' (k' := { k with state := .disconnected, gen := k.gen + 1 }) rfl rfl rfl rfl hk rfl
      (fun hs => absurd rfl hs) ?_
    intro n hv
    refine ⟨hv, fun hl => ?_⟩
    rw [(h.c2n c n).mpr hl] at hn
    cases hn
  | some n =>
    simp only
    have hl : lookup n s.reg = some c := (h.c2n c n).mp hn
    have hbase : ∀ (s' : St), s'.reg = s.reg → s'.nodes = s.nodes → s'.selfAddr = s.selfAddr →
        s'.conns = s.conns.set c { k with state := .disconnected, gen := k.gen + 1 } →
        s'.view = eraseAll n s.view → Inv s' := by
      intro s' e1 e2 e3 e4 e5
      refine h.setConn' (k' := { k with state := .disconnected, gen := k.gen + 1 }) e1 e2 e3 e4 hk rfl
        (fun hs => absurd rfl hs) ?_
      intro n' hv
      rw [e5] at hv
      obtain ⟨hv1, hv2⟩ := mem_eraseAll.mp hv
      refine ⟨hv1, fun hl' => ?_⟩
      exact absurd (h.inj _ _ _ hl' hl) hv2
    split
    · cases n with
      | tcp a =>
        simp only
        exact (hbase _ rfl rfl rfl rfl rfl).connectSingle a _ f
      | ro r =>
        simp only
        exact hbase _ rfl rfl rfl rfl rfl
    · cases n with
      | tcp a => exact hbase _ rfl rfl rfl rfl rfl
      | ro r => exact hbase _ rfl rfl rfl rfl rfl

theorem Inv.connDisconnect {s : St} (h : Inv s) (c : Nat) (p : Option NodeId) (f : Bool) :
    Inv (s.connDisconnect c p f) := by
  unfold St.connDisconnect
  cases hk : s.conn? c with
  | none => exact h
  | some k =>
    simp only
    split
    · exact h
    · exact h.onDisconnected hk p f

end PSO.Transport
